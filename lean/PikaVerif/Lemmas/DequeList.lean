/-! List toolkit for the deque proofs: adjacency in a duplicate-free list and the two ends. -/
namespace PikaVerif.Deque

/-- `a` is immediately followed by `b` in the list -/
def Adj : List Nat → Nat → Nat → Prop
  | x :: y :: l, a, b => (x = a ∧ y = b) ∨ Adj (y :: l) a b
  | _, _, _ => False

@[simp] theorem adj_nil (a b : Nat) : Adj [] a b = False := by simp [Adj]
@[simp] theorem adj_single (x a b : Nat) : Adj [x] a b = False := by simp [Adj]
theorem adj_cons_cons (x y : Nat) (l : List Nat) (a b : Nat) :
    Adj (x :: y :: l) a b ↔ (x = a ∧ y = b) ∨ Adj (y :: l) a b := by simp [Adj]

theorem adj_cons (x : Nat) (l : List Nat) (a b : Nat) :
    Adj (x :: l) a b ↔ (x = a ∧ l.head? = some b) ∨ Adj l a b := by
  cases l with
  | nil => simp
  | cons y l => simp [adj_cons_cons]

theorem adj_mem {l : List Nat} {a b : Nat} (h : Adj l a b) : a ∈ l ∧ b ∈ l := by
  induction l with
  | nil => simp at h
  | cons x l ih =>
    cases l with
    | nil => simp at h
    | cons y l =>
      rw [adj_cons_cons] at h
      rcases h with ⟨h1, h2⟩ | h
      · subst h1; subst h2; simp
      · have := ih h; simp at this ⊢; grind

theorem adj_snoc (l : List Nat) (n a b : Nat) :
    Adj (l ++ [n]) a b ↔ Adj l a b ∨ (l.getLast? = some a ∧ b = n) := by
  induction l with
  | nil => simp
  | cons x l ih =>
    cases l with
    | nil => simp [adj_cons_cons]; intro _; exact eq_comm
    | cons y l =>
      have e : (x :: y :: l) ++ [n] = x :: y :: (l ++ [n]) := rfl
      rw [e, adj_cons_cons, adj_cons_cons]
      have ih' := ih
      simp only [List.cons_append] at ih'
      rw [ih']
      simp [List.getLast?_cons_cons]
      constructor
      · rintro (h | h | h)
        · exact Or.inl (Or.inl h)
        · exact Or.inl (Or.inr h)
        · exact Or.inr h
      · rintro ((h | h) | h)
        · exact Or.inl h
        · exact Or.inr (Or.inl h)
        · exact Or.inr (Or.inr h)

theorem adj_tail {l : List Nat} {a b : Nat} (h : Adj l.tail a b) : Adj l a b := by
  cases l with
  | nil => simp at h
  | cons x l => simp at h; rw [adj_cons]; exact Or.inr h

theorem adj_dropLast {l : List Nat} {a b : Nat} (h : Adj l.dropLast a b) : Adj l a b := by
  induction l with
  | nil => simp at h
  | cons x l ih =>
    cases l with
    | nil => simp at h
    | cons y l =>
      cases l with
      | nil => simp at h
      | cons z l =>
        simp only [List.dropLast_cons_cons] at h ih
        rw [adj_cons_cons] at h ⊢
        rcases h with h | h
        · exact Or.inl h
        · exact Or.inr (ih h)

end PikaVerif.Deque

namespace PikaVerif.Deque

theorem adj_ne_of_nodup {l : List Nat} (hn : l.Nodup) {a b : Nat} (h : Adj l a b) : a ≠ b := by
  induction l with
  | nil => simp at h
  | cons x l ih =>
    cases l with
    | nil => simp at h
    | cons y l =>
      rw [adj_cons_cons] at h
      rcases h with ⟨h1, h2⟩ | h
      · subst h1; subst h2; simp at hn; omega
      · exact ih (List.nodup_cons.1 hn).2 h

theorem adj_right_unique {l : List Nat} (hn : l.Nodup) {a b b' : Nat} (h : Adj l a b)
    (h' : Adj l a b') : b = b' := by
  induction l with
  | nil => simp at h
  | cons x l ih =>
    cases l with
    | nil => simp at h
    | cons y l =>
      rw [adj_cons_cons] at h h'
      have hx : x ∉ y :: l := (List.nodup_cons.1 hn).1
      rcases h with ⟨h1, h2⟩ | h <;> rcases h' with ⟨h1', h2'⟩ | h'
      · omega
      · subst h1; exact absurd (adj_mem h').1 hx
      · subst h1'; exact absurd (adj_mem h).1 hx
      · exact ih (List.nodup_cons.1 hn).2 h h'

theorem adj_left_unique {l : List Nat} (hn : l.Nodup) {a a' b : Nat} (h : Adj l a b)
    (h' : Adj l a' b) : a = a' := by
  induction l with
  | nil => simp at h
  | cons x l ih =>
    cases l with
    | nil => simp at h
    | cons y l =>
      rw [adj_cons_cons] at h h'
      have hn' := (List.nodup_cons.1 hn).2
      have hy : y ∉ l := (List.nodup_cons.1 hn').1
      rcases h with ⟨h1, h2⟩ | h <;> rcases h' with ⟨h1', h2'⟩ | h'
      · omega
      · subst h2
        cases l with
        | nil => simp at h'
        | cons z l =>
          rw [adj_cons_cons] at h'
          rcases h' with ⟨_, h3⟩ | h'
          · subst h3; simp at hy
          · exact absurd (adj_mem h').2 (by simp at hy ⊢; omega)
      · subst h2'
        cases l with
        | nil => simp at h
        | cons z l =>
          rw [adj_cons_cons] at h
          rcases h with ⟨_, h3⟩ | h
          · subst h3; simp at hy
          · exact absurd (adj_mem h).2 (by simp at hy ⊢; omega)
      · exact ih hn' h h'

/-- nothing precedes the head of a duplicate-free list -/
theorem adj_not_head {l : List Nat} (hn : l.Nodup) {a b : Nat} (h : Adj l a b) :
    l.head? ≠ some b := by
  cases l with
  | nil => simp at h
  | cons x l =>
    have hx : x ∉ l := (List.nodup_cons.1 hn).1
    rw [adj_cons] at h
    simp
    rintro rfl
    rcases h with ⟨_, h2⟩ | h
    · cases l with
      | nil => simp at h2
      | cons y l => simp at h2; subst h2; simp at hx
    · exact hx (adj_mem h).2

/-- nothing follows the last element of a duplicate-free list -/
theorem adj_not_last {l : List Nat} (hn : l.Nodup) {a b : Nat} (h : Adj l a b) :
    l.getLast? ≠ some a := by
  induction l with
  | nil => simp at h
  | cons x l ih =>
    cases l with
    | nil => simp at h
    | cons y l =>
      have hx : x ∉ y :: l := (List.nodup_cons.1 hn).1
      rw [adj_cons_cons] at h
      rw [List.getLast?_cons_cons]
      rcases h with ⟨h1, _⟩ | h
      · subst h1
        intro hl
        exact hx (List.mem_of_getLast? hl)
      · exact ih (List.nodup_cons.1 hn).2 h

theorem adj_head_exists {l : List Nat} {x : Nat} (hh : l.head? = some x) (hl : 2 ≤ l.length) :
    ∃ y, Adj l x y ∧ l.tail.head? = some y := by
  cases l with
  | nil => simp at hh
  | cons a l =>
    cases l with
    | nil => simp at hl
    | cons b l => simp at hh; subst hh; exact ⟨b, by simp [adj_cons_cons], by simp⟩

theorem adj_last_exists {l : List Nat} {x : Nat} (hh : l.getLast? = some x) (hl : 2 ≤ l.length) :
    ∃ y, Adj l y x ∧ l.dropLast.getLast? = some y := by
  induction l with
  | nil => simp at hh
  | cons a l ih =>
    cases l with
    | nil => simp at hl
    | cons b l =>
      cases l with
      | nil => simp at hh; subst hh; exact ⟨a, by simp [adj_cons_cons], by simp⟩
      | cons c l =>
        rw [List.getLast?_cons_cons] at hh
        obtain ⟨y, h1, h2⟩ := ih hh (by simp)
        refine ⟨y, ?_, ?_⟩
        · rw [adj_cons_cons]; exact Or.inr h1
        · simp only [List.dropLast_cons_cons] at h2 ⊢
          rw [List.getLast?_cons_cons]; exact h2

end PikaVerif.Deque

namespace PikaVerif.Deque
theorem dropLast_split (l : List Nat) (a : Nat) (h : l.getLast? = some a) : l = l.dropLast ++ [a] := by
  induction l with
  | nil => simp at h
  | cons x l ih =>
    cases l with
    | nil => simp at h; simp [h]
    | cons y l =>
      rw [List.getLast?_cons_cons] at h
      simp only [List.dropLast_cons_cons, List.cons_append]
      rw [← ih h]
end PikaVerif.Deque
