/-! List toolkit for the deque proofs: adjacency in a duplicate-free list and the two ends. -/
namespace PikaVerif.Deque

/-- `a` is immediately followed by `b` in the list -/
def Adj : List Nat → Nat → Nat → Prop
  | x :: y :: l, a, b => (x = a ∧ y = b) ∨ Adj (y :: l) a b
  | _, _, _ => False

@[simp] theorem adj_nil (a b : Nat) : Adj [] a b = False := by simp [Adj]
@[simp] theorem adj_single (x a b : Nat) : Adj [x] a b = False := by simp [Adj]
theorem adj_cons_cons (x y : Nat) (l : List Nat) (a b : Nat) :
    Adj (x :: y :: l) a b ↔ (x = a ∧ y = b) ∨ Adj (y :: l) a b := by simp [Adj]

theorem adj_cons (x : Nat) (l : List Nat) (a b : Nat) :
    Adj (x :: l) a b ↔ (x = a ∧ l.head? = some b) ∨ Adj l a b := by
  cases l with
  | nil => simp
  | cons y l => simp [adj_cons_cons]

theorem adj_mem {l : List Nat} {a b : Nat} (h : Adj l a b) : a ∈ l ∧ b ∈ l := by
  induction l with
  | nil => simp at h
  | cons x l ih =>
    cases l with
    | nil => simp at h
    | cons y l =>
      rw [adj_cons_cons] at h
      rcases h with ⟨h1, h2⟩ | h
      · subst h1; subst h2; simp
      · have := ih h; simp at this ⊢; grind

theorem adj_snoc (l : List Nat) (n a b : Nat) :
    Adj (l ++ [n]) a b ↔ Adj l a b ∨ (l.getLast? = some a ∧ b = n) := by
  induction l with
  | nil => simp
  | cons x l ih =>
    cases l with
    | nil => simp [adj_cons_cons]; intro _; exact eq_comm
    | cons y l =>
      have e : (x :: y :: l) ++ [n] = x :: y :: (l ++ [n]) := rfl
      rw [e, adj_cons_cons, adj_cons_cons]
      have ih' := ih
      simp only [List.cons_append] at ih'
      rw [ih']
      simp [List.getLast?_cons_cons]
      constructor
      · rintro (h | h | h)
        · exact Or.inl (Or.inl h)
        · exact Or.inl (Or.inr h)
        · exact Or.inr h
      · rintro ((h | h) | h)
        · exact Or.inl h
        · exact Or.inr (Or.inl h)
        · exact Or.inr (Or.inr h)

theorem adj_tail {l : List Nat} {a b : Nat} (h : Adj l.tail a b) : Adj l a b := by
  cases l with
  | nil => simp at h
  | cons x l => simp at h; rw [adj_cons]; exact Or.inr h

theorem adj_dropLast {l : List Nat} {a b : Nat} (h : Adj l.dropLast a b) : Adj l a b := by
  induction l with
  | nil => simp at h
  | cons x l ih =>
    cases l with
    | nil => simp at h
    | cons y l =>
      cases l with
      | nil => simp at h
      | cons z l =>
        simp only [List.dropLast_cons_cons] at h ih
        rw [adj_cons_cons] at h ⊢
        rcases h with h | h
        · exact Or.inl h
        · exact Or.inr (ih h)

end PikaVerif.Deque
