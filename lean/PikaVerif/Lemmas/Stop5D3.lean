import PikaVerif.Lemmas.Stop5
/-! Follow-up C14p: preservation of layer D (destructor versus pending callback), events group 3. -/
namespace PikaVerif.Stop
open PikaVerif
set_option maxHeartbeats 4000000

theorem stepD_unlink (s s' : St) (a c : Nat) (r : Bool) (hA : InvA s) (hB : InvB s) (hS : InvS s) (hf : Faith s) (hi : InvD s) (h : step s (.unlink a c r) = some s') : InvD s' := by stopD
theorem stepD_selfChk (s s' : St) (a c : Nat) (e p : Bool) (hA : InvA s) (hB : InvB s) (hS : InvS s) (hf : Faith s) (hi : InvD s) (h : step s (.selfChk a c e p) = some s') : InvD s' := by have hk := keyP hA hB hS hf a; stopD
theorem stepD_waited (s s' : St) (a c : Nat) (hA : InvA s) (hB : InvB s) (hS : InvS s) (hf : Faith s) (hi : InvD s) (h : step s (.waited a c) = some s') : InvD s' := by stopD
theorem stepD_srcInc (s s' : St) (a : Nat) (hA : InvA s) (hB : InvB s) (hS : InvS s) (hf : Faith s) (hi : InvD s) (h : step s (.srcInc a) = some s') : InvD s' := by stopD
theorem stepD_srcDec (s s' : St) (a : Nat) (hA : InvA s) (hB : InvB s) (hS : InvS s) (hf : Faith s) (hi : InvD s) (h : step s (.srcDec a) = some s') : InvD s' := by stopD
theorem stepD_query (s s' : St) (a : Nat) (x y : Bool) (hA : InvA s) (hB : InvB s) (hS : InvS s) (hf : Faith s) (hi : InvD s) (h : step s (.query a x y) = some s') : InvD s' := by stopD
theorem stepD_done (s s' : St) (a : Nat) (hA : InvA s) (hB : InvB s) (hS : InvS s) (hf : Faith s) (hi : InvD s) (h : step s (.done a) = some s') : InvD s' := by stopD

end PikaVerif.Stop
