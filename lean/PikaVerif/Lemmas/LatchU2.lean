import PikaVerif.Lemmas.LatchU
/-!
# Accounting of the decrements of a latch program (C09u)

`total l` = sum of the updates of the `count_down(k)` / `arrive_and_wait(k)` of a thread's list,
`free l` = the part of it that is **not behind a wait of the same thread** (updates up to and
including the first `wait` / `arrive_and_wait`), `hasWait l` = the list contains a `wait` or an
`arrive_and_wait`.

* `tot_log`: `decSum` + decrements still to come = `progTotal` (exact);
* `free_log`: `decSum` + free decrements still to come ≥ `progFree` (monotone);
* `wt_step`: while the counter stays positive a thread whose program contains a waiting operation
  is still in front of it or inside it on the blocking side;
* `finOk_step`: a finished thread has no operation left.
-/
namespace PikaVerif.Latch
open PikaVerif

def decOf : Op → Nat
  | .cd k => k
  | .aw k => k
  | _ => 0

def total : List Op → Nat
  | [] => 0
  | o :: l => decOf o + total l

/-- updates of a thread's list that are not behind a `wait` / `arrive_and_wait` of the same thread -/
def free : List Op → Nat
  | [] => 0
  | o :: l => if isWaitOp o then decOf o else decOf o + free l

def hasWait : List Op → Bool
  | [] => false
  | o :: l => isWaitOp o || hasWait l

theorem free_le_total : ∀ l, free l ≤ total l
  | [] => Nat.le_refl _
  | o :: l => by
    have := free_le_total l
    simp only [free, total]; split <;> omega

/-- decrement an invoked operation has not applied yet -/
def pend : Pc → Nat
  | .want o => decOf o
  | .awLocked k => k
  | _ => 0

/-- inside `wait` / `arrive_and_wait`, before the way out (`notify` loop / return) -/
def inWait : Pc → Bool
  | .want .wait | .want (.aw _) | .wLocked | .awLocked _ | .awZero | .mustEnq | .enq | .unl _ | .susp _
  | .wokeNL _ | .relk _ | .passing => true
  | _ => false

/-- inside `wait` / `arrive_and_wait` on the blocking side, no wake-up under way -/
def waitingPc : Pc → Bool
  | .want .wait | .want (.aw _) | .wLocked | .awLocked _ | .mustEnq | .enq | .unl false | .susp false => true
  | _ => false

theorem sumTo_change {n : Nat} {f f' : Nat → Nat} {t : Nat} (ht : t < n)
    (h : ∀ u, u ≠ t → f' u = f u) : sumTo n f' + f t = sumTo n f + f' t := by
  induction n with
  | zero => exact absurd ht (Nat.not_lt_zero _)
  | succ k ih =>
    simp only [sumTo_succ]
    by_cases hk : t = k
    · subst hk
      have : sumTo t f' = sumTo t f := sumTo_congr (fun u hu => h u (by omega))
      omega
    · have := ih (by omega)
      have := h k (fun he => hk he.symm)
      omega

/-- what one accepted event other than `inv` does to `pend` / `inWait` / `decSum` -/
def AccStep (s s' : St) : Prop :=
  ∃ t, t < s.n ∧
    (∀ u, u ≠ t → pend (s'.pc u) = pend (s.pc u) ∧ inWait (s'.pc u) = inWait (s.pc u)) ∧
    s'.decSum + pend (s'.pc t) = s.decSum + pend (s.pc t) ∧
    (inWait (s'.pc t) = true → inWait (s.pc t) = true)

attribute [local grind] pend inWait decOf setPopped waitingPc

set_option hygiene false in
macro "lacc_step" t:term : tactic => `(tactic| (
  simp only [step] at h
  split at h
  case isFalse => simp at h
  rename_i hg
  have htn : $t < s.n := by grind
  repeat' split at h
  all_goals first | (simp at h; done) | skip
  all_goals (
    simp only [Option.some.injEq] at h
    subst h
    refine ⟨$t, htn, ?_, ?_, ?_⟩
    · intro u hu; simp [upd, hu]
    · simp only [upd_same]; grind
    · simp only [upd_same]; grind)))

theorem acc_ret (s s' : St) (t : Nat) (r : Bool) (h : step s (.ret t r) = some s') : AccStep s s' := by unfold AccStep; lacc_step t
theorem acc_slAcq (s s' : St) (t : Nat) (h : step s (.slAcq t) = some s') : AccStep s s' := by unfold AccStep; lacc_step t
theorem acc_slRel (s s' : St) (t : Nat) (h : step s (.slRel t) = some s') : AccStep s s' := by unfold AccStep; lacc_step t
theorem acc_dec (s s' : St) (t : Nat) (v : Int) (u : Nat) (h : step s (.dec t v u) = some s') : AccStep s s' := by unfold AccStep; lacc_step t
theorem acc_notified (s s' : St) (t : Nat) (a : Bool) (h : step s (.notified t a) = some s') : AccStep s s' := by unfold AccStep; lacc_step t
theorem acc_mustwait (s s' : St) (t : Nat) (c : Int) (b : Bool) (h : step s (.mustwait t c b) = some s') : AccStep s s' := by unfold AccStep; lacc_step t
theorem acc_nowait (s s' : St) (t : Nat) (c : Int) (b : Bool) (h : step s (.nowait t c b) = some s') : AccStep s s' := by unfold AccStep; lacc_step t
theorem acc_cvEnq (s s' : St) (t z : Nat) (h : step s (.cvEnq t z) = some s') : AccStep s s' := by unfold AccStep; lacc_step t
theorem acc_cvNone (s s' : St) (t : Nat) (h : step s (.cvNone t) = some s') : AccStep s s' := by unfold AccStep; lacc_step t
theorem acc_cvWoke (s s' : St) (t : Nat) (a : Bool) (h : step s (.cvWoke t a) = some s') : AccStep s s' := by unfold AccStep; lacc_step t
theorem acc_suspend (s s' : St) (t : Nat) (h : step s (.suspend t) = some s') : AccStep s s' := by unfold AccStep; lacc_step t
theorem acc_woke (s s' : St) (t : Nat) (h : step s (.woke t) = some s') : AccStep s s' := by unfold AccStep; lacc_step t
theorem acc_done (s s' : St) (t : Nat) (h : step s (.done t) = some s') : AccStep s s' := by unfold AccStep; lacc_step t

theorem setPopped_acc {p p' : Pc} (h : setPopped p = some p') :
    pend p' = pend p ∧ inWait p' = inWait p ∧ p ≠ .ntfL ∧ p' ≠ .fin ∧
    (waitingPc p = true → False ∨ True) := by
  unfold setPopped at h
  split at h <;> simp at h <;> subst h <;> simp [pend, inWait]

theorem acc_popResume (s s' : St) (t z g : Nat) (h : step s (.popResume t z g) = some s') :
    AccStep s s' := by
  simp only [step] at h
  split at h
  case isFalse => simp at h
  rename_i hg
  have htn : t < s.n := hg.1
  split at h
  case h_2 => simp at h
  rename_i g' rest hpc hq
  split at h
  case isFalse => simp at h
  split at h
  case h_2 => simp at h
  rename_i p' hp'
  obtain ⟨a1, a2, a3, _, _⟩ := setPopped_acc hp'
  have hgt : t ≠ g := by intro he; rw [← he, hpc] at a3; exact a3 rfl
  simp only [Option.some.injEq] at h
  subst h
  refine ⟨t, htn, ?_, ?_, ?_⟩
  · intro u hu
    simp only [upd, hu, if_false]
    split
    · rename_i hug; subst hug; exact ⟨a1, a2⟩
    · exact ⟨rfl, rfl⟩
  · simp only [upd_same, hpc, pend]
  · simp only [upd_same, inWait]; intro hc; cases hc

theorem acc_step (s s' : St) (e : Ev) (hne : ∀ t o, e ≠ .inv t o) (h : step s e = some s') :
    AccStep s s' := by
  cases e with
  | inv t o => exact absurd rfl (hne t o)
  | ret t r => exact acc_ret s s' t r h
  | slAcq t => exact acc_slAcq s s' t h
  | slRel t => exact acc_slRel s s' t h
  | dec t v u => exact acc_dec s s' t v u h
  | notified t a => exact acc_notified s s' t a h
  | mustwait t c b => exact acc_mustwait s s' t c b h
  | nowait t c b => exact acc_nowait s s' t c b h
  | cvEnq t z => exact acc_cvEnq s s' t z h
  | popResume t z g => exact acc_popResume s s' t z g h
  | cvNone t => exact acc_cvNone s s' t h
  | cvWoke t a => exact acc_cvWoke s s' t a h
  | suspend t => exact acc_suspend s s' t h
  | woke t => exact acc_woke s s' t h
  | done t => exact acc_done s s' t h

/-- decrements thread `t` still has to apply -/
def remTot (p : PSt) (t : Nat) : Nat := pend (p.s.pc t) + total (p.prog t)

/-- free decrements thread `t` will still apply (lower bound) -/
def remFree (p : PSt) (t : Nat) : Nat :=
  pend (p.s.pc t) + (if inWait (p.s.pc t) = true then 0 else free (p.prog t))

def totSum (p : PSt) : Nat := p.s.decSum + sumTo p.s.n (remTot p)
def freeSum (p : PSt) : Nat := p.s.decSum + sumTo p.s.n (remFree p)

theorem cover_step (p p' : PSt) (e : Ev) (h : pstep p e = some p') :
    totSum p' = totSum p ∧ freeSum p ≤ freeSum p' := by
  have hs := pstep_step p p' e h
  have hn := (step_n _ _ _ hs).1
  by_cases hinv : ∃ t o, e = .inv t o
  · obtain ⟨t, o, he⟩ := hinv
    subst he
    obtain ⟨rest, hp, hp', htn, hidle⟩ := pstep_inv p p' t o h
    simp only [step] at hs
    rw [if_pos ⟨htn, hidle⟩] at hs
    simp only [Option.some.injEq] at hs
    have hpc : p'.s.pc = upd p.s.pc t (.want o) := by rw [← hs]
    have hds : p'.s.decSum = p.s.decSum := by rw [← hs]
    have c1 := sumTo_change (f := remTot p) (f' := remTot p') htn (by
      intro u hu; simp only [remTot, hpc, hp', upd, hu, if_false])
    have c2 := sumTo_change (f := remFree p) (f' := remFree p') htn (by
      intro u hu; simp only [remFree, hpc, hp', upd, hu, if_false])
    have e1 : remTot p' t = remTot p t := by
      simp only [remTot, hpc, hp', upd_same, hp, hidle, pend, total]; omega
    have e2 : remFree p' t = remFree p t := by
      simp only [remFree, hpc, hp', upd_same, hp, hidle, pend, free, inWait]
      cases o <;> simp [isWaitOp, decOf]
    simp only [totSum, freeSum, hn, hds]
    omega
  · have hne : ∀ t o, e ≠ .inv t o := fun t o he => hinv ⟨t, o, he⟩
    have hp := pstep_prog p p' e hne h
    obtain ⟨t, htn, ho, hd, hw⟩ := acc_step _ _ _ hne hs
    have c1 := sumTo_change (f := remTot p) (f' := remTot p') htn (by
      intro u hu; simp only [remTot, hp, (ho u hu).1])
    have c2 := sumTo_change (f := remFree p) (f' := remFree p') htn (by
      intro u hu; simp only [remFree, hp, (ho u hu).1, (ho u hu).2])
    simp only [totSum, freeSum, hn]
    have e1 : p'.s.decSum + remTot p' t = p.s.decSum + remTot p t := by
      simp only [remTot, hp]; omega
    have e2 : p.s.decSum + remFree p t ≤ p'.s.decSum + remFree p' t := by
      simp only [remFree, hp]
      by_cases hw' : inWait (p'.s.pc t) = true
      · rw [if_pos hw', if_pos (hw hw')]; omega
      · rw [if_neg hw']; split <;> omega
    omega

theorem cover_log (log : List Ev) : ∀ (p p' : PSt), runLog pstep p log = some p' →
    totSum p' = totSum p ∧ freeSum p ≤ freeSum p' := by
  induction log with
  | nil => intro p p' h; simp at h; subst h; exact ⟨rfl, Nat.le_refl _⟩
  | cons e es ih =>
    intro p p' h
    simp only [runLog] at h
    cases hs : pstep p e with
    | none => simp [hs] at h
    | some p1 =>
      simp only [hs] at h
      have h1 := cover_step p p1 e hs
      have h2 := ih p1 p' h
      exact ⟨by omega, by omega⟩

/-- sum of all updates of the program -/
def progTotal (n : Nat) (prog : Nat → List Op) : Nat := sumTo n (fun t => total (prog t))
/-- sum of the updates that are not behind a wait of their own thread -/
def progFree (n : Nat) (prog : Nat → List Op) : Nat := sumTo n (fun t => free (prog t))

theorem cover_pinit (n : Nat) (c : Int) (prog : Nat → List Op) :
    totSum (pinit n c prog) = progTotal n prog ∧ freeSum (pinit n c prog) = progFree n prog := by
  constructor
  · simp only [totSum, pinit, init, progTotal, Nat.zero_add]
    exact sumTo_congr (fun t _ => by simp [remTot, pend])
  · simp only [freeSum, pinit, init, progFree, Nat.zero_add]
    exact sumTo_congr (fun t _ => by simp [remFree, pend, inWait])

/-! ### A finished thread has no operation left -/

def FinOk (p : PSt) : Prop := ∀ t, p.s.pc t = .fin → p.prog t = []

theorem step_fin (s s' : St) (e : Ev) (hs : step s e = some s') (hd : ∀ t, e ≠ .done t) :
    ∀ u, s'.pc u = .fin → s.pc u = .fin := by
  intro u
  cases e
  case done t => exact absurd rfl (hd t)
  case popResume t z g =>
    simp only [step] at hs
    (repeat' split at hs) <;> first | (simp at hs; done) | skip
    all_goals (
      rename_i hsp
      simp only [Option.some.injEq] at hs; subst hs; simp only [upd]; intro hu
      (repeat' split at hu)
      · simp at hu
      · exact absurd hu (setPopped_acc hsp).2.2.2.1
      · exact hu)
  all_goals
    simp only [step] at hs <;> (repeat' split at hs) <;>
      first
      | (simp at hs; done)
      | (simp only [Option.some.injEq] at hs; subst hs; simp only [upd]; intro hu
         (repeat' split at hu) <;>
           first
           | exact hu
           | (simp at hu; done))

theorem finOk_step (p p' : PSt) (e : Ev) (hf : FinOk p) (h : pstep p e = some p') : FinOk p' := by
  have hs := pstep_step p p' e h
  by_cases hinv : ∃ t o, e = .inv t o
  · obtain ⟨t, o, he⟩ := hinv
    subst he
    obtain ⟨rest, hp, hp', htn, hidle⟩ := pstep_inv p p' t o h
    intro u hu
    simp only [step] at hs
    rw [if_pos ⟨htn, hidle⟩] at hs
    simp only [Option.some.injEq] at hs
    rw [← hs] at hu
    simp only [upd] at hu
    split at hu
    · simp at hu
    · rename_i hut; rw [hp']; simp only [upd, hut, if_false]; exact hf u hu
  · have hne : ∀ t o, e ≠ .inv t o := fun t o he => hinv ⟨t, o, he⟩
    have hp := pstep_prog p p' e hne h
    intro u hu
    rw [hp]
    by_cases hd : ∃ t, e = .done t
    · obtain ⟨t, he⟩ := hd
      subst he
      obtain ⟨hnil, _, htn, hidle⟩ := pstep_done p p' t h
      simp only [step] at hs
      rw [if_pos ⟨htn, hidle⟩] at hs
      simp only [Option.some.injEq] at hs
      rw [← hs] at hu
      simp only [upd] at hu
      split at hu
      · rename_i hut; rw [hut]; exact hnil
      · exact hf u hu
    · exact hf u (step_fin _ _ _ hs (fun t he => hd ⟨t, he⟩) u hu)

theorem runLog_finOk (log : List Ev) : ∀ (p p' : PSt), FinOk p → runLog pstep p log = some p' → FinOk p' := by
  induction log with
  | nil => intro p p' hf h; simp at h; subst h; exact hf
  | cons e es ih =>
    intro p p' hf h
    simp only [runLog] at h
    cases hs : pstep p e with
    | none => simp [hs] at h
    | some p1 => simp only [hs] at h; exact ih p1 p' (finOk_step p p1 e hf hs) h

/-! ### While the counter is positive nobody gets through a wait -/

/-- a thread whose program `prog0 t` contains a waiting operation is still in front of it or
    inside it on the blocking side -/
def Wt (prog0 : Nat → List Op) (p : PSt) : Prop :=
  ∀ t, hasWait (prog0 t) = true → hasWait (p.prog t) = true ∨ waitingPc (p.s.pc t) = true

set_option hygiene false in
macro "lwt_step" : tactic => `(tactic| (
  simp only [step] at h
  split at h
  case isFalse => simp at h
  rename_i hg
  repeat' split at h
  all_goals first | (simp at h; done) | skip
  all_goals (
    simp only [Option.some.injEq] at h
    subst h
    intro u hu
    simp only [upd] at hc ⊢
    split
    · rename_i hut; subst hut; grind
    · exact hu)))

/-- model level: with the counter positive after the step, a thread on the blocking side of a
    wait stays there -/
theorem waiting_step (s s' : St) (e : Ev) (hi : Inv s) (hc : 0 < s'.counter)
    (hne : ∀ t o, e ≠ .inv t o) (h : step s e = some s') :
    ∀ u, waitingPc (s.pc u) = true → waitingPc (s'.pc u) = true := by
  have hnz := hi.notifiedZero
  cases e with
  | inv t o => exact absurd rfl (hne t o)
  | ret t r => lwt_step
  | slAcq t => lwt_step
  | slRel t => lwt_step
  | dec t v u => lwt_step
  | notified t a => lwt_step
  | mustwait t c b => lwt_step
  | nowait t c b => lwt_step
  | cvEnq t z => lwt_step
  | cvNone t => lwt_step
  | cvWoke t a => lwt_step
  | suspend t => lwt_step
  | woke t => have := hi.tokInv t; simp only [tokOf, b2n] at this; lwt_step
  | done t => lwt_step
  | popResume t z g =>
    exfalso
    simp only [step] at h
    split at h
    case isFalse => simp at h
    split at h
    case h_2 => simp at h
    rename_i g' rest hpc hq
    have hnt : s.notified = true := hi.ntf t (by rw [hpc]; rfl)
    have := hnz hnt
    (repeat' split at h) <;> first | (simp at h; done) | skip
    all_goals (simp only [Option.some.injEq] at h; subst h; simp only at hc; omega)

theorem wt_step (prog0 : Nat → List Op) (p p' : PSt) (e : Ev) (hi : Inv p.s) (hc : 0 < p'.s.counter)
    (hw : Wt prog0 p) (h : pstep p e = some p') : Wt prog0 p' := by
  have hs := pstep_step p p' e h
  by_cases hinv : ∃ t o, e = .inv t o
  · obtain ⟨t, o, he⟩ := hinv
    subst he
    obtain ⟨rest, hp, hp', htn, hidle⟩ := pstep_inv p p' t o h
    simp only [step] at hs
    rw [if_pos ⟨htn, hidle⟩] at hs
    simp only [Option.some.injEq] at hs
    intro u hu
    rw [← hs, hp']
    simp only [upd]
    split
    · rename_i hut; subst hut
      rcases hw u hu with h1 | h1
      · rw [hp] at h1
        simp only [hasWait, Bool.or_eq_true] at h1
        rcases h1 with h1 | h1
        · right; cases o <;> simp [isWaitOp] at h1 <;> simp [waitingPc]
        · left; exact h1
      · rw [hidle] at h1; simp [waitingPc] at h1
    · exact hw u hu
  · have hne : ∀ t o, e ≠ .inv t o := fun t o he => hinv ⟨t, o, he⟩
    have hp := pstep_prog p p' e hne h
    intro u hu
    rw [hp]
    rcases hw u hu with h1 | h1
    · left; exact h1
    · right; exact waiting_step _ _ _ hi hc hne hs u h1

end PikaVerif.Latch
