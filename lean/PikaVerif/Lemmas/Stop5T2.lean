import PikaVerif.Lemmas.Stop5
/-! Follow-up C14p: preservation of layer T (destructor and running callback on one thread), events group 2. -/
namespace PikaVerif.Stop
open PikaVerif
set_option maxHeartbeats 4000000

theorem stepT_rsDone (s s' : St) (a : Nat) (hA : InvA s) (hB : InvB s) (hS : InvS s) (hf : Faith s) (hD : InvD s) (hi : InvT s) (h : step s (.rsDone a) = some s') : InvT s' := by stopT
theorem stepT_preExec (s s' : St) (a c : Nat) (hA : InvA s) (hB : InvB s) (hS : InvS s) (hf : Faith s) (hD : InvD s) (hi : InvT s) (h : step s (.preExec a c) = some s') : InvT s' := by stopT
theorem stepT_cbBegin (s s' : St) (a c : Nat) (hA : InvA s) (hB : InvB s) (hS : InvS s) (hf : Faith s) (hD : InvD s) (hi : InvT s) (h : step s (.cbBegin a c) = some s') : InvT s' := by stopT
theorem stepT_cbEnd (s s' : St) (a c : Nat) (hA : InvA s) (hB : InvB s) (hS : InvS s) (hf : Faith s) (hD : InvD s) (hi : InvT s) (h : step s (.cbEnd a c) = some s') : InvT s' := by stopT
theorem stepT_finStore (s s' : St) (a c : Nat) (r : Bool) (hA : InvA s) (hB : InvB s) (hS : InvS s) (hf : Faith s) (hD : InvD s) (hi : InvT s) (h : step s (.finStore a c r) = some s') : InvT s' := by stopT
theorem stepT_inFin (s s' : St) (a c : Nat) (hA : InvA s) (hB : InvB s) (hS : InvS s) (hf : Faith s) (hD : InvD s) (hi : InvT s) (h : step s (.inFin a c) = some s') : InvT s' := by stopT
theorem stepT_push (s s' : St) (a c : Nat) (b : Bool) (hA : InvA s) (hB : InvB s) (hS : InvS s) (hf : Faith s) (hD : InvD s) (hi : InvT s) (h : step s (.push a c b) = some s') : InvT s' := by stopT

end PikaVerif.Stop
