import PikaVerif.Lemmas.Sched
/-! Scheduler protocol model: observations, helper records and wake-up request bookkeeping
    (ghost epochs).  Used by `Props/C02.lean`. -/
namespace PikaVerif.Sched
open PikaVerif

/-- `Obs x lw le`: the word `lw` was observed on object `x` when its epoch was `le`.  If no
    transition into pending happened since (`le = x.epoch`) and the observed word was active, the
    object is still in that very activation or in the suspension/termination that followed it:
    it is not pending, and if it is active its tag is the observed one. -/
def Obs (x : Obj) (lw : W) (le : Nat) : Prop :=
  le ≤ x.epoch ∧ (le = x.epoch → lw.st = sActive →
    (pendingish x.w = false ∧ (x.w.st = sActive → x.w.tag = lw.tag)))

theorem obs_now (x : Obj) : Obs x x.w x.epoch := by
  refine ⟨Nat.le_refl _, ?_⟩
  intro _ hst
  refine ⟨?_, fun _ => rfl⟩
  simp [pendingish, hst, sActive, sPending, sBoost]

attribute [local grind] pendingish

/-- every step preserves every observation (of every object) -/
theorem obs_step (s s' : St) (e : Ev) (hi : Inv s) (h : step s e = some s') (o' : Nat) (lw : W) (le : Nat)
    (ho : Obs (s.obj o') lw le) : Obs (s'.obj o') lw le := by
  unfold Obs at ho ⊢
  have hres := (hi o').resNotActive
  cases e <;> simp only [step] at h <;> (repeat' split at h) <;>
    first
    | (simp at h; done)
    | (simp only [Option.some.injEq] at h; subst h; (try dsimp only); simp only [upd]; split <;> grind)
    | (simp only [Option.some.injEq] at h; subst h; (try dsimp only); grind)

def HInv (s : St) : Prop := ∀ o h, h ∈ (s.obj o).helpers → Obs (s.obj o) h.1 h.2

def AObs (s : St) : Prop := ∀ a o lw le, (s.act a).sts = .loaded o lw le → Obs (s.obj o) lw le

def ASas (s : St) : Prop := ∀ a o cur prev he ce, (s.act a).sas = some (o, cur, prev, he, ce) →
  he ≤ ce ∧ prev.st = sActive ∧ (he = ce → cur.st = sActive → cur.tag = prev.tag)

theorem hinv_init : HInv init := by intro o h hm; simp [init] at hm
theorem aobs_init : AObs init := by intro a o lw le hm; simp [init] at hm
theorem asas_init : ASas init := by intro a o c p he ce hm; simp [init] at hm

attribute [local grind] pendingish Obs

theorem helpers_step (s s' : St) (e : Ev) (hs : step s e = some s') (o : Nat) (hp : W × Nat)
    (hm : hp ∈ (s'.obj o).helpers) :
    hp ∈ (s.obj o).helpers ∨ ∃ a, (s.act a).sts = .loaded o hp.1 hp.2 := by
  cases e <;> simp only [step] at hs <;> (repeat' split at hs) <;>
    first
    | (simp at hs; done)
    | (simp only [Option.some.injEq] at hs; subst hs; revert hm; (try simp only [upd]); grind [List.mem_of_mem_erase])

theorem step_hinv (s s' : St) (e : Ev) (hi : Inv s) (hh : HInv s) (ha : AObs s) (h : step s e = some s') : HInv s' := by
  have hobs := obs_step s s' e hi h
  intro o hp hm
  rcases helpers_step s s' e h o hp hm with hk | ⟨a, hk⟩
  · exact hobs o hp.1 hp.2 (hh o hp hk)
  · exact hobs o hp.1 hp.2 (ha a o hp.1 hp.2 hk)

theorem loaded_step (s s' : St) (e : Ev) (hs : step s e = some s') (a o : Nat) (lw : W) (le : Nat)
    (hm : (s'.act a).sts = .loaded o lw le) :
    (s.act a).sts = .loaded o lw le ∨ (lw = (s'.obj o).w ∧ le = (s'.obj o).epoch) := by
  cases e <;> simp only [step] at hs <;> (repeat' split at hs) <;>
    first
    | (simp at hs; done)
    | (simp only [Option.some.injEq] at hs; subst hs; revert hm; (try simp only [upd]); grind)

theorem step_aobs (s s' : St) (e : Ev) (hi : Inv s) (ha : AObs s) (h : step s e = some s') : AObs s' := by
  have hobs := obs_step s s' e hi h
  intro a o lw le hm
  rcases loaded_step s s' e h a o lw le hm with hk | ⟨h1, h2⟩
  · exact hobs o lw le (ha a o lw le hk)
  · subst h1; subst h2; exact obs_now _

/-- where a `sas` record comes from: it was already there, or it was created by this step from a
    helper entry of the object, with the current word and epoch -/
theorem sas_step (s s' : St) (e : Ev) (hs : step s e = some s') (a o : Nat) (cur prev : W) (he ce : Nat)
    (hm : (s'.act a).sas = some (o, cur, prev, he, ce)) :
    (s.act a).sas = some (o, cur, prev, he, ce) ∨
    ((prev, he) ∈ (s.obj o).helpers ∧ cur = (s.obj o).w ∧ ce = (s.obj o).epoch) := by
  cases e <;> simp only [step] at hs <;> (repeat' split at hs) <;>
    first
    | (simp at hs; done)
    | (simp only [Option.some.injEq] at hs; subst hs; revert hm; (try simp only [upd]); grind [List.mem_of_find?_eq_some, List.find?_some])

theorem step_asas (s s' : St) (e : Ev) (hi : Inv s) (hh : HInv s) (ha : ASas s) (h : step s e = some s') : ASas s' := by
  intro a o cur prev he ce hm
  rcases sas_step s s' e h a o cur prev he ce hm with hk | ⟨h1, h2, h3⟩
  · exact ha a o cur prev he ce hk
  · have := hh o (prev, he) h1
    have hact := (hi o).helpersActive (prev, he) h1
    subst h2; subst h3
    unfold Obs at this
    refine ⟨this.1, hact, ?_⟩
    intro heq hc
    exact (this.2 heq hact).2 hc

def target : StsPc → Option Nat
  | .out => none
  | .entered o => some o
  | .loaded o _ _ => some o
  | .won o => some o

/-- ghost bookkeeping of a wake-up request: `issue = some ie` means the request was issued when the
    target's epoch was `ie` and the target was not pending then -/
structure IssueInv (s : St) (a : Nat) (ie : Nat) : Prop where
  tgt : ∀ o, target (s.act a).sts = some o →
      ie ≤ (s.obj o).epoch ∧ (ie = (s.obj o).epoch → pendingish (s.obj o).w = false)
  ld : ∀ o lw le, (s.act a).sts = .loaded o lw le → ie ≤ le ∧ (pendingish lw = true → ie < le)
  won : ∀ o, (s.act a).sts = .won o → ie < (s.obj o).epoch

def AIssue (s : St) : Prop := ∀ a ie, (s.act a).issue = some ie → IssueInv s a ie

theorem aissue_init : AIssue init := by intro a ie hm; simp [init] at hm

attribute [local grind] target

/-- how the request bookkeeping of an actor can change in one step -/
theorem issue_step (s s' : St) (e : Ev) (hs : step s e = some s') (a ie : Nat)
    (hm : (s'.act a).issue = some ie) :
    ((s.act a).issue = some ie ∧
      ((s'.act a).sts = (s.act a).sts ∨
       (∃ o w le, (s'.act a).sts = .loaded o w le ∧ target (s.act a).sts = some o ∧
          w = (s'.obj o).w ∧ le = (s'.obj o).epoch ∧ (s.obj o).epoch ≤ (s'.obj o).epoch ∧
          ((s.act a).sts = .won o ∨ (s'.obj o).w = (s.obj o).w ∨ pendingish (s.obj o).w = true)) ∨
       (∃ o, (s'.act a).sts = .won o ∧ target (s.act a).sts = some o ∧
          (s'.obj o).epoch = (s.obj o).epoch + 1))) ∨
    (∃ o, (s'.act a).sts = .entered o ∧ ie = (s.obj o).epoch ∧ pendingish (s.obj o).w = false ∧
       s'.obj o = s.obj o) := by
  cases e <;> simp only [step] at hs <;> (repeat' split at hs) <;>
    first
    | (simp at hs; done)
    | (simp only [Option.some.injEq] at hs; subst hs; revert hm; (try simp only [upd]); grind)

theorem step_aissue (s s' : St) (e : Ev) (ha : AIssue s) (h : step s e = some s') : AIssue s' := by
  intro a ie hm
  have hob := obj_step s s' e h
  rcases issue_step s s' e h a ie hm with ⟨hiss, hcase⟩ | ⟨o, hst, hie, hnp, hobj⟩
  · have hold := ha a ie hiss
    rcases hcase with hsame | ⟨o, w, le, hst, htg, hw, hle, hmono, hwhy⟩ | ⟨o, hst, htg, hep⟩
    · -- frame
      refine ⟨?_, ?_, ?_⟩
      · intro o htg
        rw [hsame] at htg
        have h1 := hold.tgt o htg
        have h2 := hob o
        refine ⟨by omega, ?_⟩
        intro heq
        have e1 : (s'.obj o).epoch = (s.obj o).epoch := by omega
        cases hp : pendingish (s'.obj o).w with
        | false => rfl
        | true =>
          have := h2.2 e1 hp
          have h3 := h1.2 (by omega)
          rw [this] at h3; simp at h3
      · intro o lw le hl; rw [hsame] at hl; exact hold.ld o lw le hl
      · intro o hw; rw [hsame] at hw
        have := hold.won o hw; have := (hob o).1; omega
    · -- fresh load / own exchange
      have h1 := hold.tgt o htg
      have hkey : ie = (s'.obj o).epoch → pendingish (s'.obj o).w = false := by
        intro heq
        rcases hwhy with hwon | hweq | hpend
        · have := hold.won o hwon; omega
        · rw [hweq]; exact h1.2 (by omega)
        · have : ie ≠ (s.obj o).epoch := by
            intro h4; have := h1.2 h4; rw [hpend] at this; simp at this
          omega
      refine ⟨?_, ?_, ?_⟩
      · intro o2 htg2
        rw [hst] at htg2; simp only [target, Option.some.injEq] at htg2; subst htg2
        exact ⟨by omega, hkey⟩
      · intro o2 lw2 le2 hl
        rw [hst] at hl; simp only [StsPc.loaded.injEq] at hl
        obtain ⟨ho, hlw, hle2⟩ := hl
        subst ho; subst hlw; subst hle2
        refine ⟨by omega, ?_⟩
        intro hp
        by_cases heq : ie = (s'.obj o).epoch
        · have := hkey heq; rw [← hw] at this; rw [hp] at this; simp at this
        · omega
      · intro o2 hw2; rw [hst] at hw2; simp at hw2
    · -- its exchange made the target pending
      have h1 := hold.tgt o htg
      refine ⟨?_, ?_, ?_⟩
      · intro o2 htg2
        rw [hst] at htg2; simp only [target, Option.some.injEq] at htg2; subst htg2
        exact ⟨by omega, by intro heq; omega⟩
      · intro o2 lw2 le2 hl; rw [hst] at hl; simp at hl
      · intro o2 hw2; rw [hst] at hw2; simp only [StsPc.won.injEq] at hw2; subst hw2; omega
  · refine ⟨?_, ?_, ?_⟩
    · intro o2 htg2
      rw [hst] at htg2; simp only [target, Option.some.injEq] at htg2; subst htg2
      rw [hobj]; exact ⟨by omega, fun _ => hnp⟩
    · intro o2 lw2 le2 hl; rw [hst] at hl; simp at hl
    · intro o2 hw2; rw [hst] at hw2; simp at hw2

structure Inv2 (s : St) : Prop where
  obj : Inv s
  helpers : HInv s
  loaded : AObs s
  sas : ASas s
  issue : AIssue s

theorem inv2_init : Inv2 init := ⟨inv_init, hinv_init, aobs_init, asas_init, aissue_init⟩

theorem step_inv2 (s s' : St) (e : Ev) (hi : Inv2 s) (h : step s e = some s') : Inv2 s' :=
  ⟨step_inv s s' e hi.obj h, step_hinv s s' e hi.obj hi.helpers hi.loaded h,
   step_aobs s s' e hi.obj hi.loaded h, step_asas s s' e hi.obj hi.helpers hi.sas h,
   step_aissue s s' e hi.issue h⟩

theorem inv2_of_accepted {log : List Ev} {s : St} (h : runLog step init log = some s) : Inv2 s :=
  inv_of_runLog Inv2 (fun s e s' => step_inv2 s s' e) inv2_init h

end PikaVerif.Sched
