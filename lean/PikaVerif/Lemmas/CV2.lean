import PikaVerif.Lemmas.CV
/-! Second group of invariants of the condition-variable model (results, bookkeeping). -/
namespace PikaVerif.CV
open PikaVerif

def isNotify : Op → Bool
  | .notify _ => true
  | _ => false

/-- Which operation a program counter belongs to. -/
def pcOpOk : Pc → Op → Bool
  | .idle, _ | .fin, _ => true
  | .wantU, c => decide (c = .lock)
  | .unlocking, c => decide (c = .unlock)
  | .setting v, c => decide (c = .set v)
  | .predChk f, c => isWait c && isPred c && (!f || isTimed c || isStop c)
  | .want, c | .locked, c | .released, c | .post _, c | .relockU _, c | .retn _, c => isWait c
  | .enq tm, c | .unl tm _, c | .wokeNL tm _, c | .relk tm _, c => isWait c && (tm == isTimed c)
  | .susp _, c => isWait c && !isTimed c
  | .slp _, c => isWait c && isTimed c
  | .nWant, c | .nLocked, c | .nRet, c => isNotify c
  | .nAll, c => decide (c = .notify true)
  | .nDone, c => decide (c = .notify false)
  | .sChk0, c | .sReg, c | .sRegLk, c | .sChk1, c | .sStopped, c | .sDtor _, c | .sRm _, c
  | .sRmChk _, c | .sRmWait _, c => isStop c
  | .cWant k, c | .cLocked k, c | .cAll k, c | .cRet k, c => if k then isStop c else decide (c = .stop)
  | .rsWant, c | .rsLocked, c | .rsRelock, c | .rsRet _, c => decide (c = .stop)
  | .postS _, c => decide (c = .swait true)

/-- What the history flag `poppedOp` must be at each program counter. -/
def poppedOk : Pc → Bool → Bool
  | .locked, b | .released, b | .enq _, b | .sChk1, b => !b
  | .unl _ p, b | .susp p, b | .slp p, b | .wokeNL _ p, b | .relk _ p, b => p == b
  | .post still, b | .relockU still, b | .postS still, b => (!still) == b
  | _, _ => true

/-- Program counters that cannot occur as long as no timed wait was ever enqueued: timed
    ones, and an untimed waiter that woke up without having been popped. -/
def badU : Pc → Bool
  | .enq tm | .unl tm _ => tm
  | .slp _ => true
  | .wokeNL tm p | .relk tm p => tm || !p
  | _ => false

/-- Result carried through `~stop_callback` of a stop-token wait. -/
def dtorRes : Pc → Option Nat
  | .sDtor r | .sRm r | .sRmChk r | .sRmWait r => some r
  | _ => none

/-- Program counters between a predicate evaluation that returned false and the release of
    the user lock / the `return false` of the stop-token wait. -/
def pfPc : Pc → Bool
  | .want | .sChk1 | .sStopped => true
  | _ => false

structure Inv2 (s : St) : Prop where
  opOk : ∀ t, pcOpOk (s.pc t) (s.curOp t) = true
  predRes : ∀ t r, s.pc t = .retn r → isPred (s.curOp t) = true → r = b2n s.flag
  popped : ∀ t, poppedOk (s.pc t) (s.poppedOp t) = true
  timedRes : ∀ t r, s.pc t = .retn r → s.curOp t = .wait true false → r = b2n (!s.poppedOp t)
  untimedRes : ∀ t r, s.pc t = .retn r → isTimed (s.curOp t) = false → isStop (s.curOp t) = false →
    r = b2n (isPred (s.curOp t))
  counts : ∀ t, s.pops t + b2n (inQ (s.pc t)) ≤ s.enqs t
  untimed : ∀ t, s.everTimed = false → badU (s.pc t) = false ∧ s.tok t = b2n (needTok (s.pc t))
  predRes2 : ∀ t r, dtorRes (s.pc t) = some r → r = b2n s.flag
  predFalse : ∀ t, isPred (s.curOp t) = true → pfPc (s.pc t) = true → s.flag = false

theorem inv2_init (n : Nat) (f : Bool) : Inv2 (init n f) := by
  refine ⟨?_, ?_, ?_, ?_, ?_, ?_, ?_, ?_, ?_⟩ <;> simp [init, pcOpOk, poppedOk, badU, b2n, inQ, needTok, dtorRes, pfPc]

attribute [local grind] holds holdsU noU inQ waitExp needTok setPopped b2n isTimed isPred isWait
  isNotify pcOpOk poppedOk badU isStop dtorRes pfPc exitPc

theorem isStop_facts {c : Op} (h : isStop c = true) :
    isWait c = true ∧ isPred c = true ∧ isNotify c = false ∧ c = .swait (isTimed c) := by
  cases c <;> simp [isStop] at h <;> simp [isWait, isPred, isTimed, isNotify]

attribute [local grind →] isStop_facts

set_option maxHeartbeats 1600000

set_option hygiene false in
macro "cv_step2" : tactic => `(tactic| (
  simp only [step] at h
  obtain ⟨h1,h2,h3,h4,h4b,h5,h6,h7,h8⟩ := hi
  split at h
  case isFalse => simp at h
  rename_i hg
  repeat' split at h
  all_goals first | (simp at h; done) | skip
  all_goals (
    simp only [Option.some.injEq] at h
    subst h
    refine ⟨?_, ?_, ?_, ?_, ?_, ?_, ?_, ?_, ?_⟩ <;> dsimp only
  )
  all_goals first
    | assumption
    | (intro u; grind [upd])
    | grind [upd]))

theorem setPopped_facts2 {p p' : Pc} (h : setPopped p = some p') :
    (∀ c, pcOpOk p' c = pcOpOk p c) ∧ (∀ r, p' ≠ .retn r) ∧ poppedOk p' true = true ∧
    inQ p = true ∧ inQ p' = false ∧
    (badU p = false → badU p' = false ∧ needTok p = false ∧ needTok p' = true ∧ p ≠ .slp false) ∧
    dtorRes p' = none ∧ pfPc p' = false := by
  unfold setPopped at h
  split at h <;> simp at h <;> subst h <;> simp [pcOpOk, poppedOk, inQ, badU, needTok, dtorRes, pfPc]

theorem popCore_inv2 (s s' : St) (t z g : Nat) (d : Bool) (pcT : Pc) (hi : Inv2 s)
    (hT : pcOpOk pcT (s.curOp t) = true ∧ (∀ r, pcT ≠ .retn r) ∧ (∀ b, poppedOk pcT b = true) ∧
      inQ pcT = false ∧ badU pcT = false ∧ needTok pcT = false)
    (hpt : inQ (s.pc t) = false ∧ needTok (s.pc t) = false)
    (hT2 : dtorRes pcT = none ∧ pfPc pcT = false)
    (h : popCore s t z g d pcT = some s') : Inv2 s' := by
  obtain ⟨h1,h2,h3,h4,h4b,h5,h6,h7,h8⟩ := hi
  unfold popCore at h
  split at h
  case h_2 => simp at h
  rename_i g' rest hq
  split at h
  case isFalse => simp at h
  rename_i hsz
  obtain ⟨hsz, hgg⟩ := hsz
  subst hgg
  split at h
  case h_2 => simp at h
  rename_i p' hp'
  obtain ⟨f1, f2, f3, f4, f5, f6, f7, f8⟩ := setPopped_facts2 hp'
  have hgt : g' ≠ t := by
    intro he; rw [he] at f4; rw [hpt.1] at f4; simp at f4
  split at h
  case isFalse => simp at h
  rename_i hdrop
  simp only [Option.some.injEq] at h
  subst h
  refine ⟨?_, ?_, ?_, ?_, ?_, ?_, ?_, ?_, ?_⟩ <;> dsimp only
  · intro u
    by_cases hut : u = t
    · subst hut; simp [upd, hT.1]
    · by_cases hug : u = g'
      · subst hug; simp [upd, hut]; rw [f1]; exact h1 u
      · simp [upd, hut, hug]; exact h1 u
  · intro u r hu
    by_cases hut : u = t
    · subst hut; simp [upd] at hu; exact absurd hu (hT.2.1 r)
    · by_cases hug : u = g'
      · subst hug; simp [upd, hut] at hu; exact absurd hu (f2 r)
      · simp [upd, hut, hug] at hu; exact h2 u r hu
  · intro u
    by_cases hut : u = t
    · subst hut; simp [upd, hT.2.2.1]
    · by_cases hug : u = g'
      · subst hug; simp [upd, hut, f3]
      · simp [upd, hut, hug]; exact h3 u
  · intro u r hu
    by_cases hut : u = t
    · subst hut; simp [upd] at hu; exact absurd hu (hT.2.1 r)
    · by_cases hug : u = g'
      · subst hug; simp [upd, hut] at hu; exact absurd hu (f2 r)
      · simp [upd, hut, hug] at hu ⊢; exact h4 u r hu
  · intro u r hu
    by_cases hut : u = t
    · subst hut; simp [upd] at hu; exact absurd hu (hT.2.1 r)
    · by_cases hug : u = g'
      · subst hug; simp [upd, hut] at hu; exact absurd hu (f2 r)
      · simp [upd, hut, hug] at hu ⊢; exact h4b u r hu
  · intro u
    have := h5 u
    by_cases hut : u = t
    · subst hut; simp [upd, hgt.symm, hT.2.2.2.1]; rw [hpt.1] at this; simpa using this
    · by_cases hug : u = g'
      · subst hug; simp [upd, hut, f5]; rw [f4] at this; simp [b2n] at this ⊢; omega
      · simp [upd, hut, hug]; exact this
  · intro u hev
    have := h6 u hev
    by_cases hut : u = t
    · subst hut
      have e : (if d = true then s.tok else upd s.tok g' (s.tok g' + 1)) u = s.tok u := by
        split <;> simp [upd, hgt.symm]
      simp only [e]
      simp [upd, hT.2.2.2.2.1, hT.2.2.2.2.2]; rw [hpt.2] at this; exact this.2
    · by_cases hug : u = g'
      · subst hug
        obtain ⟨g1, g2, g3, g4⟩ := f6 this.1
        simp [g4] at hdrop
        subst hdrop
        simp [upd, hut, g1, g3]
        rw [this.2, g2]; simp [b2n]
      · have e : (if d = true then s.tok else upd s.tok g' (s.tok g' + 1)) u = s.tok u := by
          split <;> simp [upd, hug]
        simp only [e]
        simp [upd, hut, hug]; exact this
  · intro u r hu
    by_cases hut : u = t
    · subst hut; simp [upd, hT2.1] at hu
    · by_cases hug : u = g'
      · subst hug; simp [upd, hut, f7] at hu
      · simp [upd, hut, hug] at hu; exact h7 u r hu
  · intro u hp hu
    by_cases hut : u = t
    · subst hut; simp [upd, hT2.2] at hu
    · by_cases hug : u = g'
      · subst hug; simp [upd, hut, f8] at hu
      · simp [upd, hut, hug] at hu; exact h8 u hp hu

theorem step_inv2_inv (s s' : St) (t : Nat) (o : Op) (hA : Inv s) (hi : Inv2 s) (h : step s (.inv t o) = some s') : Inv2 s' := by
  have hu := hA.uHolder
  have hn := hA.uNot
  cv_step2
theorem step_inv2_ret (s s' : St) (t r : Nat) (hA : Inv s) (hi : Inv2 s) (h : step s (.ret t r) = some s') : Inv2 s' := by
  have hu := hA.uHolder
  have hn := hA.uNot
  cv_step2
theorem step_inv2_ulAcq (s s' : St) (t : Nat) (hA : Inv s) (hi : Inv2 s) (h : step s (.ulAcq t) = some s') : Inv2 s' := by
  have hu := hA.uHolder
  have hn := hA.uNot
  cv_step2
theorem step_inv2_ulRel (s s' : St) (t : Nat) (hA : Inv s) (hi : Inv2 s) (h : step s (.ulRel t) = some s') : Inv2 s' := by
  have hu := hA.uHolder
  have hn := hA.uNot
  cv_step2
theorem dtorRes_holdsU {p : Pc} {r : Nat} (h : dtorRes p = some r) : holdsU p = true := by
  cases p <;> simp [dtorRes] at h <;> simp [holdsU]

theorem pfPc_holdsU {p : Pc} (h : pfPc p = true) : holdsU p = true := by
  cases p <;> simp [pfPc] at h <;> simp [holdsU]

theorem step_inv2_setFlag (s s' : St) (t : Nat) (v : Bool) (hA : Inv s) (hi : Inv2 s) (h : step s (.setFlag t v) = some s') : Inv2 s' := by
  have hu := hA.uHolder
  have hn := hA.uNot
  have hd : ∀ u r, dtorRes (s.pc u) = some r → s.ulock = some u := fun u r h => hu u (dtorRes_holdsU h)
  have hf : ∀ u, pfPc (s.pc u) = true → s.ulock = some u := fun u h => hu u (pfPc_holdsU h)
  cv_step2
theorem step_inv2_pred (s s' : St) (t : Nat) (v : Bool) (hA : Inv s) (hi : Inv2 s) (h : step s (.pred t v) = some s') : Inv2 s' := by
  have hu := hA.uHolder
  have hn := hA.uNot
  cv_step2
theorem step_inv2_slAcq (s s' : St) (t : Nat) (hA : Inv s) (hi : Inv2 s) (h : step s (.slAcq t) = some s') : Inv2 s' := by
  have hu := hA.uHolder
  have hn := hA.uNot
  cv_step2
theorem step_inv2_slRel (s s' : St) (t : Nat) (hA : Inv s) (hi : Inv2 s) (h : step s (.slRel t) = some s') : Inv2 s' := by
  have hu := hA.uHolder
  have hn := hA.uNot
  cv_step2
theorem step_inv2_cvEnq (s s' : St) (t z : Nat) (b : Bool) (hA : Inv s) (hi : Inv2 s) (h : step s (.cvEnq t z b) = some s') : Inv2 s' := by
  have hu := hA.uHolder
  have hn := hA.uNot
  cv_step2
theorem step_inv2_cvNone (s s' : St) (t : Nat) (hA : Inv s) (hi : Inv2 s) (h : step s (.cvNone t) = some s') : Inv2 s' := by
  have hu := hA.uHolder
  have hn := hA.uNot
  cv_step2
theorem step_inv2_cvAll (s s' : St) (t z : Nat) (hA : Inv s) (hi : Inv2 s) (h : step s (.cvAll t z) = some s') : Inv2 s' := by
  have hu := hA.uHolder
  have hn := hA.uNot
  cv_step2
theorem step_inv2_cvWoke (s s' : St) (t : Nat) (a b : Bool) (hA : Inv s) (hi : Inv2 s) (h : step s (.cvWoke t a b) = some s') : Inv2 s' := by
  have hu := hA.uHolder
  have hn := hA.uNot
  cv_step2
theorem step_inv2_suspend (s s' : St) (t : Nat) (hA : Inv s) (hi : Inv2 s) (h : step s (.suspend t) = some s') : Inv2 s' := by
  have hu := hA.uHolder
  have hn := hA.uNot
  cv_step2
theorem step_inv2_woke (s s' : St) (t : Nat) (hA : Inv s) (hi : Inv2 s) (h : step s (.woke t) = some s') : Inv2 s' := by
  have hu := hA.uHolder
  have hn := hA.uNot
  cv_step2
theorem step_inv2_sleep (s s' : St) (t : Nat) (hA : Inv s) (hi : Inv2 s) (h : step s (.sleep t) = some s') : Inv2 s' := by
  have hu := hA.uHolder
  have hn := hA.uNot
  cv_step2
theorem step_inv2_timeout (s s' : St) (t : Nat) (hA : Inv s) (hi : Inv2 s) (h : step s (.timeout t) = some s') : Inv2 s' := by
  have hu := hA.uHolder
  have hn := hA.uNot
  cv_step2
theorem step_inv2_done (s s' : St) (t : Nat) (hA : Inv s) (hi : Inv2 s) (h : step s (.done t) = some s') : Inv2 s' := by
  have hu := hA.uHolder
  have hn := hA.uNot
  cv_step2

theorem step_inv2_stop0 (s s' : St) (t : Nat) (v : Bool) (hA : Inv s) (hi : Inv2 s) (h : step s (.stop0 t v) = some s') : Inv2 s' := by
  have hu := hA.uHolder
  have hn := hA.uNot
  cv_step2
theorem step_inv2_stop1 (s s' : St) (t : Nat) (v : Bool) (hA : Inv s) (hi : Inv2 s) (h : step s (.stop1 t v) = some s') : Inv2 s' := by
  have hu := hA.uHolder
  have hn := hA.uNot
  cv_step2
theorem step_inv2_stop2 (s s' : St) (t : Nat) (v : Bool) (hA : Inv s) (hi : Inv2 s) (h : step s (.stop2 t v) = some s') : Inv2 s' := by
  have hu := hA.uHolder
  have hn := hA.uNot
  cv_step2
theorem step_inv2_stSeen (s s' : St) (t : Nat) (hA : Inv s) (hi : Inv2 s) (h : step s (.stSeen t) = some s') : Inv2 s' := by
  have hu := hA.uHolder
  have hn := hA.uNot
  cv_step2
theorem step_inv2_stAcq (s s' : St) (t m : Nat) (hA : Inv s) (hi : Inv2 s) (h : step s (.stAcq t m) = some s') : Inv2 s' := by
  have hu := hA.uHolder
  have hn := hA.uNot
  cv_step2
theorem step_inv2_stPush (s s' : St) (t : Nat) (b : Bool) (hA : Inv s) (hi : Inv2 s) (h : step s (.stPush t b) = some s') : Inv2 s' := by
  have hu := hA.uHolder
  have hn := hA.uNot
  cv_step2
theorem step_inv2_stDeq (s s' : St) (t c : Nat) (b : Bool) (hA : Inv s) (hi : Inv2 s) (h : step s (.stDeq t c b) = some s') : Inv2 s' := by
  have hu := hA.uHolder
  have hn := hA.uNot
  cv_step2
theorem step_inv2_stFin (s s' : St) (t c : Nat) (b : Bool) (hA : Inv s) (hi : Inv2 s) (h : step s (.stFin t c b) = some s') : Inv2 s' := by
  have hu := hA.uHolder
  have hn := hA.uNot
  cv_step2
theorem step_inv2_stInFin (s s' : St) (t : Nat) (hA : Inv s) (hi : Inv2 s) (h : step s (.stInFin t) = some s') : Inv2 s' := by
  have hu := hA.uHolder
  have hn := hA.uNot
  cv_step2
theorem step_inv2_stUnlink (s s' : St) (t : Nat) (b : Bool) (hA : Inv s) (hi : Inv2 s) (h : step s (.stUnlink t b) = some s') : Inv2 s' := by
  have hu := hA.uHolder
  have hn := hA.uNot
  cv_step2
theorem step_inv2_stSelf (s s' : St) (t : Nat) (b : Bool) (hA : Inv s) (hi : Inv2 s) (h : step s (.stSelf t b) = some s') : Inv2 s' := by
  have hu := hA.uHolder
  have hn := hA.uNot
  cv_step2
theorem step_inv2_stWaited (s s' : St) (t : Nat) (hA : Inv s) (hi : Inv2 s) (h : step s (.stWaited t) = some s') : Inv2 s' := by
  have hu := hA.uHolder
  have hn := hA.uNot
  cv_step2
theorem step_inv2_stRsDone (s s' : St) (t : Nat) (hA : Inv s) (hi : Inv2 s) (h : step s (.stRsDone t) = some s') : Inv2 s' := by
  have hu := hA.uHolder
  have hn := hA.uNot
  cv_step2

theorem step_inv2_popResume (s s' : St) (t z g : Nat) (d : Bool) (_hA : Inv s) (hi : Inv2 s)
    (h : step s (.popResume t z g d) = some s') : Inv2 s' := by
  simp only [step] at h
  split at h
  case isFalse => simp at h
  rename_i hg
  split at h
  case h_2 => simp at h
  rename_i hpc
  exact popCore_inv2 s s' t z g d .nDone hi
    (by rw [hg.2.2]; simp [pcOpOk, poppedOk, inQ, badU, needTok])
    (by rw [hpc]; simp [inQ, needTok]) (by simp [dtorRes, pfPc]) h

theorem step_inv2_popAll (s s' : St) (t z g : Nat) (d : Bool) (_hA : Inv s) (hi : Inv2 s)
    (h : step s (.popAll t z g d) = some s') : Inv2 s' := by
  simp only [step] at h
  split at h
  case isFalse => simp at h
  rename_i hg
  split at h
  case h_3 => simp at h
  · rename_i hpc
    have := hi.opOk t
    rw [hpc] at this
    exact popCore_inv2 s s' t z g d .nAll hi
      (by simp [pcOpOk, poppedOk, inQ, badU, needTok] at this ⊢; exact this)
      (by rw [hpc]; simp [inQ, needTok]) (by simp [dtorRes, pfPc]) h
  · rename_i k hpc
    have := hi.opOk t
    rw [hpc] at this
    exact popCore_inv2 s s' t z g d (.cAll k) hi
      (by simp [pcOpOk, poppedOk, inQ, badU, needTok] at this ⊢; exact this)
      (by rw [hpc]; simp [inQ, needTok]) (by simp [dtorRes, pfPc]) h

theorem step_inv2 (s s' : St) (e : Ev) (hA : Inv s) (hi : Inv2 s) (h : step s e = some s') : Inv2 s' := by
  cases e with
  | inv t o => exact step_inv2_inv s s' t o hA hi h
  | ret t r => exact step_inv2_ret s s' t r hA hi h
  | ulAcq t => exact step_inv2_ulAcq s s' t hA hi h
  | ulRel t => exact step_inv2_ulRel s s' t hA hi h
  | setFlag t v => exact step_inv2_setFlag s s' t v hA hi h
  | pred t v => exact step_inv2_pred s s' t v hA hi h
  | slAcq t => exact step_inv2_slAcq s s' t hA hi h
  | slRel t => exact step_inv2_slRel s s' t hA hi h
  | cvEnq t z b => exact step_inv2_cvEnq s s' t z b hA hi h
  | cvNone t => exact step_inv2_cvNone s s' t hA hi h
  | cvAll t z => exact step_inv2_cvAll s s' t z hA hi h
  | cvWoke t a b => exact step_inv2_cvWoke s s' t a b hA hi h
  | suspend t => exact step_inv2_suspend s s' t hA hi h
  | woke t => exact step_inv2_woke s s' t hA hi h
  | sleep t => exact step_inv2_sleep s s' t hA hi h
  | timeout t => exact step_inv2_timeout s s' t hA hi h
  | done t => exact step_inv2_done s s' t hA hi h
  | popResume t z g d => exact step_inv2_popResume s s' t z g d hA hi h
  | popAll t z g d => exact step_inv2_popAll s s' t z g d hA hi h
  | stop0 t v => exact step_inv2_stop0 s s' t v hA hi h
  | stop1 t v => exact step_inv2_stop1 s s' t v hA hi h
  | stop2 t v => exact step_inv2_stop2 s s' t v hA hi h
  | stSeen t => exact step_inv2_stSeen s s' t hA hi h
  | stAcq t m => exact step_inv2_stAcq s s' t m hA hi h
  | stPush t b => exact step_inv2_stPush s s' t b hA hi h
  | stDeq t c b => exact step_inv2_stDeq s s' t c b hA hi h
  | stFin t c b => exact step_inv2_stFin s s' t c b hA hi h
  | stInFin t => exact step_inv2_stInFin s s' t hA hi h
  | stUnlink t b => exact step_inv2_stUnlink s s' t b hA hi h
  | stSelf t b => exact step_inv2_stSelf s s' t b hA hi h
  | stWaited t => exact step_inv2_stWaited s s' t hA hi h
  | stRsDone t => exact step_inv2_stRsDone s s' t hA hi h

theorem inv2_of_accepted {n : Nat} {f : Bool} {log : List Ev} {s : St}
    (h : runLog step (init n f) log = some s) : Inv s ∧ Inv2 s := by
  have : ∀ (log : List Ev) (s0 s : St), Inv s0 ∧ Inv2 s0 → runLog step s0 log = some s → Inv s ∧ Inv2 s := by
    intro log
    induction log with
    | nil => intro s0 s h0 h; simp at h; exact h ▸ h0
    | cons e es ih =>
      intro s0 s h0 h
      simp only [runLog] at h
      cases hs : step s0 e with
      | none => simp [hs] at h
      | some s1 =>
        simp only [hs] at h
        exact ih s1 s ⟨step_inv s0 s1 e h0.1 hs, step_inv2 s0 s1 e h0.1 h0.2 hs⟩ h
  exact this log _ s ⟨inv_init n f, inv2_init n f⟩ h

end PikaVerif.CV
