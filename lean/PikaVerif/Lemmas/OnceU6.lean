import PikaVerif.Lemmas.OnceU5
/-!
# C09u, call_once: the spin class is exact for callers; unbounded spinning; all-finished states are maximal
-/
namespace PikaVerif.Once
open PikaVerif PikaVerif.C09

/-- In a program of callers every fast-path return `evLoad t true` is a return of `event_.wait()`
    inside `call_once`: the caller lost the CAS, finds the flag `true` and goes back to the status
    load. -/
theorem callers_spin_ctx (thr : Nat → Bool) (p p' : PSt) (t : Nat) (hA : Inv p.s) (hJ : J thr p)
    (h : pstep p (.evLoad t true) = some p') :
    p.s.pc t = .wWant (.once (thr t)) ∧ p.s.flag = true ∧ p'.s.pc t = .cLoad (thr t) := by
  have hs := pstep_step p p' _ h
  simp only [step] at hs
  split at hs
  · rename_i hg
    split at hs
    · rename_i c hpc
      simp only [Option.some.injEq] at hs
      have hop := hA.opOk t
      rw [hpc] at hop
      rcases hJ.st t with ⟨_, a2, _⟩ | ⟨_, b2, _⟩
      · rw [hpc] at a2; cases a2
      · rw [b2] at hop
        cases c with
        | top => simp [pcOpOk, ctxOk] at hop
        | once th =>
          simp only [pcOpOk, ctxOk, decide_eq_true_eq] at hop
          have : th = thr t := by cases hop; rfl
          subst this
          refine ⟨hpc, hg.2.symm, ?_⟩
          rw [← hs]; simp [wDone]
    · simp at hs
  · simp at hs

/-- the spin round at the program level -/
theorem pspin_round (p : PSt) (t : Nat) (thr : Bool) (htn : t < p.s.n) (hpc : p.s.pc t = .cLoad thr)
    (hst : p.s.status = .running) (hf : p.s.flag = true) :
    runLog pstep p [.onceLoad t, .onceLost t false, .evLoad t true] = some p := by
  have hupd : upd (upd (upd p.s.pc t (Pc.cCas thr)) t (Pc.wWant (Ctx.once thr))) t (Pc.cLoad thr) = p.s.pc := by
    funext u
    by_cases hu : u = t
    · subst hu; simp [upd, hpc]
    · simp [upd, hu]
  simp [runLog, pstep, step, htn, hpc, hst, hf, wDone, hupd]
  obtain ⟨s, _, _⟩ := p
  cases s; simp_all

/-- `m` spin rounds of thread `t` -/
def rounds (t : Nat) : Nat → List Ev
  | 0 => []
  | m + 1 => [.onceLoad t, .onceLost t false, .evLoad t true] ++ rounds t m

theorem rounds_length (t m : Nat) : (rounds t m).length = 3 * m := by
  induction m with
  | zero => rfl
  | succ m ih => simp only [rounds, List.length_append, ih, List.length_cons, List.length_nil]; omega

theorem rounds_spins (t m : Nat) : spins (rounds t m) = m := by
  induction m with
  | zero => rfl
  | succ m ih => simp [rounds, spins, ih]

theorem pspin_rounds (p : PSt) (t : Nat) (thr : Bool) (htn : t < p.s.n) (hpc : p.s.pc t = .cLoad thr)
    (hst : p.s.status = .running) (hf : p.s.flag = true) (m : Nat) :
    runLog pstep p (rounds t m) = some p := by
  induction m with
  | zero => rfl
  | succ m ih =>
    simp only [rounds]
    rw [runLog_append, pspin_round p t thr htn hpc hst hf]
    exact ih

/-- a state in which every thread has finished is maximal -/
theorem fin_stuck (p : PSt) (h : ∀ t, t < p.s.n → p.s.pc t = .fin) : PStuck p := by
  intro e
  cases e with
  | inv t o =>
    simp only [pstep]
    split
    · split
      · have : step p.s (.inv t o) = none := by
          simp only [step]; split
          · rename_i hg; rw [h t hg.1] at hg; cases hg.2
          · rfl
        rw [this]; rfl
      · rfl
    · rfl
  | done t =>
    simp only [pstep]
    split
    · have : step p.s (.done t) = none := by
        simp only [step]; split
        · rename_i hg; rw [h t hg.1] at hg; cases hg.2
        · rfl
      rw [this]; rfl
    · rfl
  | _ =>
    simp only [pstep, Option.map_eq_none_iff, step]
    split
    · rename_i hg
      have := h _ (by first | exact hg.1 | exact hg)
      simp [this]
    · rfl

end PikaVerif.Once
