import PikaVerif.Lemmas.SemProg
/-!
# Solo continuations: one `release(k)` call wakes `min k (blocked acquirers)` waiters (C08t)

`relSolo r k v q` is the exact event sequence the releaser `r` produces when it runs alone from
the start of `release(k)` (lock free, stored count `v`, wait queue `q` of parked acquirers);
`acqSolo g v` is the sequence a woken acquirer produces when it then runs alone.
-/
namespace PikaVerif.Sem
open PikaVerif

/-- the notify loop of `release`, entered at iteration `i` of `k` with the lock held -/
def popLoop (r : Nat) : Nat → Nat → List Nat → List Ev
  | _, _, [] => [.cvNone r, .slRel r]
  | i, k, g :: rest =>
    .popResume r rest.length g false :: .slRel r ::
      (if rest = [] then [] else .slAcq r :: (if i + 1 < k then popLoop r (i + 1) k rest else [.slRel r]))

theorem popLoop_length (r k : Nat) : ∀ (q : List Nat) (i : Nat), i < k →
    (popLoop r i k q).length ≤ 3 * min (k - i) q.length + 2 := by
  intro q
  induction q with
  | nil => intro i _; simp [popLoop]
  | cons g rest ih =>
    intro i hik
    simp only [popLoop]
    by_cases hr : rest = []
    · simp [hr]
    · simp only [hr, if_false, List.length_cons]
      by_cases hk : i + 1 < k
      · simp only [hk, if_true]
        have := ih (i + 1) hk
        have e : k - i = (k - (i + 1)) + 1 := by omega
        rw [e]
        have : min (k - (i + 1) + 1) (rest.length + 1) = min (k - (i + 1)) rest.length + 1 := by omega
        omega
      · simp only [hk, if_false, List.length_cons, List.length_nil]
        have : 0 < rest.length := by cases rest with
          | nil => exact absurd rfl hr
          | cons _ _ => simp
        have : 1 ≤ min (k - i) (rest.length + 1) := by omega
        omega

theorem st_cvNone (s : St) (r i k : Nat) (hl : s.lock = some r) (hr : r < s.n)
    (hp : s.pc r = .relL i k) (hq : s.queue = []) :
    step s (.cvNone r) = some { s with pc := upd s.pc r (.relRes i k false) } := by
  simp [step, hl, hr, hp, hq]

theorem st_slRel_res (s : St) (r i k : Nat) (more : Bool) (hl : s.lock = some r) (hr : r < s.n)
    (hp : s.pc r = .relRes i k more) :
    step s (.slRel r) = some { s with lock := none, pc := upd s.pc r (if more then .relNL (i + 1) k else .retn false) } := by
  simp [step, hl, hr, hp]

theorem st_slRel_fin (s : St) (r : Nat) (hl : s.lock = some r) (hr : r < s.n) (hp : s.pc r = .relFin) :
    step s (.slRel r) = some { s with lock := none, pc := upd s.pc r (.retn false) } := by
  simp [step, hl, hr, hp]

theorem st_slAcq_nl (s : St) (r i k : Nat) (hl : s.lock = none) (hr : r < s.n) (hp : s.pc r = .relNL i k) :
    step s (.slAcq r) = some { s with lock := some r, pc := upd s.pc r (if i < k ∧ 0 ≤ s.value then .relL i k else .relFin) } := by
  simp [step, hl, hr, hp]

theorem st_pop (s : St) (r i k g : Nat) (rest : List Nat) (hl : s.lock = some r) (hr : r < s.n)
    (hp : s.pc r = .relL i k) (hq : s.queue = g :: rest) (hg : s.pc g = .susp false) :
    step s (.popResume r rest.length g false) = some { s with queue := rest, tok := upd s.tok g (s.tok g + 1), pc := upd (upd s.pc g (.susp true)) r (.relRes i k (decide (rest ≠ []))) } := by
  simp [step, hl, hr, hp, hq, hg, setPopped]

/-- `s1` is `s` with the given lock, queue, tokens and program counters (count and `n` unchanged) -/
def Fr (s s1 : St) (lock : Option Nat) (q : List Nat) (tok : Nat → Nat) (pc : Nat → Pc) : Prop :=
  s1.lock = lock ∧ s1.n = s.n ∧ s1.value = s.value ∧ s1.queue = q ∧ s1.tok = tok ∧ s1.pc = pc

theorem fr_cvNone (s : St) (r i k : Nat) (hl : s.lock = some r) (hr : r < s.n)
    (hp : s.pc r = .relL i k) (hq : s.queue = []) :
    ∃ s1, step s (.cvNone r) = some s1 ∧ Fr s s1 s.lock s.queue s.tok (upd s.pc r (.relRes i k false)) :=
  ⟨_, st_cvNone s r i k hl hr hp hq, rfl, rfl, rfl, rfl, rfl, rfl⟩

theorem fr_slRel_res (s : St) (r i k : Nat) (more : Bool) (hl : s.lock = some r) (hr : r < s.n)
    (hp : s.pc r = .relRes i k more) :
    ∃ s1, step s (.slRel r) = some s1 ∧
      Fr s s1 none s.queue s.tok (upd s.pc r (if more then .relNL (i + 1) k else .retn false)) :=
  ⟨_, st_slRel_res s r i k more hl hr hp, rfl, rfl, rfl, rfl, rfl, rfl⟩

theorem fr_slRel_fin (s : St) (r : Nat) (hl : s.lock = some r) (hr : r < s.n) (hp : s.pc r = .relFin) :
    ∃ s1, step s (.slRel r) = some s1 ∧ Fr s s1 none s.queue s.tok (upd s.pc r (.retn false)) :=
  ⟨_, st_slRel_fin s r hl hr hp, rfl, rfl, rfl, rfl, rfl, rfl⟩

theorem fr_slAcq_nl (s : St) (r i k : Nat) (hl : s.lock = none) (hr : r < s.n) (hp : s.pc r = .relNL i k) :
    ∃ s1, step s (.slAcq r) = some s1 ∧
      Fr s s1 (some r) s.queue s.tok (upd s.pc r (if i < k ∧ 0 ≤ s.value then .relL i k else .relFin)) :=
  ⟨_, st_slAcq_nl s r i k hl hr hp, rfl, rfl, rfl, rfl, rfl, rfl⟩

theorem fr_pop (s : St) (r i k g : Nat) (rest : List Nat) (hl : s.lock = some r) (hr : r < s.n)
    (hp : s.pc r = .relL i k) (hq : s.queue = g :: rest) (hg : s.pc g = .susp false) :
    ∃ s1, step s (.popResume r rest.length g false) = some s1 ∧
      Fr s s1 s.lock rest (upd s.tok g (s.tok g + 1))
        (upd (upd s.pc g (.susp true)) r (.relRes i k (decide (rest ≠ [])))) :=
  ⟨_, st_pop s r i k g rest hl hr hp hq hg, rfl, rfl, rfl, rfl, rfl, rfl⟩

/-- **The notify loop.**  Entered at iteration `i < k` with the queue `q` of parked acquirers, the
    releaser running alone pops and resumes the first `min (k - i) |q|` of them, leaves the others
    queued and untouched, and ends with the lock released, about to return. -/
theorem popLoop_spec (r k : Nat) : ∀ (q : List Nat) (i : Nat) (s : St),
    s.lock = some r → r < s.n → s.pc r = .relL i k → i < k → s.queue = q →
    (∀ g, g ∈ q → s.pc g = .susp false) → q.Nodup → 0 ≤ s.value →
    ∃ s', runLog step s (popLoop r i k q) = some s' ∧ s'.lock = none ∧ s'.pc r = .retn false ∧
      s'.value = s.value ∧ s'.n = s.n ∧ s'.queue = q.drop (k - i) ∧
      (∀ g, g ∈ q.take (k - i) → s'.pc g = .susp true ∧ s'.tok g = s.tok g + 1) ∧
      (∀ u, u ≠ r → u ∉ q.take (k - i) → s'.pc u = s.pc u ∧ s'.tok u = s.tok u) := by
  intro q
  induction q with
  | nil =>
    intro i s hl hr hp hik hq _ _ _
    obtain ⟨s1, e1, l1, n1, v1, q1, t1, p1⟩ := fr_cvNone s r i k hl hr hp hq
    obtain ⟨s2, e2, l2, n2, v2, q2, t2, p2⟩ := fr_slRel_res s1 r i k false (by rw [l1]; exact hl)
      (by omega) (by rw [p1]; simp)
    refine ⟨s2, by simp only [popLoop, runLog, e1, e2], l2, by rw [p2]; simp, by omega, by omega,
      by rw [q2, q1, hq]; simp, by simp, ?_⟩
    intro u hur _
    rw [p2, p1, t2, t1]; simp [upd, hur]
  | cons g rest ih =>
    intro i s hl hr hp hik hq hpark hnd hv
    have hgs : s.pc g = .susp false := hpark g (by simp)
    have hgr : g ≠ r := by intro he; rw [he, hp] at hgs; simp at hgs
    have hnd' : g ∉ rest ∧ rest.Nodup := by simpa using hnd
    have hki : k - i = (k - (i + 1)) + 1 := by omega
    obtain ⟨s1, e1, l1, n1, v1, q1, t1, p1⟩ := fr_pop s r i k g rest hl hr hp hq hgs
    obtain ⟨s2, e2, l2, n2, v2, q2, t2, p2⟩ := fr_slRel_res s1 r i k (decide (rest ≠ []))
      (by rw [l1]; exact hl) (by omega) (by rw [p1]; simp)
    by_cases hrest : rest = []
    · -- the queue is exhausted: notify_one returns false, the loop ends
      subst hrest
      refine ⟨s2, by simp only [popLoop, if_true, runLog, e1, e2] , l2, by rw [p2]; simp,
        by omega, by omega, by rw [q2, q1, hki]; simp, ?_, ?_⟩
      · intro g' hg'
        rw [hki] at hg'
        simp at hg'
        subst hg'
        rw [p2, p1, t2, t1]; simp [upd, hgr]
      · intro u hur hnot
        rw [hki] at hnot
        simp at hnot
        rw [p2, p1, t2, t1]; simp [upd, hur, hnot]
    · have hp2 : s2.pc r = .relNL (i + 1) k := by rw [p2]; simp [hrest]
      obtain ⟨s3, e3, l3, n3, v3, q3, t3, p3⟩ := fr_slAcq_nl s2 r (i + 1) k l2 (by omega) hp2
      by_cases hk : i + 1 < k
      · -- another iteration
        have hp3 : s3.pc r = .relL (i + 1) k := by
          rw [p3]; simp only [upd_same]; rw [if_pos ⟨hk, by omega⟩]
        have hother : ∀ u, u ≠ r → s3.pc u = upd s.pc g (.susp true) u ∧ s3.tok u = upd s.tok g (s.tok g + 1) u := by
          intro u hur
          rw [p3, p2, p1, t3, t2, t1]; simp [upd, hur]
        obtain ⟨s', h1, h2, h3, h4, h5, h6, h7, h8⟩ := ih (i + 1) s3 l3 (by omega) hp3 hk (by rw [q3, q2, q1])
          (by intro g' hg'
              have hne : g' ≠ g := by intro he; rw [he] at hg'; exact hnd'.1 hg'
              have hne2 : g' ≠ r := by
                intro he; have := hpark g' (by simp [hg']); rw [he, hp] at this; simp at this
              rw [(hother g' hne2).1]; simp [upd, hne]; exact hpark g' (by simp [hg']))
          hnd'.2 (by omega)
        refine ⟨s', ?_, h2, h3, by omega, by omega, ?_, ?_, ?_⟩
        · have : popLoop r i k (g :: rest) =
              [.popResume r rest.length g false, .slRel r, .slAcq r] ++ popLoop r (i + 1) k rest := by
            simp [popLoop, hrest, hk]
          rw [this, runLog_append]
          simp only [runLog, e1, e2, e3]
          simpa using h1
        · rw [hki]; simpa using h6
        · rw [hki]
          intro g' hg'
          simp only [List.take_succ_cons, List.mem_cons] at hg'
          rcases hg' with he | hin
          · subst he
            have hnot : g' ∉ rest.take (k - (i + 1)) := fun hc => hnd'.1 (List.mem_of_mem_take hc)
            have := h8 g' hgr hnot
            rw [(hother g' hgr).1, (hother g' hgr).2] at this
            simpa [upd] using this
          · have := h7 g' hin
            have hne : g' ≠ g := by intro he; rw [he] at hin; exact hnd'.1 (List.mem_of_mem_take hin)
            have hne2 : g' ≠ r := by
              intro he
              have := hpark g' (by simp [List.mem_of_mem_take hin]); rw [he, hp] at this; simp at this
            rw [(hother g' hne2).2] at this
            simpa [upd, hne] using this
        · rw [hki]
          intro u hur hnot
          simp only [List.take_succ_cons, List.mem_cons, not_or] at hnot
          have := h8 u hur hnot.2
          rw [(hother u hur).1, (hother u hur).2] at this
          simpa [upd, hnot.1] using this
      · -- `i + 1 = k`: waiters remain but the loop has done its `k` iterations
        have hk1 : k - i = 1 := by omega
        have hp3 : s3.pc r = .relFin := by
          rw [p3]; simp only [upd_same]; rw [if_neg (fun h => hk h.1)]
        obtain ⟨s4, e4, l4, n4, v4, q4, t4, p4⟩ := fr_slRel_fin s3 r l3 (by omega) hp3
        refine ⟨s4, by simp only [popLoop, hrest, if_false, hk, runLog, e1, e2, e3, e4], l4, by rw [p4]; simp,
          by omega, by omega, by rw [q4, q3, q2, q1, hk1]; simp, ?_, ?_⟩
        · intro g' hg'
          rw [hk1] at hg'
          simp at hg'
          subst hg'
          rw [p4, p3, p2, p1, t4, t3, t2, t1]; simp [upd, hgr]
        · intro u hur hnot
          rw [hk1] at hnot
          simp at hnot
          rw [p4, p3, p2, p1, t4, t3, t2, t1]; simp [upd, hur, hnot]

/-- `okRets` only changes at `ret` -/
theorem okRets_step (s s' : St) (e : Ev) (hne : ∀ t b, e ≠ .ret t b) (h : step s e = some s') :
    s'.okRets = s.okRets := by
  cases e <;> simp only [step] at h <;> (repeat' split at h) <;>
    first
    | (simp at h; done)
    | (exact absurd rfl (hne _ _))
    | (simp only [Option.some.injEq] at h; subst h; rfl)

theorem okRets_noret (log : List Ev) (hne : ∀ e, e ∈ log → ∀ t b, e ≠ .ret t b) : ∀ (s s' : St),
    runLog step s log = some s' → s'.okRets = s.okRets := by
  induction log with
  | nil => intro s s' h; simp at h; subst h; rfl
  | cons e es ih =>
    intro s s' h
    simp only [runLog] at h
    cases hs : step s e with
    | none => simp [hs] at h
    | some s1 =>
      simp only [hs] at h
      have h1 := okRets_step s s1 e (hne e (by simp)) hs
      have h2 := ih (fun e' he' => hne e' (by simp [he'])) s1 s' h
      omega

theorem popLoop_noret (r k : Nat) : ∀ (q : List Nat) (i : Nat), ∀ e, e ∈ popLoop r i k q → ∀ t b, e ≠ .ret t b := by
  intro q
  induction q with
  | nil => intro i e he t b; simp [popLoop] at he; rcases he with he | he <;> subst he <;> simp
  | cons g rest ih =>
    intro i e he t b
    simp only [popLoop, List.mem_cons] at he
    rcases he with he | he | he
    · subst he; simp
    · subst he; simp
    · split at he
      · simp at he
      · simp only [List.mem_cons] at he
        rcases he with he | he
        · subst he; simp
        · split at he
          · exact ih (i + 1) e he t b
          · simp at he; subst he; simp

/-- nothing returns inside the notify loop -/
theorem okRets_popLoop (r k : Nat) : ∀ (q : List Nat) (i : Nat) (s s' : St),
    runLog step s (popLoop r i k q) = some s' → s'.okRets = s.okRets := by
  intro q i s s' h
  exact okRets_noret (popLoop r i k q) (popLoop_noret r k q i) s s' h

/-- the complete solo run of `release(k)` by thread `r` from the start of the call, with stored
    count `v` and wait queue `q` -/
def relSolo (r k : Nat) (v : Int) (q : List Nat) : List Ev :=
  .slAcq r :: .add r (v + k) k :: ((if 0 < k then popLoop r 0 k q else [.slRel r]) ++ [.ret r false])

theorem relSolo_length (r k : Nat) (v : Int) (q : List Nat) :
    (relSolo r k v q).length ≤ 3 * min k q.length + 5 := by
  simp only [relSolo, List.length_cons, List.length_append, List.length_nil]
  by_cases hk : 0 < k
  · simp only [hk, if_true]
    have := popLoop_length r k q 0 hk
    simp only [Nat.sub_zero] at this
    omega
  · simp only [hk, if_false, List.length_cons, List.length_nil]; omega

/-- **One `release(k)` call, run alone, wakes `min k |q|` parked acquirers and returns.** -/
theorem relSolo_spec (r k : Nat) (s : St) (hl : s.lock = none) (hr : r < s.n)
    (hp : s.pc r = .want (.rel k)) (hpark : ∀ g, g ∈ s.queue → s.pc g = .susp false)
    (hnd : s.queue.Nodup) (hv : 0 ≤ s.value) :
    ∃ s', runLog step s (relSolo r k s.value s.queue) = some s' ∧ s'.lock = none ∧ s'.pc r = .idle ∧
      s'.value = s.value + k ∧ s'.n = s.n ∧ s'.queue = s.queue.drop k ∧ s'.okRets = s.okRets ∧
      (∀ g, g ∈ s.queue.take k → s'.pc g = .susp true ∧ s'.tok g = s.tok g + 1) ∧
      (∀ u, u ≠ r → u ∉ s.queue.take k → s'.pc u = s.pc u ∧ s'.tok u = s.tok u) := by
  have hrq : ∀ g, g ∈ s.queue → g ≠ r := by
    intro g hg he; have := hpark g hg; rw [he, hp] at this; simp at this
  by_cases hk : 0 < k
  · let S2 : St := { s with lock := some r, value := s.value + k, released := s.released + k, pc := upd (upd s.pc r (.locked (.rel k) false)) r (.relL 0 k) }
    have hpre : runLog step s [.slAcq r, .add r (s.value + k) k] = some S2 := by
      have : 0 ≤ s.value + (k : Int) := by omega
      simp [runLog, step, hl, hr, hp, hk, this, S2]
    obtain ⟨s', h1, h2, h3, h4, h5, h6, h7, h8⟩ := popLoop_spec r k s.queue 0 S2 rfl hr (by simp [S2]) hk rfl
      (by intro g hg; simp [S2, upd, hrq g hg]; exact hpark g hg) hnd (by simp [S2]; omega)
    simp only [Nat.sub_zero] at h6 h7 h8
    have hret : step s' (.ret r false) = some { s' with pc := upd s'.pc r .idle, okRets := s'.okRets + 0 } := by
      have : r < s'.n := by rw [h5]; exact hr
      simp [step, this, h3]
    have hok : s'.okRets = s.okRets := by
      have := okRets_popLoop r k s.queue 0 S2 s' h1
      simpa [S2] using this
    refine ⟨{ s' with pc := upd s'.pc r .idle, okRets := s'.okRets + 0 }, ?_, ?_⟩
    · have : relSolo r k s.value s.queue =
          [.slAcq r, .add r (s.value + k) k] ++ (popLoop r 0 k s.queue ++ [.ret r false]) := by
        simp [relSolo, hk]
      rw [this, runLog_append, hpre]
      simp only [Option.bind_some]
      rw [runLog_append, h1]
      simp only [Option.bind_some, runLog, hret]
    · refine ⟨h2, by simp, by simpa [S2] using h4, by simpa [S2] using h5, h6, by simpa using hok, ?_, ?_⟩
      · intro g hg
        have hgr : g ≠ r := hrq g (List.mem_of_mem_take hg)
        have := h7 g hg
        simpa [S2, upd, hgr] using this
      · intro u hur hnot
        have := h8 u hur hnot
        simpa [S2, upd, hur] using this
  · have hk0 : k = 0 := by omega
    subst hk0
    refine ⟨{ s with lock := none, value := s.value + (0 : Nat), released := s.released + 0, pc := upd (upd (upd (upd s.pc r (.locked (.rel 0) false)) r .relFin) r (.retn false)) r .idle, okRets := s.okRets + 0 }, ?_, ?_⟩
    · simp [relSolo, runLog, step, hl, hr, hp]
    · simp [upd]
      intro u hur; simp [hur]

/-- the solo run of a woken acquirer `g` (stored count `v`) up to its return -/
def acqSolo (g : Nat) (v : Int) : List Ev :=
  [.woke g, .slAcq g, .cvWoke g false false, .take g (v - 1), .slRel g, .ret g true]

theorem acqSolo_spec (g : Nat) (s : St) (hl : s.lock = none) (hg : g < s.n) (hp : s.pc g = .susp true)
    (ht : 0 < s.tok g) (hv : 1 ≤ s.value) :
    ∃ s', runLog step s (acqSolo g s.value) = some s' ∧ s'.lock = none ∧ s'.pc g = .idle ∧
      s'.value = s.value - 1 ∧ s'.n = s.n ∧ s'.queue = s.queue ∧ s'.okRets = s.okRets + 1 ∧
      (∀ u, u ≠ g → s'.pc u = s.pc u ∧ s'.tok u = s.tok u) := by
  refine ⟨{ s with lock := none, value := s.value - 1, acquired := s.acquired + 1, tok := upd s.tok g (s.tok g - 1), tookOp := upd s.tookOp g true, okRets := s.okRets + 1, pc := upd s.pc g .idle }, ?_, ?_⟩
  · have e : upd (upd (upd (upd (upd (upd s.pc g (Pc.wokeNL false true)) g (Pc.relk false true)) g
        (Pc.locked Op.acq true)) g Pc.taken) g (Pc.retn true)) g Pc.idle = upd s.pc g .idle := by
      funext u; simp only [upd]; split <;> rfl
    simp [acqSolo, runLog, step, hl, hg, hp, ht, hv, e]
  · simp [upd]
    intro u hu; simp [hu]

/-- the woken acquirers run to completion one after the other -/
def acqAll : List Nat → Int → List Ev
  | [], _ => []
  | g :: l, v => acqSolo g v ++ acqAll l (v - 1)

theorem acqAll_length : ∀ (l : List Nat) (v : Int), (acqAll l v).length = 6 * l.length
  | [], _ => rfl
  | g :: l, v => by simp [acqAll, acqSolo, acqAll_length l (v - 1)]; omega

theorem acqAll_spec : ∀ (l : List Nat) (s : St), s.lock = none → (∀ g, g ∈ l → g < s.n) →
    (∀ g, g ∈ l → s.pc g = .susp true ∧ 0 < s.tok g) → l.Nodup → (l.length : Int) ≤ s.value →
    ∃ s', runLog step s (acqAll l s.value) = some s' ∧ s'.lock = none ∧
      (∀ g, g ∈ l → s'.pc g = .idle) ∧ s'.value = s.value - l.length ∧ s'.n = s.n ∧
      s'.queue = s.queue ∧ s'.okRets = s.okRets + l.length ∧
      (∀ u, u ∉ l → s'.pc u = s.pc u ∧ s'.tok u = s.tok u) := by
  intro l
  induction l with
  | nil => intro s hl _ _ _ _; exact ⟨s, rfl, hl, by simp, by simp, rfl, rfl, by simp, by simp⟩
  | cons g l ih =>
    intro s hl hn hw hnd hv
    have hnd' : g ∉ l ∧ l.Nodup := by simpa using hnd
    simp only [List.length_cons] at hv
    obtain ⟨s1, a1, a2, a3, a4, a5, a6, a7, a8⟩ := acqSolo_spec g s hl (hn g (by simp)) (hw g (by simp)).1
      (hw g (by simp)).2 (by omega)
    have hne : ∀ g', g' ∈ l → g' ≠ g := fun g' hg' he => hnd'.1 (he ▸ hg')
    obtain ⟨s', b1, b2, b3, b4, b5, b6, b7, b8⟩ := ih s1 a2 (by intro g' hg'; rw [a5]; exact hn g' (by simp [hg']))
      (by intro g' hg'
          rw [(a8 g' (hne g' hg')).1, (a8 g' (hne g' hg')).2]; exact hw g' (by simp [hg']))
      hnd'.2 (by omega)
    refine ⟨s', ?_, b2, ?_, ?_, by omega, by rw [b6, a6], ?_, ?_⟩
    · simp only [acqAll]
      rw [runLog_append, a1]
      simp only [Option.bind_some]
      rw [← a4]; exact b1
    · intro g' hg'
      simp only [List.mem_cons] at hg'
      rcases hg' with he | hin
      · subst he; rw [(b8 g' hnd'.1).1]; exact a3
      · exact b3 g' hin
    · simp only [List.length_cons]; omega
    · simp only [List.length_cons]; omega
    · intro u hu
      simp only [List.mem_cons, not_or] at hu
      rw [(b8 u hu.2).1, (b8 u hu.2).2]
      exact a8 u hu.1

end PikaVerif.Sem
