import PikaVerif.Lemmas.SSemT
/-!
# Finite programs over the sliding semaphore model (C08t, sliding clause)

Same construction as `Lemmas/SemProg.lean`: a *program* gives every thread a finite list of
operations, `pstep` is `step` restricted to the logs of that program, and `phi` = `mu` + the
potential of the operations not yet started decreases with **every** accepted event.
-/
namespace PikaVerif.SSem
open PikaVerif

structure PSt where
  s : St
  prog : Nat → List Op

def pstep (p : PSt) : Ev → Option PSt
  | .inv t o =>
    match p.prog t with
    | o' :: rest =>
      if o' = o then (step p.s (.inv t o)).map (fun s' => ⟨s', upd p.prog t rest⟩) else none
    | [] => none
  | .done t => if p.prog t = [] then (step p.s (.done t)).map (fun s' => ⟨s', p.prog⟩) else none
  | .ret t r => (step p.s (.ret t r)).map (fun s' => ⟨s', p.prog⟩)
  | .slAcq t => (step p.s (.slAcq t)).map (fun s' => ⟨s', p.prog⟩)
  | .slRel t => (step p.s (.slRel t)).map (fun s' => ⟨s', p.prog⟩)
  | .cvEnq t z => (step p.s (.cvEnq t z)).map (fun s' => ⟨s', p.prog⟩)
  | .popResume t z g => (step p.s (.popResume t z g)).map (fun s' => ⟨s', p.prog⟩)
  | .cvNone t => (step p.s (.cvNone t)).map (fun s' => ⟨s', p.prog⟩)
  | .cvWoke t a => (step p.s (.cvWoke t a)).map (fun s' => ⟨s', p.prog⟩)
  | .pass t u l => (step p.s (.pass t u l)).map (fun s' => ⟨s', p.prog⟩)
  | .sig t l z => (step p.s (.sig t l z)).map (fun s' => ⟨s', p.prog⟩)
  | .suspend t => (step p.s (.suspend t)).map (fun s' => ⟨s', p.prog⟩)
  | .woke t => (step p.s (.woke t)).map (fun s' => ⟨s', p.prog⟩)

def pinit (n : Nat) (d l : Int) (prog : Nat → List Op) : PSt := ⟨init n d l, prog⟩

/-- every accepted program step is an accepted model step -/
theorem pstep_step (p p' : PSt) (e : Ev) (h : pstep p e = some p') : step p.s e = some p'.s := by
  cases e <;> simp only [pstep] at h <;> (repeat' split at h) <;>
    first
    | (simp at h; done)
    | (simp only [Option.map_eq_some_iff] at h; obtain ⟨s', h1, h2⟩ := h; subst h2; simpa using h1)
    | (subst_vars; simp only [Option.map_eq_some_iff] at h; obtain ⟨s', h1, h2⟩ := h; subst h2; simpa using h1)

/-- the program only changes at `inv` -/
theorem pstep_prog (p p' : PSt) (e : Ev) (hne : ∀ t o, e ≠ .inv t o) (h : pstep p e = some p') :
    p'.prog = p.prog := by
  cases e <;> simp only [pstep] at h <;> (repeat' split at h) <;>
    first
    | (simp at h; done)
    | (exact absurd rfl (hne _ _))
    | (simp only [Option.map_eq_some_iff] at h; obtain ⟨s', h1, h2⟩ := h; subst h2; rfl)

theorem pstep_inv (p p' : PSt) (t : Nat) (o : Op) (h : pstep p (.inv t o) = some p') :
    ∃ rest, p.prog t = o :: rest ∧ p'.prog = upd p.prog t rest ∧ t < p.s.n := by
  have hs := pstep_step p p' _ h
  simp only [pstep] at h
  split at h
  · rename_i o' rest hp
    split at h
    · rename_i ho; subst ho
      simp only [Option.map_eq_some_iff] at h; obtain ⟨s', h1, h2⟩ := h; subst h2
      refine ⟨rest, hp, rfl, ?_⟩
      simp only [step] at h1; split at h1
      · rename_i hg; exact hg.1
      · simp at h1
    · simp at h
  · simp at h

theorem runLog_pstep_step (log : List Ev) : ∀ (p p' : PSt), runLog pstep p log = some p' →
    runLog step p.s log = some p'.s := by
  induction log with
  | nil => intro p p' h; simp at h; subst h; simp
  | cons e es ih =>
    intro p p' h
    simp only [runLog] at h ⊢
    cases hs : pstep p e with
    | none => simp [hs] at h
    | some p1 =>
      simp only [hs] at h
      rw [pstep_step p p1 e hs]
      exact ih p1 p' h

/-- the number of threads is constant along an accepted log -/
theorem runLog_n {s s' : St} {log : List Ev} (h : runLog step s log = some s') : s'.n = s.n :=
  inv_of_runLog (fun x => x.n = s.n) (fun a e b ha hs => (step_n a b e hs).trans ha) rfl h

/-- potential of the operations a thread has not started yet (in a system of `N` threads):
    `rank N (want o)` per operation -/
def progCost (N : Nat) : List Op → Nat
  | [] => 0
  | o :: l => rank N (.want o) + progCost N l

/-- the measure on program states -/
def phi (p : PSt) : Nat := mu p.s + sumTo p.s.n (fun t => progCost p.s.n (p.prog t))

/-- **Every accepted event of a program strictly decreases `phi`.** -/
theorem phi_step (p p' : PSt) (e : Ev) (hr : Good p.s) (h : pstep p e = some p') : phi p' < phi p := by
  have hs := pstep_step p p' e h
  have hn := step_n _ _ _ hs
  by_cases hinv : ∃ t o, e = .inv t o
  · obtain ⟨t, o, he⟩ := hinv
    subst he
    obtain ⟨rest, hp, hp', htn⟩ := pstep_inv p p' t o h
    have hm := mu_inv _ _ _ _ hs
    simp only [phi, hn, hp']
    have := sumTo_upd p.s.n (progCost p.s.n) p.prog t rest htn
    rw [hp] at this
    simp only [progCost] at this
    omega
  · have hne : ∀ t o, e ≠ .inv t o := fun t o he => hinv ⟨t, o, he⟩
    have hm := mu_step _ _ _ hr hne hs
    have hp := pstep_prog p p' e hne h
    simp only [phi, hn, hp]
    omega

/-- explicit bound on the number of events of a program with `n` threads:
    1 per thread (`done`), 11 per `wait` / `try_wait`, `15 n + 9` per `signal` -/
def bound (n : Nat) (prog : Nat → List Op) : Nat := n + sumTo n (fun t => progCost n (prog t))

theorem phi_pinit (n : Nat) (d l : Int) (prog : Nat → List Op) : phi (pinit n d l prog) = bound n prog := by
  simp only [phi, pinit, mu, init, bound]
  have h1 : ∀ k, sumTo k (fun _ => rank n Pc.idle) = k := by
    intro k
    induction k with
    | zero => rfl
    | succ k ih => simp only [sumTo_succ, ih]; rfl
  have h2 : sumTo n (fun _ => tokW 0) = 0 := sumTo_eq_zero (fun _ _ => rfl)
  rw [h1, h2]; omega

theorem runLog_phi (log : List Ev) : ∀ (p p' : PSt), Good p.s → runLog pstep p log = some p' →
    log.length + phi p' ≤ phi p ∧ Good p'.s := by
  induction log with
  | nil => intro p p' hr h; simp at h; subst h; simp [hr]
  | cons e es ih =>
    intro p p' hr h
    simp only [runLog] at h
    cases hs : pstep p e with
    | none => simp [hs] at h
    | some p1 =>
      simp only [hs] at h
      have h1 := phi_step p p1 e hr hs
      have hr1 := good_step _ _ _ hr (pstep_step p p1 e hs)
      have h2 := ih p1 p' hr1 h
      simp only [List.length_cons]
      exact ⟨by omega, h2.2⟩

/-- no event at all is accepted: the run is maximal -/
def PStuck (p : PSt) : Prop := ∀ e, pstep p e = none

/-- every state of a program can be run to a maximal (stuck) state -/
theorem exists_maximal_from : ∀ (k : Nat) (p : PSt), Good p.s → phi p ≤ k →
    ∃ ext p', runLog pstep p ext = some p' ∧ PStuck p' := by
  intro k
  induction k with
  | zero =>
    intro p hr hk
    refine ⟨[], p, rfl, ?_⟩
    intro e
    cases he : pstep p e with
    | none => rfl
    | some p1 => have := phi_step p p1 e hr he; omega
  | succ k ih =>
    intro p hr hk
    by_cases hst : PStuck p
    · exact ⟨[], p, rfl, hst⟩
    · have : ∃ e, pstep p e ≠ none := Classical.byContradiction (fun hc => hst (fun e =>
        Classical.byContradiction (fun hn => hc ⟨e, hn⟩)))
      obtain ⟨e, he⟩ := this
      cases hp1 : pstep p e with
      | none => exact absurd hp1 he
      | some p1 =>
        have hlt := phi_step p p1 e hr hp1
        have hr1 := good_step _ _ _ hr (pstep_step p p1 e hp1)
        obtain ⟨ext, p', hrun, hstuck⟩ := ih p1 hr1 (by omega)
        refine ⟨e :: ext, p', ?_, hstuck⟩
        simp only [runLog, hp1]; exact hrun

/-- a finished thread has no operation left -/
def FinOk (p : PSt) : Prop := ∀ t, p.s.pc t = .fin → p.prog t = []

theorem setPopped_not_fin {q q' : Pc} (h : setPopped q = some q') : q' ≠ .fin := by
  unfold setPopped at h
  split at h <;> simp at h <;> subst h <;> simp

/-- only `done` creates a `fin` -/
theorem step_fin (s s' : St) (e : Ev) (hs : step s e = some s') (hd : ∀ t, e ≠ .done t) :
    ∀ u, s'.pc u = .fin → s.pc u = .fin := by
  intro u
  cases e
  case done t => exact absurd rfl (hd t)
  case popResume t z g =>
    simp only [step] at hs
    (repeat' split at hs) <;> first | (simp at hs; done) | skip
    all_goals (
      rename_i hsp
      simp only [Option.some.injEq] at hs; subst hs; simp only [upd]; intro hu
      (repeat' split at hu)
      · simp at hu
      · exact absurd hu (setPopped_not_fin hsp)
      · exact hu)
  all_goals
    simp only [step] at hs <;> (repeat' split at hs) <;>
      first
      | (simp at hs; done)
      | (simp only [Option.some.injEq] at hs; subst hs; simp only [upd]; intro hu
         (repeat' split at hu) <;>
           first
           | exact hu
           | (simp at hu; done))

theorem finOk_step (p p' : PSt) (e : Ev) (hf : FinOk p) (h : pstep p e = some p') : FinOk p' := by
  have hs := pstep_step p p' e h
  by_cases hinv : ∃ t o, e = .inv t o
  · obtain ⟨t, o, he⟩ := hinv
    subst he
    obtain ⟨rest, hp, hp', htn⟩ := pstep_inv p p' t o h
    intro u hu
    simp only [step] at hs
    split at hs
    · simp only [Option.some.injEq] at hs
      rw [← hs] at hu
      simp only [upd] at hu
      split at hu
      · simp at hu
      · rename_i hut; rw [hp']; simp only [upd, hut, if_false]; exact hf u hu
    · simp at hs
  · have hne : ∀ t o, e ≠ .inv t o := fun t o he => hinv ⟨t, o, he⟩
    have hp := pstep_prog p p' e hne h
    intro u hu
    rw [hp]
    by_cases hd : ∃ t, e = .done t
    · obtain ⟨t, he⟩ := hd
      subst he
      simp only [pstep] at h
      split at h
      · rename_i hnil
        simp only [step] at hs
        split at hs
        · simp only [Option.some.injEq] at hs
          rw [← hs] at hu
          simp only [upd] at hu
          split at hu
          · rename_i hut; rw [hut]; exact hnil
          · exact hf u hu
        · simp at hs
      · simp at h
    · exact hf u (step_fin _ _ _ hs (fun t he => hd ⟨t, he⟩) u hu)

theorem runLog_finOk (log : List Ev) : ∀ (p p' : PSt), FinOk p → runLog pstep p log = some p' → FinOk p' := by
  induction log with
  | nil => intro p p' hf h; simp at h; subst h; exact hf
  | cons e es ih =>
    intro p p' hf h
    simp only [runLog] at h
    cases hs : pstep p e with
    | none => simp [hs] at h
    | some p1 => simp only [hs] at h; exact ih p1 p' (finOk_step p p1 e hf hs) h

end PikaVerif.SSem
