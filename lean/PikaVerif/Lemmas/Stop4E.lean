import PikaVerif.Lemmas.Stop4
/-! Constructor-wise equations of the phase functions of `Stop4` (generated; used by `grind`). -/
namespace PikaVerif.Stop

theorem retUnreg_idle : retUnreg .idle = (none : Option Nat) := rfl
theorem retUnreg_fin : retUnreg .fin = (none : Option Nat) := rfl
theorem retUnreg_ld_rs : retUnreg (.ld .rs) = (none : Option Nat) := rfl
theorem retUnreg_cas_rs (b : Bool) : retUnreg (.cas .rs b) = (none : Option Nat) := rfl
theorem retUnreg_spin_rs : retUnreg (.spin .rs) = (none : Option Nat) := rfl
theorem retUnreg_locked_rs : retUnreg (.locked .rs) = (none : Option Nat) := rfl
theorem retUnreg_retn_rs (r : Bool) : retUnreg (.retn .rs r) = (none : Option Nat) := rfl
theorem retUnreg_ld_reg (c : Nat) : retUnreg (.ld (.reg c)) = (none : Option Nat) := rfl
theorem retUnreg_cas_reg (c : Nat) (b : Bool) : retUnreg (.cas (.reg c) b) = (none : Option Nat) := rfl
theorem retUnreg_spin_reg (c : Nat) : retUnreg (.spin (.reg c)) = (none : Option Nat) := rfl
theorem retUnreg_locked_reg (c : Nat) : retUnreg (.locked (.reg c)) = (none : Option Nat) := rfl
theorem retUnreg_retn_reg (c : Nat) (r : Bool) : retUnreg (.retn (.reg c) r) = (none : Option Nat) := rfl
theorem retUnreg_ld_unreg (c : Nat) : retUnreg (.ld (.unreg c)) = (none : Option Nat) := rfl
theorem retUnreg_cas_unreg (c : Nat) (b : Bool) : retUnreg (.cas (.unreg c) b) = (none : Option Nat) := rfl
theorem retUnreg_spin_unreg (c : Nat) : retUnreg (.spin (.unreg c)) = (none : Option Nat) := rfl
theorem retUnreg_locked_unreg (c : Nat) : retUnreg (.locked (.unreg c)) = (none : Option Nat) := rfl
theorem retUnreg_retn_unreg (c : Nat) (r : Bool) : retUnreg (.retn (.unreg c) r) = (some c : Option Nat) := rfl
theorem retUnreg_ld_relock : retUnreg (.ld .relock) = (none : Option Nat) := rfl
theorem retUnreg_cas_relock (b : Bool) : retUnreg (.cas .relock b) = (none : Option Nat) := rfl
theorem retUnreg_spin_relock : retUnreg (.spin .relock) = (none : Option Nat) := rfl
theorem retUnreg_locked_relock : retUnreg (.locked .relock) = (none : Option Nat) := rfl
theorem retUnreg_retn_relock (r : Bool) : retUnreg (.retn .relock r) = (none : Option Nat) := rfl
theorem retUnreg_pre (c : Nat) : retUnreg (.pre c) = (none : Option Nat) := rfl
theorem retUnreg_exec (c : Nat) (inl : Bool) : retUnreg (.exec c inl) = (none : Option Nat) := by cases ‹Bool› <;> rfl
theorem retUnreg_body (c : Nat) (inl : Bool) : retUnreg (.body c inl) = (none : Option Nat) := by cases ‹Bool› <;> rfl
theorem retUnreg_post (c : Nat) (inl : Bool) : retUnreg (.post c inl) = (none : Option Nat) := by cases ‹Bool› <;> rfl
theorem retUnreg_chk (c : Nat) : retUnreg (.chk c) = (none : Option Nat) := rfl
theorem retUnreg_wait (c : Nat) : retUnreg (.wait c) = (none : Option Nat) := rfl
theorem runPhase_idle : runPhase .idle = (none : Option Nat) := rfl
theorem runPhase_fin : runPhase .fin = (none : Option Nat) := rfl
theorem runPhase_ld_rs : runPhase (.ld .rs) = (none : Option Nat) := rfl
theorem runPhase_cas_rs (b : Bool) : runPhase (.cas .rs b) = (none : Option Nat) := rfl
theorem runPhase_spin_rs : runPhase (.spin .rs) = (none : Option Nat) := rfl
theorem runPhase_locked_rs : runPhase (.locked .rs) = (none : Option Nat) := rfl
theorem runPhase_retn_rs (r : Bool) : runPhase (.retn .rs r) = (none : Option Nat) := rfl
theorem runPhase_ld_reg (c : Nat) : runPhase (.ld (.reg c)) = (none : Option Nat) := rfl
theorem runPhase_cas_reg (c : Nat) (b : Bool) : runPhase (.cas (.reg c) b) = (none : Option Nat) := rfl
theorem runPhase_spin_reg (c : Nat) : runPhase (.spin (.reg c)) = (none : Option Nat) := rfl
theorem runPhase_locked_reg (c : Nat) : runPhase (.locked (.reg c)) = (none : Option Nat) := rfl
theorem runPhase_retn_reg (c : Nat) (r : Bool) : runPhase (.retn (.reg c) r) = (none : Option Nat) := rfl
theorem runPhase_ld_unreg (c : Nat) : runPhase (.ld (.unreg c)) = (none : Option Nat) := rfl
theorem runPhase_cas_unreg (c : Nat) (b : Bool) : runPhase (.cas (.unreg c) b) = (none : Option Nat) := rfl
theorem runPhase_spin_unreg (c : Nat) : runPhase (.spin (.unreg c)) = (none : Option Nat) := rfl
theorem runPhase_locked_unreg (c : Nat) : runPhase (.locked (.unreg c)) = (none : Option Nat) := rfl
theorem runPhase_retn_unreg (c : Nat) (r : Bool) : runPhase (.retn (.unreg c) r) = (none : Option Nat) := rfl
theorem runPhase_ld_relock : runPhase (.ld .relock) = (none : Option Nat) := rfl
theorem runPhase_cas_relock (b : Bool) : runPhase (.cas .relock b) = (none : Option Nat) := rfl
theorem runPhase_spin_relock : runPhase (.spin .relock) = (none : Option Nat) := rfl
theorem runPhase_locked_relock : runPhase (.locked .relock) = (none : Option Nat) := rfl
theorem runPhase_retn_relock (r : Bool) : runPhase (.retn .relock r) = (none : Option Nat) := rfl
theorem runPhase_pre (c : Nat) : runPhase (.pre c) = (none : Option Nat) := rfl
theorem runPhase_exec (c : Nat) (inl : Bool) : runPhase (.exec c inl) = (if inl then none else some c : Option Nat) := by cases ‹Bool› <;> rfl
theorem runPhase_body (c : Nat) (inl : Bool) : runPhase (.body c inl) = (if inl then none else some c : Option Nat) := by cases ‹Bool› <;> rfl
theorem runPhase_post (c : Nat) (inl : Bool) : runPhase (.post c inl) = (if inl then none else some c : Option Nat) := by cases ‹Bool› <;> rfl
theorem runPhase_chk (c : Nat) : runPhase (.chk c) = (none : Option Nat) := rfl
theorem runPhase_wait (c : Nat) : runPhase (.wait c) = (none : Option Nat) := rfl
theorem unregPath_idle : unregPath .idle = (none : Option Nat) := rfl
theorem unregPath_fin : unregPath .fin = (none : Option Nat) := rfl
theorem unregPath_ld_rs : unregPath (.ld .rs) = (none : Option Nat) := rfl
theorem unregPath_cas_rs (b : Bool) : unregPath (.cas .rs b) = (none : Option Nat) := rfl
theorem unregPath_spin_rs : unregPath (.spin .rs) = (none : Option Nat) := rfl
theorem unregPath_locked_rs : unregPath (.locked .rs) = (none : Option Nat) := rfl
theorem unregPath_retn_rs (r : Bool) : unregPath (.retn .rs r) = (none : Option Nat) := rfl
theorem unregPath_ld_reg (c : Nat) : unregPath (.ld (.reg c)) = (none : Option Nat) := rfl
theorem unregPath_cas_reg (c : Nat) (b : Bool) : unregPath (.cas (.reg c) b) = (none : Option Nat) := rfl
theorem unregPath_spin_reg (c : Nat) : unregPath (.spin (.reg c)) = (none : Option Nat) := rfl
theorem unregPath_locked_reg (c : Nat) : unregPath (.locked (.reg c)) = (none : Option Nat) := rfl
theorem unregPath_retn_reg (c : Nat) (r : Bool) : unregPath (.retn (.reg c) r) = (none : Option Nat) := rfl
theorem unregPath_ld_unreg (c : Nat) : unregPath (.ld (.unreg c)) = (some c : Option Nat) := rfl
theorem unregPath_cas_unreg (c : Nat) (b : Bool) : unregPath (.cas (.unreg c) b) = (some c : Option Nat) := rfl
theorem unregPath_spin_unreg (c : Nat) : unregPath (.spin (.unreg c)) = (some c : Option Nat) := rfl
theorem unregPath_locked_unreg (c : Nat) : unregPath (.locked (.unreg c)) = (some c : Option Nat) := rfl
theorem unregPath_retn_unreg (c : Nat) (r : Bool) : unregPath (.retn (.unreg c) r) = (none : Option Nat) := rfl
theorem unregPath_ld_relock : unregPath (.ld .relock) = (none : Option Nat) := rfl
theorem unregPath_cas_relock (b : Bool) : unregPath (.cas .relock b) = (none : Option Nat) := rfl
theorem unregPath_spin_relock : unregPath (.spin .relock) = (none : Option Nat) := rfl
theorem unregPath_locked_relock : unregPath (.locked .relock) = (none : Option Nat) := rfl
theorem unregPath_retn_relock (r : Bool) : unregPath (.retn .relock r) = (none : Option Nat) := rfl
theorem unregPath_pre (c : Nat) : unregPath (.pre c) = (none : Option Nat) := rfl
theorem unregPath_exec (c : Nat) (inl : Bool) : unregPath (.exec c inl) = (none : Option Nat) := by cases ‹Bool› <;> rfl
theorem unregPath_body (c : Nat) (inl : Bool) : unregPath (.body c inl) = (none : Option Nat) := by cases ‹Bool› <;> rfl
theorem unregPath_post (c : Nat) (inl : Bool) : unregPath (.post c inl) = (none : Option Nat) := by cases ‹Bool› <;> rfl
theorem unregPath_chk (c : Nat) : unregPath (.chk c) = (some c : Option Nat) := rfl
theorem unregPath_wait (c : Nat) : unregPath (.wait c) = (some c : Option Nat) := rfl
theorem act_idle : act .idle = (false : Bool) := rfl
theorem act_fin : act .fin = (false : Bool) := rfl
theorem act_ld_rs : act (.ld .rs) = (true : Bool) := rfl
theorem act_cas_rs (b : Bool) : act (.cas .rs b) = (true : Bool) := rfl
theorem act_spin_rs : act (.spin .rs) = (true : Bool) := rfl
theorem act_locked_rs : act (.locked .rs) = (true : Bool) := rfl
theorem act_retn_rs (r : Bool) : act (.retn .rs r) = (true : Bool) := rfl
theorem act_ld_reg (c : Nat) : act (.ld (.reg c)) = (true : Bool) := rfl
theorem act_cas_reg (c : Nat) (b : Bool) : act (.cas (.reg c) b) = (true : Bool) := rfl
theorem act_spin_reg (c : Nat) : act (.spin (.reg c)) = (true : Bool) := rfl
theorem act_locked_reg (c : Nat) : act (.locked (.reg c)) = (true : Bool) := rfl
theorem act_retn_reg (c : Nat) (r : Bool) : act (.retn (.reg c) r) = (true : Bool) := rfl
theorem act_ld_unreg (c : Nat) : act (.ld (.unreg c)) = (true : Bool) := rfl
theorem act_cas_unreg (c : Nat) (b : Bool) : act (.cas (.unreg c) b) = (true : Bool) := rfl
theorem act_spin_unreg (c : Nat) : act (.spin (.unreg c)) = (true : Bool) := rfl
theorem act_locked_unreg (c : Nat) : act (.locked (.unreg c)) = (true : Bool) := rfl
theorem act_retn_unreg (c : Nat) (r : Bool) : act (.retn (.unreg c) r) = (true : Bool) := rfl
theorem act_ld_relock : act (.ld .relock) = (true : Bool) := rfl
theorem act_cas_relock (b : Bool) : act (.cas .relock b) = (true : Bool) := rfl
theorem act_spin_relock : act (.spin .relock) = (true : Bool) := rfl
theorem act_locked_relock : act (.locked .relock) = (true : Bool) := rfl
theorem act_retn_relock (r : Bool) : act (.retn .relock r) = (true : Bool) := rfl
theorem act_pre (c : Nat) : act (.pre c) = (true : Bool) := rfl
theorem act_exec (c : Nat) (inl : Bool) : act (.exec c inl) = (true : Bool) := by cases ‹Bool› <;> rfl
theorem act_body (c : Nat) (inl : Bool) : act (.body c inl) = (true : Bool) := by cases ‹Bool› <;> rfl
theorem act_post (c : Nat) (inl : Bool) : act (.post c inl) = (true : Bool) := by cases ‹Bool› <;> rfl
theorem act_chk (c : Nat) : act (.chk c) = (true : Bool) := rfl
theorem act_wait (c : Nat) : act (.wait c) = (true : Bool) := rfl

attribute [grind =] retUnreg_idle retUnreg_fin retUnreg_ld_rs retUnreg_cas_rs retUnreg_spin_rs retUnreg_locked_rs retUnreg_retn_rs retUnreg_ld_reg retUnreg_cas_reg retUnreg_spin_reg retUnreg_locked_reg retUnreg_retn_reg retUnreg_ld_unreg retUnreg_cas_unreg retUnreg_spin_unreg retUnreg_locked_unreg retUnreg_retn_unreg retUnreg_ld_relock retUnreg_cas_relock retUnreg_spin_relock retUnreg_locked_relock retUnreg_retn_relock retUnreg_pre retUnreg_exec retUnreg_body retUnreg_post retUnreg_chk retUnreg_wait runPhase_idle runPhase_fin runPhase_ld_rs runPhase_cas_rs runPhase_spin_rs runPhase_locked_rs runPhase_retn_rs runPhase_ld_reg runPhase_cas_reg runPhase_spin_reg runPhase_locked_reg runPhase_retn_reg runPhase_ld_unreg runPhase_cas_unreg runPhase_spin_unreg runPhase_locked_unreg runPhase_retn_unreg runPhase_ld_relock runPhase_cas_relock runPhase_spin_relock runPhase_locked_relock runPhase_retn_relock runPhase_pre runPhase_exec runPhase_body runPhase_post runPhase_chk runPhase_wait unregPath_idle unregPath_fin unregPath_ld_rs unregPath_cas_rs unregPath_spin_rs unregPath_locked_rs unregPath_retn_rs unregPath_ld_reg unregPath_cas_reg unregPath_spin_reg unregPath_locked_reg unregPath_retn_reg unregPath_ld_unreg unregPath_cas_unreg unregPath_spin_unreg unregPath_locked_unreg unregPath_retn_unreg unregPath_ld_relock unregPath_cas_relock unregPath_spin_relock unregPath_locked_relock unregPath_retn_relock unregPath_pre unregPath_exec unregPath_body unregPath_post unregPath_chk unregPath_wait act_idle act_fin act_ld_rs act_cas_rs act_spin_rs act_locked_rs act_retn_rs act_ld_reg act_cas_reg act_spin_reg act_locked_reg act_retn_reg act_ld_unreg act_cas_unreg act_spin_unreg act_locked_unreg act_retn_unreg act_ld_relock act_cas_relock act_spin_relock act_locked_relock act_retn_relock act_pre act_exec act_body act_post act_chk act_wait

end PikaVerif.Stop
