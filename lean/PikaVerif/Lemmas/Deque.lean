import PikaVerif.Model.Deque
import PikaVerif.Lemmas.DequeList
/-! Structural invariant of the deque model: the anchor and the node links describe the ghost
chain (`Glob`), and how each successful shared write preserves it. -/
namespace PikaVerif.Deque
open PikaVerif

/-- `p` is the chain neighbour of `e` on the interior side of end `d` -/
def Nbr (d : Bool) (C : List Nat) (e p : Nat) : Prop := if d then Adj C p e else Adj C e p

structure Glob (A : Anchor) (C : List Nat) (N : Nat → Node) (U : Nat → Bool) : Prop where
  hd : A.l = C.head?.getD 0
  lst : A.r = C.getLast?.getD 0
  mem : ∀ x, x ∈ C → x ≠ 0 ∧ U x = true
  nodup : C.Nodup
  st : A.st = 0 ∨ ((A.st = 1 ∨ A.st = 2) ∧ 2 ≤ C.length)
  rlink : ∀ a b, Adj C a b → (A.st = 1 → b ≠ A.r) → (N a).right.ptr = b
  llink : ∀ a b, Adj C a b → (A.st = 2 → a ≠ A.l) → (N b).left.ptr = a

variable {A : Anchor} {C : List Nat} {N : Nat → Node} {U : Nat → Bool}

theorem Glob.head_eq (g : Glob A C N U) (h : C ≠ []) : C.head? = some A.l := by
  cases C with
  | nil => exact absurd rfl h
  | cons x l => have := g.hd; simp at this; simp [this]

theorem Glob.last_eq (g : Glob A C N U) (h : C ≠ []) : C.getLast? = some A.r := by
  have := g.lst
  cases hl : C.getLast? with
  | none => simp at hl; exact absurd hl h
  | some y => simp [hl] at this; simp [this]

theorem Glob.nil_of_end (g : Glob A C N U) (d : Bool) (h : A.endp d = 0) : C = [] := by
  cases C with
  | nil => rfl
  | cons x l =>
    exfalso
    have h1 := g.head_eq (by simp)
    have h2 := g.last_eq (by simp)
    have m1 : A.l ∈ x :: l := by simp at h1; simp [h1]
    have m2 : A.r ∈ x :: l := List.mem_of_getLast? h2
    cases d
    · simp [Anchor.endp] at h; exact (g.mem _ m1).1 h
    · simp [Anchor.endp] at h; exact (g.mem _ m2).1 h

theorem Glob.end_mem (g : Glob A C N U) (d : Bool) (h : A.endp d ≠ 0) : A.endp d ∈ C := by
  have hne : C ≠ [] := by
    intro hc; subst hc
    have h1 := g.hd; have h2 := g.lst
    cases d <;> simp [Anchor.endp] at h <;> simp at h1 h2 <;> omega
  have h1 := g.head_eq hne
  have h2 := g.last_eq hne
  cases d
  · simp only [Anchor.endp]; cases C with
    | nil => simp at h1
    | cons x l => simp at h1; simp [h1]
  · simp only [Anchor.endp]; exact List.mem_of_getLast? h2

theorem Glob.len_two (g : Glob A C N U) (h : A.l ≠ A.r) : 2 ≤ C.length := by
  cases C with
  | nil => have := g.hd; have := g.lst; simp at *; omega
  | cons x l =>
    cases l with
    | nil => have h1 := g.hd; have h2 := g.lst; simp at h1 h2; omega
    | cons y l => simp

theorem Glob.single (g : Glob A C N U) (h : A.l = A.r) (h0 : A.l ≠ 0) : C = [A.l] := by
  have hm := g.end_mem false (by simpa [Anchor.endp] using h0)
  have hne : C ≠ [] := by intro hc; rw [hc] at hm; simp at hm
  have h1 := g.head_eq hne
  have h2 := g.last_eq hne
  cases C with
  | nil => simp at h1
  | cons x l =>
    cases l with
    | nil => simp at h1; simp [h1]
    | cons y l =>
      exfalso
      simp at h1
      have hx : x ∉ y :: l := (List.nodup_cons.1 g.nodup).1
      rw [List.getLast?_cons_cons] at h2
      rw [← h, ← h1] at h2
      exact hx (List.mem_of_getLast? h2)

theorem Glob.ends_ne (g : Glob A C N U) (h : 2 ≤ C.length) : A.l ≠ A.r := by
  have hne : C ≠ [] := by intro hc; rw [hc] at h; simp at h
  have h1 := g.head_eq hne
  have h2 := g.last_eq hne
  cases C with
  | nil => exact absurd rfl hne
  | cons x l =>
    cases l with
    | nil => simp at h
    | cons y l =>
      simp at h1
      have hx : x ∉ y :: l := (List.nodup_cons.1 g.nodup).1
      rw [List.getLast?_cons_cons] at h2
      intro he
      rw [← he, ← h1] at h2
      exact hx (List.mem_of_getLast? h2)

theorem Glob.ends_ne_of_st (g : Glob A C N U) (h : A.st ≠ 0) : A.l ≠ A.r := by
  have := g.st
  exact g.ends_ne (by omega)

theorem Glob.end_ne_zero (g : Glob A C N U) (d : Bool) (h : A.l ≠ A.r) : A.endp d ≠ 0 := by
  intro h0
  have := g.nil_of_end d h0
  subst this
  have h1 := g.hd; have h2 := g.lst
  simp at h1 h2; omega

theorem Glob.st_cases (g : Glob A C N U) (h : A.st ≠ 0) : A.st = pushSt (decide (A.st = 1)) := by
  have := g.st
  by_cases h1 : A.st = 1
  · rw [h1]; rfl
  · have h2 : A.st = 2 := by omega
    rw [h2]; rfl

@[simp] theorem inward_setInward (d : Bool) (nd : Node) (lk : Link) :
    inward d (setInward d nd lk) = lk := by cases d <;> rfl
@[simp] theorem outward_setOutward (d : Bool) (nd : Node) (lk : Link) :
    outward d (setOutward d nd lk) = lk := by cases d <;> rfl
@[simp] theorem data_setInward (d : Bool) (nd : Node) (lk : Link) :
    (setInward d nd lk).data = nd.data := by cases d <;> rfl
@[simp] theorem data_setOutward (d : Bool) (nd : Node) (lk : Link) :
    (setOutward d nd lk).data = nd.data := by cases d <;> rfl

/-- the interior link of an end node names its chain neighbour -/
@[simp] theorem pushSt_false : pushSt false = 2 := rfl
@[simp] theorem pushSt_true : pushSt true = 1 := rfl

theorem Glob.nbr_inward (g : Glob A C N U) (d : Bool) (h : A.l ≠ A.r)
    (hs : A.st = 0 ∨ A.st = pushSt d) :
    Nbr d C (A.endp d) (inward d (N (A.endp d))).ptr := by
  have hl := g.len_two h
  have hne : C ≠ [] := by intro hc; rw [hc] at hl; simp at hl
  cases d
  · obtain ⟨y, hy, _⟩ := adj_head_exists (g.head_eq hne) hl
    have := g.rlink _ _ hy (by intro h1; rcases hs with h0 | h0 <;> (try simp only [pushSt_false, pushSt_true] at h0) <;> omega)
    simp only [Nbr, Anchor.endp, inward]
    simpa [this] using hy
  · obtain ⟨y, hy, _⟩ := adj_last_exists (g.last_eq hne) hl
    have := g.llink _ _ hy (by intro h1; rcases hs with h0 | h0 <;> (try simp only [pushSt_false, pushSt_true] at h0) <;> omega)
    simp only [Nbr, Anchor.endp, inward]
    simpa [this] using hy

theorem nbr_unique (hn : C.Nodup) {d : Bool} {e p p' : Nat} (h : Nbr d C e p) (h' : Nbr d C e p') :
    p = p' := by
  cases d
  · exact adj_right_unique hn h h'
  · exact adj_left_unique hn h h'

theorem nbr_mem {d : Bool} {e p : Nat} (h : Nbr d C e p) : e ∈ C ∧ p ∈ C := by
  cases d
  · exact adj_mem h
  · exact (adj_mem h).symm

/-- node updates outside the chain (or that keep the links) do not matter -/
theorem Glob.frame (g : Glob A C N U) {N' : Nat → Node} {U' : Nat → Bool}
    (hN : ∀ x, x ∈ C → N' x = N x) (hU : ∀ x, x ∈ C → U' x = true) : Glob A C N' U' := by
  refine ⟨g.hd, g.lst, fun x hx => ⟨(g.mem x hx).1, hU x hx⟩, g.nodup, g.st, ?_, ?_⟩
  · intro a b hab he; rw [hN a (adj_mem hab).1]; exact g.rlink a b hab he
  · intro a b hab he; rw [hN b (adj_mem hab).2]; exact g.llink a b hab he

/-- push into the empty deque -/
theorem Glob.push_empty (g : Glob A C N U) (d : Bool) (h : A.endp d = 0) {n : Nat} (hn : n ≠ 0)
    (hu : U n = true) : Glob ⟨n, n, A.st, A.tag + 1⟩ (chainPush d C n) N U := by
  have hc := g.nil_of_end d h
  subst hc
  have hst : A.st = 0 := by have := g.st; simp at this; omega
  have e : chainPush d [] n = [n] := by cases d <;> rfl
  rw [e]
  refine ⟨by simp, by simp, ?_, by simp, Or.inl hst, by simp, by simp⟩
  intro x hx; simp at hx; subst hx; exact ⟨hn, hu⟩

/-- push at end `d` of a stable non-empty deque (the anchor CAS of `push_left/right`) -/
theorem Glob.push (g : Glob A C N U) (d : Bool) (hst : A.st = 0) (h : A.endp d ≠ 0) {n : Nat}
    (hn : n ≠ 0) (hu : U n = true) (hnc : n ∉ C) (hl : (inward d (N n)).ptr = A.endp d) :
    Glob (if d then ⟨A.l, n, 1, A.tag + 1⟩ else ⟨n, A.r, 2, A.tag + 1⟩) (chainPush d C n) N U := by
  have hm := g.end_mem d h
  have hne : C ≠ [] := by intro hc; rw [hc] at hm; simp at hm
  have hh := g.head_eq hne
  have hla := g.last_eq hne
  have hlen : 1 ≤ C.length := by cases C with
    | nil => exact absurd rfl hne
    | cons _ _ => simp
  cases d
  · simp only [chainPush, Bool.false_eq_true, if_false, Anchor.endp, inward] at *
    refine ⟨by simp, ?_, ?_, ?_, ?_, ?_, ?_⟩
    · cases C with
      | nil => exact absurd rfl hne
      | cons x l => simp only [List.getLast?_cons_cons]; exact g.lst
    · intro x hx; simp at hx; rcases hx with rfl | hx
      · exact ⟨hn, hu⟩
      · exact g.mem x hx
    · exact List.nodup_cons.2 ⟨hnc, g.nodup⟩
    · right; simp; omega
    · intro a b hab _
      rw [adj_cons] at hab
      rcases hab with ⟨rfl, hb⟩ | hab
      · rw [hh] at hb; simp at hb; rw [hl, hb]
      · exact g.rlink a b hab (by simp [hst])
    · intro a b hab he
      rw [adj_cons] at hab
      rcases hab with ⟨rfl, _⟩ | hab
      · simp at he
      · exact g.llink a b hab (by simp [hst])
  · simp only [chainPush, if_true, Anchor.endp, inward] at *
    refine ⟨?_, by simp, ?_, ?_, ?_, ?_, ?_⟩
    · cases C with
      | nil => exact absurd rfl hne
      | cons x l => simpa using g.hd
    · intro x hx; simp at hx; rcases hx with hx | rfl
      · exact g.mem x hx
      · exact ⟨hn, hu⟩
    · rw [List.nodup_append]; refine ⟨g.nodup, by simp, ?_⟩
      intro a ha b hb; simp at hb; subst hb; intro hab; subst hab; exact hnc ha
    · right; simp; omega
    · intro a b hab he
      rw [adj_snoc] at hab
      rcases hab with hab | ⟨_, rfl⟩
      · exact g.rlink a b hab (by simp [hst])
      · simp at he
    · intro a b hab _
      rw [adj_snoc] at hab
      rcases hab with hab | ⟨ha, rfl⟩
      · exact g.llink a b hab (by simp [hst])
      · rw [hla] at ha; simp at ha; rw [hl, ha]

/-- pop of the only element -/
theorem Glob.pop_single (g : Glob A C N U) (d : Bool) (h : A.l = A.r) (h0 : A.endp d ≠ 0) :
    Glob ⟨0, 0, A.st, A.tag + 1⟩ (chainPop d C) N U ∧ C = [A.endp d] := by
  have hl0 : A.l ≠ 0 := by cases d <;> simp [Anchor.endp] at h0 <;> omega
  have hc := g.single h hl0
  have hst : A.st = 0 := by have := g.st; rw [hc] at this; simp at this; omega
  have e : chainPop d [A.l] = [] := by cases d <;> rfl
  have e2 : A.endp d = A.l := by cases d <;> simp [Anchor.endp, h]
  rw [e2]
  refine ⟨?_, hc⟩
  rw [hc, e]
  exact ⟨by simp, by simp, by simp, by simp, Or.inl hst, by simp, by simp⟩

/-- pop at end `d` of a stable deque with at least two elements -/
theorem Glob.pop (g : Glob A C N U) (d : Bool) (hst : A.st = 0) (h : A.l ≠ A.r) {p : Nat}
    (hp : Nbr d C (A.endp d) p) :
    Glob (if d then ⟨A.l, p, A.st, A.tag + 1⟩ else ⟨p, A.r, A.st, A.tag + 1⟩) (chainPop d C) N U ∧
    A.endp d ∉ chainPop d C ∧
    C = (if d then chainPop d C ++ [A.endp d] else A.endp d :: chainPop d C) := by
  have hl := g.len_two h
  have hne : C ≠ [] := by intro hc; rw [hc] at hl; simp at hl
  have hh := g.head_eq hne
  have hla := g.last_eq hne
  cases d
  · simp only [chainPop, Bool.false_eq_true, if_false, Anchor.endp, Nbr] at *
    obtain ⟨y, hy, hy2⟩ := adj_head_exists hh hl
    have hpy : p = y := adj_right_unique g.nodup hp hy
    subst hpy
    cases C with
    | nil => exact absurd rfl hne
    | cons x l =>
      simp at hh; subst hh
      have hx : A.l ∉ l := (List.nodup_cons.1 g.nodup).1
      have hnl : l.Nodup := (List.nodup_cons.1 g.nodup).2
      refine ⟨⟨?_, ?_, ?_, hnl, Or.inl hst, ?_, ?_⟩, by simpa using hx, by simp⟩
      · simp at hy2; simp [hy2]
      · cases l with
        | nil => simp at hl
        | cons z l => have := g.lst; rw [List.getLast?_cons_cons] at this; simpa using this
      · intro x hx'; exact g.mem x (by simp at hx'; simp [hx'])
      · intro a b hab _; exact g.rlink a b (adj_tail (l := A.l :: l) hab) (by simp [hst])
      · intro a b hab _; exact g.llink a b (adj_tail (l := A.l :: l) hab) (by simp [hst])
  · simp only [chainPop, if_true, Anchor.endp, Nbr] at *
    obtain ⟨y, hy, hy2⟩ := adj_last_exists hla hl
    have hpy : p = y := adj_left_unique g.nodup hp hy
    subst hpy
    have hsplit : C = C.dropLast ++ [A.r] := dropLast_split C A.r hla
    have hnd : (C.dropLast ++ [A.r]).Nodup := by rw [← hsplit]; exact g.nodup
    rw [List.nodup_append] at hnd
    refine ⟨⟨?_, ?_, ?_, hnd.1, Or.inl hst, ?_, ?_⟩, ?_, hsplit⟩
    · have := g.hd
      cases C with
      | nil => exact absurd rfl hne
      | cons x l =>
        cases l with
        | nil => simp at hl
        | cons z l => simpa using this
    · simp [hy2]
    · intro x hx'; exact g.mem x (List.dropLast_subset _ hx')
    · intro a b hab _; exact g.rlink a b (adj_dropLast hab) (by simp [hst])
    · intro a b hab _; exact g.llink a b (adj_dropLast hab) (by simp [hst])
    · intro hm; exact hnd.2.2 _ hm _ (by simp) rfl

/-- the final anchor CAS of `stabilize_left/right` -/
theorem Glob.stab (g : Glob A C N U) (d : Bool) (hst : A.st = pushSt d)
    (hk : ∀ p, Nbr d C (A.endp d) p → (outward d (N p)).ptr = A.endp d) :
    Glob ⟨A.l, A.r, 0, A.tag + 1⟩ C N U := by
  refine ⟨g.hd, g.lst, g.mem, g.nodup, Or.inl rfl, ?_, ?_⟩
  · intro a b hab _
    by_cases hb : A.st = 1 → b ≠ A.r
    · exact g.rlink a b hab hb
    · have hb' : A.st = 1 ∧ b = A.r := by
        refine ⟨Classical.byContradiction fun h1 => hb (fun h2 => absurd h2 h1), Classical.byContradiction fun h1 => hb (fun _ => h1)⟩
      have hd : d = true := by cases d <;> simp [pushSt] at hst <;> first | rfl | omega
      subst hd
      have := hk a (by simp only [Nbr, Anchor.endp, if_true]; rw [← hb'.2]; exact hab)
      simpa [outward, Anchor.endp, hb'.2] using this
  · intro a b hab _
    by_cases ha : A.st = 2 → a ≠ A.l
    · exact g.llink a b hab ha
    · have ha' : A.st = 2 ∧ a = A.l := by
        refine ⟨Classical.byContradiction fun h1 => ha (fun h2 => absurd h2 h1), Classical.byContradiction fun h1 => ha (fun _ => h1)⟩
      have hd : d = false := by cases d <;> simp [pushSt] at hst <;> first | rfl | omega
      subst hd
      have := hk b (by simp only [Nbr, Anchor.endp, Bool.false_eq_true, if_false]; rw [← ha'.2]; exact hab)
      simpa [outward, Anchor.endp, ha'.2] using this

/-- the link CAS of `stabilize_left/right`, performed while the anchor is still the one it was
    computed for -/
theorem Glob.lcas (g : Glob A C N U) (d : Bool) {p : Nat} (hp : Nbr d C (A.endp d) p) (tg : Nat) :
    Glob A C (upd N p (setOutward d (N p) ⟨A.endp d, tg⟩)) U := by
  refine ⟨g.hd, g.lst, g.mem, g.nodup, g.st, ?_, ?_⟩
  · intro a b hab he
    by_cases hap : a = p
    · subst hap
      cases d
      · simp [upd, setOutward]; exact g.rlink a b hab he
      · simp only [Nbr, if_true, Anchor.endp] at hp
        have := adj_right_unique g.nodup hab hp
        simp [upd, setOutward, Anchor.endp, this]
    · simp [upd, hap]; exact g.rlink a b hab he
  · intro a b hab he
    by_cases hbp : b = p
    · subst hbp
      cases d
      · simp only [Nbr, Bool.false_eq_true, if_false, Anchor.endp] at hp
        have := adj_left_unique g.nodup hab hp
        simp [upd, setOutward, Anchor.endp, this]
      · simp [upd, setOutward]; exact g.llink a b hab he
    · simp [upd, hbp]; exact g.llink a b hab he

end PikaVerif.Deque
