import PikaVerif.Lemmas.Stop2
namespace PikaVerif.Stop
open PikaVerif
set_option maxHeartbeats 8000000 in
theorem stepB_query (s s' : St) (a : Nat) (x y : Bool) (hA : InvA s) (hi : InvB s) (h : step s (.query a x y) = some s') : InvB s' := by stopB
end PikaVerif.Stop
