import PikaVerif.Lemmas.Stop2
namespace PikaVerif.Stop
open PikaVerif
set_option maxHeartbeats 8000000 in
theorem stepB_srcDec (s s' : St) (a : Nat) (hA : InvA s) (hi : InvB s) (h : step s (.srcDec a) = some s') : InvB s' := by stopB
end PikaVerif.Stop
