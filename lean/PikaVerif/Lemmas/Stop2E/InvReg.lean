import PikaVerif.Lemmas.Stop2D
namespace PikaVerif.Stop
open PikaVerif
set_option maxHeartbeats 8000000 in
theorem stepB_invReg (s s' : St) (a : Nat) (c : Nat) (hA : InvA s) (hi : InvB s) (h : step s (.inv a (.reg c)) = some s') : InvB s' := by stopB
end PikaVerif.Stop
