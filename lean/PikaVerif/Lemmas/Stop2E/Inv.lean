import PikaVerif.Lemmas.Stop2E.InvRs
import PikaVerif.Lemmas.Stop2E.InvReg
import PikaVerif.Lemmas.Stop2E.InvUnreg
namespace PikaVerif.Stop
open PikaVerif
theorem stepB_inv (s s' : St) (a : Nat) (k : Kind) (hA : InvA s) (hi : InvB s) (h : step s (.inv a k) = some s') : InvB s' := by
  cases k with
  | rs => exact stepB_invRs s s' a hA hi h
  | reg c => exact stepB_invReg s s' a c hA hi h
  | unreg c => exact stepB_invUnreg s s' a c hA hi h
  | relock =>
    simp only [step] at h
    split at h <;> simp at h
end PikaVerif.Stop
