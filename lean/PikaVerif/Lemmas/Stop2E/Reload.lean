import PikaVerif.Lemmas.Stop2C
namespace PikaVerif.Stop
open PikaVerif
set_option maxHeartbeats 8000000 in
theorem stepB_reload (s s' : St) (a : Nat) (lk rq : Bool) (src : Nat) (hA : InvA s) (hi : InvB s) (h : step s (.reload a lk rq src) = some s') : InvB s' := by stopB
end PikaVerif.Stop
