import PikaVerif.Lemmas.Stop2
namespace PikaVerif.Stop
open PikaVerif
set_option maxHeartbeats 8000000 in
theorem stepB_deq (s s' : St) (a c : Nat) (m : Bool) (hA : InvA s) (hi : InvB s) (h : step s (.deq a c m) = some s') : InvB s' := by stopB
end PikaVerif.Stop
