import PikaVerif.Lemmas.Stop2
namespace PikaVerif.Stop
open PikaVerif
set_option maxHeartbeats 8000000 in
theorem stepB_selfChk (s s' : St) (a c : Nat) (e p : Bool) (hA : InvA s) (hi : InvB s) (h : step s (.selfChk a c e p) = some s') : InvB s' := by stopB
end PikaVerif.Stop
