import PikaVerif.Lemmas.Stop2
namespace PikaVerif.Stop
open PikaVerif
set_option maxHeartbeats 8000000 in
theorem stepB_cbEnd (s s' : St) (a c : Nat) (hA : InvA s) (hi : InvB s) (h : step s (.cbEnd a c) = some s') : InvB s' := by stopB
end PikaVerif.Stop
