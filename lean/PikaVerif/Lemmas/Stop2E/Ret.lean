import PikaVerif.Lemmas.Stop2
namespace PikaVerif.Stop
open PikaVerif
set_option maxHeartbeats 8000000 in
theorem stepB_ret (s s' : St) (a : Nat) (r : Bool) (hA : InvA s) (hi : InvB s) (h : step s (.ret a r) = some s') : InvB s' := by stopB
end PikaVerif.Stop
