import PikaVerif.Lemmas.Stop2
namespace PikaVerif.Stop
open PikaVerif
set_option maxHeartbeats 8000000 in
theorem stepB_unlink (s s' : St) (a c : Nat) (r : Bool) (hA : InvA s) (hi : InvB s) (h : step s (.unlink a c r) = some s') : InvB s' := by stopB
end PikaVerif.Stop
