import PikaVerif.Lemmas.Stop2
namespace PikaVerif.Stop
open PikaVerif
set_option maxHeartbeats 8000000 in
theorem stepB_push (s s' : St) (a c : Nat) (b : Bool) (hA : InvA s) (hi : InvB s) (h : step s (.push a c b) = some s') : InvB s' := by stopB
end PikaVerif.Stop
