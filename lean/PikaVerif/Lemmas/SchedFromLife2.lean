import PikaVerif.Lemmas.SchedFromLife
/-!
`schedule_from` life cycle (C03x), part 2: the result is the denoted completion (`RInv`), all groups (`Full`).
-/
namespace PikaVerif.SchedFromLife
open PikaVerif

attribute [local grind] busy b2n Sig.isValue denote

set_option hygiene false in
macro "sf_step" : tactic => `(tactic| (
  simp only [step] at h
  repeat' split at h
  all_goals first | (simp at h; done) | skip
  all_goals (
    simp only [Option.some.injEq] at h
    subst h
    (try simp only [deliver, doReset])
    (try split)
    all_goals (try simp only [free])
    all_goals (constructor <;> (try dsimp only)))
  all_goals first
    | assumption
    | (intro u; grind [upd])
    | grind [upd]))

theorem outSig_denote (s : St) (q c : Sig) (v : Nat) (h : outSig s q = some c) (hv : s.ts = some v) :
    c = denote (.value v) q := by
  cases q <;> simp_all [outSig, denote]

theorem denote_nonvalue (p q : Sig) (h : p.isValue = false) : denote p q = p := by
  cases p <;> simp_all [denote, Sig.isValue]

/-- The result is the denoted completion. -/
structure RInv (s : St) : Prop where
  resP : ∀ p, s.delivered = 1 → s.predSig = some p → p.isValue = false → s.result = some p
  resV : ∀ v q, s.delivered = 1 → s.predSig = some (.value v) → s.schSig = some q → s.result = some (denote (.value v) q)
  resS : ∀ v, s.delivered = 1 → s.predSig = some (.value v) → s.schSig ≠ none
  resNone : s.delivered = 0 → s.result = none

theorem rinv_init (c : Cfg) : RInv (init c) := by
  constructor <;> simp [init]

set_option maxHeartbeats 2000000 in
theorem step_rinv (s s' : St) (e : Ev) (hc : CInv s) (ho : OInv s) (hr : RInv s) (h : step s e = some s') : RInv s' := by
  obtain ⟨c0,c1,c2,c3,c4,c5,c6,c7,c8,c9,c10,c11,c12,c13,c14,c15,c16⟩ := hc
  obtain ⟨o1,o2,o3,o4,o5,o6,o7,o8,o9,o10,o11,o12,o13,o14,o15,o16,o17,o18⟩ := ho
  obtain ⟨r1, r2, r3, r4⟩ := hr
  have hd : ∀ q c v, outSig s q = some c → s.predSig = some (.value v) → s.ts ≠ none → c = denote (.value v) q := by
    intro q c v h1 h2 h3
    cases hts : s.ts with
    | none => exact absurd hts h3
    | some w =>
      have h4 := o8 w hts
      rw [h2] at h4
      injection h4 with h4
      injection h4 with h4
      subst h4
      exact outSig_denote s q c v h1 hts
  cases e <;> sf_step

/-- All groups together. -/
structure Full (s : St) : Prop where
  c : CInv s
  o : OInv s
  r : RInv s

theorem full_init (c : Cfg) (hc : c.ok) : Full (init c) := ⟨cinv_init c hc, oinv_init c, rinv_init c⟩

theorem step_full (s : St) (e : Ev) (s' : St) (hf : Full s) (h : step s e = some s') : Full s' :=
  ⟨step_cinv s s' e hf.c h, step_oinv s s' e hf.c hf.o h, step_rinv s s' e hf.c hf.o hf.r h⟩

theorem full_of_runLog {c : Cfg} (hc : c.ok) {log : List Ev} {s : St} (h : runLog step (init c) log = some s) : Full s :=
  inv_of_runLog Full step_full (full_init c hc) h

theorem cfg_of_runLog {s0 s : St} {log : List Ev} (h : runLog step s0 log = some s) : s.cfg = s0.cfg := by
  induction log generalizing s0 with
  | nil => simp at h; rw [← h]
  | cons e es ih =>
    simp only [runLog] at h
    cases hs : step s0 e with
    | none => simp [hs] at h
    | some s1 =>
      simp only [hs] at h
      rw [ih h]
      simp only [step] at hs
      repeat' split at hs
      all_goals first | (simp at hs; done) | skip
      all_goals (simp only [Option.some.injEq] at hs; subst hs; (try simp only [deliver, doReset]); (try split); all_goals (try simp only [free]))

end PikaVerif.SchedFromLife
