import PikaVerif.Lemmas.BarrierU14
/-! C09u, coarse barrier: `SW` under `start`, `cas`, `cas2`, `publish`; `SW` along `gstep` runs. -/
namespace PikaVerif.Barrier
open PikaVerif PikaVerif.C09Barrier

theorem isTry_afterCall (aw : Bool) (u : Nat) : isTry (afterCall aw u) = false := by
  unfold afterCall; split
  · split <;> rfl
  · rfl

set_option hygiene false in
macro "sw_other" : tactic => `(tactic| (
  intro t'
  by_cases hne : t' ≠ t
  · simp only [upd_other _ _ _ _ hne]; exact SWt_frame hm _ _ _ (hsw t')
  replace hne : t' = t := Classical.not_not.mp hne
  subst hne
  simp only [upd_same]))

theorem sw_cas (s s' : St) (st : Nat → Nat) (w : Nat → Bool) (t a b : Nat) (o : Out) (hr : Reachable s)
    (hsw : ∀ t, SWt s (st t) (w t) (s.pc t)) (h : step s (.cas t a b o) = some s') :
    (o = .up → ∀ t', SWt s' (upd st t (a / 2) t') (upd w t false t') (s'.pc t')) ∧
    (o ≠ .up → ∀ t', SWt s' (st t') (upd w t (w t || wrapNow (s.pc t)) t') (s'.pc t')) := by
  obtain ⟨ha, hb⟩ := hr.inv
  have hm := step_tkMono s s' _ hb (by simp) h
  simp only [step] at h
  split at h
  case isFalse => simp at h
  rename_i htn
  split at h
  case h_2 => simp at h
  rename_i u cur r m hpc
  have hshape := hb.shape t
  rw [hpc] at hshape; simp only [pcOk] at hshape
  obtain ⟨hmr, hcur⟩ := hshape
  have htp := (hb.tokPhase t (by simp [inArr, hpc])).1
  have hswt := hsw t
  rw [hpc] at hswt; simp only [SWt] at hswt
  have hwn : wrapNow (s.pc t) = decide (cur = (m + 1) / 2) := by rw [hpc]; rfl
  generalize hc0 : (if cur = (m + 1) / 2 then 0 else cur) = c0 at h
  split at h
  case isFalse => simp at h
  rename_i hgd
  obtain ⟨hm1, hrnd, hac⟩ := hgd
  have hsweep := hswt hm1
  have hcur' := hcur hm1
  have hnot := not_all_full s hr t htn r m (by simp [hpc, inR]) hmr hm1
  have hnorm : a = if cur = (m + 1) / 2 then 0 else cur := hac.trans hc0.symm
  have halt : a < (m + 1) / 2 := by rw [hnorm]; split <;> omega
  have hnodes : a < nodes s.e0 r := by rw [nodes_eq (by omega), ← hmr]; exact halt
  have htix := hb.tix r a hnodes
  repeat' split at h
  all_goals first | (simp at h; done) | skip
  all_goals (simp only [Option.some.injEq] at h; subst h)
  · -- odd last node, taken
    rename_i h1 hv ho; subst ho
    refine ⟨fun _ => ?_, fun hne => absurd rfl hne⟩
    sw_other
    simp only [SWt, Sweep]
    intro he1
    refine ⟨by omega, ?_⟩
    simp only [Bool.false_eq_true, if_false]
    exact ⟨Nat.le_refl _, fun c' h1 h2 => by omega⟩
  · -- odd last node, full: miss
    rename_i h1 hv ho; subst ho
    refine ⟨fun h => by simp at h, fun _ => ?_⟩
    sw_other
    simp only [SWt, hwn]
    intro _
    have hfull : s.tk r a = fullB s.phase := by
      rcases htix with h | h | h
      · exact absurd (h.trans htp.symm) hv
      · have : cap s.e0 r a = 1 := by
          unfold cap; rw [nodes_eq (by omega), ← hmr, if_pos ⟨by omega, h1.2⟩]
        omega
      · exact h
    exact sweep_miss hsweep hcur' hnorm hfull hnot
  · -- half
    rename_i h1 hv ho; subst ho
    refine ⟨fun h => by simp at h, fun _ => ?_⟩
    sw_other
    exact SWt_of_not_try (isTry_afterCall _ _)
  · -- seen
    rename_i h1 hv hv2 ho; subst ho
    refine ⟨fun h => by simp at h, fun _ => ?_⟩
    sw_other
    simp only [SWt, hwn]
    intro _
    exact ⟨sweep_seen hsweep hcur' hnorm, Or.inl (by rw [hv2, htp])⟩
  · -- miss
    rename_i h1 hv hv2 ho; subst ho
    refine ⟨fun h => by simp at h, fun _ => ?_⟩
    sw_other
    simp only [SWt, hwn]
    intro _
    have hfull : s.tk r a = fullB s.phase := by
      rcases htix with h | h | h
      · exact absurd (h.trans htp.symm) hv
      · exact absurd (by rw [h.1, htp]) hv2
      · exact h
    exact sweep_miss hsweep hcur' hnorm hfull hnot

theorem sw_cas2 (s s' : St) (st : Nat → Nat) (w : Nat → Bool) (t a b : Nat) (o : Out) (hr : Reachable s)
    (hsw : ∀ t, SWt s (st t) (w t) (s.pc t)) (h : step s (.cas2 t a b o) = some s') :
    (o = .up → ∀ t', SWt s' (upd st t (a / 2) t') (upd w t false t') (s'.pc t')) ∧
    (o ≠ .up → ∀ t', SWt s' (st t') (w t') (s'.pc t')) := by
  obtain ⟨ha, hb⟩ := hr.inv
  have hm := step_tkMono s s' _ hb (by simp) h
  simp only [step] at h
  split at h
  case isFalse => simp at h
  rename_i htn
  split at h
  case h_2 => simp at h
  rename_i u cur r m hpc
  have hshape := hb.shape t
  rw [hpc] at hshape; simp only [pcOk] at hshape
  obtain ⟨hmr, hm1, hcur⟩ := hshape
  have htp := (hb.tokPhase t (by simp [inArr, hpc])).1
  have hswt := hsw t
  rw [hpc] at hswt; simp only [SWt] at hswt
  obtain ⟨hsweep, hhf⟩ := hswt hm1
  have hnot := not_all_full s hr t htn r m (by simp [hpc, inR]) hmr hm1
  split at h
  case isFalse => simp at h
  rename_i hgd
  obtain ⟨hrnd, hac⟩ := hgd
  subst hac
  repeat' split at h
  all_goals first | (simp at h; done) | skip
  all_goals (simp only [Option.some.injEq] at h; subst h)
  · rename_i hv ho; subst ho
    refine ⟨fun _ => ?_, fun hne => absurd rfl hne⟩
    sw_other
    simp only [SWt, Sweep]
    intro he1
    refine ⟨by omega, ?_⟩
    simp only [Bool.false_eq_true, if_false]
    exact ⟨Nat.le_refl _, fun c' h1 h2 => by omega⟩
  · rename_i hv ho; subst ho
    refine ⟨fun h => by simp at h, fun _ => ?_⟩
    intro t'
    by_cases hne : t' ≠ t
    · simp only [upd_other _ _ _ _ hne]; exact SWt_frame hm _ _ _ (hsw t')
    replace hne : t' = t := Classical.not_not.mp hne
    subst hne
    simp only [upd_same, SWt]
    intro _
    have hfull : s.tk r a = fullB s.phase := by
      rcases hhf with h | h
      · exact absurd (by rw [h, htp]) hv
      · exact h
    have := sweep_miss hsweep (Nat.le_of_lt hcur) (by rw [if_neg (by omega)]) hfull hnot
    have hd : decide (a = (m + 1) / 2) = false := by simp; omega
    rw [hd, Bool.or_false] at this
    exact this

theorem sw_start (s s' : St) (st : Nat → Nat) (w : Nat → Bool) (t a : Nat) (hb : InvB s)
    (hsw : ∀ t, SWt s (st t) (w t) (s.pc t)) (h : step s (.start t a) = some s') :
    ∀ t', SWt s' (upd st t a t') (upd w t false t') (s'.pc t') := by
  have hm := step_tkMono s s' _ hb (by simp) h
  simp only [step] at h
  (repeat' split at h) <;> first | (simp at h; done) | skip
  rename_i hg _ _ _ _
  simp only [Option.some.injEq] at h; subst h
  sw_other
  simp only [SWt, Sweep]
  intro _
  refine ⟨hg.2, ?_⟩
  simp only [Bool.false_eq_true, if_false]
  exact ⟨Nat.le_refl _, fun c' h1 h2 => by omega⟩

theorem sw_publish (s s' : St) (st : Nat → Nat) (w : Nat → Bool) (t a b : Nat) (ha : InvA s) (hb : InvB s)
    (h : step s (.publish t a b) = some s') : ∀ t', SWt s' (st t') (w t') (s'.pc t') := by
  simp only [step] at h
  split at h
  case isFalse => simp at h
  rename_i hg
  split at h
  case h_2 => simp at h
  rename_i u r hpc
  have hw : s.win = some t := hb.winOk t (by simp [isWin, isPub, hpc])
  obtain ⟨hrem, hinr, hcnt, he0pos, hfull⟩ := win_some_facts hb t hw
  simp only [Option.some.injEq] at h; subst h
  intro t'
  apply SWt_of_not_try
  by_cases hne : t' = t
  · subst hne; simp only [upd_same]; exact isTry_afterCall _ _
  · simp only [upd_other _ _ _ _ hne]
    by_cases hlt : t' < s.n
    · have hk := fun k => hinr t' k hlt hne
      cases hpc' : s.pc t' <;> rw [hpc'] at hk <;> simp only [isTry]
      · rename_i r' _; have := hk r'; simp [inR] at this
      · rename_i r' _; have := hk r'; simp [inR] at this
    · rw [ha.outside t' (by omega)]; rfl

/-- **The sweep invariant holds along every instrumented run.** -/
theorem sw_step (g g' : GSt) (e : Ev) (hr : Reachable g.p.s) (hsw : SW g) (h : gstep g e = some g') : SW g' := by
  simp only [gstep, Option.map_eq_some_iff] at h
  obtain ⟨p', hp, hg⟩ := h
  have hs := pstep_step g.p p' e hp
  obtain ⟨ha, hb⟩ := hr.inv
  subst hg
  unfold SW at hsw ⊢
  cases e
  case start t a => simp only [ghost]; exact sw_start _ _ _ _ t a hb hsw hs
  case publish t a b => simp only [ghost]; exact sw_publish _ _ _ _ t a b ha hb hs
  case cas t a b o =>
    obtain ⟨h1, h2⟩ := sw_cas _ _ _ _ t a b o hr hsw hs
    cases o
    case up => simp only [ghost]; exact h1 rfl
    all_goals (simp only [ghost]; exact h2 (by simp))
  case cas2 t a b o =>
    obtain ⟨h1, h2⟩ := sw_cas2 _ _ _ _ t a b o hr hsw hs
    cases o
    case up => simp only [ghost]; exact h1 rfl
    all_goals (simp only [ghost]; exact h2 (by simp))
  all_goals (
    simp only [ghost]
    exact sw_simple hsw (step_tkMono _ _ _ hb (by simp) hs)
      (step_pc_simple _ _ _ hs (by simp) (by simp) (by simp)))

end PikaVerif.Barrier
