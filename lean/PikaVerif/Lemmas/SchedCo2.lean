import PikaVerif.Lemmas.SchedCo
/-! Log-level counters of the coroutine/body layer (functions of the log alone) and their relation to
    the ghost fields of the model; enabledness lemmas used by the progress theorems of `Props/C01`. -/
namespace PikaVerif.SchedCo
open PikaVerif PikaVerif.Sched

/-- effect of one event on "thread-function entries of object `o` since its last (re)initialisation" -/
def entF (o : Nat) (n : Nat) : Ev → Nat
  | .base (.new _ o' _) => if o = o' then 0 else n
  | .base (.rebind _ o' _) => if o = o' then 0 else n
  | .coEnter _ o' => if o = o' then n + 1 else n
  | _ => n

/-- … and on "returns of the thread function of `o` since its last (re)initialisation" -/
def exitF (o : Nat) (n : Nat) : Ev → Nat
  | .base (.new _ o' _) => if o = o' then 0 else n
  | .base (.rebind _ o' _) => if o = o' then 0 else n
  | .coReturn _ o' _ => if o = o' then n + 1 else n
  | _ => n

/-- number of `co.enter` of `o` after the last `task.new` / `task.rebind` of `o` in the log -/
def entriesSince (o : Nat) (log : List Ev) : Nat := log.foldl (entF o) 0
/-- number of `co.return` of `o` after the last `task.new` / `task.rebind` of `o` in the log -/
def returnsSince (o : Nat) (log : List Ev) : Nat := log.foldl (exitF o) 0

def isReinit (o : Nat) : Ev → Bool
  | .base (.new _ o' _) => o == o'
  | .base (.rebind _ o' _) => o == o'
  | _ => false

def isEnter (o : Nat) : Ev → Bool
  | .coEnter _ o' => o == o'
  | _ => false

theorem step_entries (s s' : St) (e : Ev) (h : step s e = some s') (o : Nat) :
    (s'.co o).entries = entF o (s.co o).entries e ∧ (s'.co o).exits = exitF o (s.co o).exits e := by
  cases e with
  | base e0 =>
    obtain ⟨_, hco⟩ := step_base s s' e0 h
    cases e0 <;> simp only [coBase] at hco <;>
      first
      | (simp only [Option.some.injEq] at hco; rw [← hco]; simp only [entF, exitF, upd]; split <;> simp_all)
      | (simp only [Option.some.injEq] at hco; rw [← hco]; simp [entF, exitF])
      | (split at hco <;> simp at hco; rw [← hco]; simp only [entF, exitF, upd]; split <;> simp_all)
      | (split at hco <;> simp at hco; rw [← hco]; simp [entF, exitF])
  | coEnter a o' =>
    simp only [step] at h; split at h <;> simp at h; subst h
    simp only [entF, exitF, upd]; split <;> simp_all
  | coResume a o' =>
    simp only [step] at h; split at h <;> simp at h; subst h
    simp only [entF, exitF, upd]; split <;> simp_all
  | coYield a o' r =>
    simp only [step] at h; split at h <;> simp at h; subst h
    simp only [entF, exitF, upd]; split <;> simp_all
  | coReturn a o' r =>
    simp only [step] at h; split at h <;> simp at h; subst h
    simp only [entF, exitF, upd]; split <;> simp_all

theorem log_entries (log : List Ev) : ∀ (s s' : St), runLog step s log = some s' → ∀ o,
    (s'.co o).entries = log.foldl (entF o) (s.co o).entries ∧
    (s'.co o).exits = log.foldl (exitF o) (s.co o).exits := by
  induction log with
  | nil => intro s s' h o; simp at h; subst h; exact ⟨rfl, rfl⟩
  | cons e es ih =>
    intro s s' h o
    simp only [runLog] at h
    cases hs : step s e with
    | none => simp [hs] at h
    | some s1 =>
      simp only [hs] at h
      have h1 := step_entries s s1 e hs o
      have h2 := ih s1 s' h o
      simp only [List.foldl_cons]
      rw [← h1.1, ← h1.2]
      exact h2

/-- over a segment without (re)initialisation of `o` the counter grows by the number of entries -/
theorem foldl_entF_noReinit (o : Nat) (seg : List Ev) : ∀ n, (seg.all (fun e => !isReinit o e)) = true →
    seg.foldl (entF o) n = n + (seg.filter (isEnter o)).length := by
  induction seg with
  | nil => intro n _; simp
  | cons e es ih =>
    intro n h
    simp only [List.all_cons, Bool.and_eq_true] at h
    simp only [List.foldl_cons]
    rw [ih _ h.2]
    have h1 := h.1
    cases e with
    | base e0 =>
      cases e0 <;> simp_all [entF, isEnter, isReinit]
    | coEnter a o' =>
      by_cases ho : o = o'
      · simp [entF, isEnter, ho]; omega
      · simp [entF, isEnter, ho]
    | coResume a o' => simp [entF, isEnter]
    | coYield a o' r => simp [entF, isEnter]
    | coReturn a o' r => simp [entF, isEnter]

end PikaVerif.SchedCo
