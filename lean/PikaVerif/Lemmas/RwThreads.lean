import PikaVerif.Lemmas.RwRetry
/-!
Per-thread programs over the async_rw_mutex model (follow-up C04r): every thread `t < n` has a finite
list of operations which it invokes in that order (an operation that the model does not accept yet -
e.g. `rel a` before `a` has been granted - simply waits); the steps of the implementation are free.
These runs are a restriction of the free-placement programs of `RwProg.lean`; this file gives their
run-length bound directly.
-/
namespace PikaVerif.Rw
open PikaVerif

inductive Op where
  | req (w : Bool)
  | destroy
  | start (a : Nat) (det : Bool)
  | copy (a : Nat)
  | rel (a : Nat)
  | write (a : Nat)
  | readv (a : Nat)
  deriving DecidableEq, Repr

/-- the thread and the operation an event invokes (`none`: a step of the implementation) -/
def opOf : Ev → Option (Nat × Op)
  | .req t _ w _ _ => some (t, .req w)
  | .destroy t _ => some (t, .destroy)
  | .start t a det => some (t, .start a det)
  | .copy t a => some (t, .copy a)
  | .rel t a _ => some (t, .rel a)
  | .write t a _ => some (t, .write a)
  | .readv t a _ => some (t, .readv a)
  | _ => none

def opCost : Op → Nat
  | .req _ => 7
  | .copy _ => 2
  | .write _ => 1
  | .readv _ => 1
  | _ => 0

def progCost : List Op → Nat
  | [] => 0
  | o :: l => opCost o + progCost l

structure TSt where
  s : St
  n : Nat
  prog : Nat → List Op

def tinit (n : Nat) (prog : Nat → List Op) : TSt := ⟨init, n, prog⟩

def tstep (p : TSt) (e : Ev) : Option TSt :=
  match opOf e with
  | none => (step p.s e).map (fun s' => { p with s := s' })
  | some (t, o) =>
    match p.prog t with
    | o' :: rest =>
      if o' = o ∧ t < p.n then (step p.s e).map (fun s' => { p with s := s', prog := upd p.prog t rest })
      else none
    | [] => none

theorem tstep_step (p p' : TSt) (e : Ev) (h : tstep p e = some p') : step p.s e = some p'.s := by
  unfold tstep at h
  split at h
  · simp only [Option.map_eq_some_iff] at h; obtain ⟨s', h1, h2⟩ := h; subst h2; exact h1
  · split at h
    · split at h
      · simp only [Option.map_eq_some_iff] at h; obtain ⟨s', h1, h2⟩ := h; subst h2; exact h1
      · simp at h
    · simp at h

theorem runLog_tstep_step (log : List Ev) : ∀ (p p' : TSt), runLog tstep p log = some p' →
    runLog step p.s log = some p'.s := by
  induction log with
  | nil => intro p p' h; simp at h; subst h; simp
  | cons e es ih =>
    intro p p' h
    simp only [runLog] at h ⊢
    cases hs : tstep p e with
    | none => simp [hs] at h
    | some p1 =>
      simp only [hs] at h
      rw [tstep_step p p1 e hs]
      exact ih p1 p' h

theorem gain_opOf (e : Ev) : gain e = match opOf e with
    | some (_, o) => opCost o
    | none => 0 := by
  cases e <;> rfl

def phiT (p : TSt) : Nat := mu p.s + sumTo p.n (fun t => progCost (p.prog t))

theorem phiT_step (p p' : TSt) (e : Ev) (hi : Inv p.s) (h : tstep p e = some p') :
    phiT p' + cost e ≤ phiT p ∧ p'.n = p.n := by
  have hm := mu_step p.s p'.s e hi (tstep_step p p' e h)
  have hg := gain_opOf e
  unfold tstep at h
  split at h
  · rename_i ho
    rw [ho] at hg
    simp only [] at hg
    simp only [Option.map_eq_some_iff] at h; obtain ⟨s', h1, h2⟩ := h; subst h2
    simp only [phiT] at hm ⊢
    exact ⟨by omega, trivial⟩
  · rename_i t o ho
    rw [ho] at hg
    simp only [] at hg
    split at h
    · rename_i o' rest hp
      split at h
      · rename_i hc
        obtain ⟨ho', ht⟩ := hc
        subst ho'
        simp only [Option.map_eq_some_iff] at h; obtain ⟨s', h1, h2⟩ := h; subst h2
        have hs := sumTo_upd p.n progCost p.prog t rest ht
        rw [hp] at hs
        simp only [progCost] at hs
        simp only [phiT] at hm ⊢
        exact ⟨by omega, trivial⟩
      · simp at h
    · simp at h

theorem runLog_phiT (log : List Ev) : ∀ (p p' : TSt), Inv p.s → runLog tstep p log = some p' →
    phiT p' + costs log ≤ phiT p := by
  induction log with
  | nil => intro p p' _ h; simp at h; subst h; simp [costs]
  | cons e es ih =>
    intro p p' hi h
    simp only [runLog] at h
    cases hs : tstep p e with
    | none => simp [hs] at h
    | some p1 =>
      simp only [hs] at h
      have h1 := (phiT_step p p1 e hi hs).1
      have h2 := ih p1 p' (step_inv _ _ e hi (tstep_step p p1 e hs)) h
      simp only [costs]
      omega

/-- 2 + the cost of all operations of all threads -/
def boundT (n : Nat) (prog : Nat → List Op) : Nat := 2 + sumTo n (fun t => progCost (prog t))

theorem phiT_tinit (n : Nat) (prog : Nat → List Op) : phiT (tinit n prog) = boundT n prog := by
  simp only [phiT, tinit, boundT, mu_init]

end PikaVerif.Rw
