import PikaVerif.Lemmas.Stop7
/-! Follow-up C14p: preservation of layer L (linked callbacks) by every event. -/
namespace PikaVerif.Stop
open PikaVerif
set_option maxHeartbeats 4000000

theorem stepL_inv (s s' : St) (a : Nat) (k : Kind) (hA : InvA s) (hB : InvB s) (hi : InvL s) (h : step s (.inv a k) = some s') : InvL s' := by stopLi
theorem stepL_ret (s s' : St) (a : Nat) (r : Bool) (hA : InvA s) (hB : InvB s) (hi : InvL s) (h : step s (.ret a r) = some s') : InvL s' := by stopL
theorem stepL_load (s s' : St) (a : Nat) (lk rq : Bool) (src : Nat) (hA : InvA s) (hB : InvB s) (hi : InvL s) (h : step s (.load a lk rq src) = some s') : InvL s' := by stopL
theorem stepL_casFail (s s' : St) (a : Nat) (lk rq : Bool) (src : Nat) (hA : InvA s) (hB : InvB s) (hi : InvL s) (h : step s (.casFail a lk rq src) = some s') : InvL s' := by stopL
theorem stepL_reload (s s' : St) (a : Nat) (lk rq : Bool) (src : Nat) (hA : InvA s) (hB : InvB s) (hi : InvL s) (h : step s (.reload a lk rq src) = some s') : InvL s' := by stopL
theorem stepL_acq (s s' : St) (a : Nat) (hA : InvA s) (hB : InvB s) (hi : InvL s) (h : step s (.acq a) = some s') : InvL s' := by stopL
theorem stepL_deq (s s' : St) (a c : Nat) (m : Bool) (hA : InvA s) (hB : InvB s) (hi : InvL s) (h : step s (.deq a c m) = some s') : InvL s' := by stopL
theorem stepL_rsDone (s s' : St) (a : Nat) (hA : InvA s) (hB : InvB s) (hi : InvL s) (h : step s (.rsDone a) = some s') : InvL s' := by stopL
theorem stepL_preExec (s s' : St) (a c : Nat) (hA : InvA s) (hB : InvB s) (hi : InvL s) (h : step s (.preExec a c) = some s') : InvL s' := by stopL
theorem stepL_cbBegin (s s' : St) (a c : Nat) (hA : InvA s) (hB : InvB s) (hi : InvL s) (h : step s (.cbBegin a c) = some s') : InvL s' := by stopL
theorem stepL_cbEnd (s s' : St) (a c : Nat) (hA : InvA s) (hB : InvB s) (hi : InvL s) (h : step s (.cbEnd a c) = some s') : InvL s' := by stopL
theorem stepL_finStore (s s' : St) (a c : Nat) (r : Bool) (hA : InvA s) (hB : InvB s) (hi : InvL s) (h : step s (.finStore a c r) = some s') : InvL s' := by stopL
theorem stepL_inFin (s s' : St) (a c : Nat) (hA : InvA s) (hB : InvB s) (hi : InvL s) (h : step s (.inFin a c) = some s') : InvL s' := by stopL
theorem stepL_push (s s' : St) (a c : Nat) (b : Bool) (hA : InvA s) (hB : InvB s) (hi : InvL s) (h : step s (.push a c b) = some s') : InvL s' := by stopL
theorem stepL_unlink (s s' : St) (a c : Nat) (r : Bool) (hA : InvA s) (hB : InvB s) (hi : InvL s) (h : step s (.unlink a c r) = some s') : InvL s' := by stopL
theorem stepL_selfChk (s s' : St) (a c : Nat) (e p : Bool) (hA : InvA s) (hB : InvB s) (hi : InvL s) (h : step s (.selfChk a c e p) = some s') : InvL s' := by stopL
theorem stepL_waited (s s' : St) (a c : Nat) (hA : InvA s) (hB : InvB s) (hi : InvL s) (h : step s (.waited a c) = some s') : InvL s' := by stopL
theorem stepL_srcInc (s s' : St) (a : Nat) (hA : InvA s) (hB : InvB s) (hi : InvL s) (h : step s (.srcInc a) = some s') : InvL s' := by stopL
theorem stepL_srcDec (s s' : St) (a : Nat) (hA : InvA s) (hB : InvB s) (hi : InvL s) (h : step s (.srcDec a) = some s') : InvL s' := by stopL
theorem stepL_query (s s' : St) (a : Nat) (x y : Bool) (hA : InvA s) (hB : InvB s) (hi : InvL s) (h : step s (.query a x y) = some s') : InvL s' := by stopL
theorem stepL_done (s s' : St) (a : Nat) (hA : InvA s) (hB : InvB s) (hi : InvL s) (h : step s (.done a) = some s') : InvL s' := by stopL

end PikaVerif.Stop
