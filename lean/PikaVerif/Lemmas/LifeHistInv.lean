import PikaVerif.Lemmas.LifeHistT
/-! Inductive invariants of life-cycle histories (C05t): the ledger agrees with the model state. -/
namespace PikaVerif.Life
open PikaVerif

/-- **Documented preconditions, as a grammar of controller scripts.**  `wf na ph fin script`: started in
    runtime phase `ph` with finalize flag `fin`, every call of `script` is issued in a state in which
    its documented precondition holds: `start` with no runtime (and 1 ≤ threads < number of OS threads
    of the log), `submit` / `wait` with an initialised runtime (running or suspended), `suspend` on a
    running and `resume` on a suspended runtime, `finalize` once on a running runtime, `stop` after
    `finalize` on a running or suspended runtime. -/
def wf (na : Nat) : Phase → Bool → List Call → Prop
  | _, _, [] => True
  | ph, _, .start t _ :: r => ph = .none ∧ 1 ≤ t ∧ t < na ∧ wf na .running false r
  | ph, fin, .submit :: r => (ph = .running ∨ ph = .suspended) ∧ wf na ph fin r
  | ph, fin, .wait :: r => (ph = .running ∨ ph = .suspended) ∧ wf na ph fin r
  | ph, fin, .suspend :: r => ph = .running ∧ wf na .suspended fin r
  | ph, fin, .resume :: r => ph = .suspended ∧ wf na .running fin r
  | ph, fin, .finalize :: r => ph = .running ∧ fin = false ∧ wf na .running true r
  | ph, fin, .stop :: r => (ph = .running ∨ ph = .suspended) ∧ fin = true ∧ wf na .none false r

/-- phase / finalize flag when the call in progress will have returned -/
def postPh (h : HSt) : Phase :=
  match h.cpc with
  | .idle => h.s.ph | .start1 => .running | .start2 => .running | .wait1 => h.s.ph | .wait2 => h.s.ph
  | .susp => .suspended | .res => .running | .stop => .none

def postFin (h : HSt) : Bool :=
  match h.cpc with
  | .start1 => false | .start2 => false | .stop => false | _ => h.s.fin

def nsub : List Call → Nat
  | [] => 0
  | .submit :: r => nsub r + 1
  | _ :: r => nsub r

/-- object / worker part of the ledger -/
structure HInvA (h : HSt) : Prop where
  tpIn : ∀ o, h.s.live o = true → (h.tp o = 1 ∨ h.tp o = 2 ∨ h.tp o = 4) → h.s.cur (h.runner o) = some o
  tpOut : ∀ o, h.s.live o = true → (h.tp o = 0 ∨ h.tp o = 3 ∨ h.tp o = 5) → h.s.running o = false
  tpLe : ∀ o, h.s.live o = true → h.tp o ≤ 5
  canon : ∀ a, h.s.worker a = true → 1 ≤ a ∧ a ≤ h.s.nworkers
  slots : nsub h.script + h.kids + h.s.started ≤ h.s.no

/-- controller part of the ledger -/
structure HInvB (h : HSt) : Prop where
  start1 : h.cpc = .start1 → h.s.ph = .none ∧ h.s.cfgReq.th = h.th ∧ h.wleft = h.th
  thOk : (h.cpc = .start1 ∨ h.s.ph ≠ .none) → 1 ≤ h.th ∧ h.th < h.s.na
  thCfg : h.s.ph ≠ .none → h.th = h.s.cfg.th
  start2 : h.cpc = .start2 ↔ h.s.ph = .starting
  start2w : h.s.ph = .starting → h.wleft + h.s.nworkers = h.s.cfg.th ∧ h.s.fin = false
  susp : h.cpc = .susp ↔ h.s.ph = .suspending
  suspw : h.s.ph = .suspending → h.s.nworkers ≤ h.toSleep + h.s.nsleep
  res : h.cpc = .res ↔ h.s.ph = .resuming
  wakew : (h.s.ph = .resuming ∨ h.s.spc ≠ .out) → h.s.nsleep ≤ h.toWake
  stop : h.cpc = .stop ↔ h.s.spc ≠ .out
  stopper0 : ∀ a, h.s.stopper = some a → a = 0
  stopFin : h.cpc = .stop → h.s.fin = true ∧ (h.s.ph = .running ∨ h.s.ph = .suspended ∨ h.s.ph = .stopping)
  waitPh : (h.cpc = .wait1 ∨ h.cpc = .wait2) → (h.s.ph = .running ∨ h.s.ph = .suspended)
  wait2 : h.cpc = .wait2 → h.s.lastRet 0 = true
  idle : h.cpc = .idle → (h.s.ph = .none ∨ h.s.ph = .running ∨ h.s.ph = .suspended)
  noneFin : h.s.ph = .none → h.s.fin = false
  wfNext : wf h.s.na (postPh h) (postFin h) h.script
  suspCount : (h.s.ph = .suspending ∨ h.s.ph = .suspended → h.nsusp = h.nres + 1) ∧
    (h.cpc = .start1 ∨ h.s.ph = .starting ∨ h.s.ph = .running ∨ h.s.ph = .resuming → h.nsusp = h.nres)

theorem step_na (s s' : St) (e : Ev) (h : step s e = some s') : s'.na = s.na ∧ s'.no = s.no := by
  cases e <;> simp only [step] at h <;> (repeat' split at h) <;>
    first | (simp at h; done) | (simp only [Option.some.injEq] at h; subst h; exact ⟨rfl, rfl⟩)

attribute [local grind] b2n

set_option hygiene false in
macro "hinvb2" : tactic => `(tactic| (
  obtain ⟨b1,b2,b3,b4,b5,b6,b7,b8,b9,b10,b11,b12,b13,b14,b15,b16,b17,b18⟩ := hb
  obtain ⟨h1,h1b,h2,h3,h3b,h4,h5,h6,h7,h8,h9,h10,h11,h12,h13,h14,h15,h16,h17,h18,h19,h20⟩ := hi
  hist_open
  all_goals (
    try simp only [postPh, postFin, wf, *] at b17
    refine ⟨?_, ?_, ?_, ?_, ?_, ?_, ?_, ?_, ?_, ?_, ?_, ?_, ?_, ?_, ?_, ?_, ?_, ?_⟩ <;> (try dsimp only [postPh, postFin]))
  all_goals first
    | assumption
    | grind [upd]))

set_option maxHeartbeats 1000000 in
theorem hinvB_inc (h h' : HSt) (a n : Nat) (hi : Inv h.s) (hb : HInvB h) (hs : hstep h (.inc a n) = some h') : HInvB h' := by hinvb2
set_option maxHeartbeats 1000000 in
theorem hinvB_dec (h h' : HSt) (a n : Nat) (hi : Inv h.s) (hb : HInvB h) (hs : hstep h (.dec a n) = some h') : HInvB h' := by hinvb2
set_option maxHeartbeats 1000000 in
theorem hinvB_stage (h h' : HSt) (a : Nat) (hi : Inv h.s) (hb : HInvB h) (hs : hstep h (.stage a) = some h') : HInvB h' := by hinvb2
set_option maxHeartbeats 1000000 in
theorem hinvB_unstage (h h' : HSt) (a : Nat) (hi : Inv h.s) (hb : HInvB h) (hs : hstep h (.unstage a) = some h') : HInvB h' := by hinvb2
set_option maxHeartbeats 1000000 in
theorem hinvB_new (h h' : HSt) (a o : Nat) (hi : Inv h.s) (hb : HInvB h) (hs : hstep h (.new a o) = some h') : HInvB h' := by hinvb2
set_option maxHeartbeats 1000000 in
theorem hinvB_destroy (h h' : HSt) (a o : Nat) (hi : Inv h.s) (hb : HInvB h) (hs : hstep h (.destroy a o) = some h') : HInvB h' := by hinvb2
set_option maxHeartbeats 1000000 in
theorem hinvB_phaseBegin (h h' : HSt) (a o : Nat) (hi : Inv h.s) (hb : HInvB h) (hs : hstep h (.phaseBegin a o) = some h') : HInvB h' := by hinvb2
set_option maxHeartbeats 1000000 in
theorem hinvB_phaseEnd (h h' : HSt) (a o : Nat) (hi : Inv h.s) (hb : HInvB h) (hs : hstep h (.phaseEnd a o) = some h') : HInvB h' := by hinvb2
set_option maxHeartbeats 1000000 in
theorem hinvB_body (h h' : HSt) (a o : Nat) (hi : Inv h.s) (hb : HInvB h) (hs : hstep h (.body a o) = some h') : HInvB h' := by hinvb2
set_option maxHeartbeats 1000000 in
theorem hinvB_sample (h h' : HSt) (a v w : Nat) (hi : Inv h.s) (hb : HInvB h) (hs : hstep h (.sample a v w) = some h') : HInvB h' := by hinvb2
set_option maxHeartbeats 1000000 in
theorem hinvB_rtState (h h' : HSt) (a v : Nat) (hi : Inv h.s) (hb : HInvB h) (hs : hstep h (.rtState a v) = some h') : HInvB h' := by hinvb2
set_option maxHeartbeats 1000000 in
theorem hinvB_result (h h' : HSt) (a r : Nat) (hi : Inv h.s) (hb : HInvB h) (hs : hstep h (.result a r) = some h') : HInvB h' := by hinvb2
set_option maxHeartbeats 1000000 in
theorem hinvB_fin (h h' : HSt) (a : Nat) (hi : Inv h.s) (hb : HInvB h) (hs : hstep h (.fin a) = some h') : HInvB h' := by hinvb2
set_option maxHeartbeats 1000000 in
theorem hinvB_stopEnter (h h' : HSt) (a : Nat) (hi : Inv h.s) (hb : HInvB h) (hs : hstep h (.stopEnter a) = some h') : HInvB h' := by hinvb2
set_option maxHeartbeats 1000000 in
theorem hinvB_waitFin (h h' : HSt) (a : Nat) (hi : Inv h.s) (hb : HInvB h) (hs : hstep h (.waitFin a) = some h') : HInvB h' := by hinvb2
set_option maxHeartbeats 1000000 in
theorem hinvB_waited (h h' : HSt) (a r : Nat) (hi : Inv h.s) (hb : HInvB h) (hs : hstep h (.waited a r) = some h') : HInvB h' := by hinvb2
set_option maxHeartbeats 1000000 in
theorem hinvB_stopExit (h h' : HSt) (a r : Nat) (hi : Inv h.s) (hb : HInvB h) (hs : hstep h (.stopExit a r) = some h') : HInvB h' := by hinvb2
set_option maxHeartbeats 1000000 in
theorem hinvB_suspendEnter (h h' : HSt) (a : Nat) (hi : Inv h.s) (hb : HInvB h) (hs : hstep h (.suspendEnter a) = some h') : HInvB h' := by hinvb2
set_option maxHeartbeats 1000000 in
theorem hinvB_resumeEnter (h h' : HSt) (a : Nat) (hi : Inv h.s) (hb : HInvB h) (hs : hstep h (.resumeEnter a) = some h') : HInvB h' := by hinvb2
set_option maxHeartbeats 1000000 in
theorem hinvB_worker (h h' : HSt) (a : Nat) (hi : Inv h.s) (hb : HInvB h) (hs : hstep h (.worker a) = some h') : HInvB h' := by hinvb2
set_option maxHeartbeats 1000000 in
theorem hinvB_sleep (h h' : HSt) (a : Nat) (hi : Inv h.s) (hb : HInvB h) (hs : hstep h (.sleep a) = some h') : HInvB h' := by hinvb2
set_option maxHeartbeats 1000000 in
theorem hinvB_wake (h h' : HSt) (a : Nat) (hi : Inv h.s) (hb : HInvB h) (hs : hstep h (.wake a) = some h') : HInvB h' := by hinvb2
set_option maxHeartbeats 1000000 in
theorem hinvB_waitEnter (h h' : HSt) (a : Nat) (hi : Inv h.s) (hb : HInvB h) (hs : hstep h (.waitEnter a) = some h') : HInvB h' := by hinvb2
set_option maxHeartbeats 1000000 in
theorem hinvB_waitExit (h h' : HSt) (a : Nat) (hi : Inv h.s) (hb : HInvB h) (hs : hstep h (.waitExit a) = some h') : HInvB h' := by hinvb2
set_option maxHeartbeats 1000000 in
theorem hinvB_reqCfg (h h' : HSt) (a t p : Nat) (hi : Inv h.s) (hb : HInvB h) (hs : hstep h (.reqCfg a t p) = some h') : HInvB h' := by hinvb2
set_option maxHeartbeats 1000000 in
theorem hinvB_seenCfg (h h' : HSt) (a t p : Nat) (hi : Inv h.s) (hb : HInvB h) (hs : hstep h (.seenCfg a t p) = some h') : HInvB h' := by hinvb2

theorem hinvB_step (h h' : HSt) (e : Ev) (hi : Inv h.s) (hb : HInvB h) (hs : hstep h e = some h') : HInvB h' := by
  cases e with
  | inc a n => exact hinvB_inc h h' a n hi hb hs
  | dec a n => exact hinvB_dec h h' a n hi hb hs
  | stage a => exact hinvB_stage h h' a hi hb hs
  | unstage a => exact hinvB_unstage h h' a hi hb hs
  | new a o => exact hinvB_new h h' a o hi hb hs
  | destroy a o => exact hinvB_destroy h h' a o hi hb hs
  | phaseBegin a o => exact hinvB_phaseBegin h h' a o hi hb hs
  | phaseEnd a o => exact hinvB_phaseEnd h h' a o hi hb hs
  | body a o => exact hinvB_body h h' a o hi hb hs
  | sample a v w => exact hinvB_sample h h' a v w hi hb hs
  | rtState a v => exact hinvB_rtState h h' a v hi hb hs
  | result a r => exact hinvB_result h h' a r hi hb hs
  | fin a => exact hinvB_fin h h' a hi hb hs
  | stopEnter a => exact hinvB_stopEnter h h' a hi hb hs
  | waitFin a => exact hinvB_waitFin h h' a hi hb hs
  | waited a r => exact hinvB_waited h h' a r hi hb hs
  | stopExit a r => exact hinvB_stopExit h h' a r hi hb hs
  | suspendEnter a => exact hinvB_suspendEnter h h' a hi hb hs
  | resumeEnter a => exact hinvB_resumeEnter h h' a hi hb hs
  | worker a => exact hinvB_worker h h' a hi hb hs
  | sleep a => exact hinvB_sleep h h' a hi hb hs
  | wake a => exact hinvB_wake h h' a hi hb hs
  | waitEnter a => exact hinvB_waitEnter h h' a hi hb hs
  | waitExit a => exact hinvB_waitExit h h' a hi hb hs
  | reqCfg a t p => exact hinvB_reqCfg h h' a t p hi hb hs
  | seenCfg a t p => exact hinvB_seenCfg h h' a t p hi hb hs

end PikaVerif.Life
