import PikaVerif.Lemmas.Deque2
namespace PikaVerif.Deque
open PikaVerif

/-! Single-threaded use of the deque model: the thread's `lrs` is always current. -/

/-- anchor value held in the local variable `lrs` -/
def held : Pc → Option Anchor
  | .pushCasE _ _ a | .pushLink _ _ a | .pushCas _ _ a | .popCas1 _ a | .popChk _ a | .popRd _ a
  | .popCas _ a _ | .stRd1 _ _ a | .stChk1 _ _ a _ | .stRd2 _ _ a _ | .stChk2 _ _ a _ _
  | .stLink _ _ a _ _ | .stCas _ _ a => some a
  | _ => none

/-- single-threaded use: the only thread's `lrs` is always the current anchor, so no CAS fails and
    no link CAS is stale -/
structure Inv1 (s : St) : Prop where
  one : s.n = 1
  cur : held (s.pc 0) = none ∨ held (s.pc 0) = some s.anchor
  fresh : s.stale = false

theorem held_kont (k : Kont) : held (kont k) = none := by cases k <;> rfl

attribute [local grind] held

theorem step_inv1 {fx : Bool} {s s' : St} {e : Ev} (hi : Inv1 s) (h : stepG fx s e = some s') : Inv1 s' := by
  obtain ⟨h1, h2, h3⟩ := hi
  have h0 : ∀ u, u < s.n → u = 0 := by intro u hu; omega
  cases e <;> simp only [stepG] at h <;> (repeat' split at h) <;>
    first
    | (simp at h; done)
    | (simp only [Option.some.injEq] at h; subst h
       refine ⟨?_, ?_, ?_⟩ <;> dsimp only <;> first | assumption | grind [upd, held_kont] | (have := h0 _ ‹_ < s.n›; subst this; grind [upd, held_kont]))

theorem inv1_init : Inv1 (init 1) := ⟨rfl, Or.inl rfl, rfl⟩

theorem inv1_of_accepted {fx : Bool} {log : List Ev} {s : St} (h : runLog (stepG fx) (init 1) log = some s) : Inv1 s :=
  inv_of_runLog Inv1 (fun _ _ _ hi hs => step_inv1 hi hs) inv1_init h

end PikaVerif.Deque
