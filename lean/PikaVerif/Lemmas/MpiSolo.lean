import PikaVerif.Lemmas.MpiFin
/-!
# Solo step bounds: from MPI's report to the receiver's signal (follow-up C20t)

`sigDist o` is the exact number of pika's own steps that separate operation `o` from the signal to
its receiver once MPI has reported (or the MPI call has failed); `nextEv` is the step itself.  Run
alone — the poller that dequeued the entry and the continuing task, nobody else moves — these steps
are always accepted (`solo_step`) and after exactly `sigDist` of them the receiver has been
signalled exactly once (`solo_run`).
-/
namespace PikaVerif.Mpi
open PikaVerif

/-- one more step (the wake-up of the suspended task) in `suspend_resume` mode -/
def susp (o : Op) : Nat := if o.mode = mSuspend then 1 else 0

def sigDist (o : Op) : Nat :=
  match o.pc with
  | .failed | .eagerOk | .yDone | .cbRun | .woken => 1
  | .completed => 2
  | .waiting =>
    match o.rs with
    | .ready _ => 5 + susp o
    | .taken _ _ => 4 + susp o
    | .decd _ _ => 3 + susp o
    | .calling _ _ => 2 + susp o
    | _ => 0
  | _ => 0

/-- the next step towards the signal; `a` is the thread that acts where the model leaves the
    actor open (the poller that dequeues, the task that signals / wakes up) -/
def nextEv (s : St) (x a : Nat) : Option Ev :=
  match (s.op x).pc with
  | .failed | .eagerOk | .yDone | .cbRun | .woken => some (.sig a x)
  | .completed => some (.woke a x)
  | .waiting =>
    match (s.op x).rs with
    | .ready e => some (.deq a x e)
    | .taken b _ => some (.ifDec b x (s.inFlight - 1))
    | .decd b _ => some (.call b x)
    | .calling b e => some (.cb b x e)
    | _ => none
  | _ => none

theorem nextEv_pika (s : St) (x a : Nat) (e : Ev) (h : nextEv s x a = some e) : pika e = true := by
  simp only [nextEv] at h
  repeat' split at h
  all_goals first | (simp at h; done) | (injection h with h; subst h; rfl)

/-- the operation an event acts on -/
def evOp : Ev → Option Nat
  | .post _ x _ _ | .eager _ x | .ydone _ x | .sig _ x | .reg _ x | .gacInc _ x | .ifInc _ x _
  | .enq _ x | .addv _ x | .q2v _ x | .ready _ x _ | .deq _ x _ | .testany _ x _ | .ifDec _ x _
  | .call _ x | .cb _ x _ | .ret _ x | .gacDec _ x | .woke _ x | .rel _ x => some x
  | _ => none

theorem nextEv_evOp (s : St) (x a : Nat) (e : Ev) (h : nextEv s x a = some e) : evOp e = some x := by
  simp only [nextEv] at h
  repeat' split at h
  all_goals first | (simp at h; done) | (injection h with h; subst h; rfl)

theorem sigDist_le (o : Op) : sigDist o ≤ 6 := by
  simp only [sigDist, susp]
  repeat' split
  all_goals omega

theorem solo_step (s : St) (hj : Inv s) (x a : Nat) (hx : x < s.n) (hd : 0 < sigDist (s.op x)) :
    ∃ e, nextEv s x a = some e ∧ ∃ s', step s e = some s' ∧
      sigDist (s'.op x) + 1 = sigDist (s.op x) ∧ (s'.op x).mpiDone = (s.op x).mpiDone ∧
      (s'.op x).okPost = (s.op x).okPost ∧ s'.n = s.n := by
  have hb := hj.nobug
  cases hpc : (s.op x).pc
  case failed => exact ⟨.sig a x, by simp [nextEv, hpc], by simp [step, hx, hpc, hb, setOp, sigDist]⟩
  case eagerOk => exact ⟨.sig a x, by simp [nextEv, hpc], by simp [step, hx, hpc, setOp, sigDist]⟩
  case yDone => exact ⟨.sig a x, by simp [nextEv, hpc], by simp [step, hx, hpc, setOp, sigDist]⟩
  case cbRun => exact ⟨.sig a x, by simp [nextEv, hpc], by simp [step, hx, hpc, setOp, sigDist]⟩
  case woken => exact ⟨.sig a x, by simp [nextEv, hpc], by simp [step, hx, hpc, setOp, sigDist]⟩
  case completed => exact ⟨.woke a x, by simp [nextEv, hpc], by simp [step, hx, hpc, setOp, sigDist]⟩
  case waiting =>
    cases hrs : (s.op x).rs
    case ready e =>
      exact ⟨.deq a x e, by simp [nextEv, hpc, hrs], by simp [step, hx, hpc, hrs, setOp, sigDist, susp]; omega⟩
    case taken b e =>
      have hpos := inFlight_pos s hj x hx (by rw [hrs]; rfl)
      have h1 : s.inFlight - 1 + 1 = s.inFlight := by omega
      exact ⟨.ifDec b x (s.inFlight - 1), by simp [nextEv, hpc, hrs],
        by simp [step, hx, hpc, hrs, h1, setOp, sigDist, susp]; omega⟩
    case decd b e =>
      exact ⟨.call b x, by simp [nextEv, hpc, hrs], by simp [step, hx, hpc, hrs, setOp, sigDist, susp]; omega⟩
    case calling b e =>
      refine ⟨.cb b x e, by simp [nextEv, hpc, hrs], ?_⟩
      by_cases hm : (s.op x).mode = mSuspend <;> simp [step, hx, hpc, hrs, setOp, sigDist, susp, hm]
    all_goals (simp [sigDist, hpc, hrs] at hd)
  all_goals (simp [sigDist, hpc] at hd)

/-- an operation whose request MPI has reported (or whose MPI call failed) and which is at distance
    0 has signalled -/
theorem done_of_dist_zero (s : St) (hj : Inv s) (hi : Inv2 s) (x : Nat) (hx : x < s.n)
    (hrep : (s.op x).okPost = true → (s.op x).mpiDone = true) (hd : sigDist (s.op x) = 0) :
    (s.op x).pc = .done := by
  have j := hj.ops x
  have i := hi.ops x
  have hni := hi.notIdle x hx
  have hcontra : ∀ (_ : pend (s.op x).pc = true) (_ : unrep (s.op x) = true), False := by
    intro h1 h2
    have := hrep (i.pendOk h1)
    rw [i.unrepNot h2] at this
    exact absurd this (by decide)
  cases hpc : (s.op x).pc
  case done => rfl
  case idle => exact absurd hpc hni
  case errDone => exact absurd hpc j.noErrDone
  case posted => exact (hcontra (by rw [hpc]; rfl) (by simp [unrep, hpc])).elim
  case reg0 => exact (hcontra (by rw [hpc]; rfl) (by simp [unrep, hpc])).elim
  case reg1 => exact (hcontra (by rw [hpc]; rfl) (by simp [unrep, hpc])).elim
  case reg2 => exact (hcontra (by rw [hpc]; rfl) (by simp [unrep, hpc])).elim
  case waiting =>
    exfalso
    cases hrs : (s.op x).rs
    case none => exact absurd hpc (i.rsNonePc hrs)
    case queued => exact hcontra (by rw [hpc]; rfl) (by simp [unrep, hrs])
    case vec => exact hcontra (by rw [hpc]; rfl) (by simp [unrep, hrs])
    case returned => rcases j.waitEarly hpc with h | h <;> simp [hrs, early5, isCalling] at h
    case gone => rcases j.waitEarly hpc with h | h <;> simp [hrs, early5, isCalling] at h
    all_goals (simp [sigDist, hpc, hrs, susp] at hd)
  all_goals (simp [sigDist, hpc] at hd)

theorem solo_run (a : Nat) (k : Nat) : ∀ (s : St), Inv s → Inv2 s → ∀ (x : Nat), x < s.n →
    ((s.op x).okPost = true → (s.op x).mpiDone = true) → sigDist (s.op x) = k →
    ∃ log s', log.length = k ∧ runLog step s log = some s' ∧ (∀ e, e ∈ log → pika e = true ∧ evOp e = some x) ∧
      (s'.op x).pc = .done ∧ (s'.op x).sigs = 1 := by
  induction k with
  | zero =>
    intro s hj hi x hx hrep hd
    have hdone := done_of_dist_zero s hj hi x hx hrep hd
    refine ⟨[], s, rfl, rfl, by simp, hdone, ?_⟩
    rw [(hj.ops x).sigs, hdone]; rfl
  | succ k ih =>
    intro s hj hi x hx hrep hd
    obtain ⟨e, hne, s1, hs, hdist, hm, ho, hn⟩ := solo_step s hj x a hx (by omega)
    have hj1 := step_inv s s1 e hj hs
    have hi1 := step_inv2 s s1 e hj hi hs
    obtain ⟨log, s', hlen, hrun, hall, hdone, hsig⟩ := ih s1 hj1 hi1 x (by omega) (by rw [hm, ho]; exact hrep) (by omega)
    refine ⟨e :: log, s', by simp [hlen], by simp [runLog, hs, hrun], ?_, hdone, hsig⟩
    intro e' he'
    simp only [List.mem_cons] at he'
    rcases he' with rfl | he'
    · exact ⟨nextEv_pika s x a _ hne, nextEv_evOp s x a _ hne⟩
    · exact hall e' he'

end PikaVerif.Mpi
