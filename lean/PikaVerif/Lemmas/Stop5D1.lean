import PikaVerif.Lemmas.Stop5
/-! Follow-up C14p: preservation of layer D (destructor versus pending callback), events group 1. -/
namespace PikaVerif.Stop
open PikaVerif
set_option maxHeartbeats 4000000

theorem stepD_inv (s s' : St) (a : Nat) (k : Kind) (hA : InvA s) (hB : InvB s) (hS : InvS s) (hf : Faith s) (hi : InvD s) (h : step s (.inv a k) = some s') : InvD s' := by stopDi
theorem stepD_ret (s s' : St) (a : Nat) (r : Bool) (hA : InvA s) (hB : InvB s) (hS : InvS s) (hf : Faith s) (hi : InvD s) (h : step s (.ret a r) = some s') : InvD s' := by stopD
theorem stepD_load (s s' : St) (a : Nat) (lk rq : Bool) (src : Nat) (hA : InvA s) (hB : InvB s) (hS : InvS s) (hf : Faith s) (hi : InvD s) (h : step s (.load a lk rq src) = some s') : InvD s' := by stopD
theorem stepD_casFail (s s' : St) (a : Nat) (lk rq : Bool) (src : Nat) (hA : InvA s) (hB : InvB s) (hS : InvS s) (hf : Faith s) (hi : InvD s) (h : step s (.casFail a lk rq src) = some s') : InvD s' := by stopD
theorem stepD_reload (s s' : St) (a : Nat) (lk rq : Bool) (src : Nat) (hA : InvA s) (hB : InvB s) (hS : InvS s) (hf : Faith s) (hi : InvD s) (h : step s (.reload a lk rq src) = some s') : InvD s' := by stopD
theorem stepD_acq (s s' : St) (a : Nat) (hA : InvA s) (hB : InvB s) (hS : InvS s) (hf : Faith s) (hi : InvD s) (h : step s (.acq a) = some s') : InvD s' := by have hk := keyW hS hf a; stopD
theorem stepD_deq (s s' : St) (a c : Nat) (m : Bool) (hA : InvA s) (hB : InvB s) (hS : InvS s) (hf : Faith s) (hi : InvD s) (h : step s (.deq a c m) = some s') : InvD s' := by stopD

end PikaVerif.Stop
