import PikaVerif.Lemmas.Life
/-!
# Finite histories over the life-cycle model (C05t)

The life-cycle model `Life.step` is an acceptor of *every* log: it accepts unboundedly many
submissions, phases, suspensions and incarnations.  A *history* fixes what the program does:

* a controller (OS thread 0, not a pika task) runs a finite script of calls
  `start th pol | submit | wait | suspend | resume | finalize | stop`;
* task bodies spawn at most `kids` children in total and yield at most `yields` times in total
  (every task body is a finite program);
* every thread object runs the task it holds exactly once: `tp o` is the progress of the task in
  object `o` (0 created, 1 first phase begun, 2 body entered, 3 body entered and switched out,
  4 body exited, 5 last phase ended = terminated).

`hstep` is `Life.step` restricted to the logs of such a history (`led` = the ledger transition,
which never touches the model state), so every accepted history log is an accepted model log
(`hstep_step`).  `phi` is the termination measure.
-/
namespace PikaVerif.Life
open PikaVerif

inductive Call where
  | start (th pol : Nat)
  | submit
  | wait
  | suspend
  | resume
  | finalize
  | stop
  deriving DecidableEq, Repr

/-- where the controller is -/
inductive CPc where
  | idle      -- between two calls
  | start1    -- `x.start` noted (configuration requested), runtime not yet constructed
  | start2    -- runtime constructed, workers registering
  | wait1     -- inside `pika::wait()`, polling
  | wait2     -- the predicate's sample let `thread_manager::wait` return
  | susp      -- inside `pika::suspend()`
  | res       -- inside `pika::resume()`
  | stop      -- inside `pika::stop()` (position = `St.spc`)
  deriving DecidableEq, Repr

structure HSt where
  s : St
  script : List Call
  cpc : CPc
  /-- thread count of the current incarnation -/
  th : Nat
  wleft : Nat
  toSleep : Nat
  toWake : Nat
  /-- children the task bodies may still spawn / yields they may still perform -/
  kids : Nat
  yields : Nat
  /-- units that may still pass through the staged queue (each unit at most once) -/
  stageable : Nat
  /-- progress of the task held by thread object `o` -/
  tp : Nat → Nat
  /-- the worker that executes the current phase of object `o` -/
  runner : Nat → Nat
  /-- number of `body.enter` / `body.exit` events so far -/
  bodies : Nat
  exits : Nat
  /-- number of `suspend()` / `resume()` calls entered so far -/
  nsusp : Nat
  nres : Nat

def hinit (na no : Nat) (script : List Call) (kids yields : Nat) : HSt :=
  { s := init na no, script := script, cpc := .idle, th := 0, wleft := 0, toSleep := 0, toWake := 0,
    kids := kids, yields := yields, stageable := 0, tp := fun _ => 0, runner := fun _ => 0,
    bodies := 0, exits := 0, nsusp := 0, nres := 0 }

/-- The ledger transition: which events the history allows in `h`, and how its books change.
    The model state `h.s` is only read. -/
def led (h : HSt) : Ev → Option HSt
  | .inc a _ =>
    if a = 0 then
      match h.cpc, h.script with
      | .idle, .submit :: r => some { h with script := r, stageable := h.stageable + 1 }
      | _, _ => none
    else
      match h.s.cur a with
      | some o =>
        if h.tp o = 2 ∧ 0 < h.kids then some { h with kids := h.kids - 1, stageable := h.stageable + 1 }
        else none
      | none => none
  | .dec _ _ => some h
  | .stage _ => if 0 < h.stageable then some { h with stageable := h.stageable - 1 } else none
  | .unstage _ => some h
  | .new _ o => some { h with tp := upd h.tp o 0 }
  | .destroy _ o => if h.tp o = 5 then some h else none
  | .phaseBegin a o =>
    if h.tp o = 0 then some { h with tp := upd h.tp o 1, runner := upd h.runner o a }
    else if h.tp o = 3 then some { h with tp := upd h.tp o 2, runner := upd h.runner o a }
    else none
  | .phaseEnd _ o =>
    if h.tp o = 2 ∧ 0 < h.yields then some { h with tp := upd h.tp o 3, yields := h.yields - 1 }
    else if h.tp o = 4 then some { h with tp := upd h.tp o 5 }
    else none
  | .body _ o =>
    if h.tp o = 1 then some { h with tp := upd h.tp o 2, bodies := h.bodies + 1 }
    else if h.tp o = 2 then some { h with tp := upd h.tp o 4, exits := h.exits + 1 }
    else none
  | .sample a v self =>
    if a = 0 then
      match h.cpc with
      | .wait1 => if v ≤ self then some { h with cpc := .wait2 } else some h
      | .stop => if h.s.stopper = some 0 then some h else none
      | _ => none
    else none
  | .rtState a v =>
    if a = 0 then
      if v = rsInitialized then (if h.cpc = .start1 then some { h with cpc := .start2 } else none)
      else if v = rsPreStartup ∨ v = rsStartup ∨ v = rsPreMain then some h
      else if v = rsRunning then
        (match h.cpc with
         | .start2 => some { h with cpc := .idle }
         | .res => some { h with cpc := .idle }
         | _ => none)
      else if v = rsSleeping then (if h.cpc = .susp then some { h with cpc := .idle } else none)
      else if v = rsStopped then (if h.cpc = .stop then some h else none)
      else none
    else none
  | .result _ _ => some h
  | .fin a =>
    if a = 0 then
      match h.cpc, h.script with
      | .idle, .finalize :: r => some { h with script := r }
      | _, _ => none
    else none
  | .stopEnter a =>
    if a = 0 then
      match h.cpc, h.script with
      | .idle, .stop :: r => some { h with script := r, cpc := .stop, toWake := h.th }
      | _, _ => none
    else none
  | .waitFin a => if a = 0 ∧ h.cpc = .stop then some h else none
  | .waited a _ => if a = 0 ∧ h.cpc = .stop then some h else none
  | .stopExit a _ => if a = 0 ∧ h.cpc = .stop then some { h with cpc := .idle } else none
  | .suspendEnter a =>
    if a = 0 then
      match h.cpc, h.script with
      | .idle, .suspend :: r => some { h with script := r, cpc := .susp, toSleep := h.th, nsusp := h.nsusp + 1 }
      | _, _ => none
    else none
  | .resumeEnter a =>
    if a = 0 then
      match h.cpc, h.script with
      | .idle, .resume :: r => some { h with script := r, cpc := .res, toWake := h.th, nres := h.nres + 1 }
      | _, _ => none
    else none
  | .worker a =>
    -- actors are numbered by first appearance: the controller is 0, the workers of an incarnation
    -- register as 1, 2, …
    if a = h.s.nworkers + 1 ∧ h.cpc = .start2 ∧ 0 < h.wleft then some { h with wleft := h.wleft - 1 } else none
  | .sleep _ => if 0 < h.toSleep then some { h with toSleep := h.toSleep - 1 } else none
  | .wake _ => if 0 < h.toWake then some { h with toWake := h.toWake - 1 } else none
  | .waitEnter a =>
    if a = 0 then
      match h.cpc, h.script with
      | .idle, .wait :: r => some { h with script := r, cpc := .wait1 }
      | _, _ => none
    else none
  | .waitExit a => if a = 0 ∧ h.cpc = .wait2 then some { h with cpc := .idle } else none
  | .reqCfg a th pol =>
    if a = 0 then
      match h.cpc, h.script with
      | .idle, .start t p :: r =>
        if t = th ∧ p = pol ∧ 1 ≤ t ∧ t < h.s.na then
          some { h with script := r, cpc := .start1, th := t, wleft := t, nsusp := 0, nres := 0 }
        else none
      | _, _ => none
    else none
  | .seenCfg _ _ _ => some h

/-- one step of a history: the model accepts the event and the history allows it -/
def hstep (h : HSt) (e : Ev) : Option HSt :=
  match step h.s e, led h e with
  | some s', some l => some { l with s := s' }
  | _, _ => none

/-- the ledger transition does not touch the model state -/
theorem led_s (h l : HSt) (e : Ev) (hl : led h e = some l) : l.s = h.s := by
  cases e <;> simp only [led] at hl <;> (repeat' split at hl) <;>
    first
    | (simp at hl; done)
    | (simp only [Option.some.injEq] at hl; subst hl; rfl)

theorem hstep_some (h h' : HSt) (e : Ev) (hs : hstep h e = some h') :
    ∃ s' l, step h.s e = some s' ∧ led h e = some l ∧ h' = { l with s := s' } := by
  simp only [hstep] at hs
  split at hs
  · rename_i s' l h1 h2
    simp only [Option.some.injEq] at hs
    exact ⟨s', l, h1, h2, hs.symm⟩
  · simp at hs

/-- **Refinement.**  Every accepted history step is an accepted model step on the model part. -/
theorem hstep_step (h h' : HSt) (e : Ev) (hs : hstep h e = some h') : step h.s e = some h'.s := by
  obtain ⟨s', l, h1, _, h3⟩ := hstep_some h h' e hs
  subst h3; exact h1

theorem runLog_hstep_step (log : List Ev) : ∀ (h h' : HSt), runLog hstep h log = some h' →
    runLog step h.s log = some h'.s := by
  induction log with
  | nil => intro h h' hr; simp at hr; subst hr; simp
  | cons e es ih =>
    intro h h' hr
    simp only [runLog] at hr ⊢
    cases hs : hstep h e with
    | none => simp [hs] at hr
    | some h1 =>
      simp only [hs] at hr
      rw [hstep_step h h1 e hs]
      exact ih h1 h' hr

/-! ## Event classes -/

/-- **The stutter, precisely.**  Events the model accepts without any progress of the history: a
    sample of `thread_manager::wait`'s predicate that sees a busy counter (the poll of `wait()` /
    `stop()` goes on), the runtime-state stores `pre_startup / startup / pre_main` (no-ops of the
    phase machine), the harness' configuration observation, and the store of the entry function's
    result. -/
def neutral : Ev → Bool
  | .sample _ v self => decide (self < v)
  | .rtState _ v => decide (v = rsPreStartup ∨ v = rsStartup ∨ v = rsPreMain)
  | .seenCfg _ _ _ => true
  | .result _ _ => true
  | _ => false

def nMoves : List Ev → Nat
  | [] => 0
  | e :: es => (if neutral e then 0 else 1) + nMoves es

/-! ## The measure -/

/-- remaining obligatory events of the task in a live thread object -/
def rem : Nat → Nat
  | 0 => 6 | 1 => 5 | 2 => 4 | 3 => 5 | 4 => 3 | _ => 2

def objPot (h : HSt) : Nat := sumTo h.s.no (fun o => if h.s.live o = true then rem (h.tp o) else 0)

/-- cost of the remaining script, given the thread count of the current incarnation -/
def scost : Nat → List Call → Nat
  | _, [] => 0
  | _, .start t _ :: r => t + 3 + scost t r
  | th, .submit :: r => 10 + scost th r
  | th, .wait :: r => 3 + scost th r
  | th, .suspend :: r => th + 2 + scost th r
  | th, .resume :: r => th + 2 + scost th r
  | th, .finalize :: r => 1 + scost th r
  | th, .stop :: r => th + 6 + scost th r

def cpcRank : CPc → Nat
  | .idle => 0 | .start1 => 2 | .start2 => 1 | .wait1 => 2 | .wait2 => 1 | .susp => 1 | .res => 1 | .stop => 0

def spcRank : StopPc → Nat
  | .out => 0 | .entered => 5 | .waitedFin => 4 | .drained => 3 | .waited => 2 | .halted => 1

def phi (h : HSt) : Nat :=
  scost h.th h.script + cpcRank h.cpc + spcRank h.s.spc + h.wleft + h.toSleep + h.toWake +
  10 * h.kids + 2 * h.yields + 7 * h.s.creating + 8 * h.s.staged + 2 * h.stageable + objPot h +
  h.s.destroying

/-- a sum changes by one term when the summand changes at one index -/
theorem sumTo_change {n : Nat} {f g : Nat → Nat} {t : Nat} (ht : t < n)
    (h : ∀ u, u ≠ t → g u = f u) : sumTo n g + f t = sumTo n f + g t := by
  induction n with
  | zero => exact absurd ht (Nat.not_lt_zero _)
  | succ k ih =>
    simp only [sumTo_succ]
    by_cases htk : t = k
    · subst htk
      have : sumTo t g = sumTo t f := sumTo_congr (fun u hu => h u (by omega))
      omega
    · have := ih (by omega)
      have := h k (fun hk => htk hk.symm)
      omega

end PikaVerif.Life
