import PikaVerif.Lemmas.Stop3
import PikaVerif.Lemmas.Stop5D1
import PikaVerif.Lemmas.Stop5D2
import PikaVerif.Lemmas.Stop5D3
import PikaVerif.Lemmas.Stop5T1
import PikaVerif.Lemmas.Stop5T2
import PikaVerif.Lemmas.Stop5T3
/-! Follow-up C14p: invariants A, B, S, D, T hold after every accepted log of the repaired code
    started with faithful thread identities. -/
namespace PikaVerif.Stop
open PikaVerif

theorem stepD (s s' : St) (e : Ev) (hA : InvA s) (hB : InvB s) (hS : InvS s) (hf : Faith s) (hi : InvD s)
    (h : step s e = some s') : InvD s' := by
  cases e with
  | inv a k => exact stepD_inv s s' a k hA hB hS hf hi h
  | ret a r => exact stepD_ret s s' a r hA hB hS hf hi h
  | load a lk rq src => exact stepD_load s s' a lk rq src hA hB hS hf hi h
  | casFail a lk rq src => exact stepD_casFail s s' a lk rq src hA hB hS hf hi h
  | reload a lk rq src => exact stepD_reload s s' a lk rq src hA hB hS hf hi h
  | acq a => exact stepD_acq s s' a hA hB hS hf hi h
  | deq a c m => exact stepD_deq s s' a c m hA hB hS hf hi h
  | rsDone a => exact stepD_rsDone s s' a hA hB hS hf hi h
  | preExec a c => exact stepD_preExec s s' a c hA hB hS hf hi h
  | cbBegin a c => exact stepD_cbBegin s s' a c hA hB hS hf hi h
  | cbEnd a c => exact stepD_cbEnd s s' a c hA hB hS hf hi h
  | finStore a c r => exact stepD_finStore s s' a c r hA hB hS hf hi h
  | inFin a c => exact stepD_inFin s s' a c hA hB hS hf hi h
  | push a c b => exact stepD_push s s' a c b hA hB hS hf hi h
  | unlink a c r => exact stepD_unlink s s' a c r hA hB hS hf hi h
  | selfChk a c e p => exact stepD_selfChk s s' a c e p hA hB hS hf hi h
  | waited a c => exact stepD_waited s s' a c hA hB hS hf hi h
  | srcInc a => exact stepD_srcInc s s' a hA hB hS hf hi h
  | srcDec a => exact stepD_srcDec s s' a hA hB hS hf hi h
  | query a x y => exact stepD_query s s' a x y hA hB hS hf hi h
  | done a => exact stepD_done s s' a hA hB hS hf hi h

theorem stepT (s s' : St) (e : Ev) (hA : InvA s) (hB : InvB s) (hS : InvS s) (hf : Faith s) (hD : InvD s) (hi : InvT s)
    (h : step s e = some s') : InvT s' := by
  cases e with
  | inv a k => exact stepT_inv s s' a k hA hB hS hf hD hi h
  | ret a r => exact stepT_ret s s' a r hA hB hS hf hD hi h
  | load a lk rq src => exact stepT_load s s' a lk rq src hA hB hS hf hD hi h
  | casFail a lk rq src => exact stepT_casFail s s' a lk rq src hA hB hS hf hD hi h
  | reload a lk rq src => exact stepT_reload s s' a lk rq src hA hB hS hf hD hi h
  | acq a => exact stepT_acq s s' a hA hB hS hf hD hi h
  | deq a c m => exact stepT_deq s s' a c m hA hB hS hf hD hi h
  | rsDone a => exact stepT_rsDone s s' a hA hB hS hf hD hi h
  | preExec a c => exact stepT_preExec s s' a c hA hB hS hf hD hi h
  | cbBegin a c => exact stepT_cbBegin s s' a c hA hB hS hf hD hi h
  | cbEnd a c => exact stepT_cbEnd s s' a c hA hB hS hf hD hi h
  | finStore a c r => exact stepT_finStore s s' a c r hA hB hS hf hD hi h
  | inFin a c => exact stepT_inFin s s' a c hA hB hS hf hD hi h
  | push a c b => exact stepT_push s s' a c b hA hB hS hf hD hi h
  | unlink a c r => exact stepT_unlink s s' a c r hA hB hS hf hD hi h
  | selfChk a c e p => exact stepT_selfChk s s' a c e p hA hB hS hf hD hi h
  | waited a c => exact stepT_waited s s' a c hA hB hS hf hD hi h
  | srcInc a => exact stepT_srcInc s s' a hA hB hS hf hD hi h
  | srcDec a => exact stepT_srcDec s s' a hA hB hS hf hD hi h
  | query a x y => exact stepT_query s s' a x y hA hB hS hf hD hi h
  | done a => exact stepT_done s s' a hA hB hS hf hD hi h

/-- all invariants together -/
structure InvAll (s : St) : Prop where
  A : InvA s
  B : InvB s
  S : InvS s
  F : Faith s
  D : InvD s
  T : InvT s

theorem stepAll (s s' : St) (e : Ev) (hi : InvAll s) (h : step s e = some s') : InvAll s' :=
  ⟨stepA s s' e hi.A h, stepB s s' e hi.A hi.B h, stepS s s' e hi.A hi.S h, step_faith s s' e h hi.F,
   stepD s s' e hi.A hi.B hi.S hi.F hi.D h, stepT s s' e hi.A hi.B hi.S hi.F hi.D hi.T h⟩

theorem invAll_init (n K : Nat) (ident : Nat → Nat) (fc : Bool) (srcs : Nat)
    (hK : 0 < K) (hid : ∀ a b, ident a = ident b ↔ a % K = b % K) : InvAll (init n K ident true fc srcs) :=
  ⟨invA_init n K ident fc srcs, invB_init n K ident true fc srcs, invS_init n K ident true fc srcs,
   ⟨hK, hid⟩, invD_init n K ident true fc srcs, invT_init n K ident true fc srcs⟩

theorem invAll_of_accepted {n K : Nat} {ident : Nat → Nat} {fc : Bool} {srcs : Nat} {log : List Ev} {s : St}
    (hK : 0 < K) (hid : ∀ a b, ident a = ident b ↔ a % K = b % K)
    (h : runLog step (init n K ident true fc srcs) log = some s) : InvAll s :=
  inv_of_runLog InvAll (fun s e s' hi hs => stepAll s s' e hi hs) (invAll_init n K ident fc srcs hK hid) h

end PikaVerif.Stop
