import PikaVerif.Lemmas.Barrier4
/-! Auxiliary definitions and lemmas used by the C09 barrier property theorems: the "inside an
    arriving operation" classifier, event counters of a log, small sum facts. -/
namespace PikaVerif.Barrier
open PikaVerif

/-- Inside an arriving operation (`arrive`, `arrive_and_wait`, `arrive_and_drop`) of the current
    phase: invoked, and `barrier::arrive` has not returned yet. -/
def arriving : Pc → Bool
  | .want _ | .wantDrop | .arr _ | .try _ _ _ _ | .try2 _ _ _ _ | .won _ _ | .pub _ _ => true
  | _ => false

theorem not_arriving_of_quiet {p : Pc} {N : Nat} (hr : rem p = 0) (hk : ∀ k, inR k p = 0)
    (hs : pcOk N p) : arriving p = false := by
  cases p <;> simp [arriving, pcOk, rem] at *
  case want u => omega
  case arr u => omega
  case «try» u c r m => have := hk r; simp [inR] at this
  case try2 u c r m => have := hk r; simp [inR] at this
  case won u r => have := hk r; simp [inR] at this
  case pub u r => have := hk r; simp [inR] at this

/-- Number of `true` returns of `base.arrive` (`bar.last`), completion calls and phase stores in
    a log. -/
def lasts : List Ev → Nat
  | [] => 0
  | .last _ _ _ :: l => lasts l + 1
  | _ :: l => lasts l
def complCalls : List Ev → Nat
  | [] => 0
  | .compl _ :: l => complCalls l + 1
  | _ :: l => complCalls l
def publishes : List Ev → Nat
  | [] => 0
  | .publish _ _ _ :: l => publishes l + 1
  | _ :: l => publishes l

theorem counters_step (s s' : St) (e : Ev) (h : step s e = some s') :
    s'.wins = s.wins + lasts [e] ∧ s'.compls = s.compls + complCalls [e] ∧
    s'.ph = s.ph + publishes [e] ∧ s'.n = s.n := by
  cases e <;> simp only [step] at h <;> (repeat' split at h) <;>
    first | (simp at h; done) | (simp only [Option.some.injEq] at h; subst h; simp [lasts, complCalls, publishes])

theorem counters_log (log : List Ev) : ∀ (s s' : St), runLog step s log = some s' →
    s'.wins = s.wins + lasts log ∧ s'.compls = s.compls + complCalls log ∧
    s'.ph = s.ph + publishes log ∧ s'.n = s.n := by
  induction log with
  | nil => intro s s' h; simp at h; subst h; simp [lasts, complCalls, publishes]
  | cons e es ih =>
    intro s s' h
    simp only [runLog] at h
    cases hs : step s e with
    | none => simp [hs] at h
    | some s1 =>
      simp only [hs] at h
      have h1 := counters_step s s1 e hs
      have h2 := ih s1 s' h
      have e1 : lasts (e :: es) = lasts [e] + lasts es := by cases e <;> simp [lasts] <;> omega
      have e2 : complCalls (e :: es) = complCalls [e] + complCalls es := by
        cases e <;> simp [complCalls] <;> omega
      have e3 : publishes (e :: es) = publishes [e] + publishes es := by
        cases e <;> simp [publishes] <;> omega
      refine ⟨?_, ?_, ?_, ?_⟩ <;> omega

theorem wt_zero_imp {p k v : Nat} (hk : 1 ≤ k) (h : wt p k v = 0) : v ≠ fullB p ∧ v ≠ halfB p := by
  unfold wt at h
  split at h
  · omega
  · split at h
    · omega
    · exact ⟨by assumption, by assumption⟩

theorem zero_of_sumTo_zero {n : Nat} {f : Nat → Nat} (h : sumTo n f = 0) : ∀ c, c < n → f c = 0 := by
  intro c hc; have := le_sumTo (f := f) hc; omega

theorem exists_lt_of_sumTo_lt {n : Nat} {f g : Nat → Nat} (h : sumTo n f < sumTo n g) :
    ∃ c, c < n ∧ f c < g c := by
  induction n with
  | zero => simp at h
  | succ k ih =>
    simp only [sumTo_succ] at h
    by_cases hk : f k < g k
    · exact ⟨k, Nat.lt_succ_self k, hk⟩
    · obtain ⟨c, hc, hlt⟩ := ih (by omega)
      exact ⟨c, Nat.lt_succ_of_lt hc, hlt⟩

end PikaVerif.Barrier
