import PikaVerif.Model.Join
/-! Ownership invariant of the join model (follow-up C13m): the ghost map `owner` (task ↦ handle) is
    the exact inverse of `hid` (handle ↦ task), across `start`, `join`, `detach`, move construction,
    move assignment, `swap` and destruction.  Independent of the invariant in `Lemmas/Join.lean`
    (it only mentions `hid` and `owner`). -/
namespace PikaVerif.Join
open PikaVerif

@[simp, grind =] theorem setOwn_apply (ow : Nat → Option Nat) (x v : Option Nat) (t : Nat) :
    setOwn ow x v t = if x = some t then v else ow t := rfl

structure OwnInv (s : St) : Prop where
  ownHid : ∀ h o, s.hid h = some o → s.owner o = some h
  hidOwn : ∀ o h, s.owner o = some h → s.hid h = some o

theorem own_init : OwnInv init := by
  refine ⟨?_, ?_⟩ <;> simp [init]

theorem step_own (s s' : St) (e : Ev) (hi : OwnInv s) (h : step s e = some s') : OwnInv s' := by
  obtain ⟨h1, h2⟩ := hi
  cases e <;> simp only [step] at h <;> (repeat' split at h) <;>
    first
    | (simp at h; done)
    | (simp only [Option.some.injEq] at h; subst h; exact ⟨h1, h2⟩)
    | (simp only [Option.some.injEq] at h; subst h
       refine ⟨?_, ?_⟩ <;> dsimp only <;> intro a b <;> grind [upd])

theorem own_of_accepted {log : List Ev} {s : St} (h : runLog step init log = some s) : OwnInv s :=
  inv_of_runLog OwnInv (fun s e s' => step_own s s' e) own_init h

/-- the events by which handle `h` gives up the thread it refers to -/
def Releases (h : Nat) : Ev → Prop
  | .jnDone h' _ | .detach h' _ _ | .dtorTerm h' _ => h' = h
  | _ => False

theorem owner_kept_aux (s s' : St) (e : Ev) (hi : OwnInv s) (hs : step s e = some s') (h o : Nat)
    (ho : s.owner o = some h) : (s'.owner o).isSome = true ∨ Releases h e := by
  obtain ⟨h1, h2⟩ := hi
  cases e <;> simp only [step] at hs <;> (repeat' split at hs) <;>
    first
    | (simp at hs; done)
    | (simp only [Option.some.injEq] at hs; subst hs; left; simp [ho]; done)
    | (simp only [Option.some.injEq] at hs; subst hs; simp only [Releases]; grind [upd])


end PikaVerif.Join
