import PikaVerif.Lemmas.Stop5
/-! Follow-up C14p: preservation of layer T (destructor and running callback on one thread), events group 3. -/
namespace PikaVerif.Stop
open PikaVerif
set_option maxHeartbeats 4000000

theorem stepT_unlink (s s' : St) (a c : Nat) (r : Bool) (hA : InvA s) (hB : InvB s) (hS : InvS s) (hf : Faith s) (hD : InvD s) (hi : InvT s) (h : step s (.unlink a c r) = some s') : InvT s' := by stopT
theorem stepT_selfChk (s s' : St) (a c : Nat) (e p : Bool) (hA : InvA s) (hB : InvB s) (hS : InvS s) (hf : Faith s) (hD : InvD s) (hi : InvT s) (h : step s (.selfChk a c e p) = some s') : InvT s' := by have hk : s.sig = s.ident a → ∀ w c', winPhase (s.pc w) = some c' → thr s.K a = thr s.K w := fun hs w c' hw => keyS hS hf a w hs (hA.winPhaseWinner w c' hw); stopT
theorem stepT_waited (s s' : St) (a c : Nat) (hA : InvA s) (hB : InvB s) (hS : InvS s) (hf : Faith s) (hD : InvD s) (hi : InvT s) (h : step s (.waited a c) = some s') : InvT s' := by stopT
theorem stepT_srcInc (s s' : St) (a : Nat) (hA : InvA s) (hB : InvB s) (hS : InvS s) (hf : Faith s) (hD : InvD s) (hi : InvT s) (h : step s (.srcInc a) = some s') : InvT s' := by stopT
theorem stepT_srcDec (s s' : St) (a : Nat) (hA : InvA s) (hB : InvB s) (hS : InvS s) (hf : Faith s) (hD : InvD s) (hi : InvT s) (h : step s (.srcDec a) = some s') : InvT s' := by stopT
theorem stepT_query (s s' : St) (a : Nat) (x y : Bool) (hA : InvA s) (hB : InvB s) (hS : InvS s) (hf : Faith s) (hD : InvD s) (hi : InvT s) (h : step s (.query a x y) = some s') : InvT s' := by stopT
theorem stepT_done (s s' : St) (a : Nat) (hA : InvA s) (hB : InvB s) (hS : InvS s) (hf : Faith s) (hD : InvD s) (hi : InvT s) (h : step s (.done a) = some s') : InvT s' := by stopT

end PikaVerif.Stop
