import PikaVerif.Lemmas.CV2
/-!
# Termination measure of the condition-variable model (C07t)

The model `PikaVerif.CV` has **no stutter**: every accepted event changes the program counter of
its actor or shortens the wait queue (a failed attempt on the internal spinlock, on the user lock
or on the lock bit of the stop state is not an event of the model: `slAcq` / `ulAcq` / `stAcq` are
accepted only when the lock is free; the spinning lines are dropped by the driver before the
acceptor).  This file defines a natural-number measure `mu` on model states that strictly
decreases with every accepted event other than the invocation of a new operation (`inv`).

Potential argument.  A waiter's loop iteration (`predChk → want → locked → released → enq → unl →
susp/slp → wokeNL → relk → post → relockU → predChk`, 13 events at most) is paid for by the
wake-up token (`tok`, worth 14) or by the `popped` flag of its program counter (worth 14); both
are created only by a pop of a notifier, which pays 29 for it.  `notify_one` pops at most once.
`notify_all` (and the stop callback, which is a `notify_all`) pops every entry queued when it
swapped the queue out: its potential is `29 * |queue|` inside the pop loop and `29 * n` before
(the queue never holds more than `n` entries, `qlen_le`).  A registered stop callback carries
the potential of its own execution by `request_stop` (`cbW`).
-/
namespace PikaVerif.CV
open PikaVerif

/-! ## sums -/

theorem sumTo_change (n : Nat) (f f' : Nat → Nat) (t : Nat) (ht : t < n)
    (h : ∀ u, u < n → u ≠ t → f' u = f u) : sumTo n f' + f t = sumTo n f + f' t := by
  induction n with
  | zero => omega
  | succ k ih =>
    simp only [sumTo_succ]
    by_cases hk : t = k
    · subst hk
      have : sumTo t f' = sumTo t f := sumTo_congr (fun u hu => h u (by omega) (by omega))
      omega
    · have := ih (by omega) (fun u hu hne => h u (by omega) hne)
      have := h k (by omega) (by omega)
      omega

theorem sumTo_change2 (n : Nat) (f f' : Nat → Nat) (t g : Nat) (ht : t < n) (hg : g < n) (hne : g ≠ t)
    (h : ∀ u, u < n → u ≠ t → u ≠ g → f' u = f u) :
    sumTo n f' + f t + f g = sumTo n f + f' t + f' g := by
  have h1 := sumTo_change n (fun u => if u = t then f u else f' u) f' t ht
    (by intro u _ hu; simp [hu])
  have h2 := sumTo_change n f (fun u => if u = t then f u else f' u) g hg
    (by intro u hu hug
        by_cases hut : u = t
        · simp [hut]
        · simp [hut]; exact h u hu hut hug)
  simp [hne] at h1 h2
  omega

theorem sumTo_le_of_le_one {n : Nat} {f : Nat → Nat} (h : ∀ t, f t ≤ 1) : sumTo n f ≤ n := by
  induction n with
  | zero => simp
  | succ k ih => simp only [sumTo_succ]; have := h k; omega

/-- a duplicate-free list of numbers below `n` has at most `n` entries -/
theorem nodup_length_le : ∀ (n : Nat) (l : List Nat), l.Nodup → (∀ x, x ∈ l → x < n) → l.length ≤ n := by
  intro n
  induction n with
  | zero =>
    intro l _ h
    cases l with
    | nil => simp
    | cons a _ => have := h a (by simp); omega
  | succ k ih =>
    intro l hnd h
    have h1 : (l.erase k).Nodup := hnd.erase k
    have h2 : ∀ x, x ∈ l.erase k → x < k := by
      intro x hx
      have := (hnd.mem_erase_iff).1 hx
      have := h x this.2
      omega
    have h3 := ih (l.erase k) h1 h2
    by_cases hm : k ∈ l
    · have := List.length_erase_of_mem hm
      omega
    · rw [List.erase_of_not_mem hm] at h3; omega

/-- the wait queue never holds more than `n` entries -/
theorem qlen_le (s : St) (hi : Inv s) : s.queue.length ≤ s.n := by
  apply nodup_length_le _ _ hi.qNodup
  intro x hx
  have h1 := (hi.qIff x).1 hx
  apply Classical.byContradiction
  intro hge
  rw [hi.outside x (by omega)] at h1
  simp [inQ] at h1

/-! ## ranks -/

/-- the value `final` that the predicate re-test after the wait will carry -/
def finalAfter (c : Op) (ss still : Bool) : Bool :=
  if isStop c && isTimed c then ss else isTimed c && still

/-- rank of a program counter; `c` = current operation, `ss` = the local `should_stop`,
    `N` = number of threads, `q` = length of the wait queue -/
def rank (c : Op) (ss : Bool) (N q : Nat) : Pc → Nat
  | .fin => 0
  | .idle => 1
  | .wantU => 2
  | .unlocking => 2
  | .setting _ => 2
  | .retn _ => 2
  | .predChk f => if f then 7 else 20
  | .want => 19
  | .sChk1 => 18
  | .locked => 17
  | .released => 16
  | .enq _ => 15
  | .unl _ p => 14 + 14 * b2n p
  | .susp p => 13 + 14 * b2n p
  | .slp p => 13 + 14 * b2n p
  | .wokeNL tm p => 12 + 14 * b2n (!tm) + 14 * b2n p
  | .relk tm p => 11 + 14 * b2n (!tm) + 14 * b2n p
  | .post still => if isTimed c && still then 10 else 24
  | .postS still => if finalAfter c ss still then 9 else 23
  | .relockU still => if finalAfter c ss still then 8 else 22
  | .nWant => if c = .notify true then 29 * N + 6 else 33
  | .nLocked => if c = .notify true then 29 * N + 5 else 32
  | .nAll => 29 * q + 4
  | .nDone => 3
  | .nRet => 2
  | .sChk0 => 29 * N + 32
  | .sReg => 29 * N + 31
  | .sRegLk => 29 * N + 30
  | .cWant k => 29 * N + (if k then 24 else 8)
  | .cLocked k => 29 * N + (if k then 23 else 7)
  | .cAll k => 29 * q + (if k then 22 else 6)
  | .cRet k => if k then 21 else 5
  | .sStopped => 7
  | .sDtor _ => 6
  | .sRm _ => 5
  | .sRmChk _ => 4
  | .sRmWait _ => 3
  | .rsWant => 4
  | .rsRelock => 4
  | .rsLocked => 3
  | .rsRet _ => 2

/-- potential of the registered stop callbacks: each pays for its execution by `request_stop` -/
def cbW (N : Nat) : List Nat → Nat
  | [] => 0
  | _ :: l => 29 * N + 9 + cbW N l

theorem cbW_erase (N : Nat) (t : Nat) : ∀ l : List Nat, cbW N (l.erase t) ≤ cbW N l := by
  intro l
  induction l with
  | nil => simp
  | cons a l ih =>
    by_cases h : a = t
    · subst h; simp [cbW]
    · rw [List.erase_cons_tail (by simpa using h)]; simp only [cbW]; omega

/-- weight of a thread: rank of its program counter + 14 per wake-up token -/
def wt (s : St) (u : Nat) : Nat :=
  rank (s.curOp u) (s.sstop u) s.n s.queue.length (s.pc u) + 14 * s.tok u

/-- the measure on model states -/
def mu (s : St) : Nat := sumTo s.n (wt s) + cbW s.n s.cbs

/-- potential an operation adds when it is invoked (rank of its first program counter − 1) -/
def opCost (N : Nat) : Op → Nat
  | .lock => 1
  | .unlock => 1
  | .set _ => 1
  | .notify all => if all then 29 * N + 5 else 32
  | .wait _ pr => if pr then 19 else 18
  | .swait _ => 29 * N + 31
  | .stop => 3

theorem step_n (s s' : St) (e : Ev) (h : step s e = some s') : s'.n = s.n := by
  cases e <;> simp only [step, popCore] at h <;> (repeat' split at h) <;>
    first | (simp at h; done) | (simp only [Option.some.injEq] at h; subst h; rfl)

/-- one thread changes -/
theorem mu_lt_of_change (s s' : St) (t : Nat) (htn : t < s.n) (hn : s'.n = s.n)
    (ho : ∀ u, u < s.n → u ≠ t → wt s' u = wt s u)
    (hlt : wt s' t + cbW s.n s'.cbs < wt s t + cbW s.n s.cbs) : mu s' < mu s := by
  have := sumTo_change s.n (wt s) (wt s') t htn ho
  simp only [mu, hn]
  omega

/-- two threads change (a pop) -/
theorem mu_lt_of_change2 (s s' : St) (t g : Nat) (htn : t < s.n) (hgn : g < s.n) (hne : g ≠ t)
    (hn : s'.n = s.n) (hc : s'.cbs = s.cbs)
    (ho : ∀ u, u < s.n → u ≠ t → u ≠ g → wt s' u = wt s u)
    (hlt : wt s' t + wt s' g < wt s t + wt s g) : mu s' < mu s := by
  have := sumTo_change2 s.n (wt s) (wt s') t g htn hgn hne ho
  simp only [mu, hn, hc]
  omega

end PikaVerif.CV
