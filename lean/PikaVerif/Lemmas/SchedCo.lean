import PikaVerif.Model.SchedCo
import PikaVerif.Lemmas.Sched
/-! Invariant of the coroutine/body layer (`Model/SchedCo.lean`) and its preservation. -/
namespace PikaVerif.SchedCo
open PikaVerif PikaVerif.Sched

structure CoInv (x : Obj) (c : Co) : Prop where
  entriesEq : c.entries = if c.pc = .ready then 0 else 1
  exitsEq : c.exits = if c.pc = .returned then 1 else 0
  inBodyPhase : c.pc = .inBody → x.inPhase = true ∧ c.ran = true
  readyNotRan : c.pc = .ready → c.ran = false
  notRanPc : x.inPhase = true → c.ran = false → c.pc ≠ .inBody ∧ c.pc ≠ .returned
  returnedWhere : c.pc = .returned → (x.inPhase = true ∧ c.ran = true) ∨
    (x.ranPhase = true ∧ x.result = sTerminated ∧ x.owner.isSome = true ∧ x.inPhase = false) ∨
    (x.w.st = sTerminated ∧ x.owner = none)
  ranRes : x.ranPhase = true → x.owner.isSome = true →
    (c.pc = .yielded x.result ∨ (c.pc = .returned ∧ x.result = sTerminated))
  phaseExcl : x.inPhase = true → x.ranPhase = false
  okReq : c.pc.okReq = true
  stValid : x.live = true → (x.w.st = sActive ∨ x.w.st = sPending ∨ x.w.st = sBoost ∨
    x.w.st = sSuspended ∨ x.w.st = sTerminated)
  termReturned : x.live = true → x.fresh = false → x.w.st = sTerminated → c.pc = .returned
  suspYielded : x.live = true → x.w.st = sSuspended → c.pc = .yielded sSuspended
  freshReady : x.fresh = true → c.pc = .ready

def Inv (s : St) : Prop := Sched.Inv s.base ∧ ∀ o, CoInv (s.base.obj o) (s.co o)

theorem inv_init : Inv init := by
  refine ⟨Sched.inv_init, ?_⟩
  intro o
  refine ⟨?_, ?_, ?_, ?_, ?_, ?_, ?_, ?_, ?_, ?_, ?_, ?_, ?_⟩ <;> simp [init, Sched.init, CoPc.okReq]

attribute [local grind] tokens b2n pendingish unreferenced CoPc.resumable CoPc.okReq CoPc.isYielded CoPc.open SchedCo.okReq

set_option hygiene false in
macro "co_close" : tactic => `(tactic| (
    intro o'
    by_cases ho : o' = o
    · subst ho
      have hx := hi o'
      have hbx := hb o'
      obtain ⟨h1,h2,h3,h4,h5,h6,h7,h8,h9,h10,h11,h12,h13⟩ := hx
      obtain ⟨b1,b2,b3,b4,b5,b6,b7,b8,b9⟩ := hbx
      try simp only [upd_same]
      refine ⟨?_, ?_, ?_, ?_, ?_, ?_, ?_, ?_, ?_, ?_, ?_, ?_, ?_⟩ <;> grind
    · try simp only [upd_other _ _ _ _ ho]
      exact hi o'))

theorem step_inv_coEnter (s s' : St) (a o : Nat) (hb : Sched.Inv s.base)
    (hi : ∀ o, CoInv (s.base.obj o) (s.co o)) (h : step s (.coEnter a o) = some s') :
    ∀ o, CoInv (s'.base.obj o) (s'.co o) := by
  simp only [step] at h
  split at h
  · simp only [Option.some.injEq] at h
    subst h
    co_close
  · simp at h

theorem step_inv_coYield (s s' : St) (a o r : Nat) (hb : Sched.Inv s.base)
    (hi : ∀ o, CoInv (s.base.obj o) (s.co o)) (h : step s (.coYield a o r) = some s') :
    ∀ o, CoInv (s'.base.obj o) (s'.co o) := by
  simp only [step] at h
  split at h
  · simp only [Option.some.injEq] at h
    subst h
    co_close
  · simp at h

theorem step_inv_coResume (s s' : St) (a o : Nat) (hb : Sched.Inv s.base)
    (hi : ∀ o, CoInv (s.base.obj o) (s.co o)) (h : step s (.coResume a o) = some s') :
    ∀ o, CoInv (s'.base.obj o) (s'.co o) := by
  simp only [step] at h
  split at h
  · simp only [Option.some.injEq] at h
    subst h
    co_close
  · simp at h

theorem step_inv_coReturn (s s' : St) (a o r : Nat) (hb : Sched.Inv s.base)
    (hi : ∀ o, CoInv (s.base.obj o) (s.co o)) (h : step s (.coReturn a o r) = some s') :
    ∀ o, CoInv (s'.base.obj o) (s'.co o) := by
  simp only [step] at h
  split at h
  · simp only [Option.some.injEq] at h
    subst h
    co_close
  · simp at h

-- base events: hs is the accepted base step, hc the accepted layer update
set_option hygiene false in
macro "co_base" : tactic => `(tactic| (
  simp only [coBase] at hc
  (try (split at hc <;> first | (simp at hc; done) | skip))
  all_goals (
    simp only [Option.some.injEq] at hc
    subst hc
    simp only [Sched.step] at hs
    repeat' split at hs
    all_goals first | (simp at hs; done) | skip
    all_goals (
      simp only [Option.some.injEq] at hs
      subst hs
      co_close))))

theorem base_new (b b' : Sched.St) (co co' : Nat → Co) (a o : Nat) (w : W) (hb : Sched.Inv b)
    (hi : ∀ o, CoInv (b.obj o) (co o)) (hs : Sched.step b (.new a o w) = some b')
    (hc : coBase co (.new a o w) = some co') : ∀ o, CoInv (b'.obj o) (co' o) := by
  co_base

theorem base_rebind (b b' : Sched.St) (co co' : Nat → Co) (a o : Nat) (w : W) (hb : Sched.Inv b)
    (hi : ∀ o, CoInv (b.obj o) (co o)) (hs : Sched.step b (.rebind a o w) = some b')
    (hc : coBase co (.rebind a o w) = some co') : ∀ o, CoInv (b'.obj o) (co' o) := by
  co_base

theorem base_destroy (b b' : Sched.St) (co co' : Nat → Co) (a o : Nat) (w : W) (hb : Sched.Inv b)
    (hi : ∀ o, CoInv (b.obj o) (co o)) (hs : Sched.step b (.destroy a o w) = some b')
    (hc : coBase co (.destroy a o w) = some co') : ∀ o, CoInv (b'.obj o) (co' o) := by
  co_base

theorem base_push (b b' : Sched.St) (co co' : Nat → Co) (a o : Nat) (hb : Sched.Inv b)
    (hi : ∀ o, CoInv (b.obj o) (co o)) (hs : Sched.step b (.push a o) = some b')
    (hc : coBase co (.push a o) = some co') : ∀ o, CoInv (b'.obj o) (co' o) := by
  co_base

theorem base_got (b b' : Sched.St) (co co' : Nat → Co) (a o : Nat) (w : W) (f : Bool) (hb : Sched.Inv b)
    (hi : ∀ o, CoInv (b.obj o) (co o)) (hs : Sched.step b (.got a o w f) = some b')
    (hc : coBase co (.got a o w f) = some co') : ∀ o, CoInv (b'.obj o) (co' o) := by
  co_base

theorem base_tagged (b b' : Sched.St) (co co' : Nat → Co) (a o : Nat) (x y : W) (hb : Sched.Inv b)
    (hi : ∀ o, CoInv (b.obj o) (co o)) (hs : Sched.step b (.tagged a o x y) = some b')
    (hc : coBase co (.tagged a o x y) = some co') : ∀ o, CoInv (b'.obj o) (co' o) := by
  co_base

theorem base_phaseBegin (b b' : Sched.St) (co co' : Nat → Co) (a o : Nat) (hb : Sched.Inv b)
    (hi : ∀ o, CoInv (b.obj o) (co o)) (hs : Sched.step b (.phaseBegin a o) = some b')
    (hc : coBase co (.phaseBegin a o) = some co') : ∀ o, CoInv (b'.obj o) (co' o) := by
  co_base

theorem base_setex (b b' : Sched.St) (co co' : Nat → Co) (a o : Nat) (x y : W) (hb : Sched.Inv b)
    (hi : ∀ o, CoInv (b.obj o) (co o)) (hs : Sched.step b (.setex a o x y) = some b')
    (hc : coBase co (.setex a o x y) = some co') : ∀ o, CoInv (b'.obj o) (co' o) := by
  co_base

theorem base_phaseEnd (b b' : Sched.St) (co co' : Nat → Co) (a o r : Nat) (hb : Sched.Inv b)
    (hi : ∀ o, CoInv (b.obj o) (co o)) (hs : Sched.step b (.phaseEnd a o r) = some b')
    (hc : coBase co (.phaseEnd a o r) = some co') : ∀ o, CoInv (b'.obj o) (co' o) := by
  co_base

theorem base_restore1 (b b' : Sched.St) (co co' : Nat → Co) (a o : Nat) (x y : W) (hb : Sched.Inv b)
    (hi : ∀ o, CoInv (b.obj o) (co o)) (hs : Sched.step b (.restore1 a o x y) = some b')
    (hc : coBase co (.restore1 a o x y) = some co') : ∀ o, CoInv (b'.obj o) (co' o) := by
  co_base

theorem base_set (b b' : Sched.St) (co co' : Nat → Co) (a o : Nat) (x y : W) (hb : Sched.Inv b)
    (hi : ∀ o, CoInv (b.obj o) (co o)) (hs : Sched.step b (.set a o x y) = some b')
    (hc : coBase co (.set a o x y) = some co') : ∀ o, CoInv (b'.obj o) (co' o) := by
  co_base

theorem base_stsEnter (b b' : Sched.St) (co co' : Nat → Co) (a o n : Nat) (hb : Sched.Inv b)
    (hi : ∀ o, CoInv (b.obj o) (co o)) (hs : Sched.step b (.stsEnter a o n) = some b')
    (hc : coBase co (.stsEnter a o n) = some co') : ∀ o, CoInv (b'.obj o) (co' o) := by
  co_base

theorem base_stsLoad (b b' : Sched.St) (co co' : Nat → Co) (a o : Nat) (w : W) (hb : Sched.Inv b)
    (hi : ∀ o, CoInv (b.obj o) (co o)) (hs : Sched.step b (.stsLoad a o w) = some b')
    (hc : coBase co (.stsLoad a o w) = some co') : ∀ o, CoInv (b'.obj o) (co' o) := by
  co_base

theorem base_restore2 (b b' : Sched.St) (co co' : Nat → Co) (a o : Nat) (x y : W) (hb : Sched.Inv b)
    (hi : ∀ o, CoInv (b.obj o) (co o)) (hs : Sched.step b (.restore2 a o x y) = some b')
    (hc : coBase co (.restore2 a o x y) = some co') : ∀ o, CoInv (b'.obj o) (co' o) := by
  co_base

theorem base_stsNoop (b b' : Sched.St) (co co' : Nat → Co) (a o : Nat) (hb : Sched.Inv b)
    (hi : ∀ o, CoInv (b.obj o) (co o)) (hs : Sched.step b (.stsNoop a o) = some b')
    (hc : coBase co (.stsNoop a o) = some co') : ∀ o, CoInv (b'.obj o) (co' o) := by
  co_base

theorem base_stsHelper (b b' : Sched.St) (co co' : Nat → Co) (a o : Nat) (hb : Sched.Inv b)
    (hi : ∀ o, CoInv (b.obj o) (co o)) (hs : Sched.step b (.stsHelper a o) = some b')
    (hc : coBase co (.stsHelper a o) = some co') : ∀ o, CoInv (b'.obj o) (co' o) := by
  co_base

theorem base_stsDone (b b' : Sched.St) (co co' : Nat → Co) (a o : Nat) (hb : Sched.Inv b)
    (hi : ∀ o, CoInv (b.obj o) (co o)) (hs : Sched.step b (.stsDone a o) = some b')
    (hc : coBase co (.stsDone a o) = some co') : ∀ o, CoInv (b'.obj o) (co' o) := by
  co_base

theorem base_sasLoad (b b' : Sched.St) (co co' : Nat → Co) (a o : Nat) (x y : W) (hb : Sched.Inv b)
    (hi : ∀ o, CoInv (b.obj o) (co o)) (hs : Sched.step b (.sasLoad a o x y) = some b')
    (hc : coBase co (.sasLoad a o x y) = some co') : ∀ o, CoInv (b'.obj o) (co' o) := by
  co_base

theorem base_sasAbort (b b' : Sched.St) (co co' : Nat → Co) (a o : Nat) (hb : Sched.Inv b)
    (hi : ∀ o, CoInv (b.obj o) (co o)) (hs : Sched.step b (.sasAbort a o) = some b')
    (hc : coBase co (.sasAbort a o) = some co') : ∀ o, CoInv (b'.obj o) (co' o) := by
  co_base

theorem base_sasRetry (b b' : Sched.St) (co co' : Nat → Co) (a o : Nat) (hb : Sched.Inv b)
    (hi : ∀ o, CoInv (b.obj o) (co o)) (hs : Sched.step b (.sasRetry a o) = some b')
    (hc : coBase co (.sasRetry a o) = some co') : ∀ o, CoInv (b'.obj o) (co' o) := by
  co_base

theorem base_bodyEnter (b b' : Sched.St) (co co' : Nat → Co) (a o : Nat) (hb : Sched.Inv b)
    (hi : ∀ o, CoInv (b.obj o) (co o)) (hs : Sched.step b (.bodyEnter a o) = some b')
    (hc : coBase co (.bodyEnter a o) = some co') : ∀ o, CoInv (b'.obj o) (co' o) := by
  co_base

theorem base_bodyExit (b b' : Sched.St) (co co' : Nat → Co) (a o : Nat) (hb : Sched.Inv b)
    (hi : ∀ o, CoInv (b.obj o) (co o)) (hs : Sched.step b (.bodyExit a o) = some b')
    (hc : coBase co (.bodyExit a o) = some co') : ∀ o, CoInv (b'.obj o) (co' o) := by
  co_base

theorem step_base_eq (s s' : St) (e : Ev) (h : step s e = some s') :
    (∀ e0, e ≠ .base e0) → s'.base = s.base := by
  intro hne
  cases e with
  | base e0 => exact absurd rfl (hne e0)
  | coEnter a o => simp only [step] at h; split at h <;> simp at h; subst h; rfl
  | coResume a o => simp only [step] at h; split at h <;> simp at h; subst h; rfl
  | coYield a o r => simp only [step] at h; split at h <;> simp at h; subst h; rfl
  | coReturn a o r => simp only [step] at h; split at h <;> simp at h; subst h; rfl

/-- a base event of the layer is a step of the base model -/
theorem step_base (s s' : St) (e : Sched.Ev) (h : step s (.base e) = some s') :
    Sched.step s.base e = some s'.base ∧ coBase s.co e = some s'.co := by
  simp only [step] at h
  cases hs : Sched.step s.base e with
  | none => simp [hs] at h
  | some b' =>
    cases hco : coBase s.co e with
    | none => simp [hs, hco] at h
    | some co' =>
      simp only [hs, hco, Option.some.injEq] at h
      subst h
      exact ⟨rfl, rfl⟩

theorem step_inv (s s' : St) (e : Ev) (hi : Inv s) (h : step s e = some s') : Inv s' := by
  obtain ⟨hb, hc⟩ := hi
  cases e with
  | base e =>
    obtain ⟨hs, hco⟩ := step_base s s' e h
    refine ⟨Sched.step_inv _ _ _ hb hs, ?_⟩
    cases e with
        | new a o w => exact base_new _ _ _ _ _ _ _ hb hc hs hco
        | rebind a o w => exact base_rebind _ _ _ _ _ _ _ hb hc hs hco
        | destroy a o w => exact base_destroy _ _ _ _ _ _ _ hb hc hs hco
        | push a o => exact base_push _ _ _ _ _ _ hb hc hs hco
        | got a o w f => exact base_got _ _ _ _ _ _ _ _ hb hc hs hco
        | tagged a o x y => exact base_tagged _ _ _ _ _ _ _ _ hb hc hs hco
        | phaseBegin a o => exact base_phaseBegin _ _ _ _ _ _ hb hc hs hco
        | setex a o x y => exact base_setex _ _ _ _ _ _ _ _ hb hc hs hco
        | phaseEnd a o r => exact base_phaseEnd _ _ _ _ _ _ _ hb hc hs hco
        | restore1 a o x y => exact base_restore1 _ _ _ _ _ _ _ _ hb hc hs hco
        | set a o x y => exact base_set _ _ _ _ _ _ _ _ hb hc hs hco
        | stsEnter a o n => exact base_stsEnter _ _ _ _ _ _ _ hb hc hs hco
        | stsLoad a o w => exact base_stsLoad _ _ _ _ _ _ _ hb hc hs hco
        | restore2 a o x y => exact base_restore2 _ _ _ _ _ _ _ _ hb hc hs hco
        | stsNoop a o => exact base_stsNoop _ _ _ _ _ _ hb hc hs hco
        | stsHelper a o => exact base_stsHelper _ _ _ _ _ _ hb hc hs hco
        | stsDone a o => exact base_stsDone _ _ _ _ _ _ hb hc hs hco
        | sasLoad a o x y => exact base_sasLoad _ _ _ _ _ _ _ _ hb hc hs hco
        | sasAbort a o => exact base_sasAbort _ _ _ _ _ _ hb hc hs hco
        | sasRetry a o => exact base_sasRetry _ _ _ _ _ _ hb hc hs hco
        | bodyEnter a o => exact base_bodyEnter _ _ _ _ _ _ hb hc hs hco
        | bodyExit a o => exact base_bodyExit _ _ _ _ _ _ hb hc hs hco
  | coEnter a o =>
    have hbe := step_base_eq s s' _ h (by intro e0 hh; cases hh)
    exact ⟨hbe ▸ hb, hbe ▸ step_inv_coEnter s s' a o hb hc h⟩
  | coResume a o =>
    have hbe := step_base_eq s s' _ h (by intro e0 hh; cases hh)
    exact ⟨hbe ▸ hb, hbe ▸ step_inv_coResume s s' a o hb hc h⟩
  | coYield a o r =>
    have hbe := step_base_eq s s' _ h (by intro e0 hh; cases hh)
    exact ⟨hbe ▸ hb, hbe ▸ step_inv_coYield s s' a o r hb hc h⟩
  | coReturn a o r =>
    have hbe := step_base_eq s s' _ h (by intro e0 hh; cases hh)
    exact ⟨hbe ▸ hb, hbe ▸ step_inv_coReturn s s' a o r hb hc h⟩

theorem inv_of_accepted {log : List Ev} {s : St} (h : runLog step init log = some s) : Inv s :=
  inv_of_runLog Inv (fun s e s' => step_inv s s' e) inv_init h

/-- **Projection.**  Erasing the `co.*` events of a log accepted by the layer gives a log accepted
    by the scheduler protocol model, ending in the base component of the final state. -/
theorem base_accepts (log : List Ev) : ∀ (s s' : St), runLog step s log = some s' →
    runLog Sched.step s.base (baseLog log) = some s'.base := by
  induction log with
  | nil => intro s s' h; simp at h; subst h; rfl
  | cons e es ih =>
    intro s s' h
    simp only [runLog] at h
    cases hs : step s e with
    | none => simp [hs] at h
    | some s1 =>
      simp only [hs] at h
      have h2 := ih s1 s' h
      cases e with
      | base e0 =>
        have := (step_base s s1 e0 hs).1
        simp only [baseLog, runLog, this]
        exact h2
      | coEnter a o => rw [step_base_eq s s1 _ hs (by intro e0 hh; cases hh)] at h2; exact h2
      | coResume a o => rw [step_base_eq s s1 _ hs (by intro e0 hh; cases hh)] at h2; exact h2
      | coYield a o r => rw [step_base_eq s s1 _ hs (by intro e0 hh; cases hh)] at h2; exact h2
      | coReturn a o r => rw [step_base_eq s s1 _ hs (by intro e0 hh; cases hh)] at h2; exact h2

end PikaVerif.SchedCo
