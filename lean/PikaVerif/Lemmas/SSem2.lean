import PikaVerif.Lemmas.SSem
/-! Sliding semaphore: the coverage invariant (a satisfiable waiter is always within reach of the
    notifications still to be issued). -/
namespace PikaVerif.SSem
open PikaVerif

theorem mem_drop_succ {α : Type} (x : α) : ∀ (m : List α) (j : Nat), x ∈ m.drop (j + 1) → x ∈ m.drop j := by
  intro m
  induction m with
  | nil => simp
  | cons c m ihm =>
    intro j hj
    cases j with
    | zero => simp at hj ⊢; exact Or.inr hj
    | succ j => simp only [List.drop_succ_cons] at hj ⊢; exact ihm j hj

theorem mem_drop_le {α : Type} (x : α) (m : List α) (j k : Nat) (h : j ≤ k) : x ∈ m.drop k → x ∈ m.drop j := by
  induction h with
  | refl => exact id
  | step _ ih => intro hx; exact ih (mem_drop_succ x m _ hx)

theorem mem_drop_erase {α : Type} [DecidableEq α] (l : List α) (a x : α) (k : Nat) :
    x ∈ (l.erase a).drop k → x ∈ l.drop k := by
  induction l generalizing k with
  | nil => simp
  | cons b l ih =>
    intro h
    by_cases hb : b = a
    · subst hb
      simp only [List.erase_cons_head] at h
      cases k with
      | zero => simp at h ⊢; exact Or.inr h
      | succ k =>
        simp only [List.drop_succ_cons]
        -- h : x ∈ drop (k+1) l ; goal : x ∈ drop k l
        have hsub : ∀ (m : List α) (j : Nat), x ∈ m.drop (j + 1) → x ∈ m.drop j := by
          intro m
          induction m with
          | nil => simp
          | cons c m ihm =>
            intro j hj
            cases j with
            | zero => simp at hj ⊢; exact Or.inr hj
            | succ j => simp only [List.drop_succ_cons] at hj ⊢; exact ihm j hj
        exact hsub l k h
    · rw [List.erase_cons_tail (by simpa using hb)] at h
      cases k with
      | zero =>
        simp at h ⊢
        rcases h with h | h
        · exact Or.inl h
        · exact Or.inr (List.mem_of_mem_erase h)
      | succ k =>
        simp only [List.drop_succ_cons] at h ⊢
        exact ih k h

/-- Every queued waiter beyond the first `budget` positions is not satisfiable. -/
def Cover (s : St) : Prop :=
  ∀ t, t ∈ s.queue.drop (budget s) → ∀ u, ubound (s.pc t) = some u → sat s u = false

theorem cover_init (n : Nat) (d l : Int) : Cover (init n d l) := by
  intro t ht; simp [init] at ht

/-- frame rule: same queue, same limits, the budget did not shrink (or the queue is empty), and
    queued waiters keep their bound -/
theorem cover_frame (s s' : St) (hq : s'.queue = s.queue) (hl : s'.lower = s.lower)
    (hd : s'.maxDiff = s.maxDiff) (hb : budget s ≤ budget s' ∨ s.queue = [])
    (hu : ∀ x, x ∈ s.queue → ubound (s'.pc x) = ubound (s.pc x)) (hc : Cover s) : Cover s' := by
  intro t ht u hub
  rw [hq] at ht
  rcases hb with hb | hb
  · have ht' := mem_drop_le t s.queue _ _ hb ht
    have htq : t ∈ s.queue := List.mem_of_mem_drop ht'
    rw [hu t htq] at hub
    have := hc t ht' u hub
    simpa [sat, hl, hd] using this
  · rw [hb] at ht; simp at ht

attribute [local grind] holds inQ ubound weight setPopped

/-- budget after a single-thread pc update -/
theorem budget_upd (s : St) (t : Nat) (v : Pc) (h : t < s.n) (pc' : Nat → Pc) (hp : pc' = upd s.pc t v) :
    sumTo s.n (fun u => weight (pc' u)) = budget s - weight (s.pc t) + weight v := by
  subst hp; exact sumTo_upd_eq s.n weight s.pc t v h

set_option hygiene false in
macro "cov_frame" t:term : tactic => `(tactic| (
  simp only [step] at h
  obtain ⟨h1,h2,h3,h4,h5,h6,h7⟩ := hi
  split at h
  case isFalse => simp at h
  rename_i hg
  have htn : $t < s.n := by grind
  have hle := le_sumTo (f := fun u => weight (s.pc u)) htn
  repeat' split at h
  all_goals first | (simp at h; done) | skip
  all_goals (
    simp only [Option.some.injEq] at h
    subst h
    refine cover_frame s _ ?hq ?hl ?hd ?hb ?hu hc
    case hq => rfl
    case hl => rfl
    case hd => rfl
    case hb => (simp only [budget]; rw [sumTo_upd_eq _ _ _ _ _ htn]; grind)
    case hu => (intro x hx; have := (h3 x).1 hx; grind [upd]))))

theorem cov_inv (s s' : St) (t : Nat) (o : Op) (hi : Inv1 s) (hc : Cover s) (h : step s (.inv t o) = some s') : Cover s' := by cov_frame t
theorem cov_ret (s s' : St) (t : Nat) (r : Bool) (hi : Inv1 s) (hc : Cover s) (h : step s (.ret t r) = some s') : Cover s' := by cov_frame t
theorem cov_slAcq (s s' : St) (t : Nat) (hi : Inv1 s) (hc : Cover s) (h : step s (.slAcq t) = some s') : Cover s' := by cov_frame t
theorem cov_slRel (s s' : St) (t : Nat) (hi : Inv1 s) (hc : Cover s) (h : step s (.slRel t) = some s') : Cover s' := by cov_frame t
theorem cov_pass (s s' : St) (t : Nat) (u l : Int) (hi : Inv1 s) (hc : Cover s) (h : step s (.pass t u l) = some s') : Cover s' := by cov_frame t
theorem cov_suspend (s s' : St) (t : Nat) (hi : Inv1 s) (hc : Cover s) (h : step s (.suspend t) = some s') : Cover s' := by cov_frame t
theorem cov_woke (s s' : St) (t : Nat) (hi : Inv1 s) (hc : Cover s) (h : step s (.woke t) = some s') : Cover s' := by cov_frame t
theorem cov_done (s s' : St) (t : Nat) (hi : Inv1 s) (hc : Cover s) (h : step s (.done t) = some s') : Cover s' := by cov_frame t
theorem cov_cvNone (s s' : St) (t : Nat) (hi : Inv1 s) (hc : Cover s) (h : step s (.cvNone t) = some s') : Cover s' := by cov_frame t

theorem cov_cvEnq (s s' : St) (t z : Nat) (hi : Inv1 s) (hc : Cover s)
    (h : step s (.cvEnq t z) = some s') : Cover s' := by
  simp only [step] at h
  obtain ⟨h1,h2,h3,h4,h5,h6,h7⟩ := hi
  split at h
  case isFalse => simp at h
  rename_i hg
  have htn : t < s.n := hg.1
  split at h
  case h_2 => simp at h
  rename_i u c hpc
  split at h
  case isFalse => simp at h
  rename_i hsat
  simp only [Option.some.injEq] at h
  subst h
  have hbud : budget { s with queue := s.queue ++ [t], pc := upd s.pc t (.enq u) } = budget s := by
    simp only [budget]; rw [sumTo_upd_eq _ _ _ _ _ htn, hpc]; simp [weight]
  have htq : t ∉ s.queue := by intro hm; have := (h3 t).1 hm; rw [hpc] at this; simp [inQ] at this
  intro x hx v hub
  rw [hbud] at hx
  dsimp only at hx hub ⊢
  by_cases hxt : x = t
  · subst hxt
    simp only [upd_same, ubound, Option.some.injEq] at hub
    subst hub
    simpa [sat] using hsat
  · simp only [upd_other _ _ _ _ hxt] at hub
    have hx' : x ∈ (s.queue.drop (budget s)) := by
      rw [List.drop_append] at hx
      rcases List.mem_append.1 hx with hm | hm
      · exact hm
      · have := List.mem_of_mem_drop hm; simp at this; exact absurd this hxt
    have := hc x hx' v hub
    simpa [sat] using this

theorem cov_cvWoke (s s' : St) (t : Nat) (st : Bool) (hi : Inv1 s) (hc : Cover s)
    (h : step s (.cvWoke t st) = some s') : Cover s' := by
  simp only [step] at h
  obtain ⟨h1,h2,h3,h4,h5,h6,h7⟩ := hi
  split at h
  case isFalse => simp at h
  rename_i hg
  have htn : t < s.n := hg.1
  split at h
  case h_2 => simp at h
  rename_i u popped hpc
  split at h
  case isFalse => simp at h
  split at h
  · -- popped: back to the loop head; queue unchanged
    rename_i hp
    simp only [Option.some.injEq] at h
    subst h
    refine cover_frame s _ ?hq ?hl ?hd ?hb ?hu hc
    case hq => rfl
    case hl => rfl
    case hd => rfl
    case hb => (simp only [budget]; rw [sumTo_upd_eq _ _ _ _ _ htn, hpc]; simp [weight])
    case hu => (intro x hx; have := (h3 x).1 hx; grind [upd, inQ, ubound])
  · -- spurious wake-up: the entry is erased
    rename_i hp
    simp only [Option.some.injEq] at h
    subst h
    have hbud : budget { s with queue := s.queue.erase t, pc := upd s.pc t (.locked u false false) } = budget s := by
      simp only [budget]; rw [sumTo_upd_eq _ _ _ _ _ htn, hpc]; simp [weight]
    intro x hx v hub
    rw [hbud] at hx
    dsimp only at hx hub ⊢
    have hx' := mem_drop_erase s.queue t x _ hx
    by_cases hxt : x = t
    · subst hxt; simp [upd, ubound] at hub
    · simp only [upd_other _ _ _ _ hxt] at hub
      have := hc x hx' v hub
      simpa [sat] using this

theorem cov_sig (s s' : St) (t : Nat) (l : Int) (z : Nat) (hi : Inv1 s) (hc : Cover s)
    (h : step s (.sig t l z) = some s') : Cover s' := by
  simp only [step] at h
  obtain ⟨h1,h2,h3,h4,h5,h6,h7⟩ := hi
  split at h
  case isFalse => simp at h
  rename_i hg
  have htn : t < s.n := hg.1
  have hz : z = s.queue.length := hg.2.2
  split at h
  case h_2 => simp at h
  rename_i l' hpc
  split at h
  case isFalse => simp at h
  simp only [Option.some.injEq] at h
  subst h
  intro x hx v hub
  exfalso
  dsimp only at hx
  by_cases hzp : 0 < z
  · have hbud : s.queue.length ≤ budget { s with lower := l, pc := upd s.pc t (if 0 < z then Pc.sigL 0 z else Pc.sigFin) } := by
      simp only [budget]; rw [sumTo_upd_eq _ _ _ _ _ htn, hpc]; simp [weight, hzp]; omega
    have := List.drop_eq_nil_of_le hbud
    rw [this] at hx; simp at hx
  · have : s.queue = [] := by
      have : s.queue.length = 0 := by omega
      exact List.length_eq_zero_iff.mp this
    rw [this] at hx; simp at hx

theorem cov_popResume (s s' : St) (t z g : Nat) (hi : Inv1 s) (hc : Cover s)
    (h : step s (.popResume t z g) = some s') : Cover s' := by
  simp only [step] at h
  obtain ⟨h1,h2,h3,h4,h5,h6,h7⟩ := hi
  split at h
  case isFalse => simp at h
  rename_i hg
  have htn : t < s.n := hg.1
  split at h
  case h_2 => simp at h
  rename_i i n g' rest hpc hq
  split at h
  case isFalse => simp at h
  rename_i hsz
  obtain ⟨hsz, hgg⟩ := hsz
  subst hgg
  split at h
  case h_2 => simp at h
  rename_i p' hp'
  simp only [Option.some.injEq] at h
  subst h
  have hgq : g' ∈ s.queue := by rw [hq]; simp
  have hginQ := (h3 g').1 hgq
  have hgt : g' ≠ t := by intro he; rw [he, hpc] at hginQ; simp [inQ] at hginQ
  have hgn : g' < s.n := by
    by_cases hcn : s.n ≤ g'
    · have := h2 g' hcn; rw [this] at hginQ; simp [inQ] at hginQ
    · omega
  have hin := h7 t i n hpc
  have hwg : weight (s.pc g') = 0 ∧ weight p' = 0 := by
    unfold setPopped at hp'
    split at hp' <;> simp at hp' <;> subst hp' <;> simp_all [weight]
  have hbud : sumTo s.n (fun u => weight (upd (upd s.pc g' p') t (.sigRes i n (decide (rest ≠ []))) u)) + 1 = budget s := by
    simp only [budget]
    rw [sumTo_upd_eq _ _ _ _ _ htn, sumTo_upd_eq _ _ _ _ _ hgn]
    simp only [upd_other _ _ _ _ (Ne.symm hgt), hpc, hwg.1, hwg.2]
    have e1 : weight (Pc.sigL i n) = n - i := rfl
    have e2 : weight (Pc.sigRes i n (decide (rest ≠ []))) = n - i - 1 := rfl
    have hle := le_sumTo (f := fun u => weight (s.pc u)) htn
    simp only [hpc] at hle
    rw [e1] at hle ⊢
    rw [e2]
    omega
  have hnd : g' ∉ rest := by rw [hq] at h4; exact (List.nodup_cons.1 h4).1
  intro x hx v hub
  dsimp only at hx hub ⊢
  have hx0 : x ∈ rest.drop (budget s - 1) := by
    simp only [budget] at hx
    have : sumTo s.n (fun u => weight (upd (upd s.pc g' p') t (.sigRes i n (decide (rest ≠ []))) u)) = budget s - 1 := by omega
    rw [this] at hx; exact hx
  have hbpos : 1 ≤ budget s := by omega
  have hx' : x ∈ s.queue.drop (budget s) := by
    rw [hq]
    have : budget s = (budget s - 1) + 1 := by omega
    rw [this, List.drop_succ_cons]; exact hx0
  have hxr : x ∈ rest := List.mem_of_mem_drop hx0
  have hxg : x ≠ g' := by intro he; rw [he] at hxr; exact hnd hxr
  have hxt : x ≠ t := by
    intro he; subst he
    have : x ∈ s.queue := by rw [hq]; exact List.mem_cons_of_mem _ hxr
    have := (h3 x).1 this; rw [hpc] at this; simp [inQ] at this
  simp only [upd_other _ _ _ _ hxt, upd_other _ _ _ _ hxg] at hub
  have := hc x hx' v hub
  simpa [sat] using this

theorem step_cover (s s' : St) (e : Ev) (hi : Inv1 s) (hc : Cover s) (h : step s e = some s') : Cover s' := by
  cases e with
  | inv t o => exact cov_inv s s' t o hi hc h
  | ret t r => exact cov_ret s s' t r hi hc h
  | slAcq t => exact cov_slAcq s s' t hi hc h
  | slRel t => exact cov_slRel s s' t hi hc h
  | cvEnq t z => exact cov_cvEnq s s' t z hi hc h
  | popResume t z g => exact cov_popResume s s' t z g hi hc h
  | cvNone t => exact cov_cvNone s s' t hi hc h
  | cvWoke t a => exact cov_cvWoke s s' t a hi hc h
  | pass t u l => exact cov_pass s s' t u l hi hc h
  | sig t l z => exact cov_sig s s' t l z hi hc h
  | suspend t => exact cov_suspend s s' t hi hc h
  | woke t => exact cov_woke s s' t hi hc h
  | done t => exact cov_done s s' t hi hc h

def LockConv (s : St) : Prop := ∀ r, s.lock = some r → holds (s.pc r) = true ∧ r < s.n

theorem lockconv_init (n : Nat) (d l : Int) : LockConv (init n d l) := by
  intro r h; simp [init] at h

attribute [local grind] holds setPopped

theorem step_lockconv (s s' : St) (e : Ev) (hi : Inv1 s) (hc : LockConv s) (h : step s e = some s') : LockConv s' := by
  have hl := hi.lockHolder
  cases e <;> simp only [step] at h <;> (repeat' split at h) <;>
    first
    | (simp at h; done)
    | (simp only [Option.some.injEq] at h; subst h; intro r hr; have := hc r; dsimp only at hr ⊢; grind [upd])

theorem inv_of_accepted {n : Nat} {d l : Int} {log : List Ev} {s : St}
    (h : runLog step (init n d l) log = some s) : Inv1 s ∧ Cover s ∧ LockConv s := by
  have : ∀ (log : List Ev) (s0 s : St), Inv1 s0 ∧ Cover s0 ∧ LockConv s0 → runLog step s0 log = some s →
      Inv1 s ∧ Cover s ∧ LockConv s := by
    intro log
    induction log with
    | nil => intro s0 s h0 h; simp at h; exact h ▸ h0
    | cons e es ih =>
      intro s0 s h0 h
      simp only [runLog] at h
      cases hs : step s0 e with
      | none => simp [hs] at h
      | some s1 =>
        simp only [hs] at h
        exact ih s1 s ⟨step_inv1 s0 s1 e h0.1 hs, step_cover s0 s1 e h0.1 h0.2.1 hs,
          step_lockconv s0 s1 e h0.1 h0.2.2 hs⟩ h
  exact this log _ s ⟨inv1_init n d l, cover_init n d l, lockconv_init n d l⟩ h

end PikaVerif.SSem
