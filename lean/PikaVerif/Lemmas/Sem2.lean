import PikaVerif.Lemmas.Sem
/-! Second group of invariants of the semaphore model (results, operation bookkeeping). -/
namespace PikaVerif.Sem
open PikaVerif

/-- What `tookOp` must be at each program counter. -/
def expectTook : Pc → Option Bool
  | .idle | .fin => none
  | .taken => some true
  | .retn r => some r
  | _ => some false

def isRel : Op → Bool
  | .rel _ => true
  | _ => false

/-- Which operation a program counter belongs to (where the pc determines it). -/
def pcOpOk : Pc → Op → Bool
  | .want o, c | .locked o _, c => decide (o = c)
  | .relL _ _, c | .relRes _ _ _, c | .relNL _ _, c | .relFin, c => isRel c
  | .enq tm, c | .unl tm _, c | .wokeNL tm _, c | .relk tm _, c => if tm then decide (c = .timed) else decide (c = .acq)
  | .susp _, c => decide (c = .acq)
  | .slp _, c => decide (c = .timed)
  | .failing, c => decide (c = .timed)
  | _, _ => true

structure Inv2 (s : St) : Prop where
  nonneg : 0 ≤ s.init → 0 ≤ s.value
  lockConv : ∀ r, s.lock = some r → holds (s.pc r) = true ∧ r < s.n
  carryOps : ∀ t o, s.pc t = .locked o true → o = .acq ∨ o = .timed
  result : ∀ t b, expectTook (s.pc t) = some b → s.tookOp t = b
  opOk : ∀ t, pcOpOk (s.pc t) (s.curOp t) = true
  timedFalse : ∀ t, s.curOp t = .timed → (s.pc t = .failing ∨ s.pc t = .retn false) →
      s.sawTimeout t = true

theorem inv2_init (n : Nat) (v : Int) : Inv2 (init n v) := by
  refine ⟨?_, ?_, ?_, ?_, ?_, ?_⟩ <;> simp [init, expectTook, pcOpOk]

attribute [local grind] holds expectTook pcOpOk isRel setPopped

set_option hygiene false in
macro "sem_step2" : tactic => `(tactic| (
  simp only [step] at h
  obtain ⟨h1,h2,h3,h4,h5,h6⟩ := hi
  split at h
  case isFalse => simp at h
  rename_i hg
  repeat' split at h
  all_goals first | (simp at h; done) | skip
  all_goals (
    simp only [Option.some.injEq] at h
    subst h
    refine ⟨?_, ?_, ?_, ?_, ?_, ?_⟩ <;> dsimp only
  )
  all_goals first
    | assumption
    | (intro u; grind [upd])
    | grind [upd]))

theorem setPopped_facts {p p' : Pc} (h : setPopped p = some p') :
    holds p' = false ∧ holds p = false ∧ expectTook p' = expectTook p ∧ (∀ c, pcOpOk p' c = pcOpOk p c) ∧
    (∀ o b, p' ≠ .locked o b) ∧ p' ≠ .failing ∧ (∀ r, p' ≠ .retn r) := by
  unfold setPopped at h
  split at h <;> simp at h <;> subst h <;> simp [holds, expectTook, pcOpOk]

theorem step_inv2_popResume (s s' : St) (t z g : Nat) (d : Bool) (hA : Inv s) (hi : Inv2 s)
    (h : step s (.popResume t z g d) = some s') : Inv2 s' := by
  have hl := hA.lockHolder
  simp only [step] at h
  obtain ⟨h1,h2,h3,h4,h5,h6⟩ := hi
  split at h
  case isFalse => simp at h
  rename_i hg
  split at h
  case h_2 => simp at h
  rename_i i n g' rest hpc hq
  split at h
  case isFalse => simp at h
  rename_i hsz
  obtain ⟨hsz, hgg⟩ := hsz
  subst hgg
  split at h
  case h_2 => simp at h
  rename_i p' hp'
  obtain ⟨f1, f2, f3, f4, f5, f6, f7⟩ := setPopped_facts hp'
  have hgt : g' ≠ t := by
    intro he; rw [he, hpc] at f2; simp [holds] at f2
  split at h
  case isFalse => simp at h
  simp only [Option.some.injEq] at h
  subst h
  refine ⟨?_, ?_, ?_, ?_, ?_, ?_⟩ <;> dsimp only
  · exact h1
  · intro r hr; have := h2 r hr; grind [upd]
  · intro u o hu
    by_cases hut : u = t
    · subst hut; simp [upd] at hu
    · by_cases hug : u = g'
      · subst hug; simp [upd, hut] at hu; exact absurd hu (f5 o true)
      · simp [upd, hut, hug] at hu; exact h3 u o hu
  · intro u b hu
    by_cases hut : u = t
    · subst hut; simp [upd, expectTook] at hu; subst hu; have := h4 u false; rw [hpc] at this; exact this rfl
    · by_cases hug : u = g'
      · subst hug; simp [upd, hut] at hu; rw [f3] at hu; exact h4 u b hu
      · simp [upd, hut, hug] at hu; exact h4 u b hu
  · intro u
    by_cases hut : u = t
    · subst hut; have := h5 u; rw [hpc] at this; simpa [upd, pcOpOk] using this
    · by_cases hug : u = g'
      · subst hug; simp [upd, hut]; rw [f4]; exact h5 u
      · simp [upd, hut, hug]; exact h5 u
  · intro u hc hu
    by_cases hut : u = t
    · subst hut; simp [upd] at hu
    · by_cases hug : u = g'
      · subst hug; simp [upd, hut] at hu; rcases hu with hu | hu
        · exact absurd hu f6
        · exact absurd hu (f7 false)
      · simp [upd, hut, hug] at hu; exact h6 u hc hu

theorem step_inv2 (s s' : St) (e : Ev) (hA : Inv s) (hi : Inv2 s) (h : step s e = some s') : Inv2 s' := by
  have hl := hA.lockHolder
  cases e with
  | inv t o => sem_step2
  | ret t r => sem_step2
  | slAcq t => sem_step2
  | slRel t => sem_step2
  | cvEnq t z b => sem_step2
  | popResume t z g d => exact step_inv2_popResume s s' t z g d hA hi h
  | cvNone t => sem_step2
  | cvWoke t a b => sem_step2
  | take t v => sem_step2
  | add t v c => sem_step2
  | suspend t => sem_step2
  | woke t => sem_step2
  | sleep t => sem_step2
  | timeout t => sem_step2
  | done t => sem_step2

theorem inv2_of_accepted {n : Nat} {v : Int} {log : List Ev} {s : St}
    (h : runLog step (init n v) log = some s) : Inv s ∧ Inv2 s := by
  have : ∀ (log : List Ev) (s0 s : St), Inv s0 ∧ Inv2 s0 → runLog step s0 log = some s → Inv s ∧ Inv2 s := by
    intro log
    induction log with
    | nil => intro s0 s h0 h; simp at h; exact h ▸ h0
    | cons e es ih =>
      intro s0 s h0 h
      simp only [runLog] at h
      cases hs : step s0 e with
      | none => simp [hs] at h
      | some s1 =>
        simp only [hs] at h
        exact ih s1 s ⟨step_inv s0 s1 e h0.1 hs, step_inv2 s0 s1 e h0.1 h0.2 hs⟩ h
  exact this log _ s ⟨inv_init n v, inv2_init n v⟩ h

end PikaVerif.Sem
