import PikaVerif.Lemmas.CVT2
import PikaVerif.Lemmas.CV4
/-!
# Finite programs over the condition-variable model (C07t)

A *program* gives every thread a finite list of operations.  `pstep` is the model's `step`
restricted to the logs of that program: `inv t o` must be the next operation of thread `t`
(which is consumed), `done t` needs the thread's list to be empty, every other event is passed
to `step` unchanged.  `phi` = `mu` + the potential of the operations not yet started decreases
with **every** accepted event, so an accepted log of a program is at most `bound` long.
-/
namespace PikaVerif.CV
open PikaVerif

structure PSt where
  s : St
  prog : Nat → List Op

def pstep (p : PSt) (e : Ev) : Option PSt :=
  match e with
  | .inv t o =>
    match p.prog t with
    | o' :: rest =>
      if o' = o then (step p.s (.inv t o)).map (fun s' => ⟨s', upd p.prog t rest⟩) else none
    | [] => none
  | .done t => if p.prog t = [] then (step p.s (.done t)).map (fun s' => ⟨s', p.prog⟩) else none
  | e => (step p.s e).map (fun s' => ⟨s', p.prog⟩)

def pinit (n : Nat) (f : Bool) (prog : Nat → List Op) : PSt := ⟨init n f, prog⟩

/-- every accepted program step is an accepted model step -/
theorem pstep_step (p p' : PSt) (e : Ev) (h : pstep p e = some p') : step p.s e = some p'.s := by
  cases e <;> simp only [pstep] at h <;> (repeat' split at h) <;>
    first
    | (simp at h; done)
    | (simp only [Option.map_eq_some_iff] at h; obtain ⟨s', h1, h2⟩ := h; subst h2; simpa using h1)
    | (subst_vars; simp only [Option.map_eq_some_iff] at h; obtain ⟨s', h1, h2⟩ := h; subst h2; simpa using h1)

/-- the program only changes at `inv` -/
theorem pstep_prog (p p' : PSt) (e : Ev) (hne : ∀ t o, e ≠ .inv t o) (h : pstep p e = some p') :
    p'.prog = p.prog := by
  cases e <;> simp only [pstep] at h <;> (repeat' split at h) <;>
    first
    | (simp at h; done)
    | (exact absurd rfl (hne _ _))
    | (simp only [Option.map_eq_some_iff] at h; obtain ⟨s', h1, h2⟩ := h; subst h2; rfl)

theorem pstep_inv (p p' : PSt) (t : Nat) (o : Op) (h : pstep p (.inv t o) = some p') :
    ∃ rest, p.prog t = o :: rest ∧ p'.prog = upd p.prog t rest ∧ t < p.s.n := by
  have hs := pstep_step p p' _ h
  simp only [pstep] at h
  split at h
  · rename_i o' rest hp
    split at h
    · rename_i ho; subst ho
      simp only [Option.map_eq_some_iff] at h; obtain ⟨s', h1, h2⟩ := h; subst h2
      refine ⟨rest, hp, rfl, ?_⟩
      simp only [step] at h1; split at h1
      · rename_i hg; exact hg.1
      · simp at h1
    · simp at h
  · simp at h

theorem runLog_pstep_step (log : List Ev) : ∀ (p p' : PSt), runLog pstep p log = some p' →
    runLog step p.s log = some p'.s := by
  induction log with
  | nil => intro p p' h; simp at h; subst h; simp
  | cons e es ih =>
    intro p p' h
    simp only [runLog] at h ⊢
    cases hs : pstep p e with
    | none => simp [hs] at h
    | some p1 =>
      simp only [hs] at h
      rw [pstep_step p p1 e hs]
      exact ih p1 p' h

/-- potential of the operations a thread has not started yet (in a system of `N` threads) -/
def progCost (N : Nat) : List Op → Nat
  | [] => 0
  | o :: l => opCost N o + 1 + progCost N l

/-- the measure on program states -/
def phi (p : PSt) : Nat := mu p.s + sumTo p.s.n (fun t => progCost p.s.n (p.prog t))

/-- the invariants the measure argument needs -/
def Good (s : St) : Prop := Inv s ∧ Inv2 s

theorem good_init (n : Nat) (f : Bool) : Good (init n f) := ⟨inv_init n f, inv2_init n f⟩

theorem good_step (s s' : St) (e : Ev) (hg : Good s) (h : step s e = some s') : Good s' :=
  ⟨step_inv s s' e hg.1 h, step_inv2 s s' e hg.1 hg.2 h⟩

/-- **Every accepted event of a program strictly decreases `phi`.** -/
theorem phi_step (p p' : PSt) (e : Ev) (hr : Good p.s) (h : pstep p e = some p') : phi p' < phi p := by
  have hs := pstep_step p p' e h
  have hn := step_n _ _ _ hs
  by_cases hinv : ∃ t o, e = .inv t o
  · obtain ⟨t, o, he⟩ := hinv
    subst he
    obtain ⟨rest, hp, hp', htn⟩ := pstep_inv p p' t o h
    have hm := mu_inv _ _ _ _ hs
    simp only [phi, hn, hp']
    have := sumTo_upd p.s.n (progCost p.s.n) p.prog t rest htn
    rw [hp] at this
    simp only [progCost] at this
    omega
  · have hne : ∀ t o, e ≠ .inv t o := fun t o he => hinv ⟨t, o, he⟩
    have hm := mu_step _ _ _ hr.1 hr.2 hne hs
    have hp := pstep_prog p p' e hne h
    simp only [phi, hn, hp]
    omega

/-- explicit bound on the number of events of a program with `n` threads: 1 per thread (`done`)
    + per operation: 2 for lock / unlock / set, 33 for notify_one, `29 n + 6` for notify_all,
    19 / 20 for a plain / predicate wait (timed or not), `29 n + 32` for a stop-token wait,
    4 for request_stop -/
def bound (n : Nat) (prog : Nat → List Op) : Nat := n + sumTo n (fun t => progCost n (prog t))

theorem phi_pinit (n : Nat) (f : Bool) (prog : Nat → List Op) : phi (pinit n f prog) = bound n prog := by
  simp only [phi, pinit, mu, init, bound, cbW]
  have h1 : sumTo n (wt (init n f)) = n := by
    have : ∀ k, sumTo k (wt (init n f)) = k := by
      intro k
      induction k with
      | zero => rfl
      | succ k ih => simp only [sumTo_succ, ih]; simp [wt, init, rank]
    exact this n
  simp only [init] at h1
  rw [h1]; omega

theorem runLog_phi (log : List Ev) : ∀ (p p' : PSt), Good p.s → runLog pstep p log = some p' →
    log.length + phi p' ≤ phi p ∧ Good p'.s := by
  induction log with
  | nil => intro p p' hr h; simp at h; subst h; simp [hr]
  | cons e es ih =>
    intro p p' hr h
    simp only [runLog] at h
    cases hs : pstep p e with
    | none => simp [hs] at h
    | some p1 =>
      simp only [hs] at h
      have h1 := phi_step p p1 e hr hs
      have hr1 := good_step _ _ _ hr (pstep_step p p1 e hs)
      have h2 := ih p1 p' hr1 h
      simp only [List.length_cons]
      exact ⟨by omega, h2.2⟩

/-- no event at all is accepted: the run is maximal -/
def PStuck (p : PSt) : Prop := ∀ e, pstep p e = none

/-- every state of a program can be run to a maximal (stuck) state -/
theorem exists_maximal_from : ∀ (k : Nat) (p : PSt), Good p.s → phi p ≤ k →
    ∃ ext p', runLog pstep p ext = some p' ∧ PStuck p' := by
  intro k
  induction k with
  | zero =>
    intro p hr hk
    refine ⟨[], p, rfl, ?_⟩
    intro e
    cases he : pstep p e with
    | none => rfl
    | some p1 => have := phi_step p p1 e hr he; omega
  | succ k ih =>
    intro p hr hk
    by_cases hst : PStuck p
    · exact ⟨[], p, rfl, hst⟩
    · have : ∃ e, pstep p e ≠ none := Classical.byContradiction (fun hc => hst (fun e =>
        Classical.byContradiction (fun hn => hc ⟨e, hn⟩)))
      obtain ⟨e, he⟩ := this
      cases hp1 : pstep p e with
      | none => exact absurd hp1 he
      | some p1 =>
        have hlt := phi_step p p1 e hr hp1
        have hr1 := good_step _ _ _ hr (pstep_step p p1 e hp1)
        obtain ⟨ext, p', hrun, hstuck⟩ := ih p1 hr1 (by omega)
        refine ⟨e :: ext, p', ?_, hstuck⟩
        simp only [runLog, hp1]; exact hrun

/-- a finished thread has no operation left -/
def FinOk (p : PSt) : Prop := ∀ t, p.s.pc t = .fin → p.prog t = []

end PikaVerif.CV
