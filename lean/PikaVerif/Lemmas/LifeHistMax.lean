import PikaVerif.Lemmas.LifeHistInvA
/-! Final states of maximal runs of life-cycle histories (C05t). -/
namespace PikaVerif.Life
open PikaVerif

/-- no event that makes progress is accepted (only the stutters are) -/
def Maximal (h : HSt) : Prop := ∀ e h', hstep h e = some h' → neutral e = true

theorem not_max {h : HSt} (e : Ev) (hs : (hstep h e).isSome = true) (hn : neutral e = false) : ¬ Maximal h := by
  intro hm
  cases hh : hstep h e with
  | none => rw [hh] at hs; cases hs
  | some h' => have := hm e h' hh; rw [hn] at this; cases this

theorem exists_lt_of_sumTo_lt {n : Nat} {f g : Nat → Nat} (h : sumTo n f < sumTo n g) : ∃ t, t < n ∧ f t < g t := by
  induction n with
  | zero => simp at h
  | succ k ih =>
    simp only [sumTo_succ] at h
    by_cases hk : f k < g k
    · exact ⟨k, by omega, hk⟩
    · obtain ⟨t, ht, hlt⟩ := ih (by omega)
      exact ⟨t, by omega, hlt⟩

theorem sumTo_one (n : Nat) : sumTo n (fun _ => 1) = n := by
  induction n with
  | zero => rfl
  | succ k ih => simp only [sumTo_succ, ih]

theorem cur_none_of_not_worker {s : St} (hi : Inv s) {a : Nat} (hw : s.worker a = false) : s.cur a = none := by
  cases hc : s.cur a with
  | none => rfl
  | some o =>
    have := (hi.curWorker a (by rw [hc]; rfl)).1
    rw [hw] at this; cases this

theorem worker0 {h : HSt} (ha : HInvA h) : h.s.worker 0 = false := by
  cases hw : h.s.worker 0 with
  | false => rfl
  | true => have := (ha.canon 0 hw).1; omega

/-- an actor inside a phase can always go on: enter the body, leave it, or end the last phase -/
theorem prog_inphase {h : HSt} (hi : Inv h.s) (ha : HInvA h) {a o : Nat} (hc : h.s.cur a = some o) : ¬ Maximal h := by
  have hl := hi.curLive a o hc
  have hana : a < h.s.na := hi.workerBound a (hi.curWorker a (by rw [hc]; rfl)).1
  have hle := ha.tpLe o hl.1
  have hout := ha.tpOut o hl.1
  have h035 : ¬ (h.tp o = 0 ∨ h.tp o = 3 ∨ h.tp o = 5) := by
    intro hx; have := hout hx; rw [hl.2] at this; cases this
  have : h.tp o = 1 ∨ h.tp o = 2 ∨ h.tp o = 4 := by omega
  rcases this with h1 | h2 | h4
  · exact not_max (.body a o) (by simp [hstep, step, led, hana, hc, h1]) rfl
  · exact not_max (.body a o) (by simp [hstep, step, led, hana, hc, h2]) rfl
  · exact not_max (.phaseEnd a o) (by simp [hstep, step, led, hana, hc, h4]) rfl

theorem live_of_pos {s : St} {o : Nat} (h : 0 < b2n (s.live o)) : s.live o = true := by
  cases hl : s.live o with
  | true => rfl
  | false => rw [hl] at h; simp [b2n] at h

/-- a free thread-object slot exists while a creation is in flight -/
theorem free_slot {h : HSt} (hi : Inv h.s) (ha : HInvA h) (hc : 0 < h.s.creating) :
    ∃ o, o < h.s.no ∧ h.s.live o = false := by
  have h1 := hi.count
  have h2 := hi.history
  have h3 := ha.slots
  have hlt : sumTo h.s.no (fun o => b2n (h.s.live o)) < sumTo h.s.no (fun _ => 1) := by
    rw [sumTo_one]; simp only [nlive] at h1; omega
  obtain ⟨o, ho, hlt⟩ := exists_lt_of_sumTo_lt hlt
  refine ⟨o, ho, ?_⟩
  cases hl : h.s.live o with
  | false => rfl
  | true => rw [hl] at hlt; simp [b2n] at hlt

/-- the anonymous sections of a unit's life (creation in flight, staged description, destruction in
    flight) and the destruction of a terminated task can always go on, in every phase -/
theorem prog_anon {h : HSt} (hi : Inv h.s) (ha : HInvA h) (hna : 0 < h.s.na)
    (hx : 0 < h.s.creating ∨ 0 < h.s.staged ∨ 0 < h.s.destroying ∨ ∃ o, h.s.live o = true ∧ h.tp o = 5) :
    ¬ Maximal h := by
  rcases hx with hc | hs | hd | ⟨o, hl, h5⟩
  · obtain ⟨o, ho, hl⟩ := free_slot hi ha hc
    exact not_max (.new 0 o) (by simp [hstep, step, led, hna, ho, hl, hc]) rfl
  · exact not_max (.unstage 0) (by simp [hstep, step, led, hna, hs]) rfl
  · have h1 := hi.count
    exact not_max (.dec 0 (h.s.cnt - 1)) (by
      have : h.s.cnt - 1 + 1 = h.s.cnt := by omega
      simp [hstep, step, led, hna, hd, this]) rfl
  · have ho := hi.liveBound o hl
    have hr := ha.tpOut o hl (Or.inr (Or.inr h5))
    exact not_max (.destroy 0 o) (by simp [hstep, step, led, hna, ho, hl, hr, h5]) rfl

/-- **Queued work runs on a running runtime.**  With the runtime in phase `running` and a non-zero
    activity count some progress event is accepted. -/
theorem prog_running {h : HSt} (hi : Inv h.s) (ha : HInvA h) (hb : HInvB h) (hph : h.s.ph = .running)
    (hcnt : 0 < h.s.cnt) : ¬ Maximal h := by
  intro hm
  have hth := hb.thOk (Or.inr (by rw [hph]; simp))
  have hna : 0 < h.s.na := by omega
  have hcr : ¬ 0 < h.s.creating := fun hx => prog_anon hi ha hna (Or.inl hx) hm
  have hst : ¬ 0 < h.s.staged := fun hx => prog_anon hi ha hna (Or.inr (Or.inl hx)) hm
  have hde : ¬ 0 < h.s.destroying := fun hx => prog_anon hi ha hna (Or.inr (Or.inr (Or.inl hx))) hm
  have h5 : ∀ o, h.s.live o = true → h.tp o ≠ 5 := fun o hl h5 =>
    prog_anon hi ha hna (Or.inr (Or.inr (Or.inr ⟨o, hl, h5⟩))) hm
  have hcur : ∀ a, h.s.cur a = none := by
    intro a
    cases hc : h.s.cur a with
    | none => rfl
    | some o => exact absurd hm (prog_inphase hi ha hc)
  have h1 := hi.count
  have hnl : 0 < sumTo h.s.no (fun o => b2n (h.s.live o)) := by simp only [nlive] at h1; omega
  obtain ⟨o, ho, hpos⟩ := exists_pos_of_sumTo_pos hnl
  have hl := live_of_pos hpos
  have hle := ha.tpLe o hl
  have hin : ¬ (h.tp o = 1 ∨ h.tp o = 2 ∨ h.tp o = 4) := by
    intro hx; have := ha.tpIn o hl hx; rw [hcur] at this; cases this
  have h5' := h5 o hl
  have h03 : h.tp o = 0 ∨ h.tp o = 3 := by omega
  have hrun := ha.tpOut o hl (by omega)
  -- an idle, awake worker
  have hnw : h.s.nworkers = h.s.cfg.th := hi.cfgWorkers (by rw [hph]; simp) (by rw [hph]; simp)
  have hcfg := hb.thCfg (by rw [hph]; simp)
  have hwpos : 0 < sumTo h.s.na (fun a => b2n (h.s.worker a)) := by rw [← hi.nworkersSum]; omega
  obtain ⟨a, hana, hwp⟩ := exists_pos_of_sumTo_pos hwpos
  have hw : h.s.worker a = true := by
    cases hw : h.s.worker a with
    | true => rfl
    | false => rw [hw] at hwp; simp [b2n] at hwp
  have hns : h.s.nsleep = 0 := hi.awake (by rw [hph]; simp) (by rw [hph]; simp) (by rw [hph]; simp) (by rw [hph]; simp)
  have hsl : h.s.asleep a = false := by
    cases hs : h.s.asleep a with
    | false => rfl
    | true =>
      have := le_sumTo (f := fun a => b2n (h.s.asleep a)) hana
      rw [← hi.nsleepSum, hns] at this
      simp [hs, b2n] at this
  rcases h03 with h0 | h3
  · exact not_max (.phaseBegin a o) (by simp [hstep, step, led, hana, ho, hl, hrun, hcur, hw, hsl, h0]) rfl hm
  · exact not_max (.phaseBegin a o) (by simp [hstep, step, led, hana, ho, hl, hrun, hcur, hw, hsl, h3]) rfl hm

theorem prog_start1 {h : HSt} (hb : HInvB h) (hc : h.cpc = .start1) : ¬ Maximal h := by
  have h1 := hb.start1 hc
  have h2 := hb.thOk (Or.inl hc)
  have hna : 0 < h.s.na := by omega
  exact not_max (.rtState 0 rsInitialized) (by simp [rsInitialized, rsPreStartup, rsStartup, rsPreMain, rsRunning, rsSleeping, rsStopped, hstep, step, led, hna, h1.1, hc]) rfl

theorem prog_start2 {h : HSt} (hi : Inv h.s) (ha : HInvA h) (hb : HInvB h) (hc : h.cpc = .start2) : ¬ Maximal h := by
  have hph := hb.start2.1 hc
  have hw := (hb.start2w hph).1
  have hth := hb.thOk (Or.inr (by rw [hph]; simp))
  have hcfg := hb.thCfg (by rw [hph]; simp)
  have hna : 0 < h.s.na := by omega
  by_cases hwl : 0 < h.wleft
  · have hnw : h.s.worker (h.s.nworkers + 1) = false := by
      cases hx : h.s.worker (h.s.nworkers + 1) with
      | false => rfl
      | true => have := (ha.canon _ hx).2; omega
    have hcur := cur_none_of_not_worker hi hnw
    have hlt : h.s.nworkers + 1 < h.s.na := by omega
    exact not_max (.worker (h.s.nworkers + 1)) (by simp [hstep, step, led, hlt, hph, hnw, hcur, hc, hwl]) rfl
  · have hnw : h.s.nworkers = h.s.cfg.th := by omega
    exact not_max (.rtState 0 rsRunning) (by simp [rsInitialized, rsPreStartup, rsStartup, rsPreMain, rsRunning, rsSleeping, rsStopped, hstep, step, led, hna, hph, hnw, hc]) rfl

theorem prog_susp {h : HSt} (hi : Inv h.s) (ha : HInvA h) (hb : HInvB h) (hc : h.cpc = .susp) : ¬ Maximal h := by
  intro hm
  have hph := hb.susp.1 hc
  have hth := hb.thOk (Or.inr (by rw [hph]; simp))
  have hna : 0 < h.s.na := by omega
  have hcur : ∀ a, h.s.cur a = none := by
    intro a
    cases hc : h.s.cur a with
    | none => rfl
    | some o => exact absurd hm (prog_inphase hi ha hc)
  have hle : h.s.nsleep ≤ h.s.nworkers := by
    rw [hi.nsleepSum, hi.nworkersSum]
    apply sumTo_le_sumTo
    intro a _
    cases hs : h.s.asleep a with
    | false => simp [b2n]
    | true => rw [hi.asleepWorker a hs]; exact Nat.le_refl _
  by_cases hlt : h.s.nsleep < h.s.nworkers
  · have hlt0 := hlt
    rw [hi.nsleepSum, hi.nworkersSum] at hlt
    obtain ⟨a, hana, hlt⟩ := exists_lt_of_sumTo_lt hlt
    have hw : h.s.worker a = true := by
      cases hw : h.s.worker a with
      | true => rfl
      | false => rw [hw] at hlt; simp [b2n] at hlt
    have hs : h.s.asleep a = false := by
      cases hs : h.s.asleep a with
      | false => rfl
      | true => rw [hs, hw] at hlt; simp at hlt
    have hts : 0 < h.toSleep := by
      have := hb.suspw hph
      omega
    exact not_max (.sleep a) (by simp [hstep, step, led, hana, hph, hw, hs, hcur, hts]) rfl hm
  · have heq : h.s.nsleep = h.s.nworkers := by omega
    exact not_max (.rtState 0 rsSleeping) (by simp [rsInitialized, rsPreStartup, rsStartup, rsPreMain, rsRunning, rsSleeping, rsStopped, hstep, step, led, hna, hph, heq, hc]) rfl hm

theorem exists_asleep {h : HSt} (hi : Inv h.s) (hpos : 0 < h.s.nsleep) : ∃ b, b < h.s.na ∧ h.s.asleep b = true := by
  rw [hi.nsleepSum] at hpos
  obtain ⟨b, hb, hp⟩ := exists_pos_of_sumTo_pos hpos
  refine ⟨b, hb, ?_⟩
  cases hs : h.s.asleep b with
  | true => rfl
  | false => rw [hs] at hp; simp [b2n] at hp

theorem prog_res {h : HSt} (hi : Inv h.s) (hb : HInvB h) (hc : h.cpc = .res) : ¬ Maximal h := by
  have hph := hb.res.1 hc
  have hth := hb.thOk (Or.inr (by rw [hph]; simp))
  have hna : 0 < h.s.na := by omega
  by_cases hpos : 0 < h.s.nsleep
  · obtain ⟨b, hbn, hs⟩ := exists_asleep hi hpos
    have hw := hb.wakew (Or.inl hph)
    have htw : 0 < h.toWake := by omega
    exact not_max (.wake b) (by simp [hstep, step, led, hbn, hph, hs, htw]) rfl
  · have h0 : h.s.nsleep = 0 := by omega
    exact not_max (.rtState 0 rsRunning) (by simp [rsInitialized, rsPreStartup, rsStartup, rsPreMain, rsRunning, rsSleeping, rsStopped, hstep, step, led, hna, hph, h0, hc]) rfl

/-- inside `stop()`: every step of the stop path is enabled, except the drain check while units remain -/
theorem prog_stop {h : HSt} (hi : Inv h.s) (ha : HInvA h) (hb : HInvB h) (hc : h.cpc = .stop)
    (hx : h.s.spc = .waitedFin → h.s.cnt = 0) : ¬ Maximal h := by
  have hout := hb.stop.1 hc
  have hsome := hi.stopperSome hout
  have hst : h.s.stopper = some 0 := by
    cases hs : h.s.stopper with
    | none => rw [hs] at hsome; cases hsome
    | some a => rw [hb.stopper0 a hs]
  have hna := hi.stopperBound 0 hst
  have hfin := hb.stopFin hc
  have hcur0 : h.s.cur 0 = none := cur_none_of_not_worker hi (worker0 ha)
  cases hspc : h.s.spc with
  | out => exact absurd hspc hout
  | entered => exact not_max (.waitFin 0) (by simp [hstep, step, led, hst, hspc, hfin.1, hc]) rfl
  | waitedFin =>
    have hcnt := hx hspc
    have hph : h.s.ph = .running ∨ h.s.ph = .suspended := by
      rcases hfin.2 with h1 | h1 | h1
      · exact Or.inl h1
      · exact Or.inr h1
      · have := hi.stopPc.2 h1; rw [hspc] at this; simp at this
    exact not_max (.sample 0 0 0) (by
      rcases hph with h1 | h1 <;> simp [hstep, step, led, hna, hcnt, hcur0, b2n, hst, hspc, h1, hc]) (by simp [neutral])
  | drained => exact not_max (.waited 0 h.s.result) (by simp [hstep, step, led, hst, hspc, hc]) rfl
  | waited =>
    have hph := hi.stopPc.1 (Or.inr (Or.inl hspc))
    exact not_max (.rtState 0 rsStopped) (by simp [rsInitialized, rsPreStartup, rsStartup, rsPreMain, rsRunning, rsSleeping, rsStopped, hstep, step, led, hna, hst, hspc, hph, hc]) rfl
  | halted =>
    have hph := hi.stopPc.1 (Or.inr (Or.inr hspc))
    by_cases hpos : 0 < h.s.nsleep
    · obtain ⟨b, hbn, hs⟩ := exists_asleep hi hpos
      have hw := hb.wakew (Or.inr hout)
      have htw : 0 < h.toWake := by omega
      exact not_max (.wake b) (by simp [hstep, step, led, hbn, hph, hspc, hs, htw]) rfl
    · have h0 : h.s.nsleep = 0 := by omega
      exact not_max (.stopExit 0 h.s.result) (by simp [hstep, step, led, hst, hspc, h0, hc]) rfl

theorem prog_wait2 {h : HSt} (hb : HInvB h) (hc : h.cpc = .wait2) : ¬ Maximal h := by
  have hl := hb.wait2 hc
  have hph := hb.waitPh (Or.inr hc)
  have hth := hb.thOk (Or.inr (by rcases hph with h1 | h1 <;> rw [h1] <;> simp))
  have hna : 0 < h.s.na := by omega
  exact not_max (.waitExit 0) (by simp [hstep, step, led, hna, hl, hc]) rfl

theorem prog_wait1 {h : HSt} (hi : Inv h.s) (ha : HInvA h) (hb : HInvB h) (hc : h.cpc = .wait1)
    (hcnt : h.s.cnt = 0) : ¬ Maximal h := by
  have hph := hb.waitPh (Or.inl hc)
  have hth := hb.thOk (Or.inr (by rcases hph with h1 | h1 <;> rw [h1] <;> simp))
  have hna : 0 < h.s.na := by omega
  have hcur0 : h.s.cur 0 = none := cur_none_of_not_worker hi (worker0 ha)
  have hspc : h.s.spc = .out := by
    cases hs : h.s.spc with
    | out => rfl
    | _ => have := hb.stop.2 (by rw [hs]; simp); rw [hc] at this; cases this
  have hst := hi.outStopper hspc
  exact not_max (.sample 0 0 0) (by simp [hstep, step, led, hna, hcnt, hcur0, b2n, hst, hc]) (by simp [neutral])

/-- between two calls the next call of a well-formed script can be issued -/
theorem prog_idle {h : HSt} (hi : Inv h.s) (ha : HInvA h) (hb : HInvB h) (hc : h.cpc = .idle)
    (c : Call) (r : List Call) (hscr : h.script = c :: r) : ¬ Maximal h := by
  have hwf := hb.wfNext
  simp only [postPh, postFin, hc, hscr] at hwf
  have hcur0 : h.s.cur 0 = none := cur_none_of_not_worker hi (worker0 ha)
  have hw0 := worker0 ha
  have hspc : h.s.spc = .out := by
    cases hs : h.s.spc with
    | out => rfl
    | _ => have := hb.stop.2 (by rw [hs]; simp); rw [hc] at this; cases this
  have hst := hi.outStopper hspc
  have hna : h.s.ph ≠ .none → 0 < h.s.na := fun hp => by have := hb.thOk (Or.inr hp); omega
  cases c with
  | start t p =>
    simp only [wf] at hwf
    have hn : 0 < h.s.na := by omega
    exact not_max (.reqCfg 0 t p) (by simp [hstep, step, led, hn, hwf.1, hc, hscr, hwf.2.1, hwf.2.2.1]) rfl
  | submit =>
    simp only [wf] at hwf
    have hn := hna (by rcases hwf.1 with h1 | h1 <;> rw [h1] <;> simp)
    exact not_max (.inc 0 (h.s.cnt + 1)) (by
      rcases hwf.1 with h1 | h1 <;> simp [hstep, step, led, hn, h1, hc, hscr]) rfl
  | wait =>
    simp only [wf] at hwf
    have hn := hna (by rcases hwf.1 with h1 | h1 <;> rw [h1] <;> simp)
    exact not_max (.waitEnter 0) (by simp [hstep, step, led, hn, hc, hscr]) rfl
  | suspend =>
    simp only [wf] at hwf
    have hn := hna (by rw [hwf.1]; simp)
    exact not_max (.suspendEnter 0) (by simp [hstep, step, led, hn, hwf.1, hcur0, hw0, hc, hscr]) rfl
  | resume =>
    simp only [wf] at hwf
    have hn := hna (by rw [hwf.1]; simp)
    exact not_max (.resumeEnter 0) (by simp [hstep, step, led, hn, hwf.1, hcur0, hw0, hc, hscr]) rfl
  | finalize =>
    simp only [wf] at hwf
    have hn := hna (by rw [hwf.1]; simp)
    exact not_max (.fin 0) (by simp [hstep, step, led, hn, hwf.1, hwf.2.1, hc, hscr]) rfl
  | stop =>
    simp only [wf] at hwf
    have hn := hna (by rcases hwf.1 with h1 | h1 <;> rw [h1] <;> simp)
    exact not_max (.stopEnter 0) (by
      rcases hwf.1 with h1 | h1 <;> simp [hstep, step, led, hn, h1, hst, hspc, hcur0, hw0, hc, hscr]) rfl

/-- the documented non-terminating shape: the runtime is suspended and still holds work, and the
    controller has ended its script, polls in `wait()`, or polls in `stop()`'s drain check -/
def Holding (h : HSt) : Prop :=
  h.s.ph = .suspended ∧ 0 < h.s.cnt ∧
  ((h.script = [] ∧ h.cpc = .idle) ∨ h.cpc = .wait1 ∨ (h.cpc = .stop ∧ h.s.spc = .waitedFin))

/-- **Final states of maximal runs.** -/
theorem max_final {h : HSt} (hi : Inv h.s) (ha : HInvA h) (hb : HInvB h) (hm : Maximal h) :
    (h.script = [] ∧ h.cpc = .idle ∧ h.s.cnt = 0) ∨ Holding h := by
  cases hc : h.cpc with
  | start1 => exact absurd hm (prog_start1 hb hc)
  | start2 => exact absurd hm (prog_start2 hi ha hb hc)
  | susp => exact absurd hm (prog_susp hi ha hb hc)
  | res => exact absurd hm (prog_res hi hb hc)
  | wait2 => exact absurd hm (prog_wait2 hb hc)
  | wait1 =>
    by_cases hcnt : h.s.cnt = 0
    · exact absurd hm (prog_wait1 hi ha hb hc hcnt)
    · rcases hb.waitPh (Or.inl hc) with hp | hp
      · exact absurd hm (prog_running hi ha hb hp (by omega))
      · exact Or.inr ⟨hp, by omega, Or.inr (Or.inl hc)⟩
  | stop =>
    by_cases hx : h.s.spc = .waitedFin → h.s.cnt = 0
    · exact absurd hm (prog_stop hi ha hb hc hx)
    · have hspc : h.s.spc = .waitedFin := Classical.byContradiction (fun hn => hx (fun h1 => absurd h1 hn))
      have hcnt : 0 < h.s.cnt := by
        have : ¬ h.s.cnt = 0 := fun h0 => hx (fun _ => h0)
        omega
      rcases (hb.stopFin hc).2 with hp | hp | hp
      · exact absurd hm (prog_running hi ha hb hp hcnt)
      · exact Or.inr ⟨hp, hcnt, Or.inr (Or.inr ⟨hc, hspc⟩)⟩
      · have := hi.stopPc.2 hp; rw [hspc] at this; simp at this
  | idle =>
    cases hscr : h.script with
    | cons c r => exact absurd hm (prog_idle hi ha hb hc c r hscr)
    | nil =>
      by_cases hcnt : h.s.cnt = 0
      · exact Or.inl ⟨rfl, rfl, hcnt⟩
      · rcases hb.idle hc with hp | hp | hp
        · exact absurd (hi.stoppingDrained (Or.inr hp)) hcnt
        · exact absurd hm (prog_running hi ha hb hp (by omega))
        · exact Or.inr ⟨hp, by omega, Or.inl ⟨hscr, hc⟩⟩

end PikaVerif.Life
