import PikaVerif.Lemmas.SSemProg
/-!
# Solo continuations of the sliding semaphore: one `signal(l)` call wakes every queued waiter (C08t)

`sigSolo r l lower q` is the exact event sequence the signaller `r` produces when it runs alone from
the start of `signal(l)` (lock free, stored lower limit `lower`, wait queue `q` of parked waiters);
`waitSoloPass g u lower` / `waitSoloBlock g u qlen` are the sequences a woken waiter of `wait(u)`
produces when it then runs alone: it re-checks its condition under the lock and either returns
(`u - maxDiff ≤ lower`) or queues itself again and parks.
-/
namespace PikaVerif.SSem
open PikaVerif

/-- the notify loop of `signal`, entered at iteration `i` of `n` with the lock held -/
def popLoop (r : Nat) : Nat → Nat → List Nat → List Ev
  | _, _, [] => [.cvNone r, .slRel r]
  | i, n, g :: rest =>
    .popResume r rest.length g :: .slRel r ::
      (if rest = [] then [] else .slAcq r :: (if i + 1 < n then popLoop r (i + 1) n rest else [.slRel r]))

theorem popLoop_length (r n : Nat) : ∀ (q : List Nat) (i : Nat), i < n →
    (popLoop r i n q).length ≤ 3 * min (n - i) q.length + 2 := by
  intro q
  induction q with
  | nil => intro i _; simp [popLoop]
  | cons g rest ih =>
    intro i hik
    simp only [popLoop]
    by_cases hr : rest = []
    · simp [hr]
    · simp only [hr, if_false, List.length_cons]
      by_cases hk : i + 1 < n
      · simp only [hk, if_true]
        have := ih (i + 1) hk
        have e : n - i = (n - (i + 1)) + 1 := by omega
        rw [e]
        have : min (n - (i + 1) + 1) (rest.length + 1) = min (n - (i + 1)) rest.length + 1 := by omega
        omega
      · simp only [hk, if_false, List.length_cons, List.length_nil]
        have : 0 < rest.length := by cases rest with
          | nil => exact absurd rfl hr
          | cons _ _ => simp
        have : 1 ≤ min (n - i) (rest.length + 1) := by omega
        omega

theorem st_cvNone (s : St) (r i n : Nat) (hl : s.lock = some r) (hr : r < s.n)
    (hp : s.pc r = .sigL i n) (hq : s.queue = []) :
    step s (.cvNone r) = some { s with pc := upd s.pc r (.sigRes i n false) } := by
  simp [step, hl, hr, hp, hq]

theorem st_slRel_res (s : St) (r i n : Nat) (more : Bool) (hl : s.lock = some r) (hr : r < s.n)
    (hp : s.pc r = .sigRes i n more) :
    step s (.slRel r) = some { s with lock := none, pc := upd s.pc r (if more then .sigNL (i + 1) n else .retn false) } := by
  simp [step, hl, hr, hp]

theorem st_slRel_fin (s : St) (r : Nat) (hl : s.lock = some r) (hr : r < s.n) (hp : s.pc r = .sigFin) :
    step s (.slRel r) = some { s with lock := none, pc := upd s.pc r (.retn false) } := by
  simp [step, hl, hr, hp]

theorem st_slAcq_nl (s : St) (r i n : Nat) (hl : s.lock = none) (hr : r < s.n) (hp : s.pc r = .sigNL i n) :
    step s (.slAcq r) = some { s with lock := some r, pc := upd s.pc r (if i < n then .sigL i n else .sigFin) } := by
  simp [step, hl, hr, hp]

theorem st_pop (s : St) (r i n g : Nat) (u : Int) (rest : List Nat) (hl : s.lock = some r) (hr : r < s.n)
    (hp : s.pc r = .sigL i n) (hq : s.queue = g :: rest) (hg : s.pc g = .susp u false) :
    step s (.popResume r rest.length g) = some { s with queue := rest, tok := upd s.tok g (s.tok g + 1), pc := upd (upd s.pc g (.susp u true)) r (.sigRes i n (decide (rest ≠ []))) } := by
  simp [step, hl, hr, hp, hq, hg, setPopped]

/-- `s1` is `s` with the given lock, queue, tokens and program counters (limits and `n` unchanged) -/
def Fr (s s1 : St) (lock : Option Nat) (q : List Nat) (tok : Nat → Nat) (pc : Nat → Pc) : Prop :=
  s1.lock = lock ∧ s1.n = s.n ∧ s1.lower = s.lower ∧ s1.maxDiff = s.maxDiff ∧ s1.queue = q ∧ s1.tok = tok ∧ s1.pc = pc

theorem fr_cvNone (s : St) (r i n : Nat) (hl : s.lock = some r) (hr : r < s.n)
    (hp : s.pc r = .sigL i n) (hq : s.queue = []) :
    ∃ s1, step s (.cvNone r) = some s1 ∧ Fr s s1 s.lock s.queue s.tok (upd s.pc r (.sigRes i n false)) :=
  ⟨_, st_cvNone s r i n hl hr hp hq, rfl, rfl, rfl, rfl, rfl, rfl, rfl⟩

theorem fr_slRel_res (s : St) (r i n : Nat) (more : Bool) (hl : s.lock = some r) (hr : r < s.n)
    (hp : s.pc r = .sigRes i n more) :
    ∃ s1, step s (.slRel r) = some s1 ∧
      Fr s s1 none s.queue s.tok (upd s.pc r (if more then .sigNL (i + 1) n else .retn false)) :=
  ⟨_, st_slRel_res s r i n more hl hr hp, rfl, rfl, rfl, rfl, rfl, rfl, rfl⟩

theorem fr_slRel_fin (s : St) (r : Nat) (hl : s.lock = some r) (hr : r < s.n) (hp : s.pc r = .sigFin) :
    ∃ s1, step s (.slRel r) = some s1 ∧ Fr s s1 none s.queue s.tok (upd s.pc r (.retn false)) :=
  ⟨_, st_slRel_fin s r hl hr hp, rfl, rfl, rfl, rfl, rfl, rfl, rfl⟩

theorem fr_slAcq_nl (s : St) (r i n : Nat) (hl : s.lock = none) (hr : r < s.n) (hp : s.pc r = .sigNL i n) :
    ∃ s1, step s (.slAcq r) = some s1 ∧
      Fr s s1 (some r) s.queue s.tok (upd s.pc r (if i < n then .sigL i n else .sigFin)) :=
  ⟨_, st_slAcq_nl s r i n hl hr hp, rfl, rfl, rfl, rfl, rfl, rfl, rfl⟩

theorem fr_pop (s : St) (r i n g : Nat) (u : Int) (rest : List Nat) (hl : s.lock = some r) (hr : r < s.n)
    (hp : s.pc r = .sigL i n) (hq : s.queue = g :: rest) (hg : s.pc g = .susp u false) :
    ∃ s1, step s (.popResume r rest.length g) = some s1 ∧
      Fr s s1 s.lock rest (upd s.tok g (s.tok g + 1))
        (upd (upd s.pc g (.susp u true)) r (.sigRes i n (decide (rest ≠ [])))) :=
  ⟨_, st_pop s r i n g u rest hl hr hp hq hg, rfl, rfl, rfl, rfl, rfl, rfl, rfl⟩

/-- **The notify loop.**  Entered at iteration `i < n` with the queue `q` of parked waiters, the
    signaller running alone pops and resumes the first `min (n - i) |q|` of them (each keeps its own
    upper limit), leaves the others queued and untouched, and ends with the lock released, about to
    return. -/
theorem popLoop_spec (r n : Nat) : ∀ (q : List Nat) (i : Nat) (s : St),
    s.lock = some r → r < s.n → s.pc r = .sigL i n → i < n → s.queue = q →
    (∀ g, g ∈ q → ∃ u, s.pc g = .susp u false) → q.Nodup →
    ∃ s', runLog step s (popLoop r i n q) = some s' ∧ s'.lock = none ∧ s'.pc r = .retn false ∧
      s'.lower = s.lower ∧ s'.maxDiff = s.maxDiff ∧ s'.n = s.n ∧ s'.queue = q.drop (n - i) ∧
      (∀ g u, g ∈ q.take (n - i) → s.pc g = .susp u false → s'.pc g = .susp u true ∧ s'.tok g = s.tok g + 1) ∧
      (∀ t, t ≠ r → t ∉ q.take (n - i) → s'.pc t = s.pc t ∧ s'.tok t = s.tok t) := by
  intro q
  induction q with
  | nil =>
    intro i s hl hr hp hik hq _ _
    obtain ⟨s1, e1, l1, n1, w1, d1, q1, t1, p1⟩ := fr_cvNone s r i n hl hr hp hq
    obtain ⟨s2, e2, l2, n2, w2, d2, q2, t2, p2⟩ := fr_slRel_res s1 r i n false (by rw [l1]; exact hl)
      (by omega) (by rw [p1]; simp)
    refine ⟨s2, by simp only [popLoop, runLog, e1, e2], l2, by rw [p2]; simp, by omega, by omega, by omega,
      by rw [q2, q1, hq]; simp, by simp, ?_⟩
    intro t htr _
    rw [p2, p1, t2, t1]; simp [upd, htr]
  | cons g rest ih =>
    intro i s hl hr hp hik hq hpark hnd
    obtain ⟨u0, hgs⟩ := hpark g (by simp)
    have hgr : g ≠ r := by intro he; rw [he, hp] at hgs; simp at hgs
    have hnd' : g ∉ rest ∧ rest.Nodup := by simpa using hnd
    have hki : n - i = (n - (i + 1)) + 1 := by omega
    obtain ⟨s1, e1, l1, n1, w1, d1, q1, t1, p1⟩ := fr_pop s r i n g u0 rest hl hr hp hq hgs
    obtain ⟨s2, e2, l2, n2, w2, d2, q2, t2, p2⟩ := fr_slRel_res s1 r i n (decide (rest ≠ []))
      (by rw [l1]; exact hl) (by omega) (by rw [p1]; simp)
    by_cases hrest : rest = []
    · -- the queue is exhausted: notify_one returns false, the loop ends
      subst hrest
      refine ⟨s2, by simp only [popLoop, if_true, runLog, e1, e2] , l2, by rw [p2]; simp,
        by omega, by omega, by omega, by rw [q2, q1, hki]; simp, ?_, ?_⟩
      · intro g' u hg' hu
        rw [hki] at hg'
        simp at hg'
        subst hg'
        rw [hgs] at hu
        have huu : u0 = u := by simpa using hu
        subst huu
        rw [p2, p1, t2, t1]; simp [upd, hgr]
      · intro t htr hnot
        rw [hki] at hnot
        simp at hnot
        rw [p2, p1, t2, t1]; simp [upd, htr, hnot]
    · have hp2 : s2.pc r = .sigNL (i + 1) n := by rw [p2]; simp [hrest]
      obtain ⟨s3, e3, l3, n3, w3, d3, q3, t3, p3⟩ := fr_slAcq_nl s2 r (i + 1) n l2 (by omega) hp2
      by_cases hk : i + 1 < n
      · -- another iteration
        have hp3 : s3.pc r = .sigL (i + 1) n := by
          rw [p3]; simp only [upd_same]; rw [if_pos hk]
        have hother : ∀ t, t ≠ r → s3.pc t = upd s.pc g (.susp u0 true) t ∧ s3.tok t = upd s.tok g (s.tok g + 1) t := by
          intro t htr
          rw [p3, p2, p1, t3, t2, t1]; simp [upd, htr]
        have hrq : ∀ g', g' ∈ rest → g' ≠ r := by
          intro g' hg' he
          obtain ⟨u', hu'⟩ := hpark g' (by simp [hg']); rw [he, hp] at hu'; simp at hu'
        have hgq : ∀ g', g' ∈ rest → g' ≠ g := by
          intro g' hg' he; rw [he] at hg'; exact hnd'.1 hg'
        obtain ⟨s', h1, h2, h3, h4, h4', h5, h6, h7, h8⟩ := ih (i + 1) s3 l3 (by omega) hp3 hk (by rw [q3, q2, q1])
          (by intro g' hg'
              obtain ⟨u', hu'⟩ := hpark g' (by simp [hg'])
              refine ⟨u', ?_⟩
              rw [(hother g' (hrq g' hg')).1]; simp [upd, hgq g' hg']; exact hu')
          hnd'.2
        refine ⟨s', ?_, h2, h3, by omega, by omega, by omega, ?_, ?_, ?_⟩
        · have : popLoop r i n (g :: rest) =
              [.popResume r rest.length g, .slRel r, .slAcq r] ++ popLoop r (i + 1) n rest := by
            simp [popLoop, hrest, hk]
          rw [this, runLog_append]
          simp only [runLog, e1, e2, e3]
          simpa using h1
        · rw [hki]; simpa using h6
        · rw [hki]
          intro g' u hg' hu
          simp only [List.take_succ_cons, List.mem_cons] at hg'
          rcases hg' with he | hin
          · subst he
            rw [hgs] at hu
            have huu : u0 = u := by simpa using hu
            subst huu
            have hnot : g' ∉ rest.take (n - (i + 1)) := fun hc => hnd'.1 (List.mem_of_mem_take hc)
            have := h8 g' hgr hnot
            rw [(hother g' hgr).1, (hother g' hgr).2] at this
            simpa [upd] using this
          · have hin' := List.mem_of_mem_take hin
            have hne : g' ≠ g := hgq g' hin'
            have hne2 : g' ≠ r := hrq g' hin'
            have h3u : s3.pc g' = .susp u false := by
              rw [(hother g' hne2).1]; simp [upd, hne]; exact hu
            have := h7 g' u hin h3u
            rw [(hother g' hne2).2] at this
            simpa [upd, hne] using this
        · rw [hki]
          intro t htr hnot
          simp only [List.take_succ_cons, List.mem_cons, not_or] at hnot
          have := h8 t htr hnot.2
          rw [(hother t htr).1, (hother t htr).2] at this
          simpa [upd, hnot.1] using this
      · -- `i + 1 = n`: waiters remain but the loop has done its `n` iterations
        have hk1 : n - i = 1 := by omega
        have hp3 : s3.pc r = .sigFin := by
          rw [p3]; simp only [upd_same]; rw [if_neg hk]
        obtain ⟨s4, e4, l4, n4, w4, d4, q4, t4, p4⟩ := fr_slRel_fin s3 r l3 (by omega) hp3
        refine ⟨s4, by simp only [popLoop, hrest, if_false, hk, runLog, e1, e2, e3, e4], l4, by rw [p4]; simp,
          by omega, by omega, by omega, by rw [q4, q3, q2, q1, hk1]; simp, ?_, ?_⟩
        · intro g' u hg' hu
          rw [hk1] at hg'
          simp at hg'
          subst hg'
          rw [hgs] at hu
          have huu : u0 = u := by simpa using hu
          subst huu
          rw [p4, p3, p2, p1, t4, t3, t2, t1]; simp [upd, hgr]
        · intro t htr hnot
          rw [hk1] at hnot
          simp at hnot
          rw [p4, p3, p2, p1, t4, t3, t2, t1]; simp [upd, htr, hnot]

/-- the complete solo run of `signal(l)` by thread `r` from the start of the call, with stored
    lower limit `lower` and wait queue `q` -/
def sigSolo (r : Nat) (l lower : Int) (q : List Nat) : List Ev :=
  .slAcq r :: .sig r (max l lower) q.length :: ((if 0 < q.length then popLoop r 0 q.length q else [.slRel r]) ++ [.ret r false])

theorem sigSolo_length (r : Nat) (l lower : Int) (q : List Nat) :
    (sigSolo r l lower q).length ≤ 3 * q.length + 5 := by
  simp only [sigSolo, List.length_cons, List.length_append, List.length_nil]
  by_cases hk : 0 < q.length
  · simp only [hk, if_true]
    have := popLoop_length r q.length q 0 hk
    simp only [Nat.sub_zero, Nat.min_self] at this
    omega
  · simp only [hk, if_false, List.length_cons, List.length_nil]; omega

/-- **One `signal(l)` call, run alone, raises the lower limit and wakes every parked waiter.** -/
theorem sigSolo_spec (r : Nat) (l : Int) (s : St) (hl : s.lock = none) (hr : r < s.n)
    (hp : s.pc r = .want (.signal l)) (hpark : ∀ g, g ∈ s.queue → ∃ u, s.pc g = .susp u false)
    (hnd : s.queue.Nodup) :
    ∃ s', runLog step s (sigSolo r l s.lower s.queue) = some s' ∧ s'.lock = none ∧ s'.pc r = .idle ∧
      s'.lower = max l s.lower ∧ s'.maxDiff = s.maxDiff ∧ s'.n = s.n ∧ s'.queue = [] ∧
      (∀ g u, g ∈ s.queue → s.pc g = .susp u false → s'.pc g = .susp u true ∧ s'.tok g = s.tok g + 1) ∧
      (∀ t, t ≠ r → t ∉ s.queue → s'.pc t = s.pc t ∧ s'.tok t = s.tok t) := by
  have hrq : ∀ g, g ∈ s.queue → g ≠ r := by
    intro g hg he; obtain ⟨u, hu⟩ := hpark g hg; rw [he, hp] at hu; simp at hu
  by_cases hk : 0 < s.queue.length
  · let S2 : St := { s with lock := some r, lower := max l s.lower, pc := upd (upd s.pc r (.lockedSig l)) r (.sigL 0 s.queue.length) }
    have hpre : runLog step s [.slAcq r, .sig r (max l s.lower) s.queue.length] = some S2 := by
      simp [runLog, step, hl, hr, hp, hk, S2]
    obtain ⟨s', h1, h2, h3, h4, h4', h5, h6, h7, h8⟩ := popLoop_spec r s.queue.length s.queue 0 S2 rfl hr
      (by simp [S2]) hk rfl
      (by intro g hg
          obtain ⟨u, hu⟩ := hpark g hg
          exact ⟨u, by simp [S2, upd, hrq g hg]; exact hu⟩) hnd
    simp only [Nat.sub_zero, List.drop_length, List.take_length] at h6 h7 h8
    have hret : step s' (.ret r false) = some { s' with pc := upd s'.pc r .idle } := by
      have : r < s'.n := by rw [h5]; exact hr
      simp [step, this, h3]
    refine ⟨{ s' with pc := upd s'.pc r .idle }, ?_, ?_⟩
    · have : sigSolo r l s.lower s.queue =
          [.slAcq r, .sig r (max l s.lower) s.queue.length] ++ (popLoop r 0 s.queue.length s.queue ++ [.ret r false]) := by
        simp [sigSolo, hk]
      rw [this, runLog_append, hpre]
      simp only [Option.bind_some]
      rw [runLog_append, h1]
      simp only [Option.bind_some, runLog, hret]
    · refine ⟨h2, by simp, by simpa [S2] using h4, by simpa [S2] using h4', by simpa [S2] using h5, h6, ?_, ?_⟩
      · intro g u hg hu
        have hgr : g ≠ r := hrq g hg
        have := h7 g u hg (by simp [S2, upd, hgr]; exact hu)
        simpa [S2, upd, hgr] using this
      · intro t htr hnot
        have := h8 t htr hnot
        simpa [S2, upd, htr] using this
  · have hq : s.queue = [] := by
      cases hqq : s.queue with
      | nil => rfl
      | cons a b => rw [hqq] at hk; simp at hk
    refine ⟨{ s with lock := none, lower := max l s.lower, pc := upd (upd (upd (upd s.pc r (.lockedSig l)) r .sigFin) r (.retn false)) r .idle }, ?_, ?_⟩
    · simp [sigSolo, runLog, step, hl, hr, hp, hq]
    · simp [upd, hq]
      intro t htr; simp [htr]

/-- the solo run of a woken waiter `g` of `wait(u)` whose condition now holds, up to its return -/
def waitSoloPass (g : Nat) (u lower : Int) : List Ev :=
  [.woke g, .slAcq g, .cvWoke g false, .pass g u lower, .slRel g, .ret g true]

/-- the solo run of a woken waiter `g` whose condition still fails: it queues itself again
    (`qlen` = current queue length) and parks -/
def waitSoloBlock (g : Nat) (_u : Int) (qlen : Nat) : List Ev :=
  [.woke g, .slAcq g, .cvWoke g false, .cvEnq g (qlen + 1), .slRel g, .suspend g]

theorem waitSoloPass_length (g : Nat) (u lower : Int) : (waitSoloPass g u lower).length = 6 := rfl
theorem waitSoloBlock_length (g : Nat) (u : Int) (qlen : Nat) : (waitSoloBlock g u qlen).length = 6 := rfl

theorem upd6 (f : Nat → Pc) (g : Nat) (a b c d e z : Pc) :
    upd (upd (upd (upd (upd (upd f g a) g b) g c) g d) g e) g z = upd f g z := by
  funext t; simp only [upd]; split <;> rfl

theorem waitSoloPass_spec (g : Nat) (u : Int) (s : St) (hl : s.lock = none) (hg : g < s.n)
    (hp : s.pc g = .susp u true) (ht : 0 < s.tok g) (hs : sat s u = true) :
    ∃ s', runLog step s (waitSoloPass g u s.lower) = some s' ∧ s'.lock = none ∧ s'.pc g = .idle ∧
      s'.lower = s.lower ∧ s'.maxDiff = s.maxDiff ∧ s'.n = s.n ∧ s'.queue = s.queue ∧
      s'.tok g = s.tok g - 1 ∧
      (∀ t, t ≠ g → s'.pc t = s.pc t ∧ s'.tok t = s.tok t) := by
  refine ⟨{ s with lock := none, tok := upd s.tok g (s.tok g - 1), pc := upd s.pc g .idle }, ?_, ?_⟩
  · have hs' : u - s.maxDiff ≤ s.lower := by simpa [sat] using hs
    simp [waitSoloPass, runLog, step, hl, hg, hp, ht, sat, hs', upd6]
  · simp [upd]
    intro t htg; simp [htg]

theorem waitSoloBlock_spec (g : Nat) (u : Int) (s : St) (hl : s.lock = none) (hg : g < s.n)
    (hp : s.pc g = .susp u true) (ht : 0 < s.tok g) (hs : sat s u = false) :
    ∃ s', runLog step s (waitSoloBlock g u s.queue.length) = some s' ∧ s'.lock = none ∧
      s'.pc g = .susp u false ∧
      s'.lower = s.lower ∧ s'.maxDiff = s.maxDiff ∧ s'.n = s.n ∧ s'.queue = s.queue ++ [g] ∧
      s'.tok g = s.tok g - 1 ∧
      (∀ t, t ≠ g → s'.pc t = s.pc t ∧ s'.tok t = s.tok t) := by
  refine ⟨{ s with lock := none, queue := s.queue ++ [g], tok := upd s.tok g (s.tok g - 1), pc := upd s.pc g (.susp u false) }, ?_, ?_⟩
  · have hs' : ¬ (u - s.maxDiff ≤ s.lower) := by simpa [sat] using hs
    simp [waitSoloBlock, runLog, step, hl, hg, hp, ht, sat, hs', upd6]
  · simp [upd]
    intro t htg; simp [htg]

/-- the woken waiters `(g, u)` run to completion one after the other, all satisfied -/
def passAll : List (Nat × Int) → Int → List Ev
  | [], _ => []
  | p :: l, lower => waitSoloPass p.1 p.2 lower ++ passAll l lower

theorem passAll_length : ∀ (l : List (Nat × Int)) (lower : Int), (passAll l lower).length = 6 * l.length
  | [], _ => rfl
  | p :: l, lower => by simp [passAll, waitSoloPass, passAll_length l lower]; omega

theorem passAll_spec : ∀ (l : List (Nat × Int)) (s : St), s.lock = none →
    (∀ p, p ∈ l → p.1 < s.n ∧ s.pc p.1 = .susp p.2 true ∧ 0 < s.tok p.1 ∧ sat s p.2 = true) →
    (l.map Prod.fst).Nodup →
    ∃ s', runLog step s (passAll l s.lower) = some s' ∧ s'.lock = none ∧
      (∀ p, p ∈ l → s'.pc p.1 = .idle) ∧ s'.lower = s.lower ∧ s'.maxDiff = s.maxDiff ∧ s'.n = s.n ∧
      s'.queue = s.queue ∧
      (∀ t, t ∉ l.map Prod.fst → s'.pc t = s.pc t ∧ s'.tok t = s.tok t) := by
  intro l
  induction l with
  | nil => intro s hl _ _; exact ⟨s, rfl, hl, by simp, rfl, rfl, rfl, rfl, by simp⟩
  | cons p l ih =>
    intro s hl hw hnd
    have hnd' : p.1 ∉ l.map Prod.fst ∧ (l.map Prod.fst).Nodup := by simpa using hnd
    obtain ⟨w1, w2, w3, w4⟩ := hw p (by simp)
    obtain ⟨s1, a1, a2, a3, a4, a5, a6, a7, _, a9⟩ := waitSoloPass_spec p.1 p.2 s hl w1 w2 w3 w4
    have hne : ∀ p', p' ∈ l → p'.1 ≠ p.1 := fun p' hp' he =>
      hnd'.1 (he ▸ List.mem_map_of_mem (f := Prod.fst) hp')
    obtain ⟨s', b1, b2, b3, b4, b5, b6, b7, b8⟩ := ih s1 a2
      (by intro p' hp'
          obtain ⟨x1, x2, x3, x4⟩ := hw p' (by simp [hp'])
          refine ⟨by rw [a6]; exact x1, by rw [(a9 p'.1 (hne p' hp')).1]; exact x2,
            by rw [(a9 p'.1 (hne p' hp')).2]; exact x3, ?_⟩
          simp only [sat] at x4 ⊢
          rw [a4, a5]; exact x4)
      hnd'.2
    refine ⟨s', ?_, b2, ?_, by omega, by omega, by omega, by rw [b7, a7], ?_⟩
    · simp only [passAll]
      rw [runLog_append, a1]
      simp only [Option.bind_some]
      rw [← a4]; exact b1
    · intro p' hp'
      simp only [List.mem_cons] at hp'
      rcases hp' with he | hin
      · subst he; rw [(b8 p'.1 hnd'.1).1]; exact a3
      · exact b3 p' hin
    · intro t ht
      simp only [List.map_cons, List.mem_cons, not_or] at ht
      rw [(b8 t ht.2).1, (b8 t ht.2).2]
      exact a9 t ht.1

/-- the wait queue with the upper limit each queued waiter asked for -/
def qU (s : St) : List (Nat × Int) := s.queue.map (fun g => (g, (ubound (s.pc g)).getD 0))

theorem qU_fst (s : St) : (qU s).map Prod.fst = s.queue := by
  simp [qU, List.map_map, Function.comp_def]

theorem qU_length (s : St) : (qU s).length = s.queue.length := by simp [qU]

theorem mem_qU (s : St) (p : Nat × Int) (h : p ∈ qU s) (u : Int) (b : Bool) (hp : s.pc p.1 = .susp u b) :
    p.1 ∈ s.queue ∧ p.2 = u := by
  simp only [qU, List.mem_map] at h
  obtain ⟨g, hg, he⟩ := h
  subst he
  simp only at hp
  exact ⟨hg, by simp [hp, ubound]⟩

theorem mem_qU_queue (s : St) (p : Nat × Int) (h : p ∈ qU s) : p.1 ∈ s.queue := by
  simp only [qU, List.mem_map] at h
  obtain ⟨g, hg, he⟩ := h
  subst he
  exact hg

end PikaVerif.SSem
