import PikaVerif.Lemmas.Sched3
/-! Two concrete accepted logs that end in a quiescent state (non-vacuity of `Props/C02x.lean`). -/
namespace PikaVerif.Sched
open PikaVerif

def wNew : W := ⟨sPending, 1, 0⟩

/-- **the race through a helper**: task 1 is in the body of its first phase (it registers itself as
    a waiter there); -/
def racePre : List Ev :=
  [.new 0 1 wNew, .push 0 1, .got 1 1 wNew false, .tagged 1 1 wNew ⟨sActive, 1, 1⟩, .phaseBegin 1 1,
   .setex 1 1 ⟨sActive, 1, 1⟩ ⟨sActive, 1, 1⟩, .bodyEnter 1 1]

/-- … the waker (actor 2, a plain OS thread) issues the wake-up while the task is still active and
    hands it to a helper; the task's worker finishes switching it off (`suspended`); the helper task
    (run by actor 3) finds the state changed, retries, wins the exchange and queues the task;
    worker 1 pops it, activates it again; it runs to its end -/
def racePost : List Ev :=
  [.stsLoad 2 1 ⟨sActive, 1, 1⟩, .stsHelper 2 1,
   .phaseEnd 1 1 sSuspended, .restore1 1 1 ⟨sActive, 1, 1⟩ ⟨sSuspended, 1, 2⟩,
   .sasLoad 3 1 ⟨sSuspended, 1, 2⟩ ⟨sActive, 1, 1⟩, .sasRetry 3 1,
   .stsEnter 3 1 sPending, .stsLoad 3 1 ⟨sSuspended, 1, 2⟩, .restore2 3 1 ⟨sSuspended, 1, 2⟩ ⟨sPending, 1, 3⟩,
   .push 3 1, .stsDone 3 1,
   .got 1 1 ⟨sPending, 1, 3⟩ false, .tagged 1 1 ⟨sPending, 1, 3⟩ ⟨sActive, 1, 4⟩, .phaseBegin 1 1,
   .phaseEnd 1 1 sTerminated, .restore1 1 1 ⟨sActive, 1, 4⟩ ⟨sTerminated, 1, 5⟩]

def raceLog : List Ev := racePre ++ .stsEnter 2 1 sPending :: racePost

theorem raceLog_ok : (runLog step init raceLog).isSome = true := by decide

def sRace : St := (runLog step init raceLog).get raceLog_ok

theorem sRace_run : runLog step init raceLog = some sRace := by simp [sRace]

theorem sRace_obj (o : Nat) : sRace.obj o = if o = 1 then
    { live := true, fresh := false, w := ⟨sTerminated, 1, 5⟩, owner := none, inPhase := false, ranPhase := true,
      result := sTerminated, q := 0, holder := none, hexp := ⟨sPending, 1, 3⟩, pusher := none, helpers := [], epoch := 2 }
    else {} := by
  by_cases ho : o = 1 <;>
  simp (config := {decide := true}) [ho, sRace, raceLog, racePre, racePost, runLog, step, init, upd, wNew, sSuspended, sActive, sPending, sTerminated]

theorem sRace_act (a : Nat) : sRace.act a = {} := by
  by_cases h2 : a = 2 <;> by_cases h3 : a = 3 <;>
  simp (config := {decide := true}) [h2, h3, sRace, raceLog, racePre, racePost, runLog, step, init, upd, wNew, sSuspended, sActive, sPending, sTerminated]

theorem sRace_quiescent : Quiescent sRace := by
  apply quiescent_of_rest
  · intro o hl; rw [sRace_obj] at hl ⊢; split <;> simp_all
  · intro a; rw [sRace_act]; simp

/-- **the corner**: task 1 suspends; an interrupt (restart state 4 = `abort`) wakes it; it is activated
    again (`active, 4, tag 4`), restart state not fetched yet; -/
def cornerPre : List Ev :=
  [.new 0 1 wNew, .push 0 1, .got 1 1 wNew false, .tagged 1 1 wNew ⟨sActive, 1, 1⟩, .phaseBegin 1 1,
   .phaseEnd 1 1 sSuspended, .restore1 1 1 ⟨sActive, 1, 1⟩ ⟨sSuspended, 1, 2⟩,
   .stsEnter 2 1 sPending, .stsLoad 2 1 ⟨sSuspended, 1, 2⟩, .restore2 2 1 ⟨sSuspended, 1, 2⟩ ⟨sPending, 4, 3⟩,
   .push 2 1, .stsDone 2 1,
   .got 1 1 ⟨sPending, 4, 3⟩ false, .tagged 1 1 ⟨sPending, 4, 3⟩ ⟨sActive, 4, 4⟩]

/-- … a second waker (actor 3) finds it active in that window and leaves a helper remembering
    `(active, 4, 4)`; the phase starts and fetches the restart state (`sw.setex`: `(active, 1, 4)`);
    the helper task (actor 4) loads `(active, 1, 4)`: same state, same tag, different word — it gives
    up; the task suspends again and nothing is left that would wake it -/
def cornerPost : List Ev :=
  [.stsLoad 3 1 ⟨sActive, 4, 4⟩, .stsHelper 3 1,
   .phaseBegin 1 1, .setex 1 1 ⟨sActive, 4, 4⟩ ⟨sActive, 1, 4⟩,
   .sasLoad 4 1 ⟨sActive, 1, 4⟩ ⟨sActive, 4, 4⟩, .sasAbort 4 1,
   .phaseEnd 1 1 sSuspended, .restore1 1 1 ⟨sActive, 1, 4⟩ ⟨sSuspended, 1, 5⟩]

def cornerLog : List Ev := cornerPre ++ .stsEnter 3 1 sPending :: cornerPost

theorem cornerLog_ok : (runLog step init cornerLog).isSome = true := by decide

def sCorner : St := (runLog step init cornerLog).get cornerLog_ok

theorem sCorner_run : runLog step init cornerLog = some sCorner := by simp [sCorner]

theorem sCorner_obj (o : Nat) : sCorner.obj o = if o = 1 then
    { live := true, fresh := false, w := ⟨sSuspended, 1, 5⟩, owner := none, inPhase := false, ranPhase := true,
      result := sSuspended, q := 0, holder := none, hexp := ⟨sPending, 4, 3⟩, pusher := none, helpers := [], epoch := 2 }
    else {} := by
  by_cases ho : o = 1 <;>
  simp (config := {decide := true}) [ho, sCorner, cornerLog, cornerPre, cornerPost, runLog, step, init, upd, wNew, sSuspended, sActive, sPending]

theorem sCorner_act (a : Nat) : sCorner.act a = {} := by
  by_cases h2 : a = 2 <;> by_cases h3 : a = 3 <;> by_cases h4 : a = 4 <;>
  simp (config := {decide := true}) [h2, h3, h4, sCorner, cornerLog, cornerPre, cornerPost, runLog, step, init, upd, wNew, sSuspended, sActive, sPending]

theorem sCorner_quiescent : Quiescent sCorner := by
  apply quiescent_of_rest
  · intro o hl; rw [sCorner_obj] at hl ⊢; split <;> simp_all
  · intro a; rw [sCorner_act]; simp

end PikaVerif.Sched
