import PikaVerif.Lemmas.StopT
import PikaVerif.Lemmas.Stop9
/-!
# Run-level consequences of the measure (follow-up C14t)

* `mu_step` — one accepted event: stutter ⇒ state unchanged; environment ⇒ `mu` grows by at most
  `invCost` (only `inv` adds anything); every other event ⇒ `mu` strictly decreases.
* `run_bound` — along every accepted log: moving events + final `mu` ≤ initial `mu` +
  `invCost` · (number of invoked operations).
* `stutter_reload`, `stutter_casFail` — what the stutters are.
* `not_maximal_moves` — a state with an enabled productive event has an enabled productive event
  that is not a stutter.
* `wait_released` — an activity leaves `wait c` only by its own `stop.waited`.
-/
namespace PikaVerif.Stop
open PikaVerif

/-- pika's own non-stutter steps -/
def moving (s : St) (e : Ev) : Bool := !envEv e && !stutter s e

theorem mu_step (s s' : St) (e : Ev) (h : step s e = some s') :
    s'.n = s.n ∧
    (stutter s e = true → s' = s) ∧
    (moving s e = true → mu s' < mu s) ∧
    (envEv e = true → mu s' ≤ mu s + (if isInv e then invCost s else 0)) ∧
    (∀ a, e = .done a → mu s' < mu s) := by
  refine ⟨step_n s s' e h, ?_⟩
  have hdone : ∀ a, e = .done a → mu s' < mu s := fun a he => by subst he; exact mu_done s s' a h
  suffices hh : (stutter s e = true → s' = s) ∧ (moving s e = true → mu s' < mu s) ∧
      (envEv e = true → mu s' ≤ mu s + (if isInv e then invCost s else 0)) from ⟨hh.1, hh.2.1, hh.2.2, hdone⟩
  cases e with
  | inv a k => simp [stutter, moving, envEv, isInv]; exact mu_inv s s' a k h
  | ret a r => simp [stutter, moving, envEv]; exact mu_ret s s' a r h
  | load a lk rq src => simp [stutter, moving, envEv]; exact mu_load s s' a lk rq src h
  | casFail a lk rq src =>
    have := mu_casFail s s' a lk rq src h
    simp only [moving, envEv, Bool.not_false, Bool.true_and, Bool.not_eq_true', Bool.false_eq_true, false_imp_iff,
      and_true]
    exact this
  | reload a lk rq src =>
    have := mu_reload s s' a lk rq src h
    simp only [moving, envEv, Bool.not_false, Bool.true_and, Bool.not_eq_true', Bool.false_eq_true, false_imp_iff,
      and_true]
    exact this
  | acq a => simp [stutter, moving, envEv]; exact mu_acq s s' a h
  | deq a c m => simp [stutter, moving, envEv]; exact mu_deq s s' a c m h
  | rsDone a => simp [stutter, moving, envEv]; exact mu_rsDone s s' a h
  | preExec a c => simp [stutter, moving, envEv]; exact mu_preExec s s' a c h
  | cbBegin a c => simp [stutter, moving, envEv]; exact mu_cbBegin s s' a c h
  | cbEnd a c => simp [stutter, moving, envEv]; exact mu_cbEnd s s' a c h
  | finStore a c r => simp [stutter, moving, envEv]; exact mu_finStore s s' a c r h
  | inFin a c => simp [stutter, moving, envEv]; exact mu_inFin s s' a c h
  | push a c b => simp [stutter, moving, envEv]; exact mu_push s s' a c b h
  | unlink a c r => simp [stutter, moving, envEv]; exact mu_unlink s s' a c r h
  | selfChk a c e p => simp [stutter, moving, envEv]; exact mu_selfChk s s' a c e p h
  | waited a c => simp [stutter, moving, envEv]; exact mu_waited s s' a c h
  | srcInc a => simp [stutter, moving, envEv, isInv]; exact Nat.le_of_eq (mu_srcInc s s' a h)
  | srcDec a => simp [stutter, moving, envEv, isInv]; exact Nat.le_of_eq (mu_srcDec s s' a h)
  | query a x y => simp [stutter, moving, envEv, isInv]; exact Nat.le_of_eq (congrArg mu (query_same s s' a x y h))
  | done a => simp [stutter, moving, envEv, isInv]; exact Nat.le_of_lt (mu_done s s' a h)

/-- number of moving events along the run of `l` from `s` -/
def nMoves : St → List Ev → Nat
  | _, [] => 0
  | s, e :: l =>
    match step s e with
    | none => 0
    | some s' => (if moving s e then 1 else 0) + nMoves s' l

/-- number of operations invoked in a log -/
def nInv : List Ev → Nat
  | [] => 0
  | e :: l => (if isInv e then 1 else 0) + nInv l

theorem invCost_eq (s s' : St) (h : s'.n = s.n) : invCost s' = invCost s := by
  simp [invCost, muL, muW, h]

theorem run_n (s s' : St) (l : List Ev) (h : runLog step s l = some s') : s'.n = s.n := by
  induction l generalizing s with
  | nil => simp at h; rw [h]
  | cons e es ih =>
    simp only [runLog] at h
    cases hs : step s e with
    | none => simp [hs] at h
    | some s1 => simp only [hs] at h; rw [ih s1 h, step_n s s1 e hs]

/-- **Bound of every accepted log.** -/
theorem run_bound (s s' : St) (l : List Ev) (h : runLog step s l = some s') :
    nMoves s l + mu s' ≤ mu s + invCost s * nInv l := by
  induction l generalizing s with
  | nil => simp at h; subst h; simp [nMoves, nInv]
  | cons e es ih =>
    simp only [runLog] at h
    cases hs : step s e with
    | none => simp [hs] at h
    | some s1 =>
      simp only [hs] at h
      have h1 := ih s1 h
      obtain ⟨hn, hst, hmv, henv, _⟩ := mu_step s s1 e hs
      rw [invCost_eq s s1 hn] at h1
      simp only [nMoves, hs, nInv, Nat.mul_add]
      cases hm : moving s e
      · cases he : envEv e
        · have hstt : stutter s e = true := by
            simp only [moving, he, Bool.not_false, Bool.true_and, Bool.not_eq_false'] at hm
            simpa using hm
          have := hst hstt; subst this
          have : isInv e = false := by cases e <;> simp_all [envEv, isInv]
          simp [this]; omega
        · have := henv he
          cases hi : isInv e <;> simp [hi] at this ⊢ <;> omega
      · have := hmv hm
        have : isInv e = false := by cases e <;> simp_all [moving, envEv, isInv]
        simp [this]; omega

/-- a re-load is a stutter only when it saw the lock bit: somebody holds the lock -/
theorem stutter_reload (s s' : St) (a : Nat) (lk rq : Bool) (src : Nat)
    (h : step s (.reload a lk rq src) = some s') (hs : stutter s (.reload a lk rq src) = true) :
    lk = true ∧ s.lock.isSome = true ∧ ∃ k, s.pc a = .spin k := by
  simp only [step] at h
  split at h
  · next hc =>
    split at h
    · next k hk =>
      simp only [stutter, hk, decide_eq_true_eq] at hs
      have : lk = true := by
        cases lk
        · exfalso; cases k <;> simp [checked] at hs <;> (repeat' split at hs) <;> simp at hs
        · rfl
      exact ⟨this, by rw [← hc.2.1, this], k, hk⟩
    · simp at h
  · simp at h

/-- a failed CAS is a stutter only when it is spurious: the word is unlocked and its stop bit is
    the expected one (weak CAS, or only the source count changed) -/
theorem stutter_casFail (s s' : St) (a : Nat) (lk rq : Bool) (src : Nat)
    (h : step s (.casFail a lk rq src) = some s') (hs : stutter s (.casFail a lk rq src) = true) :
    lk = false ∧ s.lock = none ∧ ∃ k, s.pc a = .cas k s.req := by
  simp only [step] at h
  split at h
  · next hc =>
    split at h
    · next k b hk =>
      simp only [stutter, hk, decide_eq_true_eq] at hs
      have h2 : lk = false ∧ b = rq := by
        cases lk
        · cases hf : s.fixCas
          · simp [hf] at hs; exact ⟨rfl, hs.symm⟩
          · simp only [hf, if_true] at hs
            refine ⟨rfl, ?_⟩
            cases k <;> simp [checked] at hs <;> (repeat' split at hs) <;> simp_all
        · exfalso
          cases hf : s.fixCas
          · simp [hf] at hs
          · simp only [hf, if_true] at hs
            cases k <;> simp [checked] at hs <;> (repeat' split at hs) <;> simp at hs
      refine ⟨h2.1, ?_, k, ?_⟩
      · have := hc.2.1; rw [h2.1] at this
        cases hl : s.lock <;> simp [hl] at this ⊢
      · rw [hk, h2.2, hc.2.2.1]
    · simp at h
  · simp at h

/-- the stuttering CAS could have succeeded: `stop.acq` is accepted in the same state -/
theorem acq_enabled_of_cas (s : St) (a : Nat) (k : Kind) (ha : a < s.n) (hl : s.lock = none)
    (hk : s.pc a = .cas k s.req) : (step s (.acq a)).isSome = true := by
  cases k <;> simp [step, ha, hl, hk]

/-- a state that accepts a productive event accepts a productive event that is not a stutter -/
theorem not_maximal_moves (s : St) (e : Ev) (hp : productive e = true) (he : enabled s e = true) :
    ∃ e', productive e' = true ∧ enabled s e' = true ∧ moving s e' = true := by
  cases hm : moving s e
  · have henv : envEv e = false := by cases e <;> simp_all [productive, envEv]
    have hst : stutter s e = true := by
      simp only [moving, henv, Bool.not_false, Bool.true_and, Bool.not_eq_false'] at hm
      simpa using hm
    simp only [enabled, Option.isSome_iff_exists] at he
    obtain ⟨s', hs'⟩ := he
    cases e with
    | casFail a lk rq src =>
      obtain ⟨_, hl, k, hk⟩ := stutter_casFail s s' a lk rq src hs' hst
      have ha : a < s.n := by
        simp only [step] at hs'
        split at hs'
        · next hc => exact hc.1
        · simp at hs'
      exact ⟨.acq a, rfl, acq_enabled_of_cas s a k ha hl hk, by simp [moving, envEv, stutter]⟩
    | reload a lk rq src =>
      obtain ⟨h1, _⟩ := stutter_reload s s' a lk rq src hs' hst
      simp [productive, h1] at hp
    | _ => simp [stutter] at hst
  · exact ⟨e, hp, he, hm⟩

/-- an activity in `wait c` stays there until its own `stop.waited` is accepted -/
theorem wait_step (s s' : St) (e : Ev) (a c : Nat) (h : step s e = some s') (hw : s.pc a = .wait c) :
    s'.pc a = .wait c ∨ e = .waited a c := by
  by_cases hact : actor e = a
  · cases e <;> simp only [actor] at hact <;> subst hact <;> simp only [step] at h <;>
      (repeat' split at h) <;>
      first
        | (left; simp only [Option.some.injEq] at h; subst h; exact hw)
        | simp_all
  · left
    rw [← hw]
    cases e <;> simp only [actor] at hact <;> simp only [step] at h <;> (repeat' split at h) <;>
      first
        | (exfalso; simp at h; done)
        | (simp only [Option.some.injEq] at h; subst h; simp only [upd_other _ _ _ _ (Ne.symm hact)])
        | (simp only [Option.some.injEq] at h; subst h; rfl)

theorem wait_released (s s' : St) (l : List Ev) (a c : Nat) (h : runLog step s l = some s')
    (hw : s.pc a = .wait c) (hn : s'.pc a ≠ .wait c) : Ev.waited a c ∈ l := by
  induction l generalizing s with
  | nil => simp at h; subst h; exact absurd hw hn
  | cons e es ih =>
    simp only [runLog] at h
    cases hs : step s e with
    | none => simp [hs] at h
    | some s1 =>
      simp only [hs] at h
      rcases wait_step s s1 e a c hs hw with h1 | h1
      · exact List.mem_cons_of_mem _ (ih s1 h h1)
      · rw [h1]; exact List.mem_cons_self

end PikaVerif.Stop
