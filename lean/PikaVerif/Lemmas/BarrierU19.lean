import PikaVerif.Lemmas.BarrierU18
/-! C09u, coarse barrier: initial instrumented state, explicit unconditional bound, maximal
    extensions. -/
namespace PikaVerif.Barrier
open PikaVerif PikaVerif.C09Barrier

def ginit (p : PSt) : GSt := ⟨p, fun _ => 0, fun _ => false⟩

theorem ginv_init (n N : Nat) (prog : Nat → List Op) : GInv N (ginit (pinit n N prog)) := by
  refine ⟨⟨n, N, [], rfl⟩, ?_, Nat.le_refl _⟩
  intro t; simp [ginit, pinit, init, SWt]

theorem progCost2_append (B : Nat) (l₁ l₂ : List Op) :
    progCost2 B (l₁ ++ l₂) = progCost2 B l₁ + progCost2 B l₂ := by
  induction l₁ with
  | nil => simp [progCost2]
  | cons o l ih => simp only [List.cons_append, progCost2, ih]; omega

theorem progCost2_aw (B P : Nat) : progCost2 B (List.replicate P .aw) = P * (6 * B + 14) := by
  induction P with
  | zero => simp [progCost2]
  | succ k ih =>
    simp only [List.replicate_succ, progCost2, ih, opRank2, cc2, Nat.succ_mul]; omega

theorem progCost2_awd (B P : Nat) (d : Nat → Bool) (t : Nat) :
    progCost2 B (awdProg P d t) ≤ P * (6 * B + 14) + (6 * B + 15) := by
  simp only [awdProg, progCost2_append, progCost2_aw]
  split <;> simp [progCost2, opRank2, cc2]

/-- explicit unconditional bound: `N·(P·(6N+14) + 6N+15) + N` -/
def boundG (N P : Nat) : Nat := N * (P * (6 * N + 14) + (6 * N + 15)) + N

theorem phi2_init (N P : Nat) (d : Nat → Bool) : phi2 N (ginit (pinit N N (awdProg P d))) ≤ boundG N P := by
  simp only [phi2, mu2, ginit, pinit, init]
  have h1 : sumTo N (fun _ => pot N 0 false Pc.idle) = N := by rw [sumTo_const]; simp [pot]
  have h2 := sumTo_le_of_le (n := N) (f := fun t => progCost2 N (awdProg P d t))
    (g := fun _ => P * (6 * N + 14) + (6 * N + 15)) (fun t _ => progCost2_awd N P d t)
  rw [sumTo_const] at h2
  rw [h1]; simp only [boundG]; omega

/-- **Unconditional length bound modulo the poll stutter.** -/
theorem length_bound (N P : Nat) (d : Nat → Bool) (log : List Ev) (p : PSt)
    (h : runLog pstep (pinit N N (awdProg P d)) log = some p) :
    log.length ≤ boundG N P + stutters log := by
  obtain ⟨g', hg, _⟩ := runLog_pstep_gstep log (ginit (pinit N N (awdProg P d))) p h
  have := runLog_phi2 N log _ g' (ginv_init N N _) hg
  have := phi2_init N P d
  omega

/-- **Every state of an instrumented run can be run on, by non-stutter events, to a maximal state.** -/
theorem exists_maximal_from (B : Nat) : ∀ (k : Nat) (g : GSt), GInv B g → phi2 B g ≤ k →
    ∃ ext g', runLog gstep g ext = some g' ∧ Maximal g'.p ∧ stutters ext = 0 := by
  intro k
  induction k with
  | zero =>
    intro g hi hk
    refine ⟨[], g, rfl, ?_, rfl⟩
    intro e p' hp
    apply Classical.byContradiction; intro hst
    have hg : gstep g e = some (ghost g e p') := by simp [gstep, hp]
    have := phi2_step B g _ e hi.r hi.sw hi.b hg (by simpa using hst)
    omega
  | succ k ih =>
    intro g hi hk
    by_cases hmx : Maximal g.p
    · exact ⟨[], g, rfl, hmx, rfl⟩
    · have : ∃ e p', pstep g.p e = some p' ∧ isStutter e = false := by
        apply Classical.byContradiction; intro hc
        apply hmx; intro e p' hp
        apply Classical.byContradiction; intro hst
        exact hc ⟨e, p', hp, by simpa using hst⟩
      obtain ⟨e, p', hp, hst⟩ := this
      have hg : gstep g e = some (ghost g e p') := by simp [gstep, hp]
      have hlt := phi2_step B g _ e hi.r hi.sw hi.b hg hst
      obtain ⟨ext, g', hrun, hmax, hs0⟩ := ih _ (ginv_step B g _ e hi hg) (by omega)
      refine ⟨e :: ext, g', ?_, hmax, ?_⟩
      · simp only [runLog, hg]; exact hrun
      · simp only [stutters, hst, hs0]; simp

theorem maximal_exists (N P : Nat) (d : Nat → Bool) (log : List Ev) (p : PSt)
    (h : runLog pstep (pinit N N (awdProg P d)) log = some p) :
    ∃ ext p', runLog pstep (pinit N N (awdProg P d)) (log ++ ext) = some p' ∧ Maximal p' ∧ stutters ext = 0 := by
  obtain ⟨g, hg, hgp⟩ := runLog_pstep_gstep log (ginit (pinit N N (awdProg P d))) p h
  have hi : GInv N g := inv_of_runLog (GInv N) (fun g e g' hi hs => ginv_step N g g' e hi hs) (ginv_init N N _) hg
  obtain ⟨ext, g', hrun, hmax, hs0⟩ := exists_maximal_from N _ g hi (Nat.le_refl _)
  refine ⟨ext, g'.p, ?_, hmax, hs0⟩
  rw [runLog_append, h]
  have := runLog_gstep_pstep ext g g' hrun
  rw [hgp] at this
  simpa using this

end PikaVerif.Barrier
