import PikaVerif.Model.BarrierT
import PikaVerif.Lemmas.Barrier6
/-! Refinement of the coarse barrier model by the fine one (`Model/BarrierT.lean`): every accepted
    fine log projects to an accepted coarse log whose final state is the abstraction of the fine
    final state.  The proof needs the coarse invariants (a last arriver excludes every other
    arriving thread) exactly at the point where the first model *assumed* atomicity: a `fetch_sub`
    of `arrive_and_drop` cannot fall between `expected_adjustment.load()` and `.store(0)`. -/
namespace PikaVerif.BarrierT
open PikaVerif PikaVerif.Barrier

/-- Coarse events that neither read nor write `expected`, `adj`, `win`. -/
def framed : Barrier.Ev → Bool
  | .inv _ _ | .cas _ _ _ _ | .cas2 _ _ _ _ | .poll _ _ _ | .ret _ | .done _ => true
  | _ => false

structure J (s : St) : Prop where
  wxPub : ∀ t, s.wx t ≠ .none → isPub (s.c.pc t) = true
  adjdEq : ∀ t a, s.wx t = .adjd a → s.c.adj = a
  lost0 : s.lost = 0
  /-- inside the completion step, before the load: `expected` and the adjustment are those of the
      phase; after the load: the phase's drops were loaded and applied -/
  cdoneEq : ∀ t, s.wx t = .cdone → s.c.expected = s.c.e0 ∧ s.c.adj = s.c.drops
  adjdVal : ∀ t a, s.wx t = .adjd a → a = s.c.drops ∧ s.c.expected = s.c.e0 - s.c.drops

structure FInv (s : St) : Prop where
  a : InvA (abs s)
  b : InvB (abs s)
  c : InvC (abs s)
  j : J s

@[simp] theorem abs_pc (s : St) : (abs s).pc = s.c.pc := rfl
@[simp] theorem abs_win (s : St) : (abs s).win = s.c.win := rfl
@[simp] theorem abs_n (s : St) : (abs s).n = s.c.n := rfl
@[simp] theorem abs_count (s : St) : (abs s).count = s.c.count := rfl
@[simp] theorem abs_e0 (s : St) : (abs s).e0 = s.c.e0 := rfl
@[simp] theorem abs_ph (s : St) : (abs s).ph = s.c.ph := rfl
@[simp] theorem abs_phase (s : St) : (abs s).phase = s.c.phase := rfl
@[simp] theorem abs_tok (s : St) : (abs s).tok = s.c.tok := rfl
@[simp] theorem abs_tokIdx (s : St) : (abs s).tokIdx = s.c.tokIdx := rfl
@[simp] theorem abs_compls (s : St) : (abs s).compls = s.c.compls := rfl
@[simp] theorem abs_drops (s : St) : (abs s).drops = s.c.drops := rfl
@[simp] theorem abs_tk (s : St) : (abs s).tk = s.c.tk := rfl

theorem abs_eq {s : St} (h : ∀ w, s.c.win = some w → s.wx w = .none) : abs s = s.c := by
  have h1 : aexp s = s.c.expected := by
    unfold aexp; cases hw : s.c.win with
    | none => rfl
    | some w => simp [h w hw]
  have h2 : aadj s = s.c.adj := by
    unfold aadj; cases hw : s.c.win with
    | none => rfl
    | some w => simp [h w hw]
  unfold abs; rw [h1, h2]

theorem abs_eq_of_none {s : St} (h : s.c.win = none) : abs s = s.c :=
  abs_eq (by intro w hw; rw [h] at hw; cases hw)

/-- The fine state changed only in fields the abstraction does not look at, or in coarse fields
    other than `win`, `expected`, `adj`. -/
theorem abs_of_keeps (s : St) (c' : Barrier.St) (tm bl : Nat → Bool)
    (h1 : c'.win = s.c.win) (h2 : c'.expected = s.c.expected) (h3 : c'.adj = s.c.adj) :
    abs { s with c := c', timed := tm, blk := bl } = { c' with expected := aexp s, adj := aadj s } := by
  unfold abs aexp aadj; simp only [h1, h2, h3]

/-- A thread with a sub-state of the completion step is the registered last arriver. -/
theorem win_of_wx {s : St} (hi : FInv s) {t : Nat} (h : s.wx t ≠ .none) : s.c.win = some t := by
  have hp := hi.j.wxPub t h
  have := hi.b.winOk t (by simp [isWin, hp])
  simpa using this

theorem wx_none_of_win_none {s : St} (hi : FInv s) (h : s.c.win = none) (t : Nat) : s.wx t = .none := by
  by_cases hx : s.wx t = .none
  · exact hx
  · have := win_of_wx hi hx; rw [h] at this; cases this

end PikaVerif.BarrierT
