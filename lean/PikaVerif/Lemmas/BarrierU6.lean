import PikaVerif.Lemmas.BarrierU5
import PikaVerif.Props.C09Barrier
/-! C09u, coarse barrier: final states of maximal runs of `arrive_and_wait` programs. -/
namespace PikaVerif.Barrier
open PikaVerif PikaVerif.C09Barrier

/-- a program state is *maximal* when the only events the program layer accepts are stutters
    (`poll` that sees the byte of its own token); in particular no miss is accepted either -/
def Maximal (p : PSt) : Prop := ∀ e p', pstep p e = some p' → isStutter e = true

theorem maximal_quiescent (p : PSt) (hm : Maximal p) : Quiescent p.s := by
  intro e s' hs
  by_cases hi : isInv e = true
  · cases e <;> simp [isInv] at hi
    exact Or.inl ⟨_, _, rfl⟩
  · by_cases hd : ∃ t, e = .done t
    · exact Or.inr (Or.inl hd)
    · have hps := pstep_other p e s' (by simpa using hi) (fun t he => hd ⟨t, he⟩) hs
      have hst := hm e _ hps
      have hid := stutter_id _ _ _ hst hs
      cases e <;> simp [isStutter] at hst
      rename_i t tok seen
      refine Or.inr (Or.inr ⟨t, tok, seen, rfl, ?_⟩)
      rw [hid]
      simp only [step] at hs; split at hs
      · rename_i hg; exact hg.2.1
      · simp at hs

/-- **Final states.**  In a maximal reachable state of the program "`N` threads, each `P` times
    `arrive_and_wait`" every thread has ended with an empty list, `P` phases are complete and no
    last arriver is pending. -/
theorem maximal_final (N P : Nat) (p : PSt) (hr : Reachable p.s) (hi : AllU N P p) (hm : Maximal p) :
    (∀ t, t < N → p.s.pc t = .fin ∧ p.prog t = []) ∧ (1 ≤ N → p.s.ph = P) ∧ p.s.win = none := by
  obtain ⟨ha, hb, ⟨hn, hexp, hlists, hlo, hcnt, hpcs⟩, hf⟩ := hi
  have hq := maximal_quiescent p hm
  have hprog := C09B_progress p.s hr hq
  rw [hn] at hprog
  -- a polling thread that still sees its token is in the operation of the current phase
  have hA : ∀ t, t < N → p.s.pc t = .polling → p.s.phase = p.s.tok t → av P p.prog t = p.s.ph + 1 := by
    intro t ht hpc hph
    have h1 := hpcs t ht
    rw [hpc] at h1; simp only [PcU] at h1
    have h2 := hb.tokIdxOk t
    have h3 := hb.phaseEq
    have h4 := hlo t ht
    rw [h2.1, h3] at hph
    omega
  -- an idle thread has a non-empty list and the count of the phase is used up
  have hB : ∀ t, t < N → p.s.pc t = .idle → p.s.count = 0 := by
    intro t ht hpc
    cases hl : p.prog t with
    | nil =>
      exfalso
      cases hx : pstep p (.done t) with
      | some p' => have := hm _ _ hx; simp [isStutter] at this
      | none => simp [pstep, hl, step, hn, ht, hpc] at hx
    | cons o rest =>
      have ho : o = .aw := (hlists t ht).1 o (by rw [hl]; simp)
      subst ho
      apply Classical.byContradiction; intro hc
      cases hx : pstep p (.inv t .aw) with
      | some p' => have := hm _ _ hx; simp [isStutter] at this
      | none => simp [pstep, hl, step, hn, ht, hpc] at hx; omega
  have hle1 : ∀ c, c < N → av P p.prog c - p.s.ph ≤ 1 := by
    intro c hc
    have := PcU_le (hpcs c hc) (hb.tokIdxOk c).2
    omega
  have hnowin : p.s.win = none := by
    cases hw : p.s.win with
    | none => rfl
    | some t1 =>
      exfalso
      obtain ⟨h1, h2, _⟩ := hb.winConv t1 hw
      rcases hprog t1 (by omega) with h | h | ⟨h, _⟩ <;> rw [h] at h1 <;> simp [isWin, isWon, isPub] at h1
  by_cases hc0 : p.s.count = 0
  · -- everybody has arrived in the current phase: impossible unless N = 0
    by_cases hN : N = 0
    · exact ⟨fun t ht => by omega, fun h => by omega, hnowin⟩
    · exfalso
      have hall := all_one_of_sumTo_eq hle1 (by omega)
      have hpoll : ∀ t, t < N → p.s.pc t = .polling := by
        intro t ht
        have h1 := hpcs t ht
        have h2 := hall t ht
        rcases hprog t ht with h | h | ⟨h, _⟩
        · rw [h] at h1; simp only [PcU] at h1; omega
        · rw [h] at h1; simp only [PcU] at h1; omega
        · exact h
      have he0 := (hb.noWin hnowin).1
      apply tree_not_stuck hb
      · intro r; unfold Asum; rw [hn]
        exact sumTo_eq_zero (fun t ht => by rw [hpoll t ht]; rfl)
      · unfold Remsum; rw [hn]
        exact sumTo_eq_zero (fun t ht => by rw [hpoll t ht]; rfl)
      · exact hc0
      · omega
  · -- somebody has not arrived in the current phase: it has finished, so `ph = P`
    have hex : ∃ u, u < N ∧ av P p.prog u - p.s.ph = 0 := by
      apply Classical.byContradiction; intro hne
      have h1 : ∀ c, c < N → 1 ≤ av P p.prog c - p.s.ph := fun c hc => by
        have : ¬ (av P p.prog c - p.s.ph = 0) := fun h0 => hne ⟨c, hc, h0⟩
        omega
      have := sumTo_le_of_le (f := fun _ => 1) (g := fun t => av P p.prog t - p.s.ph) h1
      rw [sumTo_const] at this; omega
    obtain ⟨u, hu, hau⟩ := hex
    have hufin : p.s.pc u = .fin := by
      rcases hprog u hu with h | h | ⟨h, h'⟩
      · exact absurd (hB u hu h) hc0
      · exact h
      · have := hA u hu h h'; omega
    have hpu := hf u hufin
    have hphP : p.s.ph = P := by
      have := hlo u hu
      simp only [av, hpu, List.length_nil] at hau this; omega
    have hallfin : ∀ t, t < N → p.s.pc t = .fin := by
      intro t ht
      rcases hprog t ht with h | h | ⟨h, h'⟩
      · exact absurd (hB t ht h) hc0
      · exact h
      · have := hA t ht h h'; simp only [av] at this; omega
    exact ⟨fun t ht => ⟨hallfin t ht, hf t (hallfin t ht)⟩, fun _ => hphP, hnowin⟩

end PikaVerif.Barrier
