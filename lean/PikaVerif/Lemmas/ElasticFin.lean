import PikaVerif.Lemmas.ElasticT
/-! Owed steps of the runtime, maximal states and their characterisation (C19t). -/
namespace PikaVerif.Elastic
open PikaVerif

/-- the holder of a model hold of `w`'s pu mutex owes its release -/
def owedLk (s : St) (w : Nat) : Option (List Ev) :=
  match (s.wk w).lk with
  | some (a, .sel _) => some [.unl a w]
  | some (a, .susp) => some [.sunl a w]
  | none => none

/-- what worker `w`'s own thread owes: take queued work while it is in its loop (also in
    `pre_sleep`: it drains its own queue), the commit round `top ; qlen = 0 ; chk` once it is asked
    to sleep and sees nothing, the stores / waits of `scheduler_base::suspend`, the wake-up after a
    notify, the CAS back to `running`; the last worker, while `running`, converts the shared
    low-priority queue.  NOT owed: a wake-up without notify, anything of a thread that never started. -/
def owedPc (s : St) (w : Nat) : Option (List Ev) :=
  let x := s.wk w
  match x.pc with
  | .loop =>
    match x.actor with
    | none => none
    | some a =>
      if 0 < x.q then some [.dec a w]
      else if x.st = rsPreSleep then
        (if w = s.cfg.last ∧ 0 < s.lowq then none
         else some [.top w rsPreSleep, .qlen a w 0, .chk w rsPreSleep true])
      else if x.st = rsRunning ∧ w = s.cfg.last ∧ 0 < s.lowq then some [.decLow a]
      else none
  | .commit => some [.sleep w]
  | .stored => some [.wait w]
  | .waiting => if x.notified then some [.woke w] else none
  | .woken => some [.wake w x.st (if x.st = rsSleeping then rsRunning else x.st)]

/-- a refused call owes its return -/
def owedA (s : St) (a : Nat) : Option (List Ev) :=
  match s.apc a with
  | .refused => some [.ret a]
  | .idle => none

/-- nothing is owed by any worker / actor `< N` -/
def Maximal (N : Nat) (s : St) : Prop :=
  ∀ i, i < N → (owedLk s i).isNone = true ∧ (owedPc s i).isNone = true ∧ (owedA s i).isNone = true

instance (N : Nat) (s : St) : Decidable (Maximal N s) := by unfold Maximal; exact inferInstance

theorem owedLk_ok (N : Nat) (s : St) (w : Nat) (evs : List Ev) (hw : w < N) (h : owedLk s w = some evs) :
    ∃ s', runLog step s evs = some s' ∧ 1 ≤ nEff s evs ∧ wsum evs = 0 ∧ evs.length ≤ 3 ∧
      (∀ e, e ∈ evs → inR N e = true) := by
  simp only [owedLk] at h
  split at h
  · rename_i a g hl
    simp only [Option.some.injEq] at h
    subst h
    simp [runLog, step, hl, nEff, eff, b2n, wsum, weight, inR, hw]
  · rename_i a hl
    simp only [Option.some.injEq] at h
    subst h
    simp [runLog, step, hl, nEff, eff, moves, b2n, wsum, weight, inR, hw]
  · simp at h

theorem owedA_ok (N : Nat) (s : St) (a : Nat) (evs : List Ev) (ha : a < N) (h : owedA s a = some evs) :
    ∃ s', runLog step s evs = some s' ∧ 1 ≤ nEff s evs ∧ wsum evs = 0 ∧ evs.length ≤ 3 ∧
      (∀ e, e ∈ evs → inR N e = true) := by
  simp only [owedA] at h
  split at h
  · rename_i hp
    simp only [Option.some.injEq] at h
    subst h
    simp [runLog, step, hp, nEff, eff, b2n, wsum, weight, inR, ha]
  · simp at h

theorem owedPc_ok (N : Nat) (s : St) (w : Nat) (evs : List Ev) (hw : w < N) (h : owedPc s w = some evs) :
    ∃ s', runLog step s evs = some s' ∧ 1 ≤ nEff s evs ∧ wsum evs = 0 ∧ evs.length ≤ 3 ∧
      (∀ e, e ∈ evs → inR N e = true) := by
  simp only [owedPc] at h
  split at h
  · rename_i hpc
    split at h
    · simp at h
    · rename_i a ha
      split at h
      · rename_i hq
        simp only [Option.some.injEq] at h
        subst h
        simp [runLog, step, hq, ha, nEff, eff, moves, b2n, wsum, weight, inR, hw]
      · rename_i hq
        have hq0 : (s.wk w).q = 0 := by omega
        split at h
        · rename_i hst
          split at h
          · simp at h
          · rename_i hlow
            simp only [Option.some.injEq] at h
            subst h
            by_cases hl : w = s.cfg.last
            · have h0 : s.lowq = 0 := by
                have : ¬ 0 < s.lowq := fun hp => hlow ⟨hl, hp⟩
                omega
              simp [runLog, step, hst, hpc, ha, hq0, upd, nEff, eff, moves, b2n, wsum, weight, inR, hw, ← hl, h0]
            · simp [runLog, step, hst, hpc, ha, hq0, upd, nEff, eff, moves, b2n, wsum, weight, inR, hw, hl]
        · split at h
          · rename_i hg
            simp only [Option.some.injEq] at h
            subst h
            simp [runLog, step, hg.2.2, nEff, eff, moves, b2n, wsum, weight, inR]
          · simp at h
  · rename_i hpc
    simp only [Option.some.injEq] at h
    subst h
    simp [runLog, step, hpc, nEff, eff, moves, b2n, wsum, weight, inR, hw]
  · rename_i hpc
    simp only [Option.some.injEq] at h
    subst h
    simp [runLog, step, hpc, nEff, eff, moves, b2n, wsum, weight, inR, hw]
  · rename_i hpc
    split at h
    · simp only [Option.some.injEq] at h
      subst h
      simp [runLog, step, hpc, nEff, eff, moves, b2n, wsum, weight, inR, hw]
    · simp at h
  · rename_i hpc
    simp only [Option.some.injEq] at h
    subst h
    simp [runLog, step, hpc, nEff, eff, moves, b2n, wsum, weight, inR, hw]

theorem inv_runLog {s s' : St} {log : List Ev} (hi : Inv s) (h : runLog step s log = some s') : Inv s' :=
  inv_of_runLog Inv (fun s e s' => step_inv s s' e) hi h

/-- a non-maximal state has an owed macro-step: accepted, at most 3 events, strictly decreasing `mu` -/
theorem owed_of_not_maximal (N : Nat) (s : St) (hi : Inv s) (hm : ¬ Maximal N s) :
    ∃ evs s', runLog step s evs = some s' ∧ mu N s' < mu N s ∧ evs.length ≤ 3 ∧ wsum evs = 0 ∧
      (∀ e, e ∈ evs → inR N e = true) := by
  have hex : ∃ i, i < N ∧ ¬ ((owedLk s i).isNone = true ∧ (owedPc s i).isNone = true ∧ (owedA s i).isNone = true) := by
    apply Classical.byContradiction
    intro hne
    apply hm
    intro i hi'
    apply Classical.byContradiction
    intro hc
    exact hne ⟨i, hi', hc⟩
  obtain ⟨i, hiN, hnot⟩ := hex
  have key : ∃ evs s', runLog step s evs = some s' ∧ 1 ≤ nEff s evs ∧ wsum evs = 0 ∧ evs.length ≤ 3 ∧
      (∀ e, e ∈ evs → inR N e = true) := by
    cases h1 : owedLk s i with
    | some evs => exact ⟨evs, owedLk_ok N s i evs hiN h1⟩
    | none =>
      cases h2 : owedPc s i with
      | some evs => exact ⟨evs, owedPc_ok N s i evs hiN h2⟩
      | none =>
        cases h3 : owedA s i with
        | some evs => exact ⟨evs, owedA_ok N s i evs hiN h3⟩
        | none => exact absurd (by simp [h1, h2, h3]) hnot
  obtain ⟨evs, s', hrun, hn, hw0, hlen, hin⟩ := key
  have := mu_runLog N evs s s' hi hin hrun
  exact ⟨evs, s', hrun, by omega, hlen, hw0, hin⟩

/-- every state extends by owed steps to a maximal one within `3 * mu` events -/
theorem exists_maximal (N : Nat) : ∀ (n : Nat) (s : St), Inv s → mu N s ≤ n →
    ∃ ext s', runLog step s ext = some s' ∧ Maximal N s' ∧ ext.length ≤ 3 * mu N s ∧ wsum ext = 0 ∧
      (∀ e, e ∈ ext → inR N e = true) := by
  intro n
  induction n with
  | zero =>
    intro s hi h0
    by_cases hm : Maximal N s
    · exact ⟨[], s, rfl, hm, by simp, rfl, by intro e he; cases he⟩
    · obtain ⟨evs, s', _, hlt, _⟩ := owed_of_not_maximal N s hi hm
      omega
  | succ k ih =>
    intro s hi hk
    by_cases hm : Maximal N s
    · exact ⟨[], s, rfl, hm, by simp, rfl, by intro e he; cases he⟩
    · obtain ⟨evs, s1, hrun, hlt, hlen, hw0, hin⟩ := owed_of_not_maximal N s hi hm
      obtain ⟨ext, s2, hrun2, hmax, hlen2, hw2, hin2⟩ := ih s1 (inv_runLog hi hrun) (by omega)
      refine ⟨evs ++ ext, s2, ?_, hmax, ?_, ?_, ?_⟩
      · rw [runLog_append, hrun]; simpa using hrun2
      · simp only [List.length_append]; omega
      · have : ∀ (l1 l2 : List Ev), wsum (l1 ++ l2) = wsum l1 + wsum l2 := by
          intro l1 l2
          induction l1 with
          | nil => simp [wsum]
          | cons e es ih' => simp only [List.cons_append, wsum, ih']; omega
        rw [this, hw0, hw2]
      · intro e he
        simp only [List.mem_append] at he
        cases he with
        | inl h => exact hin e h
        | inr h => exact hin2 e h

/-- final condition of worker `w` -/
structure WFinal (s : St) (w : Nat) : Prop where
  lkFree : (s.wk w).lk = none
  pcFin : (s.wk w).pc = .loop ∨ ((s.wk w).pc = .waiting ∧ (s.wk w).notified = false ∧ (s.wk w).st = rsSleeping)
  /-- a started worker in its loop has taken everything from its own queues -/
  drained : (s.wk w).pc = .loop → (s.wk w).actor ≠ none → (s.wk w).q = 0
  /-- no suspension request is pending — except on the last worker while the shared low-priority
      queue is non-empty (finding `lowprio-last-worker`: it can neither run that work nor sleep) -/
  noPending : (s.wk w).actor ≠ none → (s.wk w).st = rsPreSleep → w = s.cfg.last ∧ 0 < s.lowq
  /-- the last worker, running, has converted the low-priority queue -/
  lowDone : (s.wk w).actor ≠ none → (s.wk w).st = rsRunning → w = s.cfg.last → s.lowq = 0

theorem final_of_maximal (N : Nat) (s : St) (hi : Inv s) (hm : Maximal N s) (w : Nat) (hw : w < N) :
    WFinal s w := by
  obtain ⟨h1, h2, _⟩ := hm w hw
  have hinv := hi w
  have hlk : (s.wk w).lk = none := by
    simp only [owedLk] at h1
    split at h1
    · simp at h1
    · simp at h1
    · assumption
  simp only [owedPc] at h2
  split at h2
  · rename_i hpc
    split at h2
    · rename_i ha
      exact ⟨hlk, Or.inl hpc, fun _ hx => absurd ha hx, fun hx => absurd ha hx, fun hx => absurd ha hx⟩
    · rename_i a ha
      split at h2
      · simp at h2
      · rename_i hq
        have hq0 : (s.wk w).q = 0 := by omega
        split at h2
        · rename_i hst
          split at h2
          · rename_i hlow
            refine ⟨hlk, Or.inl hpc, fun _ _ => hq0, fun _ _ => hlow, ?_⟩
            intro _ h5; rw [hst] at h5; cases h5
          · simp at h2
        · rename_i hst
          split at h2
          · simp at h2
          · rename_i hng
            refine ⟨hlk, Or.inl hpc, fun _ _ => hq0, fun _ h7 => absurd h7 hst, ?_⟩
            intro _ h5 hl
            have : ¬ 0 < s.lowq := fun hp => hng ⟨h5, hl, hp⟩
            omega
  · simp at h2
  · simp at h2
  · rename_i hpc
    split at h2
    · simp at h2
    · rename_i hn
      have hst : (s.wk w).st = rsSleeping := hinv.sleepSt (by rw [hpc]; decide) (by rw [hpc]; decide)
      refine ⟨hlk, Or.inr ⟨hpc, by simpa using hn, hst⟩, ?_, ?_, ?_⟩
      · intro h; rw [hpc] at h; cases h
      · intro _ h; rw [hst] at h; cases h
      · intro _ h; rw [hst] at h; cases h
  · simp at h2

end PikaVerif.Elastic
