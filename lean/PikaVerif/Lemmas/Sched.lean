import PikaVerif.Model.Sched
/-! Invariants of the scheduler protocol model: per-object token discipline. -/
namespace PikaVerif.Sched
open PikaVerif

def b2n (b : Bool) : Nat := if b then 1 else 0

/-- scheduling tokens of an object: queue entries + a holder + a pusher -/
def tokens (x : Obj) : Nat := x.q + b2n x.holder.isSome + b2n x.pusher.isSome

structure ObjInv (x : Obj) : Prop where
  ownerActive : x.live = true → (x.owner.isSome = true ↔ x.w.st = sActive)
  phaseOwner : x.inPhase = true → x.owner.isSome = true
  tokPending : x.live = true → x.fresh = false → pendingish x.w = true → tokens x = 1
  tokNone : x.live = true → pendingish x.w = false → tokens x = 0
  tokFresh : x.live = true → x.fresh = true → tokens x = 0 ∧ x.w.st = sPending ∧ x.owner = none ∧ x.inPhase = false
  hold : ∀ a, x.holder = some a → x.hexp = x.w
  helpersActive : ∀ h ∈ x.helpers, h.1.st = sActive
  resNotActive : x.ranPhase = true → x.result ≠ sActive
  boostPusher : x.live = true → x.w.st = sBoost → x.pusher.isSome = true

def Inv (s : St) : Prop := ∀ o, ObjInv (s.obj o)

theorem inv_init : Inv init := by
  intro o
  refine ⟨?_, ?_, ?_, ?_, ?_, ?_, ?_, ?_, ?_⟩ <;> simp [init]

attribute [local grind] tokens b2n pendingish unreferenced

set_option hygiene false in
macro "sched_step" : tactic => `(tactic| (
  simp only [step] at h
  repeat' split at h
  all_goals first | (simp at h; done) | skip
  all_goals (
    simp only [Option.some.injEq] at h
    subst h
    intro o'
    by_cases ho : o' = o
    · subst ho
      have hx := hi o'
      obtain ⟨h1,h2,h3,h4,h5,h6,h7,h8,h9⟩ := hx
      try simp only [upd_same]
      refine ⟨?_, ?_, ?_, ?_, ?_, ?_, ?_, ?_, ?_⟩ <;> first | grind | (cases hf : (s.obj o').fresh <;> grind)
    · try simp only [upd_other _ _ _ _ ho]
      exact hi o')))


theorem step_inv (s s' : St) (e : Ev) (hi : Inv s) (h : step s e = some s') : Inv s' := by
  cases e with
  | new a o w => sched_step
  | rebind a o w => sched_step
  | destroy a o w => sched_step
  | push a o => sched_step
  | got a o e f => sched_step
  | tagged a o b af => sched_step
  | phaseBegin a o => sched_step
  | setex a o b af => sched_step
  | phaseEnd a o r => sched_step
  | restore1 a o b af => sched_step
  | set a o b af => sched_step
  | stsEnter a o ns => sched_step
  | stsLoad a o w => sched_step
  | restore2 a o b af => sched_step
  | stsNoop a o => sched_step
  | stsHelper a o => sched_step
  | stsDone a o => sched_step
  | sasLoad a o c p => sched_step
  | sasAbort a o => sched_step
  | sasRetry a o => sched_step
  | bodyEnter a o => sched_step
  | bodyExit a o => sched_step

theorem inv_of_accepted {log : List Ev} {s : St} (h : runLog step init log = some s) : Inv s :=
  inv_of_runLog Inv (fun s e s' => step_inv s s' e) inv_init h

end PikaVerif.Sched

namespace PikaVerif.Sched
open PikaVerif

/-- Every step only increases epochs, and an object that is pending-ish after a step in which its
    epoch did not change was pending-ish before (every transition *into* a pending state bumps
    the epoch). -/
theorem obj_step (s s' : St) (e : Ev) (h : step s e = some s') (o' : Nat) :
    (s.obj o').epoch ≤ (s'.obj o').epoch ∧
    ((s'.obj o').epoch = (s.obj o').epoch → pendingish (s'.obj o').w = true → pendingish (s.obj o').w = true) := by
  cases e <;> simp only [step] at h <;> (repeat' split at h) <;>
    first
    | (simp at h; done)
    | (simp only [Option.some.injEq] at h; subst h; (try dsimp only); simp only [upd]; split <;> grind [pendingish])
    | (simp only [Option.some.injEq] at h; subst h; (try dsimp only); grind [pendingish])

/-- `obj_step` lifted to whole log segments. -/
theorem obj_log (log : List Ev) : ∀ (s s' : St), runLog step s log = some s' → ∀ o',
    (s.obj o').epoch ≤ (s'.obj o').epoch ∧
    ((s'.obj o').epoch = (s.obj o').epoch → pendingish (s'.obj o').w = true → pendingish (s.obj o').w = true) := by
  induction log with
  | nil => intro s s' h o'; simp at h; subst h; exact ⟨Nat.le_refl _, fun _ hp => hp⟩
  | cons e es ih =>
    intro s s' h o'
    simp only [runLog] at h
    cases hs : step s e with
    | none => simp [hs] at h
    | some s1 =>
      simp only [hs] at h
      have h1 := obj_step s s1 e hs o'
      have h2 := ih s1 s' h o'
      refine ⟨by omega, ?_⟩
      intro heq hp
      have e1 : (s'.obj o').epoch = (s1.obj o').epoch := by omega
      have e2 : (s1.obj o').epoch = (s.obj o').epoch := by omega
      exact h1.2 e2 (h2.2 e1 hp)

end PikaVerif.Sched
