import PikaVerif.Model.Join
/-! Inductive invariant of the join / exit-callback / interruption model. -/
namespace PikaVerif.Join
open PikaVerif

/-- the task holds `mtx_` of handle `h` -/
def holdsB (pc : JPc) (h : Nat) : Bool :=
  match pc with
  | .locked h' | .checked h' _ | .pointed h' _ | .added h' _ | .refused h' _ => h' == h
  | _ => false

/-- the task waits for the exit of target `o` (its callback is registered and not yet consumed) -/
def waitsB (pc : JPc) (o : Nat) : Bool :=
  match pc with
  | .added _ o' | .window _ o' | .susp _ o' => o' == o
  | _ => false

def waitsAny (pc : JPc) : Bool :=
  match pc with
  | .added _ _ | .window _ _ | .susp _ _ => true
  | _ => false

def wokeB (pc : JPc) (o : Nat) : Bool :=
  match pc with
  | .woke _ o' => o' == o
  | _ => false

def refusedB (pc : JPc) (o : Nat) : Bool :=
  match pc with
  | .refused _ o' => o' == o
  | _ => false

/-- the target named by a join in progress -/
def tgtB (pc : JPc) (o : Nat) : Bool :=
  match pc with
  | .checked _ o' | .pointed _ o' | .added _ o' | .refused _ o' | .window _ o'
  | .susp _ o' | .woke _ o' => o' == o
  | _ => false

/-- the task named by the operation in progress (join target or target of a user registration) -/
def namesB (pc : JPc) (o : Nat) : Bool :=
  match pc with
  | .checked _ o' | .pointed _ o' | .added _ o' | .refused _ o' | .window _ o'
  | .susp _ o' | .woke _ o' | .uadd o' _ => o' == o
  | _ => false

def isOut (pc : JPc) : Bool :=
  match pc with
  | .out => true
  | _ => false

/-- the processing of the exit callbacks has begun (so the thread function has returned) -/
def started (p : Phase) : Bool :=
  match p with
  | .loopHead | .run _ | .ranCb | .exitedL | .exited => true
  | _ => false

/-- the thread function is no longer running user code -/
def afterBody (p : Phase) : Bool :=
  match p with
  | .fresh | .body => false
  | _ => true

def cbIs (c : Cb) (j : Nat) : Nat :=
  match c with
  | .join i => if i = j then 1 else 0
  | .user _ => 0

/-- occurrences of the join callback of `j` in a callback list -/
def cntL (l : List Cb) (j : Nat) : Nat :=
  match l with
  | [] => 0
  | c :: l => cbIs c j + cntL l j

def runCnt (p : Phase) (j : Nat) : Nat :=
  match p with
  | .run c => cbIs c j
  | _ => 0

@[simp, grind =] theorem holdsB_out (h : Nat) : holdsB (JPc.out) h = false := rfl
@[simp, grind =] theorem holdsB_locked (h1 : Nat) (h : Nat) : holdsB (JPc.locked h1) h = (h1 == h) := rfl
@[simp, grind =] theorem holdsB_checked (h1 o1 : Nat) (h : Nat) : holdsB (JPc.checked h1 o1) h = (h1 == h) := rfl
@[simp, grind =] theorem holdsB_pointed (h1 o1 : Nat) (h : Nat) : holdsB (JPc.pointed h1 o1) h = (h1 == h) := rfl
@[simp, grind =] theorem holdsB_added (h1 o1 : Nat) (h : Nat) : holdsB (JPc.added h1 o1) h = (h1 == h) := rfl
@[simp, grind =] theorem holdsB_refused (h1 o1 : Nat) (h : Nat) : holdsB (JPc.refused h1 o1) h = (h1 == h) := rfl
@[simp, grind =] theorem holdsB_window (h1 o1 : Nat) (h : Nat) : holdsB (JPc.window h1 o1) h = false := rfl
@[simp, grind =] theorem holdsB_susp (h1 o1 : Nat) (h : Nat) : holdsB (JPc.susp h1 o1) h = false := rfl
@[simp, grind =] theorem holdsB_woke (h1 o1 : Nat) (h : Nat) : holdsB (JPc.woke h1 o1) h = false := rfl
@[simp, grind =] theorem holdsB_uadd (o1 k1 : Nat) (h : Nat) : holdsB (JPc.uadd o1 k1) h = false := rfl
@[simp, grind =] theorem waitsB_out (o : Nat) : waitsB (JPc.out) o = false := rfl
@[simp, grind =] theorem waitsB_locked (h1 : Nat) (o : Nat) : waitsB (JPc.locked h1) o = false := rfl
@[simp, grind =] theorem waitsB_checked (h1 o1 : Nat) (o : Nat) : waitsB (JPc.checked h1 o1) o = false := rfl
@[simp, grind =] theorem waitsB_pointed (h1 o1 : Nat) (o : Nat) : waitsB (JPc.pointed h1 o1) o = false := rfl
@[simp, grind =] theorem waitsB_added (h1 o1 : Nat) (o : Nat) : waitsB (JPc.added h1 o1) o = (o1 == o) := rfl
@[simp, grind =] theorem waitsB_refused (h1 o1 : Nat) (o : Nat) : waitsB (JPc.refused h1 o1) o = false := rfl
@[simp, grind =] theorem waitsB_window (h1 o1 : Nat) (o : Nat) : waitsB (JPc.window h1 o1) o = (o1 == o) := rfl
@[simp, grind =] theorem waitsB_susp (h1 o1 : Nat) (o : Nat) : waitsB (JPc.susp h1 o1) o = (o1 == o) := rfl
@[simp, grind =] theorem waitsB_woke (h1 o1 : Nat) (o : Nat) : waitsB (JPc.woke h1 o1) o = false := rfl
@[simp, grind =] theorem waitsB_uadd (o1 k1 : Nat) (o : Nat) : waitsB (JPc.uadd o1 k1) o = false := rfl
@[simp, grind =] theorem waitsAny_out : waitsAny (JPc.out) = false := rfl
@[simp, grind =] theorem waitsAny_locked (h1 : Nat) : waitsAny (JPc.locked h1) = false := rfl
@[simp, grind =] theorem waitsAny_checked (h1 o1 : Nat) : waitsAny (JPc.checked h1 o1) = false := rfl
@[simp, grind =] theorem waitsAny_pointed (h1 o1 : Nat) : waitsAny (JPc.pointed h1 o1) = false := rfl
@[simp, grind =] theorem waitsAny_added (h1 o1 : Nat) : waitsAny (JPc.added h1 o1) = true := rfl
@[simp, grind =] theorem waitsAny_refused (h1 o1 : Nat) : waitsAny (JPc.refused h1 o1) = false := rfl
@[simp, grind =] theorem waitsAny_window (h1 o1 : Nat) : waitsAny (JPc.window h1 o1) = true := rfl
@[simp, grind =] theorem waitsAny_susp (h1 o1 : Nat) : waitsAny (JPc.susp h1 o1) = true := rfl
@[simp, grind =] theorem waitsAny_woke (h1 o1 : Nat) : waitsAny (JPc.woke h1 o1) = false := rfl
@[simp, grind =] theorem waitsAny_uadd (o1 k1 : Nat) : waitsAny (JPc.uadd o1 k1) = false := rfl
@[simp, grind =] theorem wokeB_out (o : Nat) : wokeB (JPc.out) o = false := rfl
@[simp, grind =] theorem wokeB_locked (h1 : Nat) (o : Nat) : wokeB (JPc.locked h1) o = false := rfl
@[simp, grind =] theorem wokeB_checked (h1 o1 : Nat) (o : Nat) : wokeB (JPc.checked h1 o1) o = false := rfl
@[simp, grind =] theorem wokeB_pointed (h1 o1 : Nat) (o : Nat) : wokeB (JPc.pointed h1 o1) o = false := rfl
@[simp, grind =] theorem wokeB_added (h1 o1 : Nat) (o : Nat) : wokeB (JPc.added h1 o1) o = false := rfl
@[simp, grind =] theorem wokeB_refused (h1 o1 : Nat) (o : Nat) : wokeB (JPc.refused h1 o1) o = false := rfl
@[simp, grind =] theorem wokeB_window (h1 o1 : Nat) (o : Nat) : wokeB (JPc.window h1 o1) o = false := rfl
@[simp, grind =] theorem wokeB_susp (h1 o1 : Nat) (o : Nat) : wokeB (JPc.susp h1 o1) o = false := rfl
@[simp, grind =] theorem wokeB_woke (h1 o1 : Nat) (o : Nat) : wokeB (JPc.woke h1 o1) o = (o1 == o) := rfl
@[simp, grind =] theorem wokeB_uadd (o1 k1 : Nat) (o : Nat) : wokeB (JPc.uadd o1 k1) o = false := rfl
@[simp, grind =] theorem refusedB_out (o : Nat) : refusedB (JPc.out) o = false := rfl
@[simp, grind =] theorem refusedB_locked (h1 : Nat) (o : Nat) : refusedB (JPc.locked h1) o = false := rfl
@[simp, grind =] theorem refusedB_checked (h1 o1 : Nat) (o : Nat) : refusedB (JPc.checked h1 o1) o = false := rfl
@[simp, grind =] theorem refusedB_pointed (h1 o1 : Nat) (o : Nat) : refusedB (JPc.pointed h1 o1) o = false := rfl
@[simp, grind =] theorem refusedB_added (h1 o1 : Nat) (o : Nat) : refusedB (JPc.added h1 o1) o = false := rfl
@[simp, grind =] theorem refusedB_refused (h1 o1 : Nat) (o : Nat) : refusedB (JPc.refused h1 o1) o = (o1 == o) := rfl
@[simp, grind =] theorem refusedB_window (h1 o1 : Nat) (o : Nat) : refusedB (JPc.window h1 o1) o = false := rfl
@[simp, grind =] theorem refusedB_susp (h1 o1 : Nat) (o : Nat) : refusedB (JPc.susp h1 o1) o = false := rfl
@[simp, grind =] theorem refusedB_woke (h1 o1 : Nat) (o : Nat) : refusedB (JPc.woke h1 o1) o = false := rfl
@[simp, grind =] theorem refusedB_uadd (o1 k1 : Nat) (o : Nat) : refusedB (JPc.uadd o1 k1) o = false := rfl
@[simp, grind =] theorem tgtB_out (o : Nat) : tgtB (JPc.out) o = false := rfl
@[simp, grind =] theorem tgtB_locked (h1 : Nat) (o : Nat) : tgtB (JPc.locked h1) o = false := rfl
@[simp, grind =] theorem tgtB_checked (h1 o1 : Nat) (o : Nat) : tgtB (JPc.checked h1 o1) o = (o1 == o) := rfl
@[simp, grind =] theorem tgtB_pointed (h1 o1 : Nat) (o : Nat) : tgtB (JPc.pointed h1 o1) o = (o1 == o) := rfl
@[simp, grind =] theorem tgtB_added (h1 o1 : Nat) (o : Nat) : tgtB (JPc.added h1 o1) o = (o1 == o) := rfl
@[simp, grind =] theorem tgtB_refused (h1 o1 : Nat) (o : Nat) : tgtB (JPc.refused h1 o1) o = (o1 == o) := rfl
@[simp, grind =] theorem tgtB_window (h1 o1 : Nat) (o : Nat) : tgtB (JPc.window h1 o1) o = (o1 == o) := rfl
@[simp, grind =] theorem tgtB_susp (h1 o1 : Nat) (o : Nat) : tgtB (JPc.susp h1 o1) o = (o1 == o) := rfl
@[simp, grind =] theorem tgtB_woke (h1 o1 : Nat) (o : Nat) : tgtB (JPc.woke h1 o1) o = (o1 == o) := rfl
@[simp, grind =] theorem tgtB_uadd (o1 k1 : Nat) (o : Nat) : tgtB (JPc.uadd o1 k1) o = false := rfl
@[simp, grind =] theorem started_fresh : started (Phase.fresh) = false := rfl
@[simp, grind =] theorem started_body : started (Phase.body) = false := rfl
@[simp, grind =] theorem started_hit : started (Phase.hit) = false := rfl
@[simp, grind =] theorem started_unwinding : started (Phase.unwinding) = false := rfl
@[simp, grind =] theorem started_finished : started (Phase.finished) = false := rfl
@[simp, grind =] theorem started_loopHead : started (Phase.loopHead) = true := rfl
@[simp, grind =] theorem started_run (c1 : Cb) : started (Phase.run c1) = true := rfl
@[simp, grind =] theorem started_ranCb : started (Phase.ranCb) = true := rfl
@[simp, grind =] theorem started_exitedL : started (Phase.exitedL) = true := rfl
@[simp, grind =] theorem started_exited : started (Phase.exited) = true := rfl
@[simp, grind =] theorem afterBody_fresh : afterBody (Phase.fresh) = false := rfl
@[simp, grind =] theorem afterBody_body : afterBody (Phase.body) = false := rfl
@[simp, grind =] theorem afterBody_hit : afterBody (Phase.hit) = true := rfl
@[simp, grind =] theorem afterBody_unwinding : afterBody (Phase.unwinding) = true := rfl
@[simp, grind =] theorem afterBody_finished : afterBody (Phase.finished) = true := rfl
@[simp, grind =] theorem afterBody_loopHead : afterBody (Phase.loopHead) = true := rfl
@[simp, grind =] theorem afterBody_run (c1 : Cb) : afterBody (Phase.run c1) = true := rfl
@[simp, grind =] theorem afterBody_ranCb : afterBody (Phase.ranCb) = true := rfl
@[simp, grind =] theorem afterBody_exitedL : afterBody (Phase.exitedL) = true := rfl
@[simp, grind =] theorem afterBody_exited : afterBody (Phase.exited) = true := rfl
@[simp, grind =] theorem runCnt_fresh (j : Nat) : runCnt (Phase.fresh) j = 0 := rfl
@[simp, grind =] theorem runCnt_body (j : Nat) : runCnt (Phase.body) j = 0 := rfl
@[simp, grind =] theorem runCnt_hit (j : Nat) : runCnt (Phase.hit) j = 0 := rfl
@[simp, grind =] theorem runCnt_unwinding (j : Nat) : runCnt (Phase.unwinding) j = 0 := rfl
@[simp, grind =] theorem runCnt_finished (j : Nat) : runCnt (Phase.finished) j = 0 := rfl
@[simp, grind =] theorem runCnt_loopHead (j : Nat) : runCnt (Phase.loopHead) j = 0 := rfl
@[simp, grind =] theorem runCnt_run (c1 : Cb) (j : Nat) : runCnt (Phase.run c1) j = cbIs c1 j := rfl
@[simp, grind =] theorem runCnt_ranCb (j : Nat) : runCnt (Phase.ranCb) j = 0 := rfl
@[simp, grind =] theorem runCnt_exitedL (j : Nat) : runCnt (Phase.exitedL) j = 0 := rfl
@[simp, grind =] theorem runCnt_exited (j : Nat) : runCnt (Phase.exited) j = 0 := rfl
@[simp, grind =] theorem cbIs_join (i j : Nat) : cbIs (.join i) j = (if i = j then 1 else 0) := rfl
@[simp, grind =] theorem cbIs_user (k j : Nat) : cbIs (.user k) j = 0 := rfl
@[simp, grind =] theorem cntL_nil (j : Nat) : cntL [] j = 0 := rfl
@[simp, grind =] theorem cntL_cons (c : Cb) (l : List Cb) (j : Nat) : cntL (c :: l) j = cbIs c j + cntL l j := rfl
@[simp, grind =] theorem dtAllows_none (h : Nat) : dtAllows none h = true := rfl
@[simp, grind =] theorem dtAllows_some (h' h : Nat) (st : Bool) : dtAllows (some (h', st)) h = (h' == h && st) := rfl
@[simp, grind =] theorem joinedH_none (h : Nat) : joinedH none h = false := rfl
@[simp, grind =] theorem joinedH_some (h' o h : Nat) : joinedH (some (h', o)) h = (h' == h) := rfl

@[simp, grind =] theorem namesB_out (o : Nat) : namesB (JPc.out) o = false := rfl
@[simp, grind =] theorem isOut_out : isOut (JPc.out) = true := rfl
@[simp, grind =] theorem namesB_locked (h1 : Nat) (o : Nat) : namesB (JPc.locked h1) o = false := rfl
@[simp, grind =] theorem isOut_locked (h1 : Nat) : isOut (JPc.locked h1) = false := rfl
@[simp, grind =] theorem namesB_checked (h1 o1 : Nat) (o : Nat) : namesB (JPc.checked h1 o1) o = (o1 == o) := rfl
@[simp, grind =] theorem isOut_checked (h1 o1 : Nat) : isOut (JPc.checked h1 o1) = false := rfl
@[simp, grind =] theorem namesB_pointed (h1 o1 : Nat) (o : Nat) : namesB (JPc.pointed h1 o1) o = (o1 == o) := rfl
@[simp, grind =] theorem isOut_pointed (h1 o1 : Nat) : isOut (JPc.pointed h1 o1) = false := rfl
@[simp, grind =] theorem namesB_added (h1 o1 : Nat) (o : Nat) : namesB (JPc.added h1 o1) o = (o1 == o) := rfl
@[simp, grind =] theorem isOut_added (h1 o1 : Nat) : isOut (JPc.added h1 o1) = false := rfl
@[simp, grind =] theorem namesB_refused (h1 o1 : Nat) (o : Nat) : namesB (JPc.refused h1 o1) o = (o1 == o) := rfl
@[simp, grind =] theorem isOut_refused (h1 o1 : Nat) : isOut (JPc.refused h1 o1) = false := rfl
@[simp, grind =] theorem namesB_window (h1 o1 : Nat) (o : Nat) : namesB (JPc.window h1 o1) o = (o1 == o) := rfl
@[simp, grind =] theorem isOut_window (h1 o1 : Nat) : isOut (JPc.window h1 o1) = false := rfl
@[simp, grind =] theorem namesB_susp (h1 o1 : Nat) (o : Nat) : namesB (JPc.susp h1 o1) o = (o1 == o) := rfl
@[simp, grind =] theorem isOut_susp (h1 o1 : Nat) : isOut (JPc.susp h1 o1) = false := rfl
@[simp, grind =] theorem namesB_woke (h1 o1 : Nat) (o : Nat) : namesB (JPc.woke h1 o1) o = (o1 == o) := rfl
@[simp, grind =] theorem isOut_woke (h1 o1 : Nat) : isOut (JPc.woke h1 o1) = false := rfl
@[simp, grind =] theorem namesB_uadd (o1 k1 : Nat) (o : Nat) : namesB (JPc.uadd o1 k1) o = (o1 == o) := rfl
@[simp, grind =] theorem isOut_uadd (o1 k1 : Nat) : isOut (JPc.uadd o1 k1) = false := rfl

theorem waitsB_inj (pc : JPc) (a b : Nat) (h1 : waitsB pc a = true) (h2 : waitsB pc b = true) : a = b := by
  cases pc <;> simp_all

theorem waitsB_any (pc : JPc) (o : Nat) (h : waitsB pc o = true) : waitsAny pc = true := by
  cases pc <;> simp_all

structure Inv (s : St) : Prop where
  mtxHolder : ∀ h j, s.mtx h = some j → holdsB (s.jpc j) h = true
  holdsMtx : ∀ j h, holdsB (s.jpc j) h = true → s.mtx h = some j
  tgtThread : ∀ h o, s.hid h = some o → s.isThread o = true
  jTarget : ∀ j o, tgtB (s.jpc j) o = true → s.isThread o = true
  termExited : ∀ o, s.term o = true → s.isThread o = true → s.phase o = .exited
  ranPhase : ∀ o, s.ran o = true → (s.phase o = .exitedL ∨ s.phase o = .exited)
  phaseRan : ∀ o, (s.phase o = .exitedL ∨ s.phase o = .exited) → s.ran o = true
  ranEmpty : ∀ o, s.ran o = true → s.funcs o = []
  cbOwner : ∀ j o, 1 ≤ cntL (s.funcs o) j + runCnt (s.phase o) j → waitsB (s.jpc j) o = true
  tokWait : ∀ j, 1 ≤ s.tok j → waitsAny (s.jpc j) = true
  balance : ∀ j o, waitsB (s.jpc j) o = true → s.tok j + (cntL (s.funcs o) j + runCnt (s.phase o) j) = 1
  tokStarted : ∀ j o, waitsB (s.jpc j) o = true → 1 ≤ s.tok j → started (s.phase o) = true
  wokeStarted : ∀ j o, wokeB (s.jpc j) o = true → started (s.phase o) = true
  refusedDone : ∀ j o, refusedB (s.jpc j) o = true → (s.ran o = true ∨ s.term o = true)
  phaseOut : ∀ o, afterBody (s.phase o) = true → s.jpc o = .out
  lastJoinOk : ∀ j h o, s.lastJoin j = some (h, o) → started (s.phase o) = true
  tokLe : ∀ j, s.tok j ≤ 1
  jpcBody : ∀ j, isOut (s.jpc j) = false → s.phase j = .body
  selfFree : ∀ j, namesB (s.jpc j) j = false

theorem inv_init : Inv init := by
  refine ⟨?_, ?_, ?_, ?_, ?_, ?_, ?_, ?_, ?_, ?_, ?_, ?_, ?_, ?_, ?_, ?_, ?_, ?_, ?_⟩ <;> simp [init]


set_option hygiene false in
macro "join_step" : tactic => `(tactic| (
  simp only [step] at h
  obtain ⟨h1,h2,h3,h4,h5,h6,h7,h8,h9,h10,h11,h12,h13,h14,h15,h16,h17,h18,h19⟩ := hi
  repeat' split at h
  all_goals first | (simp at h; done) | skip
  all_goals (
    simp only [Option.some.injEq] at h
    subst h
    refine ⟨?_, ?_, ?_, ?_, ?_, ?_, ?_, ?_, ?_, ?_, ?_, ?_, ?_, ?_, ?_, ?_, ?_, ?_, ?_⟩ <;> try dsimp only)
  all_goals first
    | assumption
    | (intro a b; grind [upd, waitsB_inj, waitsB_any])
    | (intro a; grind [upd, waitsB_inj, waitsB_any])
    | (intro a b c; grind [upd, waitsB_inj, waitsB_any])))

end PikaVerif.Join
