import PikaVerif.Model.Fifo
/-! Inductive invariant of the FIFO wrapper model (`Model/Fifo.lean`), one lemma per event kind. -/
namespace PikaVerif.Fifo
open PikaVerif

/-- counted in `work_items_count_` but not in `stored` -/
def wc : Pc → Nat
  | .incd _ => 1 | .got _ => 1 | _ => 0
/-- occurrences of value `x` in flight inside the wrapper -/
def fl (x : Nat) : Pc → Nat
  | .incd v => if v = x then 1 else 0
  | .got v => if v = x then 1 else 0
  | _ => 0
/-- inside an inner-queue operation -/
def wa : Pc → Nat
  | .inPush => 1 | .inPop => 1 | _ => 0
def qk : QOp → Nat
  | .idle => 0 | .enq => 1 | .deq _ => 2
def pk : Pc → Nat
  | .inPush => 1 | .inPop => 2 | _ => 0

structure Inv (s : St) : Prop where
  outside : ∀ t, s.n ≤ t → s.pc t = .idle
  pend : ∀ t, qk (s.q.pend t) = pk (s.pc t)
  act : s.q.active = sumTo s.n (fun t => wa (s.pc t))
  cnt : s.count = (s.q.stored.length : Int) + (sumTo s.n (fun t => wc (s.pc t)) : Nat)
  cons : ∀ x, s.handed.count x = s.returned.count x + s.values.count x + sumTo s.n (fun t => fl x (s.pc t))

theorem inv_init (n : Nat) : Inv (init n) := by
  refine ⟨?_, ?_, ?_, ?_, ?_⟩ <;> simp [init, qinit, qk, pk, St.values, wa, wc, fl, sumTo_eq_zero]

theorem qk_markAll (p : Nat → QOp) (u : Nat) : qk (markAll p u) = qk (p u) := by
  unfold markAll; split <;> simp_all [qk]

theorem count_values_erase (l : List (Nat × Nat)) (p v x : Nat) (h : (p, v) ∈ l) :
    (l.map (·.2)).count x = ((l.erase (p, v)).map (·.2)).count x + (if v = x then 1 else 0) := by
  have hp := (List.perm_cons_erase h).map (·.2)
  rw [hp.count_eq]
  simp [List.count_cons]

attribute [local grind] wc fl wa qk pk canPop

theorem step_inv_inc (s s' : St) (t v : Nat) (hi : Inv s) (h : step s (.inc t v) = some s') : Inv s' := by
  simp only [step] at h
  obtain ⟨h1, h2, h3, h4, h5⟩ := hi
  split at h
  case isFalse => simp at h
  rename_i hg
  have htn : t < s.n := hg.1
  simp only [Option.some.injEq] at h
  subst h
  refine ⟨?_, ?_, ?_, ?_, ?_⟩ <;> dsimp only [St.values]
  · intro u; grind [upd]
  · intro u; grind [upd]
  · rw [sumTo_upd_eq _ _ _ _ _ htn]; grind
  · rw [sumTo_upd_eq _ _ _ _ _ htn]; grind
  · intro x
    have := h5 x
    have hle := le_sumTo (f := fun u => fl x (s.pc u)) htn
    rw [sumTo_upd_eq _ _ _ _ _ htn]
    simp only [List.count_append, List.count_singleton, St.values] at *
    grind

set_option hygiene false in
macro "fifo_step" t:term : tactic => `(tactic| (
  simp only [step, qstep] at h
  obtain ⟨h1, h2, h3, h4, h5⟩ := hi
  split at h
  case isFalse => simp at h
  rename_i hg
  have htn : $t < s.n := by grind
  have hlea := le_sumTo (f := fun u => wa (s.pc u)) htn
  have hlec := le_sumTo (f := fun u => wc (s.pc u)) htn
  repeat' split at h
  all_goals first | (simp at h; done) | skip
  all_goals (
    simp only [Option.map_some, Option.some.injEq] at h
    subst h
    refine ⟨?_, ?_, ?_, ?_, ?_⟩ <;> dsimp only [St.values]
  )
  all_goals first
    | assumption
    | (intro u; grind [upd, qk_markAll])
    | (rw [sumTo_upd_eq _ _ _ _ _ htn]; grind)
    | (intro x
       have := h5 x
       have hle := le_sumTo (f := fun u => fl x (s.pc u)) htn
       rw [sumTo_upd_eq _ _ _ _ _ htn]
       simp only [List.count_append, List.count_singleton, List.map_append, List.map_cons, List.map_nil, St.values] at *
       grind)
    | skip))

theorem step_inv_pushB (s s' : St) (t : Nat) (hi : Inv s) (h : step s (.pushB t) = some s') : Inv s' := by
  fifo_step t
theorem step_inv_pushE (s s' : St) (t : Nat) (hi : Inv s) (h : step s (.pushE t) = some s') : Inv s' := by
  fifo_step t
theorem step_inv_load (s s' : St) (t : Nat) (c lim : Int) (hi : Inv s) (h : step s (.load t c lim) = some s') : Inv s' := by
  fifo_step t
theorem step_inv_retF (s s' : St) (t : Nat) (hi : Inv s) (h : step s (.retF t) = some s') : Inv s' := by
  fifo_step t
theorem canPop_zero {pc : Pc} (h : canPop pc = true) :
    wa pc = 0 ∧ wc pc = 0 ∧ pk pc = 0 ∧ ∀ x, fl x pc = 0 := by
  cases pc <;> simp_all [canPop, wa, wc, pk, fl]

theorem step_inv_popB (s s' : St) (t : Nat) (hi : Inv s) (h : step s (.popB t) = some s') : Inv s' := by
  simp only [step, qstep] at h
  obtain ⟨h1, h2, h3, h4, h5⟩ := hi
  split at h
  case isFalse => simp at h
  rename_i hg
  have htn : t < s.n := hg.1
  obtain ⟨z1, z2, z3, z4⟩ := canPop_zero hg.2
  split at h
  case isFalse => simp at h
  simp only [Option.map_some, Option.some.injEq] at h
  subst h
  refine ⟨?_, ?_, ?_, ?_, ?_⟩ <;> dsimp only [St.values]
  · intro u; grind [upd]
  · intro u; grind [upd, qk_markAll]
  · rw [sumTo_upd_eq _ _ _ _ _ htn]; grind
  · rw [sumTo_upd_eq _ _ _ _ _ htn]; grind
  · intro x
    have := h5 x
    have := z4 x
    rw [sumTo_upd_eq _ _ _ _ _ htn]
    simp only [St.values] at *
    grind

theorem step_inv_popE (s s' : St) (t : Nat) (r : Option (Nat × Nat)) (hi : Inv s) (h : step s (.popE t r) = some s') : Inv s' := by
  obtain ⟨h1, h2, h3, h4, h5⟩ := hi
  simp only [step] at h
  split at h
  case isFalse => simp at h
  rename_i hg
  have htn : t < s.n := hg.1
  have hlea := le_sumTo (f := fun u => wa (s.pc u)) htn
  have hlec := le_sumTo (f := fun u => wc (s.pc u)) htn
  cases r with
  | none =>
    simp only [qstep] at h
    split at h
    case isFalse => simp at h
    simp only [Option.map_some, Option.some.injEq] at h
    subst h
    refine ⟨?_, ?_, ?_, ?_, ?_⟩ <;> dsimp only [St.values]
    · intro u; grind [upd]
    · intro u; grind [upd]
    · rw [sumTo_upd_eq _ _ _ _ _ htn]; grind
    · rw [sumTo_upd_eq _ _ _ _ _ htn]; grind
    · intro x
      have := h5 x
      have hle := le_sumTo (f := fun u => fl x (s.pc u)) htn
      rw [sumTo_upd_eq _ _ _ _ _ htn]
      simp only [St.values] at *
      grind
  | some pv =>
    obtain ⟨p, v⟩ := pv
    simp only [qstep] at h
    split at h
    case h_2 => simp at h
    split at h
    case isFalse => simp at h
    rename_i hf
    have hmem : (p, v) ∈ s.q.stored := hf.1
    have hlen := List.length_erase_of_mem hmem
    have hpos : 0 < s.q.stored.length := List.length_pos_of_mem hmem
    simp only [Option.map_some, Option.some.injEq] at h
    subst h
    refine ⟨?_, ?_, ?_, ?_, ?_⟩ <;> dsimp only [St.values]
    · intro u; grind [upd]
    · intro u; grind [upd]
    · rw [sumTo_upd_eq _ _ _ _ _ htn]; grind
    · rw [sumTo_upd_eq _ _ _ _ _ htn]; grind
    · intro x
      have := h5 x
      have hle := le_sumTo (f := fun u => fl x (s.pc u)) htn
      have he := count_values_erase s.q.stored p v x hmem
      rw [sumTo_upd_eq _ _ _ _ _ htn]
      simp only [St.values] at *
      grind

theorem step_inv_dec (s s' : St) (t : Nat) (hi : Inv s) (h : step s (.dec t) = some s') : Inv s' := by
  fifo_step t

theorem step_inv (s : St) (e : Ev) (s' : St) (hi : Inv s) (h : step s e = some s') : Inv s' := by
  cases e with
  | inc t v => exact step_inv_inc s s' t v hi h
  | pushB t => exact step_inv_pushB s s' t hi h
  | pushE t => exact step_inv_pushE s s' t hi h
  | load t c lim => exact step_inv_load s s' t c lim hi h
  | retF t => exact step_inv_retF s s' t hi h
  | popB t => exact step_inv_popB s s' t hi h
  | popE t r => exact step_inv_popE s s' t r hi h
  | dec t => exact step_inv_dec s s' t hi h

theorem inv_of_accepted {n : Nat} {log : List Ev} {s : St} (h : runLog step (init n) log = some s) : Inv s :=
  inv_of_runLog Inv step_inv (inv_init n) h

/-- Values in flight inside the wrapper (handed over but not yet in the queue, or taken out of the
    queue but not yet returned), thread by thread. -/
def flv : Pc → List Nat
  | .incd v => [v]
  | .got v => [v]
  | _ => []

def inflightTo (pc : Nat → Pc) : Nat → List Nat
  | 0 => []
  | k + 1 => inflightTo pc k ++ flv (pc k)

def St.inflight (s : St) : List Nat := inflightTo s.pc s.n

theorem count_flv (x : Nat) (pc : Pc) : (flv pc).count x = fl x pc := by
  cases pc <;> simp [flv, fl, List.count_singleton] <;> split <;> simp_all

theorem count_inflightTo (x : Nat) (pc : Nat → Pc) (n : Nat) :
    (inflightTo pc n).count x = sumTo n (fun t => fl x (pc t)) := by
  induction n with
  | zero => simp [inflightTo]
  | succ k ih => simp [inflightTo, sumTo_succ, List.count_append, ih, count_flv]

theorem inflightTo_nil (pc : Nat → Pc) (n : Nat) (h : ∀ t, pc t = .idle) : inflightTo pc n = [] := by
  induction n with
  | zero => rfl
  | succ k ih => simp [inflightTo, ih, h k, flv]

theorem Inv.perm {s : St} (hi : Inv s) : s.handed.Perm (s.returned ++ s.values ++ s.inflight) := by
  rw [List.perm_iff_count]
  intro x
  simp only [List.count_append, St.inflight, count_inflightTo]
  exact hi.cons x

/-- What a quiescent state looks like on the inner queue. -/
theorem Inv.quiescent {s : St} (hi : Inv s) (hq : Quiescent s) :
    s.q.active = 0 ∧ (∀ t, s.q.pend t = .idle) ∧ s.count = (s.q.stored.length : Int) ∧ s.inflight = [] := by
  refine ⟨?_, ?_, ?_, ?_⟩
  · rw [hi.act]; exact sumTo_eq_zero (fun t _ => by simp [hq t, wa])
  · intro t
    have := hi.pend t
    rw [hq t] at this
    cases hp : s.q.pend t <;> simp_all [qk, pk]
  · rw [hi.cnt, sumTo_eq_zero (fun t _ => by simp [hq t, wc])]; simp
  · exact inflightTo_nil _ _ hq

end PikaVerif.Fifo
