import PikaVerif.Model.AffCmd
import PikaVerif.Lemmas.AffNuma
/-! C15 (follow-up C15t): the command-line layer — thread-count keywords never oversubscribe. -/
namespace PikaVerif.Aff
open PikaVerif

theorem sumTo_add (f : Nat → Nat) (a : Nat) : ∀ b, sumTo (a + b) f = sumTo a f + sumTo b (fun p => f (a + p)) := by
  intro b
  induction b with
  | zero => simp
  | succ k ih => rw [← Nat.add_assoc, sumTo_succ, ih, sumTo_succ]; omega

/-- a sum over all PUs is the sum over the cores of the sums over their PUs -/
theorem sumTo_base (t : Topo) (f : Nat → Nat) : ∀ m,
    sumTo (base t m) f = sumTo m (fun c => sumTo (t.pus c) (fun p => f (base t c + p))) := by
  intro m
  induction m with
  | zero => rfl
  | succ k ih => rw [base_succ, sumTo_add, ih, sumTo_succ]

theorem defaultCores_le (cfg : Cfg) (hwf : WF cfg.t) : defaultCores cfg ≤ avail cfg := by
  unfold defaultCores avail
  cases hp : cfg.usePm with
  | false => simp only [Bool.false_eq_true, ↓reduceIte]; exact le_base hwf (Nat.le_refl _)
  | true =>
    simp only [↓reduceIte]
    unfold countMask numPus
    rw [sumTo_base]
    apply sumTo_le_sumTo
    intro c _
    unfold coreInPm
    split
    · rename_i h
      simp only [Bool.and_eq_true, decide_eq_true_eq] at h
      exact h.2
    · exact Nat.zero_le _

theorem defaultThreads_eq (cfg : Cfg) : defaultThreads cfg = avail cfg := rfl

end PikaVerif.Aff
