import PikaVerif.Model.AffCmd
import PikaVerif.Lemmas.AffNuma
/-! C15 (follow-up C15t): the command-line layer — thread-count keywords never oversubscribe. -/
namespace PikaVerif.Aff
open PikaVerif

theorem sumTo_add (f : Nat → Nat) (a : Nat) : ∀ b, sumTo (a + b) f = sumTo a f + sumTo b (fun p => f (a + p)) := by
  intro b
  induction b with
  | zero => simp
  | succ k ih => rw [← Nat.add_assoc, sumTo_succ, ih, sumTo_succ]; omega

/-- a sum over all PUs is the sum over the cores of the sums over their PUs -/
theorem sumTo_base (t : Topo) (f : Nat → Nat) : ∀ m,
    sumTo (base t m) f = sumTo m (fun c => sumTo (t.pus c) (fun p => f (base t c + p))) := by
  intro m
  induction m with
  | zero => rfl
  | succ k ih => rw [base_succ, sumTo_add, ih, sumTo_succ]

theorem defaultCores_le (cfg : Cfg) (hwf : WF cfg.t) : defaultCores cfg ≤ avail cfg := by
  unfold defaultCores avail
  cases hp : cfg.usePm with
  | false => simp only [Bool.false_eq_true, ↓reduceIte]; exact le_base hwf (Nat.le_refl _)
  | true =>
    simp only [↓reduceIte]
    unfold countMask numPus
    rw [sumTo_base]
    apply sumTo_le_sumTo
    intro c _
    unfold coreInPm
    split
    · rename_i h
      simp only [Bool.and_eq_true, decide_eq_true_eq] at h
      exact h.2
    · exact Nat.zero_le _

theorem defaultThreads_eq (cfg : Cfg) : defaultThreads cfg = avail cfg := rfl


/-! ## `--pika:cores` while the process mask is used -/

/-- the same request with another `max_cores` -/
def withCores (cfg : Cfg) (k : Nat) : Cfg := { cfg with maxCores := k }

theorem effCores_withCores (cfg : Cfg) (k : Nat) (h : cfg.usePm = true) :
    effCores (withCores cfg k) = effCores cfg := by
  simp [effCores, withCores, h]

theorem compactLoop_withCores (cfg : Cfg) (k : Nat) (h : cfg.usePm = true) : ∀ f s,
    compactLoop (withCores cfg k) f s = compactLoop cfg f s := by
  intro f
  induction f with
  | zero => intro s; rfl
  | succ f ih =>
    intro s
    have hp : compactPass (withCores cfg k) s = compactPass cfg s := by
      unfold compactPass; rw [effCores_withCores cfg k h]; rfl
    simp only [compactLoop, hp]
    cases compactPass cfg s with
    | fin s' => rfl
    | err => rfl
    | run s' => simp only [ih]

theorem scatterLoop_withCores (cfg : Cfg) (k : Nat) (h : cfg.usePm = true) : ∀ f s,
    scatterLoop (withCores cfg k) f s = scatterLoop cfg f s := by
  intro f
  induction f with
  | zero => intro s; rfl
  | succ f ih =>
    intro s
    have hp : scatterPass (withCores cfg k) s = scatterPass cfg s := by
      unfold scatterPass; rw [effCores_withCores cfg k h]; rfl
    simp only [scatterLoop, hp]
    cases scatterPass cfg s with
    | fin s' => rfl
    | err => rfl
    | run s' => simp only [ih]

theorem balLoop_withCores (cfg : Cfg) (k off goal ncores : Nat) : ∀ f s,
    balLoop (withCores cfg k) off goal ncores f s = balLoop cfg off goal ncores f s := by
  intro f
  induction f with
  | zero => intro s; rfl
  | succ f ih =>
    intro s
    have hp : balPass (withCores cfg k) off goal ncores s = balPass cfg off goal ncores s := rfl
    simp only [balLoop, hp]
    cases balPass cfg off goal ncores s with
    | fin s' => rfl
    | err => rfl
    | run s' => simp only [ih]

theorem balPhase1_withCores (cfg : Cfg) (k off goal ncores : Nat) :
    balPhase1 (withCores cfg k) off goal ncores = balPhase1 cfg off goal ncores := by
  unfold balPhase1; rw [balLoop_withCores]

theorem numaSockets_withCores (cfg : Cfg) (k : Nat) : ∀ shares n s,
    numaSockets (withCores cfg k) shares n s = numaSockets cfg shares n s := by
  intro shares
  induction shares with
  | nil => intro n s; rfl
  | cons x rest ih =>
    intro n s
    simp only [numaSockets, balPhase1_withCores, ih]
    rfl

theorem numaShares_withCores (cfg : Cfg) (k P : Nat) : ∀ m n t2,
    numaShares (withCores cfg k) P m n t2 = numaShares cfg P m n t2 := by
  intro m
  induction m with
  | zero => intro n t2; rfl
  | succ j ih => intro n t2; simp only [numaShares, ih]; rfl

/-- **`--pika:cores` is without effect while the process mask is used** -/
theorem decode_withCores (m : Mode) (cfg : Cfg) (k : Nat) (h : cfg.usePm = true) :
    decode m (withCores cfg k) = decode m cfg := by
  have ht : tooMany (withCores cfg k) = tooMany cfg := rfl
  have hn : (withCores cfg k).n = cfg.n := rfl
  cases m with
  | compact => simp only [decode, decodeCompact, ht, hn, compactLoop_withCores cfg k h]
  | scatter => simp only [decode, decodeScatter, ht, hn, scatterLoop_withCores cfg k h]
  | balanced =>
    simp only [decode, decodeBalanced, ht, hn, effCores_withCores cfg k h, balPhase1_withCores]
    rfl
  | numaBalanced =>
    have hp : numaPusT (withCores cfg k) = numaPusT cfg := rfl
    have hs : numSockets (withCores cfg k).t = numSockets cfg.t := rfl
    simp only [decode, decodeNuma, ht, hp, hs, numaShares_withCores, numaSockets_withCores]



/-- the request built from the command line has `used_cores = 0` and the machine / mask given -/
theorem cmdCfg_fields (cmd : Cmd) (t : Topo) (pm : Nat → Bool) (cfg : Cfg)
    (h : cmdCfg cmd t pm = some cfg) :
    cfg.t = t ∧ cfg.pm = pm ∧ cfg.usePm = !cmd.ignoreMask ∧ cfg.used = 0 ∧ 0 < cfg.n ∧
    (cmd.cores = .dflt → cfg.maxCores = cfg.n) := by
  unfold cmdCfg at h
  simp only at h
  split at h
  · simp at h
  · rename_i hn
    simp only [Option.some.injEq] at h
    subst h
    refine ⟨rfl, rfl, rfl, rfl, by simp only; omega, ?_⟩
    intro hc; simp [cmdCores, hc]

end PikaVerif.Aff
