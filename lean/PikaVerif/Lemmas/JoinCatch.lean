import PikaVerif.Model.JoinCatch
import PikaVerif.Lemmas.JoinSteps
/-! Invariant of `JoinCatch` (follow-up C13j): the 19-field invariant of the join model survives a handler
of the user code (`caught`), plus the accounting of interruption requests and deliveries. -/
namespace PikaVerif.JoinCatch
open PikaVerif PikaVerif.Join

/-- 1 while the task is between the successful test of an interruption point and the clearing of the request -/
def hitN : Phase → Nat
  | .hit => 1
  | _ => 0

/-- 1 while a stored request has not been picked up by an interruption point -/
def pendN (r : Bool) (p : Phase) : Nat :=
  match r, p with
  | true, .hit => 0
  | true, _ => 1
  | false, _ => 0

/-- 1 while `thread_interrupted` propagates -/
def unwN : Phase → Nat
  | .unwinding => 1
  | _ => 0

@[simp, grind =] theorem hitN_fresh : hitN .fresh = 0 := rfl
@[simp, grind =] theorem hitN_body : hitN .body = 0 := rfl
@[simp, grind =] theorem hitN_hit : hitN .hit = 1 := rfl
@[simp, grind =] theorem hitN_unwinding : hitN .unwinding = 0 := rfl
@[simp, grind =] theorem hitN_finished : hitN .finished = 0 := rfl
@[simp, grind =] theorem hitN_loopHead : hitN .loopHead = 0 := rfl
@[simp, grind =] theorem hitN_run (c : Cb) : hitN (.run c) = 0 := rfl
@[simp, grind =] theorem hitN_ranCb : hitN .ranCb = 0 := rfl
@[simp, grind =] theorem hitN_exitedL : hitN .exitedL = 0 := rfl
@[simp, grind =] theorem hitN_exited : hitN .exited = 0 := rfl
@[simp, grind =] theorem unwN_fresh : unwN .fresh = 0 := rfl
@[simp, grind =] theorem unwN_body : unwN .body = 0 := rfl
@[simp, grind =] theorem unwN_hit : unwN .hit = 0 := rfl
@[simp, grind =] theorem unwN_unwinding : unwN .unwinding = 1 := rfl
@[simp, grind =] theorem unwN_finished : unwN .finished = 0 := rfl
@[simp, grind =] theorem unwN_loopHead : unwN .loopHead = 0 := rfl
@[simp, grind =] theorem unwN_run (c : Cb) : unwN (.run c) = 0 := rfl
@[simp, grind =] theorem unwN_ranCb : unwN .ranCb = 0 := rfl
@[simp, grind =] theorem unwN_exitedL : unwN .exitedL = 0 := rfl
@[simp, grind =] theorem unwN_exited : unwN .exited = 0 := rfl

theorem pendN_eq (r : Bool) (p : Phase) : pendN r p = if r = true then 1 - hitN p else 0 := by
  cases r <;> cases p <;> rfl

/-- events that touch the interruption flags or the `hit` phase -/
def touchesIntr : Join.Ev → Bool
  | .ipReq _ _ | .ipHit _ _ | .ipClear _ => true
  | _ => false

/-- all other events leave the request flags alone and move no task into or out of `hit` / `unwinding`,
    except `jn.interrupted` (the swallowing handler of `thread_function_nullary`: `unwinding → finished`) -/
theorem step_frame (s s' : Join.St) (e : Join.Ev) (hs : Join.step s e = some s') (hn : touchesIntr e = false) :
    s'.req = s.req ∧ (∀ t, hitN (s'.phase t) = hitN (s.phase t)) ∧ (∀ t, unwN (s'.phase t) ≤ unwN (s.phase t)) := by
  cases e <;> simp only [Join.step] at hs <;> (repeat' split at hs) <;>
    first
    | (simp at hs; done)
    | (simp [touchesIntr] at hn; done)
    | (simp only [Option.some.injEq] at hs; subst hs
       refine ⟨rfl, ?_, ?_⟩ <;> intro t <;> (try simp only [upd]) <;> grind)

theorem step_ipReq (s s' : Join.St) (o : Nat) (f : Bool) (hs : Join.step s (.ipReq o f) = some s') :
    s'.phase = s.phase ∧ s'.req = upd s.req o f := by
  simp only [Join.step] at hs
  split at hs
  · simp only [Option.some.injEq] at hs; subst hs; exact ⟨rfl, rfl⟩
  · simp at hs

theorem step_ipHit (s s' : Join.St) (o : Nat) (thr : Bool) (hs : Join.step s (.ipHit o thr) = some s') :
    s.req o = true ∧ s.en o = true ∧ s.phase o = .body ∧ s'.phase = upd s.phase o .hit ∧ s'.req = s.req := by
  simp only [Join.step] at hs
  repeat' split at hs
  all_goals first
    | (simp at hs; done)
    | (simp only [Option.some.injEq] at hs; subst hs; simp_all)

theorem step_ipClear (s s' : Join.St) (o : Nat) (hs : Join.step s (.ipClear o) = some s') :
    s.phase o = .hit ∧ s'.phase = upd s.phase o .unwinding ∧ s'.req = upd s.req o false := by
  simp only [Join.step] at hs
  split at hs
  · rename_i hp
    simp only [Option.some.injEq] at hs; subst hs; exact ⟨hp, rfl, rfl⟩
  · simp at hs

structure CInv (s : St) : Prop where
  base : Join.Inv s.base
  /-- every delivery (done or in progress) and the pending request are covered by distinct stored requests -/
  once : ∀ t, s.ndel t + hitN (s.base.phase t) + pendN (s.base.req t) (s.base.phase t) ≤ s.nreq t
  /-- an interruption handled by user code, or still propagating, was delivered -/
  handledLe : ∀ t, s.handled t + unwN (s.base.phase t) ≤ s.ndel t

theorem cinv_init : CInv init := by
  refine ⟨inv_init, ?_, ?_⟩ <;> intro t <;> simp [init, Join.init, pendN]

/-- the handler of the user code: `unwinding → body`, outside join; the invariant of the join model survives -/
theorem inv_caught (b : Join.St) (o : Nat) (hi : Join.Inv b) (hp : b.phase o = .unwinding) :
    Join.Inv { b with phase := upd b.phase o .body } := by
  obtain ⟨h1,h2,h3,h4,h5,h6,h7,h8,h9,h10,h11,h12,h13,h14,h15,h16,h17,h18,h19⟩ := hi
  refine ⟨?_, ?_, ?_, ?_, ?_, ?_, ?_, ?_, ?_, ?_, ?_, ?_, ?_, ?_, ?_, ?_, ?_, ?_, ?_⟩ <;> try dsimp only
  all_goals first
    | assumption
    | (intro a b; grind [upd, waitsB_inj, waitsB_any])
    | (intro a; grind [upd, waitsB_inj, waitsB_any])
    | (intro a b c; grind [upd, waitsB_inj, waitsB_any])

theorem step_cinv (s s' : St) (e : Ev) (hi : CInv s) (hs : step s e = some s') : CInv s' := by
  obtain ⟨hb, ho, hh⟩ := hi
  cases e with
  | caught o =>
    simp only [step] at hs
    split at hs
    · rename_i hg
      simp only [Option.some.injEq] at hs; subst hs
      refine ⟨inv_caught s.base o hb hg.1, ?_, ?_⟩ <;> intro t <;> dsimp only
      · have := ho t
        by_cases ht : t = o
        · subst ht; simp only [upd_same]; rw [hg.1] at this; simp only [pendN_eq] at this ⊢; simpa using this
        · simp only [upd_other _ _ _ _ ht]; exact this
      · have := hh t
        by_cases ht : t = o
        · subst ht; simp only [upd_same]; rw [hg.1] at this; simpa using this
        · simp only [upd_other _ _ _ _ ht]; exact this
    · simp at hs
  | base e =>
    simp only [step] at hs
    split at hs
    · rename_i b hb'
      simp only [Option.some.injEq] at hs; subst hs
      refine ⟨Join.step_inv s.base b e hb hb', ?_, ?_⟩
      · intro t
        have h0 := ho t
        by_cases hn : touchesIntr e = false
        · obtain ⟨f1, f2, _⟩ := step_frame s.base b e hb' hn
          have : note s e = s := by cases e <;> first | rfl | (simp [touchesIntr] at hn)
          simp only [this, f1, f2 t, pendN_eq] at h0 ⊢
          exact h0
        · cases e <;> first | (simp [touchesIntr] at hn; done) | skip
          · rename_i o f
            obtain ⟨g1, g2⟩ := step_ipReq s.base b o f hb'
            cases f <;> simp only [note, g1, g2, pendN_eq] at h0 ⊢ <;>
              (by_cases ht : t = o
               · subst ht; simp only [upd_same]; split at h0 <;> simp_all <;> omega
               · simp only [upd_other _ _ _ _ ht]; exact h0)
          · rename_i o thr
            obtain ⟨g1, g2, g3, g4, g5⟩ := step_ipHit s.base b o thr hb'
            have hnote : (note s (.ipHit o thr)).ndel = s.ndel ∧ (note s (.ipHit o thr)).nreq = s.nreq := by
              simp only [note]; split <;> exact ⟨rfl, rfl⟩
            simp only [hnote.1, hnote.2, g4, g5, pendN_eq] at h0 ⊢
            by_cases ht : t = o
            · subst ht; simp only [upd_same]; rw [g1, g3] at h0; simpa using h0
            · simp only [upd_other _ _ _ _ ht]; exact h0
          · rename_i o
            obtain ⟨g1, g2, g3⟩ := step_ipClear s.base b o hb'
            simp only [note, g2, g3, pendN_eq] at h0 ⊢
            by_cases ht : t = o
            · subst ht; simp only [upd_same]; rw [g1] at h0; simp at h0 ⊢; omega
            · simp only [upd_other _ _ _ _ ht]; exact h0
      · intro t
        have h0 := hh t
        by_cases hn : touchesIntr e = false
        · obtain ⟨_, _, f3⟩ := step_frame s.base b e hb' hn
          have : note s e = s := by cases e <;> first | rfl | (simp [touchesIntr] at hn)
          simp only [this] at h0 ⊢
          have := f3 t
          omega
        · cases e <;> first | (simp [touchesIntr] at hn; done) | skip
          · rename_i o f
            obtain ⟨g1, g2⟩ := step_ipReq s.base b o f hb'
            cases f <;> simp only [note, g1] at h0 ⊢ <;> exact h0
          · rename_i o thr
            obtain ⟨g1, g2, g3, g4, g5⟩ := step_ipHit s.base b o thr hb'
            have hnote : (note s (.ipHit o thr)).ndel = s.ndel ∧ (note s (.ipHit o thr)).handled = s.handled := by
              simp only [note]; split <;> exact ⟨rfl, rfl⟩
            simp only [hnote.1, hnote.2, g4] at h0 ⊢
            by_cases ht : t = o
            · subst ht; simp only [upd_same]; rw [g3] at h0; simpa using h0
            · simp only [upd_other _ _ _ _ ht]; exact h0
          · rename_i o
            obtain ⟨g1, g2, g3⟩ := step_ipClear s.base b o hb'
            simp only [note, g2] at h0 ⊢
            by_cases ht : t = o
            · subst ht; simp only [upd_same]; rw [g1] at h0; simp at h0 ⊢; omega
            · simp only [upd_other _ _ _ _ ht]; exact h0
    · simp at hs

theorem cinv_of_accepted {log : List Ev} {s : St} (h : runLog step init log = some s) : CInv s :=
  inv_of_runLog CInv (fun s e s' => step_cinv s s' e) cinv_init h

/-! Consequences of the invariant of the join model, stated for a state that satisfies it (the theorems of
`Props/C13.lean` are stated for states reachable in `Join`; these are the same facts for any `Inv` state). -/

theorem no_stale_of_inv (b : Join.St) (hi : Join.Inv b) (j : Nat) (hw : waitsAny (b.jpc j) = false) :
    b.tok j = 0 ∧ ∀ o, cntL (b.funcs o) j + runCnt (b.phase o) j = 0 := by
  refine ⟨?_, ?_⟩
  · have := hi.tokWait j
    by_cases h : 1 ≤ b.tok j
    · rw [this h] at hw; simp at hw
    · omega
  · intro o
    have := hi.cbOwner j o
    by_cases h : 1 ≤ cntL (b.funcs o) j + runCnt (b.phase o) j
    · have hw' := waitsB_any _ _ (this h); rw [hw'] at hw; simp at hw
    · omega

theorem started_afterBody (p : Phase) (h : started p = true) : afterBody p = true := by
  cases p <;> simp_all

theorem join_after_body_of_inv (s s' : Join.St) (hi : Join.Inv s) (h j : Nat)
    (hs : Join.step s (.jnDone h j) = some s') :
    ∃ o, (s.jpc j = .refused h o ∨ s.jpc j = .woke h o) ∧ started (s.phase o) = true ∧
      afterBody (s.phase o) = true ∧ s'.lastJoin j = some (h, o) := by
  simp only [Join.step] at hs
  split at hs
  · rename_i h' o hp
    split at hs
    · rename_i hg
      obtain ⟨hh, _⟩ := hg
      subst hh
      simp only [Option.some.injEq] at hs
      subst hs
      have hrd := hi.refusedDone j o (by simp [hp])
      have hth := hi.jTarget j o (by simp [hp])
      have hst : started (s.phase o) = true := by
        rcases hrd with hr' | ht
        · rcases hi.ranPhase o hr' with hp' | hp' <;> simp [hp']
        · simp [hi.termExited o ht hth]
      exact ⟨o, Or.inl hp, hst, started_afterBody _ hst, by simp⟩
    · simp at hs
  · rename_i h' o hp
    split at hs
    · rename_i hg
      obtain ⟨hh, _⟩ := hg
      subst hh
      simp only [Option.some.injEq] at hs
      subst hs
      have hst := hi.wokeStarted j o (by simp [hp])
      exact ⟨o, Or.inr hp, hst, started_afterBody _ hst, by simp⟩
    · simp at hs
  · simp at hs

end PikaVerif.JoinCatch
