import PikaVerif.Model.CV
/-! Inductive invariant of the condition-variable model (locks, queue, wake-up tokens). -/
namespace PikaVerif.CV
open PikaVerif

/-- Program counters at which the thread holds the internal spinlock. -/
def holds : Pc → Bool
  | .locked | .released | .enq _ | .relk _ _ | .post _ | .nLocked | .nAll | .nDone => true
  | .sChk1 | .sStopped | .cLocked _ | .cAll _ | .postS _ => true
  | _ => false

/-- Program counters at which the thread holds the user lock. -/
def holdsU : Pc → Bool
  | .unlocking | .setting _ | .predChk _ | .want | .locked | .retn _ => true
  | .sChk0 | .sReg | .sRegLk | .sChk1 | .sStopped | .sDtor _ | .sRm _ | .sRmChk _ | .sRmWait _ => true
  | .cWant k | .cLocked k | .cAll k | .cRet k => k
  | _ => false

/-- Program counters at which the thread does not hold the user lock. -/
def noU : Pc → Bool
  | .wantU | .released | .enq _ | .unl _ _ | .susp _ | .slp _ | .wokeNL _ _ | .relk _ _
  | .post _ | .relockU _ | .postS _ => true
  | _ => false

/-- Program counters at which the thread's entry is linked in the cv queue. -/
def inQ : Pc → Bool
  | .enq _ => true
  | .unl _ p | .susp p | .slp p | .wokeNL _ p | .relk _ p => !p
  | _ => false

/-- What the history flag `waiting` must be at each program counter. -/
def waitExp : Pc → Bool
  | .released => true
  | .enq _ => true
  | .unl _ p | .susp p | .slp p | .wokeNL _ p | .relk _ p => !p
  | _ => false

/-- Popped while (about to be) parked in an untimed wait: a wake-up token must exist. -/
def needTok : Pc → Bool
  | .unl tm p => !tm && p
  | .susp p => p
  | _ => false

structure Inv (s : St) : Prop where
  lockHolder : ∀ t, holds (s.pc t) = true → s.lock = some t
  lockConv : ∀ r, s.lock = some r → holds (s.pc r) = true ∧ r < s.n
  uHolder : ∀ t, holdsU (s.pc t) = true → s.ulock = some t
  uNot : ∀ t, noU (s.pc t) = true → s.ulock ≠ some t
  uConv : ∀ r, s.ulock = some r → r < s.n
  outside : ∀ t, s.n ≤ t → s.pc t = .idle
  qIff : ∀ t, t ∈ s.queue ↔ inQ (s.pc t) = true
  qNodup : s.queue.Nodup
  wake : ∀ t, needTok (s.pc t) = true → 0 < s.tok t
  waitingIff : ∀ t, s.waiting t = waitExp (s.pc t)

theorem inv_init (n : Nat) (f : Bool) : Inv (init n f) := by
  refine ⟨?_, ?_, ?_, ?_, ?_, ?_, ?_, ?_, ?_, ?_⟩ <;> simp [init, holds, holdsU, noU, inQ, needTok, waitExp]

attribute [local grind] holds holdsU noU inQ waitExp needTok setPopped b2n isTimed isPred exitPc

set_option maxHeartbeats 1600000

set_option hygiene false in
macro "cv_step" : tactic => `(tactic| (
  simp only [step] at h
  obtain ⟨h1,h2,h3,h4,h5,h6,h7,h8,h9,h10⟩ := hi
  split at h
  case isFalse => simp at h
  rename_i hg
  repeat' split at h
  all_goals first | (simp at h; done) | skip
  all_goals (
    simp only [Option.some.injEq] at h
    subst h
    refine ⟨?_, ?_, ?_, ?_, ?_, ?_, ?_, ?_, ?_, ?_⟩ <;> dsimp only
  )
  all_goals first
    | assumption
    | (intro u; grind [upd])
    | grind [upd]))

theorem step_inv_inv (s s' : St) (t : Nat) (o : Op) (hi : Inv s) (h : step s (.inv t o) = some s') : Inv s' := by cv_step
theorem step_inv_ret (s s' : St) (t : Nat) (r : Nat) (hi : Inv s) (h : step s (.ret t r) = some s') : Inv s' := by cv_step
theorem step_inv_ulAcq (s s' : St) (t : Nat) (hi : Inv s) (h : step s (.ulAcq t) = some s') : Inv s' := by cv_step
theorem step_inv_ulRel (s s' : St) (t : Nat) (hi : Inv s) (h : step s (.ulRel t) = some s') : Inv s' := by cv_step
theorem step_inv_setFlag (s s' : St) (t : Nat) (v : Bool) (hi : Inv s) (h : step s (.setFlag t v) = some s') : Inv s' := by cv_step
theorem step_inv_pred (s s' : St) (t : Nat) (v : Bool) (hi : Inv s) (h : step s (.pred t v) = some s') : Inv s' := by cv_step
theorem step_inv_slAcq (s s' : St) (t : Nat) (hi : Inv s) (h : step s (.slAcq t) = some s') : Inv s' := by cv_step
theorem step_inv_slRel (s s' : St) (t : Nat) (hi : Inv s) (h : step s (.slRel t) = some s') : Inv s' := by cv_step
theorem step_inv_cvEnq (s s' : St) (t z : Nat) (b : Bool) (hi : Inv s) (h : step s (.cvEnq t z b) = some s') : Inv s' := by cv_step
theorem step_inv_cvNone (s s' : St) (t : Nat) (hi : Inv s) (h : step s (.cvNone t) = some s') : Inv s' := by cv_step
theorem step_inv_cvAll (s s' : St) (t z : Nat) (hi : Inv s) (h : step s (.cvAll t z) = some s') : Inv s' := by cv_step
theorem step_inv_cvWoke (s s' : St) (t : Nat) (a b : Bool) (hi : Inv s) (h : step s (.cvWoke t a b) = some s') : Inv s' := by cv_step
theorem step_inv_suspend (s s' : St) (t : Nat) (hi : Inv s) (h : step s (.suspend t) = some s') : Inv s' := by cv_step
theorem step_inv_woke (s s' : St) (t : Nat) (hi : Inv s) (h : step s (.woke t) = some s') : Inv s' := by cv_step
theorem step_inv_sleep (s s' : St) (t : Nat) (hi : Inv s) (h : step s (.sleep t) = some s') : Inv s' := by cv_step
theorem step_inv_timeout (s s' : St) (t : Nat) (hi : Inv s) (h : step s (.timeout t) = some s') : Inv s' := by cv_step
theorem step_inv_done (s s' : St) (t : Nat) (hi : Inv s) (h : step s (.done t) = some s') : Inv s' := by cv_step
theorem step_inv_stop0 (s s' : St) (t : Nat) (v : Bool) (hi : Inv s) (h : step s (.stop0 t v) = some s') : Inv s' := by cv_step
theorem step_inv_stop1 (s s' : St) (t : Nat) (v : Bool) (hi : Inv s) (h : step s (.stop1 t v) = some s') : Inv s' := by cv_step
theorem step_inv_stop2 (s s' : St) (t : Nat) (v : Bool) (hi : Inv s) (h : step s (.stop2 t v) = some s') : Inv s' := by cv_step
theorem step_inv_stSeen (s s' : St) (t : Nat) (hi : Inv s) (h : step s (.stSeen t) = some s') : Inv s' := by cv_step
theorem step_inv_stAcq (s s' : St) (t m : Nat) (hi : Inv s) (h : step s (.stAcq t m) = some s') : Inv s' := by cv_step
theorem step_inv_stPush (s s' : St) (t : Nat) (b : Bool) (hi : Inv s) (h : step s (.stPush t b) = some s') : Inv s' := by cv_step
theorem step_inv_stDeq (s s' : St) (t c : Nat) (b : Bool) (hi : Inv s) (h : step s (.stDeq t c b) = some s') : Inv s' := by cv_step
theorem step_inv_stFin (s s' : St) (t c : Nat) (b : Bool) (hi : Inv s) (h : step s (.stFin t c b) = some s') : Inv s' := by cv_step
theorem step_inv_stInFin (s s' : St) (t : Nat) (hi : Inv s) (h : step s (.stInFin t) = some s') : Inv s' := by cv_step
theorem step_inv_stUnlink (s s' : St) (t : Nat) (b : Bool) (hi : Inv s) (h : step s (.stUnlink t b) = some s') : Inv s' := by cv_step
theorem step_inv_stSelf (s s' : St) (t : Nat) (b : Bool) (hi : Inv s) (h : step s (.stSelf t b) = some s') : Inv s' := by cv_step
theorem step_inv_stWaited (s s' : St) (t : Nat) (hi : Inv s) (h : step s (.stWaited t) = some s') : Inv s' := by cv_step
theorem step_inv_stRsDone (s s' : St) (t : Nat) (hi : Inv s) (h : step s (.stRsDone t) = some s') : Inv s' := by cv_step

theorem setPopped_facts {p p' : Pc} (h : setPopped p = some p') :
    holds p' = false ∧ holds p = false ∧ holdsU p' = false ∧ noU p' = true ∧ inQ p = true ∧ inQ p' = false ∧
    waitExp p' = false ∧ p' ≠ .idle ∧
    (needTok p' = true → p ≠ .slp false) ∧ noU p = true ∧ holdsU p = false := by
  unfold setPopped at h
  split at h <;> simp at h <;> subst h <;> simp [holds, holdsU, noU, inQ, waitExp, needTok]

theorem popCore_inv (s s' : St) (t z g : Nat) (d : Bool) (pcT : Pc) (hi : Inv s)
    (hl : s.lock = some t) (hT : holds pcT = true ∧ holdsU pcT = holdsU (s.pc t) ∧ noU pcT = noU (s.pc t) ∧ inQ pcT = false ∧
      waitExp pcT = false ∧ needTok pcT = false)
    (hpt : inQ (s.pc t) = false ∧ waitExp (s.pc t) = false)
    (h : popCore s t z g d pcT = some s') : Inv s' := by
  obtain ⟨h1,h2,h3,h4,h5,h6,h7,h8,h9,h10⟩ := hi
  unfold popCore at h
  split at h
  case h_2 => simp at h
  rename_i g' rest hq
  split at h
  case isFalse => simp at h
  rename_i hsz
  obtain ⟨hsz, hgg⟩ := hsz
  subst hgg
  split at h
  case h_2 => simp at h
  rename_i p' hp'
  obtain ⟨f1, f2, f3, f4, f5, f6, f7, f8, f9, f10, f11⟩ := setPopped_facts hp'
  have htn : t < s.n := (h2 t hl).2
  have hgt : g' ≠ t := by
    intro he; rw [he] at f5; rw [hpt.1] at f5; simp at f5
  have hnd : g' ∉ rest ∧ rest.Nodup := by rw [hq] at h8; simpa using h8
  split at h
  case isFalse => simp at h
  rename_i hdrop
  simp only [Option.some.injEq] at h
  subst h
  refine ⟨?_, ?_, ?_, ?_, ?_, ?_, ?_, ?_, ?_, ?_⟩ <;> dsimp only
  · intro u; grind [upd]
  · intro r hr; have := h2 r hr; grind [upd]
  · intro u; grind [upd]
  · intro u; grind [upd]
  · exact h5
  · intro u hu
    have := h6 u hu
    by_cases hut : u = t
    · omega
    · by_cases hug : u = g'
      · subst hug; rw [this] at f5; simp [inQ] at f5
      · simp [upd, hut, hug, this]
  · intro u
    have := h7 u
    rw [hq] at this
    by_cases hut : u = t
    · subst hut; simp [upd, hT.2.2.2.1]; rw [hpt.1] at this; simp at this; exact this.2
    · by_cases hug : u = g'
      · subst hug; simp [upd, hut, f6, hnd.1]
      · simp [upd, hut, hug] at this ⊢; simpa [hug] using this
  · exact hnd.2
  · intro u hu
    by_cases hut : u = t
    · subst hut; simp [upd, hT.2.2.2.2.2] at hu
    · by_cases hug : u = g'
      · subst hug
        simp only [upd, hut, if_false, if_true] at hu
        have := f9 hu
        simp [this] at hdrop
        subst hdrop
        simp [upd]
      · simp only [upd, hut, hug, if_false] at hu
        have := h9 u hu
        split <;> simp [upd, hug, this]
  · intro u
    by_cases hut : u = t
    · subst hut; simp [upd, hgt.symm, hT.2.2.2.2.1]; rw [h10 u]; exact hpt.2
    · by_cases hug : u = g'
      · subst hug; simp [upd, hut, f7]
      · simp [upd, hut, hug]; exact h10 u

theorem step_inv_popResume (s s' : St) (t z g : Nat) (d : Bool) (hi : Inv s)
    (h : step s (.popResume t z g d) = some s') : Inv s' := by
  simp only [step] at h
  split at h
  case isFalse => simp at h
  rename_i hg
  split at h
  case h_2 => simp at h
  rename_i hpc
  exact popCore_inv s s' t z g d .nDone hi hg.2.1 (by rw [hpc]; simp [holds, holdsU, noU, inQ, waitExp, needTok])
    (by rw [hpc]; simp [inQ, waitExp]) h

theorem step_inv_popAll (s s' : St) (t z g : Nat) (d : Bool) (hi : Inv s)
    (h : step s (.popAll t z g d) = some s') : Inv s' := by
  simp only [step] at h
  split at h
  case isFalse => simp at h
  rename_i hg
  split at h
  case h_3 => simp at h
  · rename_i hpc
    exact popCore_inv s s' t z g d .nAll hi hg.2 (by rw [hpc]; simp [holds, holdsU, noU, inQ, waitExp, needTok])
      (by rw [hpc]; simp [inQ, waitExp]) h
  · rename_i k hpc
    exact popCore_inv s s' t z g d (.cAll k) hi hg.2 (by rw [hpc]; simp [holds, holdsU, noU, inQ, waitExp, needTok])
      (by rw [hpc]; simp [inQ, waitExp]) h

theorem step_inv (s s' : St) (e : Ev) (hi : Inv s) (h : step s e = some s') : Inv s' := by
  cases e with
  | inv t o => exact step_inv_inv s s' t o hi h
  | ret t r => exact step_inv_ret s s' t r hi h
  | ulAcq t => exact step_inv_ulAcq s s' t hi h
  | ulRel t => exact step_inv_ulRel s s' t hi h
  | setFlag t v => exact step_inv_setFlag s s' t v hi h
  | pred t v => exact step_inv_pred s s' t v hi h
  | slAcq t => exact step_inv_slAcq s s' t hi h
  | slRel t => exact step_inv_slRel s s' t hi h
  | cvEnq t z b => exact step_inv_cvEnq s s' t z b hi h
  | popResume t z g d => exact step_inv_popResume s s' t z g d hi h
  | cvNone t => exact step_inv_cvNone s s' t hi h
  | cvAll t z => exact step_inv_cvAll s s' t z hi h
  | popAll t z g d => exact step_inv_popAll s s' t z g d hi h
  | cvWoke t a b => exact step_inv_cvWoke s s' t a b hi h
  | suspend t => exact step_inv_suspend s s' t hi h
  | woke t => exact step_inv_woke s s' t hi h
  | sleep t => exact step_inv_sleep s s' t hi h
  | timeout t => exact step_inv_timeout s s' t hi h
  | done t => exact step_inv_done s s' t hi h
  | stop0 t v => exact step_inv_stop0 s s' t v hi h
  | stop1 t v => exact step_inv_stop1 s s' t v hi h
  | stop2 t v => exact step_inv_stop2 s s' t v hi h
  | stSeen t => exact step_inv_stSeen s s' t hi h
  | stAcq t m => exact step_inv_stAcq s s' t m hi h
  | stPush t b => exact step_inv_stPush s s' t b hi h
  | stDeq t c b => exact step_inv_stDeq s s' t c b hi h
  | stFin t c b => exact step_inv_stFin s s' t c b hi h
  | stInFin t => exact step_inv_stInFin s s' t hi h
  | stUnlink t b => exact step_inv_stUnlink s s' t b hi h
  | stSelf t b => exact step_inv_stSelf s s' t b hi h
  | stWaited t => exact step_inv_stWaited s s' t hi h
  | stRsDone t => exact step_inv_stRsDone s s' t hi h

theorem inv_of_accepted {n : Nat} {f : Bool} {log : List Ev} {s : St}
    (h : runLog step (init n f) log = some s) : Inv s :=
  inv_of_runLog Inv (fun s e s' => step_inv s s' e) (inv_init n f) h

end PikaVerif.CV
