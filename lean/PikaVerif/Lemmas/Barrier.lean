import PikaVerif.Model.Barrier
/-! Arithmetic of the tournament rounds, byte facts, and the counting sums used by the
    barrier invariant. -/
namespace PikaVerif.Barrier
open PikaVerif

/-! ## bytes -/

theorem halfB_ne (p : Nat) : halfB p ≠ p := by unfold halfB; omega
theorem fullB_ne (p : Nat) : fullB p ≠ p := by unfold fullB; omega
theorem fullB_ne_halfB (p : Nat) : fullB p ≠ halfB p := by unfold fullB halfB; omega
theorem fullB_lt (p : Nat) : fullB p < 256 := by unfold fullB; omega
theorem phase_succ (k : Nat) : (2 * (k + 1)) % 256 = fullB ((2 * k) % 256) := by unfold fullB; omega

/-! ## rounds -/

/-- Number of ticket nodes of round `r` (`end_node`); 0 once a round has at most one participant
    (`if (current_expected <= 1) return true`). -/
def nodes (N r : Nat) : Nat := if mr N r ≤ 1 then 0 else (mr N r + 1) / 2

/-- Capacity of node `c` of round `r`: the last node of a round with an odd number of
    participants takes one arrival ("1 in 1"), every other node two. -/
def cap (N r c : Nat) : Nat := if c + 1 = nodes N r ∧ mr N r % 2 = 1 then 1 else 2

theorem mr_succ (N r : Nat) : mr N (r + 1) = (mr N r + 1) / 2 := rfl

theorem mr_succ_le (N r : Nat) : mr N (r + 1) ≤ mr N r := by rw [mr_succ]; omega

theorem mr_anti (N : Nat) {r k : Nat} (h : r ≤ k) : mr N k ≤ mr N r := by
  induction k with
  | zero => have : r = 0 := by omega
            subst this; exact Nat.le_refl _
  | succ k ih =>
    by_cases hk : r = k + 1
    · subst hk; exact Nat.le_refl _
    · exact Nat.le_trans (mr_succ_le N k) (ih (by omega))

theorem mr_mono {N N' : Nat} (h : N' ≤ N) (r : Nat) : mr N' r ≤ mr N r := by
  induction r with
  | zero => exact h
  | succ r ih => simp only [mr_succ]; omega

theorem mr_pos {N : Nat} (h : 1 ≤ N) (r : Nat) : 1 ≤ mr N r := by
  induction r with
  | zero => exact h
  | succ r ih => simp only [mr_succ]; omega

/-- The rounds end: after `N` rounds at most one participant is left. -/
theorem mr_le_sub (N r : Nat) : mr N r ≤ max 1 (N - r) := by
  induction r with
  | zero => simp [mr]; omega
  | succ r ih => simp only [mr_succ]; omega

theorem mr_top (N : Nat) : mr N N ≤ 1 := by
  have := mr_le_sub N N; omega

theorem nodes_le_mr_succ (N r : Nat) : nodes N r ≤ mr N (r + 1) := by
  unfold nodes; rw [mr_succ]; split <;> omega

theorem nodes_eq {N r : Nat} (h : 1 < mr N r) : nodes N r = (mr N r + 1) / 2 := by
  unfold nodes; split <;> omega

theorem nodes_top {N r : Nat} (h : mr N r ≤ 1) : nodes N r = 0 := by
  unfold nodes; split <;> omega

theorem nodes_mono {N N' : Nat} (h : N' ≤ N) (r : Nat) : nodes N' r ≤ nodes N r := by
  have := mr_mono h r
  unfold nodes; split <;> split <;> omega

theorem cap_pos (N r c : Nat) : 1 ≤ cap N r c := by unfold cap; split <;> omega
theorem cap_le (N r c : Nat) : cap N r c ≤ 2 := by unfold cap; split <;> omega

/-! ## sums -/

/-- `sumTo_upd_eq` for a weight that also depends on the index. -/
theorem sumTo_upd_idx {α : Type} (n : Nat) (g : Nat → α → Nat) (f : Nat → α) (t : Nat) (v : α)
    (h : t < n) :
    sumTo n (fun c => g c (upd f t v c)) + g t (f t) = sumTo n (fun c => g c (f c)) + g t v := by
  induction n with
  | zero => exact absurd h (Nat.not_lt_zero _)
  | succ k ih =>
    simp only [sumTo_succ]
    by_cases hk : t = k
    · subst hk
      have h1 : sumTo t (fun c => g c (upd f t v c)) = sumTo t (fun c => g c (f c)) := by
        apply sumTo_congr; intro u hu
        have : u ≠ t := by omega
        simp [upd, this]
      simp only [upd_same]
      omega
    · have hlt : t < k := by omega
      have := ih hlt
      have hne : k ≠ t := fun h => hk h.symm
      simp only [upd_other _ _ _ _ hne]
      omega

theorem sumTo_le_of_le {n : Nat} {f g : Nat → Nat} (h : ∀ c, c < n → f c ≤ g c) :
    sumTo n f ≤ sumTo n g := by
  induction n with
  | zero => exact Nat.le_refl _
  | succ k ih =>
    simp only [sumTo_succ]
    have := ih (fun c hc => h c (Nat.lt_succ_of_lt hc))
    have := h k (Nat.lt_succ_self k)
    omega

theorem sumTo_const (n k : Nat) : sumTo n (fun _ => k) = n * k := by
  induction n with
  | zero => simp
  | succ j ih => simp only [sumTo_succ, ih]; rw [Nat.succ_mul]

theorem sumTo_le_n {n : Nat} {f : Nat → Nat} (h : ∀ c, c < n → f c ≤ 1) : sumTo n f ≤ n := by
  have := sumTo_le_of_le (g := fun _ => 1) h
  rw [sumTo_const] at this; omega

/-- A sum of `n` terms `≤ 1` that reaches `n` has every term `= 1`. -/
theorem all_one_of_sumTo_eq {n : Nat} {f : Nat → Nat} (h : ∀ c, c < n → f c ≤ 1)
    (hs : sumTo n f = n) : ∀ c, c < n → f c = 1 := by
  induction n with
  | zero => intro c hc; exact absurd hc (Nat.not_lt_zero _)
  | succ k ih =>
    simp only [sumTo_succ] at hs
    have h1 := sumTo_le_n (fun c hc => h c (Nat.lt_succ_of_lt hc))
    have h2 := h k (Nat.lt_succ_self k)
    intro c hc
    by_cases hk : c = k
    · subst hk; omega
    · exact ih (fun c hc => h c (Nat.lt_succ_of_lt hc)) (by omega) c (by omega)

/-- Total capacity of a round = its number of participants. -/
theorem sumTo_cap_aux (n : Nat) (b : Bool) (j : Nat) (hj : j ≤ n) :
    sumTo j (fun c => if c + 1 = n ∧ b = true then 1 else 2) + (if j = n ∧ 0 < n ∧ b = true then 1 else 0)
      = 2 * j := by
  induction j with
  | zero => simp; omega
  | succ k ih =>
    have h0 := ih (by omega)
    have hk : ¬ (k = n) := by omega
    simp only [hk, false_and, if_false, Nat.add_zero] at h0
    simp only [sumTo_succ, h0]
    by_cases hc : k + 1 = n ∧ b = true
    · have h2 : k + 1 = n ∧ 0 < n ∧ b = true := ⟨hc.1, by omega, hc.2⟩
      simp only [hc, h2, and_self, if_true]; omega
    · have h2 : ¬ (k + 1 = n ∧ 0 < n ∧ b = true) := fun h => hc ⟨h.1, h.2.2⟩
      simp only [hc, h2, if_false]; omega

theorem sumTo_cap {N r : Nat} (h : 1 < mr N r) : sumTo (nodes N r) (cap N r) = mr N r := by
  have hn := nodes_eq h
  have := sumTo_cap_aux (nodes N r) (decide (mr N r % 2 = 1)) (nodes N r) (Nat.le_refl _)
  have he : (fun c => if c + 1 = nodes N r ∧ decide (mr N r % 2 = 1) = true then 1 else 2) = cap N r := by
    funext c; simp [cap]
  rw [he] at this
  have hpos : 0 < nodes N r := by omega
  by_cases hodd : mr N r % 2 = 1 <;> simp [hodd, hpos] at this <;> omega

end PikaVerif.Barrier
