import PikaVerif.Lemmas.Stop9
import PikaVerif.Lemmas.StopRemE1
import PikaVerif.Lemmas.StopRemE2
import PikaVerif.Lemmas.StopRemE3
/-! Follow-up C14q: layer C (converse of `InvR.remA`) holds after every accepted log of the
    repaired code started with faithful thread identities, and the state lemmas the property
    theorems of `Props/C14q.lean` are made of. -/
namespace PikaVerif.Stop
open PikaVerif

theorem stepC (s s' : St) (e : Ev) (hA : InvA s) (hB : InvB s) (hD : InvD s) (hi : InvC s) (h : step s e = some s') : InvC s' := by
  cases e with
  | inv a k => exact stepC_inv s s' a k hA hB hD hi h
  | ret a r => exact stepC_ret s s' a r hA hB hD hi h
  | load a lk rq src => exact stepC_load s s' a lk rq src hA hB hD hi h
  | casFail a lk rq src => exact stepC_casFail s s' a lk rq src hA hB hD hi h
  | reload a lk rq src => exact stepC_reload s s' a lk rq src hA hB hD hi h
  | acq a => exact stepC_acq s s' a hA hB hD hi h
  | deq a c m => exact stepC_deq s s' a c m hA hB hD hi h
  | rsDone a => exact stepC_rsDone s s' a hA hB hD hi h
  | preExec a c => exact stepC_preExec s s' a c hA hB hD hi h
  | cbBegin a c => exact stepC_cbBegin s s' a c hA hB hD hi h
  | cbEnd a c => exact stepC_cbEnd s s' a c hA hB hD hi h
  | finStore a c r => exact stepC_finStore s s' a c r hA hB hD hi h
  | inFin a c => exact stepC_inFin s s' a c hA hB hD hi h
  | push a c b => exact stepC_push s s' a c b hA hB hD hi h
  | unlink a c r => exact stepC_unlink s s' a c r hA hB hD hi h
  | selfChk a c e p => exact stepC_selfChk s s' a c e p hA hB hD hi h
  | waited a c => exact stepC_waited s s' a c hA hB hD hi h
  | srcInc a => exact stepC_srcInc s s' a hA hB hD hi h
  | srcDec a => exact stepC_srcDec s s' a hA hB hD hi h
  | query a x y => exact stepC_query s s' a x y hA hB hD hi h
  | done a => exact stepC_done s s' a hA hB hD hi h

/-- everything the memory-safety theorems of C14q need about a state (either constructor
    variant; faithful thread identities) -/
structure InvSafe (s : St) : Prop where
  all : InvAll s
  R : InvR s
  C : InvC s

theorem stepSafe (s s' : St) (e : Ev) (hi : InvSafe s) (h : step s e = some s') : InvSafe s' :=
  ⟨stepAll s s' e hi.all h, stepR s s' e hi.all.A hi.all.B hi.R h,
   stepC s s' e hi.all.A hi.all.B hi.all.D hi.C h⟩

theorem invSafe_of_accepted {n K : Nat} {ident : Nat → Nat} {fc : Bool} {srcs : Nat} {log : List Ev} {s : St}
    (hK : 0 < K) (hid : ∀ a b, ident a = ident b ↔ a % K = b % K)
    (h : runLog step (init n K ident true fc srcs) log = some s) : InvSafe s :=
  inv_of_runLog InvSafe (fun s e s' hi hs => stepSafe s s' e hi hs)
    ⟨invAll_init n K ident fc srcs hK hid, invR_init n K ident true fc srcs, invC_init n K ident true fc srcs⟩ h

/-- the callback object `c` exists and no destructor of it has returned or is even past its
    last access to the stop state (only the `return` of `remove_callback` left) -/
def intact (s : St) (c : Nat) : Prop :=
  s.life c ≠ .dead ∧ s.life c ≠ .new ∧ ∀ b, retUnreg (s.pc b) ≠ some c

theorem intact_not_gone {s : St} {c : Nat} (h : intact s c) : ¬ gone s c := by
  intro hg
  rcases hg with hg | hg
  · exact h.1 hg
  · exact h.2.2 _ hg

theorem unregOf_split {p : Pc} {c : Nat} (h : unregOf p = some c) :
    unregPath p = some c ∨ retUnreg p = some c := by
  cases p with
  | ld k => cases k <;> simp_all [unregOf, unregPath]
  | cas k b => cases k <;> simp_all [unregOf, unregPath]
  | spin k => cases k <;> simp_all [unregOf, unregPath]
  | locked k => cases k <;> simp_all [unregOf, unregPath]
  | chk c => simp_all [unregOf, unregPath]
  | wait c => simp_all [unregOf, unregPath]
  | retn k r => cases k <;> simp_all [unregOf, retUnreg]
  | _ => simp [unregOf] at h

/-- **converse of `InvR.remA`**: while request_stop `w` is between the store of `is_removed_`
    and the finished store for `c`, a destructor of `c` that has returned or is at its `return`
    has set `w`'s local `is_removed` -/
theorem InvSafe.gone_flag {s : St} (hP : InvSafe s) {w c : Nat} (hw : runPhase (s.pc w) = some c)
    (hg : gone s c) : s.remFlag w = true := by
  rcases hg with hg | hg
  · exact hP.C.convD w c hw hg
  · exact hP.C.convR w c _ hw hg

/-- `InvR.remA/remP` in terms of `gone` -/
theorem InvSafe.flag_gone {s : St} (hP : InvSafe s) {w c : Nat} (hw : runPhase (s.pc w) = some c)
    (hf : s.remFlag w = true) : gone s c := by
  have hal := hP.R.remA w c hw hf
  have hd := hP.all.B.winP w c (runPhase_win hw)
  have hpu := hP.all.B.deqPushed c hd
  cases hl : s.life c with
  | new => have := (hP.all.B.fresh c hl).1; rw [hpu] at this; simp at this
  | ctor => rw [hl] at hal; simp [alive] at hal
  | live => rw [hl] at hal; simp [alive] at hal
  | dead => exact Or.inl hl
  | dying =>
    rcases unregOf_split (hP.C.dyingP c hl) with h | h
    · exact absurd h (hP.R.remP w c _ hw hf)
    · exact Or.inr h

/-- the flag decides: not set ⇒ the object is intact -/
theorem InvSafe.noflag_intact {s : St} (hP : InvSafe s) {w c : Nat} (hw : runPhase (s.pc w) = some c)
    (hf : s.remFlag w = false) : intact s c := by
  have hd := hP.all.B.winP w c (runPhase_win hw)
  have hpu := hP.all.B.deqPushed c hd
  refine ⟨?_, ?_, ?_⟩
  · intro hl; have := hP.C.convD w c hw hl; rw [hf] at this; simp at this
  · intro hl; have := (hP.all.B.fresh c hl).1; rw [hpu] at this; simp at this
  · intro b hb; have := hP.C.convR w c b hw hb; rw [hf] at this; simp at this

/-- a dequeued callback that has not been entered yet is intact -/
theorem InvSafe.pending_intact {s : St} (hP : InvSafe s) {c : Nat} (hd : s.deqd c = true) (hr : s.runs c = 0) :
    intact s c := by
  refine ⟨hP.all.D.pend c hd hr, ?_, fun b hb => hP.all.D.pendR b c hb hd hr⟩
  intro hn
  have := (hP.all.B.fresh c hn).2.1
  rw [hd] at this; simp at this

/-- a callback under construction is intact -/
theorem InvSafe.ctor_intact {s : St} (hP : InvSafe s) {c : Nat} (hl : s.life c = .ctor) : intact s c := by
  refine ⟨by simp [hl], by simp [hl], ?_⟩
  intro b hb
  have := hP.all.B.unregP b c (unregDone_unregOf (retUnreg_unregDone hb))
  rw [hl] at this; simp at this

/-- a callback in the list is intact -/
theorem InvSafe.listed_intact {s : St} (hP : InvSafe s) {c : Nat} (hm : c ∈ s.list) : intact s c := by
  have h := hP.all.B.inList c hm
  refine ⟨h.2.2.2.2, h.2.2.2.1, ?_⟩
  intro b hb
  exact (hP.all.B.unregOut b c (retUnreg_unregDone hb)).1 hm

end PikaVerif.Stop
