import PikaVerif.Lemmas.CV3
import PikaVerif.Lemmas.CV4
/-! Step lemma for the trace form of "no lost stop" (follow-up C07s): a stop-token waiter that
    has passed its S1 check and has not been notified stays in that condition until a notifier
    pops it or the agent wakes it. -/
namespace PikaVerif.CV
open PikaVerif

attribute [local grind] holds holdsU noU inQ waitExp needTok setPopped b2n isTimed isPred isWait isNotify
  isStop pcOpOk exitPc exposed

set_option maxHeartbeats 1600000

attribute [local grind →] isStop_facts

theorem exposed_step (s s' : St) (hB : Inv2 s) (e : Ev) (w : Nat)
    (hc : s.curOp w = .swait false) (he : exposed (s.pc w) = true) (h : step s e = some s') :
    (∃ x z d, e = .popAll x z w d) ∨ (∃ x z d, e = .popResume x z w d) ∨ e = .woke w ∨
    (s'.curOp w = .swait false ∧ exposed (s'.pc w) = true) := by
  have hop := hB.opOk w
  cases e
  case popAll t z g d =>
    by_cases hg : g = w
    · subst hg; exact Or.inl ⟨t, z, d, rfl⟩
    · right; right; right
      obtain ⟨pcT, hpT, _, h⟩ := popAll_core' h
      unfold popCore at h
      (repeat' split at h) <;> first | (simp at h; done) | skip
      all_goals (simp only [Option.some.injEq] at h; subst h; dsimp only; grind [upd])
  case popResume t z g d =>
    by_cases hg : g = w
    · subst hg; exact Or.inr (Or.inl ⟨t, z, d, rfl⟩)
    · right; right; right
      simp only [step] at h
      split at h
      case isFalse => simp at h
      split at h
      case h_2 => simp at h
      rename_i hpc
      unfold popCore at h
      (repeat' split at h) <;> first | (simp at h; done) | skip
      all_goals (simp only [Option.some.injEq] at h; subst h; dsimp only; grind [upd])
  case woke t =>
    by_cases ht : t = w
    · subst ht; exact Or.inr (Or.inr (Or.inl rfl))
    · right; right; right
      simp only [step] at h
      (repeat' split at h) <;> first | (simp at h; done) | skip
      all_goals (simp only [Option.some.injEq] at h; subst h; dsimp only; grind [upd])
  all_goals
    right; right; right
    simp only [step] at h
    split at h
    case isFalse => simp at h
    rename_i hg
    repeat' split at h
    all_goals first | (simp at h; done) | skip
    all_goals (simp only [Option.some.injEq] at h; subst h; dsimp only; grind [upd])

end PikaVerif.CV
