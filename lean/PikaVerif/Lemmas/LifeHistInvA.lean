import PikaVerif.Lemmas.LifeHistInv
/-! Object / worker part of the ledger invariant of life-cycle histories (C05t). -/
namespace PikaVerif.Life
open PikaVerif

attribute [local grind] b2n

set_option hygiene false in
macro "hinva" : tactic => `(tactic| (
  obtain ⟨a1,a2,a3,a4,a5⟩ := ha
  obtain ⟨h1,h1b,h2,h3,h3b,h4,h5,h6,h7,h8,h9,h10,h11,h12,h13,h14,h15,h16,h17,h18,h19,h20⟩ := hi
  hist_open
  all_goals (
    clear hs h7 h8
    try simp only [nsub, *] at a5
    refine ⟨?_, ?_, ?_, ?_, ?_⟩)
  all_goals first
    | assumption
    | (intro u; grind [upd])
    | grind [upd]
    | (intro u; by_cases hu : u = o <;> simp_all [upd] <;> grind)))

set_option maxHeartbeats 1000000 in
theorem hinvA_inc (h h' : HSt) (a n : Nat) (hi : Inv h.s) (ha : HInvA h) (hs : hstep h (.inc a n) = some h') : HInvA h' := by hinva
set_option maxHeartbeats 1000000 in
theorem hinvA_dec (h h' : HSt) (a n : Nat) (hi : Inv h.s) (ha : HInvA h) (hs : hstep h (.dec a n) = some h') : HInvA h' := by hinva
set_option maxHeartbeats 1000000 in
theorem hinvA_stage (h h' : HSt) (a : Nat) (hi : Inv h.s) (ha : HInvA h) (hs : hstep h (.stage a) = some h') : HInvA h' := by hinva
set_option maxHeartbeats 1000000 in
theorem hinvA_unstage (h h' : HSt) (a : Nat) (hi : Inv h.s) (ha : HInvA h) (hs : hstep h (.unstage a) = some h') : HInvA h' := by hinva
set_option maxHeartbeats 1000000 in
theorem hinvA_new (h h' : HSt) (a o : Nat) (hi : Inv h.s) (ha : HInvA h) (hs : hstep h (.new a o) = some h') : HInvA h' := by hinva
set_option maxHeartbeats 1000000 in
theorem hinvA_destroy (h h' : HSt) (a o : Nat) (hi : Inv h.s) (ha : HInvA h) (hs : hstep h (.destroy a o) = some h') : HInvA h' := by hinva
set_option maxHeartbeats 1000000 in
theorem hinvA_phaseBegin (h h' : HSt) (a o : Nat) (hi : Inv h.s) (ha : HInvA h) (hs : hstep h (.phaseBegin a o) = some h') : HInvA h' := by hinva
set_option maxHeartbeats 1000000 in
theorem hinvA_phaseEnd (h h' : HSt) (a o : Nat) (hi : Inv h.s) (ha : HInvA h) (hs : hstep h (.phaseEnd a o) = some h') : HInvA h' := by hinva
set_option maxHeartbeats 1000000 in
theorem hinvA_body (h h' : HSt) (a o : Nat) (hi : Inv h.s) (ha : HInvA h) (hs : hstep h (.body a o) = some h') : HInvA h' := by hinva
set_option maxHeartbeats 1000000 in
theorem hinvA_sample (h h' : HSt) (a v w : Nat) (hi : Inv h.s) (ha : HInvA h) (hs : hstep h (.sample a v w) = some h') : HInvA h' := by hinva
set_option maxHeartbeats 1000000 in
theorem hinvA_rtState (h h' : HSt) (a v : Nat) (hi : Inv h.s) (ha : HInvA h) (hs : hstep h (.rtState a v) = some h') : HInvA h' := by hinva
set_option maxHeartbeats 1000000 in
theorem hinvA_result (h h' : HSt) (a r : Nat) (hi : Inv h.s) (ha : HInvA h) (hs : hstep h (.result a r) = some h') : HInvA h' := by hinva
set_option maxHeartbeats 1000000 in
theorem hinvA_fin (h h' : HSt) (a : Nat) (hi : Inv h.s) (ha : HInvA h) (hs : hstep h (.fin a) = some h') : HInvA h' := by hinva
set_option maxHeartbeats 1000000 in
theorem hinvA_stopEnter (h h' : HSt) (a : Nat) (hi : Inv h.s) (ha : HInvA h) (hs : hstep h (.stopEnter a) = some h') : HInvA h' := by hinva
set_option maxHeartbeats 1000000 in
theorem hinvA_waitFin (h h' : HSt) (a : Nat) (hi : Inv h.s) (ha : HInvA h) (hs : hstep h (.waitFin a) = some h') : HInvA h' := by hinva
set_option maxHeartbeats 1000000 in
theorem hinvA_waited (h h' : HSt) (a r : Nat) (hi : Inv h.s) (ha : HInvA h) (hs : hstep h (.waited a r) = some h') : HInvA h' := by hinva
set_option maxHeartbeats 1000000 in
theorem hinvA_stopExit (h h' : HSt) (a r : Nat) (hi : Inv h.s) (ha : HInvA h) (hs : hstep h (.stopExit a r) = some h') : HInvA h' := by hinva
set_option maxHeartbeats 1000000 in
theorem hinvA_suspendEnter (h h' : HSt) (a : Nat) (hi : Inv h.s) (ha : HInvA h) (hs : hstep h (.suspendEnter a) = some h') : HInvA h' := by hinva
set_option maxHeartbeats 1000000 in
theorem hinvA_resumeEnter (h h' : HSt) (a : Nat) (hi : Inv h.s) (ha : HInvA h) (hs : hstep h (.resumeEnter a) = some h') : HInvA h' := by hinva
set_option maxHeartbeats 1000000 in
theorem hinvA_worker (h h' : HSt) (a : Nat) (hi : Inv h.s) (ha : HInvA h) (hs : hstep h (.worker a) = some h') : HInvA h' := by hinva
set_option maxHeartbeats 1000000 in
theorem hinvA_sleep (h h' : HSt) (a : Nat) (hi : Inv h.s) (ha : HInvA h) (hs : hstep h (.sleep a) = some h') : HInvA h' := by hinva
set_option maxHeartbeats 1000000 in
theorem hinvA_wake (h h' : HSt) (a : Nat) (hi : Inv h.s) (ha : HInvA h) (hs : hstep h (.wake a) = some h') : HInvA h' := by hinva
set_option maxHeartbeats 1000000 in
theorem hinvA_waitEnter (h h' : HSt) (a : Nat) (hi : Inv h.s) (ha : HInvA h) (hs : hstep h (.waitEnter a) = some h') : HInvA h' := by hinva
set_option maxHeartbeats 1000000 in
theorem hinvA_waitExit (h h' : HSt) (a : Nat) (hi : Inv h.s) (ha : HInvA h) (hs : hstep h (.waitExit a) = some h') : HInvA h' := by hinva
set_option maxHeartbeats 1000000 in
theorem hinvA_reqCfg (h h' : HSt) (a t p : Nat) (hi : Inv h.s) (ha : HInvA h) (hs : hstep h (.reqCfg a t p) = some h') : HInvA h' := by hinva
set_option maxHeartbeats 1000000 in
theorem hinvA_seenCfg (h h' : HSt) (a t p : Nat) (hi : Inv h.s) (ha : HInvA h) (hs : hstep h (.seenCfg a t p) = some h') : HInvA h' := by hinva

theorem hinvA_step (h h' : HSt) (e : Ev) (hi : Inv h.s) (ha : HInvA h) (hs : hstep h e = some h') : HInvA h' := by
  cases e with
  | inc a n => exact hinvA_inc h h' a n hi ha hs
  | dec a n => exact hinvA_dec h h' a n hi ha hs
  | stage a => exact hinvA_stage h h' a hi ha hs
  | unstage a => exact hinvA_unstage h h' a hi ha hs
  | new a o => exact hinvA_new h h' a o hi ha hs
  | destroy a o => exact hinvA_destroy h h' a o hi ha hs
  | phaseBegin a o => exact hinvA_phaseBegin h h' a o hi ha hs
  | phaseEnd a o => exact hinvA_phaseEnd h h' a o hi ha hs
  | body a o => exact hinvA_body h h' a o hi ha hs
  | sample a v w => exact hinvA_sample h h' a v w hi ha hs
  | rtState a v => exact hinvA_rtState h h' a v hi ha hs
  | result a r => exact hinvA_result h h' a r hi ha hs
  | fin a => exact hinvA_fin h h' a hi ha hs
  | stopEnter a => exact hinvA_stopEnter h h' a hi ha hs
  | waitFin a => exact hinvA_waitFin h h' a hi ha hs
  | waited a r => exact hinvA_waited h h' a r hi ha hs
  | stopExit a r => exact hinvA_stopExit h h' a r hi ha hs
  | suspendEnter a => exact hinvA_suspendEnter h h' a hi ha hs
  | resumeEnter a => exact hinvA_resumeEnter h h' a hi ha hs
  | worker a => exact hinvA_worker h h' a hi ha hs
  | sleep a => exact hinvA_sleep h h' a hi ha hs
  | wake a => exact hinvA_wake h h' a hi ha hs
  | waitEnter a => exact hinvA_waitEnter h h' a hi ha hs
  | waitExit a => exact hinvA_waitExit h h' a hi ha hs
  | reqCfg a t p => exact hinvA_reqCfg h h' a t p hi ha hs
  | seenCfg a t p => exact hinvA_seenCfg h h' a t p hi ha hs

end PikaVerif.Life
