import PikaVerif.Lemmas.BarrierU11
/-! C09u, coarse barrier: helper for the non-vacuity examples (two threads, both ended). -/
namespace PikaVerif.Barrier
open PikaVerif

theorem maximal_of_two_fin (p : PSt) (hn : p.s.n = 2) (h0 : p.s.pc 0 = .fin) (h1 : p.s.pc 1 = .fin) :
    Maximal p := by
  apply maximal_of_all_fin
  intro t ht
  have : t = 0 ∨ t = 1 := by omega
  rcases this with h | h <;> subst h <;> assumption

/-- observation used by the examples: number of threads, completed phases, both threads ended -/
def obs2 (p : PSt) : Nat × Nat × Bool × Bool :=
  (p.s.n, p.s.ph, decide (p.s.pc 0 = .fin), decide (p.s.pc 1 = .fin))

theorem maximal_of_obs2 (prog : Nat → List Op) (log : List Ev) (k : Nat)
    (h : (runLog pstep (pinit 2 2 prog) log).map obs2 = some (2, k, true, true)) :
    ∃ p, runLog pstep (pinit 2 2 prog) log = some p ∧ Maximal p ∧ p.s.ph = k := by
  cases hrun : runLog pstep (pinit 2 2 prog) log with
  | none => rw [hrun] at h; simp at h
  | some p =>
    rw [hrun] at h
    simp only [Option.map_some, Option.some.injEq, obs2, Prod.mk.injEq, decide_eq_true_eq] at h
    obtain ⟨hn, hph, h0, h1⟩ := h
    exact ⟨p, rfl, maximal_of_two_fin p hn h0 h1, hph⟩

end PikaVerif.Barrier
