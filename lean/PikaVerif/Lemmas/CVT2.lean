import PikaVerif.Lemmas.CVT
/-! Every accepted event of the condition-variable model other than `inv` strictly decreases the
    measure `mu` (C07t); `inv t o` adds exactly `opCost n o`. -/
namespace PikaVerif.CV
open PikaVerif

attribute [local grind] rank b2n isTimed isPred isStop isWait exitPc finalAfter pcOpOk cbW opCost

set_option maxHeartbeats 1600000

set_option hygiene false in
macro "mt_step" t:term : tactic => `(tactic| (
  simp only [step] at h
  split at h
  case isFalse => simp at h
  rename_i hg
  have htn : $t < s.n := by grind
  have hop := hB.opOk $t
  repeat' split at h
  all_goals first | (simp at h; done) | skip
  all_goals (
    simp only [Option.some.injEq] at h
    subst h
    refine mu_lt_of_change s _ $t htn rfl ?_ ?_
    · intro u _ hne; simp [wt, upd, hne]
    · simp only [wt, upd_same]
      grind)))

theorem mu_ret (s s' : St) (t r : Nat) (hB : Inv2 s) (h : step s (.ret t r) = some s') : mu s' < mu s := by mt_step t
theorem mu_ulAcq (s s' : St) (t : Nat) (hB : Inv2 s) (h : step s (.ulAcq t) = some s') : mu s' < mu s := by mt_step t
theorem mu_ulRel (s s' : St) (t : Nat) (hB : Inv2 s) (h : step s (.ulRel t) = some s') : mu s' < mu s := by mt_step t
theorem mu_setFlag (s s' : St) (t : Nat) (v : Bool) (hB : Inv2 s) (h : step s (.setFlag t v) = some s') : mu s' < mu s := by mt_step t
theorem mu_pred (s s' : St) (t : Nat) (v : Bool) (hB : Inv2 s) (h : step s (.pred t v) = some s') : mu s' < mu s := by mt_step t
theorem mu_slAcq (s s' : St) (t : Nat) (hB : Inv2 s) (h : step s (.slAcq t) = some s') : mu s' < mu s := by mt_step t
theorem mu_slRel (s s' : St) (t : Nat) (hB : Inv2 s) (h : step s (.slRel t) = some s') : mu s' < mu s := by mt_step t
theorem mu_cvNone (s s' : St) (t : Nat) (hB : Inv2 s) (h : step s (.cvNone t) = some s') : mu s' < mu s := by mt_step t
theorem mu_cvAll (s s' : St) (t z : Nat) (hA : Inv s) (hB : Inv2 s) (h : step s (.cvAll t z) = some s') : mu s' < mu s := by
  have hql := qlen_le s hA
  mt_step t
theorem mu_suspend (s s' : St) (t : Nat) (hB : Inv2 s) (h : step s (.suspend t) = some s') : mu s' < mu s := by mt_step t
theorem mu_woke (s s' : St) (t : Nat) (hB : Inv2 s) (h : step s (.woke t) = some s') : mu s' < mu s := by mt_step t
theorem mu_sleep (s s' : St) (t : Nat) (hB : Inv2 s) (h : step s (.sleep t) = some s') : mu s' < mu s := by mt_step t
theorem mu_timeout (s s' : St) (t : Nat) (hB : Inv2 s) (h : step s (.timeout t) = some s') : mu s' < mu s := by mt_step t
theorem mu_done (s s' : St) (t : Nat) (hB : Inv2 s) (h : step s (.done t) = some s') : mu s' < mu s := by mt_step t
theorem mu_stop0 (s s' : St) (t : Nat) (v : Bool) (hB : Inv2 s) (h : step s (.stop0 t v) = some s') : mu s' < mu s := by mt_step t
theorem mu_stop1 (s s' : St) (t : Nat) (v : Bool) (hB : Inv2 s) (h : step s (.stop1 t v) = some s') : mu s' < mu s := by mt_step t
theorem mu_stop2 (s s' : St) (t : Nat) (v : Bool) (hB : Inv2 s) (h : step s (.stop2 t v) = some s') : mu s' < mu s := by mt_step t
theorem mu_stSeen (s s' : St) (t : Nat) (hB : Inv2 s) (h : step s (.stSeen t) = some s') : mu s' < mu s := by mt_step t
theorem mu_stAcq (s s' : St) (t m : Nat) (hB : Inv2 s) (h : step s (.stAcq t m) = some s') : mu s' < mu s := by mt_step t
theorem mu_stPush (s s' : St) (t : Nat) (b : Bool) (hB : Inv2 s) (h : step s (.stPush t b) = some s') : mu s' < mu s := by mt_step t
theorem mu_stDeq (s s' : St) (t c : Nat) (b : Bool) (hB : Inv2 s) (h : step s (.stDeq t c b) = some s') : mu s' < mu s := by mt_step t
theorem mu_stFin (s s' : St) (t c : Nat) (b : Bool) (hB : Inv2 s) (h : step s (.stFin t c b) = some s') : mu s' < mu s := by mt_step t
theorem mu_stInFin (s s' : St) (t : Nat) (hB : Inv2 s) (h : step s (.stInFin t) = some s') : mu s' < mu s := by mt_step t
theorem mu_stUnlink (s s' : St) (t : Nat) (b : Bool) (hB : Inv2 s) (h : step s (.stUnlink t b) = some s') : mu s' < mu s := by
  have hce := cbW_erase s.n t s.cbs
  mt_step t
theorem mu_stSelf (s s' : St) (t : Nat) (b : Bool) (hB : Inv2 s) (h : step s (.stSelf t b) = some s') : mu s' < mu s := by mt_step t
theorem mu_stWaited (s s' : St) (t : Nat) (hB : Inv2 s) (h : step s (.stWaited t) = some s') : mu s' < mu s := by mt_step t
theorem mu_stRsDone (s s' : St) (t : Nat) (hB : Inv2 s) (h : step s (.stRsDone t) = some s') : mu s' < mu s := by mt_step t

/-! ## events that change the queue -/

theorem rank_q (c : Op) (ss : Bool) (N q q' : Nat) (p : Pc) (h : holds p = false) :
    rank c ss N q p = rank c ss N q' p := by
  cases p <;> simp [rank, holds] at h ⊢

theorem others_not_hold (s : St) (hA : Inv s) (t u : Nat) (hl : s.lock = some t) (hne : u ≠ t) :
    holds (s.pc u) = false := by
  cases hh : holds (s.pc u) with
  | false => rfl
  | true => have := hA.lockHolder u hh; rw [hl] at this; simp at this; exact absurd this.symm hne

theorem mu_cvEnq (s s' : St) (t z : Nat) (b : Bool) (hA : Inv s) (_hB : Inv2 s)
    (h : step s (.cvEnq t z b) = some s') : mu s' < mu s := by
  simp only [step] at h
  split at h
  case isFalse => simp at h
  rename_i hg
  have htn : t < s.n := hg.1
  have hl := hg.2.1
  split at h
  case h_2 => simp at h
  rename_i hpc
  simp only [Option.some.injEq] at h
  subst h
  refine mu_lt_of_change s _ t htn rfl ?_ ?_
  · intro u _ hne
    have hnh := others_not_hold s hA t u hl hne
    simp only [wt, upd_other _ _ _ _ hne]
    congr 1
    exact rank_q _ _ _ _ _ _ hnh
  · simp only [wt, upd_same, hpc]
    simp [rank]

theorem mu_cvWoke (s s' : St) (t : Nat) (a b : Bool) (hA : Inv s) (hB : Inv2 s)
    (h : step s (.cvWoke t a b) = some s') : mu s' < mu s := by
  simp only [step] at h
  split at h
  case isFalse => simp at h
  rename_i hg
  have htn : t < s.n := hg.1
  have hl := hg.2
  have hop := hB.opOk t
  split at h
  case h_2 => simp at h
  rename_i tmm popped hpc
  split at h
  case isFalse => simp at h
  split at h
  all_goals (
    simp only [Option.some.injEq] at h
    subst h
    refine mu_lt_of_change s _ t htn rfl ?_ ?_
    · intro u _ hne
      have hnh := others_not_hold s hA t u hl hne
      have e := rank_q (s.curOp u) (s.sstop u) s.n (s.queue.erase t).length s.queue.length (s.pc u) hnh
      simp only [wt, upd_other _ _ _ _ hne] <;> omega
    · simp only [wt, upd_same]
      grind)

theorem setPopped_rank {p p' : Pc} (h : setPopped p = some p') (c : Op) (ss : Bool) (N q q' : Nat) :
    rank c ss N q p' = rank c ss N q' p + 14 ∧ holds p = false ∧ inQ p = true := by
  unfold setPopped at h
  split at h <;> simp at h <;> subst h <;> simp [rank, b2n, holds, inQ] <;> omega

/-- a pop: the notifier `t` (whose next program counter `pcT` is at least 29 cheaper once the
    queue is one shorter) pops and resumes the front waiter -/
theorem mu_popCore (s s' : St) (t z g : Nat) (d : Bool) (pcT : Pc) (hA : Inv s) (htn : t < s.n)
    (hl : s.lock = some t)
    (hpay : ∀ q, rank (s.curOp t) (s.sstop t) s.n q pcT + 29 ≤ rank (s.curOp t) (s.sstop t) s.n (q + 1) (s.pc t))
    (h : popCore s t z g d pcT = some s') : mu s' < mu s := by
  unfold popCore at h
  split at h
  case h_2 => simp at h
  rename_i g' rest hq
  split at h
  case isFalse => simp at h
  rename_i hsz
  obtain ⟨hsz, hgg⟩ := hsz
  subst hgg
  split at h
  case h_2 => simp at h
  rename_i p' hp'
  split at h
  case isFalse => simp at h
  simp only [Option.some.injEq] at h
  subst h
  have hgq : g' ∈ s.queue := by rw [hq]; simp
  have hginQ := (hA.qIff g').1 hgq
  have hgn : g' < s.n := by
    apply Classical.byContradiction
    intro hge
    rw [hA.outside g' (by omega)] at hginQ
    simp [inQ] at hginQ
  have hth := (hA.lockConv t hl).1
  have hgt : g' ≠ t := by
    intro he
    have := (setPopped_rank hp' .lock false 0 0 0).2.1
    rw [he, hth] at this; simp at this
  have hlen : s.queue.length = rest.length + 1 := by rw [hq]; simp
  refine mu_lt_of_change2 s _ t g' htn hgn hgt rfl rfl ?_ ?_
  · intro u _ hut hug
    have hnh := others_not_hold s hA t u hl hut
    simp only [wt, upd_other _ _ _ _ hut, upd_other _ _ _ _ hug]
    have e1 := rank_q (s.curOp u) (s.sstop u) s.n rest.length s.queue.length (s.pc u) hnh
    split <;> simp [e1, upd_other _ _ _ _ hug]
  · have e1 := (setPopped_rank hp' (s.curOp g') (s.sstop g') s.n rest.length s.queue.length).1
    have e2 := hpay rest.length
    rw [← hlen] at e2
    simp only [wt, upd_same, upd_other _ _ _ _ hgt]
    split <;> simp [upd_same, upd_other _ _ _ _ (Ne.symm hgt)] <;> omega

theorem mu_popResume (s s' : St) (t z g : Nat) (d : Bool) (hA : Inv s) (_hB : Inv2 s)
    (h : step s (.popResume t z g d) = some s') : mu s' < mu s := by
  simp only [step] at h
  split at h
  case isFalse => simp at h
  rename_i hg
  split at h
  case h_2 => simp at h
  rename_i hpc
  refine mu_popCore s s' t z g d .nDone hA hg.1 hg.2.1 ?_ h
  intro q
  rw [hpc, hg.2.2]
  simp [rank]

theorem mu_popAll (s s' : St) (t z g : Nat) (d : Bool) (hA : Inv s) (_hB : Inv2 s)
    (h : step s (.popAll t z g d) = some s') : mu s' < mu s := by
  simp only [step] at h
  split at h
  case isFalse => simp at h
  rename_i hg
  split at h
  case h_3 => simp at h
  · rename_i hpc
    refine mu_popCore s s' t z g d .nAll hA hg.1 hg.2 ?_ h
    intro q
    rw [hpc]
    simp [rank]; omega
  · rename_i k hpc
    refine mu_popCore s s' t z g d (.cAll k) hA hg.1 hg.2 ?_ h
    intro q
    rw [hpc]
    simp [rank]; omega

/-- invoking operation `o` adds exactly its potential `opCost n o` -/
theorem mu_inv (s s' : St) (t : Nat) (o : Op) (h : step s (.inv t o) = some s') :
    mu s' = mu s + opCost s.n o := by
  simp only [step] at h
  split at h
  case isFalse => simp at h
  rename_i hg
  have htn : t < s.n := hg.1
  have hpc := hg.2
  have key : ∀ s'' : St, s''.n = s.n → s''.cbs = s.cbs → (∀ u, u < s.n → u ≠ t → wt s'' u = wt s u) →
      wt s'' t = wt s t + opCost s.n o → mu s'' = mu s + opCost s.n o := by
    intro s'' hn hc ho hw
    have := sumTo_change s.n (wt s) (wt s'') t htn ho
    simp only [mu, hn, hc]
    omega
  repeat' split at h
  all_goals first | (simp at h; done) | skip
  all_goals (
    simp only [Option.some.injEq] at h
    subst h
    refine key _ rfl rfl ?_ ?_
    · intro u _ hne; simp [wt, upd, hne]
    · simp only [wt, upd_same, hpc]
      grind)

/-- **The measure strictly decreases with every accepted event that is not the invocation of a
    new operation.** -/
theorem mu_step (s s' : St) (e : Ev) (hA : Inv s) (hB : Inv2 s) (hne : ∀ t o, e ≠ .inv t o)
    (h : step s e = some s') : mu s' < mu s := by
  cases e with
  | inv t o => exact absurd rfl (hne t o)
  | ret t r => exact mu_ret s s' t r hB h
  | ulAcq t => exact mu_ulAcq s s' t hB h
  | ulRel t => exact mu_ulRel s s' t hB h
  | setFlag t v => exact mu_setFlag s s' t v hB h
  | pred t v => exact mu_pred s s' t v hB h
  | slAcq t => exact mu_slAcq s s' t hB h
  | slRel t => exact mu_slRel s s' t hB h
  | cvEnq t z b => exact mu_cvEnq s s' t z b hA hB h
  | popResume t z g d => exact mu_popResume s s' t z g d hA hB h
  | cvNone t => exact mu_cvNone s s' t hB h
  | cvAll t z => exact mu_cvAll s s' t z hA hB h
  | popAll t z g d => exact mu_popAll s s' t z g d hA hB h
  | cvWoke t a b => exact mu_cvWoke s s' t a b hA hB h
  | suspend t => exact mu_suspend s s' t hB h
  | woke t => exact mu_woke s s' t hB h
  | sleep t => exact mu_sleep s s' t hB h
  | timeout t => exact mu_timeout s s' t hB h
  | done t => exact mu_done s s' t hB h
  | stop0 t v => exact mu_stop0 s s' t v hB h
  | stop1 t v => exact mu_stop1 s s' t v hB h
  | stop2 t v => exact mu_stop2 s s' t v hB h
  | stSeen t => exact mu_stSeen s s' t hB h
  | stAcq t m => exact mu_stAcq s s' t m hB h
  | stPush t b => exact mu_stPush s s' t b hB h
  | stDeq t c b => exact mu_stDeq s s' t c b hB h
  | stFin t c b => exact mu_stFin s s' t c b hB h
  | stInFin t => exact mu_stInFin s s' t hB h
  | stUnlink t b => exact mu_stUnlink s s' t b hB h
  | stSelf t b => exact mu_stSelf s s' t b hB h
  | stWaited t => exact mu_stWaited s s' t hB h
  | stRsDone t => exact mu_stRsDone s s' t hB h

end PikaVerif.CV
