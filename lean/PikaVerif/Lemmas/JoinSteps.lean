import PikaVerif.Lemmas.Join
/-! Preservation of the invariant of the join model, one theorem per event kind. -/
namespace PikaVerif.Join
open PikaVerif

theorem step_inv_term (s s' : St) (o : Nat) (hi : Inv s) (h : step s (.term o) = some s') : Inv s' := by join_step
theorem step_inv_start (s s' : St) (hh o p : Nat) (hi : Inv s) (h : step s (.start hh o p) = some s') : Inv s' := by join_step
theorem step_inv_body (s s' : St) (o : Nat) (hi : Inv s) (h : step s (.body o) = some s') : Inv s' := by join_step
theorem step_inv_bodyDone (s s' : St) (o : Nat) (hi : Inv s) (h : step s (.bodyDone o) = some s') : Inv s' := by join_step
theorem step_inv_interrupted (s s' : St) (o : Nat) (hi : Inv s) (h : step s (.interrupted o) = some s') : Inv s' := by join_step
theorem step_inv_exited (s s' : St) (o : Nat) (hi : Inv s) (h : step s (.exited o) = some s') : Inv s' := by join_step
theorem step_inv_jnLock (s s' : St) (hh j : Nat) (hi : Inv s) (h : step s (.jnLock hh j) = some s') : Inv s' := by join_step
theorem step_inv_jnErr (s s' : St) (hh j c : Nat) (hi : Inv s) (h : step s (.jnErr hh j c) = some s') : Inv s' := by join_step
theorem step_inv_jnChecked (s s' : St) (hh j o : Nat) (hi : Inv s) (h : step s (.jnChecked hh j o) = some s') : Inv s' := by join_step
theorem step_inv_jnUnlock (s s' : St) (hh j : Nat) (hi : Inv s) (h : step s (.jnUnlock hh j) = some s') : Inv s' := by join_step
theorem step_inv_jnSusp (s s' : St) (hh j : Nat) (hi : Inv s) (h : step s (.jnSusp hh j) = some s') : Inv s' := by join_step
theorem step_inv_jnWoke (s s' : St) (hh j : Nat) (hi : Inv s) (h : step s (.jnWoke hh j) = some s') : Inv s' := by join_step
theorem step_inv_jnDone (s s' : St) (hh j : Nat) (hi : Inv s) (h : step s (.jnDone hh j) = some s') : Inv s' := by join_step
theorem step_inv_joinable (s s' : St) (hh j : Nat) (r : Bool) (hi : Inv s) (h : step s (.joinable hh j r) = some s') : Inv s' := by join_step
theorem step_inv_detach (s s' : St) (hh j : Nat) (r : Bool) (hi : Inv s) (h : step s (.detach hh j r) = some s') : Inv s' := by join_step
theorem step_inv_uadd (s s' : St) (o j k : Nat) (hi : Inv s) (h : step s (.uadd o j k) = some s') : Inv s' := by join_step
theorem step_inv_ecAdd (s s' : St) (o j c : Nat) (hi : Inv s) (h : step s (.ecAdd o j c) = some s') : Inv s' := by join_step
theorem step_inv_ecBegin (s s' : St) (o n : Nat) (hi : Inv s) (h : step s (.ecBegin o n) = some s') : Inv s' := by join_step
theorem step_inv_ecTake (s s' : St) (o n : Nat) (hi : Inv s) (h : step s (.ecTake o n) = some s') : Inv s' := by join_step
theorem step_inv_ecNext (s s' : St) (o n : Nat) (hi : Inv s) (h : step s (.ecNext o n) = some s') : Inv s' := by join_step
theorem step_inv_ecRan (s s' : St) (o : Nat) (hi : Inv s) (h : step s (.ecRan o) = some s') : Inv s' := by join_step
theorem step_inv_resume (s s' : St) (j r : Nat) (hi : Inv s) (h : step s (.resume j r) = some s') : Inv s' := by join_step
theorem step_inv_ucb (s s' : St) (o r k : Nat) (hi : Inv s) (h : step s (.ucb o r k) = some s') : Inv s' := by join_step
theorem step_inv_ipEnable (s s' : St) (o : Nat) (a b : Bool) (hi : Inv s) (h : step s (.ipEnable o a b) = some s') : Inv s' := by join_step
theorem step_inv_ipRefuse (s s' : St) (o : Nat) (hi : Inv s) (h : step s (.ipRefuse o) = some s') : Inv s' := by join_step
theorem step_inv_ipReq (s s' : St) (o : Nat) (f : Bool) (hi : Inv s) (h : step s (.ipReq o f) = some s') : Inv s' := by join_step
theorem step_inv_ipHit (s s' : St) (o : Nat) (f : Bool) (hi : Inv s) (h : step s (.ipHit o f) = some s') : Inv s' := by join_step
theorem step_inv_ipMiss (s s' : St) (o : Nat) (hi : Inv s) (h : step s (.ipMiss o) = some s') : Inv s' := by join_step
theorem step_inv_ipClear (s s' : St) (o : Nat) (hi : Inv s) (h : step s (.ipClear o) = some s') : Inv s' := by join_step
theorem step_inv_jtDtor (s s' : St) (hh j : Nat) (hi : Inv s) (h : step s (.jtDtor hh j) = some s') : Inv s' := by join_step
theorem step_inv_jtStop (s s' : St) (hh j : Nat) (f : Bool) (hi : Inv s) (h : step s (.jtStop hh j f) = some s') : Inv s' := by join_step
theorem step_inv_jtJoined (s s' : St) (hh j : Nat) (hi : Inv s) (h : step s (.jtJoined hh j) = some s') : Inv s' := by join_step
theorem step_inv_mvCtor (s s' : St) (hh h1 : Nat) (o : Option Nat) (hi : Inv s) (h : step s (.mvCtor hh h1 o) = some s') : Inv s' := by join_step
theorem step_inv_mvAssign (s s' : St) (hh h1 : Nat) (o : Option Nat) (hi : Inv s) (h : step s (.mvAssign hh h1 o) = some s') : Inv s' := by join_step
theorem step_inv_mvTerm (s s' : St) (hh h1 : Nat) (hi : Inv s) (h : step s (.mvTerm hh h1) = some s') : Inv s' := by join_step
theorem step_inv_swap (s s' : St) (hh h1 : Nat) (o : Option Nat) (hi : Inv s) (h : step s (.swap hh h1 o) = some s') : Inv s' := by join_step
theorem step_inv_dtorOk (s s' : St) (hh j : Nat) (hi : Inv s) (h : step s (.dtorOk hh j) = some s') : Inv s' := by join_step
theorem step_inv_dtorTerm (s s' : St) (hh j : Nat) (hi : Inv s) (h : step s (.dtorTerm hh j) = some s') : Inv s' := by join_step
theorem step_inv_jtSkip (s s' : St) (hh j : Nat) (hi : Inv s) (h : step s (.jtSkip hh j) = some s') : Inv s' := by join_step

theorem step_inv (s s' : St) (e : Ev) (hi : Inv s) (h : step s e = some s') : Inv s' := by
  cases e with
  | term o => exact step_inv_term s s' o hi h
  | start hh o p => exact step_inv_start s s' hh o p hi h
  | body o => exact step_inv_body s s' o hi h
  | bodyDone o => exact step_inv_bodyDone s s' o hi h
  | interrupted o => exact step_inv_interrupted s s' o hi h
  | exited o => exact step_inv_exited s s' o hi h
  | jnLock hh j => exact step_inv_jnLock s s' hh j hi h
  | jnErr hh j c => exact step_inv_jnErr s s' hh j c hi h
  | jnChecked hh j o => exact step_inv_jnChecked s s' hh j o hi h
  | jnUnlock hh j => exact step_inv_jnUnlock s s' hh j hi h
  | jnSusp hh j => exact step_inv_jnSusp s s' hh j hi h
  | jnWoke hh j => exact step_inv_jnWoke s s' hh j hi h
  | jnDone hh j => exact step_inv_jnDone s s' hh j hi h
  | joinable hh j r => exact step_inv_joinable s s' hh j r hi h
  | detach hh j r => exact step_inv_detach s s' hh j r hi h
  | uadd o j k => exact step_inv_uadd s s' o j k hi h
  | ecAdd o j c => exact step_inv_ecAdd s s' o j c hi h
  | ecBegin o n => exact step_inv_ecBegin s s' o n hi h
  | ecTake o n => exact step_inv_ecTake s s' o n hi h
  | ecNext o n => exact step_inv_ecNext s s' o n hi h
  | ecRan o => exact step_inv_ecRan s s' o hi h
  | resume j r => exact step_inv_resume s s' j r hi h
  | ucb o r k => exact step_inv_ucb s s' o r k hi h
  | ipEnable o a b => exact step_inv_ipEnable s s' o a b hi h
  | ipRefuse o => exact step_inv_ipRefuse s s' o hi h
  | ipReq o f => exact step_inv_ipReq s s' o f hi h
  | ipHit o f => exact step_inv_ipHit s s' o f hi h
  | ipMiss o => exact step_inv_ipMiss s s' o hi h
  | ipClear o => exact step_inv_ipClear s s' o hi h
  | jtDtor hh j => exact step_inv_jtDtor s s' hh j hi h
  | jtStop hh j f => exact step_inv_jtStop s s' hh j f hi h
  | jtJoined hh j => exact step_inv_jtJoined s s' hh j hi h
  | mvCtor hh h1 o => exact step_inv_mvCtor s s' hh h1 o hi h
  | mvAssign hh h1 o => exact step_inv_mvAssign s s' hh h1 o hi h
  | mvTerm hh h1 => exact step_inv_mvTerm s s' hh h1 hi h
  | swap hh h1 o => exact step_inv_swap s s' hh h1 o hi h
  | dtorOk hh j => exact step_inv_dtorOk s s' hh j hi h
  | dtorTerm hh j => exact step_inv_dtorTerm s s' hh j hi h
  | jtSkip hh j => exact step_inv_jtSkip s s' hh j hi h

theorem inv_of_accepted {log : List Ev} {s : St} (h : runLog step init log = some s) : Inv s :=
  inv_of_runLog Inv (fun s e s' => step_inv s s' e) inv_init h

end PikaVerif.Join
