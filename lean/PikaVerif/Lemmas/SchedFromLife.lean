import PikaVerif.Model.SchedFromLife
/-!
Invariants of the life-cycle model of `schedule_from` (C03x), for the code as it is (`Cfg.ok`): the chain of
control (`CInv`: at most one thread executes adaptor code, the `holder`; nobody does once the downstream
completion was issued), the stored objects (`OInv`: construction / destruction counters, `freed`, `uaf`), the
result (`RInv`).  One preservation lemma per group, all events by one macro.
-/
namespace PikaVerif.SchedFromLife
open PikaVerif

/-- Chain of control. -/
structure CInv (s : St) : Prop where
  nsw : ∀ c, s.cfg.swapped c = false
  busyHolder : ∀ t, busy (s.pc t) = true → s.holder = some t
  holderBusy : ∀ t, s.holder = some t → busy (s.pc t) = true
  delivLe : s.delivered ≤ 1
  holderDeliv : ∀ t, s.holder = some t → s.delivered = 0
  predStarted : s.predSig ≠ none → s.started = true
  predNone : s.predSig = none → s.holder = none ∧ s.delivered = 0 ∧ s.sopArmed = false ∧ s.schSig = none
  armedWait : s.sopArmed = true → s.schSig = none → s.holder = none ∧ s.delivered = 0
  armedPred : s.sopArmed = true → ∃ v, s.predSig = some (.value v)
  schArmed : s.schSig ≠ none → s.sopArmed = true
  pcPred : ∀ t c, s.pc t = .pred c → s.predSig = some c ∧ s.sopArmed = false
  pcStored : ∀ t, s.pc t = .stored → s.sopArmed = false ∧ ∃ v, s.predSig = some (.value v)
  pcConn : ∀ t, s.pc t = .connected → s.sopArmed = false ∧ ∃ v, s.predSig = some (.value v)
  pcSch : ∀ t c, s.pc t = .sch c → s.schSig = some c
  pcRst : ∀ t c, s.pc t = .rst c → s.schSig = some c
  pcFwdd : ∀ t c, s.pc t ≠ .fwdd c
  progress : s.predSig ≠ none → s.delivered = 1 ∨ s.holder ≠ none ∨ (s.sopArmed = true ∧ s.schSig = none) ∨ s.aborted = true

theorem cinv_init (c : Cfg) (hc : c.ok) : CInv (init c) := by
  obtain ⟨h1, h2, h3⟩ := hc
  constructor <;> simp [init, busy]
  intro x; cases x <;> simp [Cfg.swapped, *]

attribute [local grind] busy b2n Sig.isValue

set_option hygiene false in
macro "sf_step" : tactic => `(tactic| (
  simp only [step] at h
  repeat' split at h
  all_goals first | (simp at h; done) | skip
  all_goals (
    simp only [Option.some.injEq] at h
    subst h
    (try simp only [deliver, doReset])
    (try split)
    all_goals (try simp only [free])
    all_goals (constructor <;> (try dsimp only)))
  all_goals first
    | assumption
    | (intro u; grind [upd])
    | grind [upd]))

theorem step_cinv (s s' : St) (e : Ev) (hc : CInv s) (h : step s e = some s') : CInv s' := by
  obtain ⟨c0,c1,c2,c3,c4,c5,c6,c7,c8,c9,c10,c11,c12,c13,c14,c15,c16⟩ := hc
  cases e <;> sf_step

/-- The stored objects (`ts`, `scheduler_op_state`), destruction of the operation state, `uaf`. -/
structure OInv (s : St) : Prop where
  predNoneO : s.predSig = none → s.tsCtor = 0 ∧ s.sopCtor = 0 ∧ s.ts = none ∧ s.sop = false ∧ s.freed = false
  pcPredO : ∀ t c, s.pc t = .pred c → s.tsCtor = 0 ∧ s.sopCtor = 0 ∧ s.ts = none ∧ s.sop = false
  pcStoredO : ∀ t, s.pc t = .stored → s.ts ≠ none ∧ s.sopCtor = 0 ∧ s.sop = false
  pcConnO : ∀ t, s.pc t = .connected → s.ts ≠ none ∧ s.sop = true
  armedO : s.sopArmed = true → s.schSig = none → s.ts ≠ none ∧ s.sop = true
  pcSchO : ∀ t c, s.pc t = .sch c → s.ts ≠ none ∧ s.sop = true
  pcRstO : ∀ t c, s.pc t = .rst c → s.ts ≠ none ∧ s.sop = false
  tsPred : ∀ v, s.ts = some v → s.predSig = some (.value v)
  freedDeliv : s.freed = true → s.delivered = 1
  selfFreed : s.cfg.selfdel = true → s.delivered = 1 → s.freed = true
  nfreeEq : s.nfree = b2n s.freed
  tsCount : s.freed = false → s.tsCtor = s.tsDtor + b2n s.ts.isSome
  tsCountF : s.freed = true → s.tsCtor = s.tsDtor ∧ s.ts = none
  sopCount : s.freed = false → s.sopCtor = s.sopDtor + b2n s.sop
  sopCountF : s.freed = true → s.sopCtor = s.sopDtor
  ctorLe : s.tsCtor ≤ 1 ∧ s.sopCtor ≤ 1
  delivSop : s.delivered = 1 → s.freed = false → s.sop = false
  uafF : s.uaf = false

theorem oinv_init (c : Cfg) : OInv (init c) := by
  constructor <;> simp [init, b2n]

set_option maxHeartbeats 2000000 in
theorem step_oinv (s s' : St) (e : Ev) (hc : CInv s) (ho : OInv s) (h : step s e = some s') : OInv s' := by
  obtain ⟨c0,c1,c2,c3,c4,c5,c6,c7,c8,c9,c10,c11,c12,c13,c14,c15,c16⟩ := hc
  obtain ⟨o1,o2,o3,o4,o5,o6,o7,o8,o9,o10,o11,o12,o13,o14,o15,o16,o17,o18⟩ := ho
  cases e <;> sf_step

end PikaVerif.SchedFromLife
