import PikaVerif.Lemmas.BarrierU16
/-! C09u, coarse barrier: the potential under `cas` / `cas2` (misses included). -/
namespace PikaVerif.Barrier
open PikaVerif PikaVerif.C09Barrier

theorem bud_miss {s s' : St} {r e cur st c : Nat} {w : Bool} (hpre : Sweep s r e cur st w)
    (hpost : Sweep s' r e (c + 1) st (w || decide (cur = e))) (hle : cur ≤ e)
    (hc : c = if cur = e then 0 else cur) :
    bud e (c + 1) st (w || decide (cur = e)) + 1 ≤ bud e cur st w := by
  obtain ⟨hst, h1⟩ := hpre
  obtain ⟨_, h2⟩ := hpost
  by_cases hce : cur = e
  · rw [if_pos hce] at hc; subst hc
    cases w <;> simp only [bud, Bool.false_eq_true, if_false, if_true, Bool.false_or, Bool.true_or, hce,
      decide_true] at h1 h2 ⊢
    · omega
    · omega
  · rw [if_neg hce] at hc; subst hc
    cases w <;> simp only [bud, Bool.false_eq_true, if_false, if_true, Bool.false_or, Bool.true_or, hce,
      decide_false] at h1 h2 ⊢
    · omega
    · omega

theorem bud_seen {s : St} {r e cur st c : Nat} {w : Bool} (hpre : Sweep s r e cur st w) (hle : cur ≤ e)
    (hc : c = if cur = e then 0 else cur) :
    bud e c st (w || decide (cur = e)) ≤ bud e cur st w := by
  obtain ⟨hst, h1⟩ := hpre
  by_cases hce : cur = e
  · rw [if_pos hce] at hc; subst hc
    cases w <;> simp only [bud, Bool.false_eq_true, if_false, if_true, Bool.false_or, Bool.true_or, hce,
      decide_true] at h1 ⊢
    · omega
    · omega
  · rw [if_neg hce] at hc; subst hc
    cases w <;> simp only [bud, Bool.false_eq_true, if_false, if_true, Bool.false_or, Bool.true_or, hce,
      decide_false] at h1 ⊢ <;> omega

theorem bud_nonneg_false (e cur st : Nat) : bud e cur st false = (e - cur) + st := by simp [bud]

theorem pot_cas (B : Nat) (s s' : St) (st : Nat) (w : Bool) (t a b : Nat) (o : Out) (hb : InvB s)
    (hpre : SWt s st w (s.pc t)) (h : step s (.cas t a b o) = some s') :
    (o = .up → pot B (a / 2) false (s'.pc t) < pot B st w (s.pc t)) ∧
    (o ≠ .up → SWt s' st (w || wrapNow (s.pc t)) (s'.pc t) →
      pot B st (w || wrapNow (s.pc t)) (s'.pc t) < pot B st w (s.pc t)) := by
  simp only [step] at h
  split at h
  case isFalse => simp at h
  rename_i htn
  split at h
  case h_2 => simp at h
  rename_i u cur r m hpc
  have hshape := hb.shape t
  rw [hpc] at hshape; simp only [pcOk] at hshape
  obtain ⟨hmr, hcur⟩ := hshape
  rw [hpc] at hpre; simp only [SWt] at hpre
  have hwn : wrapNow (Pc.try u cur r m) = decide (cur = (m + 1) / 2) := rfl
  generalize hc0 : (if cur = (m + 1) / 2 then 0 else cur) = c0 at h
  split at h
  case isFalse => simp at h
  rename_i hgd
  obtain ⟨hm1, hrnd, hac⟩ := hgd
  have hsweep := hpre hm1
  have hcur' := hcur hm1
  have hnorm : a = if cur = (m + 1) / 2 then 0 else cur := hac.trans hc0.symm
  have halt : a < (m + 1) / 2 := by rw [hnorm]; split <;> omega
  repeat' split at h
  all_goals first | (simp at h; done) | skip
  all_goals (simp only [Option.some.injEq] at h; subst h; simp only [upd_same, hpc, hwn])
  · rename_i h1 hv ho; subst ho
    refine ⟨fun _ => ?_, fun hne => absurd rfl hne⟩
    simp only [pot, bud_nonneg_false]
    generalize bud ((m + 1) / 2) cur st w = X
    omega
  · rename_i h1 hv ho; subst ho
    refine ⟨fun h => by simp at h, fun _ hpost => ?_⟩
    simp only [SWt] at hpost
    have := bud_miss hsweep (hpost hm1) hcur' hnorm
    simp only [pot]; omega
  · rename_i h1 hv ho; subst ho
    refine ⟨fun h => by simp at h, fun _ _ => ?_⟩
    have h1 := pot_afterCall B st (w || decide (cur = (m + 1) / 2)) (s.aw t) u
    have h2 : pot B st w (Pc.try u cur r m) = u * cc2 B + 5 * m + 8 + 2 * bud ((m + 1) / 2) cur st w := rfl
    rw [h2]; omega
  · rename_i h1 hv hv2 ho; subst ho
    refine ⟨fun h => by simp at h, fun _ _ => ?_⟩
    have := bud_seen hsweep hcur' hnorm
    simp only [pot]; omega
  · rename_i h1 hv hv2 ho; subst ho
    refine ⟨fun h => by simp at h, fun _ hpost => ?_⟩
    simp only [SWt] at hpost
    have := bud_miss hsweep (hpost hm1) hcur' hnorm
    simp only [pot]; omega

theorem pot_cas2 (B : Nat) (s s' : St) (st : Nat) (w : Bool) (t a b : Nat) (o : Out) (hb : InvB s)
    (hpre : SWt s st w (s.pc t)) (h : step s (.cas2 t a b o) = some s') :
    (o = .up → pot B (a / 2) false (s'.pc t) < pot B st w (s.pc t)) ∧
    (o ≠ .up → SWt s' st w (s'.pc t) → pot B st w (s'.pc t) < pot B st w (s.pc t)) := by
  simp only [step] at h
  split at h
  case isFalse => simp at h
  rename_i htn
  split at h
  case h_2 => simp at h
  rename_i u cur r m hpc
  have hshape := hb.shape t
  rw [hpc] at hshape; simp only [pcOk] at hshape
  obtain ⟨hmr, hm1, hcur⟩ := hshape
  rw [hpc] at hpre; simp only [SWt] at hpre
  obtain ⟨hsweep, _⟩ := hpre hm1
  split at h
  case isFalse => simp at h
  rename_i hgd
  obtain ⟨hrnd, hac⟩ := hgd
  subst hac
  repeat' split at h
  all_goals first | (simp at h; done) | skip
  all_goals (simp only [Option.some.injEq] at h; subst h; simp only [upd_same, hpc])
  · rename_i hv ho; subst ho
    refine ⟨fun _ => ?_, fun hne => absurd rfl hne⟩
    simp only [pot, bud_nonneg_false]
    generalize bud ((m + 1) / 2) a st w = X
    omega
  · rename_i hv ho; subst ho
    refine ⟨fun h => by simp at h, fun _ hpost => ?_⟩
    simp only [SWt] at hpost
    have hd : decide (a = (m + 1) / 2) = false := by simp; omega
    have hpost' := hpost hm1
    rw [← Bool.or_false w, ← hd] at hpost'
    have := bud_miss hsweep hpost' (Nat.le_of_lt hcur) (by rw [if_neg (by omega)])
    rw [hd, Bool.or_false] at this
    simp only [pot]; omega

end PikaVerif.Barrier
