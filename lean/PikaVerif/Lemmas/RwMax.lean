import PikaVerif.Lemmas.RwSolo
/-!
The CAS retry is the only stutter of the async_rw_mutex model, and every program run extends to a
maximal one (follow-up C04r).
-/
namespace PikaVerif.Rw
open PikaVerif PikaVerif.C04

theorem upd_self {α : Type} (f : Nat → α) (a : Nat) : upd f a (f a) = f := by
  funext u; simp only [upd]; split
  · rename_i e; rw [e]
  · rfl

/-- what a CAS retry does: nothing but refresh the expected value of the retrying thread -/
theorem retry_shape (s s' : St) (t a cls : Nat) (ack died : Bool) (hc : cls ≠ 2)
    (h : step s (.cas t a false cls ack died) = some s') :
    ∃ det h0 q, s.acc a = .loaded t det h0 ∧ s.head (s.grp a) = some q ∧
      s' = { s with acc := upd s.acc a (.loaded t det q.length) } := by
  simp only [step] at h
  split at h
  · rename_i t' det h0 hx
    split at h
    · rename_i ht; subst ht
      split at h
      · rename_i q hh
        simp only [Bool.false_eq_true, if_false] at h
        split at h
        · simp only [Option.some.injEq] at h; exact ⟨det, h0, q, hx, hh, h.symm⟩
        · simp at h
      · split at h
        · rename_i hcc; exact absurd hcc.2.1 hc
        · simp at h
    · simp at h
  · simp at h

theorem isRetry_shape (e : Ev) (h : isRetry e = true) :
    ∃ t a cls ack died, e = .cas t a false cls ack died ∧ cls ≠ 2 := by
  cases e with
  | cas t a ok cls ack died =>
    cases ok with
    | true => simp [isRetry] at h
    | false => exact ⟨t, a, cls, ack, died, rfl, by simpa [isRetry] using h⟩
  | _ => simp [isRetry] at h

/-- from a non-maximal program state some non-empty run strictly decreases the potential -/
theorem exists_progress (p : PSt) (hi : Inv p.s) (hm : ¬ PMax p) :
    ∃ es p', runLog pstep p es = some p' ∧ phi p' < phi p := by
  unfold PMax at hm
  obtain ⟨e, he⟩ := Classical.not_forall.1 hm
  cases hp : pstep p e with
  | none => exact absurd hp he
  | some p1 =>
    have h1 := phi_step p p1 e hi hp
    by_cases hr : isRetry e = true
    · obtain ⟨t, a, cls, ack, died, hE, hc⟩ := isRetry_shape e hr
      subst hE
      have hs := pstep_step p p1 _ hp
      obtain ⟨det, h0, q, hx, hh, hs'⟩ := retry_shape _ _ t a cls ack died hc hs
      have hp1 : p1 = { p with s := p1.s } := by
        simp only [pstep, Option.map_eq_some_iff] at hp
        obtain ⟨s', _, h2⟩ := hp; subst h2; rfl
      have hstep2 : step p1.s (.cas t a true 0 false false) =
          some { p1.s with head := upd p1.s.head (p1.s.grp a) (some (a :: q)), acc := upd p1.s.acc a (.queued det) } := by
        rw [hs']
        simp [step, upd, hh]
      have hp2 : ∃ p2, pstep p1 (.cas t a true 0 false false) = some p2 := by
        simp only [pstep, hstep2]; exact ⟨_, rfl⟩
      obtain ⟨p2, hp2⟩ := hp2
      have hi1 := step_inv _ _ _ hi hs
      have h2 := phi_step p1 p2 _ hi1 hp2
      refine ⟨[.cas t a false cls ack died, .cas t a true 0 false false], p2, ?_, ?_⟩
      · simp [runLog, hp, hp2]
      · have : cost (.cas t a true 0 false false) = 1 := rfl
        omega
    · refine ⟨[e], p1, by simp [runLog, hp], ?_⟩
      have : cost e = 1 := by simp [cost, hr]
      omega

/-- **Every program state extends to a maximal one.** -/
theorem maximal_exists : ∀ (n : Nat) (p : PSt), Inv p.s → phi p ≤ n →
    ∃ ext p', runLog pstep p ext = some p' ∧ PMax p' := by
  intro n
  induction n with
  | zero =>
    intro p hi hn
    by_cases hm : PMax p
    · exact ⟨[], p, rfl, hm⟩
    · obtain ⟨es, p', _, h2⟩ := exists_progress p hi hm; omega
  | succ k ih =>
    intro p hi hn
    by_cases hm : PMax p
    · exact ⟨[], p, rfl, hm⟩
    · obtain ⟨es, p', h1, h2⟩ := exists_progress p hi hm
      have hi' : Inv p'.s := inv_of_runLog Inv (fun s e s' => step_inv s s' e) hi (runLog_pstep_step es p p' h1)
      obtain ⟨ext, p'', e1, e2⟩ := ih p' hi' (by omega)
      refine ⟨es ++ ext, p'', ?_, e2⟩
      rw [runLog_append, h1]; simpa using e1

/-! ## The destruction of the value is the last event of a run -/

theorem vfree_terminal (s s' : St) (t : Nat) (hr : Reachable s) (h : step s (.vfree t) = some s') :
    (∀ a, a < s.na → s.acc a = .released) ∧ s.alive = false ∧ (∀ g, g < s.ng → s.dead g = true) ∧
    mu s' = 0 ∧ ∀ e, step s' e = none := by
  have hr' := reachable_step' hr h
  obtain ⟨log, hlog⟩ := hr
  have hi := inv_of_accepted hlog
  obtain ⟨log', hlog'⟩ := hr'
  have hi' := inv_of_accepted hlog'
  simp only [step] at h
  split at h
  · rename_i hc
    obtain ⟨hal, hlast, hvf⟩ := hc
    simp only [Option.some.injEq] at h; subst h
    have hdead : ∀ g, g < s.ng → s.dead g = true := by
      intro g hg
      rcases hlast with h0 | h0
      · omega
      · exact dead_prefix hi (by omega) h0 g (by omega)
    have hrel : ∀ a, a < s.na → s.acc a = .released := fun a ha =>
      dead_released hi (hi.grpLt a ha) (hdead _ (hi.grpLt a ha)) ha rfl
    have hacc : ∀ a, s.acc a = .released ∨ s.acc a = .none := by
      intro a
      by_cases ha : a < s.na
      · exact Or.inl (hrel a ha)
      · exact Or.inr (hi.accNone a (by omega))
    have hdn : ∀ g, g < s.ng → dnRank (s.dn g) = 0 := by
      intro g hg
      obtain ⟨hf1, hf2⟩ := hi.firstOk g hg
      have hs := post_sent hi hf1 (by rw [hrel _ hf1]; rfl)
      rw [hf2] at hs
      have hh := hi.headDn g hg
      rw [hs] at hh
      cases hd : s.dn g with
      | drain t r => rfl
      | idle => rw [hd] at hh; simp [isDrain] at hh
      | pend t => rw [hd] at hh; simp [isDrain] at hh
    have hmu : mu { s with vfreed := true } = 0 := by
      have h1 : sumTo s.na (fun a => accRank (s.acc a)) = 0 :=
        sumTo_eq_zero (fun a ha => by rw [hrel a ha]; rfl)
      have h2 : sumTo s.ng (fun g => dnRank (s.dn g)) = 0 := sumTo_eq_zero hdn
      simp only [mu, h1, h2, hal, b2n]
      simp
    refine ⟨hrel, hal, hdead, hmu, ?_⟩
    intro e
    cases hs : step { s with vfreed := true } e with
    | none => rfl
    | some s2 =>
      exfalso
      have hm := mu_step _ _ e hi' hs
      rw [hmu] at hm
      cases e with
      | req t a w n d => simp [step, hal] at hs
      | copy t a => rcases hacc a with hx | hx <;> simp [step, hx] at hs
      | write t a v => rcases hacc a with hx | hx <;> simp [step, hx] at hs
      | readv t a v => rcases hacc a with hx | hx <;> simp [step, hx] at hs
      | cas t a ok cls ack died => rcases hacc a with hx | hx <;> simp [step, hx] at hs
      | _ => simp [cost, isRetry, gain] at hm
  · simp at h

theorem pstep_none (p : PSt) (e : Ev) (h : step p.s e = none) : pstep p e = none := by
  cases hp : pstep p e with
  | none => rfl
  | some p' => rw [pstep_step p p' e hp] at h; simp at h

/-- a program run that ends with the destruction of the value is maximal -/
theorem pmax_of_vfree_last (p0 p : PSt) (log : List Ev) (t : Nat) (hr : Reachable p0.s)
    (h : runLog pstep p0 (log ++ [.vfree t]) = some p) : PMax p := by
  obtain ⟨p1, h1, h2⟩ := runLog_prefix h
  have hs1 := runLog_pstep_step _ _ _ h1
  obtain ⟨l0, hl0⟩ := hr
  have hr1 : Reachable p1.s := ⟨l0 ++ log, by rw [runLog_append, hl0]; simpa using hs1⟩
  simp only [runLog] at h2
  cases hp : pstep p1 (.vfree t) with
  | none => simp [hp] at h2
  | some p2 =>
    simp only [hp, Option.some.injEq] at h2; subst h2
    have := (vfree_terminal _ _ t hr1 (pstep_step _ _ _ hp)).2.2.2.2
    intro e
    exact pstep_none _ e (this e)

/-! ## The owner's requests: `na` counts them -/

def reqN : Ev → Nat
  | .req .. => 1
  | _ => 0

theorem grant_na (s : St) (t a : Nat) (det : Bool) : (grant s t a det).na = s.na := (grant_frame s t a det).2.1
theorem decRc_na (s : St) (t g : Nat) : (decRc s t g).na = s.na := (decRc_fields s t g).2.1

theorem step_na (s s' : St) (e : Ev) (h : step s e = some s') : s'.na = s.na + reqN e := by
  cases e with
  | req t a w newg died =>
    simp only [step] at h
    split at h
    · rename_i hc
      obtain ⟨_, ha⟩ := hc; subst ha
      split at h
      · split at h
        · simp only [Option.some.injEq] at h; subst h
          split
          · rw [decRc_na]; rfl
          · rfl
        · simp at h
      · split at h
        · simp only [Option.some.injEq] at h; subst h; rfl
        · simp at h
    · simp at h
  | _ =>
    simp only [step] at h
    repeat' split at h
    all_goals first
      | (simp at h; done)
      | (simp only [Option.some.injEq] at h; subst h
         first | rfl | (rw [decRc_na]; rfl) | (rw [grant_na]; rfl))

theorem pna_step (p p' : PSt) (e : Ev) (h : pstep p e = some p') :
    p'.s.na + p'.reqs.length = p.s.na + p.reqs.length := by
  have hn := step_na _ _ e (pstep_step p p' e h)
  cases e <;> simp only [pstep] at h
  case req t a w newg died =>
    split at h
    · rename_i k rest hr
      split at h
      · simp only [Option.map_eq_some_iff] at h; obtain ⟨s', h1, h2⟩ := h; subst h2
        simp only [hr, List.length_cons, reqN] at hn ⊢; omega
      · simp at h
    · simp at h
  all_goals first
    | (split at h
       · simp only [Option.map_eq_some_iff] at h; obtain ⟨s', h1, h2⟩ := h; subst h2
         simp only [reqN] at hn ⊢; omega
       · simp at h)
    | (simp only [Option.map_eq_some_iff] at h; obtain ⟨s', h1, h2⟩ := h; subst h2
       simp only [reqN] at hn ⊢; omega)

theorem runLog_pna (log : List Ev) : ∀ (p p' : PSt), runLog pstep p log = some p' →
    p'.s.na + p'.reqs.length = p.s.na + p.reqs.length := by
  induction log with
  | nil => intro p p' h; simp at h; subst h; rfl
  | cons e es ih =>
    intro p p' h
    simp only [runLog] at h
    cases hs : pstep p e with
    | none => simp [hs] at h
    | some p1 =>
      simp only [hs] at h
      rw [ih p1 p' h, pna_step p p1 e hs]

end PikaVerif.Rw
