import PikaVerif.Lemmas.OnceU2
/-!
# Frame facts of the event / call_once model used for the final states of `k` callers (C09u)
-/
namespace PikaVerif.Once
open PikaVerif

attribute [local grind] b2n wDone sDone entry popd

theorem wDone_ne (c : Ctx) : wDone c ≠ .idle ∧ wDone c ≠ .fin := by cases c <;> simp [wDone]
theorem sDone_ne (c : Ctx) : sDone c ≠ .idle ∧ sDone c ≠ .fin := by cases c <;> simp [sDone]
theorem popd_idle (p : Pc) : (popd p = .idle ↔ p = .idle) ∧ (popd p = .fin ↔ p = .fin) := by
  cases p <;> simp [popd]
theorem wDone_retn (c : Ctx) (r : Nat) : wDone c = .retn r → r = 0 := by cases c <;> simp [wDone] <;> omega
theorem sDone_retn (c : Ctx) (r : Nat) : sDone c = .retn r → r = 0 ∨ r = 2 := by
  cases c <;> simp [sDone]
  · omega
  · rename_i thr; cases thr <;> simp <;> omega
theorem popd_retn (p : Pc) (r : Nat) : popd p = .retn r ↔ p = .retn r := by
  cases p <;> simp [popd]

/-- Events other than `inv`, `ret`, `done` leave every thread's "between operations" / "finished"
    status and its current operation unchanged. -/
theorem step_other (s s' : St) (e : Ev) (h1 : ∀ t o, e ≠ .inv t o) (h2 : ∀ t r, e ≠ .ret t r)
    (h3 : ∀ t, e ≠ .done t) (h : step s e = some s') :
    ∀ u, (s'.pc u = .idle ↔ s.pc u = .idle) ∧ (s'.pc u = .fin ↔ s.pc u = .fin) ∧
      s'.curOp u = s.curOp u := by
  have hw := wDone_ne
  have hsd := sDone_ne
  have hpo := popd_idle
  cases e
  case inv t o => exact absurd rfl (h1 t o)
  case ret t r => exact absurd rfl (h2 t r)
  case done t => exact absurd rfl (h3 t)
  all_goals (
    simp only [step] at h
    (repeat' split at h)
    all_goals first | (simp at h; done) | skip
    all_goals (
      simp only [Option.some.injEq] at h
      subst h
      intro u
      grind [upd]))

theorem step_compl_mono (s s' : St) (e : Ev) (h : step s e = some s') : s.completions ≤ s'.completions := by
  cases e <;> simp only [step] at h <;> (repeat' split at h) <;>
    first | (simp at h; done) | (simp only [Option.some.injEq] at h; subst h; simp)

theorem step_inv_frame (s s' : St) (t : Nat) (o : Op) (h : step s (.inv t o) = some s') :
    t < s.n ∧ s.pc t = .idle ∧ s'.pc t = entry o ∧ s'.curOp t = o ∧
    ∀ u, u ≠ t → s'.pc u = s.pc u ∧ s'.curOp u = s.curOp u := by
  simp only [step] at h
  split at h
  · rename_i hg
    simp only [Option.some.injEq] at h; subst h
    refine ⟨hg.1, hg.2, by simp, by simp, ?_⟩
    intro u hu; simp [upd, hu]
  · simp at h

theorem step_ret_frame (s s' : St) (t r : Nat) (h : step s (.ret t r) = some s') :
    t < s.n ∧ (s.pc t = .retn r ∨ s.pc t = .oWant) ∧ s'.pc t = .idle ∧ s'.curOp = s.curOp ∧
    ∀ u, u ≠ t → s'.pc u = s.pc u := by
  simp only [step] at h
  (repeat' split at h) <;> first | (simp at h; done) | skip
  all_goals (
    simp only [Option.some.injEq] at h; subst h
    refine ⟨by assumption, by grind, by simp, rfl, ?_⟩
    intro u hu; simp [upd, hu])

theorem step_done_frame (s s' : St) (t : Nat) (h : step s (.done t) = some s') :
    t < s.n ∧ s.pc t = .idle ∧ s'.pc t = .fin ∧ s'.curOp = s.curOp ∧
    ∀ u, u ≠ t → s'.pc u = s.pc u := by
  simp only [step] at h
  split at h
  · rename_i hg
    simp only [Option.some.injEq] at h; subst h
    refine ⟨hg.1, hg.2, by simp, rfl, ?_⟩
    intro u hu; simp [upd, hu]
  · simp at h

/-- return values are 0 (normal) or 2 (exception) -/
def RetOk (s : St) : Prop := ∀ t r, s.pc t = .retn r → r = 0 ∨ r = 2

theorem retOk_init (n : Nat) : RetOk (init n) := by intro t r h; simp [init] at h

theorem retOk_step (s s' : St) (e : Ev) (hr : RetOk s) (h : step s e = some s') : RetOk s' := by
  have hw := wDone_retn
  have hsd := sDone_retn
  have hpo := popd_retn
  have hen : ∀ o r, entry o ≠ .retn r := by intro o r; cases o <;> simp [entry]
  cases e
  all_goals (
    simp only [step] at h
    (repeat' split at h)
    all_goals first | (simp at h; done) | skip
    all_goals (
      simp only [Option.some.injEq] at h
      subst h
      intro u r hu
      have := hr u r
      grind [upd]))

theorem step_okRuns (s s' : St) (e : Ev) (h : step s e = some s') :
    s'.okRuns = s.okRuns ∨ ∃ t, t < s.n ∧ s.pc t = .cBody false := by
  cases e <;> simp only [step] at h <;> (repeat' split at h) <;>
    first
    | (simp at h; done)
    | (simp only [Option.some.injEq] at h; subst h; left; rfl)
    | (simp only [Option.some.injEq] at h; subst h
       rename_i thr _ _
       cases thr
       · right; exact ⟨_, by assumption, by assumption⟩
       · left; simp [b2n])

theorem step_topResets (s s' : St) (e : Ev) (h : step s e = some s') :
    s'.topResets = s.topResets ∨ ∃ t, s.pc t = .rWant := by
  cases e <;> simp only [step] at h <;> (repeat' split at h) <;>
    first
    | (simp at h; done)
    | (simp only [Option.some.injEq] at h; subst h; left; rfl)
    | (right; exact ⟨_, by assumption⟩)

end PikaVerif.Once
