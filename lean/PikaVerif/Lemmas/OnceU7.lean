import PikaVerif.Lemmas.OnceU6
/-!
# C09u, call_once: outcome of maximal runs by throwing pattern; normal returns come after the completion
-/
namespace PikaVerif.Once
open PikaVerif PikaVerif.C09

/-- at least one callable does not throw: in the final state of a maximal run the status is
    `complete`, exactly one non-throwing callable was entered and completed, and every caller
    whose callable does not throw returned normally -/
theorem callers_some_ok (thr : Nat → Bool) (k : Nat) (log : List Ev) (p' : PSt)
    (h : runLog pstep (pinit k (callers thr)) log = some p') (hst : PStuck p')
    (hex : ∃ t, t < k ∧ thr t = false) :
    p'.s.status = .complete ∧ okBodies log = 1 ∧ completes log = 1 ∧ rsum p'.s = 0 ∧
    ∀ t, t < k → thr t = false → p'.res t = some 0 := by
  have hm : runLog step (init k) log = some p'.s := runLog_pstep_step log _ p' h
  have hf := callers_final thr k log p' h hst
  have hres : ∀ t, t < k → thr t = false → p'.res t = some 0 ∧ p'.s.status = .complete := by
    intro t ht hth
    obtain ⟨_, _, r, h1, h2, h3⟩ := hf t ht
    rcases h3 with h3 | ⟨_, h3⟩
    · subst h3; exact ⟨h1, h2 rfl⟩
    · rw [hth] at h3; cases h3
  obtain ⟨t0, ht0, hth0⟩ := hex
  have hc := (hres t0 ht0 hth0).2
  obtain ⟨e1, e2, e3⟩ := (C09_once_exactly_once k log p'.s hm).2.2.2 hc
  exact ⟨hc, e1, e2, e3, fun t ht hth => (hres t ht hth).1⟩

/-- every callable throws: in the final state of a maximal run every caller returned with its own
    exception; no non-throwing callable was entered and `complete` was never stored -/
theorem callers_all_throw (thr : Nat → Bool) (k : Nat) (log : List Ev) (p' : PSt)
    (h : runLog pstep (pinit k (callers thr)) log = some p') (hst : PStuck p')
    (hall : ∀ t, t < k → thr t = true) :
    (∀ t, t < k → p'.res t = some 2) ∧ okBodies log = 0 ∧ completes log = 0 ∧
    p'.s.status ≠ .complete := by
  obtain ⟨hA, hM, hP, hJ⟩ := J_of_accepted thr k log p' h
  have hm : runLog step (init k) log = some p'.s := runLog_pstep_step log _ p' h
  have hcnt := once_counters_log log _ _ hm
  simp only [init] at hcnt
  have hf := callers_final thr k log p' h hst
  have hok : p'.s.okRuns = 0 := by
    cases hk : p'.s.okRuns with
    | zero => rfl
    | succ j =>
      obtain ⟨u, hu, hthu⟩ := hJ.ok (by omega)
      rw [hcnt.2.2] at hu
      rw [hall u hu] at hthu; cases hthu
  have hnc : p'.s.status ≠ .complete := by
    intro hc
    have := ((C09_once_exactly_once k log p'.s hm).2.2.2 hc).1
    omega
  refine ⟨?_, by omega, ?_, hnc⟩
  · intro t ht
    obtain ⟨_, _, r, h1, h2, h3⟩ := hf t ht
    rcases h3 with h3 | ⟨h3, _⟩
    · exact absurd (h2 h3) hnc
    · subst h3; exact h1
  · have := hP.compl
    rw [if_neg hnc] at this
    omega

/-- a normal return of a caller is accepted only after the successful execution has finished:
    the log before it contains exactly one entry of a non-throwing callable and exactly one store
    of `complete` -/
theorem callers_ret_after (thr : Nat → Bool) (k : Nat) (log1 log2 : List Ev) (t : Nat) (p' : PSt)
    (h : runLog pstep (pinit k (callers thr)) (log1 ++ .ret t 0 :: log2) = some p') :
    okBodies log1 = 1 ∧ completes log1 = 1 := by
  obtain ⟨p1, h1, h2⟩ := runLog_prefix h
  simp only [runLog] at h2
  cases hs : pstep p1 (.ret t 0) with
  | none => simp [hs] at h2
  | some p2 =>
    obtain ⟨hA, _, hP, hJ⟩ := J_of_accepted thr k log1 p1 h1
    have hm : runLog step (init k) log1 = some p1.s := runLog_pstep_step log1 _ p1 h1
    have hss := pstep_step _ _ _ hs
    obtain ⟨_, f1, _⟩ := step_ret_frame _ _ _ _ hss
    have hop : isCall (p1.s.curOp t) = true := by
      rcases hJ.st t with ⟨_, a2, _⟩ | ⟨_, b2, _⟩
      · rw [a2] at f1; rcases f1 with f1 | f1 <;> cases f1
      · rw [b2]; rfl
    have := C09_once_others_after k log1 p1.s p2.s hm t hop hss
    exact ⟨this.2.1, this.2.2.1⟩

end PikaVerif.Once
