import PikaVerif.Lemmas.SSem2
/-!
# Termination measure of the sliding semaphore model (C08t, sliding clause)

Same potential argument as `Lemmas/SemT.lean`.  The difference: `signal(l)` notifies as many
waiters as are queued at that moment, so the potential of a `signal` is not a constant of the
operation; it is bounded by the number of threads `N = s.n` (the queue never holds more than `N`
entries, `QLen` / `qlen_le`), and `rank` takes `N` as a parameter.
-/
namespace PikaVerif.SSem
open PikaVerif

def b2n (b : Bool) : Nat := if b then 1 else 0

/-- rank of a program counter in a system of `N` threads -/
def rank (N : Nat) : Pc → Nat
  | .fin => 0
  | .idle => 1
  | .retn _ => 2
  | .passed => 3
  | .refused => 3
  | .sigFin => 3
  | .want (.signal _) => 15 * N + 9
  | .want _ => 11
  | .lockedSig _ => 15 * N + 8
  | .locked _ _ _ => 10
  | .enq _ => 9
  | .unl _ p => 8 + 6 * b2n p
  | .susp _ p => 7 + 6 * b2n p
  | .wokeNL _ p => 12 + 6 * b2n p
  | .relk _ p => 11 + 6 * b2n p
  | .sigL i n => 15 * (n - i) + 5
  | .sigNL i n => 15 * (n - i) + 6
  | .sigRes i n _ => 15 * (n - i - 1) + 7

/-- value of a wake-up token -/
def tokW (k : Nat) : Nat := 6 * k

/-- the measure on model states -/
def mu (s : St) : Nat :=
  sumTo s.n (fun t => rank s.n (s.pc t)) + sumTo s.n (fun t => tokW (s.tok t))

theorem step_n (s s' : St) (e : Ev) (h : step s e = some s') : s'.n = s.n := by
  cases e <;> simp only [step] at h <;> (repeat' split at h) <;>
    first | (simp at h; done) | (simp only [Option.some.injEq] at h; subst h; rfl)

/-! ## the queue holds exactly the threads with `inQ`, hence at most `n` entries -/

/-- 1 for a thread that owns a queue entry -/
def qw (p : Pc) : Nat := b2n (inQ p)

def QLen (s : St) : Prop := s.queue.length = sumTo s.n (fun t => qw (s.pc t))

theorem qlen_init (n : Nat) (d l : Int) : QLen (init n d l) := by
  simp only [QLen, init, List.length_nil]
  exact (sumTo_eq_zero (fun _ _ => rfl)).symm

theorem sumTo_le_of_le_one {n : Nat} {f : Nat → Nat} (h : ∀ t, f t ≤ 1) : sumTo n f ≤ n := by
  induction n with
  | zero => simp
  | succ k ih => simp only [sumTo_succ]; have := h k; omega

theorem qlen_le (s : St) (h : QLen s) : s.queue.length ≤ s.n := by
  rw [h]
  apply sumTo_le_of_le_one
  intro t; simp only [qw, b2n]; split <;> omega

attribute [local grind] rank b2n tokW setPopped qw inQ

set_option hygiene false in
macro "ql_step" t:term : tactic => `(tactic| (
  simp only [step] at h
  obtain ⟨h1,h2,h3,h4,h5,h6,h7⟩ := hi
  split at h
  case isFalse => simp at h
  rename_i hg
  have htn : $t < s.n := by grind
  have hle := le_sumTo (f := fun u => qw (s.pc u)) htn
  repeat' split at h
  all_goals first | (simp at h; done) | skip
  all_goals (
    simp only [Option.some.injEq] at h
    subst h
    simp only [QLen] at hq ⊢
    rw [sumTo_upd_eq _ qw _ _ _ htn]
    grind)))

theorem ql_inv (s s' : St) (t : Nat) (o : Op) (hi : Inv1 s) (hq : QLen s) (h : step s (.inv t o) = some s') : QLen s' := by ql_step t
theorem ql_ret (s s' : St) (t : Nat) (r : Bool) (hi : Inv1 s) (hq : QLen s) (h : step s (.ret t r) = some s') : QLen s' := by ql_step t
theorem ql_slAcq (s s' : St) (t : Nat) (hi : Inv1 s) (hq : QLen s) (h : step s (.slAcq t) = some s') : QLen s' := by ql_step t
theorem ql_slRel (s s' : St) (t : Nat) (hi : Inv1 s) (hq : QLen s) (h : step s (.slRel t) = some s') : QLen s' := by ql_step t
theorem ql_cvEnq (s s' : St) (t z : Nat) (hi : Inv1 s) (hq : QLen s) (h : step s (.cvEnq t z) = some s') : QLen s' := by ql_step t
theorem ql_cvNone (s s' : St) (t : Nat) (hi : Inv1 s) (hq : QLen s) (h : step s (.cvNone t) = some s') : QLen s' := by ql_step t
theorem ql_pass (s s' : St) (t : Nat) (u l : Int) (hi : Inv1 s) (hq : QLen s) (h : step s (.pass t u l) = some s') : QLen s' := by ql_step t
theorem ql_sig (s s' : St) (t : Nat) (l : Int) (z : Nat) (hi : Inv1 s) (hq : QLen s) (h : step s (.sig t l z) = some s') : QLen s' := by ql_step t
theorem ql_suspend (s s' : St) (t : Nat) (hi : Inv1 s) (hq : QLen s) (h : step s (.suspend t) = some s') : QLen s' := by ql_step t
theorem ql_woke (s s' : St) (t : Nat) (hi : Inv1 s) (hq : QLen s) (h : step s (.woke t) = some s') : QLen s' := by ql_step t
theorem ql_done (s s' : St) (t : Nat) (hi : Inv1 s) (hq : QLen s) (h : step s (.done t) = some s') : QLen s' := by ql_step t

theorem ql_cvWoke (s s' : St) (t : Nat) (st : Bool) (hi : Inv1 s) (hq : QLen s)
    (h : step s (.cvWoke t st) = some s') : QLen s' := by
  simp only [step] at h
  obtain ⟨h1,h2,h3,h4,h5,h6,h7⟩ := hi
  split at h
  case isFalse => simp at h
  rename_i hg
  have htn : t < s.n := hg.1
  have hle := le_sumTo (f := fun u => qw (s.pc u)) htn
  split at h
  case h_2 => simp at h
  rename_i u popped hpc
  split at h
  case isFalse => simp at h
  split at h
  · rename_i hp
    simp only [Option.some.injEq] at h
    subst h
    simp only [QLen] at hq ⊢
    rw [sumTo_upd_eq _ qw _ _ _ htn, hpc]
    simp only [hpc] at hle
    subst hp
    simp [qw, inQ, b2n] at hle ⊢
    exact hq
  · rename_i hp
    have hpf : popped = false := by simpa using hp
    subst hpf
    have hmem : t ∈ s.queue := (h3 t).2 (by rw [hpc]; rfl)
    simp only [Option.some.injEq] at h
    subst h
    simp only [QLen] at hq ⊢
    rw [sumTo_upd_eq _ qw _ _ _ htn, hpc, List.length_erase_of_mem hmem, hq]
    simp [qw, inQ, b2n]

theorem setPopped_qw {p p' : Pc} (h : setPopped p = some p') : qw p = 1 ∧ qw p' = 0 := by
  unfold setPopped at h
  split at h <;> simp at h <;> subst h <;> simp [qw, inQ, b2n]

theorem ql_popResume (s s' : St) (t z g : Nat) (hi : Inv1 s) (hq : QLen s)
    (h : step s (.popResume t z g) = some s') : QLen s' := by
  simp only [step] at h
  obtain ⟨h1,h2,h3,h4,h5,h6,h7⟩ := hi
  split at h
  case isFalse => simp at h
  rename_i hg
  have htn : t < s.n := hg.1
  split at h
  case h_2 => simp at h
  rename_i i n g' rest hpc hqu
  split at h
  case isFalse => simp at h
  rename_i hsz
  obtain ⟨hsz, hgg⟩ := hsz
  subst hgg
  split at h
  case h_2 => simp at h
  rename_i p' hp'
  simp only [Option.some.injEq] at h
  subst h
  have hgq : g' ∈ s.queue := by rw [hqu]; simp
  have hginQ := (h3 g').1 hgq
  have hgt : g' ≠ t := by intro he; rw [he, hpc] at hginQ; simp [inQ] at hginQ
  have hgn : g' < s.n := by
    by_cases hcn : s.n ≤ g'
    · have := h2 g' hcn; rw [this] at hginQ; simp [inQ] at hginQ
    · omega
  obtain ⟨hw1, hw2⟩ := setPopped_qw hp'
  have hlg := le_sumTo (f := fun u => qw (s.pc u)) hgn
  simp only [hw1] at hlg
  simp only [QLen] at hq ⊢
  rw [sumTo_upd_eq _ qw _ _ _ htn, sumTo_upd_eq _ qw _ _ _ hgn]
  simp only [upd_other _ _ _ _ (Ne.symm hgt), hpc, hw1, hw2]
  rw [hqu] at hq
  simp only [List.length_cons] at hq
  have e1 : qw (Pc.sigL i n) = 0 := rfl
  have e2 : qw (Pc.sigRes i n (decide (rest ≠ []))) = 0 := rfl
  rw [e1, e2]
  omega

theorem step_qlen (s s' : St) (e : Ev) (hi : Inv1 s) (hq : QLen s) (h : step s e = some s') : QLen s' := by
  cases e with
  | inv t o => exact ql_inv s s' t o hi hq h
  | ret t r => exact ql_ret s s' t r hi hq h
  | slAcq t => exact ql_slAcq s s' t hi hq h
  | slRel t => exact ql_slRel s s' t hi hq h
  | cvEnq t z => exact ql_cvEnq s s' t z hi hq h
  | popResume t z g => exact ql_popResume s s' t z g hi hq h
  | cvNone t => exact ql_cvNone s s' t hi hq h
  | cvWoke t a => exact ql_cvWoke s s' t a hi hq h
  | pass t u l => exact ql_pass s s' t u l hi hq h
  | sig t l z => exact ql_sig s s' t l z hi hq h
  | suspend t => exact ql_suspend s s' t hi hq h
  | woke t => exact ql_woke s s' t hi hq h
  | done t => exact ql_done s s' t hi hq h

/-- the invariants the measure argument needs -/
def Good (s : St) : Prop := Inv1 s ∧ QLen s

theorem good_init (n : Nat) (d l : Int) : Good (init n d l) := ⟨inv1_init n d l, qlen_init n d l⟩

theorem good_step (s s' : St) (e : Ev) (hg : Good s) (h : step s e = some s') : Good s' :=
  ⟨step_inv1 s s' e hg.1 h, step_qlen s s' e hg.1 hg.2 h⟩

/-- `Good` holds in every state reached from `init` by an accepted log -/
theorem runLog_good {n : Nat} {d l : Int} {log : List Ev} {s : St}
    (h : runLog step (init n d l) log = some s) : Good s :=
  inv_of_runLog Good (fun s e s' hg hs => good_step s s' e hg hs) (good_init n d l) h

/-! ## the measure -/

set_option hygiene false in
macro "mu_step" t:term : tactic => `(tactic| (
  simp only [step] at h
  split at h
  case isFalse => simp at h
  rename_i hg
  have htn : $t < s.n := by grind
  have hle := le_sumTo (f := fun u => rank s.n (s.pc u)) htn
  have hle2 := le_sumTo (f := fun u => tokW (s.tok u)) htn
  repeat' split at h
  all_goals first | (simp at h; done) | skip
  all_goals (
    simp only [Option.some.injEq] at h
    subst h
    simp only [mu]
    try rw [sumTo_upd_eq _ (rank s.n) _ _ _ htn]
    try rw [sumTo_upd_eq _ tokW _ _ _ htn]
    grind)))

theorem mu_slAcq (s s' : St) (t : Nat) (h : step s (.slAcq t) = some s') : mu s' < mu s := by mu_step t
theorem mu_ret (s s' : St) (t : Nat) (r : Bool) (h : step s (.ret t r) = some s') : mu s' < mu s := by mu_step t
theorem mu_slRel (s s' : St) (t : Nat) (h : step s (.slRel t) = some s') : mu s' < mu s := by mu_step t
theorem mu_cvEnq (s s' : St) (t z : Nat) (h : step s (.cvEnq t z) = some s') : mu s' < mu s := by mu_step t
theorem mu_cvNone (s s' : St) (t : Nat) (hg0 : Good s) (h : step s (.cvNone t) = some s') : mu s' < mu s := by
  have hrt := hg0.1.sigLt t
  mu_step t
theorem mu_cvWoke (s s' : St) (t : Nat) (a : Bool) (h : step s (.cvWoke t a) = some s') : mu s' < mu s := by mu_step t
theorem mu_pass (s s' : St) (t : Nat) (u l : Int) (h : step s (.pass t u l) = some s') : mu s' < mu s := by mu_step t
theorem mu_sig (s s' : St) (t : Nat) (l : Int) (z : Nat) (hg0 : Good s) (h : step s (.sig t l z) = some s') : mu s' < mu s := by
  have hql := qlen_le s hg0.2
  mu_step t
theorem mu_suspend (s s' : St) (t : Nat) (h : step s (.suspend t) = some s') : mu s' < mu s := by mu_step t
theorem mu_woke (s s' : St) (t : Nat) (h : step s (.woke t) = some s') : mu s' < mu s := by mu_step t
theorem mu_done (s s' : St) (t : Nat) (h : step s (.done t) = some s') : mu s' < mu s := by mu_step t

theorem mu_inv (s s' : St) (t : Nat) (o : Op) (h : step s (.inv t o) = some s') :
    mu s' + 1 = mu s + rank s.n (.want o) := by
  simp only [step] at h
  split at h
  case isFalse => simp at h
  rename_i hg
  have htn : t < s.n := hg.1
  have hle := le_sumTo (f := fun u => rank s.n (s.pc u)) htn
  simp only [Option.some.injEq] at h
  subst h
  simp only [mu]
  rw [sumTo_upd_eq _ (rank s.n) _ _ _ htn]
  grind

theorem setPopped_rank (N : Nat) {p p' : Pc} (h : setPopped p = some p') :
    rank N p' = rank N p + 6 ∧ ∀ i n, p ≠ .sigL i n := by
  unfold setPopped at h
  split at h <;> simp at h <;> subst h <;> simp [rank, b2n] <;> omega

theorem mu_popResume (s s' : St) (t z g : Nat) (hg0 : Good s)
    (h : step s (.popResume t z g) = some s') : mu s' < mu s := by
  simp only [step] at h
  split at h
  case isFalse => simp at h
  rename_i hg
  have htn : t < s.n := hg.1
  split at h
  case h_2 => simp at h
  rename_i i n g' rest hpc hq
  split at h
  case isFalse => simp at h
  rename_i hsz
  obtain ⟨hsz, hgg⟩ := hsz
  subst hgg
  split at h
  case h_2 => simp at h
  rename_i p' hp'
  obtain ⟨hrk, hnr⟩ := setPopped_rank s.n hp'
  have hin := hg0.1.sigLt t i n hpc
  have hgt : t ≠ g' := by intro he; rw [← he, hpc] at hnr; exact hnr i n rfl
  simp only [Option.some.injEq] at h
  subst h
  have hw2 := sumTo_upd s.n (rank s.n) (upd s.pc g' p') t (.sigRes i n (decide (rest ≠ []))) htn
  rw [upd_other _ _ _ _ hgt, hpc] at hw2
  have e1 : rank s.n (Pc.sigL i n) = 15 * (n - i) + 5 := rfl
  have e2 : rank s.n (Pc.sigRes i n (decide (rest ≠ []))) = 15 * (n - i - 1) + 7 := rfl
  rw [e1, e2] at hw2
  simp only [mu]
  by_cases hgn : g' < s.n
  · have hw1 := sumTo_upd s.n (rank s.n) s.pc g' p' hgn
    have hw3 := sumTo_upd s.n tokW s.tok g' (s.tok g' + 1) hgn
    have e3 : tokW (s.tok g' + 1) = tokW (s.tok g') + 6 := by simp [tokW]; omega
    rw [e3] at hw3
    omega
  · have hw1 := sumTo_upd_ge s.n (rank s.n) s.pc g' p' (by omega)
    have hw3 := sumTo_upd_ge s.n tokW s.tok g' (s.tok g' + 1) (by omega)
    omega

/-- **The measure strictly decreases with every accepted event that is not the start of a new
    operation.** -/
theorem mu_step (s s' : St) (e : Ev) (hg : Good s) (hne : ∀ t o, e ≠ .inv t o)
    (h : step s e = some s') : mu s' < mu s := by
  cases e with
  | inv t o => exact absurd rfl (hne t o)
  | ret t r => exact mu_ret s s' t r h
  | slAcq t => exact mu_slAcq s s' t h
  | slRel t => exact mu_slRel s s' t h
  | cvEnq t z => exact mu_cvEnq s s' t z h
  | popResume t z g => exact mu_popResume s s' t z g hg h
  | cvNone t => exact mu_cvNone s s' t hg h
  | cvWoke t a => exact mu_cvWoke s s' t a h
  | pass t u l => exact mu_pass s s' t u l h
  | sig t l z => exact mu_sig s s' t l z hg h
  | suspend t => exact mu_suspend s s' t h
  | woke t => exact mu_woke s s' t h
  | done t => exact mu_done s s' t h

end PikaVerif.SSem
