import PikaVerif.Lemmas.AffCompact
/-! C15: the PU scan loop and the scatter decoder. -/
namespace PikaVerif.Aff
open PikaVerif

theorem scan_spec (inm : Nat → Bool) (ncp : Nat) : ∀ (fuel idx : Nat), ncp - idx < fuel →
    idx ≤ (scan inm ncp fuel idx).1 ∧
    ((scan inm ncp fuel idx).2 = true →
      idx < (scan inm ncp fuel idx).1 ∧ (scan inm ncp fuel idx).1 ≤ ncp ∧
      inm ((scan inm ncp fuel idx).1 - 1) = true ∧
      ∀ x, idx ≤ x → x < (scan inm ncp fuel idx).1 - 1 → inm x = false) ∧
    ((scan inm ncp fuel idx).2 = false →
      (∀ x, idx ≤ x → x < ncp → inm x = false) ∧ ncp ≤ (scan inm ncp fuel idx).1 ∨ ncp ≤ idx) := by
  intro fuel
  induction fuel with
  | zero => intro idx h; omega
  | succ f ih =>
    intro idx h
    simp only [scan]
    by_cases h1 : idx < ncp
    · simp only [h1, ↓reduceIte]
      cases h2 : inm idx with
      | true =>
        simp only [↓reduceIte, Nat.add_sub_cancel]
        refine ⟨by omega, fun _ => ⟨by omega, by omega, h2, fun x hx hx2 => by omega⟩, ?_⟩
        intro h; simp at h
      | false =>
        simp only [Bool.false_eq_true, ↓reduceIte]
        obtain ⟨a, b, c⟩ := ih (idx + 1) (by omega)
        refine ⟨by omega, ?_, ?_⟩
        · intro hh
          obtain ⟨b1, b2, b3, b4⟩ := b hh
          refine ⟨by omega, b2, b3, ?_⟩
          intro x hx hx2
          by_cases hxi : x = idx
          · subst hxi; exact h2
          · exact b4 x (by omega) hx2
        · intro hh
          rcases c hh with ⟨c1, c2⟩ | c3
          · left
            refine ⟨?_, c2⟩
            intro x hx hx2
            by_cases hxi : x = idx
            · subst hxi; exact h2
            · exact c1 x (by omega) hx2
          · left
            refine ⟨?_, by omega⟩
            intro x hx hx2
            have : x = idx := by omega
            subst this; exact h2
    · simp only [h1, ↓reduceIte]
      refine ⟨Nat.le_refl _, by simp, fun _ => Or.inr (by omega)⟩

theorem scanPu_spec (inm : Nat → Bool) (ncp idx : Nat) :
    idx ≤ (scanPu inm ncp idx).1 ∧
    ((scanPu inm ncp idx).2 = true →
      idx < (scanPu inm ncp idx).1 ∧ (scanPu inm ncp idx).1 ≤ ncp ∧
      inm ((scanPu inm ncp idx).1 - 1) = true ∧
      ∀ x, idx ≤ x → x < (scanPu inm ncp idx).1 - 1 → inm x = false) ∧
    ((scanPu inm ncp idx).2 = false →
      (∀ x, idx ≤ x → x < ncp → inm x = false) ∧ ncp ≤ (scanPu inm ncp idx).1 ∨ ncp ≤ idx) :=
  scan_spec inm ncp (ncp - idx + 1) idx (by omega)


/-- invariant of the scatter decoder (independent of the position in the loop nest) -/
structure SInv (cfg : Cfg) (s : SSt) : Prop where
  lt : s.a.k < cfg.n
  bound : ∀ i, i < s.a.k → ∃ c x, c < effCores cfg ∧ x < s.nxt c ∧ x < cfg.t.pus c ∧
    ind cfg (base cfg.t c + x) = true ∧ s.a.aff i = [base cfg.t c + x] ∧
    s.a.pn i = base cfg.t c + x
  fresh : ∀ i, s.a.k ≤ i → s.a.aff i = []
  distinct : ∀ i j, i < s.a.k → j < s.a.k → i ≠ j → s.a.aff i ≠ s.a.aff j

theorem scatterCore_inv (cfg : Cfg) (hu : effUsed cfg = 0) {c : Nat} (hc : c < effCores cfg)
    (s : SSt) (h : SInv cfg s) :
    CtlP (SInv cfg) (fun s => Fin cfg s.a) False (scatterCore cfg c s) := by
  have hcn : c < cfg.t.nc := Nat.lt_of_lt_of_le hc (effCores_le cfg)
  have hf := h.fresh s.a.k (Nat.le_refl _)
  unfold scatterCore
  simp only [hf, ne_eq, not_true_eq_false, ↓reduceIte, corePus_eq cfg.t hcn, hu, Nat.add_zero]
  obtain ⟨s1, s2, _⟩ := scanPu_spec (fun p => inMask cfg c p) (cfg.t.pus c) (s.nxt c)
  generalize scanPu (fun p => inMask cfg c p) (cfg.t.pus c) (s.nxt c) = r at s1 s2
  obtain ⟨j, u⟩ := r
  simp only at s1 s2
  cases u with
  | false =>
    simp only [Bool.not_false, ↓reduceIte, CtlP]
    refine ⟨h.lt, ?_, h.fresh, h.distinct⟩
    intro i hi
    obtain ⟨c', x, h1, h2, h3⟩ := h.bound i hi
    refine ⟨c', x, h1, ?_, h3⟩
    by_cases hcc : c' = c
    · subst hcc; simp only [upd_same]; omega
    · simpa [upd, hcc] using h2
  | true =>
    obtain ⟨t1, t2, t3, _⟩ := s2 rfl
    have hx : j - 1 < cfg.t.pus c := by omega
    have hind : ind cfg (base cfg.t c + (j - 1)) = true := by
      rw [← inMask_eq cfg hcn hx]; exact t3
    simp only [Bool.not_true, Bool.false_eq_true, ↓reduceIte, upd_same, assign, hf, ne_eq,
      not_true_eq_false, threadMask, puNumber_eq cfg.t hcn hx]
    have hb : ∀ i, i < s.a.k + 1 → ∃ c' x, c' < effCores cfg ∧ x < upd s.nxt c j c' ∧
        x < cfg.t.pus c' ∧ ind cfg (base cfg.t c' + x) = true ∧
        upd s.a.aff s.a.k [base cfg.t c + (j - 1)] i = [base cfg.t c' + x] ∧
        upd s.a.pn s.a.k (base cfg.t c + (j - 1)) i = base cfg.t c' + x := by
      intro i hi
      by_cases hik : i = s.a.k
      · subst hik
        exact ⟨c, j - 1, hc, by simp; omega, hx, hind, by simp, by simp⟩
      · obtain ⟨c', x, h1, h2, h3, h4, h5, h6⟩ := h.bound i (by omega)
        refine ⟨c', x, h1, ?_, h3, h4, by simp [upd, hik, h5], by simp [upd, hik, h6]⟩
        by_cases hcc : c' = c
        · subst hcc; simp only [upd_same]; omega
        · simpa [upd, hcc] using h2
    have hnew : ∀ i, i < s.a.k → s.a.aff i ≠ [base cfg.t c + (j - 1)] := by
      intro i hi he
      obtain ⟨c', x, h1, h2, h3, _, h5, _⟩ := h.bound i hi
      rw [h5] at he
      have he' : base cfg.t c' + x = base cfg.t c + (j - 1) := by simpa using he
      obtain ⟨e1, e2⟩ := base_inj cfg.t h3 hx he'
      subst e1; omega
    have hd : ∀ i i', i < s.a.k + 1 → i' < s.a.k + 1 → i ≠ i' →
        upd s.a.aff s.a.k [base cfg.t c + (j - 1)] i ≠
        upd s.a.aff s.a.k [base cfg.t c + (j - 1)] i' := by
      intro i i' hi hi' hne
      by_cases hik : i = s.a.k
      · have hjk : i' ≠ s.a.k := by omega
        simp only [upd, hik, hjk, ↓reduceIte]
        exact fun he => hnew i' (by omega) he.symm
      · by_cases hjk : i' = s.a.k
        · simp only [upd, hik, hjk, ↓reduceIte]
          exact hnew i (by omega)
        · simp only [upd, hik, hjk, ↓reduceIte]
          exact h.distinct i i' (by omega) (by omega) hne
    by_cases hn : s.a.k + 1 = cfg.n
    · simp only [hn, ↓reduceIte, CtlP]
      refine ⟨rfl, ?_, ?_⟩ <;> dsimp only
      · intro i hi
        obtain ⟨c', x, h1, _, h3, h4, h5, h6⟩ := hb i (by omega)
        exact ⟨_, h5, h6,
          base_add_lt_numPus cfg.t (Nat.lt_of_lt_of_le h1 (effCores_le cfg)) h3, h4⟩
      · intro i i' hi hi'; exact hd i i' (by omega) (by omega)
    · simp only [hn, ↓reduceIte, CtlP]
      refine ⟨?_, hb, ?_, hd⟩ <;> dsimp only
      · have := h.lt; omega
      · intro i hi
        have : i ≠ s.a.k := by omega
        simp [upd, this, h.fresh i (by omega)]

theorem scatterPass_inv (cfg : Cfg) (hu : effUsed cfg = 0) (s : SSt) (h : SInv cfg s) :
    CtlP (SInv cfg) (fun s => Fin cfg s.a) False (scatterPass cfg s) := by
  unfold scatterPass
  exact forRange_inv (scatterCore cfg) (fun _ => SInv cfg) (fun s => Fin cfg s.a) False
    (effCores cfg) s (fun c s hc hs => scatterCore_inv cfg hu hc s hs) h

theorem scatterLoop_ok (cfg : Cfg) (hu : effUsed cfg = 0) : ∀ (f : Nat) (s : SSt), SInv cfg s →
    ∀ aff pn, scatterLoop cfg f s = .ok aff pn → Good cfg aff pn := by
  intro f
  induction f with
  | zero => intro s _ aff pn h; simp [scatterLoop] at h
  | succ f ih =>
    intro s hs aff pn h
    simp only [scatterLoop] at h
    have hp := scatterPass_inv cfg hu s hs
    cases hr : scatterPass cfg s with
    | fin s' =>
      rw [hr] at hp h
      simp only [Res.ok.injEq] at h
      obtain ⟨h1, h2⟩ := h
      subst h1; subst h2
      exact hp.good
    | err => rw [hr] at hp; exact hp.elim
    | run s' =>
      rw [hr] at hp h
      simp only at h
      split at h
      · simp at h
      · exact ih s' hp aff pn h

/-- **scatter** (partial correctness): whatever the decoder returns satisfies C15. -/
theorem scatter_ok (cfg : Cfg) (hu : effUsed cfg = 0) (aff : Nat → List Nat) (pn : Nat → Nat)
    (h : decodeScatter cfg = .ok aff pn) : Good cfg aff pn := by
  unfold decodeScatter at h
  split at h
  · simp at h
  · split at h
    · rename_i h0
      simp only [Res.ok.injEq] at h
      obtain ⟨h1, h2⟩ := h
      subst h1; subst h2
      exact ⟨fun i hi => by omega, fun i j hi => by omega⟩
    · rename_i h0
      refine scatterLoop_ok cfg hu _ _ ?_ aff pn h
      exact ⟨by simp [ASt.init]; omega, fun i hi => absurd hi (Nat.not_lt_zero _), fun _ _ => rfl,
        fun _ _ hi => absurd hi (Nat.not_lt_zero _)⟩

end PikaVerif.Aff
