import PikaVerif.Lemmas.MtxProg
/-!
# Final states of maximal runs of mutex programs (C06t)

`FinOk`: a finished task has no operation left.  `Closed`: the static condition on a task's
program under which the task cannot end while holding the mutex — no lock-type operation
(`lock`, `try_lock`, `try_lock_for`) after its last `unlock`.  Every well-bracketed program
(`bracketed`) is closed.  `Cl` is the run-time invariant that carries `Closed` through a run.
-/
namespace PikaVerif.Mtx
open PikaVerif

theorem pstep_prog' (p p' : PSt) (e : Ev) (hne : ∀ t o, e ≠ .inv t o) (h : pstep p e = some p') :
    p'.prog = p.prog := by
  by_cases hcs : ∃ t, e = .csEnter t
  · obtain ⟨t, he⟩ := hcs; subst he; exact (pstep_csEnter p p' t h).2.1
  · exact (pstep_prog p p' e hne (fun t he => hcs ⟨t, he⟩) h).1

theorem finOk_step (p p' : PSt) (e : Ev) (hf : FinOk p) (h : pstep p e = some p') : FinOk p' := by
  have hs := pstep_step p p' e h
  by_cases hinv : ∃ t o, e = .inv t o
  · obtain ⟨t, o, he⟩ := hinv
    subst he
    obtain ⟨rest, hp, hp', _, htn⟩ := pstep_inv p p' t o h
    intro u hu
    simp only [step] at hs
    split at hs
    · simp only [Option.some.injEq] at hs
      rw [← hs] at hu
      simp only [upd] at hu
      split at hu
      · simp at hu
      · rename_i hut; rw [hp']; simp only [upd, hut, if_false]; exact hf u hu
    · simp at hs
  · have hne : ∀ t o, e ≠ .inv t o := fun t o he => hinv ⟨t, o, he⟩
    have hp := pstep_prog' p p' e hne h
    intro u hu
    rw [hp]
    by_cases hd : ∃ t, e = .done t
    · obtain ⟨t, he⟩ := hd
      subst he
      simp only [pstep] at h
      split at h
      · rename_i hnil
        simp only [step] at hs
        split at hs
        · simp only [Option.some.injEq] at hs
          rw [← hs] at hu
          simp only [upd] at hu
          split at hu
          · rename_i hut; rw [hut]; exact hnil
          · exact hf u hu
        · simp at hs
      · simp at h
    · exact hf u (step_fin _ _ _ hs (fun t he => hd ⟨t, he⟩) u hu)

theorem runLog_finOk (log : List Ev) : ∀ (p p' : PSt), FinOk p → runLog pstep p log = some p' → FinOk p' := by
  induction log with
  | nil => intro p p' hf h; simp at h; subst h; exact hf
  | cons e es ih =>
    intro p p' hf h
    simp only [runLog] at h
    cases hs : pstep p e with
    | none => simp [hs] at h
    | some p1 => simp only [hs] at h; exact ih p1 p' (finOk_step p p1 e hf hs) h

/-- Does a task that runs the operations `l`, starting with (`h` = true) or without a possibly
    successful lock-type call behind it, possibly end while holding?  `unlock` closes, every
    lock-type operation opens. -/
def endsOpen : Bool → List Op → Bool
  | h, [] => h
  | _, .unlock :: l => endsOpen false l
  | _, _ :: l => endsOpen true l

/-- **Closed program**: no lock-type operation after the last `unlock`. -/
def Closed (l : List Op) : Prop := endsOpen false l = false

instance (l : List Op) : Decidable (Closed l) := by unfold Closed; infer_instance

/-- Well-bracketed program: every lock-type operation is immediately followed, in the same task,
    by its `unlock` (so there is no lock-type call while holding, and no stray `unlock`). -/
def bracketed : List Op → Bool
  | [] => true
  | .unlock :: _ => false
  | _ :: .unlock :: l => bracketed l
  | _ => false

theorem bracketed_closed : ∀ (k : Nat) (l : List Op), l.length ≤ k → bracketed l = true → Closed l := by
  intro k
  induction k with
  | zero => intro l hl _; cases l with
    | nil => rfl
    | cons a l => simp at hl
  | succ k ih =>
    intro l hl hb
    match l, hl, hb with
    | [], _, _ => rfl
    | .unlock :: _, _, hb => simp [bracketed] at hb
    | .lock :: .unlock :: l, hl, hb =>
      have := ih l (by simp at hl; omega) (by simpa [bracketed] using hb)
      simpa [Closed, endsOpen] using this
    | .tryl :: .unlock :: l, hl, hb =>
      have := ih l (by simp at hl; omega) (by simpa [bracketed] using hb)
      simpa [Closed, endsOpen] using this
    | .timed :: .unlock :: l, hl, hb =>
      have := ih l (by simp at hl; omega) (by simpa [bracketed] using hb)
      simpa [Closed, endsOpen] using this
    | [.lock], _, hb => simp [bracketed] at hb
    | [.tryl], _, hb => simp [bracketed] at hb
    | [.timed], _, hb => simp [bracketed] at hb
    | .lock :: .lock :: _, _, hb => simp [bracketed] at hb
    | .lock :: .tryl :: _, _, hb => simp [bracketed] at hb
    | .lock :: .timed :: _, _, hb => simp [bracketed] at hb
    | .tryl :: .lock :: _, _, hb => simp [bracketed] at hb
    | .tryl :: .tryl :: _, _, hb => simp [bracketed] at hb
    | .tryl :: .timed :: _, _, hb => simp [bracketed] at hb
    | .timed :: .lock :: _, _, hb => simp [bracketed] at hb
    | .timed :: .tryl :: _, _, hb => simp [bracketed] at hb
    | .timed :: .timed :: _, _, hb => simp [bracketed] at hb

theorem endsOpen_mono : ∀ (l : List Op), endsOpen true l = false → endsOpen false l = false := by
  intro l h
  cases l with
  | nil => simp [endsOpen] at h
  | cons o l => cases o <;> simpa [endsOpen] using h

/-- program counters inside a lock-type operation -/
def lockish : Pc → Bool
  | .want o | .locked o | .owned o | .retn o _ => !decide (o = .unlock)
  | .idle | .fin | .disowned | .notified => false
  | _ => true

/-- the task holds by program order or is inside a lock-type call that may still succeed -/
def mayHold (s : St) (t : Nat) : Bool := s.holdsG t || lockish (s.pc t)

theorem setPopped_lockish {q q' : Pc} (h : setPopped q = some q') : lockish q = true ∧ lockish q' = true := by
  unfold setPopped at h
  split at h <;> simp at h <;> subst h <;> simp [lockish]

attribute [local grind] lockish mayHold

theorem mayHold_step (s s' : St) (e : Ev) (hne : ∀ t o, e ≠ .inv t o) (hs : step s e = some s') :
    ∀ u, mayHold s' u = true → mayHold s u = true := by
  intro u
  cases e
  case inv t o => exact absurd rfl (hne t o)
  case popResume t z g d =>
    simp only [step] at hs
    (repeat' split at hs) <;> first | (simp at hs; done) | skip
    all_goals (
      have hsp := setPopped_lockish ‹setPopped _ = some _›
      simp only [Option.some.injEq] at hs; subst hs
      grind [upd])
  all_goals
    simp only [step] at hs <;> (repeat' split at hs) <;>
      first
      | (simp at hs; done)
      | (simp only [Option.some.injEq] at hs; subst hs; grind [upd])

theorem holdsG_outside_step (s s' : St) (e : Ev) (hs : step s e = some s')
    (ho : ∀ t, s.n ≤ t → s.holdsG t = false) : ∀ t, s'.n ≤ t → s'.holdsG t = false := by
  cases e <;> simp only [step] at hs <;> (repeat' split at hs) <;>
    first
    | (simp at hs; done)
    | (simp only [Option.some.injEq] at hs; subst hs; exact ho)
    | (simp only [Option.some.injEq] at hs; subst hs; intro u hu; grind [upd])

/-- a task that holds by program order and is inside an operation was the owner when it invoked it
    (so its `lock()` reports the deadlock error and never parks) -/
def HoldInv (s : St) : Prop :=
  (∀ t, s.holdsG t = true → s.pc t = .idle ∨ s.pc t = .fin ∨ s.ownedAtInv t = true) ∧
  (∀ t, s.n ≤ t → s.holdsG t = false)

theorem setPopped_not_rest {q q' : Pc} (h : setPopped q = some q') :
    q ≠ .idle ∧ q ≠ .fin ∧ q' ≠ .idle ∧ q' ≠ .fin := by
  unfold setPopped at h
  split at h <;> simp at h <;> subst h <;> simp

theorem holdInv_step (s s' : St) (e : Ev) (hi2 : Inv2 s) (hk : HoldInv s) (hs : step s e = some s') :
    HoldInv s' := by
  refine ⟨?_, holdsG_outside_step _ _ _ hs hk.2⟩
  have hk1 := hk.1
  have hh := hi2.hold1
  intro u
  cases e
  case popResume t z g d =>
    simp only [step] at hs
    (repeat' split at hs) <;> first | (simp at hs; done) | skip
    all_goals (
      have hsp := setPopped_not_rest ‹setPopped _ = some _›
      simp only [Option.some.injEq] at hs; subst hs
      have := hk1 u
      grind [upd])
  all_goals
    simp only [step] at hs <;> (repeat' split at hs) <;>
      first
      | (simp at hs; done)
      | (simp only [Option.some.injEq] at hs; subst hs; have := hk1 u; have := hh u; grind [upd])

theorem holdInv_of_accepted {n : Nat} {log : List Ev} {s : St}
    (h : runLog step (init n) log = some s) : HoldInv s := by
  have : ∀ (log : List Ev) (s0 s : St), Inv s0 ∧ Inv2 s0 ∧ HoldInv s0 → runLog step s0 log = some s → HoldInv s := by
    intro log
    induction log with
    | nil => intro s0 s h0 h; simp at h; exact h ▸ h0.2.2
    | cons e es ih =>
      intro s0 s h0 h
      simp only [runLog] at h
      cases hs : step s0 e with
      | none => simp [hs] at h
      | some s1 =>
        simp only [hs] at h
        exact ih s1 s ⟨step_inv s0 s1 e h0.1 hs, step_inv2 s0 s1 e h0.1 h0.2.1 hs,
          holdInv_step s0 s1 e h0.2.1 h0.2.2 hs⟩ h
  exact this log _ s ⟨inv_init n, inv2_init n, ⟨fun t ht => by simp [init] at ht, fun _ _ => rfl⟩⟩ h

/-- run-time form of `Closed` -/
structure Cl (p : PSt) : Prop where
  closed : ∀ t, t < p.s.n → endsOpen (mayHold p.s t) (p.prog t) = false
  hout : ∀ t, p.s.n ≤ t → p.s.holdsG t = false

theorem cl_pinit (n : Nat) (prog : Nat → List Op) (h : ∀ t, t < n → Closed (prog t)) : Cl (pinit n prog) :=
  ⟨fun t ht => by have := h t ht; unfold Closed at this; simpa [pinit, init, mayHold, lockish] using this, fun _ _ => rfl⟩

theorem cl_step (p p' : PSt) (e : Ev) (hc : Cl p) (h : pstep p e = some p') : Cl p' := by
  have hs := pstep_step p p' e h
  have hn := step_n _ _ _ hs
  refine ⟨?_, holdsG_outside_step _ _ _ hs hc.hout⟩
  rw [hn]
  by_cases hinv : ∃ t o, e = .inv t o
  · obtain ⟨t, o, he⟩ := hinv
    subst he
    obtain ⟨rest, hp, hp', _, htn⟩ := pstep_inv p p' t o h
    have hct := hc.closed t htn
    rw [hp] at hct
    simp only [step] at hs
    split at hs
    · rename_i hg
      simp only [Option.some.injEq] at hs
      intro u hu
      by_cases hut : u = t
      · subst hut
        rw [hp', ← hs]
        simp only [mayHold, upd_same, lockish]
        cases o <;> simp [endsOpen] at hct ⊢ <;> exact hct
      · have := hc.closed u hu
        rw [hp', ← hs]
        simp only [mayHold, upd_other _ _ _ _ hut] at this ⊢
        split
        · simpa [upd_other _ _ _ _ hut] using this
        · exact this
    · simp at hs
  · have hne : ∀ t o, e ≠ .inv t o := fun t o he => hinv ⟨t, o, he⟩
    have hp := pstep_prog' p p' e hne h
    intro u hu
    rw [hp]
    have := hc.closed u hu
    cases hm : mayHold p'.s u with
    | false =>
      cases hm0 : mayHold p.s u with
      | false => rw [hm0] at this; exact this
      | true => rw [hm0] at this; exact endsOpen_mono _ this
    | true => rw [mayHold_step _ _ _ hne hs u hm] at this; exact this

theorem runLog_cl (log : List Ev) : ∀ (p p' : PSt), Cl p → runLog pstep p log = some p' → Cl p' := by
  induction log with
  | nil => intro p p' hf h; simp at h; subst h; exact hf
  | cons e es ih =>
    intro p p' hf h
    simp only [runLog] at h
    cases hs : pstep p e with
    | none => simp [hs] at h
    | some p1 => simp only [hs] at h; exact ih p1 p' (cl_step p p1 e hf hs) h

/-- a state in which the spinlock is free and every task is finished or parked in `lock()`
    without a token accepts no event: it ends a maximal run -/
theorem pstuck_of_rest (p : PSt) (hl : p.s.lock = none)
    (h : ∀ t, t < p.s.n → p.s.pc t = .fin ∨ (p.s.pc t = .susp false ∧ p.s.tok t = 0)) : PStuck p := by
  intro e
  cases e <;> simp only [pstep, step] <;> (repeat' split) <;>
    first
    | rfl
    | (simp_all; done)
    | grind

theorem n_of_log (n : Nat) (log : List Ev) (s : St) (h : runLog step (init n) log = some s) : s.n = n := by
  have : ∀ (log : List Ev) (s0 s : St), runLog step s0 log = some s → s.n = s0.n := by
    intro log
    induction log with
    | nil => intro s0 s h; simp at h; rw [h]
    | cons e es ih =>
      intro s0 s h
      simp only [runLog] at h
      cases hs : step s0 e with
      | none => simp [hs] at h
      | some s1 => simp only [hs] at h; rw [ih s1 s h, step_n _ _ _ hs]
  exact this log _ s h


end PikaVerif.Mtx
