import PikaVerif.Lemmas.CVAbort
/-! Enabledness lemmas for the progress theorem of the `abort_all` model (follow-up C07d). -/
namespace PikaVerif.CVAbort
open PikaVerif

/-- Events inside an operation (everything except invoking a new operation / finishing the thread). -/
def inner : Ev → Bool
  | .inv _ _ => false
  | .done _ => false
  | _ => true

theorem setPopped_some_of_linked {p : Pc} (h1 : inQ p = true) (h2 : holds p = false) :
    ∃ p', setPopped p = some p' := by
  cases p <;> simp [inQ, holds] at h1 h2 <;> (try subst h1) <;> simp [setPopped]

theorem en_of_holds (s : St) (hi : Inv s) (r : Nat) (hl : s.lock = some r) :
    ∃ e, (step s e).isSome = true ∧ inner e = true := by
  have hh := hi.lockConv r hl
  have hpop : ∀ g, (g ∈ s.queue ∨ g ∈ s.lq) → holds (s.pc g) = true → g = r := by
    intro g _ hg; have := hi.lockHolder g hg; rw [hl] at this; simpa using this.symm
  cases hp : s.pc r <;> simp [hp, holds] at hh
  case wLocked tm => exact ⟨.cvEnq r (s.queue.length + 1) tm, by simp [step, hl, hp], rfl⟩
  case enq tm => exact ⟨.slRel r, by simp [step, hl, hp], rfl⟩
  case relk tm p => exact ⟨.cvWoke r (!p) tm, by cases p <;> simp [step, hl, hp], rfl⟩
  case thrLk p => exact ⟨.threw r, by cases p <;> simp [step, hl, hp], rfl⟩
  case post x => exact ⟨.slRel r, by simp [step, hl, hp], rfl⟩
  case nDone => exact ⟨.slRel r, by simp [step, hl, hp], rfl⟩
  case aPopped g => exact ⟨.slRel r, by simp [step, hl, hp], rfl⟩
  case aDone => exact ⟨.slRel r, by simp [step, hl, hp], rfl⟩
  case nLocked all =>
    cases all with
    | true => exact ⟨.cvAll r s.queue.length, by simp [step, hl, hp], rfl⟩
    | false =>
      cases hq : s.queue with
      | nil => exact ⟨.cvNone r, by simp [step, hl, hp, hq], rfl⟩
      | cons g rest =>
        have hin : inQ (s.pc g) = true := (hi.qIff g).1 (by simp [hq])
        have hnh : holds (s.pc g) = false := by
          cases hx : holds (s.pc g) with
          | false => rfl
          | true => have := hpop g (by simp [hq]) hx; subst this; simp [hp, inQ] at hin
        obtain ⟨p', hp'⟩ := setPopped_some_of_linked hin hnh
        exact ⟨.popResume r rest.length g (isSlp (s.pc g)), by simp [step, hl, hp, popCore, hq, hp'], rfl⟩
  case nAll =>
    cases hq : s.queue with
    | nil => exact ⟨.slRel r, by simp [step, hl, hp, hq], rfl⟩
    | cons g rest =>
      have hin : inQ (s.pc g) = true := (hi.qIff g).1 (by simp [hq])
      have hnh : holds (s.pc g) = false := by
        cases hx : holds (s.pc g) with
        | false => rfl
        | true => have := hpop g (by simp [hq]) hx; subst this; simp [hp, inQ] at hin
      obtain ⟨p', hp'⟩ := setPopped_some_of_linked hin hnh
      exact ⟨.popAll r rest.length g (isSlp (s.pc g)), by simp [step, hl, hp, popCore, hq, hp'], rfl⟩
  case aLoop =>
    cases hlq : s.lq with
    | cons g rest =>
      have hin : inQ (s.pc g) = true := (hi.qIff g).1 (by simp [hlq])
      have hnh : holds (s.pc g) = false := by
        cases hx : holds (s.pc g) with
        | false => rfl
        | true => have := hpop g (by simp [hlq]) hx; subst this; simp [hp, inQ] at hin
      obtain ⟨p', hp'⟩ := setPopped_some_of_linked hin hnh
      exact ⟨.abPop r rest.length g, by simp [step, hl, hp, hlq, hp'], rfl⟩
    | nil =>
      cases hq : s.queue with
      | nil => exact ⟨.abDone r 0, by simp [step, hl, hp, hq, hlq], rfl⟩
      | cons g rest => exact ⟨.abSwap r (rest.length + 1), by simp [step, hl, hp, hq, hlq], rfl⟩


end PikaVerif.CVAbort
