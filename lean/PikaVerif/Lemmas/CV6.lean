import PikaVerif.Lemmas.CV
/-! Ghost invariant for the exact characterisation of a `false` result of the timed stop-token wait
    (follow-up C07d, part B; used by `Props/C07d.lean`). -/
namespace PikaVerif.CV
open PikaVerif

/-- Ghost observation for the timed stop-token wait: `g t` = the current wait operation of `t` has seen
    `reason == timeout` (a `cv.woke` with the entry still linked: the deadline expired and no notifier
    had popped the entry). -/
def obsTO (g : Nat → Bool) (e : Ev) (u : Nat) : Bool :=
  match e with
  | .inv t _ => if u = t then false else g u
  | .cvWoke t still _ => if u = t then (still || g u) else g u
  | _ => g u

def okB (stopReq sstop g : Bool) : Pc → Bool
  | .post still => !still || g
  | .postS still => (!still || g) && (!sstop || stopReq || g)
  | .relockU _ => !sstop || stopReq || g
  | .predChk final => !final || stopReq || g
  | .sStopped => stopReq
  | .sDtor r | .sRm r | .sRmChk r | .sRmWait r | .retn r => decide (r ≠ 0) || stopReq || g
  | _ => true

def GB (s : St) (g : Nat → Bool) : Prop :=
  ∀ t, s.curOp t = .swait true → okB s.stopReq (s.sstop t) (g t) (s.pc t) = true

attribute [local grind] okB obsTO setPopped b2n isTimed isPred isStop exitPc

set_option maxHeartbeats 1600000

set_option hygiene false in
macro "gb_step" : tactic => `(tactic| (
  simp only [step, popCore] at h
  unfold GB at hi ⊢
  repeat' split at h
  all_goals first | (simp at h; done) | skip
  all_goals (
    simp only [Option.some.injEq] at h
    subst h
    dsimp only
    intro u
    have := hi u
    grind [upd])))

theorem setPopped_okB {p p' : Pc} (h : setPopped p = some p') (a b c : Bool) : okB a b c p' = true := by
  unfold setPopped at h
  split at h <;> simp at h <;> subst h <;> simp [okB]

theorem okB_mono (sr b c : Bool) (p : Pc) (h : okB sr b c p = true) : okB true b c p = true := by
  cases p <;> simp_all [okB]

theorem gb_inv (s s' : St) (g : Nat → Bool) (t : Nat) (o : Op) (hi : GB s g) (h : step s (.inv t o) = some s') : GB s' (obsTO g (.inv t o)) := by gb_step
theorem gb_ret (s s' : St) (g : Nat → Bool) (t r : Nat) (hi : GB s g) (h : step s (.ret t r) = some s') : GB s' (obsTO g (.ret t r)) := by gb_step
theorem gb_ulAcq (s s' : St) (g : Nat → Bool) (t : Nat) (hi : GB s g) (h : step s (.ulAcq t) = some s') : GB s' (obsTO g (.ulAcq t)) := by gb_step
theorem gb_ulRel (s s' : St) (g : Nat → Bool) (t : Nat) (hi : GB s g) (h : step s (.ulRel t) = some s') : GB s' (obsTO g (.ulRel t)) := by gb_step
theorem gb_setFlag (s s' : St) (g : Nat → Bool) (t : Nat) (v : Bool) (hi : GB s g) (h : step s (.setFlag t v) = some s') : GB s' (obsTO g (.setFlag t v)) := by gb_step
theorem gb_pred (s s' : St) (g : Nat → Bool) (t : Nat) (v : Bool) (hi : GB s g) (h : step s (.pred t v) = some s') : GB s' (obsTO g (.pred t v)) := by gb_step
theorem gb_slAcq (s s' : St) (g : Nat → Bool) (t : Nat) (hi : GB s g) (h : step s (.slAcq t) = some s') : GB s' (obsTO g (.slAcq t)) := by gb_step
theorem gb_slRel (s s' : St) (g : Nat → Bool) (t : Nat) (hi : GB s g) (h : step s (.slRel t) = some s') : GB s' (obsTO g (.slRel t)) := by gb_step
theorem gb_cvEnq (s s' : St) (g : Nat → Bool) (t z : Nat) (b : Bool) (hi : GB s g) (h : step s (.cvEnq t z b) = some s') : GB s' (obsTO g (.cvEnq t z b)) := by gb_step
theorem gb_popResume (s s' : St) (g : Nat → Bool) (t z q : Nat) (d : Bool) (hi : GB s g) (h : step s (.popResume t z q d) = some s') : GB s' (obsTO g (.popResume t z q d)) := by 
  have hx := fun p' => @setPopped_okB (s.pc q) p'
  gb_step
theorem gb_cvNone (s s' : St) (g : Nat → Bool) (t : Nat) (hi : GB s g) (h : step s (.cvNone t) = some s') : GB s' (obsTO g (.cvNone t)) := by gb_step
theorem gb_cvAll (s s' : St) (g : Nat → Bool) (t z : Nat) (hi : GB s g) (h : step s (.cvAll t z) = some s') : GB s' (obsTO g (.cvAll t z)) := by gb_step
theorem gb_popAll (s s' : St) (g : Nat → Bool) (t z q : Nat) (d : Bool) (hi : GB s g) (h : step s (.popAll t z q d) = some s') : GB s' (obsTO g (.popAll t z q d)) := by 
  have hx := fun p' => @setPopped_okB (s.pc q) p'
  gb_step
theorem gb_cvWoke (s s' : St) (g : Nat → Bool) (t : Nat) (a b : Bool) (hi : GB s g) (h : step s (.cvWoke t a b) = some s') : GB s' (obsTO g (.cvWoke t a b)) := by gb_step
theorem gb_suspend (s s' : St) (g : Nat → Bool) (t : Nat) (hi : GB s g) (h : step s (.suspend t) = some s') : GB s' (obsTO g (.suspend t)) := by gb_step
theorem gb_woke (s s' : St) (g : Nat → Bool) (t : Nat) (hi : GB s g) (h : step s (.woke t) = some s') : GB s' (obsTO g (.woke t)) := by gb_step
theorem gb_sleep (s s' : St) (g : Nat → Bool) (t : Nat) (hi : GB s g) (h : step s (.sleep t) = some s') : GB s' (obsTO g (.sleep t)) := by gb_step
theorem gb_timeout (s s' : St) (g : Nat → Bool) (t : Nat) (hi : GB s g) (h : step s (.timeout t) = some s') : GB s' (obsTO g (.timeout t)) := by gb_step
theorem gb_done (s s' : St) (g : Nat → Bool) (t : Nat) (hi : GB s g) (h : step s (.done t) = some s') : GB s' (obsTO g (.done t)) := by gb_step
theorem gb_stop0 (s s' : St) (g : Nat → Bool) (t : Nat) (v : Bool) (hi : GB s g) (h : step s (.stop0 t v) = some s') : GB s' (obsTO g (.stop0 t v)) := by gb_step
theorem gb_stop1 (s s' : St) (g : Nat → Bool) (t : Nat) (v : Bool) (hi : GB s g) (h : step s (.stop1 t v) = some s') : GB s' (obsTO g (.stop1 t v)) := by gb_step
theorem gb_stop2 (s s' : St) (g : Nat → Bool) (t : Nat) (v : Bool) (hi : GB s g) (h : step s (.stop2 t v) = some s') : GB s' (obsTO g (.stop2 t v)) := by gb_step
theorem gb_stSeen (s s' : St) (g : Nat → Bool) (t : Nat) (hi : GB s g) (h : step s (.stSeen t) = some s') : GB s' (obsTO g (.stSeen t)) := by gb_step
theorem gb_stAcq (s s' : St) (g : Nat → Bool) (t m : Nat) (hi : GB s g) (h : step s (.stAcq t m) = some s') : GB s' (obsTO g (.stAcq t m)) := by 
  have hm := fun (u : Nat) => okB_mono s.stopReq (s.sstop u) (g u) (s.pc u)
  gb_step
theorem gb_stPush (s s' : St) (g : Nat → Bool) (t : Nat) (b : Bool) (hi : GB s g) (h : step s (.stPush t b) = some s') : GB s' (obsTO g (.stPush t b)) := by gb_step
theorem gb_stDeq (s s' : St) (g : Nat → Bool) (t c : Nat) (b : Bool) (hi : GB s g) (h : step s (.stDeq t c b) = some s') : GB s' (obsTO g (.stDeq t c b)) := by gb_step
theorem gb_stFin (s s' : St) (g : Nat → Bool) (t c : Nat) (b : Bool) (hi : GB s g) (h : step s (.stFin t c b) = some s') : GB s' (obsTO g (.stFin t c b)) := by gb_step
theorem gb_stInFin (s s' : St) (g : Nat → Bool) (t : Nat) (hi : GB s g) (h : step s (.stInFin t) = some s') : GB s' (obsTO g (.stInFin t)) := by gb_step
theorem gb_stUnlink (s s' : St) (g : Nat → Bool) (t : Nat) (b : Bool) (hi : GB s g) (h : step s (.stUnlink t b) = some s') : GB s' (obsTO g (.stUnlink t b)) := by gb_step
theorem gb_stSelf (s s' : St) (g : Nat → Bool) (t : Nat) (b : Bool) (hi : GB s g) (h : step s (.stSelf t b) = some s') : GB s' (obsTO g (.stSelf t b)) := by gb_step
theorem gb_stWaited (s s' : St) (g : Nat → Bool) (t : Nat) (hi : GB s g) (h : step s (.stWaited t) = some s') : GB s' (obsTO g (.stWaited t)) := by gb_step
theorem gb_stRsDone (s s' : St) (g : Nat → Bool) (t : Nat) (hi : GB s g) (h : step s (.stRsDone t) = some s') : GB s' (obsTO g (.stRsDone t)) := by gb_step

theorem gb_step_all (s s' : St) (g : Nat → Bool) (e : Ev) (hi : GB s g) (h : step s e = some s') : GB s' (obsTO g e) := by
  cases e with
  | inv t o => exact gb_inv s s' g t o hi h
  | ret t r => exact gb_ret s s' g t r hi h
  | ulAcq t => exact gb_ulAcq s s' g t hi h
  | ulRel t => exact gb_ulRel s s' g t hi h
  | setFlag t v => exact gb_setFlag s s' g t v hi h
  | pred t v => exact gb_pred s s' g t v hi h
  | slAcq t => exact gb_slAcq s s' g t hi h
  | slRel t => exact gb_slRel s s' g t hi h
  | cvEnq t z b => exact gb_cvEnq s s' g t z b hi h
  | popResume t z q d => exact gb_popResume s s' g t z q d hi h
  | cvNone t => exact gb_cvNone s s' g t hi h
  | cvAll t z => exact gb_cvAll s s' g t z hi h
  | popAll t z q d => exact gb_popAll s s' g t z q d hi h
  | cvWoke t a b => exact gb_cvWoke s s' g t a b hi h
  | suspend t => exact gb_suspend s s' g t hi h
  | woke t => exact gb_woke s s' g t hi h
  | sleep t => exact gb_sleep s s' g t hi h
  | timeout t => exact gb_timeout s s' g t hi h
  | done t => exact gb_done s s' g t hi h
  | stop0 t v => exact gb_stop0 s s' g t v hi h
  | stop1 t v => exact gb_stop1 s s' g t v hi h
  | stop2 t v => exact gb_stop2 s s' g t v hi h
  | stSeen t => exact gb_stSeen s s' g t hi h
  | stAcq t m => exact gb_stAcq s s' g t m hi h
  | stPush t b => exact gb_stPush s s' g t b hi h
  | stDeq t c b => exact gb_stDeq s s' g t c b hi h
  | stFin t c b => exact gb_stFin s s' g t c b hi h
  | stInFin t => exact gb_stInFin s s' g t hi h
  | stUnlink t b => exact gb_stUnlink s s' g t b hi h
  | stSelf t b => exact gb_stSelf s s' g t b hi h
  | stWaited t => exact gb_stWaited s s' g t hi h
  | stRsDone t => exact gb_stRsDone s s' g t hi h

/-- The ghost after a log. -/
def obsLog (g : Nat → Bool) : List Ev → Nat → Bool
  | [] => g
  | e :: es => obsLog (obsTO g e) es

theorem gb_init (n : Nat) (f : Bool) : GB (init n f) (fun _ => false) := by
  intro t h; simp [init] at h

theorem gb_of_runLog (log : List Ev) : ∀ (s s' : St) (g : Nat → Bool), GB s g → runLog step s log = some s' →
    GB s' (obsLog g log) := by
  induction log with
  | nil => intro s s' g hg h; simp at h; subst h; exact hg
  | cons e es ih =>
    intro s s' g hg h
    simp only [runLog] at h
    cases hs : step s e with
    | none => simp [hs] at h
    | some s1 =>
      simp only [hs] at h
      exact ih s1 s' (obsTO g e) (gb_step_all s s1 g e hg hs) h

end PikaVerif.CV
