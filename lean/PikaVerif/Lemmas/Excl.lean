import PikaVerif.Core.Basic
import PikaVerif.Core.Sum
/-! Counting lemma used by the mutual-exclusion theorems: a 0/1-valued weight that is positive
    for at most one thread sums to at most 1. -/
namespace PikaVerif

theorem sumTo_le_one {n : Nat} {f : Nat → Nat} (h1 : ∀ t, f t ≤ 1)
    (hu : ∀ t u, t < n → u < n → 0 < f t → 0 < f u → t = u) : sumTo n f ≤ 1 := by
  induction n with
  | zero => simp
  | succ k ih =>
    simp only [sumTo_succ]
    by_cases hk : f k = 0
    · have := ih (fun t u ht hu' => hu t u (Nat.lt_succ_of_lt ht) (Nat.lt_succ_of_lt hu'))
      omega
    · have hz : sumTo k f = 0 := by
        apply sumTo_eq_zero
        intro t ht
        by_cases hft : f t = 0
        · exact hft
        · have := hu t k (Nat.lt_succ_of_lt ht) (Nat.lt_succ_self k) (by omega) (by omega)
          omega
      have := h1 k
      omega

end PikaVerif
