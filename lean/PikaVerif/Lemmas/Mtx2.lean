import PikaVerif.Lemmas.Mtx
/-! Inductive invariant of the mutex model, part 2: ownership, critical sections, results. -/
namespace PikaVerif.Mtx
open PikaVerif

/-- Program counters at which the task has written `owner_id_ = self` and not yet reported. -/
def ownSt : Pc → Bool
  | .owned _ => true
  | .retn o r => decide (r = .ok) && !decide (o = .unlock)
  | _ => false

/-- Program counters of `unlock`. -/
def inUnlock : Pc → Bool
  | .want o | .locked o | .owned o => decide (o = .unlock)
  | .retn o _ => decide (o = .unlock)
  | .disowned | .notified => true
  | _ => false

/-- Program counters at which a task may be the owner without `holdsG`: it acquired and has
    not reported yet, or it has invoked `unlock` and not yet cleared `owner_id_`. -/
def midOwn : Pc → Bool
  | .owned _ => true
  | .retn o r => decide (r = .ok) && !decide (o = .unlock)
  | .want o | .locked o => decide (o = .unlock)
  | _ => false

/-- What `tookOp` must be at each program counter. -/
def expectTook : Pc → Option Bool
  | .idle | .fin => none
  | .owned _ => some true
  | .retn o r => some (decide (r = .ok) && !decide (o = .unlock))
  | _ => some false

/-- Which operation a program counter belongs to. -/
def pcOpOk : Pc → Op → Bool
  | .want o, c | .locked o, c | .owned o, c | .retn o _, c => decide (o = c)
  | .again _, c | .susp _, c => decide (c = .lock)
  | .sig, c | .slp _, c | .timedOut, c => decide (c = .timed)
  | .enq tm, c | .unl tm _, c | .wokeNL tm _, c | .relk tm _, c =>
    if tm then decide (c = .timed) else decide (c = .lock)
  | .disowned, c | .notified, c => decide (c = .unlock)
  | _, _ => true

/-- Results an operation can report. -/
def resOk : Op → Res → Bool
  | .lock, r => decide (r = .ok) || decide (r = .errDeadlock)
  | .unlock, r => decide (r = .ok) || decide (r = .errLock)
  | _, r => decide (r = .ok) || decide (r = .fail)

def retnOk : Pc → Bool
  | .retn o r => resOk o r
  | .owned o => !decide (o = .unlock)
  | _ => true

/-- Program counters before the operation's first owner test. -/
def atFirst : Pc → Bool
  | .want _ | .locked _ => true
  | _ => false

/-- What `ownedAtInv` must be once the first owner test of `lock` / `unlock` is decided. -/
def expOwned : Pc → Option Bool
  | .again _ | .susp _ => some false
  | .enq tm | .unl tm _ | .wokeNL tm _ | .relk tm _ => if tm then none else some false
  | .owned o => if o = .lock then some false else none
  | .retn o r =>
    if o = .lock then some (decide (r = .errDeadlock))
    else if o = .unlock then some (decide (r = .ok)) else none
  | .disowned | .notified => some true
  | _ => none

/-- Program counters at which the operation has not changed `owner_id_` or the queue. -/
def untouched : Pc → Bool
  | .want _ | .locked _ => true
  | .retn o r => decide (r = .errDeadlock) || decide (r = .errLock) || (decide (o = .tryl) && decide (r = .fail))
  | _ => false

def isDl : Pc → Bool
  | .retn o r => decide (o = .lock) && decide (r = .errDeadlock)
  | _ => false

structure Inv2 (s : St) : Prop where
  lockConv : ∀ r, s.lock = some r → holds (s.pc r) = true ∧ r < s.n
  hold1 : ∀ t, s.holdsG t = true → s.owner = some t
  ownStage : ∀ t, ownSt (s.pc t) = true → s.owner = some t
  unlockStage : ∀ t, inUnlock (s.pc t) = true → s.holdsG t = false
  csHold : ∀ t, s.inCS t = true → s.holdsG t = true
  occSum : s.enters = s.exits + sumTo s.n (fun t => b2n (s.inCS t))
  ownerRev : ∀ u, s.owner = some u → s.holdsG u = true ∨ midOwn (s.pc u) = true
  opOk : ∀ t, pcOpOk (s.pc t) (s.curOp t) = true
  took : ∀ t b, expectTook (s.pc t) = some b → s.tookOp t = b
  resultOk : ∀ t, retnOk (s.pc t) = true
  first : ∀ t, atFirst (s.pc t) = true → s.ownedAtInv t = decide (s.owner = some t)
  owned : ∀ t b, expOwned (s.pc t) = some b → s.ownedAtInv t = b
  untouchedOk : ∀ t, untouched (s.pc t) = true → s.touched t = false
  dlOwner : ∀ t, isDl (s.pc t) = true → s.owner = some t
  outsideCS : ∀ t, s.n ≤ t → s.inCS t = false

theorem inv2_init (n : Nat) : Inv2 (init n) := by
  refine ⟨?_, ?_, ?_, ?_, ?_, ?_, ?_, ?_, ?_, ?_, ?_, ?_, ?_, ?_, ?_⟩ <;>
    simp [init, expectTook, pcOpOk, ownSt, inUnlock, midOwn, retnOk, atFirst, expOwned, untouched, isDl]
  exact (sumTo_eq_zero (fun t _ => rfl)).symm

attribute [local grind] holds expectTook pcOpOk setPopped ownSt inUnlock midOwn resOk retnOk atFirst
  expOwned untouched isDl b2n

set_option hygiene false in
macro "mtx_step2" t:term : tactic => `(tactic| (
  simp only [step] at h
  obtain ⟨h1,h2,h3,h4,h5,h6,h7,h8,h9,h10,h11,h12,h13,h14,h15⟩ := hi
  split at h
  case isFalse => simp at h
  rename_i hg
  have htn : $t < s.n := by grind
  have hle := le_sumTo (f := fun u => b2n (s.inCS u)) htn
  repeat' split at h
  all_goals first | (simp at h; done) | skip
  all_goals (
    simp only [Option.some.injEq] at h
    subst h
    refine ⟨?_, ?_, ?_, ?_, ?_, ?_, ?_, ?_, ?_, ?_, ?_, ?_, ?_, ?_, ?_⟩ <;> dsimp only
  )
  all_goals first
    | assumption
    | (intro u; grind [upd])
    | (rw [sumTo_upd_eq _ _ _ _ _ htn]; grind)
    | grind [upd]))

theorem step_inv2_inv (s s' : St) (t : Nat) (o : Op) (hA : Inv s) (hi : Inv2 s) (h : step s (.inv t o) = some s') : Inv2 s' := by
  have hl := hA.lockHolder; mtx_step2 t
theorem step_inv2_ret (s s' : St) (t : Nat) (r : Res) (hA : Inv s) (hi : Inv2 s) (h : step s (.ret t r) = some s') : Inv2 s' := by
  have hl := hA.lockHolder; mtx_step2 t
theorem step_inv2_slAcq (s s' : St) (t : Nat) (hA : Inv s) (hi : Inv2 s) (h : step s (.slAcq t) = some s') : Inv2 s' := by
  have hl := hA.lockHolder; mtx_step2 t
theorem step_inv2_slRel (s s' : St) (t : Nat) (hA : Inv s) (hi : Inv2 s) (h : step s (.slRel t) = some s') : Inv2 s' := by
  have hl := hA.lockHolder; mtx_step2 t
theorem step_inv2_cvEnq (s s' : St) (t z : Nat) (b : Bool) (hA : Inv s) (hi : Inv2 s) (h : step s (.cvEnq t z b) = some s') : Inv2 s' := by
  have hl := hA.lockHolder; mtx_step2 t
theorem step_inv2_cvNone (s s' : St) (t : Nat) (hA : Inv s) (hi : Inv2 s) (h : step s (.cvNone t) = some s') : Inv2 s' := by
  have hl := hA.lockHolder; mtx_step2 t
theorem step_inv2_cvWoke (s s' : St) (t : Nat) (a b : Bool) (hA : Inv s) (hi : Inv2 s) (h : step s (.cvWoke t a b) = some s') : Inv2 s' := by
  have hl := hA.lockHolder; mtx_step2 t
theorem step_inv2_own (s s' : St) (t k : Nat) (w : Bool) (hA : Inv s) (hi : Inv2 s) (h : step s (.own t k w) = some s') : Inv2 s' := by
  have hl := hA.lockHolder; mtx_step2 t
theorem step_inv2_disown (s s' : St) (t : Nat) (hA : Inv s) (hi : Inv2 s) (h : step s (.disown t) = some s') : Inv2 s' := by
  have hl := hA.lockHolder; mtx_step2 t
theorem step_inv2_suspend (s s' : St) (t : Nat) (hA : Inv s) (hi : Inv2 s) (h : step s (.suspend t) = some s') : Inv2 s' := by
  have hl := hA.lockHolder; mtx_step2 t
theorem step_inv2_woke (s s' : St) (t : Nat) (hA : Inv s) (hi : Inv2 s) (h : step s (.woke t) = some s') : Inv2 s' := by
  have hl := hA.lockHolder; mtx_step2 t
theorem step_inv2_sleep (s s' : St) (t : Nat) (hA : Inv s) (hi : Inv2 s) (h : step s (.sleep t) = some s') : Inv2 s' := by
  have hl := hA.lockHolder; mtx_step2 t
theorem step_inv2_timeout (s s' : St) (t : Nat) (hA : Inv s) (hi : Inv2 s) (h : step s (.timeout t) = some s') : Inv2 s' := by
  have hl := hA.lockHolder; mtx_step2 t
theorem step_inv2_csEnter (s s' : St) (t : Nat) (hA : Inv s) (hi : Inv2 s) (h : step s (.csEnter t) = some s') : Inv2 s' := by
  have hl := hA.lockHolder; mtx_step2 t
theorem step_inv2_csExit (s s' : St) (t : Nat) (hA : Inv s) (hi : Inv2 s) (h : step s (.csExit t) = some s') : Inv2 s' := by
  have hl := hA.lockHolder; mtx_step2 t
theorem step_inv2_done (s s' : St) (t : Nat) (hA : Inv s) (hi : Inv2 s) (h : step s (.done t) = some s') : Inv2 s' := by
  have hl := hA.lockHolder; mtx_step2 t

theorem setPopped_facts {p p' : Pc} (h : setPopped p = some p') :
    holds p' = false ∧ holds p = false ∧ ownSt p' = ownSt p ∧ inUnlock p' = inUnlock p ∧
    midOwn p' = midOwn p ∧ expectTook p' = expectTook p ∧ (∀ c, pcOpOk p' c = pcOpOk p c) ∧
    retnOk p' = true ∧ atFirst p' = false ∧ atFirst p = false ∧ expOwned p' = expOwned p ∧
    untouched p' = false ∧ isDl p' = false := by
  unfold setPopped at h
  split at h <;> simp at h <;> subst h <;>
    simp [holds, ownSt, inUnlock, midOwn, expectTook, pcOpOk, retnOk, atFirst, expOwned, untouched, isDl]

theorem step_inv2_popResume (s s' : St) (t z g : Nat) (d : Bool) (hA : Inv s) (hi : Inv2 s)
    (h : step s (.popResume t z g d) = some s') : Inv2 s' := by
  have hl := hA.lockHolder
  simp only [step] at h
  obtain ⟨h1,h2,h3,h4,h5,h6,h7,h8,h9,h10,h11,h12,h13,h14,h15⟩ := hi
  split at h
  case isFalse => simp at h
  rename_i hg
  split at h
  case h_2 => simp at h
  rename_i g' rest hpc hq
  split at h
  case isFalse => simp at h
  rename_i hsz
  obtain ⟨hsz, hgg⟩ := hsz
  subst hgg
  split at h
  case h_2 => simp at h
  rename_i p' hp'
  obtain ⟨f1, f2, f3, f4, f5, f6, f7, f8, f9, f10, f11, f12, f13⟩ := setPopped_facts hp'
  have hgt : g' ≠ t := by
    intro he; rw [he, hpc] at f2; simp [holds] at f2
  split at h
  case isFalse => simp at h
  simp only [Option.some.injEq] at h
  subst h
  refine ⟨?_, ?_, ?_, ?_, ?_, ?_, ?_, ?_, ?_, ?_, ?_, ?_, ?_, ?_, ?_⟩ <;> dsimp only
  all_goals first
    | assumption
    | (intro u; by_cases hut : u = t <;> by_cases hug : u = g' <;> grind [upd])
    | grind [upd]

theorem step_inv2 (s s' : St) (e : Ev) (hA : Inv s) (hi : Inv2 s) (h : step s e = some s') : Inv2 s' := by
  cases e with
  | inv t o => exact step_inv2_inv s s' t o hA hi h
  | ret t r => exact step_inv2_ret s s' t r hA hi h
  | slAcq t => exact step_inv2_slAcq s s' t hA hi h
  | slRel t => exact step_inv2_slRel s s' t hA hi h
  | cvEnq t z b => exact step_inv2_cvEnq s s' t z b hA hi h
  | popResume t z g d => exact step_inv2_popResume s s' t z g d hA hi h
  | cvNone t => exact step_inv2_cvNone s s' t hA hi h
  | cvWoke t a b => exact step_inv2_cvWoke s s' t a b hA hi h
  | own t k w => exact step_inv2_own s s' t k w hA hi h
  | disown t => exact step_inv2_disown s s' t hA hi h
  | suspend t => exact step_inv2_suspend s s' t hA hi h
  | woke t => exact step_inv2_woke s s' t hA hi h
  | sleep t => exact step_inv2_sleep s s' t hA hi h
  | timeout t => exact step_inv2_timeout s s' t hA hi h
  | csEnter t => exact step_inv2_csEnter s s' t hA hi h
  | csExit t => exact step_inv2_csExit s s' t hA hi h
  | done t => exact step_inv2_done s s' t hA hi h

theorem inv2_of_accepted {n : Nat} {log : List Ev} {s : St}
    (h : runLog step (init n) log = some s) : Inv s ∧ Inv2 s := by
  have : ∀ (log : List Ev) (s0 s : St), Inv s0 ∧ Inv2 s0 → runLog step s0 log = some s → Inv s ∧ Inv2 s := by
    intro log
    induction log with
    | nil => intro s0 s h0 h; simp at h; exact h ▸ h0
    | cons e es ih =>
      intro s0 s h0 h
      simp only [runLog] at h
      cases hs : step s0 e with
      | none => simp [hs] at h
      | some s1 =>
        simp only [hs] at h
        exact ih s1 s ⟨step_inv s0 s1 e h0.1 hs, step_inv2 s0 s1 e h0.1 h0.2 hs⟩ h
  exact this log _ s ⟨inv_init n, inv2_init n⟩ h

end PikaVerif.Mtx
