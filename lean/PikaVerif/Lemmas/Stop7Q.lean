import PikaVerif.Lemmas.Stop7
/-! Follow-up C14p: preservation of layer Q (dequeued callbacks) by every event. -/
namespace PikaVerif.Stop
open PikaVerif
set_option maxHeartbeats 4000000

theorem stepQ_inv (s s' : St) (a : Nat) (k : Kind) (hA : InvA s) (hB : InvB s) (hR : InvR s) (hi : InvQ s) (h : step s (.inv a k) = some s') : InvQ s' := by stopQi
theorem stepQ_ret (s s' : St) (a : Nat) (r : Bool) (hA : InvA s) (hB : InvB s) (hR : InvR s) (hi : InvQ s) (h : step s (.ret a r) = some s') : InvQ s' := by stopQ
theorem stepQ_load (s s' : St) (a : Nat) (lk rq : Bool) (src : Nat) (hA : InvA s) (hB : InvB s) (hR : InvR s) (hi : InvQ s) (h : step s (.load a lk rq src) = some s') : InvQ s' := by stopQ
theorem stepQ_casFail (s s' : St) (a : Nat) (lk rq : Bool) (src : Nat) (hA : InvA s) (hB : InvB s) (hR : InvR s) (hi : InvQ s) (h : step s (.casFail a lk rq src) = some s') : InvQ s' := by stopQ
theorem stepQ_reload (s s' : St) (a : Nat) (lk rq : Bool) (src : Nat) (hA : InvA s) (hB : InvB s) (hR : InvR s) (hi : InvQ s) (h : step s (.reload a lk rq src) = some s') : InvQ s' := by stopQ
theorem stepQ_acq (s s' : St) (a : Nat) (hA : InvA s) (hB : InvB s) (hR : InvR s) (hi : InvQ s) (h : step s (.acq a) = some s') : InvQ s' := by stopQ
theorem stepQ_deq (s s' : St) (a c : Nat) (m : Bool) (hA : InvA s) (hB : InvB s) (hR : InvR s) (hi : InvQ s) (h : step s (.deq a c m) = some s') : InvQ s' := by stopQ
theorem stepQ_rsDone (s s' : St) (a : Nat) (hA : InvA s) (hB : InvB s) (hR : InvR s) (hi : InvQ s) (h : step s (.rsDone a) = some s') : InvQ s' := by stopQ
theorem stepQ_preExec (s s' : St) (a c : Nat) (hA : InvA s) (hB : InvB s) (hR : InvR s) (hi : InvQ s) (h : step s (.preExec a c) = some s') : InvQ s' := by stopQ
theorem stepQ_cbBegin (s s' : St) (a c : Nat) (hA : InvA s) (hB : InvB s) (hR : InvR s) (hi : InvQ s) (h : step s (.cbBegin a c) = some s') : InvQ s' := by stopQ
theorem stepQ_cbEnd (s s' : St) (a c : Nat) (hA : InvA s) (hB : InvB s) (hR : InvR s) (hi : InvQ s) (h : step s (.cbEnd a c) = some s') : InvQ s' := by stopQ
theorem stepQ_finStore (s s' : St) (a c : Nat) (r : Bool) (hA : InvA s) (hB : InvB s) (hR : InvR s) (hi : InvQ s) (h : step s (.finStore a c r) = some s') : InvQ s' := by stopQ
theorem stepQ_inFin (s s' : St) (a c : Nat) (hA : InvA s) (hB : InvB s) (hR : InvR s) (hi : InvQ s) (h : step s (.inFin a c) = some s') : InvQ s' := by stopQ
theorem stepQ_push (s s' : St) (a c : Nat) (b : Bool) (hA : InvA s) (hB : InvB s) (hR : InvR s) (hi : InvQ s) (h : step s (.push a c b) = some s') : InvQ s' := by stopQ
theorem stepQ_unlink (s s' : St) (a c : Nat) (r : Bool) (hA : InvA s) (hB : InvB s) (hR : InvR s) (hi : InvQ s) (h : step s (.unlink a c r) = some s') : InvQ s' := by stopQ
theorem stepQ_selfChk (s s' : St) (a c : Nat) (e p : Bool) (hA : InvA s) (hB : InvB s) (hR : InvR s) (hi : InvQ s) (h : step s (.selfChk a c e p) = some s') : InvQ s' := by stopQ
theorem stepQ_waited (s s' : St) (a c : Nat) (hA : InvA s) (hB : InvB s) (hR : InvR s) (hi : InvQ s) (h : step s (.waited a c) = some s') : InvQ s' := by stopQ
theorem stepQ_srcInc (s s' : St) (a : Nat) (hA : InvA s) (hB : InvB s) (hR : InvR s) (hi : InvQ s) (h : step s (.srcInc a) = some s') : InvQ s' := by stopQ
theorem stepQ_srcDec (s s' : St) (a : Nat) (hA : InvA s) (hB : InvB s) (hR : InvR s) (hi : InvQ s) (h : step s (.srcDec a) = some s') : InvQ s' := by stopQ
theorem stepQ_query (s s' : St) (a : Nat) (x y : Bool) (hA : InvA s) (hB : InvB s) (hR : InvR s) (hi : InvQ s) (h : step s (.query a x y) = some s') : InvQ s' := by stopQ
theorem stepQ_done (s s' : St) (a : Nat) (hA : InvA s) (hB : InvB s) (hR : InvR s) (hi : InvQ s) (h : step s (.done a) = some s') : InvQ s' := by stopQ

end PikaVerif.Stop
