import PikaVerif.Lemmas.MtxT
/-!
# Finite programs over the mutex model (C06t)

A *program* gives every task a finite list of operations (`lock`, `try_lock`, `try_lock_for`,
`unlock`).  `pstep` is the model's `step` restricted to the logs of that program: `inv t o` must
be the next operation of task `t` (which is consumed), `done t` needs the task's list to be empty,
and the harness mark `cs.enter` is allowed once per invoked operation (`cs`: the harness enters
the critical section at most once after a lock-type call; the model itself would let the pair
`cs.enter cs.exit` repeat for ever while the task holds the mutex).  Every other event is passed
to `step` unchanged.  `phi` = `mu` + the potential of the operations not yet started + 2 per unused
`cs` allowance decreases with **every** accepted event, so an accepted log of a program is at most
`bound` long.
-/
namespace PikaVerif.Mtx
open PikaVerif

structure PSt where
  s : St
  prog : Nat → List Op
  /-- task may still mark one critical section (granted by every invocation) -/
  cs : Nat → Bool

def pstep (p : PSt) : Ev → Option PSt
  | .inv t o =>
    match p.prog t with
    | o' :: rest =>
      if o' = o then (step p.s (.inv t o)).map (fun s' => ⟨s', upd p.prog t rest, upd p.cs t true⟩) else none
    | [] => none
  | .done t => if p.prog t = [] then (step p.s (.done t)).map (fun s' => ⟨s', p.prog, p.cs⟩) else none
  | .csEnter t =>
    if p.cs t = true then (step p.s (.csEnter t)).map (fun s' => ⟨s', p.prog, upd p.cs t false⟩) else none
  | .csExit t => (step p.s (.csExit t)).map (fun s' => ⟨s', p.prog, p.cs⟩)
  | .ret t r => (step p.s (.ret t r)).map (fun s' => ⟨s', p.prog, p.cs⟩)
  | .slAcq t => (step p.s (.slAcq t)).map (fun s' => ⟨s', p.prog, p.cs⟩)
  | .slRel t => (step p.s (.slRel t)).map (fun s' => ⟨s', p.prog, p.cs⟩)
  | .cvEnq t z b => (step p.s (.cvEnq t z b)).map (fun s' => ⟨s', p.prog, p.cs⟩)
  | .popResume t z g d => (step p.s (.popResume t z g d)).map (fun s' => ⟨s', p.prog, p.cs⟩)
  | .cvNone t => (step p.s (.cvNone t)).map (fun s' => ⟨s', p.prog, p.cs⟩)
  | .cvWoke t a b => (step p.s (.cvWoke t a b)).map (fun s' => ⟨s', p.prog, p.cs⟩)
  | .own t k w => (step p.s (.own t k w)).map (fun s' => ⟨s', p.prog, p.cs⟩)
  | .disown t => (step p.s (.disown t)).map (fun s' => ⟨s', p.prog, p.cs⟩)
  | .suspend t => (step p.s (.suspend t)).map (fun s' => ⟨s', p.prog, p.cs⟩)
  | .woke t => (step p.s (.woke t)).map (fun s' => ⟨s', p.prog, p.cs⟩)
  | .sleep t => (step p.s (.sleep t)).map (fun s' => ⟨s', p.prog, p.cs⟩)
  | .timeout t => (step p.s (.timeout t)).map (fun s' => ⟨s', p.prog, p.cs⟩)

def pinit (n : Nat) (prog : Nat → List Op) : PSt := ⟨init n, prog, fun _ => false⟩

/-- every accepted program step is an accepted model step -/
theorem pstep_step (p p' : PSt) (e : Ev) (h : pstep p e = some p') : step p.s e = some p'.s := by
  cases e <;> simp only [pstep] at h <;> (repeat' split at h) <;>
    first
    | (simp at h; done)
    | (simp only [Option.map_eq_some_iff] at h; obtain ⟨s', h1, h2⟩ := h; subst h2; simpa using h1)
    | (subst_vars; simp only [Option.map_eq_some_iff] at h; obtain ⟨s', h1, h2⟩ := h; subst h2; simpa using h1)

/-- program and allowance only change at `inv` and `cs.enter` -/
theorem pstep_prog (p p' : PSt) (e : Ev) (hne : ∀ t o, e ≠ .inv t o) (hnc : ∀ t, e ≠ .csEnter t)
    (h : pstep p e = some p') : p'.prog = p.prog ∧ p'.cs = p.cs := by
  cases e <;> simp only [pstep] at h <;> (repeat' split at h) <;>
    first
    | (simp at h; done)
    | (exact absurd rfl (hne _ _))
    | (exact absurd rfl (hnc _))
    | (simp only [Option.map_eq_some_iff] at h; obtain ⟨s', h1, h2⟩ := h; subst h2; exact ⟨rfl, rfl⟩)

theorem pstep_inv (p p' : PSt) (t : Nat) (o : Op) (h : pstep p (.inv t o) = some p') :
    ∃ rest, p.prog t = o :: rest ∧ p'.prog = upd p.prog t rest ∧ p'.cs = upd p.cs t true ∧ t < p.s.n := by
  have hs := pstep_step p p' _ h
  simp only [pstep] at h
  split at h
  · rename_i o' rest hp
    split at h
    · rename_i ho; subst ho
      simp only [Option.map_eq_some_iff] at h; obtain ⟨s', h1, h2⟩ := h; subst h2
      refine ⟨rest, hp, rfl, rfl, ?_⟩
      simp only [step] at h1; split at h1
      · rename_i hg; exact hg.1
      · simp at h1
    · simp at h
  · simp at h

theorem pstep_csEnter (p p' : PSt) (t : Nat) (h : pstep p (.csEnter t) = some p') :
    p.cs t = true ∧ p'.prog = p.prog ∧ p'.cs = upd p.cs t false ∧ t < p.s.n := by
  have hs := pstep_step p p' _ h
  simp only [pstep] at h
  split at h
  · rename_i hc
    simp only [Option.map_eq_some_iff] at h; obtain ⟨s', h1, h2⟩ := h; subst h2
    refine ⟨hc, rfl, rfl, ?_⟩
    simp only [step] at h1; split at h1
    · rename_i hg; exact hg.1
    · simp at h1
  · simp at h

theorem runLog_pstep_step (log : List Ev) : ∀ (p p' : PSt), runLog pstep p log = some p' →
    runLog step p.s log = some p'.s := by
  induction log with
  | nil => intro p p' h; simp at h; subst h; simp
  | cons e es ih =>
    intro p p' h
    simp only [runLog] at h ⊢
    cases hs : pstep p e with
    | none => simp [hs] at h
    | some p1 =>
      simp only [hs] at h
      rw [pstep_step p p1 e hs]
      exact ih p1 p' h

theorem step_n (s s' : St) (e : Ev) (h : step s e = some s') : s'.n = s.n := by
  cases e <;> simp only [step] at h <;> (repeat' split at h) <;>
    first | (simp at h; done) | (simp only [Option.some.injEq] at h; subst h; rfl)

/-- potential of the operations a task has not started yet: the operation itself plus one
    critical-section bracket -/
def progCost : List Op → Nat
  | [] => 0
  | o :: l => opRank o + 3 + progCost l

/-- potential of an unused critical-section allowance -/
def csW (b : Bool) : Nat := if b then 2 else 0

/-- the measure on program states -/
def phi (p : PSt) : Nat :=
  mu p.s + sumTo p.s.n (fun t => progCost (p.prog t)) + sumTo p.s.n (fun t => csW (p.cs t))

/-- **Every accepted event of a program strictly decreases `phi`.** -/
theorem phi_step (p p' : PSt) (e : Ev) (h : pstep p e = some p') : phi p' < phi p := by
  have hs := pstep_step p p' e h
  have hn := step_n _ _ _ hs
  by_cases hinv : ∃ t o, e = .inv t o
  · obtain ⟨t, o, he⟩ := hinv
    subst he
    obtain ⟨rest, hp, hp', hc', htn⟩ := pstep_inv p p' t o h
    have hm := mu_inv _ _ _ _ hs
    simp only [phi, hn, hp', hc']
    have h1 := sumTo_upd p.s.n progCost p.prog t rest htn
    have h2 := sumTo_upd p.s.n csW p.cs t true htn
    rw [hp] at h1
    have e1 : csW true = 2 := rfl
    have e2 : csW (p.cs t) ≤ 2 := by cases p.cs t <;> simp [csW]
    rw [e1] at h2
    simp only [progCost, rank] at h1 hm
    omega
  · have hne : ∀ t o, e ≠ .inv t o := fun t o he => hinv ⟨t, o, he⟩
    by_cases hcs : ∃ t, e = .csEnter t
    · obtain ⟨t, he⟩ := hcs
      subst he
      obtain ⟨hc, hp', hc', htn⟩ := pstep_csEnter p p' t h
      have hm := mu_csEnter _ _ _ hs
      simp only [phi, hn, hp', hc']
      have h2 := sumTo_upd p.s.n csW p.cs t false htn
      have e1 : csW false = 0 := rfl
      have e2 : csW (p.cs t) = 2 := by rw [hc]; rfl
      rw [e1, e2] at h2
      omega
    · have hnc : ∀ t, e ≠ .csEnter t := fun t he => hcs ⟨t, he⟩
      have hm := mu_step _ _ _ hne hnc hs
      obtain ⟨hp, hc⟩ := pstep_prog p p' e hne hnc h
      simp only [phi, hn, hp, hc]
      omega

/-- explicit bound on the number of events of a program with `n` tasks: 1 per task (`done`),
    13 per `lock` / `try_lock` / `try_lock_for`, 14 per `unlock` (each including the two
    critical-section marks the harness may add) -/
def bound (n : Nat) (prog : Nat → List Op) : Nat := n + sumTo n (fun t => progCost (prog t))

theorem phi_pinit (n : Nat) (prog : Nat → List Op) : phi (pinit n prog) = bound n prog := by
  simp only [phi, pinit, mu, init, bound]
  have h1 : sumTo n (fun _ => rank Pc.idle) = n := by
    induction n with
    | zero => rfl
    | succ k ih => simp only [sumTo_succ, ih]; rfl
  have h2 : sumTo n (fun _ => tokW 0) = 0 := sumTo_eq_zero (fun _ _ => rfl)
  have h3 : sumTo n (fun _ => b2n false) = 0 := sumTo_eq_zero (fun _ _ => rfl)
  have h4 : sumTo n (fun _ => csW false) = 0 := sumTo_eq_zero (fun _ _ => rfl)
  rw [h1, h2, h3, h4]; omega

theorem runLog_phi (log : List Ev) : ∀ (p p' : PSt), runLog pstep p log = some p' →
    log.length + phi p' ≤ phi p := by
  induction log with
  | nil => intro p p' h; simp at h; subst h; simp
  | cons e es ih =>
    intro p p' h
    simp only [runLog] at h
    cases hs : pstep p e with
    | none => simp [hs] at h
    | some p1 =>
      simp only [hs] at h
      have h1 := phi_step p p1 e hs
      have h2 := ih p1 p' h
      simp only [List.length_cons]
      omega

/-- no event at all is accepted: the run is maximal -/
def PStuck (p : PSt) : Prop := ∀ e, pstep p e = none

/-- every state of a program can be run to a maximal (stuck) state -/
theorem exists_maximal_from : ∀ (k : Nat) (p : PSt), phi p ≤ k →
    ∃ ext p', runLog pstep p ext = some p' ∧ PStuck p' := by
  intro k
  induction k with
  | zero =>
    intro p hk
    refine ⟨[], p, rfl, ?_⟩
    intro e
    cases he : pstep p e with
    | none => rfl
    | some p1 => have := phi_step p p1 e he; omega
  | succ k ih =>
    intro p hk
    by_cases hst : PStuck p
    · exact ⟨[], p, rfl, hst⟩
    · have : ∃ e, pstep p e ≠ none := Classical.byContradiction (fun hc => hst (fun e =>
        Classical.byContradiction (fun hn => hc ⟨e, hn⟩)))
      obtain ⟨e, he⟩ := this
      cases hp1 : pstep p e with
      | none => exact absurd hp1 he
      | some p1 =>
        have hlt := phi_step p p1 e hp1
        obtain ⟨ext, p', hrun, hstuck⟩ := ih p1 (by omega)
        refine ⟨e :: ext, p', ?_, hstuck⟩
        simp only [runLog, hp1]; exact hrun

/-- a finished task has no operation left -/
def FinOk (p : PSt) : Prop := ∀ t, p.s.pc t = .fin → p.prog t = []

theorem setPopped_not_fin {q q' : Pc} (h : setPopped q = some q') : q' ≠ .fin := by
  unfold setPopped at h
  split at h <;> simp at h <;> subst h <;> simp

/-- only `done` creates a `fin` -/
theorem step_fin (s s' : St) (e : Ev) (hs : step s e = some s') (hd : ∀ t, e ≠ .done t) :
    ∀ u, s'.pc u = .fin → s.pc u = .fin := by
  intro u
  cases e
  case done t => exact absurd rfl (hd t)
  case popResume t z g d =>
    simp only [step] at hs
    (repeat' split at hs) <;> first | (simp at hs; done) | skip
    all_goals (
      have hsp := ‹setPopped _ = some _›
      simp only [Option.some.injEq] at hs; subst hs; simp only [upd]; intro hu
      (repeat' split at hu)
      · simp at hu
      · exact absurd hu (setPopped_not_fin hsp)
      · exact hu)
  all_goals
    simp only [step] at hs <;> (repeat' split at hs) <;>
      first
      | (simp at hs; done)
      | (simp only [Option.some.injEq] at hs; subst hs; simp only [upd]; intro hu
         (repeat' split at hu) <;>
           first
           | exact hu
           | (simp at hu; done))

end PikaVerif.Mtx
