import PikaVerif.Lemmas.Stop4E
import PikaVerif.Lemmas.Stop2C
import PikaVerif.Lemmas.Stop2D
/-!
# Fourth invariant of the stop_state model: destructor versus running callback

Follow-up C14p, layer D (on top of A, B, S and faithful thread identities):
* `pend` — a callback that was dequeued by request_stop and has not been entered yet is not
  destroyed, and its destructor is not past its last access;
* `winNoFin` — while request_stop processes `c` the finished flag of `c` is not set;
* `waitOther` — an activity waiting in `remove_callback` is not on the signalling thread;
* `sameThr` (structure `InvT`) — if the destructor of `c` returns (or is about to) while
  request_stop still processes `c`, the destructor runs on the thread of that request_stop.
-/
namespace PikaVerif.Stop
open PikaVerif

structure InvD (s : St) : Prop where
  pend : ∀ c, s.deqd c = true → s.runs c = 0 → s.life c ≠ .dead
  pendR : ∀ b c, retUnreg (s.pc b) = some c → s.deqd c = true → s.runs c ≠ 0
  winNoFin : ∀ w c, winPhase (s.pc w) = some c → s.fin c = false
  waitOther : ∀ b c, s.pc b = .wait c → s.sig ≠ s.ident b

structure InvT (s : St) : Prop where
  sameThrR : ∀ w b c, winPhase (s.pc w) = some c → retUnreg (s.pc b) = some c → thr s.K b = thr s.K w
  sameThrD : ∀ w c, winPhase (s.pc w) = some c → s.life c = .dead → thr s.K (s.dtorBy c) = thr s.K w

theorem invD_init (n K : Nat) (id : Nat → Nat) (f1 f2 : Bool) (m : Nat) : InvD (init n K id f1 f2 m) := by
  refine ⟨?_, ?_, ?_, ?_⟩ <;> simp [init, winPhase, retUnreg]

theorem invT_init (n K : Nat) (id : Nat → Nat) (f1 f2 : Bool) (m : Nat) : InvT (init n K id f1 f2 m) := by
  refine ⟨?_, ?_⟩ <;> simp [init, winPhase]

/-- two active activities outside a callback body with the same identity are the same activity -/
theorem keyW {s : St} (hS : InvS s) (hf : Faith s) :
    ∀ a b, act (s.pc a) = true → isBody (s.pc a) = false → act (s.pc b) = true → isBody (s.pc b) = false →
      s.ident a = s.ident b → a = b := by
  intro a b ha hba hb hbb hid
  exact hS.top hf.1 a b ((hf.2 a b).1 hid) ha hb hba hbb

/-- an activity outside a callback body that has the signalling thread's identity while a
    dequeued callback has not been entered yet is the request_stop that dequeued it -/
theorem keyP {s : St} (hA : InvA s) (hB : InvB s) (hS : InvS s) (hf : Faith s) :
    ∀ a c, act (s.pc a) = true → isBody (s.pc a) = false → s.sig = s.ident a →
      s.deqd c = true → s.runs c = 0 → a = s.owner c := by
  intro a c ha hba hsig hd hr
  have hw := hB.deqWinner c hd
  have hs := hS.sigW _ hw
  have hp := hB.deqRuns c hd hr
  apply keyW hS hf a (s.owner c) ha hba
  · rcases hp with hp | hp <;> simp [hp, act]
  · rcases hp with hp | hp <;> simp [hp, isBody]
  · rw [← hsig, hs]

/-- the signalling thread's identity belongs to the winner's thread -/
theorem keyS {s : St} (hS : InvS s) (hf : Faith s) :
    ∀ a w, s.sig = s.ident a → s.winner = some w → thr s.K a = thr s.K w := by
  intro a w hsig hw
  have hs := hS.sigW _ hw
  exact (hf.2 a w).1 (by rw [← hsig, hs])

theorem retUnreg_unregDone {p : Pc} {c : Nat} (h : retUnreg p = some c) : unregDone p = some c := by
  cases p with
  | retn k r => cases k <;> simp_all [retUnreg, unregDone]
  | _ => simp [retUnreg] at h

theorem unregDone_unregOf {p : Pc} {c : Nat} (h : unregDone p = some c) : unregOf p = some c := by
  cases p with
  | retn k r => cases k <;> simp_all [unregOf, unregDone]
  | chk c => simp_all [unregOf, unregDone]
  | wait c => simp_all [unregOf, unregDone]
  | _ => simp [unregDone] at h

attribute [grind →] retUnreg_unregDone unregDone_unregOf

attribute [local grind] isBody holds

set_option maxHeartbeats 4000000

set_option hygiene false in
macro "stopD" : tactic => `(tactic| (
  have hWW := hA.winPhaseWinner
  have b1 := hB.inList
  have b2 := hB.deqPushed
  have b3 := hB.regP
  have b4 := hB.winP
  have b7 := hB.unregOut
  have b9 := hB.deqRuns
  have b11 := hB.finRuns
  have b12 := hB.keptP
  clear hB hS hA hf
  simp only [step] at h
  obtain ⟨h1,h2,h3,h4⟩ := hi
  split at h
  case isFalse => simp at h
  rename_i hg
  repeat' split at h
  all_goals first | (simp at h; done) | skip
  all_goals try cases ‹Kind›
  all_goals (
    simp only [Option.some.injEq] at h
    subst h
    refine ⟨?_,?_,?_,?_⟩ <;> try dsimp only
  )
  all_goals first
    | assumption
    | (intro u; grind (instances := 8000) [upd])
    | grind (instances := 8000) [upd, mem_of_mem_erase', mem_erase_ne, not_mem_erase_self]))

set_option hygiene false in
macro "stopDi" : tactic => `(tactic| (
  have hWW := hA.winPhaseWinner
  have b1 := hB.inList
  have b2 := hB.deqPushed
  have b3 := hB.regP
  have b4 := hB.winP
  have b7 := hB.unregOut
  have b9 := hB.deqRuns
  have b11 := hB.finRuns
  have b12 := hB.keptP
  clear hB hS hA hf
  simp only [step] at h
  obtain ⟨h1,h2,h3,h4⟩ := hi
  split at h
  case isFalse => simp at h
  rename_i hg
  replace hg := And.intro hg.1 hg.2.1
  repeat' split at h
  all_goals first | (simp at h; done) | skip
  all_goals try cases ‹Kind›
  all_goals (
    simp only [Option.some.injEq] at h
    subst h
    refine ⟨?_,?_,?_,?_⟩ <;> try dsimp only
  )
  all_goals first
    | assumption
    | (intro u; grind (instances := 8000) [upd])
    | grind (instances := 8000) [upd, mem_of_mem_erase', mem_erase_ne, not_mem_erase_self]))

set_option hygiene false in
macro "stopT" : tactic => `(tactic| (
  have hWW := hA.winPhaseWinner
  have b1 := hB.inList
  have b2 := hB.deqPushed
  have b4 := hB.winP
  have b7 := hB.unregOut
  have b8 := hB.dtorP
  have b12 := hB.keptP
  have d2 := hD.winNoFin
  clear hB hS hA hf hD
  simp only [step] at h
  obtain ⟨h1,h2⟩ := hi
  split at h
  case isFalse => simp at h
  rename_i hg
  repeat' split at h
  all_goals first | (simp at h; done) | skip
  all_goals try cases ‹Kind›
  all_goals (
    simp only [Option.some.injEq] at h
    subst h
    refine ⟨?_,?_⟩ <;> try dsimp only
  )
  all_goals first
    | assumption
    | (intro u; grind (instances := 8000) [upd])
    | grind (instances := 8000) [upd, mem_of_mem_erase', mem_erase_ne, not_mem_erase_self]))

set_option hygiene false in
macro "stopTi" : tactic => `(tactic| (
  have hWW := hA.winPhaseWinner
  have b1 := hB.inList
  have b2 := hB.deqPushed
  have b4 := hB.winP
  have b7 := hB.unregOut
  have b8 := hB.dtorP
  have b12 := hB.keptP
  have d2 := hD.winNoFin
  clear hB hS hA hf hD
  simp only [step] at h
  obtain ⟨h1,h2⟩ := hi
  split at h
  case isFalse => simp at h
  rename_i hg
  replace hg := And.intro hg.1 hg.2.1
  repeat' split at h
  all_goals first | (simp at h; done) | skip
  all_goals try cases ‹Kind›
  all_goals (
    simp only [Option.some.injEq] at h
    subst h
    refine ⟨?_,?_⟩ <;> try dsimp only
  )
  all_goals first
    | assumption
    | (intro u; grind (instances := 8000) [upd])
    | grind (instances := 8000) [upd, mem_of_mem_erase', mem_erase_ne, not_mem_erase_self]))

end PikaVerif.Stop
