import PikaVerif.Lemmas.Sem2
/-!
# Termination measure of the semaphore model (C08t)

The model `PikaVerif.Sem` has **no stutter**: a failed attempt to take the internal spinlock
is not an event of the model (`slAcq` is only accepted when the lock is free; the hook points
`sl.lock` / `ag.yield` of a spinning thread are dropped by the driver before the acceptor), so
every accepted event is a real move of some thread.  This file defines a natural-number measure
`mu` on model states that strictly decreases with every accepted event other than the start of a
new operation (`inv`), and a program layer (`PSt`, `pstep`: every thread owns a finite list of
operations) on which the combined measure `phi` decreases with *every* accepted event.  Hence the
length of any accepted log of a finite program is bounded by `phi` of the initial state
(`bound`), an explicit linear function of the program.

Potential argument: a waiter's loop iteration (`locked → enq → unl → susp → wokeNL → relk →
locked`) is paid for by the wake-up token (`tok`, worth `6`) or, for a timed waiter whose resume
was dropped by the agent, by the `popped` flag (worth `6`); both are created only by the
`popResume` of a releaser, whose loop iteration `i` of `n` holds `15 * (n - i)` in reserve.
-/
namespace PikaVerif.Sem
open PikaVerif

/-- potential of one operation not yet started (= rank of `want o` + 0) -/
def opRank : Op → Nat
  | .rel k => 15 * k + 8
  | _ => 10

/-- rank of a program counter -/
def rank : Pc → Nat
  | .fin => 0
  | .idle => 1
  | .retn _ => 2
  | .taken => 3
  | .failing => 3
  | .relFin => 3
  | .want o => opRank o + 1
  | .locked o _ => opRank o
  | .enq _ => 9
  | .unl _ p => 8 + 6 * b2n p
  | .susp p => 7 + 6 * b2n p
  | .slp p => 7 + 6 * b2n p
  | .wokeNL tm p => 12 - 6 * b2n tm + 6 * b2n p
  | .relk tm p => 11 - 6 * b2n tm + 6 * b2n p
  | .relL i n => 15 * (n - i) + 5
  | .relNL i n => 15 * (n - i) + 6
  | .relRes i n _ => 15 * (n - i - 1) + 7

/-- value of a wake-up token -/
def tokW (k : Nat) : Nat := 6 * k

/-- the measure on model states -/
def mu (s : St) : Nat := sumTo s.n (fun t => rank (s.pc t)) + sumTo s.n (fun t => tokW (s.tok t))

/-- the signal loop of `release` is only at its head with iterations left -/
def RelOk (s : St) : Prop := ∀ t i n, s.pc t = .relL i n → i < n

theorem relOk_init (n : Nat) (v : Int) : RelOk (init n v) := by
  intro t i m h; simp [init] at h

theorem setPopped_not_relL {p p' : Pc} (h : setPopped p = some p') : ∀ i n, p' ≠ .relL i n := by
  unfold setPopped at h
  split at h <;> simp at h <;> subst h <;> simp

theorem relOk_step (s s' : St) (e : Ev) (hr : RelOk s) (h : step s e = some s') : RelOk s' := by
  cases e
  case popResume t z g d =>
    simp only [step] at h
    (repeat' split at h) <;> first | (simp at h; done) | skip
    all_goals (
      rename_i hsp _ _
      simp only [Option.some.injEq] at h; subst h; intro u i m hu
      simp only [upd] at hu
      (repeat' split at hu)
      · simp at hu
      · exact absurd hu (setPopped_not_relL hsp i m)
      · exact hr u i m hu)
  all_goals
    simp only [step] at h <;> (repeat' split at h) <;>
    first
    | (simp at h; done)
    | (simp only [Option.some.injEq] at h; subst h; intro u i m hu
       simp only [upd] at hu
       (repeat' split at hu) <;>
         first
         | (exact hr u i m hu)
         | (simp at hu; done)
         | (simp at hu; omega))

attribute [local grind] rank opRank b2n tokW setPopped

set_option hygiene false in
macro "mu_step" t:term : tactic => `(tactic| (
  simp only [step] at h
  split at h
  case isFalse => simp at h
  rename_i hg
  have htn : $t < s.n := by grind
  have hle := le_sumTo (f := fun u => rank (s.pc u)) htn
  have hle2 := le_sumTo (f := fun u => tokW (s.tok u)) htn
  repeat' split at h
  all_goals first | (simp at h; done) | skip
  all_goals (
    simp only [Option.some.injEq] at h
    subst h
    simp only [mu]
    try rw [sumTo_upd_eq _ rank _ _ _ htn]
    try rw [sumTo_upd_eq _ tokW _ _ _ htn]
    grind)))

theorem mu_slAcq (s s' : St) (t : Nat) (h : step s (.slAcq t) = some s') : mu s' < mu s := by mu_step t
theorem mu_ret (s s' : St) (t : Nat) (r : Bool) (h : step s (.ret t r) = some s') : mu s' < mu s := by mu_step t
theorem mu_slRel (s s' : St) (t : Nat) (h : step s (.slRel t) = some s') : mu s' < mu s := by mu_step t
theorem mu_cvEnq (s s' : St) (t z : Nat) (b : Bool) (h : step s (.cvEnq t z b) = some s') : mu s' < mu s := by mu_step t
theorem mu_cvNone (s s' : St) (t : Nat) (hr : RelOk s) (h : step s (.cvNone t) = some s') : mu s' < mu s := by
  have hrt := hr t
  mu_step t
theorem mu_cvWoke (s s' : St) (t : Nat) (a b : Bool) (h : step s (.cvWoke t a b) = some s') : mu s' < mu s := by mu_step t
theorem mu_take (s s' : St) (t : Nat) (v : Int) (h : step s (.take t v) = some s') : mu s' < mu s := by mu_step t
theorem mu_add (s s' : St) (t : Nat) (v : Int) (c : Nat) (h : step s (.add t v c) = some s') : mu s' < mu s := by mu_step t
theorem mu_suspend (s s' : St) (t : Nat) (h : step s (.suspend t) = some s') : mu s' < mu s := by mu_step t
theorem mu_woke (s s' : St) (t : Nat) (h : step s (.woke t) = some s') : mu s' < mu s := by mu_step t
theorem mu_sleep (s s' : St) (t : Nat) (h : step s (.sleep t) = some s') : mu s' < mu s := by mu_step t
theorem mu_timeout (s s' : St) (t : Nat) (h : step s (.timeout t) = some s') : mu s' < mu s := by mu_step t
theorem mu_done (s s' : St) (t : Nat) (h : step s (.done t) = some s') : mu s' < mu s := by mu_step t

theorem mu_inv (s s' : St) (t : Nat) (o : Op) (h : step s (.inv t o) = some s') :
    mu s' + 1 = mu s + rank (.want o) := by
  simp only [step] at h
  split at h
  case isFalse => simp at h
  rename_i hg
  have htn : t < s.n := hg.1
  have hle := le_sumTo (f := fun u => rank (s.pc u)) htn
  simp only [Option.some.injEq] at h
  subst h
  simp only [mu]
  rw [sumTo_upd_eq _ rank _ _ _ htn]
  grind

theorem setPopped_rank {p p' : Pc} (h : setPopped p = some p') :
    rank p' = rank p + 6 ∧ ∀ i n, p ≠ .relL i n := by
  unfold setPopped at h
  split at h <;> simp at h <;> subst h <;> simp [rank, b2n] <;> omega

theorem mu_popResume (s s' : St) (t z g : Nat) (d : Bool) (hr : RelOk s)
    (h : step s (.popResume t z g d) = some s') : mu s' < mu s := by
  simp only [step] at h
  split at h
  case isFalse => simp at h
  rename_i hg
  have htn : t < s.n := hg.1
  split at h
  case h_2 => simp at h
  rename_i i n g' rest hpc hq
  split at h
  case isFalse => simp at h
  split at h
  case h_2 => simp at h
  rename_i p' hp'
  obtain ⟨hrk, hnr⟩ := setPopped_rank hp'
  have hin := hr t i n hpc
  have hgt : t ≠ g := by intro he; rw [← he, hpc] at hnr; exact hnr i n rfl
  split at h
  case isFalse => simp at h
  simp only [Option.some.injEq] at h
  subst h
  have hw2 := sumTo_upd s.n rank (upd s.pc g p') t (.relRes i n (decide (rest ≠ []))) htn
  rw [upd_other _ _ _ _ hgt, hpc] at hw2
  have e1 : rank (Pc.relL i n) = 15 * (n - i) + 5 := rfl
  have e2 : rank (Pc.relRes i n (decide (rest ≠ []))) = 15 * (n - i - 1) + 7 := rfl
  rw [e1, e2] at hw2
  simp only [mu]
  by_cases hgn : g < s.n
  · have hw1 := sumTo_upd s.n rank s.pc g p' hgn
    have hw3 := sumTo_upd s.n tokW s.tok g (s.tok g + 1) hgn
    have e3 : tokW (s.tok g + 1) = tokW (s.tok g) + 6 := by simp [tokW]; omega
    rw [e3] at hw3
    split <;> omega
  · have hw1 := sumTo_upd_ge s.n rank s.pc g p' (by omega)
    have hw3 := sumTo_upd_ge s.n tokW s.tok g (s.tok g + 1) (by omega)
    split <;> omega

/-- **The measure strictly decreases with every accepted event that is not the start of a new
    operation.** -/
theorem mu_step (s s' : St) (e : Ev) (hr : RelOk s) (hne : ∀ t o, e ≠ .inv t o)
    (h : step s e = some s') : mu s' < mu s := by
  cases e with
  | inv t o => exact absurd rfl (hne t o)
  | ret t r => exact mu_ret s s' t r h
  | slAcq t => exact mu_slAcq s s' t h
  | slRel t => exact mu_slRel s s' t h
  | cvEnq t z b => exact mu_cvEnq s s' t z b h
  | popResume t z g d => exact mu_popResume s s' t z g d hr h
  | cvNone t => exact mu_cvNone s s' t hr h
  | cvWoke t a b => exact mu_cvWoke s s' t a b h
  | take t v => exact mu_take s s' t v h
  | add t v c => exact mu_add s s' t v c h
  | suspend t => exact mu_suspend s s' t h
  | woke t => exact mu_woke s s' t h
  | sleep t => exact mu_sleep s s' t h
  | timeout t => exact mu_timeout s s' t h
  | done t => exact mu_done s s' t h

end PikaVerif.Sem
