import PikaVerif.Lemmas.BarrierU3
/-!
# Lock-step invariant of `arrive_and_wait` programs over the coarse barrier model (C09u)

`N` threads on a barrier with expected count `N`; the program of every thread is a list of
`arrive_and_wait`s of length at most `P`.  `av P p t` = number of operations thread `t` has
already invoked.  Invariant: every thread is in its phase `ph` or `ph + 1` operation, and the
remaining count of the phase is exactly the number of threads that have not yet invoked their
arrival of the phase.
-/
namespace PikaVerif.Barrier
open PikaVerif

def av (P : Nat) (prog : Nat → List Op) (t : Nat) : Nat := P - (prog t).length

/-- what the program counter says about the thread's position `a` (operations invoked) -/
def PcU (ph a tokIdx : Nat) (aw : Bool) : Pc → Prop
  | .idle | .fin | .retn => a = ph
  | .want u | .arr u => u = 1 ∧ aw = true ∧ a = ph + 1
  | .try u _ _ _ | .try2 u _ _ _ | .won u _ | .pub u _ => u = 0 ∧ aw = true ∧ a = ph + 1
  | .polling => a = tokIdx + 1
  | .wantDrop => False

structure InvU (N P : Nat) (s : St) (prog : Nat → List Op) : Prop where
  n_eq : s.n = N
  exp : s.expected = N ∧ s.adj = 0
  lists : ∀ t, t < N → (∀ o, o ∈ prog t → o = .aw) ∧ (prog t).length ≤ P
  lo : ∀ t, t < N → s.ph ≤ av P prog t
  cnt : s.count + sumTo N (fun t => av P prog t - s.ph) = N
  pcs : ∀ t, t < N → PcU s.ph (av P prog t) (s.tokIdx t) (s.aw t) (s.pc t)

attribute [local grind] PcU afterCall

set_option hygiene false in
macro "barU_step" t:term : tactic => `(tactic| (
  obtain ⟨h1, h2, h3, h4, h5, h6⟩ := hi
  have hp1 := hb.tokPhase $t
  have hp2 := hb.tokIdxOk $t
  have hp3 := hb.phaseEq
  simp only [step] at h
  repeat' split at h
  all_goals first | (simp at h; done) | skip
  all_goals (
    simp only [Option.some.injEq] at h
    subst h
    have h6t := h6 $t
    refine ⟨h1, ?_, h3, h4, h5, ?_⟩ <;> dsimp only
    · first | exact h2 | grind
    · intro u hu
      have h6u := h6 u hu
      by_cases hut : u = $t
      · subst hut; simp only [upd_same]; simp only [inArr] at hp1; grind
      · simp only [upd_other _ _ _ _ hut]; first | exact h6u | grind [upd])))

theorem stepU_adj (N P : Nat) (s s' : St) (prog : Nat → List Op) (t : Nat) (hb : InvB s) (hi : InvU N P s prog)
    (h : step s (.adj t) = some s') : InvU N P s' prog := by barU_step t
theorem stepU_load (N P : Nat) (s s' : St) (prog : Nat → List Op) (t a b : Nat) (hb : InvB s) (hi : InvU N P s prog)
    (h : step s (.load t a b) = some s') : InvU N P s' prog := by barU_step t
theorem stepU_start (N P : Nat) (s s' : St) (prog : Nat → List Op) (t a : Nat) (hb : InvB s) (hi : InvU N P s prog)
    (h : step s (.start t a) = some s') : InvU N P s' prog := by barU_step t
theorem stepU_cas (N P : Nat) (s s' : St) (prog : Nat → List Op) (t a b : Nat) (o : Out) (hb : InvB s) (hi : InvU N P s prog)
    (h : step s (.cas t a b o) = some s') : InvU N P s' prog := by barU_step t
theorem stepU_cas2 (N P : Nat) (s s' : St) (prog : Nat → List Op) (t a b : Nat) (o : Out) (hb : InvB s) (hi : InvU N P s prog)
    (h : step s (.cas2 t a b o) = some s') : InvU N P s' prog := by barU_step t
theorem stepU_last (N P : Nat) (s s' : St) (prog : Nat → List Op) (t a b : Nat) (hb : InvB s) (hi : InvU N P s prog)
    (h : step s (.last t a b) = some s') : InvU N P s' prog := by barU_step t
theorem stepU_compl (N P : Nat) (s s' : St) (prog : Nat → List Op) (t : Nat) (hb : InvB s) (hi : InvU N P s prog)
    (h : step s (.compl t) = some s') : InvU N P s' prog := by barU_step t
theorem stepU_ret (N P : Nat) (s s' : St) (prog : Nat → List Op) (t : Nat) (hb : InvB s) (hi : InvU N P s prog)
    (h : step s (.ret t) = some s') : InvU N P s' prog := by barU_step t
theorem stepU_done (N P : Nat) (s s' : St) (prog : Nat → List Op) (t : Nat) (hb : InvB s) (hi : InvU N P s prog)
    (h : step s (.done t) = some s') : InvU N P s' prog := by barU_step t

theorem stepU_poll (N P : Nat) (s s' : St) (prog : Nat → List Op) (t a b : Nat) (hb : InvB s) (hi : InvU N P s prog)
    (h : step s (.poll t a b) = some s') : InvU N P s' prog := by
  have hlo := hi.lo t
  have hn := hi.n_eq
  barU_step t

theorem PcU_le {ph a ti : Nat} {aw : Bool} {pc : Pc} (h : PcU ph a ti aw pc) (hti : ti ≤ ph) : a ≤ ph + 1 := by
  cases pc <;> simp [PcU] at h <;> omega

theorem stepU_inv (N P : Nat) (s s' : St) (prog : Nat → List Op) (t : Nat) (o : Op) (rest : List Op)
    (hi : InvU N P s prog) (hp : prog t = o :: rest)
    (h : step s (.inv t o) = some s') : InvU N P s' (upd prog t rest) := by
  obtain ⟨h1, h2, h3, h4, h5, h6⟩ := hi
  simp only [step] at h
  split at h
  case isFalse => simp at h
  rename_i hg
  have ht : t < N := by omega
  have ho : o = .aw := (h3 t ht).1 o (by rw [hp]; simp)
  subst ho
  have hlen := (h3 t ht).2
  rw [hp] at hlen; simp only [List.length_cons] at hlen
  have h6t := h6 t ht
  rw [hg.2] at h6t; simp only [PcU] at h6t
  have hav : av P (upd prog t rest) t = av P prog t + 1 := by
    simp only [av, upd_same, hp, List.length_cons]; omega
  have havo : ∀ u, u ≠ t → av P (upd prog t rest) u = av P prog u := by
    intro u hu; simp only [av, upd_other _ _ _ _ hu]
  have hsum := sumTo_upd N (fun l => P - l.length - s.ph) prog t rest ht
  simp only [hp, List.length_cons] at hsum
  have hw0 : P - (rest.length + 1) - s.ph = 0 := by
    simp only [av, hp, List.length_cons] at h6t; omega
  have hw1 : P - rest.length - s.ph = 1 := by
    simp only [av, hp, List.length_cons] at h6t; omega
  simp only [av] at h5
  dsimp only at h
  split at h
  case isFalse => simp at h
  rename_i hc
  simp only [Option.some.injEq] at h
  subst h
  refine ⟨h1, h2, ?_, ?_, ?_, ?_⟩ <;> try dsimp only
  · intro u hu
    by_cases hut : u = t
    · subst hut; simp only [upd_same]
      refine ⟨fun o ho => (h3 u hu).1 o (by rw [hp]; simp [ho]), by omega⟩
    · simp only [upd_other _ _ _ _ hut]; exact h3 u hu
  · intro u hu
    by_cases hut : u = t
    · subst hut; rw [hav]; omega
    · rw [havo u hut]; exact h4 u hu
  · simp only [av]; omega
  · intro u hu
    by_cases hut : u = t
    · subst hut; rw [hav]; simp only [upd_same, PcU]; exact ⟨trivial, trivial, by omega⟩
    · rw [havo u hut]; simp only [upd_other _ _ _ _ hut]; exact h6 u hu

theorem stepU_publish (N P : Nat) (s s' : St) (prog : Nat → List Op) (t a b : Nat) (hb : InvB s)
    (hi : InvU N P s prog) (h : step s (.publish t a b) = some s') : InvU N P s' prog := by
  obtain ⟨h1, h2, h3, h4, h5, h6⟩ := hi
  simp only [step] at h
  split at h
  case isFalse => simp at h
  rename_i hg
  have ht : t < N := by omega
  split at h
  case h_2 => simp at h
  rename_i u r hpc
  have hw : s.win = some t := hb.winOk t (by simp [isWin, isPub, hpc])
  obtain ⟨hrem, hinr, hcnt, _, _⟩ := win_some_facts hb t hw
  have h6t := h6 t ht
  rw [hpc] at h6t; simp only [PcU] at h6t
  obtain ⟨hu0, hawt, hat⟩ := h6t
  have htp := hb.tokPhase t (by simp [inArr, hpc])
  have hle1 : ∀ c, c < N → av P prog c - s.ph ≤ 1 := by
    intro c hc
    have := PcU_le (h6 c hc) (hb.tokIdxOk c).2
    omega
  have hall := all_one_of_sumTo_eq hle1 (by omega)
  simp only [Option.some.injEq] at h
  subst h
  refine ⟨h1, h2, h3, ?_, ?_, ?_⟩ <;> try dsimp only
  · intro c hc; have := hall c hc; omega
  · have : sumTo N (fun c => av P prog c - (s.ph + 1)) = 0 :=
      sumTo_eq_zero (fun c hc => by have := hall c hc; omega)
    rw [this]; omega
  · intro c hc
    have hac := hall c hc
    have hac' : av P prog c = s.ph + 1 := by omega
    by_cases hct : c = t
    · subst hct; simp only [upd_same, hu0, hawt, afterCall, if_true, PcU]; omega
    · simp only [upd_other _ _ _ _ hct]
      have h6c := h6 c hc
      have hr := hrem c (by omega)
      have hk := fun k => hinr c k (by omega) hct
      rw [hac'] at h6c ⊢
      cases hpcc : s.pc c <;> rw [hpcc] at h6c hr hk <;> simp only [PcU, rem, inR] at h6c hr hk ⊢
      all_goals first
        | omega
        | exact h6c
        | (exfalso; rename_i r'; have := hk r'; simp at this; done)
        | (exfalso; rename_i r' _; have := hk r'; simp at this; done)
        | (exfalso; rename_i _ r' _; have := hk r'; simp at this; done)

end PikaVerif.Barrier
