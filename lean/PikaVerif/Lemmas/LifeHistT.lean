import PikaVerif.Lemmas.LifeHist
/-! Termination measure of life-cycle histories (C05t): `phi` strictly decreases with every accepted
    non-neutral event and is unchanged by neutral ones. -/
namespace PikaVerif.Life
open PikaVerif

set_option hygiene false in
macro "hist_open" : tactic => `(tactic| (
  obtain ⟨s', l, h1, h2, h3⟩ := hstep_some _ _ _ hs
  subst h3
  simp only [step] at h1
  simp only [led] at h2
  repeat' split at h1
  all_goals first | (simp at h1; done) | skip
  all_goals (simp only [Option.some.injEq] at h1; subst h1)
  all_goals (repeat' split at h2)
  all_goals first | (simp at h2; done) | skip
  all_goals (simp only [Option.some.injEq] at h2; subst h2)))

theorem phi_inc (h h' : HSt) (a n : Nat) (hs : hstep h (.inc a n) = some h') : phi h' < phi h := by
  hist_open
  all_goals (simp_all [phi, objPot, scost, cpcRank, spcRank]; try omega)

theorem phi_dec (h h' : HSt) (a n : Nat) (hs : hstep h (.dec a n) = some h') : phi h' < phi h := by
  hist_open
  all_goals (simp_all [phi, objPot, scost, cpcRank, spcRank]; try omega)

theorem phi_stage (h h' : HSt) (a : Nat) (hs : hstep h (.stage a) = some h') : phi h' < phi h := by
  hist_open
  all_goals (simp_all [phi, objPot, scost, cpcRank, spcRank]; try omega)

theorem phi_unstage (h h' : HSt) (a : Nat) (hs : hstep h (.unstage a) = some h') : phi h' < phi h := by
  hist_open
  all_goals (simp_all [phi, objPot, scost, cpcRank, spcRank]; try omega)

theorem phi_fin (h h' : HSt) (a : Nat) (hs : hstep h (.fin a) = some h') : phi h' < phi h := by
  hist_open
  all_goals (simp_all [phi, objPot, scost, cpcRank, spcRank]; try omega)

theorem phi_stopEnter (h h' : HSt) (a : Nat) (hs : hstep h (.stopEnter a) = some h') : phi h' < phi h := by
  hist_open
  all_goals (simp_all [phi, objPot, scost, cpcRank, spcRank]; try omega)

theorem phi_waitFin (h h' : HSt) (a : Nat) (hs : hstep h (.waitFin a) = some h') : phi h' < phi h := by
  hist_open
  all_goals (simp_all [phi, objPot, scost, cpcRank, spcRank]; try omega)

theorem phi_waited (h h' : HSt) (a r : Nat) (hs : hstep h (.waited a r) = some h') : phi h' < phi h := by
  hist_open
  all_goals (simp_all [phi, objPot, scost, cpcRank, spcRank]; try omega)

theorem phi_stopExit (h h' : HSt) (a r : Nat) (hs : hstep h (.stopExit a r) = some h') : phi h' < phi h := by
  hist_open
  all_goals (simp_all [phi, objPot, scost, cpcRank, spcRank]; try omega)

theorem phi_suspendEnter (h h' : HSt) (a : Nat) (hs : hstep h (.suspendEnter a) = some h') : phi h' < phi h := by
  hist_open
  all_goals (simp_all [phi, objPot, scost, cpcRank, spcRank]; try omega)

theorem phi_resumeEnter (h h' : HSt) (a : Nat) (hs : hstep h (.resumeEnter a) = some h') : phi h' < phi h := by
  hist_open
  all_goals (simp_all [phi, objPot, scost, cpcRank, spcRank]; try omega)

theorem phi_worker (h h' : HSt) (a : Nat) (hs : hstep h (.worker a) = some h') : phi h' < phi h := by
  hist_open
  all_goals (simp_all [phi, objPot, scost, cpcRank, spcRank]; try omega)

theorem phi_sleep (h h' : HSt) (a : Nat) (hs : hstep h (.sleep a) = some h') : phi h' < phi h := by
  hist_open
  all_goals (simp_all [phi, objPot, scost, cpcRank, spcRank]; try omega)

theorem phi_wake (h h' : HSt) (a : Nat) (hs : hstep h (.wake a) = some h') : phi h' < phi h := by
  hist_open
  all_goals (simp_all [phi, objPot, scost, cpcRank, spcRank]; try omega)

theorem phi_waitEnter (h h' : HSt) (a : Nat) (hs : hstep h (.waitEnter a) = some h') : phi h' < phi h := by
  hist_open
  all_goals (simp_all [phi, objPot, scost, cpcRank, spcRank]; try omega)

theorem phi_waitExit (h h' : HSt) (a : Nat) (hs : hstep h (.waitExit a) = some h') : phi h' < phi h := by
  hist_open
  all_goals (simp_all [phi, objPot, scost, cpcRank, spcRank]; try omega)

theorem phi_reqCfg (h h' : HSt) (a t p : Nat) (hs : hstep h (.reqCfg a t p) = some h') : phi h' < phi h := by
  hist_open
  all_goals (simp_all [phi, objPot, scost, cpcRank, spcRank]; try omega)

theorem phi_seenCfg (h h' : HSt) (a t p : Nat) (hs : hstep h (.seenCfg a t p) = some h') : phi h' = phi h := by
  hist_open
  all_goals (simp_all [phi, objPot, scost, cpcRank, spcRank]; try omega)

theorem phi_result (h h' : HSt) (a r : Nat) (hs : hstep h (.result a r) = some h') : phi h' = phi h := by
  hist_open
  all_goals (simp_all [phi, objPot, scost, cpcRank, spcRank]; try omega)

theorem phi_sample (h h' : HSt) (a v w : Nat) (hs : hstep h (.sample a v w) = some h') :
    (v ≤ w → phi h' < phi h) ∧ (w < v → phi h' = phi h) := by
  hist_open
  all_goals (simp_all [phi, objPot, scost, cpcRank, spcRank]; try omega)

theorem phi_rtState (h h' : HSt) (a v : Nat) (hs : hstep h (.rtState a v) = some h') :
    (¬ (v = rsPreStartup ∨ v = rsStartup ∨ v = rsPreMain) → phi h' < phi h) ∧
    ((v = rsPreStartup ∨ v = rsStartup ∨ v = rsPreMain) → phi h' = phi h) := by
  hist_open
  all_goals (simp_all [phi, objPot, scost, cpcRank, spcRank]; try omega)

def termF (live : Nat → Bool) (tp : Nat → Nat) (o : Nat) : Nat := if live o = true then rem (tp o) else 0
def objPotF (no : Nat) (live : Nat → Bool) (tp : Nat → Nat) : Nat := sumTo no (termF live tp)

theorem objPot_eq (h : HSt) : objPot h = objPotF h.s.no h.s.live h.tp := rfl

theorem objPotF_change (no : Nat) (live live' : Nat → Bool) (tp tp' : Nat → Nat) (o : Nat) (ho : o < no)
    (hoth : ∀ u, u ≠ o → live' u = live u ∧ tp' u = tp u) :
    objPotF no live' tp' + termF live tp o = objPotF no live tp + termF live' tp' o := by
  simp only [objPotF]
  exact sumTo_change ho (fun u hu => by simp only [termF, (hoth u hu).1, (hoth u hu).2])

theorem phi_new (h h' : HSt) (a o : Nat) (hs : hstep h (.new a o) = some h') : phi h' < phi h := by
  hist_open
  all_goals (
    rename_i hg
    have hc := objPotF_change h.s.no h.s.live (upd h.s.live o true) h.tp (upd h.tp o 0) o hg.2.1
      (fun u hu => ⟨by simp [upd, hu], by simp [upd, hu]⟩)
    simp_all [phi, objPot_eq, termF, rem, upd]
    try omega)

theorem phi_destroy (h h' : HSt) (a o : Nat) (hs : hstep h (.destroy a o) = some h') : phi h' < phi h := by
  hist_open
  all_goals (
    rename_i hg _
    have hc := objPotF_change h.s.no h.s.live (upd h.s.live o false) h.tp h.tp o hg.2.1
      (fun u hu => ⟨by simp [upd, hu], rfl⟩)
    simp_all [phi, objPot_eq, termF, rem, upd]
    try omega)

theorem phi_phaseBegin (h h' : HSt) (a o : Nat) (hs : hstep h (.phaseBegin a o) = some h') : phi h' < phi h := by
  hist_open
  · rename_i hg _
    have hc := objPotF_change h.s.no h.s.live h.s.live h.tp (upd h.tp o 1) o hg.2.1
      (fun u hu => ⟨rfl, by simp [upd, hu]⟩)
    simp_all [phi, objPot_eq, termF, rem, upd]
    try omega
  · rename_i hg _ _
    have hc := objPotF_change h.s.no h.s.live h.s.live h.tp (upd h.tp o 2) o hg.2.1
      (fun u hu => ⟨rfl, by simp [upd, hu]⟩)
    simp_all [phi, objPot_eq, termF, rem, upd]
    try omega

theorem phi_phaseEnd (h h' : HSt) (a o : Nat) (hi : Inv h.s) (hs : hstep h (.phaseEnd a o) = some h') :
    phi h' < phi h := by
  hist_open
  · rename_i hg _
    have hl := (hi.curLive a o hg.2).1
    have ho := hi.liveBound o hl
    have hc := objPotF_change h.s.no h.s.live h.s.live h.tp (upd h.tp o 3) o ho
      (fun u hu => ⟨rfl, by simp [upd, hu]⟩)
    simp_all [phi, objPot_eq, termF, rem, upd]
    try omega
  · rename_i hg _ _
    have hl := (hi.curLive a o hg.2).1
    have ho := hi.liveBound o hl
    have hc := objPotF_change h.s.no h.s.live h.s.live h.tp (upd h.tp o 5) o ho
      (fun u hu => ⟨rfl, by simp [upd, hu]⟩)
    simp_all [phi, objPot_eq, termF, rem, upd]
    try omega

theorem phi_body (h h' : HSt) (a o : Nat) (hi : Inv h.s) (hs : hstep h (.body a o) = some h') :
    phi h' < phi h := by
  hist_open
  · rename_i hg _
    have hl := (hi.curLive a o hg.2).1
    have ho := hi.liveBound o hl
    have hc := objPotF_change h.s.no h.s.live h.s.live h.tp (upd h.tp o 2) o ho
      (fun u hu => ⟨rfl, by simp [upd, hu]⟩)
    simp_all [phi, objPot_eq, termF, rem, upd]
    try omega
  · rename_i hg _ _
    have hl := (hi.curLive a o hg.2).1
    have ho := hi.liveBound o hl
    have hc := objPotF_change h.s.no h.s.live h.s.live h.tp (upd h.tp o 4) o ho
      (fun u hu => ⟨rfl, by simp [upd, hu]⟩)
    simp_all [phi, objPot_eq, termF, rem, upd]
    try omega

/-- **The measure.**  Every accepted non-neutral event strictly decreases `phi`; a neutral event
    leaves it unchanged. -/
theorem phi_step (h h' : HSt) (e : Ev) (hi : Inv h.s) (hs : hstep h e = some h') :
    (neutral e = false → phi h' < phi h) ∧ (neutral e = true → phi h' = phi h) := by
  cases e with
  | inc a n => exact ⟨fun _ => phi_inc h h' a n hs, fun hn => by simp [neutral] at hn⟩
  | dec a n => exact ⟨fun _ => phi_dec h h' a n hs, fun hn => by simp [neutral] at hn⟩
  | stage a => exact ⟨fun _ => phi_stage h h' a hs, fun hn => by simp [neutral] at hn⟩
  | unstage a => exact ⟨fun _ => phi_unstage h h' a hs, fun hn => by simp [neutral] at hn⟩
  | new a o => exact ⟨fun _ => phi_new h h' a o hs, fun hn => by simp [neutral] at hn⟩
  | destroy a o => exact ⟨fun _ => phi_destroy h h' a o hs, fun hn => by simp [neutral] at hn⟩
  | phaseBegin a o => exact ⟨fun _ => phi_phaseBegin h h' a o hs, fun hn => by simp [neutral] at hn⟩
  | phaseEnd a o => exact ⟨fun _ => phi_phaseEnd h h' a o hi hs, fun hn => by simp [neutral] at hn⟩
  | body a o => exact ⟨fun _ => phi_body h h' a o hi hs, fun hn => by simp [neutral] at hn⟩
  | sample a v w =>
    have := phi_sample h h' a v w hs
    refine ⟨fun hn => this.1 ?_, fun hn => this.2 ?_⟩
    · simp [neutral] at hn; exact hn
    · simp [neutral] at hn; exact hn
  | rtState a v =>
    have := phi_rtState h h' a v hs
    refine ⟨fun hn => this.1 ?_, fun hn => this.2 ?_⟩
    · simp only [neutral, decide_eq_false_iff_not] at hn; exact hn
    · simp only [neutral, decide_eq_true_eq] at hn; exact hn
  | result a r => exact ⟨fun hn => by simp [neutral] at hn, fun _ => phi_result h h' a r hs⟩
  | fin a => exact ⟨fun _ => phi_fin h h' a hs, fun hn => by simp [neutral] at hn⟩
  | stopEnter a => exact ⟨fun _ => phi_stopEnter h h' a hs, fun hn => by simp [neutral] at hn⟩
  | waitFin a => exact ⟨fun _ => phi_waitFin h h' a hs, fun hn => by simp [neutral] at hn⟩
  | waited a r => exact ⟨fun _ => phi_waited h h' a r hs, fun hn => by simp [neutral] at hn⟩
  | stopExit a r => exact ⟨fun _ => phi_stopExit h h' a r hs, fun hn => by simp [neutral] at hn⟩
  | suspendEnter a => exact ⟨fun _ => phi_suspendEnter h h' a hs, fun hn => by simp [neutral] at hn⟩
  | resumeEnter a => exact ⟨fun _ => phi_resumeEnter h h' a hs, fun hn => by simp [neutral] at hn⟩
  | worker a => exact ⟨fun _ => phi_worker h h' a hs, fun hn => by simp [neutral] at hn⟩
  | sleep a => exact ⟨fun _ => phi_sleep h h' a hs, fun hn => by simp [neutral] at hn⟩
  | wake a => exact ⟨fun _ => phi_wake h h' a hs, fun hn => by simp [neutral] at hn⟩
  | waitEnter a => exact ⟨fun _ => phi_waitEnter h h' a hs, fun hn => by simp [neutral] at hn⟩
  | waitExit a => exact ⟨fun _ => phi_waitExit h h' a hs, fun hn => by simp [neutral] at hn⟩
  | reqCfg a t p => exact ⟨fun _ => phi_reqCfg h h' a t p hs, fun hn => by simp [neutral] at hn⟩
  | seenCfg a t p => exact ⟨fun hn => by simp [neutral] at hn, fun _ => phi_seenCfg h h' a t p hs⟩

theorem runLog_phi (log : List Ev) : ∀ (h h' : HSt), Inv h.s → runLog hstep h log = some h' →
    nMoves log + phi h' ≤ phi h ∧ Inv h'.s := by
  induction log with
  | nil => intro h h' hi hr; simp at hr; subst hr; simp [nMoves, hi]
  | cons e es ih =>
    intro h h' hi hr
    simp only [runLog] at hr
    cases hs : hstep h e with
    | none => simp [hs] at hr
    | some h1 =>
      simp only [hs] at hr
      have h1s := phi_step h h1 e hi hs
      have hi1 := step_inv _ _ _ hi (hstep_step h h1 e hs)
      have h2 := ih h1 h' hi1 hr
      refine ⟨?_, h2.2⟩
      simp only [nMoves]
      cases hn : neutral e with
      | true => have := h1s.2 hn; simp; omega
      | false => have := h1s.1 hn; simp; omega

theorem phi_hinit (na no : Nat) (script : List Call) (kids yields : Nat) :
    phi (hinit na no script kids yields) = scost 0 script + 10 * kids + 2 * yields := by
  have h0 : objPot (hinit na no script kids yields) = 0 := by
    simp only [objPot]
    exact sumTo_eq_zero (fun t _ => by simp [hinit, init])
  simp only [phi, h0]
  simp [hinit, init, cpcRank, spcRank]

end PikaVerif.Life
