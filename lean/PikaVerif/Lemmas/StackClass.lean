import PikaVerif.Model.StackClass
namespace PikaVerif.StackClass

theorem heapOf_some {P : String → Nat} {l : List (String × String)} {sz : Nat} {h : String}
    (e : heapOf P l sz = some h) : ∃ p, (p, h) ∈ l ∧ sz = P p := by
  induction l with
  | nil => simp [heapOf] at e
  | cons ph rest ih =>
    obtain ⟨p, h'⟩ := ph
    simp only [heapOf] at e
    split at e
    · simp only [Option.some.injEq] at e; subst e; exact ⟨p, by simp, by assumption⟩
    · obtain ⟨q, hq, hs⟩ := ih e; exact ⟨q, by simp [hq], hs⟩

/-- every filed object sits in a heap of its own size; every rebind matched sizes -/
structure Inv (c : Cfg) (s : St) : Prop where
  filed : ∀ h o, o ∈ s.heaps h → ∃ p, (p, h) ∈ c.recycle ++ c.prefill ∧ o.size = c.P p
  bound : ∀ x ∈ s.rebinds, x.1.size = x.2.2 ∧ ∃ p, c.classParam.lookup x.2.1 = some p ∧ x.2.2 = c.P p

theorem consistent_spec {c : Cfg} (hc : consistent c = true) {p p' h : String}
    (h1 : (p, h) ∈ c.create) (h2 : (p', h) ∈ c.recycle ++ c.prefill) : p = p' := by
  simp only [consistent, List.all_eq_true] at hc
  have := hc _ h1 _ h2
  simpa using this

theorem step_inv (c : Cfg) (hc : consistent c = true) (s s' : St) (e : Ev) (hi : Inv c s)
    (hs : step c s e = some s') : Inv c s' := by
  cases e with
  | create cls o =>
    simp only [step] at hs
    split at hs
    · simp at hs
    · rename_i p hp
      split at hs
      · simp at hs
      · rename_i h hh
        cases o with
        | none =>
          simp only at hs
          split at hs
          · simp only [Option.some.injEq] at hs; subst hs; exact hi
          · simp at hs
        | some o =>
          simp only at hs
          split at hs
          · rename_i hmem
            simp only [Option.some.injEq] at hs; subst hs
            obtain ⟨q, hq, hsz⟩ := heapOf_some hh
            obtain ⟨q', hq', hsz'⟩ := hi.filed h o hmem
            have : q = q' := consistent_spec hc hq hq'
            refine ⟨?_, ?_⟩
            · intro h' o' ho'
              simp only [setHeap] at ho'
              split at ho'
              · rename_i e; subst e; exact hi.filed _ o' (List.mem_of_mem_erase ho')
              · exact hi.filed h' o' ho'
            · intro x hx
              simp only [List.mem_cons] at hx
              rcases hx with rfl | hx
              · exact ⟨by simp only; rw [hsz', ← this, ← hsz], p, hp, rfl⟩
              · exact hi.bound x hx
          · simp at hs
  | recycle o =>
    simp only [step] at hs
    split at hs
    · simp at hs
    · rename_i h hh
      simp only [Option.some.injEq] at hs; subst hs
      obtain ⟨q, hq, hsz⟩ := heapOf_some hh
      refine ⟨?_, hi.bound⟩
      intro h' o' ho'
      simp only [setHeap] at ho'
      split at ho'
      · rename_i e; subst e
        simp only [List.mem_cons] at ho'
        rcases ho' with rfl | ho'
        · exact ⟨q, by simp [hq], hsz⟩
        · exact hi.filed _ o' ho'
      · exact hi.filed h' o' ho'
  | prefill o p h =>
    simp only [step] at hs
    split at hs
    · rename_i hc'
      simp only [Option.some.injEq] at hs; subst hs
      refine ⟨?_, hi.bound⟩
      intro h' o' ho'
      simp only [setHeap] at ho'
      split at ho'
      · rename_i e; subst e
        simp only [List.mem_cons] at ho'
        rcases ho' with rfl | ho'
        · exact ⟨p, by simp [hc'.1], hc'.2⟩
        · exact hi.filed _ o' ho'
      · exact hi.filed h' o' ho'
    · simp at hs

theorem inv_init (c : Cfg) : Inv c init := ⟨by intro h o ho; simp [init] at ho, by intro x hx; simp [init] at hx⟩

end PikaVerif.StackClass
