import PikaVerif.Lemmas.Stop5
/-! Follow-up C14p: preservation of layer D (destructor versus pending callback), events group 2. -/
namespace PikaVerif.Stop
open PikaVerif
set_option maxHeartbeats 4000000

theorem stepD_rsDone (s s' : St) (a : Nat) (hA : InvA s) (hB : InvB s) (hS : InvS s) (hf : Faith s) (hi : InvD s) (h : step s (.rsDone a) = some s') : InvD s' := by stopD
theorem stepD_preExec (s s' : St) (a c : Nat) (hA : InvA s) (hB : InvB s) (hS : InvS s) (hf : Faith s) (hi : InvD s) (h : step s (.preExec a c) = some s') : InvD s' := by stopD
theorem stepD_cbBegin (s s' : St) (a c : Nat) (hA : InvA s) (hB : InvB s) (hS : InvS s) (hf : Faith s) (hi : InvD s) (h : step s (.cbBegin a c) = some s') : InvD s' := by stopD
theorem stepD_cbEnd (s s' : St) (a c : Nat) (hA : InvA s) (hB : InvB s) (hS : InvS s) (hf : Faith s) (hi : InvD s) (h : step s (.cbEnd a c) = some s') : InvD s' := by stopD
theorem stepD_finStore (s s' : St) (a c : Nat) (r : Bool) (hA : InvA s) (hB : InvB s) (hS : InvS s) (hf : Faith s) (hi : InvD s) (h : step s (.finStore a c r) = some s') : InvD s' := by stopD
theorem stepD_inFin (s s' : St) (a c : Nat) (hA : InvA s) (hB : InvB s) (hS : InvS s) (hf : Faith s) (hi : InvD s) (h : step s (.inFin a c) = some s') : InvD s' := by stopD
theorem stepD_push (s s' : St) (a c : Nat) (b : Bool) (hA : InvA s) (hB : InvB s) (hS : InvS s) (hf : Faith s) (hi : InvD s) (h : step s (.push a c b) = some s') : InvD s' := by stopD

end PikaVerif.Stop
