import PikaVerif.Lemmas.Fifo
/-! Two-queue move loop (`Fifo.Move`): both queues keep their invariant, and the global value balance. -/
namespace PikaVerif.Fifo.Move
open PikaVerif PikaVerif.Fifo

/-- how a wrapper step changes the ghost lists -/
theorem step_ghost (s s' : St) (e : Ev) (h : step s e = some s') :
    s'.handed = s.handed ++ inOf e ∧ s'.returned = s.returned ++ outOf s e ∧ s'.n = s.n := by
  cases e <;> simp only [step] at h <;> (repeat' split at h) <;>
    first
    | (simp at h; done)
    | (simp only [Option.some.injEq] at h; subst h; simp_all [inOf, outOf])
    | (simp only [Option.map_eq_some_iff] at h; obtain ⟨q', _, h⟩ := h; subst h; simp_all [inOf, outOf])

def hw (x : Nat) : Option Nat → Nat
  | some v => if v = x then 1 else 0
  | none => 0

def heldTo (hold : Nat → Option Nat) : Nat → List Nat
  | 0 => []
  | k + 1 => heldTo hold k ++ (match hold k with | some v => [v] | none => [])

/-- values sitting in a `trd` local -/
def St2.held (s : St2) : List Nat := heldTo s.hold s.src.n

theorem count_heldTo (x : Nat) (hold : Nat → Option Nat) (n : Nat) :
    (heldTo hold n).count x = sumTo n (fun t => hw x (hold t)) := by
  induction n with
  | zero => simp [heldTo]
  | succ k ih =>
    simp only [heldTo, sumTo_succ, List.count_append, ih]
    cases hold k <;> simp [hw, List.count_singleton] <;> split <;> simp_all

structure Inv2 (s : St2) : Prop where
  isrc : Inv s.src
  idst : Inv s.dst
  sameN : s.dst.n = s.src.n
  holdOut : ∀ t, s.src.n ≤ t → s.hold t = none
  bal : ∀ x, s.src.returned.count x + s.dst.returned.count x + s.extIn.count x =
    s.src.handed.count x + s.dst.handed.count x + s.extOut.count x + sumTo s.src.n (fun t => hw x (s.hold t))

theorem inv2_init (n : Nat) : Inv2 (init2 n) := by
  refine ⟨inv_init n, inv_init n, rfl, fun _ _ => rfl, ?_⟩
  intro x
  simp [init2, init, hw, sumTo_eq_zero]

theorem step2_inv (s : St2) (e : Ev2) (s' : St2) (hi : Inv2 s) (h : step2 s e = some s') : Inv2 s' := by
  obtain ⟨h1, h2, h3, h4, h5⟩ := hi
  cases e with
  | src e =>
    simp only [step2, Option.map_eq_some_iff] at h
    obtain ⟨a, ha, h⟩ := h
    subst h
    obtain ⟨g1, g2, g3⟩ := step_ghost _ _ _ ha
    refine ⟨step_inv _ _ _ h1 ha, h2, by simp [g3, h3], by simpa [g3] using h4, ?_⟩
    intro x
    have := h5 x
    simp only [g1, g2, g3, List.count_append]
    omega
  | dst e =>
    simp only [step2, Option.map_eq_some_iff] at h
    obtain ⟨b, hb, h⟩ := h
    subst h
    obtain ⟨g1, g2, g3⟩ := step_ghost _ _ _ hb
    refine ⟨h1, step_inv _ _ _ h2 hb, by simp [g3, h3], h4, ?_⟩
    intro x
    have := h5 x
    simp only [g1, g2, List.count_append]
    omega
  | mdec t =>
    simp only [step2] at h
    split at h
    case h_2 => simp at h
    rename_i v hpc hh
    simp only [Option.map_eq_some_iff] at h
    obtain ⟨a, ha, h⟩ := h
    subst h
    obtain ⟨g1, g2, g3⟩ := step_ghost _ _ _ ha
    have htn : t < s.src.n := by
      simp only [step] at ha
      split at ha
      · assumption
      · simp at ha
    refine ⟨step_inv _ _ _ h1 ha, h2, by simp [g3, h3], ?_, ?_⟩
    · intro u hu
      have : u ≠ t := by simp only [g3] at hu; omega
      simp only [g3] at hu
      simp [upd_other _ _ _ _ this, h4 u hu]
    · intro x
      have := h5 x
      have hle := le_sumTo (f := fun u => hw x (s.hold u)) htn
      have hold0 : hw x (s.hold t) = 0 := by simp [hh, hw]
      have hnew : hw x (some v) = (if v = x then 1 else 0) := rfl
      have hcnt : List.count x [v] = if v = x then 1 else 0 := by
        by_cases hv : v = x <;> simp [hv]
      have hout : outOf s.src (.dec t) = [v] := by simp [outOf, hpc]
      simp only [g1, g2, g3, List.count_append, hout, inOf, List.count_nil, hcnt]
      rw [sumTo_upd_eq _ _ _ _ _ htn, hold0, hnew]
      omega
  | minc t =>
    simp only [step2] at h
    split at h
    case h_2 => simp at h
    rename_i v hh
    simp only [Option.map_eq_some_iff] at h
    obtain ⟨b, hb, h⟩ := h
    subst h
    obtain ⟨g1, g2, g3⟩ := step_ghost _ _ _ hb
    have htn : t < s.src.n := by
      simp only [step] at hb
      split at hb
      · rename_i hg; omega
      · simp at hb
    refine ⟨h1, step_inv _ _ _ h2 hb, by simp [g3, h3], ?_, ?_⟩
    · intro u hu
      by_cases hut : u = t
      · subst hut; simp
      · simp [upd_other _ _ _ _ hut, h4 u hu]
    · intro x
      have := h5 x
      have hle := le_sumTo (f := fun u => hw x (s.hold u)) htn
      have hold1 : hw x (s.hold t) = (if v = x then 1 else 0) := by simp [hh, hw]
      have hnew : hw x none = 0 := rfl
      have hcnt : List.count x [v] = if v = x then 1 else 0 := by
        by_cases hv : v = x <;> simp [hv]
      simp only [g1, g2, List.count_append, outOf, inOf, List.count_nil, hcnt]
      rw [sumTo_upd_eq _ _ _ _ _ htn, hnew]
      rw [hold1] at hle
      omega

theorem inv2_of_accepted {n : Nat} {log : List Ev2} {s : St2} (h : runLog step2 (init2 n) log = some s) : Inv2 s :=
  inv_of_runLog Inv2 step2_inv (inv2_init n) h

/-- the global balance as a multiset equation -/
theorem Inv2.perm {s : St2} (hi : Inv2 s) :
    s.extIn.Perm (s.extOut ++ (s.src.values ++ s.dst.values) ++ (s.src.inflight ++ s.dst.inflight) ++ s.held) := by
  rw [List.perm_iff_count]
  intro x
  have h1 := hi.isrc.cons x
  have h2 := hi.idst.cons x
  have h3 := hi.bal x
  simp only [List.count_append, St.inflight, St2.held, count_inflightTo, count_heldTo]
  omega

end PikaVerif.Fifo.Move
