import PikaVerif.Lemmas.CV2
/-! Effect lemmas used by the property theorems (what a pop changes; what can happen while a
    `notify_all` holds the internal lock). -/
namespace PikaVerif.CV
open PikaVerif

attribute [local grind] holds holdsU noU inQ waitExp needTok setPopped b2n isTimed isPred exitPc

theorem popCore_effect (s s' : St) (t z g : Nat) (d : Bool) (pcT : Pc)
    (h : popCore s t z g d pcT = some s') :
    (∃ rest, s.queue = g :: rest ∧ s'.queue = rest) ∧
    s'.waiting = upd s.waiting g false ∧ s'.poppedOp g = true ∧ s'.pops = upd s.pops g (s.pops g + 1) ∧
    (∃ p', setPopped (s.pc g) = some p') ∧
    ((d = false ∧ s'.tok g = s.tok g + 1) ∨ (d = true ∧ s.pc g = .slp false ∧ s'.tok = s.tok)) ∧
    s'.enqs = s.enqs := by
  unfold popCore at h
  split at h
  case h_2 => simp at h
  rename_i g' rest hq
  split at h
  case isFalse => simp at h
  rename_i hsz
  obtain ⟨hsz, hgg⟩ := hsz
  subst hgg
  split at h
  case h_2 => simp at h
  rename_i p' hp'
  split at h
  case isFalse => simp at h
  rename_i hdrop
  simp only [Option.some.injEq] at h
  subst h
  refine ⟨⟨rest, hq, rfl⟩, rfl, by simp [upd], rfl, ⟨p', hp'⟩, ?_, rfl⟩
  cases d with
  | false => left; simp [upd]
  | true => right; simp at hdrop; simp [hdrop]

/-- Inside the pop loop of a `notify_all` (public call, or the stop callback). -/
def allPc : Pc → Bool
  | .nAll | .cAll _ => true
  | _ => false

attribute [local grind] allPc

theorem popAll_core' {s s' : St} {u z g : Nat} {d : Bool} (h : step s (.popAll u z g d) = some s') :
    ∃ pcT, pcT = s.pc u ∧ allPc pcT = true ∧ popCore s u z g d pcT = some s' := by
  simp only [step] at h
  split at h
  case isFalse => simp at h
  split at h
  case h_3 => simp at h
  · rename_i hpc; exact ⟨_, hpc.symm, by simp [allPc], h⟩
  · rename_i k hpc; exact ⟨_, hpc.symm, by simp [allPc], h⟩

theorem popAll_core {s s' : St} {u z g : Nat} {d : Bool} (h : step s (.popAll u z g d) = some s') :
    ∃ pcT, popCore s u z g d pcT = some s' := by
  obtain ⟨pcT, _, _, h⟩ := popAll_core' h
  exact ⟨pcT, h⟩

theorem nall_step (s s' : St) (hi : Inv s) (e : Ev) (u w : Nat) (hl : s.lock = some u)
    (hpc : allPc (s.pc u) = true) (hw : s.waiting w = true) (hne : e ≠ .slRel u) (h : step s e = some s') :
    (∃ z d, e = .popAll u z w d) ∨ (s'.waiting w = true ∧ s'.lock = some u ∧ allPc (s'.pc u) = true) := by
  have hwu : w ≠ u := by
    intro he; subst he
    have := hi.waitingIff w; rw [hw] at this
    cases hp : s.pc w <;> simp [hp, allPc] at hpc <;> simp [hp, waitExp] at this
  have hlh := hi.lockHolder
  have hwi := hi.waitingIff
  cases e
  case popAll t z g d =>
    have htu : t = u := by
      simp only [step] at h
      split at h
      case isFalse => simp at h
      rename_i hg
      have := hg.2; rw [hl] at this; simpa using this.symm
    subst htu
    obtain ⟨pcT, hpT, haT, h⟩ := popAll_core' h
    obtain ⟨_, hw', _, _, _, _, _⟩ := popCore_effect s s' t z g d pcT h
    by_cases hgw : g = w
    · subst hgw; exact Or.inl ⟨z, d, rfl⟩
    · right
      unfold popCore at h
      (repeat' split at h) <;> first | (simp at h; done) | skip
      all_goals
        simp only [Option.some.injEq] at h
        subst h
        exact ⟨by simp [upd, Ne.symm hgw, hw], hl, by simp [upd, haT]⟩
  case popResume t z g d =>
    simp only [step] at h
    split at h
    case isFalse => simp at h
    rename_i hg
    have htu : t = u := by have := hg.2.1; rw [hl] at this; simpa using this.symm
    subst htu
    cases hp : s.pc t <;> simp [hp, allPc] at hpc <;> simp [hp] at h
  case slRel t =>
    right
    simp only [step] at h
    split at h
    case isFalse => simp at h
    rename_i hg
    have htu : t = u := by have := hg.2; rw [hl] at this; simpa using this.symm
    subst htu
    exact absurd rfl hne
  all_goals
    right
    simp only [step] at h
    split at h
    case isFalse => simp at h
    rename_i hg
    repeat' split at h
    all_goals first | (simp at h; done) | skip
    all_goals (simp only [Option.some.injEq] at h; subst h; dsimp only; grind [upd])

end PikaVerif.CV
