import PikaVerif.Lemmas.BarrierU12
/-!
# Sweep ghost for the ticket search (C09u): instrumented program layer

`GSt` = `PSt` + per-thread ghost `st` (cursor at which the thread entered its current round) and
`w` (the cursor has wrapped from `e` to `0` in this round).  `gstep` accepts exactly the events
`pstep` accepts.  Invariant `SW`: the nodes the thread has passed since it entered the round are
full for the current phase.
-/
namespace PikaVerif.Barrier
open PikaVerif PikaVerif.C09Barrier

structure GSt where
  p : PSt
  st : Nat → Nat
  w : Nat → Bool

/-- the cursor is at `e`: the next CAS is on node `0` -/
def wrapNow : Pc → Bool
  | .try _ cur _ m => decide (cur = (m + 1) / 2)
  | _ => false

def ghost (g : GSt) (e : Ev) (p' : PSt) : GSt :=
  match e with
  | .start t cur => ⟨p', upd g.st t cur, upd g.w t false⟩
  | .cas t c _ .up => ⟨p', upd g.st t (c / 2), upd g.w t false⟩
  | .cas2 t c _ .up => ⟨p', upd g.st t (c / 2), upd g.w t false⟩
  | .cas t _ _ _ => ⟨p', g.st, upd g.w t (g.w t || wrapNow (g.p.s.pc t))⟩
  | _ => ⟨p', g.st, g.w⟩

def gstep (g : GSt) (e : Ev) : Option GSt := (pstep g.p e).map (ghost g e)

theorem ghost_p (g : GSt) (e : Ev) (p' : PSt) : (ghost g e p').p = p' := by
  unfold ghost; split <;> rfl

theorem gstep_pstep (g g' : GSt) (e : Ev) (h : gstep g e = some g') : pstep g.p e = some g'.p := by
  simp only [gstep, Option.map_eq_some_iff] at h
  obtain ⟨p', h1, h2⟩ := h
  rw [← h2, ghost_p]; exact h1

theorem runLog_gstep_pstep (log : List Ev) : ∀ (g g' : GSt), runLog gstep g log = some g' →
    runLog pstep g.p log = some g'.p := by
  induction log with
  | nil => intro g g' h; simp at h; subst h; simp
  | cons e es ih =>
    intro g g' h
    simp only [runLog] at h ⊢
    cases hs : gstep g e with
    | none => simp [hs] at h
    | some g1 =>
      simp only [hs] at h
      rw [gstep_pstep g g1 e hs]
      exact ih g1 g' h

/-- every `pstep` log is a `gstep` log with the same program states -/
theorem runLog_pstep_gstep (log : List Ev) : ∀ (g : GSt) (p' : PSt), runLog pstep g.p log = some p' →
    ∃ g', runLog gstep g log = some g' ∧ g'.p = p' := by
  induction log with
  | nil => intro g p' h; simp at h; exact ⟨g, rfl, h⟩
  | cons e es ih =>
    intro g p' h
    simp only [runLog] at h
    cases hs : pstep g.p e with
    | none => simp [hs] at h
    | some p1 =>
      simp only [hs] at h
      have hg : gstep g e = some (ghost g e p1) := by simp [gstep, hs]
      obtain ⟨g', h1, h2⟩ := ih (ghost g e p1) p' (by rw [ghost_p]; exact h)
      exact ⟨g', by simp only [runLog, hg]; exact h1, h2⟩

/-- the nodes passed since the thread entered round `r` at `st` are full -/
def Sweep (s : St) (r e cur st : Nat) (w : Bool) : Prop :=
  st < e ∧
  (if w then cur ≤ st ∧ (∀ c, st ≤ c → c < e → s.tk r c = fullB s.phase) ∧ (∀ c, c < cur → s.tk r c = fullB s.phase)
   else st ≤ cur ∧ ∀ c, st ≤ c → c < cur → s.tk r c = fullB s.phase)

def SWt (s : St) (st : Nat) (w : Bool) : Pc → Prop
  | .try _ cur r m => 1 < m → Sweep s r ((m + 1) / 2) cur st w
  | .try2 _ c r m => 1 < m → Sweep s r ((m + 1) / 2) c st w ∧
      (s.tk r c = halfB s.phase ∨ s.tk r c = fullB s.phase)
  | _ => True

def SW (g : GSt) : Prop := ∀ t, SWt g.p.s (g.st t) (g.w t) (g.p.s.pc t)

/-- within a phase, full tickets stay full and half tickets become at most full -/
def TkMono (s s' : St) : Prop :=
  s'.phase = s.phase ∧ (∀ r c, s.tk r c = fullB s.phase → s'.tk r c = fullB s.phase) ∧
  (∀ r c, s.tk r c = halfB s.phase → s'.tk r c = halfB s.phase ∨ s'.tk r c = fullB s.phase)

theorem SWt_frame {s s' : St} (hm : TkMono s s') (st : Nat) (w : Bool) (pc : Pc) (h : SWt s st w pc) :
    SWt s' st w pc := by
  obtain ⟨hp, hf, hh⟩ := hm
  cases pc <;> simp only [SWt, Sweep, hp] at h ⊢
  case «try» u cur r m =>
    intro hm1
    obtain ⟨h1, h2⟩ := h hm1
    refine ⟨h1, ?_⟩
    cases w <;> simp only [Bool.false_eq_true, if_false, if_true] at h2 ⊢
    · exact ⟨h2.1, fun c a b => hf r c (h2.2 c a b)⟩
    · exact ⟨h2.1, fun c a b => hf r c (h2.2.1 c a b), fun c a => hf r c (h2.2.2 c a)⟩
  case try2 u cur r m =>
    intro hm1
    obtain ⟨⟨h1, h2⟩, h3⟩ := h hm1
    refine ⟨⟨h1, ?_⟩, ?_⟩
    · cases w <;> simp only [Bool.false_eq_true, if_false, if_true] at h2 ⊢
      · exact ⟨h2.1, fun c a b => hf r c (h2.2 c a b)⟩
      · exact ⟨h2.1, fun c a b => hf r c (h2.2.1 c a b), fun c a => hf r c (h2.2.2 c a)⟩
    · rcases h3 with h3 | h3
      · exact hh r cur h3
      · exact Or.inr (hf r cur h3)

/-- every accepted event other than `publish` keeps the tickets monotone -/
theorem step_tkMono (s s' : St) (e : Ev) (hb : InvB s) (hnp : ∀ t a b, e ≠ .publish t a b)
    (h : step s e = some s') : TkMono s s' := by
  cases e
  case publish t a b => exact absurd rfl (hnp t a b)
  case cas t a b o =>
    have htp := hb.tokPhase t
    simp only [step] at h
    (repeat' split at h) <;> first | (simp at h; done) | skip
    all_goals (
      rename_i hpc _ _ _
      simp only [Option.some.injEq] at h; subst h
      simp only [inArr] at htp
      refine ⟨rfl, fun r c hf => ?_, fun r c hh => ?_⟩ <;> dsimp only <;>
        first | assumption | (left; assumption)
              | (rw [upd2_apply]; have := fullB_ne s.phase; have := fullB_ne_halfB s.phase
                 have := halfB_ne s.phase; grind))
  case cas2 t a b o =>
    have htp := hb.tokPhase t
    simp only [step] at h
    (repeat' split at h) <;> first | (simp at h; done) | skip
    all_goals (
      simp only [Option.some.injEq] at h; subst h
      simp only [inArr] at htp
      refine ⟨rfl, fun r c hf => ?_, fun r c hh => ?_⟩ <;> dsimp only <;>
        first | assumption | (left; assumption)
              | (rw [upd2_apply]; have := fullB_ne s.phase; have := fullB_ne_halfB s.phase
                 have := halfB_ne s.phase; grind))
  all_goals
    simp only [step] at h <;> (repeat' split at h) <;>
    first
    | (simp at h; done)
    | (simp only [Option.some.injEq] at h; subst h
       exact ⟨rfl, fun r c hf => hf, fun r c hh => Or.inl hh⟩)

end PikaVerif.Barrier
