import PikaVerif.Lemmas.Deque
/-! Inductive invariant of the deque model for executions without a stale link-CAS. -/
namespace PikaVerif.Deque
open PikaVerif

def ownedK : Kont → Nat
  | .pushLoop _ n => n
  | _ => 0

/-- node the thread owns exclusively (allocated and not linked, or unlinked and not yet freed) -/
def owned : Pc → Nat
  | .pushLd _ n | .pushCasE _ n _ | .pushLink _ n _ | .pushCas _ n _ => n
  | .popFree n _ => n
  | .stRd1 k _ _ | .stChk1 k _ _ _ | .stRd2 k _ _ _ | .stChk2 k _ _ _ _ | .stLink k _ _ _ _
  | .stCas k _ _ => ownedK k
  | _ => 0

/-- tag of the anchor value held in the local variable `lrs` (0 if none) -/
def heldTag : Pc → Nat
  | .pushCasE _ _ a | .pushLink _ _ a | .pushCas _ _ a | .popCas1 _ a | .popChk _ a | .popRd _ a
  | .popCas _ a _ | .stRd1 _ _ a | .stChk1 _ _ a _ | .stRd2 _ _ a _ | .stChk2 _ _ a _ _
  | .stLink _ _ a _ _ | .stCas _ _ a => a.tag
  | _ => 0

/-- the node carried through a helping stabilisation is a real node -/
def KOk : Kont → Prop
  | .pushLoop _ n => n ≠ 0
  | _ => True

/-- what a thread at this program counter knows -/
def Loc (A : Anchor) (C : List Nat) (N : Nat → Node) : Pc → Prop
  | .pushLd _ n => n ≠ 0
  | .pushCasE d n a => n ≠ 0 ∧ a.endp d = 0
  | .pushLink d n a => n ≠ 0 ∧ a.endp d ≠ 0 ∧ a.st = 0
  | .pushCas d n a => n ≠ 0 ∧ a.endp d ≠ 0 ∧ a.st = 0 ∧ (A = a → (inward d (N n)).ptr = a.endp d)
  | .popCas1 d a => a.l = a.r ∧ a.endp d ≠ 0
  | .popChk _ a | .popRd _ a => a.l ≠ a.r ∧ a.st = 0
  | .popCas d a prev => a.l ≠ a.r ∧ a.st = 0 ∧ (A = a → Nbr d C (a.endp d) prev.ptr)
  | .popFree m _ => m ≠ 0
  | .stRd1 k d a => KOk k ∧ a.st = pushSt d
  | .stChk1 k d a prev | .stRd2 k d a prev | .stChk2 k d a prev _ | .stLink k d a prev _ =>
    KOk k ∧ a.st = pushSt d ∧ (A = a → Nbr d C (a.endp d) prev.ptr)
  | .stCas k d a =>
    KOk k ∧ a.st = pushSt d ∧ (A = a → ∀ p, Nbr d C (a.endp d) p → (outward d (N p)).ptr = a.endp d)
  | _ => True

structure Inv (s : St) : Prop where
  glob : Glob s.anchor s.chain s.nodes s.used
  loc : ∀ t, Loc s.anchor s.chain s.nodes (s.pc t)
  tags : ∀ t, heldTag (s.pc t) ≤ s.anchor.tag
  own : ∀ t, owned (s.pc t) ≠ 0 → s.used (owned (s.pc t)) = true ∧ owned (s.pc t) ∉ s.chain
  excl : ∀ t u, t ≠ u → owned (s.pc t) ≠ 0 → owned (s.pc t) ≠ owned (s.pc u)
  cons : s.pushed.Perm (s.popped ++ contents s)

theorem inv_init (n : Nat) : Inv (init n) := by
  refine ⟨⟨rfl, rfl, by simp [init], by simp [init], Or.inl rfl, by simp [init], by simp [init]⟩,
    ?_, ?_, ?_, ?_, ?_⟩ <;> simp [init, Loc, heldTag, owned, contents]

attribute [local grind] owned ownedK heldTag Loc kont KOk

/-- `Loc` only depends on the nodes through the chain members and the thread's own node -/
theorem loc_frame {A : Anchor} {C : List Nat} {N N' : Nat → Node} {p : Pc}
    (h : Loc A C N p) (hC : ∀ x, x ∈ C → N' x = N x) (hO : N' (owned p) = N (owned p)) :
    Loc A C N' p := by
  cases p <;> simp only [Loc] at h ⊢ <;> try exact h
  case pushCas d n a =>
    simp only [owned] at hO
    rw [hO]; exact h
  case stCas k d a =>
    refine ⟨h.1, h.2.1, fun he p hp => ?_⟩
    rw [hC p (nbr_mem hp).2]; exact h.2.2 he p hp

theorem contents_frame {C : List Nat} {N N' : Nat → Node} (hC : ∀ x, x ∈ C → (N' x).data = (N x).data) :
    C.map (fun n => (N' n).data) = C.map (fun n => (N n).data) :=
  List.map_congr_left hC

/-- A step of thread `t` that leaves anchor, chain and history alone. -/
theorem inv_upd_core {s : St} (hi : Inv s) (t : Nat) (p' : Pc) (N' : Nat → Node) (U' : Nat → Bool)
    (hg : Glob s.anchor s.chain N' U')
    (hloc : ∀ u, u ≠ t → Loc s.anchor s.chain N' (s.pc u))
    (hdata : ∀ x, x ∈ s.chain → (N' x).data = (s.nodes x).data)
    (hoU : ∀ u, u ≠ t → owned (s.pc u) ≠ 0 → U' (owned (s.pc u)) = true)
    (hl : Loc s.anchor s.chain N' p')
    (ht : heldTag p' ≤ s.anchor.tag)
    (ho : owned p' ≠ 0 → U' (owned p') = true ∧ owned p' ∉ s.chain)
    (he : ∀ u, u ≠ t → owned p' ≠ 0 → owned p' ≠ owned (s.pc u)) (st' : Bool) :
    Inv { s with nodes := N', used := U', pc := upd s.pc t p', stale := st' } := by
  refine ⟨hg, ?_, ?_, ?_, ?_, ?_⟩
  · intro u
    by_cases hu : u = t
    · subst hu; simpa [upd] using hl
    · simp only [upd, hu, if_false]
      exact hloc u hu
  · intro u
    by_cases hu : u = t
    · subst hu; simpa [upd] using ht
    · simp only [upd, hu, if_false]; exact hi.tags u
  · intro u
    by_cases hu : u = t
    · subst hu; simpa [upd] using ho
    · simp only [upd, hu, if_false]
      intro h0; exact ⟨hoU u hu h0, (hi.own u h0).2⟩
  · intro u v huv
    by_cases hu : u = t
    · subst hu
      have hv : v ≠ u := fun h => huv h.symm
      simp only [upd, hv, if_true, if_false]
      exact he v hv
    · by_cases hv : v = t
      · subst hv
        simp only [upd, hu, if_true, if_false]
        intro h0 heq
        by_cases hp0 : owned p' = 0
        · rw [hp0] at heq; exact h0 heq
        · exact he u hu hp0 heq.symm
      · simp only [upd, hu, hv, if_false]; exact hi.excl u v huv
  · have := hi.cons
    simp only [contents] at this ⊢
    rw [contents_frame hdata]
    exact this

/-- A step of thread `t` that leaves anchor, chain and history alone and touches no node of the
    chain and no node owned by another thread. -/
theorem inv_upd {s : St} (hi : Inv s) (t : Nat) (p' : Pc) (N' : Nat → Node) (U' : Nat → Bool)
    (hN : ∀ x, x ∈ s.chain → N' x = s.nodes x)
    (hU : ∀ x, x ∈ s.chain → U' x = true)
    (hoN : ∀ u, u ≠ t → N' (owned (s.pc u)) = s.nodes (owned (s.pc u)))
    (hoU : ∀ u, u ≠ t → owned (s.pc u) ≠ 0 → U' (owned (s.pc u)) = true)
    (hl : Loc s.anchor s.chain N' p')
    (ht : heldTag p' ≤ s.anchor.tag)
    (ho : owned p' ≠ 0 → U' (owned p') = true ∧ owned p' ∉ s.chain)
    (he : ∀ u, u ≠ t → owned p' ≠ 0 → owned p' ≠ owned (s.pc u)) :
    Inv { s with nodes := N', used := U', pc := upd s.pc t p' } :=
  inv_upd_core hi t p' N' U' (hi.glob.frame hN hU)
    (fun u hu => loc_frame (hi.loc u) hN (hoN u hu)) (fun x hx => by rw [hN x hx]) hoU hl ht ho he s.stale

theorem loc_kont {A : Anchor} {C : List Nat} {N : Nat → Node} {k : Kont} (h : KOk k) :
    Loc A C N (kont k) := by
  cases k <;> simp [kont, Loc] <;> exact h

theorem heldTag_kont (k : Kont) : heldTag (kont k) = 0 := by cases k <;> rfl
theorem owned_kont (k : Kont) : owned (kont k) = ownedK k := by cases k <;> rfl

/-- side conditions of `inv_upd` when neither nodes nor the used-map change -/
macro "same_heap" hi:ident : tactic => `(tactic| (
  first
  | exact fun _ _ => rfl
  | exact fun x hx => (Glob.mem (Inv.glob $hi) x hx).2
  | exact fun u _ h0 => (Inv.own $hi u h0).1))

theorem step_inv_inv {fx : Bool} {s s' : St} (hi : Inv s) (t : Nat) (push d : Bool) (v : Nat)
    (h : stepG fx s (.inv t push d v) = some s') : Inv s' := by
  simp only [stepG] at h
  split at h
  case isFalse => simp at h
  simp only [Option.some.injEq] at h; subst h
  exact inv_upd hi t _ s.nodes s.used (by same_heap hi) (by same_heap hi) (by same_heap hi) (by same_heap hi)
    (by cases push <;> simp [Loc]) (by cases push <;> simp [heldTag])
    (by cases push <;> simp [owned]) (by cases push <;> simp [owned])

theorem step_inv_ret {fx : Bool} {s s' : St} (hi : Inv s) (t : Nat) (ok : Bool) (v : Nat)
    (h : stepG fx s (.ret t ok v) = some s') : Inv s' := by
  simp only [stepG] at h
  split at h
  case isFalse => simp at h
  split at h
  case h_2 => simp at h
  split at h
  case isFalse => simp at h
  simp only [Option.some.injEq] at h; subst h
  exact inv_upd hi t _ s.nodes s.used (by same_heap hi) (by same_heap hi) (by same_heap hi) (by same_heap hi)
    (by simp [Loc]) (by simp [heldTag]) (by simp [owned]) (by simp [owned])

theorem step_inv_done {fx : Bool} {s s' : St} (hi : Inv s) (t : Nat)
    (h : stepG fx s (.done t) = some s') : Inv s' := by
  simp only [stepG] at h
  split at h
  case isFalse => simp at h
  simp only [Option.some.injEq] at h; subst h
  exact inv_upd hi t _ s.nodes s.used (by same_heap hi) (by same_heap hi) (by same_heap hi) (by same_heap hi)
    (by simp [Loc]) (by simp [heldTag]) (by simp [owned]) (by simp [owned])

theorem step_inv_free {fx : Bool} {s s' : St} (hi : Inv s) (t n : Nat)
    (h : stepG fx s (.free t n) = some s') : Inv s' := by
  simp only [stepG] at h
  split at h
  case isFalse => simp at h
  split at h
  case h_2 => simp at h
  rename_i m v hpc
  split at h
  case isFalse => simp at h
  simp only [Option.some.injEq] at h; subst h
  have hl := hi.loc t; rw [hpc] at hl; simp only [Loc] at hl
  have ho := hi.own t; rw [hpc] at ho; simp only [owned] at ho
  have ho := ho hl
  refine inv_upd hi t _ s.nodes _ (by same_heap hi) ?_ (by same_heap hi) ?_
    (by simp [Loc]) (by simp [heldTag]) (by simp [owned]) (by simp [owned])
  · intro x hx
    have : x ≠ m := by intro he; subst he; exact ho.2 hx
    simp [upd, this]; exact (hi.glob.mem x hx).2
  · intro u hu h0
    have := hi.excl t u (Ne.symm hu); rw [hpc] at this; simp only [owned] at this
    have := this hl
    simp [upd]; exact ⟨Ne.symm this, (hi.own u h0).1⟩

theorem step_inv_alloc {fx : Bool} {s s' : St} (hi : Inv s) (t n : Nat)
    (h : stepG fx s (.alloc t n) = some s') : Inv s' := by
  simp only [stepG] at h
  split at h
  case isFalse => simp at h
  rename_i hg
  obtain ⟨htn, hn0, hun⟩ := hg
  split at h
  case h_2 => simp at h
  rename_i d v hpc
  simp only [Option.some.injEq] at h; subst h
  have hne : ∀ u, owned (s.pc u) ≠ n := by
    intro u he
    by_cases h0 : owned (s.pc u) = 0
    · rw [h0] at he; exact hn0 he.symm
    · have := (hi.own u h0).1; rw [he, hun] at this; simp at this
  refine inv_upd hi t _ _ _ ?_ ?_ ?_ ?_ (by simpa [Loc] using hn0) (by simp [heldTag]) ?_ ?_
  · intro x hx
    have : x ≠ n := by intro he; subst he; have := (hi.glob.mem x hx).2; rw [hun] at this; simp at this
    simp [upd, this]
  · intro x hx; simp only [upd]; split <;> simp [(hi.glob.mem x hx).2]
  · intro u _; simp [upd, hne u]
  · intro u _ h0; simp only [upd]; split <;> simp [(hi.own u h0).1]
  · intro _; simp only [owned, upd, if_true, true_and]
    intro hx; have := (hi.glob.mem n hx).2; rw [hun] at this; simp at this
  · intro u _ _; simp only [owned]; exact Ne.symm (hne u)

/-- side conditions of `inv_upd` for a step that keeps the thread's owned node -/
theorem keep_owned {s : St} (hi : Inv s) (t : Nat) {p' : Pc} (h : owned p' = owned (s.pc t)) :
    (owned p' ≠ 0 → s.used (owned p') = true ∧ owned p' ∉ s.chain) ∧
    (∀ u, u ≠ t → owned p' ≠ 0 → owned p' ≠ owned (s.pc u)) := by
  rw [h]
  exact ⟨hi.own t, fun u hu h0 => hi.excl t u (Ne.symm hu) h0⟩

theorem step_inv_ld {fx : Bool} {s s' : St} (hi : Inv s) (t : Nat) (a : Anchor)
    (h : stepG fx s (.ld t a) = some s') : Inv s' := by
  simp only [stepG] at h
  split at h
  case isFalse => simp at h
  rename_i hg
  obtain ⟨htn, ha⟩ := hg
  subst ha
  have hl := hi.loc t
  split at h
  case h_3 => simp at h
  case h_1 d n hpc =>
    simp only [Option.some.injEq] at h; subst h
    rw [hpc] at hl; simp only [Loc] at hl
    have hk := fun p' (hp : owned p' = n) => keep_owned hi t (p' := p') (by rw [hpc]; simpa [owned] using hp)
    split
    · rename_i h0
      exact inv_upd hi t _ s.nodes s.used (by same_heap hi) (by same_heap hi) (by same_heap hi) (by same_heap hi)
        (by simp [Loc, hl, h0]) (by simp [heldTag]) (hk _ rfl).1 (hk _ rfl).2
    · split
      · rename_i h0 h1
        exact inv_upd hi t _ s.nodes s.used (by same_heap hi) (by same_heap hi) (by same_heap hi) (by same_heap hi)
          (by simp [Loc, hl, h0, h1]) (by simp [heldTag]) (hk _ rfl).1 (hk _ rfl).2
      · rename_i h0 h1
        exact inv_upd hi t _ s.nodes s.used (by same_heap hi) (by same_heap hi) (by same_heap hi) (by same_heap hi)
          (by simp only [Loc, KOk, stabSide]; exact ⟨hl, hi.glob.st_cases h1⟩) (by simp [heldTag])
          (hk _ rfl).1 (hk _ rfl).2
  case h_2 d hpc =>
    simp only [Option.some.injEq] at h; subst h
    have hk := fun p' (hp : owned p' = 0) => keep_owned hi t (p' := p') (by rw [hpc]; simpa [owned] using hp)
    split
    · exact inv_upd hi t _ s.nodes s.used (by same_heap hi) (by same_heap hi) (by same_heap hi) (by same_heap hi)
        (by simp [Loc]) (by simp [heldTag]) (hk _ rfl).1 (hk _ rfl).2
    · split
      · rename_i h0 h1
        exact inv_upd hi t _ s.nodes s.used (by same_heap hi) (by same_heap hi) (by same_heap hi) (by same_heap hi)
          (by simp [Loc, h0, h1]) (by simp [heldTag]) (hk _ rfl).1 (hk _ rfl).2
      · split
        · rename_i h0 h1 h2
          exact inv_upd hi t _ s.nodes s.used (by same_heap hi) (by same_heap hi) (by same_heap hi) (by same_heap hi)
            (by simp [Loc, h1, h2]) (by simp [heldTag]) (hk _ rfl).1 (hk _ rfl).2
        · rename_i h0 h1 h2
          exact inv_upd hi t _ s.nodes s.used (by same_heap hi) (by same_heap hi) (by same_heap hi) (by same_heap hi)
            (by simp only [Loc, KOk, stabSide]; exact ⟨trivial, hi.glob.st_cases h2⟩) (by simp [heldTag])
            (hk _ rfl).1 (hk _ rfl).2

theorem step_inv_chk {fx : Bool} {s s' : St} (hi : Inv s) (t : Nat) (same : Bool)
    (h : stepG fx s (.chk t same) = some s') : Inv s' := by
  simp only [stepG] at h
  split at h
  case isFalse => simp at h
  have hl := hi.loc t
  have ht := hi.tags t
  split at h
  case h_4 => simp at h
  case h_1 d a hpc =>
    split at h
    case isFalse => simp at h
    simp only [Option.some.injEq] at h; subst h
    rw [hpc] at hl ht; simp only [Loc] at hl; simp only [heldTag] at ht
    have hk := fun p' (hp : owned p' = 0) => keep_owned hi t (p' := p') (by rw [hpc]; simpa [owned] using hp)
    cases same
    · exact inv_upd hi t _ s.nodes s.used (by same_heap hi) (by same_heap hi) (by same_heap hi) (by same_heap hi)
        (by simp [Loc]) (by simp [heldTag]) (hk _ rfl).1 (hk _ rfl).2
    · exact inv_upd hi t _ s.nodes s.used (by same_heap hi) (by same_heap hi) (by same_heap hi) (by same_heap hi)
        (by simpa [Loc] using hl) (by simpa [heldTag] using ht) (hk _ rfl).1 (hk _ rfl).2
  case h_2 k d a prev hpc =>
    split at h
    case isFalse => simp at h
    simp only [Option.some.injEq] at h; subst h
    rw [hpc] at hl ht; simp only [Loc] at hl; simp only [heldTag] at ht
    have hk := fun p' (hp : owned p' = ownedK k) => keep_owned hi t (p' := p') (by rw [hpc]; simpa [owned] using hp)
    cases same
    · exact inv_upd hi t _ s.nodes s.used (by same_heap hi) (by same_heap hi) (by same_heap hi) (by same_heap hi)
        (loc_kont hl.1) (by simp [heldTag_kont]) (hk _ (owned_kont k)).1 (hk _ (owned_kont k)).2
    · exact inv_upd hi t _ s.nodes s.used (by same_heap hi) (by same_heap hi) (by same_heap hi) (by same_heap hi)
        (by simpa [Loc] using hl) (by simpa [heldTag] using ht) (hk _ rfl).1 (hk _ rfl).2
  case h_3 k d a prev pn hpc =>
    split at h
    case isFalse => simp at h
    simp only [Option.some.injEq] at h; subst h
    rw [hpc] at hl ht; simp only [Loc] at hl; simp only [heldTag] at ht
    have hk := fun p' (hp : owned p' = ownedK k) => keep_owned hi t (p' := p') (by rw [hpc]; simpa [owned] using hp)
    cases same
    · exact inv_upd hi t _ s.nodes s.used (by same_heap hi) (by same_heap hi) (by same_heap hi) (by same_heap hi)
        (loc_kont hl.1) (by simp [heldTag_kont]) (hk _ (owned_kont k)).1 (hk _ (owned_kont k)).2
    · exact inv_upd hi t _ s.nodes s.used (by same_heap hi) (by same_heap hi) (by same_heap hi) (by same_heap hi)
        (by simpa [Loc] using hl) (by simpa [heldTag] using ht) (hk _ rfl).1 (hk _ rfl).2

/-- a load of the inward link of the current end node names its chain neighbour -/
theorem rd_inward {s : St} (hi : Inv s) (d : Bool) (lk : Link) {X : Prop}
    (hs : s.anchor.st = 0 ∨ s.anchor.st = pushSt d) (hne : s.anchor.l ≠ s.anchor.r)
    (hg : (unknownLeft s d (s.anchor.endp d) = true ∧ X) ∨ lk = inward d (s.nodes (s.anchor.endp d))) :
    Nbr d s.chain (s.anchor.endp d) lk.ptr := by
  have hm := hi.glob.end_mem d (hi.glob.end_ne_zero d hne)
  have hu := (hi.glob.mem _ hm).2
  rcases hg with ⟨hg, _⟩ | hg
  · simp [unknownLeft, hu] at hg
  · rw [hg]; exact hi.glob.nbr_inward d hne hs

theorem step_inv_rd {fx : Bool} {s s' : St} (hi : Inv s) (t : Nat) (lk : Link)
    (h : stepG fx s (.rd t lk) = some s') : Inv s' := by
  simp only [stepG] at h
  split at h
  case isFalse => simp at h
  have hl := hi.loc t
  have ht := hi.tags t
  split at h
  case h_4 => simp at h
  case h_1 d a hpc =>
    split at h
    case isFalse => simp at h
    rename_i hg
    simp only [Option.some.injEq] at h; subst h
    rw [hpc] at hl ht; simp only [Loc] at hl; simp only [heldTag] at ht
    have hk := fun p' (hp : owned p' = 0) => keep_owned hi t (p' := p') (by rw [hpc]; simpa [owned] using hp)
    refine inv_upd hi t _ s.nodes s.used (by same_heap hi) (by same_heap hi) (by same_heap hi) (by same_heap hi)
      ?_ (by simpa [heldTag] using ht) (hk _ rfl).1 (hk _ rfl).2
    simp only [Loc]
    refine ⟨hl.1, hl.2, fun he => ?_⟩
    subst he
    exact rd_inward hi d lk (Or.inl hl.2) hl.1 hg
  case h_2 k d a hpc =>
    split at h
    case isFalse => simp at h
    rename_i hg
    simp only [Option.some.injEq] at h; subst h
    rw [hpc] at hl ht; simp only [Loc] at hl; simp only [heldTag] at ht
    have hk := fun p' (hp : owned p' = ownedK k) => keep_owned hi t (p' := p') (by rw [hpc]; simpa [owned] using hp)
    refine inv_upd hi t _ s.nodes s.used (by same_heap hi) (by same_heap hi) (by same_heap hi) (by same_heap hi)
      ?_ (by simpa [heldTag] using ht) (hk _ rfl).1 (hk _ rfl).2
    simp only [Loc]
    refine ⟨hl.1, hl.2, fun he => ?_⟩
    subst he
    have hst : s.anchor.st ≠ 0 := by rw [hl.2]; cases d <;> simp
    exact rd_inward hi d lk (Or.inr hl.2) (hi.glob.ends_ne_of_st hst) hg
  case h_3 k d a prev hpc =>
    split at h
    case isFalse => simp at h
    rename_i hg
    simp only [Option.some.injEq] at h; subst h
    rw [hpc] at hl ht; simp only [Loc] at hl; simp only [heldTag] at ht
    have hk := fun p' (hp : owned p' = ownedK k) => keep_owned hi t (p' := p') (by rw [hpc]; simpa [owned] using hp)
    split
    · exact inv_upd hi t _ s.nodes s.used (by same_heap hi) (by same_heap hi) (by same_heap hi) (by same_heap hi)
        (by simpa [Loc] using hl) (by simpa [heldTag] using ht) (hk _ rfl).1 (hk _ rfl).2
    · rename_i hptr
      refine inv_upd hi t _ s.nodes s.used (by same_heap hi) (by same_heap hi) (by same_heap hi) (by same_heap hi)
        ?_ (by simpa [heldTag] using ht) (hk _ rfl).1 (hk _ rfl).2
      simp only [Loc]
      refine ⟨hl.1, hl.2.1, fun he p hp => ?_⟩
      have hnb := hl.2.2 he
      have hpp := nbr_unique hi.glob.nodup hp hnb
      subst hpp
      have hu := (hi.glob.mem _ (nbr_mem hnb).2).2
      rcases hg.2 with ⟨hg2, _⟩ | hg2
      · simp [unknownLeft, hu] at hg2
      · rw [← hg2]; simpa using hptr

theorem step_inv_link {fx : Bool} {s s' : St} (hi : Inv s) (t n tgt : Nat)
    (h : stepG fx s (.link t n tgt) = some s') : Inv s' := by
  simp only [stepG] at h
  split at h
  case isFalse => simp at h
  split at h
  case h_2 => simp at h
  rename_i d m a hpc
  split at h
  case isFalse => simp at h
  simp only [Option.some.injEq] at h; subst h
  have hl := hi.loc t; rw [hpc] at hl; simp only [Loc] at hl
  have ht := hi.tags t; rw [hpc] at ht; simp only [heldTag] at ht
  have ho := hi.own t; rw [hpc] at ho; simp only [owned] at ho
  have ho := ho hl.1
  have hk := keep_owned hi t (p' := .pushCas d m a) (by rw [hpc]; simp [owned])
  refine inv_upd hi t _ _ s.used ?_ (by same_heap hi) ?_ (by same_heap hi)
    ?_ (by simpa [heldTag] using ht) hk.1 hk.2
  · intro x hx
    have : x ≠ m := by intro he; subst he; exact ho.2 hx
    simp [upd, this]
  · intro u hu
    have := hi.excl t u (Ne.symm hu); rw [hpc] at this
    change m ≠ 0 → m ≠ owned (s.pc u) at this
    have := this hl.1
    simp [upd, Ne.symm this]
  · simp only [Loc]
    exact ⟨hl.1, hl.2.1, hl.2.2, fun _ => by simp [upd]⟩

/-- `Loc` of any thread survives the (non-stale) link CAS of a stabilisation -/
theorem loc_lcas {A : Anchor} {C : List Nat} {N : Nat → Node} {p : Pc} {d : Bool} {P tg : Nat}
    (h : Loc A C N p) (hn : C.Nodup) (hP : Nbr d C (A.endp d) P) (hst : A.st = pushSt d)
    (hO : owned p ≠ P) :
    Loc A C (upd N P (setOutward d (N P) ⟨A.endp d, tg⟩)) p := by
  cases p <;> simp only [Loc] at h ⊢ <;> try exact h
  case pushCas d' n a =>
    simp only [owned] at hO
    simp only [upd, hO, if_false]; exact h
  case stCas k d' a =>
    refine ⟨h.1, h.2.1, fun he p hp => ?_⟩
    subst he
    have hd : d' = d := by
      have := h.2.1; rw [hst] at this
      cases d <;> cases d' <;> simp at this <;> rfl
    subst hd
    by_cases hpP : p = P
    · subst hpP; simp [upd]
    · simp only [upd, hpP, if_false]; exact h.2.2 rfl p hp

theorem step_inv_lcas {fx : Bool} {s s' : St} (hi : Inv s) (t : Nat) (ok : Bool)
    (h : stepG fx s (.lcas t ok) = some s') (hs : s'.stale = false) : Inv s' := by
  simp only [stepG] at h
  split at h
  case isFalse => simp at h
  split at h
  case h_2 => simp at h
  rename_i k d a prev pn hpc
  have hl := hi.loc t; rw [hpc] at hl; simp only [Loc] at hl
  have ht := hi.tags t; rw [hpc] at ht; simp only [heldTag] at ht
  have hk := fun p' (hp : owned p' = ownedK k) => keep_owned hi t (p' := p') (by rw [hpc]; simpa [owned] using hp)
  split at h
  case isFalse => simp at h
  split at h
  · simp only [Option.some.injEq] at h; subst h
    simp only [Bool.or_eq_false_iff, decide_eq_false_iff_not, Decidable.not_not] at hs
    have hA := hs.2
    have hP := hl.2.2 hA
    subst hA
    have hPm := (nbr_mem hP).2
    refine inv_upd_core hi t _ _ s.used (hi.glob.lcas d hP _) ?_ ?_ (by same_heap hi) ?_
      (by simpa [heldTag] using ht) (hk _ rfl).1 (hk _ rfl).2 _
    · intro u hu
      refine loc_lcas (hi.loc u) hi.glob.nodup hP hl.2.1 ?_
      intro he
      by_cases h0 : owned (s.pc u) = 0
      · rw [h0] at he; exact (hi.glob.mem _ hPm).1 he.symm
      · exact (hi.own u h0).2 (he ▸ hPm)
    · intro x _
      simp only [upd]; split
      · rename_i hx; subst hx; simp
      · rfl
    · simp only [Loc]
      refine ⟨hl.1, hl.2.1, fun _ p hp => ?_⟩
      have := nbr_unique hi.glob.nodup hp hP
      subst this
      simp [upd]
  · simp only [Option.some.injEq] at h; subst h
    exact inv_upd hi t _ s.nodes s.used (by same_heap hi) (by same_heap hi) (by same_heap hi) (by same_heap hi)
      (loc_kont hl.1) (by simp [heldTag_kont]) (hk _ (owned_kont k)).1 (hk _ (owned_kont k)).2

/-- knowledge guarded by `anchor = lrs` is vacuous once the anchor has a newer tag -/
theorem loc_new_anchor {A A' : Anchor} {C C' : List Nat} {N : Nat → Node} {p : Pc}
    (h : Loc A C N p) (ht : heldTag p ≤ A.tag) (hA : A.tag < A'.tag) : Loc A' C' N p := by
  cases p <;> simp only [Loc] at h ⊢ <;> simp only [heldTag] at ht <;> try exact h
  case pushCas d n a => exact ⟨h.1, h.2.1, h.2.2.1, fun he => by subst he; omega⟩
  case popCas d a prev => exact ⟨h.1, h.2.1, fun he => by subst he; omega⟩
  case stChk1 k d a prev => exact ⟨h.1, h.2.1, fun he => by subst he; omega⟩
  case stRd2 k d a prev => exact ⟨h.1, h.2.1, fun he => by subst he; omega⟩
  case stChk2 k d a prev pn => exact ⟨h.1, h.2.1, fun he => by subst he; omega⟩
  case stLink k d a prev pn => exact ⟨h.1, h.2.1, fun he => by subst he; omega⟩
  case stCas k d a => exact ⟨h.1, h.2.1, fun he => by subst he; omega⟩

/-- A successful anchor CAS of thread `t`. -/
theorem inv_cas_core {s : St} (hi : Inv s) (t : Nat) (p' : Pc) (A' : Anchor) (C' pu po : List Nat)
    (hA : s.anchor.tag < A'.tag)
    (hg : Glob A' C' s.nodes s.used)
    (hsub : ∀ u, u ≠ t → owned (s.pc u) ≠ 0 → owned (s.pc u) ∉ C')
    (hl : Loc A' C' s.nodes p')
    (ht : heldTag p' ≤ A'.tag)
    (ho : owned p' ≠ 0 → s.used (owned p') = true ∧ owned p' ∉ C')
    (he : ∀ u, u ≠ t → owned p' ≠ 0 → owned p' ≠ owned (s.pc u))
    (hc : pu.Perm (po ++ C'.map (fun n => (s.nodes n).data))) :
    Inv { s with anchor := A', chain := C', pushed := pu, popped := po, pc := upd s.pc t p' } := by
  refine ⟨hg, ?_, ?_, ?_, ?_, hc⟩
  · intro u
    by_cases hu : u = t
    · subst hu; simpa [upd] using hl
    · simp only [upd, hu, if_false]
      exact loc_new_anchor (hi.loc u) (hi.tags u) hA
  · intro u
    by_cases hu : u = t
    · subst hu; simpa [upd] using ht
    · simp only [upd, hu, if_false]; have := hi.tags u; omega
  · intro u
    by_cases hu : u = t
    · subst hu; simpa [upd] using ho
    · simp only [upd, hu, if_false]
      intro h0; exact ⟨(hi.own u h0).1, hsub u hu h0⟩
  · intro u v huv
    by_cases hu : u = t
    · subst hu
      have hv : v ≠ u := fun h => huv h.symm
      simp only [upd, hv, if_true, if_false]
      exact he v hv
    · by_cases hv : v = t
      · subst hv
        simp only [upd, hu, if_true, if_false]
        intro h0 heq
        by_cases hp0 : owned p' = 0
        · rw [hp0] at heq; exact h0 heq
        · exact he u hu hp0 heq.symm
      · simp only [upd, hu, hv, if_false]; exact hi.excl u v huv

theorem perm_push {P Q X : List Nat} (v : Nat) (h : P.Perm (Q ++ X)) (d : Bool) :
    (v :: P).Perm (Q ++ (if d then X ++ [v] else v :: X)) := by
  cases d
  · simp only [Bool.false_eq_true, if_false]
    exact (List.Perm.cons v h).trans List.perm_middle.symm
  · simp only [if_true]
    rw [← List.append_assoc]
    exact (List.Perm.cons v h).trans (List.perm_append_singleton v (Q ++ X)).symm

theorem perm_pop {P Q X : List Nat} (v : Nat) (d : Bool)
    (h : P.Perm (Q ++ (if d then X ++ [v] else v :: X))) : P.Perm ((v :: Q) ++ X) := by
  cases d
  · simp only [Bool.false_eq_true, if_false] at h
    exact h.trans List.perm_middle
  · simp only [if_true] at h
    rw [← List.append_assoc] at h
    exact h.trans (List.perm_append_singleton v (Q ++ X))

theorem map_chainPush (f : Nat → Nat) (d : Bool) (C : List Nat) (n : Nat) :
    (chainPush d C n).map f = (if d then C.map f ++ [f n] else f n :: C.map f) := by
  cases d <;> simp [chainPush]

theorem mem_chainPush {d : Bool} {C : List Nat} {n x : Nat} (h : x ∈ chainPush d C n) :
    x ∈ C ∨ x = n := by
  cases d <;> simp [chainPush] at h <;> rcases h with h | h <;> simp [h]

theorem step_inv_cas {fx : Bool} {s s' : St} (hi : Inv s) (t : Nat) (ok : Bool)
    (h : stepG fx s (.cas t ok) = some s') : Inv s' := by
  simp only [stepG] at h
  split at h
  case isFalse => simp at h
  have hl := hi.loc t
  have ht := hi.tags t
  have ho := hi.own t
  have hex := fun u (hu : u ≠ t) => hi.excl t u (Ne.symm hu)
  split at h
  case h_6 => simp at h
  case h_1 d n a hpc =>
    -- push into the empty deque
    split at h
    case isFalse => simp at h
    rename_i hok
    rw [hpc] at hl ht ho; simp only [Loc] at hl; simp only [heldTag] at ht
    change n ≠ 0 → _ at ho
    have ho := ho hl.1
    have hk := keep_owned hi t (p' := .pushLd d n) (by rw [hpc]; simp [owned])
    split at h
    · simp only [Option.some.injEq] at h; subst h
      subst hok
      simp only [decide_eq_true_eq] at *
      rename_i hA; subst hA
      have hnil := hi.glob.nil_of_end d hl.2
      refine inv_cas_core hi t _ _ _ _ _ (by simp) (hi.glob.push_empty d hl.2 hl.1 ho.1) ?_
        (by simp [Loc]) (by simp [heldTag]) (by simp [owned]) (by simp [owned]) ?_
      · intro u hu h0 hm
        rcases mem_chainPush hm with hm | hm
        · exact (hi.own u h0).2 hm
        · have := hex u hu; rw [hpc] at this; exact this hl.1 hm.symm
      · rw [map_chainPush]; exact perm_push _ hi.cons d
    · simp only [Option.some.injEq] at h; subst h
      exact inv_upd hi t _ s.nodes s.used (by same_heap hi) (by same_heap hi) (by same_heap hi) (by same_heap hi)
        (by simpa [Loc] using hl.1) (by simp [heldTag]) hk.1 hk.2
  case h_2 d n a hpc =>
    split at h
    case isFalse => simp at h
    rename_i hok
    rw [hpc] at hl ht ho; simp only [Loc] at hl; simp only [heldTag] at ht
    change n ≠ 0 → _ at ho
    have ho := ho hl.1
    have hk := keep_owned hi t (p' := .pushLd d n) (by rw [hpc]; simp [owned])
    split at h
    · simp only [Option.some.injEq] at h; subst h
      subst hok
      simp only [decide_eq_true_eq] at *
      rename_i hA; subst hA
      refine inv_cas_core hi t _ _ _ _ _ (by cases d <;> simp)
        (hi.glob.push d hl.2.2.1 hl.2.1 hl.1 ho.1 ho.2 (hl.2.2.2 rfl)) ?_
        (by cases d <;> simp [Loc, KOk]) (by cases d <;> simp [heldTag]) (by simp [owned, ownedK])
        (by simp [owned, ownedK]) ?_
      · intro u hu h0 hm
        rcases mem_chainPush hm with hm | hm
        · exact (hi.own u h0).2 hm
        · have := hex u hu; rw [hpc] at this; exact this hl.1 hm.symm
      · rw [map_chainPush]; exact perm_push _ hi.cons d
    · simp only [Option.some.injEq] at h; subst h
      exact inv_upd hi t _ s.nodes s.used (by same_heap hi) (by same_heap hi) (by same_heap hi) (by same_heap hi)
        (by simpa [Loc] using hl.1) (by simp [heldTag]) hk.1 hk.2
  case h_3 d a hpc =>
    split at h
    case isFalse => simp at h
    rename_i hok
    rw [hpc] at hl ht ho; simp only [Loc] at hl; simp only [heldTag] at ht
    have hk := keep_owned hi t (p' := .popLd d) (by rw [hpc]; simp [owned])
    split at h
    · simp only [Option.some.injEq] at h; subst h
      subst hok
      simp only [decide_eq_true_eq] at *
      rename_i hA; subst hA
      obtain ⟨hg', hC⟩ := hi.glob.pop_single d hl.1 hl.2
      have hE : s.anchor.endp d ∈ s.chain := by rw [hC]; simp
      have hpop : chainPop d s.chain = [] := by rw [hC]; cases d <;> rfl
      refine inv_cas_core hi t _ _ _ _ _ (by simp) hg' ?_
        (by simpa [Loc] using hl.2) (by simp [heldTag]) ?_ ?_ ?_
      · intro u _ _; rw [hpop]; simp
      · intro _; simp only [owned]; rw [hpop]; exact ⟨(hi.glob.mem _ hE).2, by simp⟩
      · intro u _ _ he; change s.anchor.endp d = owned (s.pc u) at he
        by_cases h0 : owned (s.pc u) = 0
        · rw [h0] at he; exact (hi.glob.mem _ hE).1 he
        · exact (hi.own u h0).2 (he ▸ hE)
      · have hc := hi.cons
        simp only [contents] at hc
        rw [hpop]
        rw [hC] at hc
        simpa using hc.trans (List.perm_append_singleton _ _)
    · simp only [Option.some.injEq] at h; subst h
      exact inv_upd hi t _ s.nodes s.used (by same_heap hi) (by same_heap hi) (by same_heap hi) (by same_heap hi)
        (by simp [Loc]) (by simp [heldTag]) hk.1 hk.2
  case h_4 d a prev hpc =>
    split at h
    case isFalse => simp at h
    rename_i hok
    rw [hpc] at hl ht ho; simp only [Loc] at hl; simp only [heldTag] at ht
    have hk := keep_owned hi t (p' := .popLd d) (by rw [hpc]; simp [owned])
    split at h
    · simp only [Option.some.injEq] at h; subst h
      subst hok
      simp only [decide_eq_true_eq] at *
      rename_i hA; subst hA
      obtain ⟨hg', hnot, hC⟩ := hi.glob.pop d hl.2.1 hl.1 (hl.2.2 rfl)
      have hE : s.anchor.endp d ∈ s.chain := hi.glob.end_mem d (hi.glob.end_ne_zero d hl.1)
      have hsubC : ∀ x, x ∈ chainPop d s.chain → x ∈ s.chain := by
        intro x hx; rw [hC]; cases d <;> simp [hx]
      refine inv_cas_core hi t _ _ _ _ _ (by cases d <;> simp) hg' ?_
        (by simpa [Loc] using (hi.glob.mem _ hE).1) (by simp [heldTag]) ?_ ?_ ?_
      · intro u _ h0 hm; exact (hi.own u h0).2 (hsubC _ hm)
      · intro _; simp only [owned]; exact ⟨(hi.glob.mem _ hE).2, hnot⟩
      · intro u _ _ he; change s.anchor.endp d = owned (s.pc u) at he
        by_cases h0 : owned (s.pc u) = 0
        · rw [h0] at he; exact (hi.glob.mem _ hE).1 he
        · exact (hi.own u h0).2 (he ▸ hE)
      · have hc := hi.cons
        simp only [contents] at hc
        rw [hC] at hc
        refine perm_pop _ d ?_
        cases d
        · simpa using hc
        · simpa using hc
    · simp only [Option.some.injEq] at h; subst h
      exact inv_upd hi t _ s.nodes s.used (by same_heap hi) (by same_heap hi) (by same_heap hi) (by same_heap hi)
        (by simp [Loc]) (by simp [heldTag]) hk.1 hk.2
  case h_5 k d a hpc =>
    split at h
    case isFalse => simp at h
    rename_i hok
    rw [hpc] at hl ht ho; simp only [Loc] at hl; simp only [heldTag] at ht
    have hk := keep_owned hi t (p' := kont k) (by rw [hpc, owned_kont]; rfl)
    split at h
    · simp only [Option.some.injEq] at h; subst h
      subst hok
      simp only [decide_eq_true_eq] at *
      rename_i hA; subst hA
      have hcons := hi.cons
      refine inv_cas_core hi t _ _ _ _ _ (by simp) (hi.glob.stab d hl.2.1 (hl.2.2 rfl)) ?_
        (loc_kont hl.1) (by simp [heldTag_kont]) hk.1 hk.2 hcons
      intro u _ h0; exact (hi.own u h0).2
    · simp only [Option.some.injEq] at h; subst h
      exact inv_upd hi t _ s.nodes s.used (by same_heap hi) (by same_heap hi) (by same_heap hi) (by same_heap hi)
        (loc_kont hl.1) (by simp [heldTag_kont]) hk.1 hk.2

/-- one accepted step, seen through the abstraction `contents`: nothing happens, or a value is
    inserted at end `d`, or the value at end `d` is removed and handed to the popping thread -/
def Lin (s s' : St) : Prop :=
  (contents s' = contents s ∧ s'.pushed = s.pushed ∧ s'.popped = s.popped) ∨
  (∃ (d : Bool) (v : Nat), contents s' = (if d then contents s ++ [v] else v :: contents s) ∧
      s'.pushed = v :: s.pushed ∧ s'.popped = s.popped) ∨
  (∃ (d : Bool) (v : Nat), contents s = (if d then contents s' ++ [v] else v :: contents s') ∧
      s'.popped = v :: s.popped ∧ s'.pushed = s.pushed ∧ ∃ t nd, s'.pc t = .popFree nd v)

theorem lin_same {s s' : St} (h1 : s'.chain = s.chain) (h2 : ∀ x, (s'.nodes x).data = (s.nodes x).data)
    (h3 : s'.pushed = s.pushed) (h4 : s'.popped = s.popped) : Lin s s' := by
  refine Or.inl ⟨?_, h3, h4⟩
  simp only [contents, h1]
  exact List.map_congr_left (fun x _ => h2 x)

theorem step_lin {fx : Bool} {s s' : St} {e : Ev} (hi : Inv s) (h : stepG fx s e = some s') : Lin s s' := by
  cases e with
  | inv t p d v =>
    simp only [stepG] at h; split at h <;> first | (simp at h; done) | skip
    simp only [Option.some.injEq] at h; subst h; exact lin_same rfl (fun _ => rfl) rfl rfl
  | done t =>
    simp only [stepG] at h; (repeat' split at h) <;> first | (simp at h; done) | skip
    simp only [Option.some.injEq] at h; subst h; exact lin_same rfl (fun _ => rfl) rfl rfl
  | ret t ok v =>
    simp only [stepG] at h; (repeat' split at h) <;> first | (simp at h; done) | skip
    simp only [Option.some.injEq] at h; subst h; exact lin_same rfl (fun _ => rfl) rfl rfl
  | free t n =>
    simp only [stepG] at h; (repeat' split at h) <;> first | (simp at h; done) | skip
    simp only [Option.some.injEq] at h; subst h; exact lin_same rfl (fun _ => rfl) rfl rfl
  | ld t a =>
    simp only [stepG] at h; (repeat' split at h) <;> first | (simp at h; done) | skip
    all_goals (simp only [Option.some.injEq] at h; subst h; exact lin_same rfl (fun _ => rfl) rfl rfl)
  | chk t b =>
    simp only [stepG] at h; (repeat' split at h) <;> first | (simp at h; done) | skip
    all_goals (simp only [Option.some.injEq] at h; subst h; exact lin_same rfl (fun _ => rfl) rfl rfl)
  | rd t lk =>
    simp only [stepG] at h; (repeat' split at h) <;> first | (simp at h; done) | skip
    all_goals (simp only [Option.some.injEq] at h; subst h; exact lin_same rfl (fun _ => rfl) rfl rfl)
  | link t n g =>
    simp only [stepG] at h; (repeat' split at h) <;> first | (simp at h; done) | skip
    simp only [Option.some.injEq] at h; subst h
    refine lin_same rfl (fun x => ?_) rfl rfl
    simp only [upd]; split
    · rename_i hx; subst hx; simp
    · rfl
  | lcas t ok =>
    simp only [stepG] at h; (repeat' split at h) <;> first | (simp at h; done) | skip
    · simp only [Option.some.injEq] at h; subst h
      refine lin_same rfl (fun x => ?_) rfl rfl
      simp only [upd]; split
      · rename_i hx; subst hx; simp
      · rfl
    · simp only [Option.some.injEq] at h; subst h; exact lin_same rfl (fun _ => rfl) rfl rfl
  | alloc t n =>
    simp only [stepG] at h
    split at h
    case isFalse => simp at h
    rename_i hg
    split at h
    case h_2 => simp at h
    simp only [Option.some.injEq] at h; subst h
    refine Or.inl ⟨?_, rfl, rfl⟩
    simp only [contents]
    refine List.map_congr_left (fun x hx => ?_)
    have : x ≠ n := by
      intro he; subst he; have := (hi.glob.mem x hx).2; rw [hg.2.2] at this; simp at this
    simp [upd, this]
  | cas t ok =>
    simp only [stepG] at h
    split at h
    case isFalse => simp at h
    have hl := hi.loc t
    split at h
    case h_6 => simp at h
    case h_1 d n a hpc =>
      split at h
      case isFalse => simp at h
      split at h
      · simp only [Option.some.injEq] at h; subst h
        refine Or.inr (Or.inl ⟨d, (s.nodes n).data, ?_, rfl, rfl⟩)
        simp only [contents, map_chainPush]
      · simp only [Option.some.injEq] at h; subst h; exact lin_same rfl (fun _ => rfl) rfl rfl
    case h_2 d n a hpc =>
      split at h
      case isFalse => simp at h
      split at h
      · simp only [Option.some.injEq] at h; subst h
        refine Or.inr (Or.inl ⟨d, (s.nodes n).data, ?_, rfl, rfl⟩)
        simp only [contents, map_chainPush]
      · simp only [Option.some.injEq] at h; subst h; exact lin_same rfl (fun _ => rfl) rfl rfl
    case h_3 d a hpc =>
      split at h
      case isFalse => simp at h
      rename_i hok
      rw [hpc] at hl; simp only [Loc] at hl
      split at h
      · simp only [Option.some.injEq] at h; subst h
        subst hok
        simp only [decide_eq_true_eq] at *
        rename_i hA; subst hA
        obtain ⟨_, hC⟩ := hi.glob.pop_single d hl.1 hl.2
        refine Or.inr (Or.inr ⟨d, (s.nodes (s.anchor.endp d)).data, ?_, rfl, rfl, t, s.anchor.endp d, by simp [upd]⟩)
        simp only [contents]
        rw [hC]
        cases d <;> simp [chainPop]
      · simp only [Option.some.injEq] at h; subst h; exact lin_same rfl (fun _ => rfl) rfl rfl
    case h_4 d a prev hpc =>
      split at h
      case isFalse => simp at h
      rename_i hok
      rw [hpc] at hl; simp only [Loc] at hl
      split at h
      · simp only [Option.some.injEq] at h; subst h
        subst hok
        simp only [decide_eq_true_eq] at *
        rename_i hA; subst hA
        obtain ⟨_, _, hC⟩ := hi.glob.pop d hl.2.1 hl.1 (hl.2.2 rfl)
        refine Or.inr (Or.inr ⟨d, (s.nodes (s.anchor.endp d)).data, ?_, rfl, rfl, t, s.anchor.endp d, by simp [upd]⟩)
        simp only [contents]
        conv => lhs; rw [hC]
        cases d <;> simp
      · simp only [Option.some.injEq] at h; subst h; exact lin_same rfl (fun _ => rfl) rfl rfl
    case h_5 k d a hpc =>
      split at h
      case isFalse => simp at h
      split at h
      · simp only [Option.some.injEq] at h; subst h; exact lin_same rfl (fun _ => rfl) rfl rfl
      · simp only [Option.some.injEq] at h; subst h; exact lin_same rfl (fun _ => rfl) rfl rfl

/-- `stale` is sticky -/
theorem stale_mono {fx : Bool} {s s' : St} {e : Ev} (h : stepG fx s e = some s') (hs : s'.stale = false) :
    s.stale = false := by
  cases e <;> simp only [stepG] at h <;> (repeat' split at h) <;>
    first
    | (simp at h; done)
    | (simp only [Option.some.injEq] at h; subst h; first | exact hs | (simp at hs; exact hs.1))

theorem step_inv {fx : Bool} {s s' : St} {e : Ev} (hi : Inv s) (h : stepG fx s e = some s') (hs : s'.stale = false) :
    Inv s' := by
  cases e with
  | inv t p d v => exact step_inv_inv hi t p d v h
  | alloc t n => exact step_inv_alloc hi t n h
  | ld t a => exact step_inv_ld hi t a h
  | chk t b => exact step_inv_chk hi t b h
  | rd t lk => exact step_inv_rd hi t lk h
  | link t n g => exact step_inv_link hi t n g h
  | lcas t ok => exact step_inv_lcas hi t ok h hs
  | cas t ok => exact step_inv_cas hi t ok h
  | free t n => exact step_inv_free hi t n h
  | ret t ok v => exact step_inv_ret hi t ok v h
  | done t => exact step_inv_done hi t h

/-- The invariant holds after every accepted log in which no link CAS was stale. -/
theorem inv_of_accepted {fx : Bool} {n : Nat} {log : List Ev} {s : St}
    (h : runLog (stepG fx) (init n) log = some s) (hs : s.stale = false) : Inv s := by
  have key : ∀ (log : List Ev) (s0 s : St), (s0.stale = false → Inv s0) →
      runLog (stepG fx) s0 log = some s → s.stale = false → Inv s := by
    intro log
    induction log with
    | nil => intro s0 s h0 h hs; simp at h; subst h; exact h0 hs
    | cons e es ih =>
      intro s0 s h0 h hs
      simp only [runLog] at h
      cases he : stepG fx s0 e with
      | none => simp [he] at h
      | some s1 =>
        simp only [he] at h
        exact ih s1 s (fun hs1 => step_inv (h0 (stale_mono he hs1)) he hs1) h hs
  exact key log (init n) s (fun _ => inv_init n) h hs

end PikaVerif.Deque
