import PikaVerif.Lemmas.CV2
/-!
# The holder of the internal lock is never blocked (C07t)

The termination bounds of `Props/C07t.lean` are bounds modulo spinning on the internal lock.  A
spinning episode lasts only while another thread holds the lock; this file shows that the holder,
running alone, releases it within `|queue| + 4` of its own events (`|queue|` only for the pop loop
of `notify_all` / the stop callback).
-/
namespace PikaVerif.CV
open PikaVerif

/-- the thread that produces an event -/
def actor : Ev → Nat
  | .inv t _ | .ret t _ | .ulAcq t | .ulRel t | .setFlag t _ | .pred t _ | .slAcq t | .slRel t
  | .cvEnq t _ _ | .popResume t _ _ _ | .cvNone t | .cvAll t _ | .popAll t _ _ _ | .cvWoke t _ _
  | .suspend t | .woke t | .sleep t | .timeout t | .done t | .stop0 t _ | .stop1 t _ | .stop2 t _
  | .stSeen t | .stAcq t _ | .stPush t _ | .stDeq t _ _ | .stFin t _ _ | .stInFin t | .stUnlink t _
  | .stSelf t _ | .stWaited t | .stRsDone t => t

/-- number of own events after which the holder has released the internal lock -/
def hm (c : Op) (q : Nat) : Pc → Nat
  | .locked => 3
  | .released => 2
  | .enq _ => 1
  | .sChk1 => 4
  | .sStopped => 1
  | .relk _ _ => 3
  | .post _ => 2
  | .postS _ => 1
  | .nDone => 1
  | .nLocked => if c = .notify true then q + 2 else 2
  | .nAll => q + 1
  | .cLocked _ => q + 2
  | .cAll _ => q + 1
  | _ => 0

def HoldRel (s : St) (r k : Nat) : Prop :=
  ∃ log s', log.length ≤ k ∧ (∀ e, e ∈ log → actor e = r) ∧ runLog step s log = some s' ∧ s'.lock = none

theorem holdRel_cons (s s1 : St) (e : Ev) (r k : Nat) (hst : step s e = some s1) (ha : actor e = r)
    (h : s1.lock = none ∨ HoldRel s1 r k) : HoldRel s r (k + 1) := by
  rcases h with h | ⟨log, s', h1, h2, h3, h4⟩
  · exact ⟨[e], s1, by simp, by intro e' he'; simp at he'; rw [he']; exact ha, by simp [runLog, hst], h⟩
  · refine ⟨e :: log, s', by simp; omega, ?_, by simp [runLog, hst, h3], h4⟩
    intro e' he'
    rcases List.mem_cons.1 he' with h5 | h5
    · rw [h5]; exact ha
    · exact h2 e' h5

theorem holdRel_mono (s : St) (r k k' : Nat) (hk : k ≤ k') (h : HoldRel s r k) : HoldRel s r k' := by
  obtain ⟨log, s', h1, h2, h3, h4⟩ := h
  exact ⟨log, s', by omega, h2, h3, h4⟩

theorem setPopped_of_linked {p : Pc} (h1 : inQ p = true) (h2 : holds p = false) : ∃ p', setPopped p = some p' := by
  cases p <;> simp [inQ, holds] at h1 h2 <;> simp [setPopped, h1]

set_option maxHeartbeats 1600000 in
/-- **The holder of the internal lock releases it within `hm` of its own events.** -/
theorem holder_releases : ∀ (k : Nat) (s : St) (r : Nat), Inv s → Inv2 s → s.lock = some r →
    hm (s.curOp r) s.queue.length (s.pc r) ≤ k → HoldRel s r k := by
  intro k
  induction k with
  | zero =>
    intro s r hA hB hl hk
    exfalso
    obtain ⟨hh, _⟩ := hA.lockConv r hl
    cases hp : s.pc r <;> simp [hp, holds] at hh <;> simp [hp, hm] at hk
    split at hk <;> omega
  | succ k ih =>
    intro s r hA hB hl hk
    obtain ⟨hh, hrn⟩ := hA.lockConv r hl
    have hop := hB.opOk r
    -- one step of the holder: the event, then either the lock is free or the induction hypothesis applies
    have go : ∀ (e : Ev) (s1 : St), step s e = some s1 → actor e = r →
        (s1.lock = none ∨ (s1.lock = some r ∧ hm (s1.curOp r) s1.queue.length (s1.pc r) ≤ k)) →
        HoldRel s r (k + 1) := by
      intro e s1 hst ha hn
      apply holdRel_cons s s1 e r k hst ha
      rcases hn with h | ⟨h1, h2⟩
      · exact Or.inl h
      · exact Or.inr (ih s1 r (step_inv s s1 e hA hst) (step_inv2 s s1 e hA hB hst) h1 h2)
    have popFront : ∀ g rest, inQ (s.pc r) = false → s.queue = g :: rest → ∃ p', setPopped (s.pc g) = some p' ∧ g ≠ r := by
      intro g rest hnq hq
      have hgq : g ∈ s.queue := by rw [hq]; simp
      have hginQ := (hA.qIff g).1 hgq
      have hgr : g ≠ r := by
        intro he; subst he
        rw [hnq] at hginQ; simp at hginQ
      have hnh : holds (s.pc g) = false := by
        cases hhg : holds (s.pc g) with
        | false => rfl
        | true => have := hA.lockHolder g hhg; rw [hl] at this; simp at this; exact absurd this.symm hgr
      obtain ⟨p', hp'⟩ := setPopped_of_linked hginQ hnh
      exact ⟨p', hp', hgr⟩
    cases hp : s.pc r <;> simp [hp, holds] at hh
    case locked =>
      have hu := hA.uHolder r (by simp [hp, holdsU])
      exact go (.ulRel r) _ (by simp [step, hrn, hu, hp] <;> rfl) rfl
        (Or.inr ⟨by simp [hl], by simp [upd, hm]; simp [hp, hm] at hk; omega⟩)
    case released =>
      exact go (.cvEnq r (s.queue.length + 1) (isTimed (s.curOp r))) _ (by simp [step, hrn, hl, hp] <;> rfl) rfl
        (Or.inr ⟨by simp [hl], by simp [upd, hm]; simp [hp, hm] at hk; omega⟩)
    case enq tm =>
      exact go (.slRel r) _ (by simp [step, hrn, hl, hp] <;> rfl) rfl (Or.inl rfl)
    case relk tm p =>
      cases p with
      | true =>
        exact go (.cvWoke r false tm) _ (by simp [step, hrn, hl, hp] <;> rfl) rfl
          (Or.inr ⟨by simp [hl], by simp [upd, hm]; simp [hp, hm] at hk; omega⟩)
      | false =>
        exact go (.cvWoke r true tm) _ (by simp [step, hrn, hl, hp] <;> rfl) rfl
          (Or.inr ⟨by simp [hl], by simp [upd, hm]; simp [hp, hm] at hk; omega⟩)
    case post b =>
      cases hst : (isStop (s.curOp r) && isTimed (s.curOp r)) with
      | false => exact go (.slRel r) _ (by simp [step, hrn, hl, hp, hst] <;> rfl) rfl (Or.inl rfl)
      | true =>
        have hc : s.curOp r = .swait true := by
          cases hc : s.curOp r <;> simp [hc, isStop, isTimed] at hst ⊢
          exact hst
        exact go (.stop2 r (b || s.stopReq)) _ (by simp [step, hrn, hl, hp, hc] <;> rfl) rfl
          (Or.inr ⟨by simp [hl], by simp [upd, hm]; simp [hp, hm] at hk; omega⟩)
    case postS b => exact go (.slRel r) _ (by simp [step, hrn, hl, hp] <;> rfl) rfl (Or.inl rfl)
    case nDone => exact go (.slRel r) _ (by simp [step, hrn, hl, hp] <;> rfl) rfl (Or.inl rfl)
    case sStopped => exact go (.slRel r) _ (by simp [step, hrn, hl, hp] <;> rfl) rfl (Or.inl rfl)
    case sChk1 =>
      cases hsr : s.stopReq with
      | true =>
        exact go (.stop1 r true) _ (by simp [step, hrn, hl, hp, hsr] <;> rfl) rfl
          (Or.inr ⟨by simp [hl], by simp [upd, hm]; simp [hp, hm] at hk; omega⟩)
      | false =>
        exact go (.stop1 r false) _ (by simp [step, hrn, hl, hp, hsr] <;> rfl) rfl
          (Or.inr ⟨by simp [hl], by simp [upd, hm]; simp [hp, hm] at hk; omega⟩)
    case cLocked kk =>
      exact go (.cvAll r s.queue.length) _ (by simp [step, hrn, hl, hp] <;> rfl) rfl
        (Or.inr ⟨by simp [hl], by simp [upd, hm]; simp [hp, hm] at hk; omega⟩)
    case nLocked =>
      rw [hp] at hop
      cases hc : s.curOp r <;> simp [hc, pcOpOk, isNotify] at hop
      rename_i all
      cases all with
      | true =>
        exact go (.cvAll r s.queue.length) _ (by simp [step, hrn, hl, hp, hc] <;> rfl) rfl
          (Or.inr ⟨by simp [hl], by simp [upd, hm]; simp [hp, hm, hc] at hk; omega⟩)
      | false =>
        cases hq : s.queue with
        | nil =>
          exact go (.cvNone r) _ (by simp [step, hrn, hl, hp, hq, hc] <;> rfl) rfl
            (Or.inr ⟨by simp [hl], by simp [upd, hm]; simp [hp, hm, hc] at hk; omega⟩)
        | cons g rest =>
          obtain ⟨p', hp', hgr⟩ := popFront g rest (by simp [hp, inQ]) hq
          cases hd : decide (s.pc g = .slp false) with
          | true =>
            exact go (.popResume r rest.length g true) _
              (by simp [step, hrn, hl, hp, hc, popCore, hq, hp', hd] <;> rfl) rfl
              (Or.inr ⟨by simp [hl], by simp [upd, hm]; simp [hp, hm, hc] at hk; omega⟩)
          | false =>
            exact go (.popResume r rest.length g false) _
              (by simp [step, hrn, hl, hp, hc, popCore, hq, hp', hd] <;> rfl) rfl
              (Or.inr ⟨by simp [hl], by simp [upd, hm]; simp [hp, hm, hc] at hk; omega⟩)
    case nAll =>
      cases hq : s.queue with
      | nil => exact go (.slRel r) _ (by simp [step, hrn, hl, hp, hq] <;> rfl) rfl (Or.inl rfl)
      | cons g rest =>
        obtain ⟨p', hp', hgr⟩ := popFront g rest (by simp [hp, inQ]) hq
        cases hd : decide (s.pc g = .slp false) with
        | true =>
          exact go (.popAll r rest.length g true) _
            (by simp [step, hrn, hl, hp, popCore, hq, hp', hd] <;> rfl) rfl
            (Or.inr ⟨by simp [hl], by simp [upd, hm]; simp [hp, hm, hq] at hk; omega⟩)
        | false =>
          exact go (.popAll r rest.length g false) _
            (by simp [step, hrn, hl, hp, popCore, hq, hp', hd] <;> rfl) rfl
            (Or.inr ⟨by simp [hl], by simp [upd, hm]; simp [hp, hm, hq] at hk; omega⟩)
    case cAll kk =>
      cases hq : s.queue with
      | nil => exact go (.slRel r) _ (by simp [step, hrn, hl, hp, hq] <;> rfl) rfl (Or.inl rfl)
      | cons g rest =>
        obtain ⟨p', hp', hgr⟩ := popFront g rest (by simp [hp, inQ]) hq
        cases hd : decide (s.pc g = .slp false) with
        | true =>
          exact go (.popAll r rest.length g true) _
            (by simp [step, hrn, hl, hp, popCore, hq, hp', hd] <;> rfl) rfl
            (Or.inr ⟨by simp [hl], by simp [upd, hm]; simp [hp, hm, hq] at hk; omega⟩)
        | false =>
          exact go (.popAll r rest.length g false) _
            (by simp [step, hrn, hl, hp, popCore, hq, hp', hd] <;> rfl) rfl
            (Or.inr ⟨by simp [hl], by simp [upd, hm]; simp [hp, hm, hq] at hk; omega⟩)

theorem hm_le (c : Op) (q : Nat) (p : Pc) : hm c q p ≤ q + 4 := by
  cases p <;> simp [hm] <;> (try split) <;> omega

end PikaVerif.CV
