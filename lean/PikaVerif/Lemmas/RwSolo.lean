import PikaVerif.Lemmas.RwProg
/-!
Solo bound for the `done()` frames of one thread (follow-up C04r): after a release, the releasing
thread running alone finishes every `done()` it has entered - including the ones entered by the
destructor cascade of detached accesses it grants - within
`soloRank` = (queued operation states) + (shared states whose head has not been exchanged) steps.
-/
namespace PikaVerif.Rw
open PikaVerif PikaVerif.C04

def qRank : Acc → Nat
  | .queued _ => 1
  | _ => 0

/-- queued operation states + shared states not yet exchanged -/
def soloRank (s : St) : Nat :=
  sumTo s.na (fun a => qRank (s.acc a)) + sumTo s.ng (fun g => dnRank (s.dn g))

theorem solo_setAcc (s s' : St) (a : Nat) (v : Acc) (ha : a < s.na) (h1 : s'.acc = upd s.acc a v)
    (h2 : s'.na = s.na) (h3 : s'.ng = s.ng) (h4 : ∀ g, dnRank (s'.dn g) = dnRank (s.dn g)) :
    soloRank s' + qRank (s.acc a) = soloRank s + qRank v := by
  have := sumTo_upd s.na qRank s.acc a v ha
  simp only [soloRank, h1, h2, h3, h4]
  omega

theorem solo_setDn (s s' : St) (g : Nat) (x : Dn) (hg : g < s.ng) (h1 : s'.acc = s.acc)
    (h2 : s'.na = s.na) (h3 : s'.ng = s.ng) (h4 : s'.dn = upd s.dn g x) :
    soloRank s' + dnRank (s.dn g) = soloRank s + dnRank x := by
  have := sumTo_upd s.ng dnRank s.dn g x hg
  simp only [soloRank, h1, h2, h3, h4]
  omega

theorem solo_decRc (s : St) (t g : Nat) (h : s.rc g = 1 → g + 1 < s.ng → s.dn (g + 1) = .idle) :
    soloRank (decRc s t g) = soloRank s := by
  obtain ⟨h1, h2, h3, _, _, _, _⟩ := decRc_fields s t g
  simp only [soloRank, h1, h2, h3, decRc_dnRank s t g h]

theorem solo_grant (s : St) (t a : Nat) (det : Bool) (ha : a < s.na)
    (h : s.rc (s.grp a) = 1 → s.grp a + 1 < s.ng → s.dn (s.grp a + 1) = .idle) :
    soloRank (grant s t a det) + qRank (s.acc a) = soloRank s := by
  have e0 : qRank (.granted 0) = 0 := rfl
  have e1 : qRank .released = 0 := rfl
  cases det with
  | false =>
    have := solo_setAcc s (grant s t a false) a (.granted 0) ha rfl rfl rfl (fun _ => rfl)
    omega
  | true =>
    have e : grant s t a true =
        decRc { s with grants := upd s.grants a (s.grants a + 1), acc := upd s.acc a .released } t (s.grp a) := rfl
    have hm := solo_decRc { s with grants := upd s.grants a (s.grants a + 1), acc := upd s.acc a .released } t (s.grp a) h
    rw [e, hm]
    have := solo_setAcc s { s with grants := upd s.grants a (s.grants a + 1), acc := upd s.acc a .released }
      a .released ha rfl rfl rfl (fun _ => rfl)
    omega

/-- thread `t` is inside `done()` of some shared state with a step to take -/
def TFrame (s : St) (t : Nat) : Prop :=
  ∃ g, g < s.ng ∧ (s.dn g = .pend t ∨ ∃ a r, s.dn g = .drain t (a :: r))

/-- a step of `done()` executed by thread `t` -/
def IsDone (t : Nat) (e : Ev) : Prop :=
  (∃ g c, e = .xchg t g c) ∨ (∃ g ack d, e = .cont t g ack d)

theorem reachable_step' {s s' : St} {e : Ev} (hr : Reachable s) (h : step s e = some s') : Reachable s' := by
  obtain ⟨log, hlog⟩ := hr
  refine ⟨log ++ [e], ?_⟩
  rw [runLog_append, hlog]; simp [runLog, h]

/-- a pending `done()` frame always has an enabled step, and the step consumes one unit of `soloRank` -/
theorem solo_step (s : St) (hr : Reachable s) (t : Nat) (hf : TFrame s t) :
    ∃ e s1, IsDone t e ∧ step s e = some s1 ∧ soloRank s1 + 1 = soloRank s := by
  obtain ⟨log, hlog⟩ := hr
  have hi := inv_of_accepted hlog
  obtain ⟨g, hg, hd | ⟨a', rest, hd⟩⟩ := hf
  · have h1 := hi.headDn g hg
    rw [hd] at h1
    cases hh : s.head g with
    | none => rw [hh] at h1; simp [isDrain] at h1
    | some q =>
      refine ⟨.xchg t g (clsOf q), { s with head := upd s.head g none, dn := upd s.dn g (.drain t q) },
        Or.inl ⟨g, _, rfl⟩, by simp [step, hd, hh, hg], ?_⟩
      have := solo_setDn s { s with head := upd s.head g none, dn := upd s.dn g (.drain t q) } g (.drain t q)
        hg rfl rfl rfl rfl
      rw [hd] at this; simp only [dnRank] at this
      omega
  · have h1 := hi.headDn g hg
    rw [hd] at h1
    have hh : s.head g = none := by cases hh : s.head g <;> simp_all [isDrain]
    have hm' : a' ∈ qof s g := by simp [qof, qofF, hh, hd]
    obtain ⟨m1, m2, m3⟩ := (hi.qMem _ a' hg).1 hm'
    cases hx' : s.acc a' with
    | queued det' =>
      refine ⟨.cont t g (ackOf det' a') (grantDies s a' det'),
        grant { s with dn := upd s.dn g (.drain t rest) } t a' det',
        Or.inr ⟨g, _, _, rfl⟩, by simp [step, hd, hx', m2], ?_⟩
      have h0 := solo_setDn s { s with dn := upd s.dn g (.drain t rest) } g (.drain t rest) hg rfl rfl rfl rfl
      rw [hd] at h0; simp only [dnRank] at h0
      have := solo_grant { s with dn := upd s.dn g (.drain t rest) } t a' det' m1 (by
        intro h1 h2
        have hne : s.grp a' + 1 ≠ g := by omega
        show upd s.dn g (.drain t rest) (s.grp a' + 1) = .idle
        rw [upd_other _ _ _ _ hne]
        exact dn_next_idle hi h1 h2)
      have hx'' : ({ s with dn := upd s.dn g (.drain t rest) } : St).acc a' = .queued det' := hx'
      rw [hx''] at this; simp only [qRank] at this
      omega
    | _ => rw [hx'] at m3; simp [isQ] at m3

/-- **Solo completion of all `done()` frames of a thread**, with exact accounting. -/
theorem solo_run (t : Nat) : ∀ (n : Nat) (s : St), Reachable s → soloRank s ≤ n →
    ∃ es s', (∀ e, e ∈ es → IsDone t e) ∧ runLog step s es = some s' ∧
      es.length + soloRank s' = soloRank s ∧ ¬ TFrame s' t := by
  intro n
  induction n with
  | zero =>
    intro s hr hn
    by_cases hf : TFrame s t
    · obtain ⟨e, s1, _, _, h3⟩ := solo_step s hr t hf
      omega
    · exact ⟨[], s, by simp, rfl, by simp, hf⟩
  | succ k ih =>
    intro s hr hn
    by_cases hf : TFrame s t
    · obtain ⟨e, s1, h1, h2, h3⟩ := solo_step s hr t hf
      obtain ⟨es, s', e1, e2, e3, e4⟩ := ih s1 (reachable_step' hr h2) (by omega)
      refine ⟨e :: es, s', ?_, ?_, ?_, e4⟩
      · intro x hx; simp at hx; rcases hx with hx | hx
        · subst hx; exact h1
        · exact e1 x hx
      · simp only [runLog, h2]; exact e2
      · simp only [List.length_cons]; omega
    · exact ⟨[], s, by simp, rfl, by simp, hf⟩

/-- a release does not change `soloRank` (it may enter `done()` of the next shared state, whose
    exchange was already counted) -/
theorem solo_rel (s s1 : St) (hi : Inv s) (t a : Nat) (d : Bool) (h : step s (.rel t a d) = some s1) :
    soloRank s1 = soloRank s := by
  simp only [step] at h
  split at h
  · rename_i c hx
    have ha : a < s.na := lt_of_acc hi (by rw [hx]; simp)
    split at h
    · simp only [Option.some.injEq] at h; subst h
      rw [solo_decRc]
      · have := solo_setAcc s { s with acc := upd s.acc a (relAcc c) } a (relAcc c) ha rfl rfl rfl (fun _ => rfl)
        have hq : qRank (relAcc c) = 0 := by cases c <;> rfl
        rw [hx, hq] at this; simp only [qRank] at this
        omega
      · intro h1 h2
        exact dn_next_idle hi h1 h2
    · simp at h
  · simp at h

end PikaVerif.Rw
