import PikaVerif.Lemmas.ElasticT
/-! Counter conservation of the `Elastic` model (C19t): queue length = placements − takes. -/
namespace PikaVerif.Elastic
open PikaVerif

def isIncOn (w : Nat) : Ev → Bool
  | .inc _ u => u == w
  | _ => false

def isDecOn (w : Nat) : Ev → Bool
  | .dec _ u => u == w
  | _ => false

def isIncLow : Ev → Bool
  | .incLow _ => true
  | _ => false

def isDecLow : Ev → Bool
  | .decLow _ => true
  | _ => false

def cntP (p : Ev → Bool) : List Ev → Nat
  | [] => 0
  | e :: es => b2n (p e) + cntP p es

theorem q_step (s s' : St) (e : Ev) (w : Nat) (h : step s e = some s') :
    (s'.wk w).q + b2n (isDecOn w e) = (s.wk w).q + b2n (isIncOn w e) ∧
    s'.lowq + b2n (isDecLow e) = s.lowq + b2n (isIncLow e) := by
  cases e
  all_goals (
    simp only [step] at h
    repeat' split at h
    all_goals first | (simp at h; done) | skip
    all_goals (
      simp only [Option.some.injEq] at h
      subst h
      simp only [isDecOn, isIncOn, isDecLow, isIncLow, b2n, upd]
      first
      | (simp; done)
      | (split <;> simp_all <;> omega)
      | (simp; split <;> simp_all <;> omega)
      | (simp; omega)))

theorem q_runLog (log : List Ev) (w : Nat) : ∀ (s s' : St), runLog step s log = some s' →
    (s'.wk w).q + cntP (isDecOn w) log = (s.wk w).q + cntP (isIncOn w) log ∧
    s'.lowq + cntP isDecLow log = s.lowq + cntP isIncLow log := by
  induction log with
  | nil => intro s s' h; simp at h; subst h; simp [cntP]
  | cons e es ih =>
    intro s s' h
    simp only [runLog] at h
    cases hs : step s e with
    | none => simp [hs] at h
    | some s1 =>
      simp only [hs] at h
      have h1 := q_step s s1 e w hs
      have h2 := ih s1 s' h
      simp only [cntP]
      omega

end PikaVerif.Elastic
