import PikaVerif.Model.Life
/-! Inductive invariant of the life-cycle model. -/
namespace PikaVerif.Life
open PikaVerif

def nlive (s : St) : Nat := sumTo s.no (fun o => b2n (s.live o))

structure Inv (s : St) : Prop where
  /-- the counter is exactly: creations in flight + staged descriptions + live thread objects
      + destructions in flight -/
  count : s.cnt = s.creating + s.staged + s.destroying + nlive s
  history : s.cnt + s.finished = s.started
  liveBound : ∀ o, s.live o = true → o < s.no
  curLive : ∀ a o, s.cur a = some o → s.live o = true ∧ s.running o = true
  curInj : ∀ a b o, s.cur a = some o → s.cur b = some o → a = b
  curWorker : ∀ a, (s.cur a).isSome = true → s.worker a = true ∧ s.asleep a = false
  asleepWorker : ∀ a, s.asleep a = true → s.worker a = true
  workerBound : ∀ a, s.worker a = true → a < s.na
  nworkersSum : s.nworkers = sumTo s.na (fun a => b2n (s.worker a))
  nsleepSum : s.nsleep = sumTo s.na (fun a => b2n (s.asleep a))
  suspendedAll : s.ph = .suspended → s.nsleep = s.nworkers
  awake : s.ph ≠ .suspending → s.ph ≠ .suspended → s.ph ≠ .resuming → s.ph ≠ .stopping → s.nsleep = 0
  stoppingDrained : (s.ph = .stopping ∨ s.ph = .none) → s.cnt = 0
  stopPc : (s.spc = .drained ∨ s.spc = .waited ∨ s.spc = .halted) ↔ s.ph = .stopping
  stopFin : s.spc ≠ .out → s.spc ≠ .entered → s.fin = true
  stopperSome : s.spc ≠ .out → s.stopper.isSome = true
  noneOut : s.ph = .none → s.nworkers = 0
  startOut : (s.ph = .none ∨ s.ph = .starting) → s.spc = .out
  outStopper : s.spc = .out → s.stopper = none
  stopperNotWorker : ∀ a, s.stopper = some a → s.worker a = false
  cfgWorkers : s.ph ≠ .none → s.ph ≠ .starting → s.nworkers = s.cfg.th
  stopperBound : ∀ a, s.stopper = some a → a < s.na

theorem inv_init (na no : Nat) : Inv (init na no) := by
  refine ⟨?_, ?_, ?_, ?_, ?_, ?_, ?_, ?_, ?_, ?_, ?_, ?_, ?_, ?_, ?_, ?_, ?_, ?_, ?_, ?_, ?_, ?_⟩ <;>
    simp [init, nlive, b2n, sumTo_eq_zero]

attribute [local grind] b2n

set_option hygiene false in
macro "life_step" : tactic => `(tactic| (
  simp only [step] at h
  obtain ⟨h1,h1b,h2,h3,h3b,h4,h5,h6,h7,h8,h9,h10,h11,h12,h13,h14,h15,h16,h17,h18,h19,h20⟩ := hi
  simp only [nlive] at h1
  repeat' split at h
  all_goals first | (simp at h; done) | skip
  all_goals (
    simp only [Option.some.injEq] at h
    subst h
    refine ⟨?_, ?_, ?_, ?_, ?_, ?_, ?_, ?_, ?_, ?_, ?_, ?_, ?_, ?_, ?_, ?_, ?_, ?_, ?_, ?_, ?_, ?_⟩ <;> (try dsimp only [nlive])
  )
  all_goals first
    | assumption
    | (intro u; grind [upd])
    | (intro u v; grind [upd])
    | (intro u v w; grind [upd])
    | grind [upd]))

theorem step_inv_inc (s s' : St) (a n : Nat) (hi : Inv s) (h : step s (.inc a n) = some s') : Inv s' := by life_step
theorem step_inv_dec (s s' : St) (a n : Nat) (hi : Inv s) (h : step s (.dec a n) = some s') : Inv s' := by life_step
theorem step_inv_stage (s s' : St) (a : Nat) (hi : Inv s) (h : step s (.stage a) = some s') : Inv s' := by life_step
theorem step_inv_unstage (s s' : St) (a : Nat) (hi : Inv s) (h : step s (.unstage a) = some s') : Inv s' := by life_step

theorem step_inv_phaseBegin (s s' : St) (a o : Nat) (hi : Inv s) (h : step s (.phaseBegin a o) = some s') : Inv s' := by life_step
theorem step_inv_phaseEnd (s s' : St) (a o : Nat) (hi : Inv s) (h : step s (.phaseEnd a o) = some s') : Inv s' := by life_step
theorem step_inv_body (s s' : St) (a o : Nat) (hi : Inv s) (h : step s (.body a o) = some s') : Inv s' := by life_step
theorem step_inv_sample (s s' : St) (a v w : Nat) (hi : Inv s) (h : step s (.sample a v w) = some s') : Inv s' := by life_step
theorem step_inv_rtState (s s' : St) (a v : Nat) (hi : Inv s) (h : step s (.rtState a v) = some s') : Inv s' := by life_step
theorem step_inv_result (s s' : St) (a v : Nat) (hi : Inv s) (h : step s (.result a v) = some s') : Inv s' := by life_step
theorem step_inv_fin (s s' : St) (a : Nat) (hi : Inv s) (h : step s (.fin a) = some s') : Inv s' := by life_step
theorem step_inv_stopEnter (s s' : St) (a : Nat) (hi : Inv s) (h : step s (.stopEnter a) = some s') : Inv s' := by life_step
theorem step_inv_waitFin (s s' : St) (a : Nat) (hi : Inv s) (h : step s (.waitFin a) = some s') : Inv s' := by life_step
theorem step_inv_waited (s s' : St) (a r : Nat) (hi : Inv s) (h : step s (.waited a r) = some s') : Inv s' := by life_step
theorem step_inv_suspendEnter (s s' : St) (a : Nat) (hi : Inv s) (h : step s (.suspendEnter a) = some s') : Inv s' := by life_step
theorem step_inv_resumeEnter (s s' : St) (a : Nat) (hi : Inv s) (h : step s (.resumeEnter a) = some s') : Inv s' := by life_step
theorem step_inv_waitEnter (s s' : St) (a : Nat) (hi : Inv s) (h : step s (.waitEnter a) = some s') : Inv s' := by life_step
theorem step_inv_waitExit (s s' : St) (a : Nat) (hi : Inv s) (h : step s (.waitExit a) = some s') : Inv s' := by life_step
theorem step_inv_reqCfg (s s' : St) (a t p : Nat) (hi : Inv s) (h : step s (.reqCfg a t p) = some s') : Inv s' := by life_step
theorem step_inv_seenCfg (s s' : St) (a t p : Nat) (hi : Inv s) (h : step s (.seenCfg a t p) = some s') : Inv s' := by life_step

set_option hygiene false in
macro "life_step_sum" : tactic => `(tactic| (
  simp only [step] at h
  obtain ⟨h1,h1b,h2,h3,h3b,h4,h5,h6,h7,h8,h9,h10,h11,h12,h13,h14,h15,h16,h17,h18,h19,h20⟩ := hi
  simp only [nlive] at h1
  split at h
  case isFalse => simp at h
  rename_i hg
  simp only [Option.some.injEq] at h
  subst h
  refine ⟨?_, ?_, ?_, ?_, ?_, ?_, ?_, ?_, ?_, ?_, ?_, ?_, ?_, ?_, ?_, ?_, ?_, ?_, ?_, ?_, ?_, ?_⟩ <;> (try dsimp only [nlive])
  all_goals first
    | assumption
    | (intro u; grind [upd])
    | (intro u v; grind [upd])
    | (intro u v w; grind [upd])
    | (rw [sumTo_upd_eq _ _ _ _ _ hg.2.1]; have := le_sumTo (f := fun u => b2n (s.live u)) hg.2.1; grind)
    | (rw [sumTo_upd_eq _ _ _ _ _ hg.1]; have := le_sumTo (f := fun u => b2n (s.worker u)) hg.1; have := le_sumTo (f := fun u => b2n (s.asleep u)) hg.1; grind)
    | grind [upd]))

theorem step_inv_new (s s' : St) (a o : Nat) (hi : Inv s) (h : step s (.new a o) = some s') : Inv s' := by life_step_sum
theorem step_inv_destroy (s s' : St) (a o : Nat) (hi : Inv s) (h : step s (.destroy a o) = some s') : Inv s' := by life_step_sum
theorem step_inv_worker (s s' : St) (a : Nat) (hi : Inv s) (h : step s (.worker a) = some s') : Inv s' := by life_step_sum
theorem step_inv_sleep (s s' : St) (a : Nat) (hi : Inv s) (h : step s (.sleep a) = some s') : Inv s' := by life_step_sum
theorem step_inv_wake (s s' : St) (a : Nat) (hi : Inv s) (h : step s (.wake a) = some s') : Inv s' := by life_step_sum

/-- counter zero: nothing in flight, nothing staged, no live object -/
theorem drained_of_cnt_zero {s : St} (hi : Inv s) (h0 : s.cnt = 0) :
    s.creating = 0 ∧ s.staged = 0 ∧ s.destroying = 0 ∧ ∀ o, s.live o = false := by
  have h1 := hi.count
  rw [h0] at h1
  refine ⟨by omega, by omega, by omega, ?_⟩
  intro o
  cases hl : s.live o with
  | false => rfl
  | true =>
    have hb := hi.liveBound o hl
    have h2 : b2n (s.live o) ≤ sumTo s.no (fun u => b2n (s.live u)) :=
      le_sumTo (f := fun u => b2n (s.live u)) hb
    simp only [nlive] at h1
    rw [hl] at h2
    have h3 : b2n true = 1 := rfl
    omega

theorem step_inv_stopExit (s s' : St) (a r : Nat) (hi : Inv s) (h : step s (.stopExit a r) = some s') : Inv s' := by
  simp only [step] at h
  split at h
  case isFalse => simp at h
  rename_i hg
  have hst : s.ph = .stopping := hi.stopPc.1 (Or.inr (Or.inr hg.2.1))
  have hd := drained_of_cnt_zero hi (hi.stoppingDrained (Or.inl hst))
  have hcur : ∀ b, s.cur b = none := by
    intro b
    cases hc : s.cur b with
    | none => rfl
    | some o => have := (hi.curLive b o hc).1; rw [hd.2.2.2 o] at this; cases this
  obtain ⟨h1,h1b,h2,h3,h3b,h4,h5,h6,h7,h8,h9,h10,h11,h12,h13,h14,h15,h16,h17,h18,h19,h20⟩ := hi
  simp only [Option.some.injEq] at h
  subst h
  refine ⟨?_, ?_, ?_, ?_, ?_, ?_, ?_, ?_, ?_, ?_, ?_, ?_, ?_, ?_, ?_, ?_, ?_, ?_, ?_, ?_, ?_, ?_⟩ <;> (try dsimp only [nlive])
  all_goals first
    | assumption
    | (intro u; simp [hcur]; done)
    | (simp [sumTo_eq_zero, b2n]; done)
    | (intro u; grind)
    | grind

theorem step_inv (s s' : St) (e : Ev) (hi : Inv s) (h : step s e = some s') : Inv s' := by
  cases e with
  | inc a n => exact step_inv_inc s s' a n hi h
  | dec a n => exact step_inv_dec s s' a n hi h
  | stage a => exact step_inv_stage s s' a hi h
  | unstage a => exact step_inv_unstage s s' a hi h
  | new a o => exact step_inv_new s s' a o hi h
  | destroy a o => exact step_inv_destroy s s' a o hi h
  | phaseBegin a o => exact step_inv_phaseBegin s s' a o hi h
  | phaseEnd a o => exact step_inv_phaseEnd s s' a o hi h
  | body a o => exact step_inv_body s s' a o hi h
  | sample a v w => exact step_inv_sample s s' a v w hi h
  | rtState a v => exact step_inv_rtState s s' a v hi h
  | result a r => exact step_inv_result s s' a r hi h
  | fin a => exact step_inv_fin s s' a hi h
  | stopEnter a => exact step_inv_stopEnter s s' a hi h
  | waitFin a => exact step_inv_waitFin s s' a hi h
  | waited a r => exact step_inv_waited s s' a r hi h
  | stopExit a r => exact step_inv_stopExit s s' a r hi h
  | suspendEnter a => exact step_inv_suspendEnter s s' a hi h
  | resumeEnter a => exact step_inv_resumeEnter s s' a hi h
  | worker a => exact step_inv_worker s s' a hi h
  | sleep a => exact step_inv_sleep s s' a hi h
  | wake a => exact step_inv_wake s s' a hi h
  | waitEnter a => exact step_inv_waitEnter s s' a hi h
  | waitExit a => exact step_inv_waitExit s s' a hi h
  | reqCfg a t p => exact step_inv_reqCfg s s' a t p hi h
  | seenCfg a t p => exact step_inv_seenCfg s s' a t p hi h

theorem inv_of_accepted {na no : Nat} {log : List Ev} {s : St}
    (h : runLog step (init na no) log = some s) : Inv s :=
  inv_of_runLog Inv (fun s e s' => step_inv s s' e) (inv_init na no) h

/-! ## Sum lemmas used by the property theorems -/

theorem two_le_sumTo {n : Nat} {f : Nat → Nat} {i j : Nat} (hi : i < n) (hj : j < n) (hne : i ≠ j) :
    f i + f j ≤ sumTo n f := by
  induction n with
  | zero => exact absurd hi (Nat.not_lt_zero _)
  | succ k ih =>
    simp only [sumTo_succ]
    by_cases hik : i = k
    · subst hik
      have : j < i := by omega
      have := le_sumTo (f := f) this
      omega
    · by_cases hjk : j = k
      · subst hjk
        have : i < j := by omega
        have := le_sumTo (f := f) this
        omega
      · have := ih (by omega) (by omega)
        omega

theorem sumTo_le_sumTo {n : Nat} {f g : Nat → Nat} (hle : ∀ t, t < n → f t ≤ g t) :
    sumTo n f ≤ sumTo n g := by
  induction n with
  | zero => exact Nat.le_refl _
  | succ k ih =>
    simp only [sumTo_succ]
    have := ih (fun t ht => hle t (Nat.lt_succ_of_lt ht))
    have := hle k (Nat.lt_succ_self k)
    omega

theorem sumTo_eq_pointwise {n : Nat} {f g : Nat → Nat} (hle : ∀ t, t < n → f t ≤ g t)
    (heq : sumTo n f = sumTo n g) : ∀ t, t < n → f t = g t := by
  induction n with
  | zero => intro t ht; exact absurd ht (Nat.not_lt_zero _)
  | succ k ih =>
    simp only [sumTo_succ] at heq
    have h1 := sumTo_le_sumTo (f := f) (g := g) (fun t ht => hle t (Nat.lt_succ_of_lt ht))
    have h2 := hle k (Nat.lt_succ_self k)
    intro t ht
    by_cases htk : t = k
    · subst htk; omega
    · exact ih (fun t ht => hle t (Nat.lt_succ_of_lt ht)) (by omega) t (by omega)

end PikaVerif.Life
