import PikaVerif.Lemmas.Once2c
/-! Preservation of `InvP` by the individual events (part d). -/
namespace PikaVerif.Once
open PikaVerif
set_option maxHeartbeats 1600000
attribute [local grind] holds inQ b2n tokOf pcOpOk ctxOk isCall wDone sDone entry popd
  isOnce needsSet runW ranOkW setW owesSetW needsComplete onceWaiter

theorem step_invP_onceWon (s s' : St) (t : Nat) (hA : Inv s) (hi : InvP s) (h : step s (.onceWon t) = some s') : InvP s' := by once_stepP t
theorem step_invP_onceLost (s s' : St) (t : Nat) (a : Bool) (hA : Inv s) (hi : InvP s) (h : step s (.onceLost t a) = some s') : InvP s' := by once_stepP t
theorem step_invP_body (s s' : St) (t : Nat) (a : Bool) (hA : Inv s) (hi : InvP s) (h : step s (.body t a) = some s') : InvP s' := by once_stepP t
theorem step_invP_onceStored (s s' : St) (t : Nat) (a : Bool) (hA : Inv s) (hi : InvP s) (h : step s (.onceStored t a) = some s') : InvP s' := by once_stepP t
theorem step_invP_done (s s' : St) (t : Nat) (hA : Inv s) (hi : InvP s) (h : step s (.done t) = some s') : InvP s' := by once_stepP t

end PikaVerif.Once
