import PikaVerif.Lemmas.Shared2
/-!
Progress of the shared-state protocol (split / split_tuple / ensure_started): in a reachable state
that has not aborted, as long as some thread is inside an operation some event other than the
invocation of a new operation is possible.  Hence a *stuck* state is quiescent.
-/
namespace PikaVerif.Shared
open PikaVerif

/-- Who holds the lock; the one completion call; when the first consumer fires the leaf inline. -/
structure LInv (s : St) : Prop where
  lockHolder : ∀ u, s.lock = some u → cHolds (s.pc u) = true ∨ (s.pst = .locked ∧ s.ptid = u)
  completingOne : ∀ t, s.pc t = .completing → s.claimed = some t ∧ s.pst = .none ∧ s.pending = none
  wantFire : ∀ t k, s.pc t = .want k → s.started = true ∨ s.pending ≠ none
  pstStarted : s.pst ≠ .none → s.started = true

theorem linv_init (kind : Kind) (ss : Bool) : LInv (init kind ss) := by
  constructor <;> simp [init]

attribute [local grind] cHolds isProd PStage.rank consOf begun sawDone

set_option hygiene false in
macro "sh3_step" : tactic => `(tactic| (
  simp only [step] at h
  split at h
  case isFalse => simp at h
  rename_i hg
  repeat' split at h
  all_goals first | (simp at h; done) | skip
  all_goals (
    simp only [Option.some.injEq] at h
    subst h
    constructor <;> dsimp only)
  all_goals first
    | assumption
    | (intro u; grind [upd])
    | grind [upd]))

section
variable (s s' : St) (hi : Inv s) (hs : SInv s) (hl : LInv s)
include hi hs hl
theorem step_linv_tdone (t : Nat) (h : step s (.tdone t) = some s') : LInv s' := by
  obtain ⟨i1,i2,i3,i4,i5,i6,i7,i8,i9⟩ := hi; obtain ⟨a1,a2,a3,a4,a5,a6,a7,a8⟩ := hs; obtain ⟨l1,l2,l3,l4⟩ := hl; sh3_step
theorem step_linv_ret (t : Nat) (h : step s (.ret t) = some s') : LInv s' := by
  obtain ⟨i1,i2,i3,i4,i5,i6,i7,i8,i9⟩ := hi; obtain ⟨a1,a2,a3,a4,a5,a6,a7,a8⟩ := hs; obtain ⟨l1,l2,l3,l4⟩ := hl; sh3_step
theorem step_linv_slAcq (t : Nat) (h : step s (.slAcq t) = some s') : LInv s' := by
  obtain ⟨i1,i2,i3,i4,i5,i6,i7,i8,i9⟩ := hi; obtain ⟨a1,a2,a3,a4,a5,a6,a7,a8⟩ := hs; obtain ⟨l1,l2,l3,l4⟩ := hl; sh3_step
theorem step_linv_invComplete (t : Nat) (c : Compl) (h : step s (.invComplete t c) = some s') : LInv s' := by
  obtain ⟨i1,i2,i3,i4,i5,i6,i7,i8,i9⟩ := hi; obtain ⟨a1,a2,a3,a4,a5,a6,a7,a8⟩ := hs; obtain ⟨l1,l2,l3,l4⟩ := hl; sh3_step
theorem step_linv_fire (t : Nat) (c : Compl) (h : step s (.fire t c) = some s') : LInv s' := by
  obtain ⟨i1,i2,i3,i4,i5,i6,i7,i8,i9⟩ := hi; obtain ⟨a1,a2,a3,a4,a5,a6,a7,a8⟩ := hs; obtain ⟨l1,l2,l3,l4⟩ := hl; sh3_step
theorem step_linv_invConsume (t k : Nat) (h : step s (.invConsume t k) = some s') : LInv s' := by
  obtain ⟨i1,i2,i3,i4,i5,i6,i7,i8,i9⟩ := hi; obtain ⟨a1,a2,a3,a4,a5,a6,a7,a8⟩ := hs; obtain ⟨l1,l2,l3,l4⟩ := hl; sh3_step
theorem step_linv_seen1 (t : Nat) (b : Bool) (h : step s (.seen1 t b) = some s') : LInv s' := by
  obtain ⟨i1,i2,i3,i4,i5,i6,i7,i8,i9⟩ := hi; obtain ⟨a1,a2,a3,a4,a5,a6,a7,a8⟩ := hs; obtain ⟨l1,l2,l3,l4⟩ := hl; sh3_step
theorem step_linv_seen2 (t : Nat) (b : Bool) (h : step s (.seen2 t b) = some s') : LInv s' := by
  obtain ⟨i1,i2,i3,i4,i5,i6,i7,i8,i9⟩ := hi; obtain ⟨a1,a2,a3,a4,a5,a6,a7,a8⟩ := hs; obtain ⟨l1,l2,l3,l4⟩ := hl; sh3_step
theorem step_linv_slRel (t : Nat) (h : step s (.slRel t) = some s') : LInv s' := by
  obtain ⟨i1,i2,i3,i4,i5,i6,i7,i8,i9⟩ := hi; obtain ⟨a1,a2,a3,a4,a5,a6,a7,a8⟩ := hs; obtain ⟨l1,l2,l3,l4⟩ := hl; sh3_step
theorem step_linv_flag (t i : Nat) (h : step s (.flag t i) = some s') : LInv s' := by
  obtain ⟨i1,i2,i3,i4,i5,i6,i7,i8,i9⟩ := hi; obtain ⟨a1,a2,a3,a4,a5,a6,a7,a8⟩ := hs; obtain ⟨l1,l2,l3,l4⟩ := hl; sh3_step
theorem step_linv_run (t i : Nat) (h : step s (.run t i) = some s') : LInv s' := by
  obtain ⟨i1,i2,i3,i4,i5,i6,i7,i8,i9⟩ := hi; obtain ⟨a1,a2,a3,a4,a5,a6,a7,a8⟩ := hs; obtain ⟨l1,l2,l3,l4⟩ := hl; sh3_step
theorem step_linv_abort (t : Nat) (h : step s (.abort t) = some s') : LInv s' := by
  obtain ⟨i1,i2,i3,i4,i5,i6,i7,i8,i9⟩ := hi; obtain ⟨a1,a2,a3,a4,a5,a6,a7,a8⟩ := hs; obtain ⟨l1,l2,l3,l4⟩ := hl; sh3_step
theorem step_linv_rcv (t k : Nat) (r : RSig) (h : step s (.rcv t k r) = some s') : LInv s' := by
  obtain ⟨i1,i2,i3,i4,i5,i6,i7,i8,i9⟩ := hi; obtain ⟨a1,a2,a3,a4,a5,a6,a7,a8⟩ := hs; obtain ⟨l1,l2,l3,l4⟩ := hl; sh3_step
end

/-- The complete invariant including the lock-holder / progress part. -/
structure Full2 (s : St) : Prop where
  full : Full s
  linv : LInv s

theorem step_full2 (s s' : St) (e : Ev) (hf : Full2 s) (h : step s e = some s') : Full2 s' := by
  obtain ⟨hfu, hl⟩ := hf
  refine ⟨step_full s s' e hfu h, ?_⟩
  have hi := hfu.inv
  have hs := hfu.sinv
  cases e with
  | tdone t => exact step_linv_tdone s s' hi hs hl t h
  | ret t => exact step_linv_ret s s' hi hs hl t h
  | slAcq t => exact step_linv_slAcq s s' hi hs hl t h
  | invComplete t c => exact step_linv_invComplete s s' hi hs hl t c h
  | fire t c => exact step_linv_fire s s' hi hs hl t c h
  | invConsume t k => exact step_linv_invConsume s s' hi hs hl t k h
  | seen1 t b => exact step_linv_seen1 s s' hi hs hl t b h
  | seen2 t b => exact step_linv_seen2 s s' hi hs hl t b h
  | slRel t => exact step_linv_slRel s s' hi hs hl t h
  | flag t i => exact step_linv_flag s s' hi hs hl t i h
  | run t i => exact step_linv_run s s' hi hs hl t i h
  | abort t => exact step_linv_abort s s' hi hs hl t h
  | rcv t k r => exact step_linv_rcv s s' hi hs hl t k r h

theorem full2_of_accepted {kind : Kind} {ss : Bool} {log : List Ev} {s : St}
    (h : runLog step (init kind ss) log = some s) : Full2 s :=
  inv_of_runLog Full2 (fun s e s' => step_full2 s s' e)
    ⟨full_init kind ss, linv_init kind ss⟩ h

/-- Events by which the environment begins a new operation (or retires a thread); every other
    event is a step of the adaptor code inside an operation. -/
def Ev.isCall : Ev → Bool
  | .invComplete _ _ | .invConsume _ _ | .tdone _ => true
  | _ => false

/-- Some step of the code inside an operation is possible. -/
def CanMove (s : St) : Prop := ∃ e, Ev.isCall e = false ∧ (step s e).isSome = true

theorem holder_moves (s : St) (hi : Inv s) (hl : LInv s) (ha : s.aborted = false) (u : Nat)
    (hu : s.lock = some u) : CanMove s := by
  rcases hl.lockHolder u hu with h | ⟨h1, h2⟩
  · cases hpc : s.pc u <;> simp [cHolds, hpc] at h
    · exact ⟨.seen2 u s.done, rfl, by simp only [step, ha, hu, hpc]; cases s.done <;> simp⟩
    · exact ⟨.slRel u, rfl, by simp [step, ha, hu, hpc]⟩
    · exact ⟨.slRel u, rfl, by simp [step, ha, hu, hpc]⟩
  · have hp := hi.prodActive (by rw [h1]; simp) (by rw [h1]; simp)
    rw [h2] at hp
    cases hpc : s.pc u <;> simp [isProd, hpc] at hp
    exact ⟨.slRel u, rfl, by simp [step, ha, hu, hpc, h1, h2]⟩

/-- **Progress.**  In a reachable, non-aborted state every thread that is inside an operation
    either can take a step itself or waits for the lock, whose holder can. -/
theorem progress (s : St) (hf : Full2 s) (ha : s.aborted = false) (t : Nat)
    (hn : ¬ (s.pc t = .idle ∨ s.pc t = .fin)) : CanMove s := by
  obtain ⟨⟨hi, hs, hp, hc, hr⟩, hl⟩ := hf
  cases hpc : s.pc t with
  | idle => exact absurd (Or.inl hpc) hn
  | fin => exact absurd (Or.inr hpc) hn
  | completing =>
    have := hl.completingOne t hpc
    exact ⟨.fire t ⟨0, 0⟩, rfl, by simp [step, ha, hpc, this.2.1]⟩
  | retP => exact ⟨.ret t, rfl, by simp [step, ha, hpc]⟩
  | cret k => exact ⟨.ret t, rfl, by simp [step, ha, hpc]⟩
  | pushed k =>
    have hlk := hi.cLock t (by simp [cHolds, hpc])
    exact ⟨.slRel t, rfl, by simp [step, ha, hpc, hlk]⟩
  | seenT2 k =>
    have hlk := hi.cLock t (by simp [cHolds, hpc])
    exact ⟨.slRel t, rfl, by simp [step, ha, hpc, hlk]⟩
  | clocked k =>
    have hlk := hi.cLock t (by simp [cHolds, hpc])
    exact ⟨.seen2 t s.done, rfl, by simp only [step, ha, hlk, hpc]; cases s.done <;> simp⟩
  | seenF k =>
    cases hlk : s.lock with
    | none => exact ⟨.slAcq t, rfl, by simp [step, ha, hpc, hlk]⟩
    | some u => exact holder_moves s hi hl ha u hlk
  | visiting k =>
    cases hv : s.v with
    | none => exact ⟨.abort t, rfl, by simp [step, ha, hpc, hv]⟩
    | some c => exact ⟨.rcv t k (sigFor s.kind k c), rfl, by simp [step, ha, hpc, hv]⟩
  | want k =>
    cases hst : s.started with
    | true => exact ⟨.seen1 t s.done, rfl, by simp only [step, ha, hpc, hst]; cases s.done <;> simp⟩
    | false =>
      have hpn : s.pst = .none := by
        cases h : s.pst with
        | none => rfl
        | _ => have := hl.pstStarted (by rw [h]; simp); rw [hst] at this; simp at this
      rcases hl.wantFire t k hpc with h | h
      · rw [hst] at h; simp at h
      · cases hpe : s.pending with
        | none => exact absurd hpe h
        | some c => exact ⟨.fire t c, rfl, by simp [step, ha, hpc, hpn, hst, hpe]⟩
  | prod r =>
    have ⟨hpt, hpne⟩ := hi.prodPc t (by simp [isProd, hpc])
    cases hps : s.pst with
    | none => exact absurd hps hpne
    | fired => exact ⟨.flag t (variantIndex s.v), rfl, by simp [step, ha, hpc, hps, hpt]⟩
    | flagged =>
      cases hlk : s.lock with
      | none => exact ⟨.slAcq t, rfl, by simp [step, ha, hpc, hlk, hps, hpt]⟩
      | some u => exact holder_moves s hi hl ha u hlk
    | locked =>
      have hlk := hi.pLock hps
      exact ⟨.slRel t, rfl, by simp [step, ha, hpc, hlk, hps, hpt]⟩
    | unlocked => exact ⟨.run t s.conts.length, rfl, by simp [step, ha, hpc, hps, hpt]⟩
    | running =>
      have hne := hi.runningNonempty hps
      cases hcs : s.conts with
      | nil => exact absurd hcs hne
      | cons k rest =>
        cases hv : s.v with
        | none => exact ⟨.abort t, rfl, by simp [step, ha, hpc, hv, hps, hpt, hcs]⟩
        | some c => exact ⟨.rcv t k (sigFor s.kind k c), rfl, by simp [step, ha, hpc, hv, hps, hpt, hcs]⟩
    | finished =>
      cases r with
      | none => exact ⟨.ret t, rfl, by simp [step, ha, hpc, hps]⟩
      | some k => exact ⟨.seen1 t s.done, rfl, by simp only [step, ha, hpc, hps]; cases s.done <;> simp⟩

end PikaVerif.Shared
