import PikaVerif.Model.Shared
/-! Inductive invariant of the shared-state model (split / split_tuple / ensure_started). -/
namespace PikaVerif.Shared
open PikaVerif

/-- Consumer program counters at which the thread holds the shared state's spinlock. -/
def cHolds : Pc → Bool
  | .clocked _ | .pushed _ | .seenT2 _ => true
  | _ => false

def isProd : Pc → Bool
  | .prod _ => true
  | _ => false

/-- The consumer a thread is working for, before that consumer's continuation has been stored
    or run. -/
def consOf : Pc → Option Nat
  | .want k | .seenF k | .clocked k | .seenT2 k | .visiting k => some k
  | .prod r => r
  | _ => none

/-- Program counters that are only reached after `start_called` was set. -/
def begun : Pc → Bool
  | .seenF _ | .clocked _ | .pushed _ | .seenT2 _ | .visiting _ | .cret _ | .prod _ | .completing => true
  | _ => false

def b2n (b : Bool) : Nat := if b then 1 else 0

/-- Lock discipline and the flag / stage protocol of `set_predecessor_done` versus
    `add_continuation`. -/
structure Inv (s : St) : Prop where
  cLock : ∀ t, cHolds (s.pc t) = true → s.lock = some t
  pLock : s.pst = .locked → s.lock = some s.ptid
  prodPc : ∀ t, isProd (s.pc t) = true → s.ptid = t ∧ s.pst ≠ .none
  prodActive : s.pst ≠ .none → s.pst ≠ .finished → isProd (s.pc s.ptid) = true
  doneIff : s.done = true ↔ 2 ≤ s.pst.rank
  pushedEarly : ∀ t k, s.pc t = .pushed k → s.pst.rank ≤ 2
  finishedEmpty : s.pst = .finished → s.conts = []
  runningNonempty : s.pst = .running → s.conts ≠ []
  lateConts : 4 ≤ s.pst.rank → ∀ t, cHolds (s.pc t) = true → ∀ k, s.pc t ≠ .pushed k

theorem inv_init (kind : Kind) (ss : Bool) : Inv (init kind ss) := by
  refine ⟨?_, ?_, ?_, ?_, ?_, ?_, ?_, ?_, ?_⟩ <;>
    simp [init, cHolds, isProd, PStage.rank]

theorem mem_insertSorted (k x : Nat) (l : List Nat) : x ∈ insertSorted k l ↔ x = k ∨ x ∈ l := by
  induction l with
  | nil => simp [insertSorted]
  | cons a r ih =>
    simp only [insertSorted]
    split
    · simp
    · simp [ih]; constructor <;> (intro h; rcases h with h | h | h <;> simp [h])

theorem nodup_insertSorted (k : Nat) (l : List Nat) (h : l.Nodup) (hk : k ∉ l) :
    (insertSorted k l).Nodup := by
  induction l with
  | nil => simp [insertSorted]
  | cons a r ih =>
    simp only [insertSorted]
    split
    · exact List.nodup_cons.mpr ⟨hk, h⟩
    · have h' := List.nodup_cons.mp h
      refine List.nodup_cons.mpr ⟨?_, ih h'.2 (fun hm => hk (List.mem_cons_of_mem _ hm))⟩
      rw [mem_insertSorted]
      intro hc
      rcases hc with hc | hc
      · exact hk (by simp [hc])
      · exact h'.1 hc

theorem mem_push (kind : Kind) (k x : Nat) (l : List Nat) : x ∈ push kind k l ↔ x = k ∨ x ∈ l := by
  simp only [push]; split
  · exact mem_insertSorted k x l
  · simp [or_comm]

theorem nodup_push (kind : Kind) (k : Nat) (l : List Nat) (h : l.Nodup) (hk : k ∉ l) :
    (push kind k l).Nodup := by
  simp only [push]; split
  · exact nodup_insertSorted k l h hk
  · exact List.nodup_append.mpr ⟨h, by simp, by intro a ha b hb; simp at hb; subst hb; intro e; exact hk (e ▸ ha)⟩

attribute [local grind] cHolds isProd PStage.rank push

set_option hygiene false in
macro "sh_step" : tactic => `(tactic| (
  simp only [step] at h
  obtain ⟨h1,h2,h3,h4,h5,h6,h7,h8,h9⟩ := hi
  split at h
  case isFalse => simp at h
  rename_i hg
  repeat' split at h
  all_goals first | (simp at h; done) | skip
  all_goals (
    simp only [Option.some.injEq] at h
    subst h
    refine ⟨?_, ?_, ?_, ?_, ?_, ?_, ?_, ?_, ?_⟩ <;> dsimp only
  )
  all_goals first
    | assumption
    | (intro u; grind [upd])
    | grind [upd]))

theorem step_inv_tdone (s s' : St) (t : Nat) (hi : Inv s) (h : step s (.tdone t) = some s') : Inv s' := by sh_step
theorem step_inv_ret (s s' : St) (t : Nat) (hi : Inv s) (h : step s (.ret t) = some s') : Inv s' := by sh_step
theorem step_inv_slAcq (s s' : St) (t : Nat) (hi : Inv s) (h : step s (.slAcq t) = some s') : Inv s' := by sh_step
theorem step_inv_invComplete (s s' : St) (t : Nat) (c : Compl) (hi : Inv s) (h : step s (.invComplete t c) = some s') : Inv s' := by sh_step
theorem step_inv_fire (s s' : St) (t : Nat) (c : Compl) (hi : Inv s) (h : step s (.fire t c) = some s') : Inv s' := by sh_step
theorem step_inv_invConsume (s s' : St) (t k : Nat) (hi : Inv s) (h : step s (.invConsume t k) = some s') : Inv s' := by sh_step
theorem step_inv_seen1 (s s' : St) (t : Nat) (b : Bool) (hi : Inv s) (h : step s (.seen1 t b) = some s') : Inv s' := by sh_step
theorem step_inv_seen2 (s s' : St) (t : Nat) (b : Bool) (hi : Inv s) (h : step s (.seen2 t b) = some s') : Inv s' := by sh_step
theorem step_inv_slRel (s s' : St) (t : Nat) (hi : Inv s) (h : step s (.slRel t) = some s') : Inv s' := by sh_step
theorem step_inv_flag (s s' : St) (t i : Nat) (hi : Inv s) (h : step s (.flag t i) = some s') : Inv s' := by sh_step
theorem step_inv_run (s s' : St) (t i : Nat) (hi : Inv s) (h : step s (.run t i) = some s') : Inv s' := by sh_step
theorem step_inv_abort (s s' : St) (t : Nat) (hi : Inv s) (h : step s (.abort t) = some s') : Inv s' := by sh_step
theorem step_inv_rcv (s s' : St) (t k : Nat) (r : RSig) (hi : Inv s) (h : step s (.rcv t k r) = some s') : Inv s' := by sh_step

theorem step_inv (s s' : St) (e : Ev) (hi : Inv s) (h : step s e = some s') : Inv s' := by
  cases e with
  | tdone t => exact step_inv_tdone s s' t hi h
  | ret t => exact step_inv_ret s s' t hi h
  | slAcq t => exact step_inv_slAcq s s' t hi h
  | invComplete t c => exact step_inv_invComplete s s' t c hi h
  | fire t c => exact step_inv_fire s s' t c hi h
  | invConsume t k => exact step_inv_invConsume s s' t k hi h
  | seen1 t b => exact step_inv_seen1 s s' t b hi h
  | seen2 t b => exact step_inv_seen2 s s' t b hi h
  | slRel t => exact step_inv_slRel s s' t hi h
  | flag t i => exact step_inv_flag s s' t i hi h
  | run t i => exact step_inv_run s s' t i hi h
  | abort t => exact step_inv_abort s s' t hi h
  | rcv t k r => exact step_inv_rcv s s' t k r hi h

theorem inv_of_accepted {kind : Kind} {ss : Bool} {log : List Ev} {s : St}
    (h : runLog step (init kind ss) log = some s) : Inv s :=
  inv_of_runLog Inv (fun s e s' => step_inv s s' e) (inv_init kind ss) h

end PikaVerif.Shared
