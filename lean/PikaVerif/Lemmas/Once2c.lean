import PikaVerif.Lemmas.Once2b
/-! Preservation of `InvP` by the individual events (part c). -/
namespace PikaVerif.Once
open PikaVerif
set_option maxHeartbeats 1600000
attribute [local grind] holds inQ b2n tokOf pcOpOk ctxOk isCall wDone sDone entry popd
  isOnce needsSet runW ranOkW setW owesSetW needsComplete onceWaiter

theorem step_invP_stored (s s' : St) (t : Nat) (v : Bool) (hA : Inv s) (hi : InvP s) (h : step s (.stored t v) = some s') : InvP s' := by once_stepP t
theorem step_invP_cvEnq (s s' : St) (t z : Nat) (hA : Inv s) (hM : InvM s) (hi : InvP s) (h : step s (.cvEnq t z) = some s') : InvP s' := by
  have hme := hM.mustEnqOk
  simp only [ssum] at hme
  once_stepP t
theorem step_invP_cvWoke (s s' : St) (t : Nat) (a : Bool) (hA : Inv s) (hi : InvP s) (h : step s (.cvWoke t a) = some s') : InvP s' := by once_stepP t
theorem step_invP_suspend (s s' : St) (t : Nat) (hA : Inv s) (hi : InvP s) (h : step s (.suspend t) = some s') : InvP s' := by once_stepP t
theorem step_invP_woke (s s' : St) (t : Nat) (hA : Inv s) (hi : InvP s) (h : step s (.woke t) = some s') : InvP s' := by once_stepP t
theorem step_invP_onceLoad (s s' : St) (t : Nat) (hA : Inv s) (hi : InvP s) (h : step s (.onceLoad t) = some s') : InvP s' := by once_stepP t

end PikaVerif.Once
