import PikaVerif.Lemmas.Stop4
/-! Follow-up C14p: a thread finishes (`done`) only at nesting level 0, and what the holder of
    the lock can do next (used by the progress theorem). -/
namespace PikaVerif.Stop
open PikaVerif

theorem finTop_step (s s' : St) (e : Ev) (hi : ∀ a, s.pc a = .fin → a < s.K) (h : step s e = some s') :
    ∀ a, s'.pc a = .fin → a < s'.K := by
  cases e <;> simp only [step] at h <;> (repeat' split at h) <;>
    first
    | (simp at h; done)
    | (simp only [Option.some.injEq] at h; subst h; try dsimp only
       intro u hu
       first
       | exact hi u hu
       | (simp only [upd_apply] at hu; split at hu <;> first | exact hi u hu | (simp [checked] at hu; done) | skip
          all_goals (try cases ‹Kind›)
          all_goals first | (simp [checked] at hu; done) | grind [checked])
       | grind [upd, checked])

theorem finTop_init (n K : Nat) (id : Nat → Nat) (f1 f2 : Bool) (m : Nat) :
    ∀ a, (init n K id f1 f2 m).pc a = .fin → a < (init n K id f1 f2 m).K := by
  intro a h; simp [init] at h

theorem thr_add (K x : Nat) : thr K (x + K) = thr K x := by
  unfold thr; exact Nat.add_mod_right x K

end PikaVerif.Stop
