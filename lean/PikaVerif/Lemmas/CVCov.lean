import PikaVerif.Lemmas.CV3
/-!
# Notifications in log order (C07t)

A ghost state folded over the log records, per thread, whether a notification *covering* it was
issued since its last `cv.enq` (`cov`), and whether the flag was set to `true` with no
`notify_all` issued since (`dirty`).  `Cov` is the inductive invariant that links the ghost state
to the model state: a waiter that is still linked in the queue and covered is inside the pop loop
of a `notify_all` that holds the internal lock (so it will be popped before the lock is released),
and a predicate waiter that is linked while the flag is true and not dirty is covered.
-/
namespace PikaVerif.CV
open PikaVerif

structure Gh where
  /-- since thread `t` last pushed a queue entry: a `notify_one` found the queue empty, a
      `notify_all` (public, or stop callback) swapped the queue out, or a notifier popped `t` -/
  cov : Nat → Bool
  /-- the flag was last set to `true` and no `notify_all` has swapped the queue out since -/
  dirty : Bool

def gh0 : Gh := ⟨fun _ => false, false⟩

def obsG (g : Gh) : Ev → Gh
  | .cvEnq t _ _ => { g with cov := upd g.cov t false }
  | .cvNone _ => { g with cov := fun _ => true }
  | .cvAll _ _ => { cov := fun _ => true, dirty := false }
  | .popResume _ _ tgt _ => { g with cov := upd g.cov tgt true }
  | .popAll _ _ tgt _ => { g with cov := upd g.cov tgt true }
  | .setFlag _ v => { g with dirty := v }
  | _ => g

def obsGLog (g : Gh) : List Ev → Gh
  | [] => g
  | e :: es => obsGLog (obsG g e) es

/-- the internal lock is held by a thread inside the pop loop of a `notify_all` -/
def allHolder (s : St) : Bool :=
  match s.lock with
  | some r => allPc (s.pc r)
  | none => false

structure Cov (s : St) (g : Gh) : Prop where
  gn : ∀ t, inQ (s.pc t) = true → g.cov t = true → allHolder s = true
  j1 : ∀ t, isPred (s.curOp t) = true → s.pc t = .locked → s.flag = false
  j2 : ∀ t, isPred (s.curOp t) = true → s.pc t = .released → s.flag = true → g.dirty = true
  j3 : ∀ t, isPred (s.curOp t) = true → inQ (s.pc t) = true → s.flag = true → g.dirty = false → g.cov t = true

theorem cov_init (n : Nat) (f : Bool) : Cov (init n f) gh0 := by
  refine ⟨?_, ?_, ?_, ?_⟩ <;> simp [init, inQ, gh0]

attribute [local grind] holds holdsU noU inQ allPc allHolder setPopped isPred pfPc exitPc

set_option maxHeartbeats 3200000

set_option hygiene false in
macro "cov_step" : tactic => `(tactic| (
  simp only [step] at h
  obtain ⟨c1, c2, c3, c4⟩ := hc
  have a1 := hA.lockHolder
  have a2 := hA.uHolder
  have a3 := hA.qIff
  have b1 := hB.predFalse
  split at h
  case isFalse => simp at h
  rename_i hg
  repeat' split at h
  all_goals first | (simp at h; done) | skip
  all_goals (
    simp only [Option.some.injEq] at h
    subst h
    refine ⟨?_, ?_, ?_, ?_⟩ <;> (try simp only [obsG]) <;> (try dsimp only)
  )
  all_goals first
    | assumption
    | (intro u; grind [upd])
    | grind [upd]))

theorem cov_inv (s s' : St) (g : Gh) (t : Nat) (o : Op) (hA : Inv s) (hB : Inv2 s) (hc : Cov s g) (h : step s (.inv t o) = some s') : Cov s' (obsG g (.inv t o)) := by cov_step
theorem cov_slAcq (s s' : St) (g : Gh) (t : Nat) (hA : Inv s) (hB : Inv2 s) (hc : Cov s g) (h : step s (.slAcq t) = some s') : Cov s' (obsG g (.slAcq t)) := by cov_step
theorem cov_slRel (s s' : St) (g : Gh) (t : Nat) (hA : Inv s) (hB : Inv2 s) (hc : Cov s g) (h : step s (.slRel t) = some s') : Cov s' (obsG g (.slRel t)) := by cov_step
theorem cov_cvEnq (s s' : St) (g : Gh) (t z : Nat) (b : Bool) (hA : Inv s) (hB : Inv2 s) (hc : Cov s g) (h : step s (.cvEnq t z b) = some s') : Cov s' (obsG g (.cvEnq t z b)) := by cov_step
theorem cov_cvAll (s s' : St) (g : Gh) (t z : Nat) (hA : Inv s) (hB : Inv2 s) (hc : Cov s g) (h : step s (.cvAll t z) = some s') : Cov s' (obsG g (.cvAll t z)) := by cov_step
theorem cov_setFlag (s s' : St) (g : Gh) (t : Nat) (v : Bool) (hA : Inv s) (hB : Inv2 s) (hc : Cov s g) (h : step s (.setFlag t v) = some s') : Cov s' (obsG g (.setFlag t v)) := by cov_step
theorem cov_ulRel (s s' : St) (g : Gh) (t : Nat) (hA : Inv s) (hB : Inv2 s) (hc : Cov s g) (h : step s (.ulRel t) = some s') : Cov s' (obsG g (.ulRel t)) := by cov_step
theorem cov_cvWoke (s s' : St) (g : Gh) (t : Nat) (a b : Bool) (hA : Inv s) (hB : Inv2 s) (hc : Cov s g) (h : step s (.cvWoke t a b) = some s') : Cov s' (obsG g (.cvWoke t a b)) := by cov_step
theorem cov_ret (s s' : St) (g : Gh) (t r : Nat) (hA : Inv s) (hB : Inv2 s) (hc : Cov s g) (h : step s (.ret t r) = some s') : Cov s' (obsG g (.ret t r)) := by cov_step
theorem cov_ulAcq (s s' : St) (g : Gh) (t : Nat) (hA : Inv s) (hB : Inv2 s) (hc : Cov s g) (h : step s (.ulAcq t) = some s') : Cov s' (obsG g (.ulAcq t)) := by cov_step
theorem cov_pred (s s' : St) (g : Gh) (t : Nat) (v : Bool) (hA : Inv s) (hB : Inv2 s) (hc : Cov s g) (h : step s (.pred t v) = some s') : Cov s' (obsG g (.pred t v)) := by cov_step
theorem cov_cvNone (s s' : St) (g : Gh) (t : Nat) (hA : Inv s) (hB : Inv2 s) (hc : Cov s g) (h : step s (.cvNone t) = some s') : Cov s' (obsG g (.cvNone t)) := by cov_step
theorem cov_suspend (s s' : St) (g : Gh) (t : Nat) (hA : Inv s) (hB : Inv2 s) (hc : Cov s g) (h : step s (.suspend t) = some s') : Cov s' (obsG g (.suspend t)) := by cov_step
theorem cov_woke (s s' : St) (g : Gh) (t : Nat) (hA : Inv s) (hB : Inv2 s) (hc : Cov s g) (h : step s (.woke t) = some s') : Cov s' (obsG g (.woke t)) := by cov_step
theorem cov_sleep (s s' : St) (g : Gh) (t : Nat) (hA : Inv s) (hB : Inv2 s) (hc : Cov s g) (h : step s (.sleep t) = some s') : Cov s' (obsG g (.sleep t)) := by cov_step
theorem cov_timeout (s s' : St) (g : Gh) (t : Nat) (hA : Inv s) (hB : Inv2 s) (hc : Cov s g) (h : step s (.timeout t) = some s') : Cov s' (obsG g (.timeout t)) := by cov_step
theorem cov_done (s s' : St) (g : Gh) (t : Nat) (hA : Inv s) (hB : Inv2 s) (hc : Cov s g) (h : step s (.done t) = some s') : Cov s' (obsG g (.done t)) := by cov_step
theorem cov_stop0 (s s' : St) (g : Gh) (t : Nat) (v : Bool) (hA : Inv s) (hB : Inv2 s) (hc : Cov s g) (h : step s (.stop0 t v) = some s') : Cov s' (obsG g (.stop0 t v)) := by cov_step
theorem cov_stop1 (s s' : St) (g : Gh) (t : Nat) (v : Bool) (hA : Inv s) (hB : Inv2 s) (hc : Cov s g) (h : step s (.stop1 t v) = some s') : Cov s' (obsG g (.stop1 t v)) := by cov_step
theorem cov_stop2 (s s' : St) (g : Gh) (t : Nat) (v : Bool) (hA : Inv s) (hB : Inv2 s) (hc : Cov s g) (h : step s (.stop2 t v) = some s') : Cov s' (obsG g (.stop2 t v)) := by cov_step
theorem cov_stSeen (s s' : St) (g : Gh) (t : Nat) (hA : Inv s) (hB : Inv2 s) (hc : Cov s g) (h : step s (.stSeen t) = some s') : Cov s' (obsG g (.stSeen t)) := by cov_step
theorem cov_stAcq (s s' : St) (g : Gh) (t m : Nat) (hA : Inv s) (hB : Inv2 s) (hc : Cov s g) (h : step s (.stAcq t m) = some s') : Cov s' (obsG g (.stAcq t m)) := by cov_step
theorem cov_stPush (s s' : St) (g : Gh) (t : Nat) (b : Bool) (hA : Inv s) (hB : Inv2 s) (hc : Cov s g) (h : step s (.stPush t b) = some s') : Cov s' (obsG g (.stPush t b)) := by cov_step
theorem cov_stDeq (s s' : St) (g : Gh) (t c : Nat) (b : Bool) (hA : Inv s) (hB : Inv2 s) (hc : Cov s g) (h : step s (.stDeq t c b) = some s') : Cov s' (obsG g (.stDeq t c b)) := by cov_step
theorem cov_stFin (s s' : St) (g : Gh) (t c : Nat) (b : Bool) (hA : Inv s) (hB : Inv2 s) (hc : Cov s g) (h : step s (.stFin t c b) = some s') : Cov s' (obsG g (.stFin t c b)) := by cov_step
theorem cov_stInFin (s s' : St) (g : Gh) (t : Nat) (hA : Inv s) (hB : Inv2 s) (hc : Cov s g) (h : step s (.stInFin t) = some s') : Cov s' (obsG g (.stInFin t)) := by cov_step
theorem cov_stUnlink (s s' : St) (g : Gh) (t : Nat) (b : Bool) (hA : Inv s) (hB : Inv2 s) (hc : Cov s g) (h : step s (.stUnlink t b) = some s') : Cov s' (obsG g (.stUnlink t b)) := by cov_step
theorem cov_stSelf (s s' : St) (g : Gh) (t : Nat) (b : Bool) (hA : Inv s) (hB : Inv2 s) (hc : Cov s g) (h : step s (.stSelf t b) = some s') : Cov s' (obsG g (.stSelf t b)) := by cov_step
theorem cov_stWaited (s s' : St) (g : Gh) (t : Nat) (hA : Inv s) (hB : Inv2 s) (hc : Cov s g) (h : step s (.stWaited t) = some s') : Cov s' (obsG g (.stWaited t)) := by cov_step
theorem cov_stRsDone (s s' : St) (g : Gh) (t : Nat) (hA : Inv s) (hB : Inv2 s) (hc : Cov s g) (h : step s (.stRsDone t) = some s') : Cov s' (obsG g (.stRsDone t)) := by cov_step

theorem setPopped_cov {p p' : Pc} (h : setPopped p = some p') :
    inQ p' = false ∧ allPc p' = false ∧ allPc p = false ∧ p' ≠ .locked ∧ p' ≠ .released := by
  unfold setPopped at h
  split at h <;> simp at h <;> subst h <;> simp [inQ, allPc]

set_option hygiene false in
macro "cov_pop" : tactic => `(tactic| (
  simp only [step, popCore] at h
  have sp := @setPopped_cov
  obtain ⟨c1, c2, c3, c4⟩ := hc
  have a1 := hA.lockHolder
  have a2 := hA.uHolder
  have a3 := hA.qIff
  have b1 := hB.predFalse
  split at h
  case isFalse => simp at h
  rename_i hg
  repeat' split at h
  all_goals first | (simp at h; done) | skip
  all_goals (
    simp only [Option.some.injEq] at h
    subst h
    refine ⟨?_, ?_, ?_, ?_⟩ <;> (try simp only [obsG]) <;> (try dsimp only)
  )
  all_goals first
    | assumption
    | (intro u; grind [upd])
    | grind [upd]))

theorem cov_popResume (s s' : St) (g : Gh) (t z q : Nat) (d : Bool) (hA : Inv s) (hB : Inv2 s) (hc : Cov s g) (h : step s (.popResume t z q d) = some s') : Cov s' (obsG g (.popResume t z q d)) := by cov_pop
theorem cov_popAll (s s' : St) (g : Gh) (t z q : Nat) (d : Bool) (hA : Inv s) (hB : Inv2 s) (hc : Cov s g) (h : step s (.popAll t z q d) = some s') : Cov s' (obsG g (.popAll t z q d)) := by cov_pop

theorem cov_step_all (s s' : St) (g : Gh) (e : Ev) (hA : Inv s) (hB : Inv2 s) (hc : Cov s g)
    (h : step s e = some s') : Cov s' (obsG g e) := by
  cases e with
  | inv t o => exact cov_inv s s' g t o hA hB hc h
  | ret t r => exact cov_ret s s' g t r hA hB hc h
  | ulAcq t => exact cov_ulAcq s s' g t hA hB hc h
  | ulRel t => exact cov_ulRel s s' g t hA hB hc h
  | setFlag t v => exact cov_setFlag s s' g t v hA hB hc h
  | pred t v => exact cov_pred s s' g t v hA hB hc h
  | slAcq t => exact cov_slAcq s s' g t hA hB hc h
  | slRel t => exact cov_slRel s s' g t hA hB hc h
  | cvEnq t z b => exact cov_cvEnq s s' g t z b hA hB hc h
  | popResume t z q d => exact cov_popResume s s' g t z q d hA hB hc h
  | cvNone t => exact cov_cvNone s s' g t hA hB hc h
  | cvAll t z => exact cov_cvAll s s' g t z hA hB hc h
  | popAll t z q d => exact cov_popAll s s' g t z q d hA hB hc h
  | cvWoke t a b => exact cov_cvWoke s s' g t a b hA hB hc h
  | suspend t => exact cov_suspend s s' g t hA hB hc h
  | woke t => exact cov_woke s s' g t hA hB hc h
  | sleep t => exact cov_sleep s s' g t hA hB hc h
  | timeout t => exact cov_timeout s s' g t hA hB hc h
  | done t => exact cov_done s s' g t hA hB hc h
  | stop0 t v => exact cov_stop0 s s' g t v hA hB hc h
  | stop1 t v => exact cov_stop1 s s' g t v hA hB hc h
  | stop2 t v => exact cov_stop2 s s' g t v hA hB hc h
  | stSeen t => exact cov_stSeen s s' g t hA hB hc h
  | stAcq t m => exact cov_stAcq s s' g t m hA hB hc h
  | stPush t b => exact cov_stPush s s' g t b hA hB hc h
  | stDeq t c b => exact cov_stDeq s s' g t c b hA hB hc h
  | stFin t c b => exact cov_stFin s s' g t c b hA hB hc h
  | stInFin t => exact cov_stInFin s s' g t hA hB hc h
  | stUnlink t b => exact cov_stUnlink s s' g t b hA hB hc h
  | stSelf t b => exact cov_stSelf s s' g t b hA hB hc h
  | stWaited t => exact cov_stWaited s s' g t hA hB hc h
  | stRsDone t => exact cov_stRsDone s s' g t hA hB hc h

theorem cov_of_runLog (log : List Ev) : ∀ (s s' : St) (g : Gh), Inv s → Inv2 s → Cov s g →
    runLog step s log = some s' → Cov s' (obsGLog g log) := by
  induction log with
  | nil => intro s s' g _ _ hc h; simp at h; subst h; exact hc
  | cons e es ih =>
    intro s s' g hA hB hc h
    simp only [runLog] at h
    cases hs : step s e with
    | none => simp [hs] at h
    | some s1 =>
      simp only [hs] at h
      exact ih s1 s' (obsG g e) (step_inv s s1 e hA hs) (step_inv2 s s1 e hA hB hs)
        (cov_step_all s s1 g e hA hB hc hs) h

end PikaVerif.CV
