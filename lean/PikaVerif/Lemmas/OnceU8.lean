import PikaVerif.Lemmas.OnceU7
/-!
# C09u, call_once: every run of `k` callers extends to a maximal one

A state in which only spins (`evLoad t true`) are accepted is not final: the status is not
`running` there (the winner would have an enabled event), so after the spin the caller either wins
the CAS (`onceLoad, onceWon, stored false`) or sees `complete` and returns (`onceLoad, ret, done`);
these four events together lower `phi`.
-/
namespace PikaVerif.Once
open PikaVerif PikaVerif.C09

def PReach (thr : Nat → Bool) (k : Nat) (p : PSt) : Prop :=
  ∃ log, runLog pstep (pinit k (callers thr)) log = some p

theorem PReach.extend {thr : Nat → Bool} {k : Nat} {p p' : PSt} (hr : PReach thr k p) (ext : List Ev)
    (h : runLog pstep p ext = some p') : PReach thr k p' := by
  obtain ⟨log, hl⟩ := hr
  exact ⟨log ++ ext, by rw [runLog_append, hl]; exact h⟩

theorem spin_facts (p p1 : PSt) (t : Nat) (v : Bool) (h : pstep p (.evLoad t v) = some p1) :
    p1.s.status = p.s.status ∧ p1.s.n = p.s.n ∧ p1.prog = p.prog := by
  simp only [pstep, Option.map_eq_some_iff] at h
  obtain ⟨s', h1, h2⟩ := h
  subst h2
  simp only [step] at h1
  split at h1
  · split at h1
    · simp only [Option.some.injEq] at h1; subst h1; exact ⟨rfl, rfl, rfl⟩
    · simp at h1
  · simp at h1

theorem ex_onceLoad (p : PSt) (t : Nat) (th : Bool) (htn : t < p.s.n) (hpc : p.s.pc t = .cLoad th) :
    ∃ p', pstep p (.onceLoad t) = some p' ∧
      p'.s.pc t = (if p.s.status = .complete then .retn 0 else .cCas th) ∧
      p'.s.status = p.s.status ∧ p'.s.n = p.s.n ∧ p'.prog = p.prog :=
  ⟨⟨{ p.s with pc := upd p.s.pc t (if p.s.status = .complete then .retn 0 else .cCas th) }, p.prog, p.res⟩,
    by simp [pstep, step, htn, hpc], by simp, rfl, rfl, rfl⟩

theorem ex_onceWon (p : PSt) (t : Nat) (th : Bool) (htn : t < p.s.n) (hpc : p.s.pc t = .cCas th)
    (hz : p.s.status = .zero) :
    ∃ p', pstep p (.onceWon t) = some p' ∧ p'.s.pc t = .cReset th ∧ p'.s.n = p.s.n :=
  ⟨⟨{ p.s with status := .running, wins := p.s.wins + 1, pc := upd p.s.pc t (.cReset th) }, p.prog, p.res⟩,
    by simp [pstep, step, htn, hpc, hz], by simp, rfl⟩

theorem ex_storedReset (p : PSt) (t : Nat) (th : Bool) (htn : t < p.s.n) (hpc : p.s.pc t = .cReset th) :
    ∃ p', pstep p (.stored t false) = some p' :=
  ⟨_, by simp [pstep, step, htn, hpc]; rfl⟩

theorem ex_body (p : PSt) (t : Nat) (th : Bool) (htn : t < p.s.n) (hpc : p.s.pc t = .cBody th) :
    ∃ p', pstep p (.body t th) = some p' :=
  ⟨_, by simp [pstep, step, htn, hpc]; rfl⟩

theorem ex_onceStored (p : PSt) (t : Nat) (th : Bool) (htn : t < p.s.n) (hpc : p.s.pc t = .cRan th) :
    ∃ p', pstep p (.onceStored t (!th)) = some p' :=
  ⟨_, by simp [pstep, step, htn, hpc]; rfl⟩

theorem ex_ret0 (p : PSt) (t : Nat) (htn : t < p.s.n) (hpc : p.s.pc t = .retn 0) :
    ∃ p', pstep p (.ret t 0) = some p' ∧ p'.s.pc t = .idle ∧ p'.s.n = p.s.n ∧ p'.prog = p.prog :=
  ⟨⟨{ p.s with pc := upd p.s.pc t .idle }, p.prog, upd p.res t (some 0)⟩,
    by simp [pstep, step, htn, hpc], by simp, rfl, rfl⟩

theorem ex_done (p : PSt) (t : Nat) (htn : t < p.s.n) (hpc : p.s.pc t = .idle) (hp : p.prog t = []) :
    ∃ p', pstep p (.done t) = some p' :=
  ⟨_, by simp [pstep, step, htn, hpc, hp]; rfl⟩


/-- **Progress modulo spins.**  From a reachable state of `k` callers that is not maximal there is
    a non-empty accepted continuation (one non-spin event, or a spin followed by three non-spin
    events of the same caller) that lowers `phi`. -/
theorem progress (thr : Nat → Bool) (k : Nat) (p : PSt) (hr : PReach thr k p) (hns : ¬ PStuck p) :
    ∃ ext p1, ext.length ≤ 4 ∧ runLog pstep p ext = some p1 ∧ phi p1 < phi p := by
  obtain ⟨log, hlog⟩ := hr
  obtain ⟨hA, _, hP, hJ⟩ := J_of_accepted thr k log p hlog
  by_cases hq : ∃ e p1, (∀ t, e ≠ .evLoad t true) ∧ pstep p e = some p1
  · obtain ⟨e, p1, hne, he⟩ := hq
    exact ⟨[e], p1, by simp, by simp [runLog, he], phi_step p p1 e hne he⟩
  · have hq' : ∀ e p1, (∀ t, e ≠ .evLoad t true) → pstep p e ≠ some p1 :=
      fun e p1 hne he => hq ⟨e, p1, hne, he⟩
    have : ∃ e, pstep p e ≠ none := Classical.byContradiction (fun hc => hns (fun e =>
      Classical.byContradiction (fun hn => hc ⟨e, hn⟩)))
    obtain ⟨e, he⟩ := this
    cases hp1 : pstep p e with
    | none => exact absurd hp1 he
    | some p1 =>
      have hspin : ∃ t, e = .evLoad t true := Classical.byContradiction (fun hc =>
        hq' e p1 (fun t het => hc ⟨t, het⟩) hp1)
      obtain ⟨t, het⟩ := hspin
      subst het
      obtain ⟨hpc, hf, hpc1⟩ := callers_spin_ctx thr p p1 t hA hJ hp1
      obtain ⟨hst1, hn1, hprog1⟩ := spin_facts p p1 t true hp1
      have htn : t < p.s.n := by
        have := pstep_step _ _ _ hp1
        simp only [step] at this
        split at this
        · rename_i hg; exact hg.1
        · simp at this
      have htn1 : t < p1.s.n := hn1 ▸ htn
      have h1 := phi_spin p p1 t hp1
      obtain ⟨p2, e2, hpc2, hst2, hn2, hprog2⟩ := ex_onceLoad p1 t (thr t) htn1 hpc1
      have h2 := phi_step p1 p2 _ (by intro _ he; cases he) e2
      have htn2 : t < p2.s.n := hn2 ▸ htn1
      cases hstat : p.s.status with
      | running =>
        exfalso
        have hrs := hP.runOne
        rw [hstat] at hrs
        simp [rsum] at hrs
        obtain ⟨u, hu, hpos⟩ := exists_pos_of_sumTo_pos (f := fun t => runW (p.s.pc t)) (by rw [hrs]; exact Nat.one_pos)
        cases hpcu : p.s.pc u <;> simp only [hpcu, runW] at hpos <;> try omega
        · obtain ⟨q, hq1⟩ := ex_storedReset p u _ hu hpcu
          exact hq' _ q (by intro _ he; cases he) hq1
        · obtain ⟨q, hq1⟩ := ex_body p u _ hu hpcu
          exact hq' _ q (by intro _ he; cases he) hq1
        · obtain ⟨q, hq1⟩ := ex_onceStored p u _ hu hpcu
          exact hq' _ q (by intro _ he; cases he) hq1
      | zero =>
        rw [hst1, hstat] at hpc2
        simp only [reduceCtorEq, if_false] at hpc2
        obtain ⟨p3, e3, hpc3, hn3⟩ := ex_onceWon p2 t (thr t) htn2 hpc2 (by rw [hst2, hst1, hstat])
        have h3 := phi_step p2 p3 _ (by intro _ he; cases he) e3
        obtain ⟨p4, e4⟩ := ex_storedReset p3 t (thr t) (hn3 ▸ htn2) hpc3
        have h4 := phi_step p3 p4 _ (by intro _ he; cases he) e4
        exact ⟨[.evLoad t true, .onceLoad t, .onceWon t, .stored t false], p4, by simp,
          by simp [runLog, hp1, e2, e3, e4], by omega⟩
      | complete =>
        rw [hst1, hstat] at hpc2
        simp only [if_true] at hpc2
        obtain ⟨p3, e3, hpc3, hn3, hprog3⟩ := ex_ret0 p2 t htn2 hpc2
        have h3 := phi_step p2 p3 _ (by intro _ he; cases he) e3
        have hpt : p.prog t = [] := by
          rcases hJ.st t with ⟨_, a2, _⟩ | ⟨b1, _⟩
          · rw [hpc] at a2; cases a2
          · exact b1
        obtain ⟨p4, e4⟩ := ex_done p3 t (hn3 ▸ htn2) hpc3 (by rw [hprog3, hprog2, hprog1]; exact hpt)
        have h4 := phi_step p3 p4 _ (by intro _ he; cases he) e4
        exact ⟨[.evLoad t true, .onceLoad t, .ret t 0, .done t], p4, by simp,
          by simp [runLog, hp1, e2, e3, e4], by omega⟩

/-- **Every run of `k` callers extends to a maximal run.** -/
theorem exists_maximal (thr : Nat → Bool) (k : Nat) : ∀ (N : Nat) (p : PSt), PReach thr k p → phi p ≤ N →
    ∃ ext p', runLog pstep p ext = some p' ∧ PStuck p' := by
  intro N
  induction N with
  | zero =>
    intro p hr hN
    by_cases hst : PStuck p
    · exact ⟨[], p, rfl, hst⟩
    · obtain ⟨_, p1, _, _, hlt⟩ := progress thr k p hr hst
      omega
  | succ N ih =>
    intro p hr hN
    by_cases hst : PStuck p
    · exact ⟨[], p, rfl, hst⟩
    · obtain ⟨ext, p1, _, he, hlt⟩ := progress thr k p hr hst
      obtain ⟨ext2, p', he2, hs2⟩ := ih p1 (hr.extend ext he) (by omega)
      exact ⟨ext ++ ext2, p', by rw [runLog_append, he]; exact he2, hs2⟩

end PikaVerif.Once
