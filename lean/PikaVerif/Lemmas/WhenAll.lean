import PikaVerif.Model.WhenAll
import PikaVerif.Core.Sum
/-!
Invariants of the `when_all` counter model (C03, stage 2): the connected receiver is signalled
exactly once, by the receiver call whose decrement reaches zero, with the decision determined by
the first non-value completion to reach the latch (value iff all predecessors sent values).
-/
namespace PikaVerif.WhenAll
open PikaVerif

/-- The predecessor whose receiver call a thread is executing. -/
def curOf : Pc → Option Nat
  | .fired i _ _ _ => some i
  | .sigd i _ _ => some i
  | _ => none

def stOf : Pc → Nat
  | .fired _ _ _ _ => 1
  | .sigd _ _ _ => 2
  | _ => 0

def isLast : Pc → Bool
  | .last _ _ => true
  | _ => false

/-- weight of a predecessor in the counter: 1 once its receiver call has decremented -/
def w3 (st : Nat) : Nat := if st = 3 then 1 else 0

/-- receiver calls in progress versus the per-predecessor stage -/
structure W1 (s : St) : Prop where
  curStage : ∀ t i, curOf (s.pc t) = some i → s.who i = t ∧ s.stage i = stOf (s.pc t) ∧ i < s.n ∧ s.stage i ≠ 0
  stageCur : ∀ i, (s.stage i = 1 ∨ s.stage i = 2) → curOf (s.pc (s.who i)) = some i
  firedCompl : ∀ t i ch arg cx, s.pc t = .fired i ch arg cx → s.compl i = some (ch, arg)
  stageLe : ∀ i, s.stage i ≤ 3
  firedStage : ∀ i, s.firedI i = true ↔ s.stage i ≠ 0
  stageCompl : ∀ i, s.stage i ≠ 0 → s.compl i ≠ none

theorem w1_init (n : Nat) : W1 (init n) := by
  constructor <;> simp [init, curOf]

attribute [local grind] curOf stOf isLast w3 afterCall

set_option hygiene false in
macro "wa_step" : tactic => `(tactic| (
  simp only [step] at h
  repeat' split at h
  all_goals first | (simp at h; done) | skip
  all_goals (
    simp only [Option.some.injEq] at h
    subst h
    (try (simp only [afterCall]; split))
    all_goals (constructor <;> (try dsimp only)))
  all_goals first
    | assumption
    | (intro u; grind [upd])
    | grind [upd]))

section
variable (s s' : St) (h1 : W1 s)
include h1
theorem step_w1_invStart (t : Nat) (h : step s (.invStart t) = some s') : W1 s' := by
  obtain ⟨a1,a2,a3,a4,a5,a6⟩ := h1; wa_step
theorem step_w1_invComplete (t i ch : Nat) (arg : Int) (h : step s (.invComplete t i ch arg) = some s') : W1 s' := by
  obtain ⟨a1,a2,a3,a4,a5,a6⟩ := h1; wa_step
theorem step_w1_fire (t i ch : Nat) (arg : Int) (h : step s (.fire t i ch arg) = some s') : W1 s' := by
  obtain ⟨a1,a2,a3,a4,a5,a6⟩ := h1; wa_step
theorem step_w1_sig (t ch : Nat) (h : step s (.sig t ch) = some s') : W1 s' := by
  obtain ⟨a1,a2,a3,a4,a5,a6⟩ := h1; wa_step
theorem step_w1_latch (t : Nat) (h : step s (.latch t) = some s') : W1 s' := by
  obtain ⟨a1,a2,a3,a4,a5,a6⟩ := h1; wa_step
theorem step_w1_store (t i : Nat) (h : step s (.store t i) = some s') : W1 s' := by
  obtain ⟨a1,a2,a3,a4,a5,a6⟩ := h1; wa_step
theorem step_w1_dec (t : Nat) (h : step s (.dec t) = some s') : W1 s' := by
  obtain ⟨a1,a2,a3,a4,a5,a6⟩ := h1; wa_step
theorem step_w1_zero (t : Nat) (l e : Bool) (h : step s (.zero t l e) = some s') : W1 s' := by
  obtain ⟨a1,a2,a3,a4,a5,a6⟩ := h1; wa_step
theorem step_w1_rcv (t ch : Nat) (v : Int) (h : step s (.rcv t ch v) = some s') : W1 s' := by
  obtain ⟨a1,a2,a3,a4,a5,a6⟩ := h1; wa_step
theorem step_w1_ret (t : Nat) (h : step s (.ret t) = some s') : W1 s' := by
  obtain ⟨a1,a2,a3,a4,a5,a6⟩ := h1; wa_step
theorem step_w1_tdone (t : Nat) (h : step s (.tdone t) = some s') : W1 s' := by
  obtain ⟨a1,a2,a3,a4,a5,a6⟩ := h1; wa_step
end

theorem step_w1 (s s' : St) (e : Ev) (h1 : W1 s) (h : step s e = some s') : W1 s' := by
  cases e with
  | invStart t => exact step_w1_invStart s s' h1 t h
  | invComplete t i ch arg => exact step_w1_invComplete s s' h1 t i ch arg h
  | fire t i ch arg => exact step_w1_fire s s' h1 t i ch arg h
  | sig t ch => exact step_w1_sig s s' h1 t ch h
  | latch t => exact step_w1_latch s s' h1 t h
  | store t i => exact step_w1_store s s' h1 t i h
  | dec t => exact step_w1_dec s s' h1 t h
  | zero t l e => exact step_w1_zero s s' h1 t l e h
  | rcv t ch v => exact step_w1_rcv s s' h1 t ch v h
  | ret t => exact step_w1_ret s s' h1 t h
  | tdone t => exact step_w1_tdone s s' h1 t h

/-! ### the counter -/

theorem sum_stage_same (n : Nat) (stage : Nat → Nat) (i v : Nat) (h : w3 (stage i) = w3 v) :
    sumTo n (fun u => w3 (upd stage i v u)) = sumTo n (fun u => w3 (stage u)) := by
  apply sumTo_congr
  intro u _
  by_cases hu : u = i
  · subst hu; simp [h]
  · simp [upd, hu]

theorem sum_stage_dec (n : Nat) (stage : Nat → Nat) (i : Nat) (hi : i < n) (h2 : stage i = 2) :
    sumTo n (fun u => w3 (upd stage i 3 u)) = sumTo n (fun u => w3 (stage u)) + 1 := by
  have := sumTo_upd n w3 stage i 3 hi
  simp only [h2, w3] at this ⊢
  simpa using this

theorem sumTo_all_one {n : Nat} {f : Nat → Nat} (h : ∀ i, i < n → f i = 1) : sumTo n f = n := by
  induction n with
  | zero => rfl
  | succ k ih =>
    rw [sumTo_succ, ih (fun i hi => h i (Nat.lt_succ_of_lt hi)), h k (Nat.lt_succ_self k)]

theorem sumTo_le_n {n : Nat} {f : Nat → Nat} (h : ∀ i, f i ≤ 1) : sumTo n f ≤ n := by
  induction n with
  | zero => exact Nat.le_refl _
  | succ k ih => rw [sumTo_succ]; have := h k; omega

theorem sumTo_full {n : Nat} {f : Nat → Nat} (h : ∀ i, f i ≤ 1) (hs : sumTo n f = n) :
    ∀ i, i < n → f i = 1 := by
  induction n with
  | zero => intro i hi; exact absurd hi (Nat.not_lt_zero _)
  | succ k ih =>
    rw [sumTo_succ] at hs
    have h1 := sumTo_le_n (n := k) h
    have h2 := h k
    intro i hi
    by_cases hik : i = k
    · subst hik; omega
    · exact ih (by omega) i (by omega)

/-- `predecessors_remaining` = number of predecessors whose receiver call has not decremented yet. -/
def Cnt (s : St) : Prop := s.remaining + sumTo s.n (fun i => w3 (s.stage i)) = s.n

theorem cnt_init (n : Nat) : Cnt (init n) := by
  simp [Cnt, init, w3, sumTo_eq_zero]

theorem step_cnt_dec (s s' : St) (t : Nat) (h1 : W1 s) (hc : Cnt s) (h : step s (.dec t) = some s') :
    Cnt s' := by
  obtain ⟨a1,a2,a3,a4,a5,a6⟩ := h1
  unfold Cnt at hc ⊢
  simp only [step] at h
  split at h
  · rename_i i cx hpc
    have := a1 t i (by rw [hpc]; rfl)
    have hst : s.stage i = 2 := by rw [this.2.1, hpc]; rfl
    have hsum := sum_stage_dec s.n s.stage i this.2.2.1 hst
    repeat' split at h
    · simp at h
    · simp only [Option.some.injEq] at h; subst h; dsimp only; omega
    · simp only [Option.some.injEq] at h; subst h; simp only [afterCall]; split <;> dsimp only <;> omega
  · simp at h

theorem step_cnt (s s' : St) (e : Ev) (h1 : W1 s) (hc : Cnt s) (h : step s e = some s') : Cnt s' := by
  cases e with
  | dec t => exact step_cnt_dec s s' t h1 hc h
  | _ =>
    obtain ⟨a1,a2,a3,a4,a5,a6⟩ := h1
    unfold Cnt at hc ⊢
    simp only [step] at h
    (repeat' split at h) <;>
    first
    | (simp at h; done)
    | (simp only [Option.some.injEq] at h; subst h; (try (simp only [afterCall]; split)) <;> dsimp only <;>
       first
        | assumption
        | (rw [sum_stage_same _ _ _ _ (by grind)]; assumption))

/-- Once the counter is zero every predecessor's receiver call has decremented. -/
theorem all_decremented (s : St) (hc : Cnt s) (hz : s.remaining = 0) : ∀ i, i < s.n → s.stage i = 3 := by
  unfold Cnt at hc
  rw [hz, Nat.zero_add] at hc
  intro i hi
  have := sumTo_full (f := fun i => w3 (s.stage i)) (by intro i; simp only [w3]; split <;> omega) hc i hi
  simp only [w3] at this
  split at this
  · assumption
  · omega

/-- the call whose decrement reached zero, and the delivery -/
structure W2 (s : St) : Prop where
  lastPc : ∀ t, isLast (s.pc t) = true → t = s.lastT ∧ s.remaining = 0 ∧ s.delivered = 0
  zeroDone : s.remaining = 0 → 0 < s.n → s.delivered = 1 ∨ isLast (s.pc s.lastT) = true
  delOnce : s.delivered = 0 ∨ (s.delivered = 1 ∧ s.remaining = 0)

theorem w2_init (n : Nat) : W2 (init n) := by
  constructor <;> simp [init, isLast] <;> omega

section
variable (s s' : St) (h1 : W1 s) (h2 : W2 s)
include h1 h2
theorem step_w2_invStart (t : Nat) (h : step s (.invStart t) = some s') : W2 s' := by
  obtain ⟨a1,a2,a3,a4,a5,a6⟩ := h1; obtain ⟨b1,b2,b3⟩ := h2; wa_step
theorem step_w2_invComplete (t i ch : Nat) (arg : Int) (h : step s (.invComplete t i ch arg) = some s') : W2 s' := by
  obtain ⟨a1,a2,a3,a4,a5,a6⟩ := h1; obtain ⟨b1,b2,b3⟩ := h2; wa_step
theorem step_w2_fire (t i ch : Nat) (arg : Int) (h : step s (.fire t i ch arg) = some s') : W2 s' := by
  obtain ⟨a1,a2,a3,a4,a5,a6⟩ := h1; obtain ⟨b1,b2,b3⟩ := h2; wa_step
theorem step_w2_sig (t ch : Nat) (h : step s (.sig t ch) = some s') : W2 s' := by
  obtain ⟨a1,a2,a3,a4,a5,a6⟩ := h1; obtain ⟨b1,b2,b3⟩ := h2; wa_step
theorem step_w2_latch (t : Nat) (h : step s (.latch t) = some s') : W2 s' := by
  obtain ⟨a1,a2,a3,a4,a5,a6⟩ := h1; obtain ⟨b1,b2,b3⟩ := h2; wa_step
theorem step_w2_store (t i : Nat) (h : step s (.store t i) = some s') : W2 s' := by
  obtain ⟨a1,a2,a3,a4,a5,a6⟩ := h1; obtain ⟨b1,b2,b3⟩ := h2; wa_step
theorem step_w2_dec (t : Nat) (h : step s (.dec t) = some s') : W2 s' := by
  obtain ⟨a1,a2,a3,a4,a5,a6⟩ := h1; obtain ⟨b1,b2,b3⟩ := h2; wa_step
theorem step_w2_zero (t : Nat) (l e : Bool) (h : step s (.zero t l e) = some s') : W2 s' := by
  obtain ⟨a1,a2,a3,a4,a5,a6⟩ := h1; obtain ⟨b1,b2,b3⟩ := h2; wa_step
theorem step_w2_rcv (t ch : Nat) (v : Int) (h : step s (.rcv t ch v) = some s') : W2 s' := by
  obtain ⟨a1,a2,a3,a4,a5,a6⟩ := h1; obtain ⟨b1,b2,b3⟩ := h2; wa_step
theorem step_w2_ret (t : Nat) (h : step s (.ret t) = some s') : W2 s' := by
  obtain ⟨a1,a2,a3,a4,a5,a6⟩ := h1; obtain ⟨b1,b2,b3⟩ := h2; wa_step
theorem step_w2_tdone (t : Nat) (h : step s (.tdone t) = some s') : W2 s' := by
  obtain ⟨a1,a2,a3,a4,a5,a6⟩ := h1; obtain ⟨b1,b2,b3⟩ := h2; wa_step
end

theorem step_w2 (s s' : St) (e : Ev) (h1 : W1 s) (h2 : W2 s) (h : step s e = some s') : W2 s' := by
  cases e with
  | invStart t => exact step_w2_invStart s s' h1 h2 t h
  | invComplete t i ch arg => exact step_w2_invComplete s s' h1 h2 t i ch arg h
  | fire t i ch arg => exact step_w2_fire s s' h1 h2 t i ch arg h
  | sig t ch => exact step_w2_sig s s' h1 h2 t ch h
  | latch t => exact step_w2_latch s s' h1 h2 t h
  | store t i => exact step_w2_store s s' h1 h2 t i h
  | dec t => exact step_w2_dec s s' h1 h2 t h
  | zero t l e => exact step_w2_zero s s' h1 h2 t l e h
  | rcv t ch v => exact step_w2_rcv s s' h1 h2 t ch v h
  | ret t => exact step_w2_ret s s' h1 h2 t h
  | tdone t => exact step_w2_tdone s s' h1 h2 t h

/-! ### the decision -/

/-- the stored error, as a function of the first non-value completion -/
def errOf : Option (Nat × Nat × Int) → Option Int
  | none => none
  | some (_, ch, e) => if ch = 1 then none else some e

/-- latch, error and value slots versus the history of completions -/
structure W3 (s : St) : Prop where
  latchFirst : s.latch = true ↔ s.first ≠ none
  errFirst : s.err = errOf s.first
  firstCompl : ∀ i ch a, s.first = some (i, ch, a) →
    s.compl i = some (ch, a) ∧ ch ≠ 0 ∧ 2 ≤ s.stage i ∧ i < s.n
  valuesStored : s.first = none → ∀ i ch a, 2 ≤ s.stage i → s.compl i = some (ch, a) →
    ch = 0 ∧ s.slots i = some a

theorem w3_init (n : Nat) : W3 (init n) := by
  constructor <;> simp [init, errOf]

attribute [local grind] errOf

section
variable (s s' : St) (h1 : W1 s) (h3 : W3 s)
include h1 h3
theorem step_w3_invStart (t : Nat) (h : step s (.invStart t) = some s') : W3 s' := by
  obtain ⟨a1,a2,a3,a4,a5,a6⟩ := h1; obtain ⟨c1,c2,c3,c4⟩ := h3; wa_step
theorem step_w3_invComplete (t i ch : Nat) (arg : Int) (h : step s (.invComplete t i ch arg) = some s') : W3 s' := by
  obtain ⟨a1,a2,a3,a4,a5,a6⟩ := h1; obtain ⟨c1,c2,c3,c4⟩ := h3; wa_step
theorem step_w3_fire (t i ch : Nat) (arg : Int) (h : step s (.fire t i ch arg) = some s') : W3 s' := by
  obtain ⟨a1,a2,a3,a4,a5,a6⟩ := h1; obtain ⟨c1,c2,c3,c4⟩ := h3; wa_step
theorem step_w3_sig (t ch : Nat) (h : step s (.sig t ch) = some s') : W3 s' := by
  obtain ⟨a1,a2,a3,a4,a5,a6⟩ := h1; obtain ⟨c1,c2,c3,c4⟩ := h3; wa_step
theorem step_w3_latch (t : Nat) (h : step s (.latch t) = some s') : W3 s' := by
  obtain ⟨a1,a2,a3,a4,a5,a6⟩ := h1; obtain ⟨c1,c2,c3,c4⟩ := h3; wa_step
theorem step_w3_store (t i : Nat) (h : step s (.store t i) = some s') : W3 s' := by
  obtain ⟨a1,a2,a3,a4,a5,a6⟩ := h1; obtain ⟨c1,c2,c3,c4⟩ := h3; wa_step
theorem step_w3_dec (t : Nat) (h : step s (.dec t) = some s') : W3 s' := by
  obtain ⟨a1,a2,a3,a4,a5,a6⟩ := h1; obtain ⟨c1,c2,c3,c4⟩ := h3; wa_step
theorem step_w3_zero (t : Nat) (l e : Bool) (h : step s (.zero t l e) = some s') : W3 s' := by
  obtain ⟨a1,a2,a3,a4,a5,a6⟩ := h1; obtain ⟨c1,c2,c3,c4⟩ := h3; wa_step
theorem step_w3_rcv (t ch : Nat) (v : Int) (h : step s (.rcv t ch v) = some s') : W3 s' := by
  obtain ⟨a1,a2,a3,a4,a5,a6⟩ := h1; obtain ⟨c1,c2,c3,c4⟩ := h3; wa_step
theorem step_w3_ret (t : Nat) (h : step s (.ret t) = some s') : W3 s' := by
  obtain ⟨a1,a2,a3,a4,a5,a6⟩ := h1; obtain ⟨c1,c2,c3,c4⟩ := h3; wa_step
theorem step_w3_tdone (t : Nat) (h : step s (.tdone t) = some s') : W3 s' := by
  obtain ⟨a1,a2,a3,a4,a5,a6⟩ := h1; obtain ⟨c1,c2,c3,c4⟩ := h3; wa_step
end

theorem step_w3 (s s' : St) (e : Ev) (h1 : W1 s) (h3 : W3 s) (h : step s e = some s') : W3 s' := by
  cases e with
  | invStart t => exact step_w3_invStart s s' h1 h3 t h
  | invComplete t i ch arg => exact step_w3_invComplete s s' h1 h3 t i ch arg h
  | fire t i ch arg => exact step_w3_fire s s' h1 h3 t i ch arg h
  | sig t ch => exact step_w3_sig s s' h1 h3 t ch h
  | latch t => exact step_w3_latch s s' h1 h3 t h
  | store t i => exact step_w3_store s s' h1 h3 t i h
  | dec t => exact step_w3_dec s s' h1 h3 t h
  | zero t l e => exact step_w3_zero s s' h1 h3 t l e h
  | rcv t ch v => exact step_w3_rcv s s' h1 h3 t ch v h
  | ret t => exact step_w3_ret s s' h1 h3 t h
  | tdone t => exact step_w3_tdone s s' h1 h3 t h

/-! ### the delivered signal -/

theorem enc_congr (f g : Nat → Option Int) : ∀ n, (∀ i, i < n → f i = g i) → enc f n = enc g n
  | 0, _ => rfl
  | k + 1, h => by
    simp only [enc]
    rw [enc_congr f g k (fun i hi => h i (Nat.lt_succ_of_lt hi)), h k (Nat.lt_succ_self k)]

/-- With the counter at zero the code's decision (`finish()`) is the history's decision. -/
theorem decision_eq (s : St) (h1 : W1 s) (hc : Cnt s) (h3 : W3 s) (hz : s.remaining = 0) :
    decision s = decisionG s := by
  have hall := all_decremented s hc hz
  unfold decision decisionG
  cases hf : s.first with
  | none =>
    have hl : s.latch = false := by
      cases h : s.latch with
      | false => rfl
      | true => exact absurd hf (h3.latchFirst.mp h)
    simp only [hl, Bool.not_false, if_true]
    congr 1
    apply enc_congr
    intro i hi
    have hst := hall i hi
    have hne := h1.stageCompl i (by omega)
    simp only [vals]
    cases hci : s.compl i with
    | none => exact absurd hci hne
    | some p =>
      obtain ⟨ch, a⟩ := p
      exact (h3.valuesStored hf i ch a (by omega) hci).2
  | some p =>
    obtain ⟨i, ch, e⟩ := p
    have hl : s.latch = true := h3.latchFirst.mpr (by rw [hf]; simp)
    have he := h3.errFirst
    rw [hf] at he
    simp only [hl, Bool.not_true, Bool.false_eq_true, if_false, he, errOf]
    split <;> simp_all

/-- the delivered signal is the history's decision -/
def W4 (s : St) : Prop := s.delivered = 1 → s.result = some (decisionG s)

theorem w4_init (n : Nat) : W4 (init n) := by simp [W4, init]

/-- `decisionG` only depends on `first`, `n` and `compl` below `n`. -/
theorem decisionG_congr (s s' : St) (hf : s'.first = s.first) (hn : s'.n = s.n)
    (hc : ∀ i, i < s.n → s'.compl i = s.compl i) : decisionG s' = decisionG s := by
  unfold decisionG
  rw [hf, hn]
  cases s.first with
  | some p => rfl
  | none =>
    simp only
    congr 1
    apply enc_congr
    intro i hi
    simp only [vals, hc i hi]

theorem step_w4 (s s' : St) (e : Ev) (h1 : W1 s) (hc : Cnt s) (h2 : W2 s) (h3 : W3 s) (h4 : W4 s)
    (h : step s e = some s') : W4 s' := by
  have h2' := step_w2 s s' e h1 h2 h
  have hall : s.delivered = 1 → ∀ i, i < s.n → s.stage i = 3 := by
    intro hd
    rcases h2.delOnce with h0 | ⟨_, hz⟩
    · omega
    · exact all_decremented s hc hz
  unfold W4 at h4 ⊢
  cases e with
  | rcv t ch v =>
    simp only [step] at h
    split at h
    · rename_i cx hpc
      split at h
      · rename_i hdec
        have hlast := h2.lastPc t (by rw [hpc]; rfl)
        have hdq := decision_eq s h1 hc h3 hlast.2.1
        simp only [Option.some.injEq] at h; subst h
        intro _
        simp only [afterCall]
        split <;> dsimp only <;> rw [hdec, hdq] <;> congr 1
      · simp at h
    · simp at h
  | fire t i ch arg =>
    intro hd
    have hd0 : s.delivered = 1 := by
      simp only [step] at h
      (repeat' split at h) <;> first | (simp at h; done) | (simp only [Option.some.injEq] at h; subst h; exact hd)
    have hres : s'.result = s.result := by
      simp only [step] at h
      (repeat' split at h) <;> first | (simp at h; done) | (simp only [Option.some.injEq] at h; subst h; rfl)
    rw [hres, h4 hd0]
    congr 1
    symm
    apply decisionG_congr
    · simp only [step] at h
      (repeat' split at h) <;> first | (simp at h; done) | (simp only [Option.some.injEq] at h; subst h; rfl)
    · simp only [step] at h
      (repeat' split at h) <;> first | (simp at h; done) | (simp only [Option.some.injEq] at h; subst h; rfl)
    · intro j hj
      have hs3 := hall hd0 j hj
      simp only [step] at h
      split at h
      · rename_i hg
        have hne : j ≠ i := by
          intro hji; subst hji
          have hz : s.stage j = 0 := by
            cases Nat.eq_zero_or_pos (s.stage j) with
            | inl h0 => exact h0
            | inr hp => have := (h1.firedStage j).mpr (by omega); rw [hg.1] at this; simp at this
          omega
        (repeat' split at h) <;> first | (simp at h; done) | (simp only [Option.some.injEq] at h; subst h; simp [upd, hne])
      · simp at h
  | sig t ch =>
    intro hd
    -- no receiver call is in progress once the signal was delivered
    exfalso
    simp only [step] at h
    split at h
    · rename_i i ch' arg cx hpc
      have hcur := h1.curStage t i (by rw [hpc]; rfl)
      have hd0 : s.delivered = 1 := by
        (repeat' split at h) <;> first | (simp at h; done) | (simp only [Option.some.injEq] at h; subst h; exact hd)
      have := hall hd0 i hcur.2.2.1
      rw [hcur.2.1, hpc] at this
      simp [stOf] at this
    · simp at h
  | _ =>
    simp only [step] at h
    (repeat' split at h) <;>
    first
    | (simp at h; done)
    | (simp only [Option.some.injEq] at h; subst h; (try (simp only [afterCall]; split)) <;> exact h4)

/-- The complete inductive invariant of the `when_all` counter model. -/
structure WInv (s : St) : Prop where
  w1 : W1 s
  cnt : Cnt s
  w2 : W2 s
  w3 : W3 s
  w4 : W4 s

theorem winv_init (n : Nat) : WInv (init n) :=
  ⟨w1_init n, cnt_init n, w2_init n, w3_init n, w4_init n⟩

theorem step_winv (s s' : St) (e : Ev) (hi : WInv s) (h : step s e = some s') : WInv s' :=
  ⟨step_w1 s s' e hi.w1 h, step_cnt s s' e hi.w1 hi.cnt h, step_w2 s s' e hi.w1 hi.w2 h,
   step_w3 s s' e hi.w1 hi.w3 h, step_w4 s s' e hi.w1 hi.cnt hi.w2 hi.w3 hi.w4 h⟩

theorem winv_of_accepted {n : Nat} {log : List Ev} {s : St}
    (h : runLog step (init n) log = some s) : WInv s :=
  inv_of_runLog WInv (fun s e s' => step_winv s s' e) (winv_init n) h

/-- `n` never changes. -/
theorem n_of_accepted {n : Nat} {log : List Ev} {s : St}
    (h : runLog step (init n) log = some s) : s.n = n := by
  refine inv_of_runLog (fun s => s.n = n) ?_ rfl h
  intro s e s' hn hs
  cases e <;> simp only [step] at hs <;> (repeat' split at hs) <;>
    first
    | (simp at hs; done)
    | (simp only [Option.some.injEq] at hs; subst hs; (try (simp only [afterCall]; split)) <;> exact hn)

end PikaVerif.WhenAll
