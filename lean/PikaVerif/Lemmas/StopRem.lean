import PikaVerif.Lemmas.Stop7
/-!
# Sixth invariant of the stop_state model: the converse of `InvR.remA`

Follow-up C14q, layer C (on top of A, B and layer D, which needs faithful thread identities).
`InvR.remA/remP` (C14p) say: request_stop's local `is_removed` is only set once the destructor
of the callback it processes has passed its thread check.  This layer is the converse, i.e. what
makes the store `cb->callback_finished_executing_ = true` after the callback safe:

* `ptrRun` — between the store `cb->is_removed_ = &is_removed` and the finished store the
  pointer of the callback really points into the frame of the request_stop that processes it;
* `convR` — a destructor of `c` that has passed its last access to the stop state (only the
  `return` is left) while request_stop still processes `c` has set that request_stop's
  `is_removed`;
* `convD` — the same for a destructor that has returned;
* `dyingP` — while a callback is being destroyed the activity recorded in `dtorBy` is inside
  `remove_callback` (or at the `return` of the destructor).
-/
namespace PikaVerif.Stop
open PikaVerif

structure InvC (s : St) : Prop where
  ptrRun : ∀ w c, runPhase (s.pc w) = some c → s.remPtr c = some w
  convR : ∀ w c b, runPhase (s.pc w) = some c → retUnreg (s.pc b) = some c → s.remFlag w = true
  convD : ∀ w c, runPhase (s.pc w) = some c → s.life c = .dead → s.remFlag w = true
  dyingP : ∀ c, s.life c = .dying → unregOf (s.pc (s.dtorBy c)) = some c

theorem invC_init (n K : Nat) (id : Nat → Nat) (f1 f2 : Bool) (m : Nat) : InvC (init n K id f1 f2 m) := by
  refine ⟨?_, ?_, ?_, ?_⟩ <;> simp [init, runPhase]

attribute [local grind] isBody holds

set_option maxHeartbeats 4000000

set_option hygiene false in
macro "stopC" : tactic => `(tactic| (
  have b1 := hB.inList
  have b2 := hB.deqPushed
  have b4 := hB.winP
  have b5 := hB.ownerW
  have b6 := hB.unregP
  have b8 := hB.dtorP
  have b10 := hB.runsW
  have b12 := hB.keptP
  have d1 := hD.pend
  have d2 := hD.pendR
  have d3 := hD.winNoFin
  clear hB hA hD
  simp only [step] at h
  obtain ⟨h1,h2,h3,h4⟩ := hi
  split at h
  case isFalse => simp at h
  rename_i hg
  repeat' split at h
  all_goals first | (simp at h; done) | skip
  all_goals try cases ‹Kind›
  all_goals (
    simp only [Option.some.injEq] at h
    subst h
    refine ⟨?_,?_,?_,?_⟩ <;> try dsimp only
  )
  all_goals first
    | assumption
    | (intro u; grind (instances := 20000) [upd])
    | grind (instances := 20000) [upd, mem_of_mem_erase', mem_erase_ne, not_mem_erase_self]))

set_option hygiene false in
macro "stopCi" : tactic => `(tactic| (
  have b1 := hB.inList
  have b2 := hB.deqPushed
  have b4 := hB.winP
  have b5 := hB.ownerW
  have b6 := hB.unregP
  have b8 := hB.dtorP
  have b10 := hB.runsW
  have b12 := hB.keptP
  have d1 := hD.pend
  have d2 := hD.pendR
  have d3 := hD.winNoFin
  clear hB hA hD
  simp only [step] at h
  obtain ⟨h1,h2,h3,h4⟩ := hi
  split at h
  case isFalse => simp at h
  rename_i hg
  replace hg := And.intro hg.1 hg.2.1
  repeat' split at h
  all_goals first | (simp at h; done) | skip
  all_goals try cases ‹Kind›
  all_goals (
    simp only [Option.some.injEq] at h
    subst h
    refine ⟨?_,?_,?_,?_⟩ <;> try dsimp only
  )
  all_goals first
    | assumption
    | (intro u; grind (instances := 20000) [upd])
    | grind (instances := 20000) [upd, mem_of_mem_erase', mem_erase_ne, not_mem_erase_self]))

end PikaVerif.Stop
