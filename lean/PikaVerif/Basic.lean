def hello := "world"
