import PikaVerif.Lemmas.ChunkSize
/-!
# C11 — bulk calls `f` once per index, then completes once (arithmetic part)

Theorems about the *generated* arithmetic of `thread_pool_scheduler_bulk.hpp`
(`Gen/BulkArith.lean`, regenerated from the C++ source on every run, with the C++ integer
types) composed as in `bulk_receiver::set_value` (`Model/BulkPlan.lean`).

* `SafeC S w n c` — explicit decidable no-wrap guard for shape type `S`, `w` workers, shape
  `n`, parametric in the chunk size `c ≥ 1` (tuning `get_chunk_size` does not disturb these).
* `Safe S w n` — explicit bounds on `w`, `n` under which the generated `get_chunk_size`
  terminates with a chunk size satisfying `SafeC` (`C11_chunk_size_safe`).
* Under the guard: worker queues partition the chunk indices `[0, num_chunks)` and the chunks'
  index ranges partition `[0, n)`; no index outside `[0, n)` is produced; no signed overflow.
* Without the guard the property is false of the pinned tree; the counterexamples are proved
  below (`C11_unsafe_*`).

The protocol part (every queued chunk is popped exactly once under all interleavings, the
join counter and the exception latch) is in `Props/C17Index.lean` and `Props/C11Proto.lean`.
-/
namespace PikaVerif.C11
open PikaVerif PikaVerif.Gen.BulkArith PikaVerif.BulkPlan PikaVerif.BulkArith PikaVerif.Partition
open PikaVerif.ChunkSize

/-- Explicit bounds under which the pinned arithmetic is exact: at most 2^14 workers, at most
    2^31 indices, and `n + n/4` representable in the shape type (no overflow in
    `(index + 1) * chunk_size` for the last chunk). -/
def Safe (S : CTy) (w n : Nat) : Prop :=
  IsShape S ∧ 1 ≤ w ∧ w ≤ 16384 ∧ n ≤ 2147483648 ∧ S.fits ((n + n / 4 : Nat) : Int) = true

instance (S : CTy) (w n : Nat) : Decidable (Safe S w n) := by unfold Safe; infer_instance

/-- **`get_chunk_size` terminates under `Safe` and its result satisfies the no-wrap guard.** -/
theorem C11_chunk_size_safe (S : CTy) (w n : Nat) (h : Safe S w n) :
    ∃ c : Nat, chunkSizeOf S fuel w n = some (c : Int) ∧ SafeC S w n c := by
  obtain ⟨hS, hw, hw2, hn, hfit⟩ := h
  have hnf : S.fits (n : Int) = true := fits_mono S hS (by omega) (by omega) hfit
  obtain ⟨r, hr, hr1, hr2, hr3⟩ := getChunkSize_spec S w n hw (by omega) hn
  refine ⟨r, ?_, ?_⟩
  · unfold chunkSizeOf fuel
    rw [u32_wrap w (by omega) (by omega),
      CTy.wrap_of_fits (by rcases hS with rfl | rfl | rfl | rfl <;> decide) hnf]
    exact hr
  · have hrw : r ≤ r * w := Nat.le_mul_of_pos_right _ (by omega)
    have hr4 : r = 1 ∨ 4 * r < n := by
      rcases hr3 with h | h
      · exact Or.inl h
      · exact Or.inr (by omega)
    have hnc : nchunks r n ≤ 8 * w := by
      unfold nchunks
      have : n + r - 1 < (8 * w + 1) * r := by
        have : (8 * w + 1) * r = 8 * (r * w) + r := by
          rw [Nat.add_mul, Nat.one_mul, Nat.mul_assoc, Nat.mul_comm w r]
        omega
      have := (Nat.div_lt_iff_lt_mul (by omega : 0 < r)).2 this
      omega
    have hwnc : w * nchunks r n ≤ 2147483648 := by
      have h1 : w * nchunks r n ≤ w * (8 * w) := Nat.mul_le_mul_left _ hnc
      have h2 : w * w ≤ 16384 * 16384 := Nat.mul_le_mul hw2 hw2
      have h3 : w * (8 * w) = 8 * (w * w) := by
        rw [← Nat.mul_assoc, Nat.mul_comm w 8, Nat.mul_assoc]
      omega
    have hmul : nchunks r n * r ≤ n + n / 4 := by
      unfold nchunks
      have := Nat.div_mul_le_self (n + r - 1) r
      rcases hr4 with h | h
      · subst h; omega
      · omega
    refine ⟨hS, hr1, by omega, hw, by omega, hnf, ?_, by omega, by omega, ?_⟩
    · have hsum : (n : Int) + r < 4294967296 := by
        rcases hr4 with h | h <;> omega
      rcases hS with rfl | rfl | rfl | rfl <;> simp only [cm_i32_u32, cm_u32_u32, cm_i64_u32,
        cm_u64_u32, u32_fits, u64_fits, i64_fits] <;> omega
    · exact fits_mono S hS (by omega) (by omega) hfit

/-- **Queue initialisation.**  Under `SafeC`, `init_queue` gives worker `k` exactly the chunk
    indices `[k·nc/w, (k+1)·nc/w)` where `nc = ⌈n/c⌉`. -/
theorem C11_queue_ranges (S : CTy) (w n c k : Nat) (h : SafeC S w n c) (hk : k < w) :
    queueRange S w n c k =
      (((part w (nchunks c n) k : Nat) : Int), ((part w (nchunks c n) (k + 1) : Nat) : Int)) :=
  queueRange_ideal S w n c k h hk

/-- **Chunk → indices.**  Under `SafeC`, chunk `j < nc` makes `do_work_chunk` call exactly the
    indices `[j·c, min((j+1)·c, n))`, and no signed operation overflows. -/
theorem C11_chunk_ranges (S : CTy) (w n c k j : Nat) (h : SafeC S w n c) (hk : k < w)
    (hj : j < nchunks c n) :
    chunkRange S n c k j = (((j * c : Nat) : Int), ((min ((j + 1) * c) n : Nat) : Int)) ∧
    noUB S w n c k j = true :=
  chunkRange_ideal S w n c k j h hk hj

/-- **The per-worker chunk ranges partition `[0, num_chunks)`**: every chunk index is in the
    initial queue of exactly one worker. -/
theorem C11_chunks_partition (S : CTy) (w n c : Nat) (h : SafeC S w n c) (j : Nat)
    (hj : j < nchunks c n) :
    ∃ k, k < w ∧ (queueRange S w n c k).1 ≤ j ∧ (j : Int) < (queueRange S w n c k).2 ∧
      ∀ k', k' < w → (queueRange S w n c k').1 ≤ j → (j : Int) < (queueRange S w n c k').2 →
        k' = k := by
  obtain ⟨k, hk, h1, h2, hu⟩ := chunk_owner w (nchunks c n) h.2.2.2.1 j hj
  refine ⟨k, hk, ?_, ?_, ?_⟩
  · rw [C11_queue_ranges S w n c k h hk]; dsimp only; exact_mod_cast h1
  · rw [C11_queue_ranges S w n c k h hk]; dsimp only; exact_mod_cast h2
  · intro k' hk' a b
    rw [C11_queue_ranges S w n c k' h hk'] at a b
    dsimp only at a b
    exact hu k' hk' (by exact_mod_cast a) (by exact_mod_cast b)

/-- No worker's queue contains a chunk index outside `[0, num_chunks)`. -/
theorem C11_queue_within (S : CTy) (w n c k : Nat) (h : SafeC S w n c) (hk : k < w) :
    0 ≤ (queueRange S w n c k).1 ∧ (queueRange S w n c k).1 ≤ (queueRange S w n c k).2 ∧
      (queueRange S w n c k).2 ≤ (nchunks c n : Nat) := by
  rw [C11_queue_ranges S w n c k h hk]
  dsimp only
  have h1 := part_mono w (nchunks c n) k
  have h2 : part w (nchunks c n) (k + 1) ≤ part w (nchunks c n) w :=
    mono_le (part w (nchunks c n)) w (fun k _ => part_mono w _ k) (k + 1) w (by omega) (by omega)
  rw [part_last w _ h.2.2.2.1] at h2
  refine ⟨by omega, by exact_mod_cast h1, by exact_mod_cast h2⟩

/-- **The chunks' index ranges partition `[0, n)`**: every index `i < n` is called by exactly
    one chunk (whichever worker `k` pops it). -/
theorem C11_indices_partition (S : CTy) (w n c k : Nat) (h : SafeC S w n c) (hk : k < w)
    (i : Nat) (hi : i < n) :
    ∃ j, j < nchunks c n ∧ (chunkRange S n c k j).1 ≤ i ∧ (i : Int) < (chunkRange S n c k j).2 ∧
      ∀ j', j' < nchunks c n → (chunkRange S n c k j').1 ≤ i →
        (i : Int) < (chunkRange S n c k j').2 → j' = j := by
  obtain ⟨j, hj, h1, h2, hu⟩ := index_owner c n h.2.1 i hi
  refine ⟨j, hj, ?_, ?_, ?_⟩
  · rw [(C11_chunk_ranges S w n c k j h hk hj).1]; dsimp only; exact_mod_cast h1
  · rw [(C11_chunk_ranges S w n c k j h hk hj).1]; dsimp only; exact_mod_cast h2
  · intro j' hj' a b
    rw [(C11_chunk_ranges S w n c k j' h hk hj').1] at a b
    dsimp only at a b
    exact hu j' hj' (by exact_mod_cast a) (by exact_mod_cast b)

/-- **No other index.**  Every index a chunk produces lies in `[0, n)`. -/
theorem C11_no_index_outside (S : CTy) (w n c k j : Nat) (h : SafeC S w n c) (hk : k < w)
    (hj : j < nchunks c n) (i : Int) (h1 : (chunkRange S n c k j).1 ≤ i)
    (h2 : i < (chunkRange S n c k j).2) : 0 ≤ i ∧ i < n := by
  rw [(C11_chunk_ranges S w n c k j h hk hj).1] at h1 h2
  dsimp only at h1 h2
  have : min ((j + 1) * c) n ≤ n := Nat.min_le_right _ _
  refine ⟨by omega, by omega⟩

/-- Non-vacuity: the guards hold on ordinary inputs, for every shape type. -/
example : Safe CTy.i32 4 1000 ∧ Safe CTy.u32 16 2147483648 ∧ Safe CTy.i64 128 2000000000 ∧
    Safe CTy.u64 1 0 ∧ SafeC CTy.i32 4 1000 32 ∧ SafeC CTy.u64 3 17 5 := by decide

/-! ## The property is false of the pinned tree outside the guard

Full statement that does **not** hold (kept for the record):
`∀ S w n, IsShape S → 1 ≤ w → S.fits n → ∃ c, chunkSizeOf S fuel w n = some c ∧
   totalCalls S w n c = n`. -/

/-- **Truncation.**  `Shape = std::uint64_t`, `n = 2^32 + 5` (4 workers): `get_chunk_size`
    sees `static_cast<std::uint32_t>(n) = 5`, returns 1, `num_chunks = 2^32 + 5` is narrowed to 5
    by `init_queue`'s `std::uint32_t` parameter: `f` is called 5 times instead of 4294967301. -/
theorem C11_unsafe_truncation :
    chunkSizeOf CTy.u64 fuel 4 4294967301 = some 1 ∧ totalCalls CTy.u64 4 4294967301 1 = 5 := by
  decide +kernel

/-- **Non-termination.**  `Shape = std::uint32_t`, 4 workers, `n = 3·10^9`:
    `chunk_size * num_threads * 8` wraps to 0 before it reaches `n`, then `chunk_size` itself
    wraps to 0: the loop in `get_chunk_size` never exits (for every amount of fuel). -/
theorem C11_unsafe_hang : ∀ f, chunkSizeOf CTy.u32 f 4 3000000000 = none := by
  intro f
  unfold chunkSizeOf
  exact diverges_of_runs CTy.u32 _ _ (by decide +kernel) (by decide +kernel) (by decide +kernel) f

/-- **Signed overflow.**  `Shape = int`, 4 workers, `n = 2^31 - 1`: for the last chunk
    `(index + 1) * chunk_size = 2^31` overflows (undefined behaviour); with wrap-around
    `i_end` is negative and the last `2^26 - 1` indices are never called. -/
theorem C11_unsafe_signed_overflow :
    chunkSizeOf CTy.i32 fuel 4 2147483647 = some 67108864 ∧
    noUB CTy.i32 4 2147483647 67108864 3 31 = false ∧
    totalCalls CTy.i32 4 2147483647 67108864 = 2080374784 := by
  decide +kernel

end PikaVerif.C11
