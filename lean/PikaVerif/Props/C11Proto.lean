import PikaVerif.Lemmas.BulkQ
/-!
# C11 — bulk: every chunk once, one completion after the last call (protocol part)

Theorems about the model `PikaVerif.Bulk` (spawner, `w` worker tasks draining their own queue
from the left and stealing from the neighbours from the right, exception latch, join counter).
Each theorem quantifies over all accepted event logs: every number of workers, every local
worker, all cut points, every set of throwing calls and every interleaving.

Together with `Props/C11.lean` (under `SafeC` the queues are initialised with
`[k·nc/w, (k+1)·nc/w)` — monotone cut points with `a 0 = 0`, `a w = nc` — and chunk `j` calls
exactly the indices `[j·c, min((j+1)·c, n))`, which partition `[0, n)`) and
`Props/C17Index.lean` (each pop takes effect atomically): `f` is called exactly once for every
`i < n` and for no other index when no call throws.
-/
namespace PikaVerif.C11Proto
open PikaVerif PikaVerif.Bulk

/-- Reachable states: `w` workers, local worker `L < w`, monotone cut points. -/
def Reachable (w L : Nat) (a : Nat → Nat) (s : St) : Prop :=
  L < w ∧ (∀ k, k < w → a k ≤ a (k + 1)) ∧ ∃ log, runLog step (init w L a) log = some s

/-- **At most once, and no other chunk.**  In every reachable state no chunk index has been
    popped twice, and only chunk indices of the initial ranges `[a 0, a w)` are ever popped. -/
theorem C11_chunk_at_most_once (w L : Nat) (a : Nat → Nat) (s : St) (h : Reachable w L a s) (j : Nat) :
    s.popped j ≤ 1 ∧ ((j < a 0 ∨ a w ≤ j) → s.popped j = 0) := by
  obtain ⟨hL, hm, log, hl⟩ := h
  obtain ⟨hi, hq⟩ := invQ_of_accepted hL hm hl
  obtain ⟨ew, _, ea⟩ := frame_of_accepted hl
  have hout : (∀ k, k < s.w → ¬ (s.a k ≤ j ∧ j < s.a (k + 1))) → s.popped j = 0 := hq.out j
  constructor
  · by_cases hc : ∃ k, k < s.w ∧ s.a k ≤ j ∧ j < s.a (k + 1)
    · obtain ⟨k, hk, h1, h2⟩ := hc
      have := hq.acc k j hk h1 h2
      split at this <;> omega
    · have := hout (fun k hk hh => hc ⟨k, hk, hh.1, hh.2⟩); omega
  · intro hj
    apply hout
    intro k hk hh
    rw [ea, ew] at *
    have h0 := Partition.mono_le a w hm 0 k (by omega) (by omega)
    have h1 := Partition.mono_le a w hm (k + 1) w (by omega) (by omega)
    omega

/-- **Complete once, after the last call has returned.**  When the outcome has been decided
    (the last decrement of `tasks_remaining`), every one of the `w` participants has left
    `do_work` and decremented (so no call of `f` is running or will start), the counter is 0,
    the outcome is "error" exactly when some call threw, and the receiver is signalled at most
    once and only with that outcome. -/
theorem C11_complete_once_after_all (w L : Nat) (a : Nat → Nat) (s : St) (h : Reachable w L a s)
    (e : Bool) (ho : s.outcome = some e) :
    s.remaining = 0 ∧ (∀ k, k < s.w → s.pc k = .decd) ∧ (e = true ↔ 0 < s.threw) ∧
    s.signals ≤ 1 ∧ ∀ e' s', step s (.sig e') = some s' → e' = e ∧ s.signals = 0 := by
  obtain ⟨hL, hm, log, hl⟩ := h
  obtain ⟨hi, hq⟩ := invQ_of_accepted hL hm hl
  obtain ⟨h0, he⟩ := hi.outc e ho
  refine ⟨h0, no_active_when_done s hi h0, by rw [he]; exact hi.thr, hi.sig1, ?_⟩
  intro e' s' hs
  simp only [step] at hs
  split at hs
  · rename_i hg; rw [ho] at hg; simp at hg; exact ⟨hg.1.symm, hg.2⟩
  · simp at hs

/-- The receiver is never signalled before the outcome is decided, and never twice. -/
theorem C11_signal_only_after_outcome (w L : Nat) (a : Nat → Nat) (s : St) (h : Reachable w L a s) :
    s.signals ≤ 1 ∧ (s.outcome = none → s.signals = 0) := by
  obtain ⟨hL, hm, log, hl⟩ := h
  obtain ⟨hi, _⟩ := invQ_of_accepted hL hm hl
  exact ⟨hi.sig1, fun hn => (hi.outn hn).2⟩

/-- **Value ⇒ every chunk exactly once.**  If the outcome is "value" (no call threw) then every
    chunk index of `[a 0, a w)` has been popped exactly once — and, every participant having
    decremented, completely processed. -/
theorem C11_value_implies_all_chunks_once (w L : Nat) (a : Nat → Nat) (s : St)
    (h : Reachable w L a s) (ho : s.outcome = some false) (j : Nat) (h1 : a 0 ≤ j) (h2 : j < a w) :
    s.popped j = 1 := by
  obtain ⟨hL, hm, log, hl⟩ := h
  obtain ⟨hi, hq⟩ := invQ_of_accepted hL hm hl
  obtain ⟨ew, eL, ea⟩ := frame_of_accepted hl
  obtain ⟨h0, he⟩ := hi.outc false ho
  have hdec := no_active_when_done s hi h0
  have hLw : s.L < s.w := hi.wL
  have hsaw : s.sawAll = true := by
    rcases hq.locD (hdec s.L hLw) with h | h
    · exact h
    · rw [← he] at h; simp at h
  -- the cell of j
  have hmono : ∀ k, k < w → a k ≤ a (k + 1) := hm
  obtain ⟨k, hk, c1, c2⟩ : ∃ k, k < w ∧ a k ≤ j ∧ j < a (k + 1) := by
    have := Partition.exists_cell (fun k => a k - a 0) w
      (fun k hk => by have := hm k hk; omega) (by omega) (j - a 0)
      (by have := Partition.mono_le a w hm 0 w (by omega) (by omega); omega)
    obtain ⟨k, hk, x1, x2⟩ := this
    have m0 := Partition.mono_le a w hm 0 k (by omega) (by omega)
    have m1 := Partition.mono_le a w hm 0 (k + 1) (by omega) (by omega)
    exact ⟨k, hk, by omega, by omega⟩
  rw [← ew] at hk
  have hacc := hq.acc k j hk (by rw [ea]; exact c1) (by rw [ea]; exact c2)
  have hempty := (qEmpty_iff _).1 (hq.all hsaw k hk)
  split at hacc
  · omega
  · omega

/-- **Error ⇒ exactly one error, no value.**  If some call threw, the outcome is "error": the
    only signal the model accepts is `sig true`, once. -/
theorem C11_error_exactly_one_no_value (w L : Nat) (a : Nat → Nat) (s s' : St)
    (h : Reachable w L a s) (ht : 0 < s.threw) (e : Bool) (hs : step s (.sig e) = some s') :
    e = true ∧ s.signals = 0 ∧ s'.signals = 1 := by
  obtain ⟨hL, hm, log, hl⟩ := h
  obtain ⟨hi, _⟩ := invQ_of_accepted hL hm hl
  simp only [step] at hs
  split at hs
  · rename_i hg
    obtain ⟨_, he⟩ := hi.outc e hg.1
    simp only [Option.some.injEq] at hs; subst hs
    exact ⟨by rw [he]; exact hi.thr.2 ht, hg.2, rfl⟩
  · simp at hs

/-! ## Non-vacuity -/

/-- 2 workers, local worker 1, 3 chunks `[0,1) [1,3)`: worker 0 is spawned, both drain, worker 1
    steals nothing, last decrement by worker 1, value signalled. -/
def exampleLog : List Ev :=
  [.spawn 0, .task 1, .task 0, .pop 0 0 (some 0), .chunk 0 0, .pop 1 1 (some 1), .pop 0 0 none,
   .pop 0 1 (some 2), .pop 1 1 none, .pop 1 0 none, .dec 1 false, .pop 0 1 none, .dec 0 true,
   .sig false]

def exampleCuts : Nat → Nat
  | 0 => 0
  | 1 => 1
  | _ => 3

example : ((runLog step (init 2 1 exampleCuts) exampleLog).map (fun s => (s.outcome, s.signals))) =
    some (some false, 1) := by decide +kernel

/-- an exception in worker 0: error outcome -/
example : ((runLog step (init 2 1 exampleCuts)
    [.spawn 0, .task 1, .task 0, .pop 0 0 (some 0), .exc 0, .dec 0 false, .pop 1 1 (some 1),
     .pop 1 1 (some 2), .pop 1 1 none, .pop 1 0 none, .dec 1 true, .sig true]).map
      (fun s => (s.outcome, s.threw))) = some (some true, 1) := by decide +kernel

end PikaVerif.C11Proto
