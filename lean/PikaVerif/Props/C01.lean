import PikaVerif.Lemmas.Sched
/-!
# C01 — every submitted task runs exactly once, on one worker at a time

Theorems about the scheduler protocol model `PikaVerif.Sched` (state word + scheduling loop +
queue tokens).  They hold for every accepted log, i.e. every number of workers, tasks, yields,
suspensions, steals and recyclings and every interleaving of the instrumented operations.
"Object" = one `thread_data` instance; "actor" = one OS thread.

The body-entered-exactly-once clause also depends on the coroutine implementation (the first
phase enters the body, later phases resume it); that part is observed by the E2 monitors
(entry counters per task) and is not a theorem here.
-/
namespace PikaVerif.C01
open PikaVerif PikaVerif.Sched

def Reachable (s : St) : Prop := ∃ log, runLog step init log = some s

theorem inv_of_reachable {s : St} (h : Reachable s) : Inv s := by
  obtain ⟨log, hl⟩ := h
  exact inv_of_accepted hl

/-- **Only a pending thread whose queue entry this worker holds can be activated, and it has no
    runner at that moment.**  Whenever the model accepts a successful pending→active exchange by
    actor `a` on object `o`, the object was pending, had no owner, and `a` was the unique holder
    of its scheduling token — so two workers can never activate the same task. -/
theorem C01_activation_exclusive (s s' : St) (hr : Reachable s) (a o : Nat) (b af : W)
    (h : step s (.tagged a o b af) = some s') :
    (s.obj o).w.st = sPending ∧ (s.obj o).owner = none ∧ (s.obj o).holder = some a ∧
    (s.obj o).q = 0 ∧ (s.obj o).pusher = none ∧ (s'.obj o).owner = some a := by
  have hi := (inv_of_reachable hr) o
  simp only [step] at h
  split at h
  · rename_i hg
    simp only [Option.some.injEq] at h
    subst h
    obtain ⟨hl, hh, _, he, hw, _⟩ := hg
    have hst : (s.obj o).w.st = sPending := by rw [hw]; exact he
    have hpend : pendingish (s.obj o).w = true := by simp [pendingish, hst]
    have hown : (s.obj o).owner = none := by
      have := hi.ownerActive hl
      cases ho : (s.obj o).owner with
      | none => rfl
      | some x => rw [ho] at this; simp [hst] at this
    have hfresh : (s.obj o).fresh = false := by
      cases hf : (s.obj o).fresh with
      | false => rfl
      | true => have := (hi.tokFresh hl hf).1; simp [tokens, hh, b2n] at this
    have htok := hi.tokPending hl hfresh hpend
    simp only [tokens, hh, b2n] at htok
    refine ⟨hst, hown, hh, by simp at htok; omega, ?_, by simp [upd]⟩
    cases hp : (s.obj o).pusher with
    | none => rfl
    | some x => rw [hp] at htok; simp at htok
  · simp at h

/-- **One worker at a time.**  A phase of object `o` is only ever started by the actor that
    activated it, while the object is active and no other phase of it is in progress. -/
theorem C01_single_runner (s s' : St) (hr : Reachable s) (a o : Nat)
    (h : step s (.phaseBegin a o) = some s') :
    (s.obj o).owner = some a ∧ (s.obj o).w.st = sActive ∧ (s.obj o).inPhase = false := by
  have hi := (inv_of_reachable hr) o
  simp only [step] at h
  split at h
  · rename_i hg
    obtain ⟨hl, ho, hp, _⟩ := hg
    refine ⟨ho, ?_, by simpa using hp⟩
    exact (hi.ownerActive hl).1 (by simp [ho])
  · simp at h

/-- In every reachable state an object with a phase in progress is active and owned, and an
    active object is owned by exactly the recorded actor (the owner field is a function of the
    state, so there is at most one runner). -/
theorem C01_running_implies_active (s : St) (hr : Reachable s) (o : Nat)
    (hl : (s.obj o).live = true) (hp : (s.obj o).inPhase = true) :
    (s.obj o).owner.isSome = true ∧ (s.obj o).w.st = sActive := by
  have hi := (inv_of_reachable hr) o
  have ho := hi.phaseOwner hp
  exact ⟨ho, (hi.ownerActive hl).1 ho⟩

/-- **Never dropped.**  In every reachable state, a scheduled object that is pending (or
    pending_boost) carries exactly one scheduling token: a queue entry, a worker that has popped
    it, or the actor that has just made it pending and is about to queue it; an object in any
    other state carries none. -/
theorem C01_no_drop (s : St) (hr : Reachable s) (o : Nat) (hl : (s.obj o).live = true)
    (hf : (s.obj o).fresh = false) :
    (pendingish (s.obj o).w = true → tokens (s.obj o) = 1) ∧
    (pendingish (s.obj o).w = false → tokens (s.obj o) = 0) := by
  have hi := (inv_of_reachable hr) o
  exact ⟨hi.tokPending hl hf, hi.tokNone hl⟩

/-- An object is *at rest* when nothing in the system can make it run: no queue entry, no holder,
    nobody about to queue it, nobody running it. -/
def AtRest (x : Obj) : Prop := x.q = 0 ∧ x.holder = none ∧ x.pusher = none ∧ x.owner = none

/-- **At rest means finished or suspended.**  A scheduled object that is at rest is neither
    pending nor active: the runtime can only come to rest with a task terminated or
    (legitimately) suspended — a task is never lost while runnable. -/
theorem C01_at_rest_not_runnable (s : St) (hr : Reachable s) (o : Nat) (hl : (s.obj o).live = true)
    (hf : (s.obj o).fresh = false) (hrest : AtRest (s.obj o)) :
    pendingish (s.obj o).w = false ∧ (s.obj o).w.st ≠ sActive := by
  have hi := (inv_of_reachable hr) o
  obtain ⟨hq, hh, hp, ho⟩ := hrest
  constructor
  · cases hpd : pendingish (s.obj o).w with
    | false => rfl
    | true =>
      have := hi.tokPending hl hf hpd
      simp [tokens, hq, hh, hp, b2n] at this
  · intro hact
    have := (hi.ownerActive hl).2 hact
    simp [ho] at this

/-- **Recycling is safe.**  A thread object is re-initialised for a new task only when no queue
    entry, worker or pending insertion refers to it and no phase of it is running. -/
theorem C01_recycle_safe (s s' : St) (a o : Nat) (w : W) (h : step s (.rebind a o w) = some s') :
    (s.obj o).q = 0 ∧ (s.obj o).holder = none ∧ (s.obj o).owner = none ∧ (s.obj o).pusher = none ∧
    (s.obj o).inPhase = false := by
  simp only [step] at h
  split at h
  · rename_i hg
    have hu := hg.2.1
    simp [unreferenced] at hu
    obtain ⟨⟨⟨⟨⟨h1, h2⟩, h3⟩, h4⟩, h5⟩, _⟩ := hu
    exact ⟨h1, h2, h3, h4, h5⟩
  · simp at h

/-! ## Non-vacuity -/

def w0 : W := ⟨sPending, 1, 0⟩

/-- create, queue, pop, activate, run a phase returning `suspended`, store -/
def exampleLog : List Ev :=
  [.new 0 1 w0, .push 0 1, .got 1 1 w0 false, .tagged 1 1 w0 ⟨sActive, 1, 1⟩, .phaseBegin 1 1,
   .setex 1 1 ⟨sActive, 1, 1⟩ ⟨sActive, 1, 1⟩, .bodyEnter 1 1, .phaseEnd 1 1 sSuspended,
   .restore1 1 1 ⟨sActive, 1, 1⟩ ⟨sSuspended, 1, 2⟩]

example : (runLog step init exampleLog).isSome = true := by decide

end PikaVerif.C01
