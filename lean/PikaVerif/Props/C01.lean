import PikaVerif.Lemmas.Sched
import PikaVerif.Lemmas.SchedCo3
/-!
# C01 — every submitted task runs exactly once, on one worker at a time

Theorems about the scheduler protocol model `PikaVerif.Sched` (state word + scheduling loop +
queue tokens).  They hold for every accepted log, i.e. every number of workers, tasks, yields,
suspensions, steals and recyclings and every interleaving of the instrumented operations.
"Object" = one `thread_data` instance; "actor" = one OS thread.

The body-entered-exactly-once clause also depends on the coroutine implementation (the first
phase enters the body, later phases resume it).  The first version of this file left that part to
the E2 monitors (entry counters per task); the follow-up C01b (second half of this file) adds the
coroutine/body layer `Model/SchedCo.lean` and proves it, together with the progress ("run to
completion") theorems.
-/
namespace PikaVerif.C01
open PikaVerif PikaVerif.Sched

def Reachable (s : St) : Prop := ∃ log, runLog step init log = some s

theorem inv_of_reachable {s : St} (h : Reachable s) : Inv s := by
  obtain ⟨log, hl⟩ := h
  exact inv_of_accepted hl

/-- **Only a pending thread whose queue entry this worker holds can be activated, and it has no
    runner at that moment.**  Whenever the model accepts a successful pending→active exchange by
    actor `a` on object `o`, the object was pending, had no owner, and `a` was the unique holder
    of its scheduling token — so two workers can never activate the same task. -/
theorem C01_activation_exclusive (s s' : St) (hr : Reachable s) (a o : Nat) (b af : W)
    (h : step s (.tagged a o b af) = some s') :
    (s.obj o).w.st = sPending ∧ (s.obj o).owner = none ∧ (s.obj o).holder = some a ∧
    (s.obj o).q = 0 ∧ (s.obj o).pusher = none ∧ (s'.obj o).owner = some a := by
  have hi := (inv_of_reachable hr) o
  simp only [step] at h
  split at h
  · rename_i hg
    simp only [Option.some.injEq] at h
    subst h
    obtain ⟨hl, hh, _, he, hw, _⟩ := hg
    have hst : (s.obj o).w.st = sPending := by rw [hw]; exact he
    have hpend : pendingish (s.obj o).w = true := by simp [pendingish, hst]
    have hown : (s.obj o).owner = none := by
      have := hi.ownerActive hl
      cases ho : (s.obj o).owner with
      | none => rfl
      | some x => rw [ho] at this; simp [hst] at this
    have hfresh : (s.obj o).fresh = false := by
      cases hf : (s.obj o).fresh with
      | false => rfl
      | true => have := (hi.tokFresh hl hf).1; simp [tokens, hh, b2n] at this
    have htok := hi.tokPending hl hfresh hpend
    simp only [tokens, hh, b2n] at htok
    refine ⟨hst, hown, hh, by simp at htok; omega, ?_, by simp [upd]⟩
    cases hp : (s.obj o).pusher with
    | none => rfl
    | some x => rw [hp] at htok; simp at htok
  · simp at h

/-- **One worker at a time.**  A phase of object `o` is only ever started by the actor that
    activated it, while the object is active and no other phase of it is in progress. -/
theorem C01_single_runner (s s' : St) (hr : Reachable s) (a o : Nat)
    (h : step s (.phaseBegin a o) = some s') :
    (s.obj o).owner = some a ∧ (s.obj o).w.st = sActive ∧ (s.obj o).inPhase = false := by
  have hi := (inv_of_reachable hr) o
  simp only [step] at h
  split at h
  · rename_i hg
    obtain ⟨hl, ho, hp, _⟩ := hg
    refine ⟨ho, ?_, by simpa using hp⟩
    exact (hi.ownerActive hl).1 (by simp [ho])
  · simp at h

/-- In every reachable state an object with a phase in progress is active and owned, and an
    active object is owned by exactly the recorded actor (the owner field is a function of the
    state, so there is at most one runner). -/
theorem C01_running_implies_active (s : St) (hr : Reachable s) (o : Nat)
    (hl : (s.obj o).live = true) (hp : (s.obj o).inPhase = true) :
    (s.obj o).owner.isSome = true ∧ (s.obj o).w.st = sActive := by
  have hi := (inv_of_reachable hr) o
  have ho := hi.phaseOwner hp
  exact ⟨ho, (hi.ownerActive hl).1 ho⟩

/-- **Never dropped.**  In every reachable state, a scheduled object that is pending (or
    pending_boost) carries exactly one scheduling token: a queue entry, a worker that has popped
    it, or the actor that has just made it pending and is about to queue it; an object in any
    other state carries none. -/
theorem C01_no_drop (s : St) (hr : Reachable s) (o : Nat) (hl : (s.obj o).live = true)
    (hf : (s.obj o).fresh = false) :
    (pendingish (s.obj o).w = true → tokens (s.obj o) = 1) ∧
    (pendingish (s.obj o).w = false → tokens (s.obj o) = 0) := by
  have hi := (inv_of_reachable hr) o
  exact ⟨hi.tokPending hl hf, hi.tokNone hl⟩

/-- An object is *at rest* when nothing in the system can make it run: no queue entry, no holder,
    nobody about to queue it, nobody running it. -/
def AtRest (x : Obj) : Prop := x.q = 0 ∧ x.holder = none ∧ x.pusher = none ∧ x.owner = none

/-- **At rest means finished or suspended.**  A scheduled object that is at rest is neither
    pending nor active: the runtime can only come to rest with a task terminated or
    (legitimately) suspended — a task is never lost while runnable. -/
theorem C01_at_rest_not_runnable (s : St) (hr : Reachable s) (o : Nat) (hl : (s.obj o).live = true)
    (hf : (s.obj o).fresh = false) (hrest : AtRest (s.obj o)) :
    pendingish (s.obj o).w = false ∧ (s.obj o).w.st ≠ sActive := by
  have hi := (inv_of_reachable hr) o
  obtain ⟨hq, hh, hp, ho⟩ := hrest
  constructor
  · cases hpd : pendingish (s.obj o).w with
    | false => rfl
    | true =>
      have := hi.tokPending hl hf hpd
      simp [tokens, hq, hh, hp, b2n] at this
  · intro hact
    have := (hi.ownerActive hl).2 hact
    simp [ho] at this

/-- **Recycling is safe.**  A thread object is re-initialised for a new task only when no queue
    entry, worker or pending insertion refers to it and no phase of it is running. -/
theorem C01_recycle_safe (s s' : St) (a o : Nat) (w : W) (h : step s (.rebind a o w) = some s') :
    (s.obj o).q = 0 ∧ (s.obj o).holder = none ∧ (s.obj o).owner = none ∧ (s.obj o).pusher = none ∧
    (s.obj o).inPhase = false := by
  simp only [step] at h
  split at h
  · rename_i hg
    have hu := hg.2.1
    simp [unreferenced] at hu
    obtain ⟨⟨⟨⟨⟨h1, h2⟩, h3⟩, h4⟩, h5⟩, _⟩ := hu
    exact ⟨h1, h2, h3, h4, h5⟩
  · simp at h

/-! ## Non-vacuity -/

def w0 : W := ⟨sPending, 1, 0⟩

/-- create, queue, pop, activate, run a phase returning `suspended`, store -/
def exampleLog : List Ev :=
  [.new 0 1 w0, .push 0 1, .got 1 1 w0 false, .tagged 1 1 w0 ⟨sActive, 1, 1⟩, .phaseBegin 1 1,
   .setex 1 1 ⟨sActive, 1, 1⟩ ⟨sActive, 1, 1⟩, .bodyEnter 1 1, .phaseEnd 1 1 sSuspended,
   .restore1 1 1 ⟨sActive, 1, 1⟩ ⟨sSuspended, 1, 2⟩]

example : (runLog step init exampleLog).isSome = true := by decide

/-! ## Follow-up C01b — the coroutine/body layer (`Model/SchedCo.lean`) -/

/-- reachable states of the scheduler model with the coroutine/body layer -/
def ReachableCo (s : SchedCo.St) : Prop := ∃ log, runLog SchedCo.step SchedCo.init log = some s

theorem co_inv_of_reachable {s : SchedCo.St} (h : ReachableCo s) : SchedCo.Inv s := by
  obtain ⟨log, hl⟩ := h
  exact SchedCo.inv_of_accepted hl

/-- **The layer refines the protocol model.**  Erasing the `co.*` events of an accepted log gives a
    log accepted by `Sched.step`; so every theorem above holds for the base component of every
    state reachable with the layer. -/
theorem C01_layer_refines_protocol (log : List SchedCo.Ev) (s : SchedCo.St)
    (h : runLog SchedCo.step SchedCo.init log = some s) :
    runLog Sched.step Sched.init (SchedCo.baseLog log) = some s.base ∧ Reachable s.base := by
  have := SchedCo.base_accepts log SchedCo.init s h
  exact ⟨this, ⟨_, this⟩⟩

/-- **Body entered at most once per incarnation, exactly once if it terminated** (log form).
    For every accepted log and every thread object `o`: the number of thread-function entries
    (`co.enter`) after the last `task.new`/`task.rebind` of `o` is at most one, returns never exceed
    entries, and if the incarnation has reached `terminated` the function was entered exactly once
    and returned exactly once.  `entriesSince`/`returnsSince` are functions of the log alone. -/
theorem C01_body_entered_once (log : List SchedCo.Ev) (s : SchedCo.St)
    (h : runLog SchedCo.step SchedCo.init log = some s) (o : Nat) :
    SchedCo.entriesSince o log ≤ 1 ∧ SchedCo.returnsSince o log ≤ SchedCo.entriesSince o log ∧
    ((s.base.obj o).live = true → (s.base.obj o).fresh = false → (s.base.obj o).w.st = sTerminated →
      SchedCo.entriesSince o log = 1 ∧ SchedCo.returnsSince o log = 1) := by
  have hi := (SchedCo.inv_of_accepted h).2 o
  have hc := SchedCo.log_entries log SchedCo.init s h o
  have e0 : (SchedCo.init.co o).entries = 0 := rfl
  have x0 : (SchedCo.init.co o).exits = 0 := rfl
  rw [e0] at hc; rw [x0] at hc
  unfold SchedCo.entriesSince SchedCo.returnsSince
  rw [← hc.1, ← hc.2, hi.entriesEq, hi.exitsEq]
  refine ⟨by split <;> omega, ?_, ?_⟩
  · split <;> split <;> simp_all
  · intro hl hf ht
    have := hi.termReturned hl hf ht
    simp [this]

/-- **Between two (re)initialisations the body is entered at most once** (segment form).  Split an
    accepted log anywhere: a segment that contains no `task.new`/`task.rebind` of `o` contains at
    most one `co.enter` of `o` — and none at all if the function had been entered before the
    segment started. -/
theorem C01_body_entered_once_segment (pre seg : List SchedCo.Ev) (s : SchedCo.St)
    (h : runLog SchedCo.step SchedCo.init (pre ++ seg) = some s) (o : Nat)
    (hseg : seg.all (fun e => !SchedCo.isReinit o e) = true) :
    SchedCo.entriesSince o pre + (seg.filter (SchedCo.isEnter o)).length ≤ 1 := by
  have h1 := C01_body_entered_once (pre ++ seg) s h o
  unfold SchedCo.entriesSince at h1 ⊢
  rw [List.foldl_append, SchedCo.foldl_entF_noReinit o seg _ hseg] at h1
  exact h1.1

/-- **A later activation never re-enters.**  Once the thread function of the current incarnation
    has been entered, the model accepts no second entry: every further activation is a `co.resume`,
    which continues after the yield the body stopped at (and is accepted only then). -/
theorem C01_no_reentry (s : SchedCo.St) (hr : ReachableCo s) (a o : Nat)
    (he : (s.co o).entries ≠ 0) :
    SchedCo.step s (.coEnter a o) = none ∧
    (∀ s', SchedCo.step s (.coResume a o) = some s' →
      (s.co o).pc.isYielded = true ∧ (s'.co o).pc = .inBody ∧ (s'.co o).entries = (s.co o).entries) := by
  have hi := (co_inv_of_reachable hr).2 o
  constructor
  · simp only [SchedCo.step]
    split
    · rename_i hg
      have := hi.entriesEq
      simp [hg.2.2.2.1] at this
      exact absurd this he
    · rfl
  · intro s' h
    simp only [SchedCo.step] at h
    split at h
    · rename_i hg
      simp only [Option.some.injEq] at h
      subst h
      simp [hg.2.2.2.1]
    · simp at h

/-- **Each phase activates the body exactly once, and `terminated` comes from the body's return.**
    When the scheduling loop sees a phase end with request `r`, the coroutine was switched to in
    this phase, and either the body is at a yield that asked for exactly `r` (one of pending,
    suspended, pending_boost), or the thread function has returned and `r = terminated`.  In
    particular a `terminated` request is only ever produced by the return of the thread function. -/
theorem C01_phase_result_from_body (s s' : SchedCo.St) (hr : ReachableCo s) (a o r : Nat)
    (h : SchedCo.step s (.base (.phaseEnd a o r)) = some s') :
    (s.co o).ran = true ∧
    (((s.co o).pc = .yielded r ∧ SchedCo.okReq r = true ∧ r ≠ sTerminated) ∨
     ((s.co o).pc = .returned ∧ r = sTerminated ∧ (s.co o).exits = 1)) := by
  have hi := (co_inv_of_reachable hr).2 o
  obtain ⟨_, hco⟩ := SchedCo.step_base s s' _ h
  simp only [SchedCo.coBase] at hco
  split at hco
  · rename_i hg
    refine ⟨hg.1, ?_⟩
    rcases hg.2 with hy | ⟨hret, ht⟩
    · left
      have hk := hi.okReq
      rw [hy] at hk
      simp only [SchedCo.CoPc.okReq] at hk
      refine ⟨hy, hk, ?_⟩
      intro ht; rw [ht] at hk; simp [SchedCo.okReq, sTerminated, sPending, sBoost, sSuspended] at hk
    · right
      have := hi.exitsEq
      simp [hret] at this
      exact ⟨hret, ht, this⟩
  · simp at hco

/-- **The state word becomes `terminated` only after the body returned.** -/
theorem C01_terminated_only_after_return (s : SchedCo.St) (hr : ReachableCo s) (o : Nat)
    (hl : (s.base.obj o).live = true) (hf : (s.base.obj o).fresh = false)
    (ht : (s.base.obj o).w.st = sTerminated) :
    (s.co o).pc = .returned ∧ (s.co o).entries = 1 ∧ (s.co o).exits = 1 := by
  have hi := (co_inv_of_reachable hr).2 o
  have hp := hi.termReturned hl hf ht
  have h1 := hi.entriesEq
  have h2 := hi.exitsEq
  simp [hp] at h1 h2
  exact ⟨hp, h1, h2⟩

/-- **An entered, unfinished body is never lost and never duplicated.**  In every reachable state, a
    thread object whose function has been entered and has not returned is either *active* — owned
    by exactly one actor (the `owner` field) — or *pending* / *pending_boost* with exactly one
    scheduling token (queue entry, holder or pusher), or *suspended* with no token.  While the body
    is executing (`inBody`) it is in the phase of that one owner. -/
theorem C01_open_body_located (s : SchedCo.St) (hr : ReachableCo s) (o : Nat)
    (hl : (s.base.obj o).live = true) (hopen : (s.co o).pc.open = true) :
    (((s.base.obj o).w.st = sActive ∧ (s.base.obj o).owner.isSome = true ∧ tokens (s.base.obj o) = 0) ∨
     (pendingish (s.base.obj o).w = true ∧ (s.base.obj o).owner = none ∧ tokens (s.base.obj o) = 1) ∨
     ((s.base.obj o).w.st = sSuspended ∧ (s.base.obj o).owner = none ∧ tokens (s.base.obj o) = 0)) ∧
    ((s.co o).pc = .inBody → (s.base.obj o).inPhase = true ∧ (s.base.obj o).w.st = sActive) := by
  obtain ⟨hb, hc⟩ := co_inv_of_reachable hr
  have hi := hc o
  have bi := hb o
  have hnf : (s.base.obj o).fresh = false := by
    cases hf : (s.base.obj o).fresh with
    | false => rfl
    | true => have := hi.freshReady hf; rw [this] at hopen; simp [SchedCo.CoPc.open] at hopen
  have hnt : (s.base.obj o).w.st ≠ sTerminated := by
    intro ht
    have := hi.termReturned hl hnf ht
    rw [this] at hopen; simp [SchedCo.CoPc.open] at hopen
  have hown : (s.base.obj o).owner.isSome = true ↔ (s.base.obj o).w.st = sActive := bi.ownerActive hl
  constructor
  · rcases hi.stValid hl with h | h | h | h | h
    · left
      refine ⟨h, hown.2 h, bi.tokNone hl (by simp [pendingish, h, sActive, sPending, sBoost, sSuspended])⟩
    · right; left
      have hp : pendingish (s.base.obj o).w = true := by simp [pendingish, h]
      refine ⟨hp, ?_, bi.tokPending hl hnf hp⟩
      cases ho : (s.base.obj o).owner with
      | none => rfl
      | some x => have := hown.1 (by simp [ho]); rw [h] at this; exact absurd this (by decide)
    · right; left
      have hp : pendingish (s.base.obj o).w = true := by simp [pendingish, h]
      refine ⟨hp, ?_, bi.tokPending hl hnf hp⟩
      cases ho : (s.base.obj o).owner with
      | none => rfl
      | some x => have := hown.1 (by simp [ho]); rw [h] at this; exact absurd this (by decide)
    · right; right
      refine ⟨h, ?_, bi.tokNone hl (by simp [pendingish, h, sActive, sPending, sBoost, sSuspended])⟩
      cases ho : (s.base.obj o).owner with
      | none => rfl
      | some x => have := hown.1 (by simp [ho]); rw [h] at this; exact absurd this (by decide)
    · exact absurd h hnt
  · intro hb
    have := (hi.inBodyPhase hb).1
    exact ⟨this, hown.1 (bi.phaseOwner this)⟩

/-! ### Run to completion: progress in the house style

`Internal` events continue an operation that is already in progress (a queue insertion owed by a
pusher, a pop, the activation exchange, the phase with its coroutine switch, the body's next yield
or its return, the state store after the phase, the steps of a wake request in flight).  The
remaining events start something new or do not advance anything: creation / recycling /
destruction of a thread object, the entry of a new wake request (`sts.enter`; C02),
`abort_all_suspended_threads` (`sw.set` on a suspended thread), the re-read of the restart state
(`sw.setex`) and the harness' body notes. -/

def Internal : SchedCo.Ev → Bool
  | .base (.new _ _ _) => false
  | .base (.rebind _ _ _) => false
  | .base (.destroy _ _ _) => false
  | .base (.stsEnter _ _ _) => false
  | .base (.setex _ _ _ _) => false
  | .base (.set _ _ before _) => before.st != sSuspended
  | .base (.bodyEnter _ _) => false
  | .base (.bodyExit _ _) => false
  | _ => true

/-- no operation in progress can take a step -/
def Stuck (s : SchedCo.St) : Prop := ∀ e, Internal e = true → SchedCo.step s e = none

/-- **Progress ("run to completion").**  In a reachable state in which the model accepts no internal
    event, every thread object that was ever constructed has been scheduled, is at rest (no queue
    entry, holder, pusher or owner, no phase running), and its current incarnation is either
    *terminated* — its function was entered exactly once and returned exactly once — or
    *legitimately suspended*: the state word is `suspended` and the body sits at a yield that asked
    for exactly that (it waits for a wake-up; C02 shows that a wake-up request issued for it puts it
    back into a queue).  So the runtime cannot come to rest with a task that was never started,
    half run, or runnable. -/
theorem C01_progress (s : SchedCo.St) (hr : ReachableCo s) (hstuck : Stuck s) (o : Nat)
    (hl : (s.base.obj o).live = true) :
    (s.base.obj o).fresh = false ∧ AtRest (s.base.obj o) ∧ (s.base.obj o).inPhase = false ∧
    (((s.base.obj o).w.st = sTerminated ∧ (s.co o).pc = .returned ∧ (s.co o).entries = 1 ∧ (s.co o).exits = 1) ∨
     ((s.base.obj o).w.st = sSuspended ∧ (s.co o).pc = .yielded sSuspended ∧ (s.co o).entries = 1 ∧ (s.co o).exits = 0)) := by
  obtain ⟨hb, hc⟩ := co_inv_of_reachable hr
  have hi := hc o
  have bi := hb o
  -- helper: an enabled internal event contradicts `Stuck`
  have stuck : ∀ e, Internal e = true → (SchedCo.step s e).isSome = true → False := by
    intro e hI hs
    rw [hstuck e hI] at hs
    simp at hs
  have hown : (s.base.obj o).owner.isSome = true ↔ (s.base.obj o).w.st = sActive := bi.ownerActive hl
  -- not fresh: a fresh object can be queued
  have hnf : (s.base.obj o).fresh = false := by
    cases hf : (s.base.obj o).fresh with
    | false => rfl
    | true =>
      have h5 := bi.tokFresh hl hf
      have hq : (s.base.obj o).q = 0 := by have := h5.1; simp only [tokens] at this; omega
      exact (stuck (.base (.push 0 o)) rfl (SchedCo.en_push s 0 o hl h5.2.1 (Or.inl ⟨hf, hq⟩))).elim
  -- not active: the owner can always take its next step
  have hna : (s.base.obj o).w.st ≠ sActive := by
    intro hact
    have hos := hown.2 hact
    cases ho : (s.base.obj o).owner with
    | none => simp [ho] at hos
    | some a =>
      cases hp : (s.base.obj o).inPhase with
      | false =>
        cases hrp : (s.base.obj o).ranPhase with
        | false => exact stuck _ rfl (SchedCo.en_phaseBegin s a o hl ho hp hrp)
        | true => exact stuck _ rfl (SchedCo.en_restore1 s a o hl ho hp hrp)
      | true =>
        cases hran : (s.co o).ran with
        | false =>
          have h5 := hi.notRanPc hp hran
          cases hpc : (s.co o).pc with
          | ready => exact stuck _ rfl (SchedCo.en_coEnter s a o hl ho hp hpc hran)
          | inBody => exact absurd hpc h5.1
          | yielded r => exact stuck _ rfl (SchedCo.en_coResume s a o r hl ho hp hpc hran)
          | returned => exact absurd hpc h5.2
        | true =>
          cases hpc : (s.co o).pc with
          | ready => have := hi.readyNotRan hpc; rw [hran] at this; cases this
          | inBody => exact stuck _ rfl (SchedCo.en_coReturn s a o hl ho hp hpc)
          | yielded r =>
            have hk := hi.okReq
            rw [hpc] at hk
            have hne : r ≠ sActive := by
              intro h; rw [h] at hk; simp [SchedCo.CoPc.okReq, SchedCo.okReq, sActive, sPending, sSuspended, sBoost] at hk
            exact stuck _ rfl (SchedCo.en_phaseEnd_yield s a o r hl ho hp hpc hran hne)
          | returned => exact stuck _ rfl (SchedCo.en_phaseEnd_return s a o hl ho hp hpc hran)
  -- not pending / pending_boost: the unique token can move
  have hnp : pendingish (s.base.obj o).w = false := by
    cases hpd : pendingish (s.base.obj o).w with
    | false => rfl
    | true =>
      have htok := bi.tokPending hl hnf hpd
      have hst : (s.base.obj o).w.st = sPending ∨ (s.base.obj o).w.st = sBoost := by
        simpa [pendingish] using hpd
      cases hpu : (s.base.obj o).pusher with
      | some p =>
        rcases hst with h | h
        · exact (stuck _ rfl (SchedCo.en_push s p o hl h (Or.inr hpu))).elim
        · have hI : Internal (.base (.set p o (s.base.obj o).w ⟨sPending, (s.base.obj o).w.ex, (s.base.obj o).w.tag + 1⟩)) = true := by
            simp [Internal, h, sBoost, sSuspended]
          exact (stuck _ hI (SchedCo.en_setBoost s p o hl h hpu)).elim
      | none =>
        have hpend : (s.base.obj o).w.st = sPending := by
          rcases hst with h | h
          · exact h
          · have := bi.boostPusher hl h; simp [hpu] at this
        cases hh : (s.base.obj o).holder with
        | some a => exact (stuck _ rfl (SchedCo.en_tagged s a o hl hh (bi.hold a hh) hpend)).elim
        | none =>
          have hq : 0 < (s.base.obj o).q := by
            simp only [tokens, hpu, hh, b2n] at htok; simp at htok; omega
          exact (stuck _ rfl (SchedCo.en_got s 0 o hl hh hq)).elim
  have htok := bi.tokNone hl hnp
  have hrest : AtRest (s.base.obj o) := by
    have hq : (s.base.obj o).q = 0 := by simp only [tokens] at htok; omega
    have hh : (s.base.obj o).holder = none := by
      cases h : (s.base.obj o).holder with
      | none => rfl
      | some a => simp [tokens, h, b2n] at htok
    have hp : (s.base.obj o).pusher = none := by
      cases h : (s.base.obj o).pusher with
      | none => rfl
      | some a => simp [tokens, h, b2n] at htok
    have ho : (s.base.obj o).owner = none := by
      cases h : (s.base.obj o).owner with
      | none => rfl
      | some a => exact absurd (hown.1 (by simp [h])) hna
    exact ⟨hq, hh, hp, ho⟩
  have hph : (s.base.obj o).inPhase = false := by
    cases h : (s.base.obj o).inPhase with
    | false => rfl
    | true => have := bi.phaseOwner h; rw [hrest.2.2.2] at this; simp at this
  refine ⟨hnf, hrest, hph, ?_⟩
  have hpp : ¬ ((s.base.obj o).w.st = sPending) ∧ ¬ ((s.base.obj o).w.st = sBoost) := by
    simpa [pendingish] using hnp
  rcases hi.stValid hl with h | h | h | h | h
  · exact absurd h hna
  · exact absurd h hpp.1
  · exact absurd h hpp.2
  · right
    have hp := hi.suspYielded hl h
    have h1 := hi.entriesEq
    have h2 := hi.exitsEq
    simp [hp] at h1 h2
    exact ⟨h, hp, h1, h2⟩
  · left
    have hp := hi.termReturned hl hnf h
    have h1 := hi.entriesEq
    have h2 := hi.exitsEq
    simp [hp] at h1 h2
    exact ⟨h, hp, h1, h2⟩

/-- **A task with a token can always be run (solo completion).**  In every reachable state, take a
    constructed thread object that is pending or pending_boost — freshly created or re-queued after
    a yield or a wake-up — and any actor `a0`.  Then the model accepts a continuation of at most
    four events (the `pending_boost → pending` store and the queue insertion still owed by its
    pusher, a pop, the activation exchange) after which the object is active and owned by a worker;
    that worker is `a0` unless some worker already holds the popped entry.  No other object and no
    other actor has to move: a runnable task never depends on anything but a free worker. -/
theorem C01_token_runnable (s : SchedCo.St) (hr : ReachableCo s) (o a0 : Nat)
    (hl : (s.base.obj o).live = true) (hp : pendingish (s.base.obj o).w = true) :
    ∃ log s' a, log.length ≤ 4 ∧ runLog SchedCo.step s log = some s' ∧
      (s'.base.obj o).w.st = sActive ∧ (s'.base.obj o).owner = some a ∧
      ((s.base.obj o).holder = none → a = a0) := by
  obtain ⟨hb, _⟩ := co_inv_of_reachable hr
  have bi := hb o
  have hst : (s.base.obj o).w.st = sPending ∨ (s.base.obj o).w.st = sBoost := by
    simpa [pendingish] using hp
  cases hf : (s.base.obj o).fresh with
  | true =>
    have h5 := bi.tokFresh hl hf
    have hq : (s.base.obj o).q = 0 := by have := h5.1; simp only [tokens] at this; omega
    have hh : (s.base.obj o).holder = none := by
      cases h : (s.base.obj o).holder with
      | none => rfl
      | some x => have := h5.1; simp [tokens, h, b2n] at this
    obtain ⟨log, s', hlen, hrun, h1, h2⟩ := SchedCo.run_from_pusher s a0 a0 o hl h5.2.1 hh (Or.inl ⟨hf, hq⟩)
    exact ⟨log, s', a0, by omega, hrun, h1, h2, fun _ => rfl⟩
  | false =>
    have htok := bi.tokPending hl hf hp
    cases hpu : (s.base.obj o).pusher with
    | some p =>
      have hh : (s.base.obj o).holder = none := by
        cases h : (s.base.obj o).holder with
        | none => rfl
        | some x => simp [tokens, h, hpu, b2n] at htok
      rcases hst with h | h
      · obtain ⟨log, s', hlen, hrun, h1, h2⟩ := SchedCo.run_from_pusher s p a0 o hl h hh (Or.inr hpu)
        exact ⟨log, s', a0, by omega, hrun, h1, h2, fun _ => rfl⟩
      · obtain ⟨log, s', hlen, hrun, h1, h2⟩ := SchedCo.run_from_boost s p a0 o hl h hh hpu
        exact ⟨log, s', a0, by omega, hrun, h1, h2, fun _ => rfl⟩
    | none =>
      have hpend : (s.base.obj o).w.st = sPending := by
        rcases hst with h | h
        · exact h
        · have := bi.boostPusher hl h; simp [hpu] at this
      cases hh : (s.base.obj o).holder with
      | some a =>
        obtain ⟨log, s', hlen, hrun, h1, h2⟩ := SchedCo.run_from_holder s a o hl hh (bi.hold a hh) hpend
        exact ⟨log, s', a, by omega, hrun, h1, h2, fun hn => by simp at hn⟩
      | none =>
        have hq : 0 < (s.base.obj o).q := by
          simp only [tokens, hpu, hh, b2n] at htok; simp at htok; omega
        obtain ⟨log, s', hlen, hrun, h1, h2⟩ := SchedCo.run_from_queue s a0 o hl hh hq hpend
        exact ⟨log, s', a0, by omega, hrun, h1, h2, fun _ => rfl⟩


/-! ### Non-vacuity of the layer -/

/-- create, queue, pop, activate; first phase enters the function, which yields `suspended`; a wake-up
    (`set_thread_state`) re-queues it; the second phase resumes and the function returns -/
def exampleLogCo : List SchedCo.Ev :=
  [.base (.new 0 1 w0), .base (.push 0 1), .base (.got 1 1 w0 false),
   .base (.tagged 1 1 w0 ⟨sActive, 1, 1⟩), .base (.phaseBegin 1 1),
   .base (.setex 1 1 ⟨sActive, 1, 1⟩ ⟨sActive, 1, 1⟩), .coEnter 1 1, .base (.bodyEnter 1 1),
   .coYield 1 1 sSuspended, .base (.phaseEnd 1 1 sSuspended),
   .base (.restore1 1 1 ⟨sActive, 1, 1⟩ ⟨sSuspended, 1, 2⟩),
   .base (.stsEnter 2 1 sPending), .base (.stsLoad 2 1 ⟨sSuspended, 1, 2⟩),
   .base (.restore2 2 1 ⟨sSuspended, 1, 2⟩ ⟨sPending, 1, 3⟩), .base (.push 2 1), .base (.stsDone 2 1),
   .base (.got 3 1 ⟨sPending, 1, 3⟩ false), .base (.tagged 3 1 ⟨sPending, 1, 3⟩ ⟨sActive, 1, 4⟩),
   .base (.phaseBegin 3 1), .coResume 3 1, .base (.bodyExit 3 1), .coReturn 3 1 sTerminated,
   .base (.phaseEnd 3 1 sTerminated), .base (.restore1 3 1 ⟨sActive, 1, 4⟩ ⟨sTerminated, 1, 5⟩)]

example : (runLog SchedCo.step SchedCo.init exampleLogCo).isSome = true := by decide
example : SchedCo.entriesSince 1 exampleLogCo = 1 ∧ SchedCo.returnsSince 1 exampleLogCo = 1 := by decide
/-- a second entry of the same incarnation, a resume of a body that never yielded, and a
    `terminated` phase result without a return are all rejected -/
example : (runLog SchedCo.step SchedCo.init (exampleLogCo.take 20 ++ [.coEnter 3 1])).isSome = false := by decide
example : (runLog SchedCo.step SchedCo.init (exampleLogCo.take 6 ++ [.coResume 1 1])).isSome = false := by decide
example : (runLog SchedCo.step SchedCo.init (exampleLogCo.take 21 ++ [.base (.phaseEnd 3 1 sTerminated)])).isSome = false := by decide

end PikaVerif.C01
