import PikaVerif.Lemmas.Agent
/-!
# C07 (follow-up C07h) — the hand-shake of `default_agent` never loses a resume

Property theorems about the model `PikaVerif.Agent` (`Model/Agent.lean`): suspend / resume / abort /
yield / sleep of `pika::execution::detail::default_agent` (`libs/pika/execution_base/src/this_thread.cpp`),
the execution agent through which every PLAIN OS THREAD blocks on a pika condition variable.  The theorems
of `Props/C07.lean` treat the agent abstractly ("a resume leaves a wake-up token, suspend returns when a
token exists"); the theorems below show that the real agent's mutex / two-condition-variable protocol
implements exactly that, for every number of resuming threads and every interleaving, with NO assumption on
when `resume` / `abort` are called (before, during or after the owner's `suspend`).

`Reachable s` = `s` is the state after some accepted log of the variant `.code` (the pinned tree's text).
The variant `.noWait` (the line `resume_cv_.wait(l, [&] { return !running_; });` removed from `resume()` /
`abort()`) has a `decide`-checked counterexample at the end of the file.
-/
namespace PikaVerif.C07Agent
open PikaVerif PikaVerif.Agent

def Reachable (s : St) : Prop := ∃ ow log, runLog (step .code) (init ow) log = some s

theorem Reachable.inv {s : St} (h : Reachable s) : Inv s := by
  obtain ⟨ow, log, hl⟩ := h
  exact inv_of_accepted hl

theorem Reachable.step {s s' : St} {e : Ev} (h : Reachable s) (hs : step .code s e = some s') :
    Reachable s' := by
  obtain ⟨ow, log, hl⟩ := h
  refine ⟨ow, log ++ [e], ?_⟩
  rw [runLog_append, hl]
  simp [runLog, hs]

/-! ## counters of the state = counts of events in the log -/

def cnt (f : Ev → Bool) : List Ev → Nat
  | [] => 0
  | e :: l => (if f e then 1 else 0) + cnt f l

def isPark : Ev → Bool | .sPark _ => true | _ => false
def isGo : Ev → Bool | .rGo _ => true | _ => false
def isSRet : Ev → Bool | .sRet _ _ => true | _ => false
def isRRel : Ev → Bool | .rRel _ => true | _ => false

theorem counters_step (v : Variant) (s s' : St) (e : Ev) (h : Agent.step v s e = some s') :
    s'.parks = s.parks + cnt isPark [e] ∧ s'.gos = s.gos + cnt isGo [e] ∧
    s'.sRets = s.sRets + cnt isSRet [e] ∧ s'.rRets = s.rRets + cnt isRRel [e] := by
  cases e <;> simp only [Agent.step] at h <;> (repeat' split at h) <;>
    first | (simp at h; done)
          | (simp only [Option.some.injEq] at h; subst h; simp [cnt, isPark, isGo, isSRet, isRRel])

theorem counters_log (v : Variant) (log : List Ev) : ∀ (s s' : St), runLog (Agent.step v) s log = some s' →
    s'.parks = s.parks + cnt isPark log ∧ s'.gos = s.gos + cnt isGo log ∧
    s'.sRets = s.sRets + cnt isSRet log ∧ s'.rRets = s.rRets + cnt isRRel log := by
  induction log with
  | nil => intro s s' h; simp at h; subst h; simp [cnt]
  | cons e es ih =>
    intro s s' h
    simp only [runLog] at h
    cases hs : Agent.step v s e with
    | none => simp [hs] at h
    | some s1 =>
      simp only [hs] at h
      have h1 := counters_step v s s1 e hs
      have h2 := ih s1 s' h
      simp only [cnt] at h1 ⊢
      refine ⟨?_, ?_, ?_, ?_⟩ <;> omega

/-! ## safety -/

/-- **Mutual exclusion on `mtx_`.**  At most one thread is inside a critical section of the agent. -/
theorem C07h_mutex_exclusive {s : St} (hr : Reachable s) (t u : Nat)
    (ht : (s.pc t).holds = true) (hu : (s.pc u).holds = true) : t = u := by
  have hi := hr.inv
  have h1 := hi.mtx1 t ht
  have h2 := hi.mtx1 u hu
  rw [h1] at h2
  exact (Option.some.inj h2)

/-- `PIKA_ASSERT(running_)` at the head of `suspend()` never fires: whenever the owner is about to execute
    `running_ = false` the flag is true (nobody resumes an agent that is not suspended, nobody clears the
    flag twice). -/
theorem C07h_suspend_entry_running {s s' : St} {t : Nat} (hr : Reachable s)
    (h : step .code s (.sPark t) = some s') : s.running = true ∧ t = s.owner := by
  have hi := hr.inv
  simp only [step] at h
  split at h
  · rename_i hp
    have hown : t = s.owner := by
      apply Classical.byContradiction
      intro hne
      have := (hi.own t hne).1
      simp [hp, Pc.inSuspend] at this
    refine ⟨?_, hown⟩
    cases hrun : s.running with
    | true => rfl
    | false =>
      have := hi.run1 hrun
      rw [← hown, hp] at this
      simp [Pc.isSWait] at this
  · simp at h

/-- **`resume` / `abort` hand over only to a suspended agent.**  The store `running_ = true` of a resumer
    happens in a state in which the owner has executed `running_ = false` and sits in `suspend_cv_.wait`;
    the same step leaves a pending wake-up for the owner (the `notify_one`), and `abort` additionally leaves
    `aborted_` set. -/
theorem C07h_resume_hands_over_to_suspended {s s' : St} {t : Nat} (hr : Reachable s)
    (h : step .code s (.rGo t) = some s') :
    s.running = false ∧ (s.pc s.owner).isSWait = true ∧ s'.pc s'.owner = .sWait true ∧
      s'.running = true ∧ (s.pc t = .rSet true → s'.aborted = true) := by
  have hi := hr.inv
  simp only [step] at h
  split at h
  · rename_i ab hp
    have hrun := hi.run4 t ab hp
    have hsw := hi.run1 hrun
    have hne : s.owner ≠ t := by
      intro he
      have := hi.ownR
      rw [he, hp] at this
      simp [Pc.inResume] at this
    simp only [Option.some.injEq] at h
    subst h
    refine ⟨hrun, hsw, ?_, rfl, ?_⟩
    · dsimp only
      rw [upd_other _ _ _ _ hne]
      simp only [wakeOwner, if_true]
      cases hpo : s.pc s.owner <;> simp [hpo, Pc.isSWait] at hsw ⊢
    · intro hp2
      rw [hp] at hp2
      cases hp2
      simp
  · simp at h

/-- **A resumed waiter is notified.**  Whenever the owner is inside `suspend_cv_.wait` and `running_` is
    true (some resumer has stored it), the owner's wake-up is pending: the model's `sWake _ true` — the
    return of the wait — is enabled as soon as the mutex is free.  The flag is never true "silently". -/
theorem C07h_resumed_waiter_is_notified {s : St} (hr : Reachable s) (sig : Bool)
    (hp : s.pc s.owner = .sWait sig) (hrun : s.running = true) : sig = true := by
  cases sig with
  | true => rfl
  | false =>
    have := hr.inv.run2 hp
    rw [hrun] at this
    cases this

/-- **Counting form, state.**  Resumes that have returned ≤ resumes that stored `running_ = true` ≤
    suspensions that stored `running_ = false`; returns from `suspend` ≤ stores of `running_ = true`; and
    `running_` is false exactly when one more suspension than hand-over has happened. -/
theorem C07h_counters {s : St} (hr : Reachable s) :
    s.rRets ≤ s.gos ∧ s.gos ≤ s.parks ∧ s.sRets ≤ s.gos ∧ s.parks ≤ s.gos + 1 ∧
      (s.running = false ↔ s.parks = s.gos + 1) := by
  have hi := hr.inv
  have h1 := hi.cnt1
  have h2 := hi.cnt2
  have h3 := hi.cnt3
  cases hrun : s.running <;> simp [hrun, b2n] at h1 <;> refine ⟨?_, ?_, ?_, ?_, ?_⟩ <;>
    first | omega | (simp; omega)

/-- **`resume()` returns only after the target really suspended** (log form, hence at every moment of every
    execution, because every prefix of an accepted log is accepted): the k-th return from `resume`/`abort` is
    preceded by the k-th `running_ = false` of the owner, and the k-th return from `suspend` by the k-th
    `running_ = true` of a resumer. -/
theorem C07h_resume_returns_after_suspend (ow : Nat) (log : List Ev) (s : St)
    (h : runLog (step .code) (init ow) log = some s) :
    cnt isRRel log ≤ cnt isGo log ∧ cnt isGo log ≤ cnt isPark log ∧ cnt isSRet log ≤ cnt isGo log := by
  have hc := counters_log .code log _ s h
  have hk := C07h_counters ⟨ow, log, h⟩
  simp only [init] at hc
  omega

/-- **A resume that returned is never lost.**  If as many `resume`/`abort` calls have *returned* as the owner
    has executed suspensions, the owner is not blocked: it is outside `suspend_cv_.wait`, or `running_` is
    true and its wake-up is pending. -/
theorem C07h_returned_resume_not_lost {s : St} (hr : Reachable s) (sig : Bool)
    (hp : s.pc s.owner = .sWait sig) (hk : s.parks ≤ s.rRets) : s.running = true ∧ sig = true := by
  have hc := C07h_counters hr
  have hrun : s.running = true := by
    cases hrun : s.running with
    | true => rfl
    | false => have := hc.2.2.2.2.1 hrun; omega
  exact ⟨hrun, C07h_resumed_waiter_is_notified hr sig hp hrun⟩

/-- `abort` marks the agent for good: `aborted_` is never cleared (every later `suspend()` of this OS thread
    throws `yield_aborted` — behaviour of the code as it is). -/
theorem C07h_aborted_sticky {s s' : St} {e : Ev} (h : step .code s e = some s') (ha : s.aborted = true) :
    s'.aborted = true := by
  cases e <;> simp only [step] at h <;> (repeat' split at h) <;>
    first | (simp at h; done) | (simp only [Option.some.injEq] at h; subst h; simp [ha])

/-- `suspend()` throws iff `aborted_` is set, and it returns (either way) only with `running_` true. -/
theorem C07h_suspend_result {s s' : St} {t : Nat} {ab : Bool} (hr : Reachable s)
    (h : step .code s (.sRet t ab) = some s') : ab = s.aborted ∧ s.running = true ∧ s'.mtx = none := by
  have hi := hr.inv
  simp only [step] at h
  split at h
  · rename_i hg
    simp only [Option.some.injEq] at h
    subst h
    refine ⟨hg.2, ?_, rfl⟩
    cases hrun : s.running with
    | true => rfl
    | false =>
      have h1 := hi.run1 hrun
      have hown : t = s.owner := by
        apply Classical.byContradiction
        intro hne
        have := (hi.own t hne).1
        simp [hg.1, Pc.inSuspend] at this
      rw [← hown, hg.1] at h1
      simp [Pc.isSWait] at h1
  · simp at h

/-- yield / yield_k / spin_k / sleep_for / sleep_until take no part in the hand-shake: the flags, the mutex
    and the counters are untouched; in particular an agent inside `sleep_until` has `running_ = true`, so a
    `resume` aimed at it BLOCKS (it reads `running_ = true` and waits) until the owner's next `suspend`. -/
theorem C07h_sleep_is_not_a_suspension {s : St} (hr : Reachable s) (hp : s.pc s.owner = .sleeping) :
    s.running = true ∧ ∀ t s', step .code s (.rChk t true) = some s' → ∃ ab, s'.pc t = .rWait ab false := by
  have hi := hr.inv
  have hrun : s.running = true := by
    cases hrun : s.running with
    | true => rfl
    | false =>
      have := hi.run1 hrun
      rw [hp] at this
      simp [Pc.isSWait] at this
  refine ⟨hrun, ?_⟩
  intro t s' h
  simp only [step] at h
  split at h
  · rename_i ab hpt
    simp [hrun] at h
    subst h
    exact ⟨ab, by simp⟩
  · simp at h

theorem C07h_yield_no_effect {v : Variant} {s s' : St} {t : Nat} (h : step v s (.yield t) = some s') : s' = s := by
  simp only [step] at h
  split at h <;> simp at h
  exact h.symm

/-! ## progress -/

/-- **No stuck state except "waiting for a call that was not issued".**  In a reachable state in which no
    thread can take a step inside an operation it has begun (only new calls / naps and spurious wake-ups are
    possible), every thread is
    * outside the agent (`idle`), or
    * the owner, blocked in `suspend` with `running_ = false` while NO thread is inside `resume`/`abort` and
      every `running_ = true` ever stored has been consumed (`gos = rRets`, `parks = gos + 1`): it waits for
      a resume that was not issued, or
    * a resumer blocked in `resume_cv_.wait` with `running_ = true` while the owner is outside `suspend`: it
      waits for a suspend that was not issued.
    In particular the two kinds of blocked thread never coexist. -/
theorem C07h_stuck_only_unresumed {s : St} (hr : Reachable s) (hs : Stuck .code s) (t : Nat) :
    s.pc t = .idle ∨
    (t = s.owner ∧ s.pc t = .sWait false ∧ s.running = false ∧ s.gos = s.rRets ∧ s.parks = s.gos + 1 ∧
      ∀ u, u ≠ s.owner → s.pc u = .idle) ∨
    (t ≠ s.owner ∧ (∃ ab, s.pc t = .rWait ab false) ∧ s.running = true ∧ s.pc s.owner = .idle) := by
  have hi := hr.inv
  -- the mutex is free: its holder could step
  have hm : s.mtx = none := by
    cases hmx : s.mtx with
    | none => rfl
    | some u =>
      exfalso
      have hh := hi.mtx2 u hmx
      cases hp : s.pc u <;> simp [hp, Pc.holds] at hh
      · have := hs (.sPark u) rfl; simp [step, hp] at this
      · have := hs (.sRet u s.aborted) rfl; simp [step, hp] at this
      · have := hs (.rChk u s.running) rfl; simp [step, hp] at this
        cases hrun : s.running <;> simp [hrun] at this
      · have := hs (.rGo u) rfl; simp [step, hp] at this
      · have := hs (.rRel u) rfl; simp [step, hp] at this
  -- classification of a single thread in a stuck state
  have cls : ∀ u, s.pc u = .idle ∨ s.pc u = .sWait false ∨ ∃ ab, s.pc u = .rWait ab false := by
    intro u
    cases hp : s.pc u with
    | idle => exact Or.inl rfl
    | sleeping => have := hs (.sleepE u) rfl; simp [step, hp] at this
    | sLock => have := hs (.sAcq u) rfl; simp [step, hp, hm] at this
    | sHold => have := hi.mtx1 u (by simp [hp, Pc.holds]); rw [hm] at this; cases this
    | sHold2 => have := hi.mtx1 u (by simp [hp, Pc.holds]); rw [hm] at this; cases this
    | rHold ab => have := hi.mtx1 u (by simp [hp, Pc.holds]); rw [hm] at this; cases this
    | rSet ab => have := hi.mtx1 u (by simp [hp, Pc.holds]); rw [hm] at this; cases this
    | rDone ab => have := hi.mtx1 u (by simp [hp, Pc.holds]); rw [hm] at this; cases this
    | rLock ab => have := hs (.rAcq u) rfl; simp [step, hp, hm] at this
    | sWait sig =>
      cases sig with
      | false => exact Or.inr (Or.inl rfl)
      | true =>
        have := hs (.sWake u s.running) rfl
        simp [step, hp, hm] at this
        cases hrun : s.running <;> simp [hrun] at this
    | rWait ab sig =>
      cases sig with
      | false => exact Or.inr (Or.inr ⟨ab, rfl⟩)
      | true => have := hs (.rWake u) rfl; simp [step, hp, hm] at this
  have hdh : doneHeld s = 0 := by simp [doneHeld, hm]
  have hc3 := hi.cnt3
  have hc1 := hi.cnt1
  rcases cls t with h | h | ⟨ab, h⟩
  · exact Or.inl h
  · -- t is the owner, blocked
    have hto : t = s.owner := by
      apply Classical.byContradiction
      intro hne
      have := (hi.own t hne).1
      simp [h, Pc.inSuspend] at this
    have hrun : s.running = false := hi.run2 (hto ▸ h)
    refine Or.inr (Or.inl ⟨hto, h, hrun, by omega, by simp [hrun, b2n] at hc1; omega, ?_⟩)
    intro u hu
    rcases cls u with h' | h' | ⟨ab', h'⟩
    · exact h'
    · have := (hi.own u hu).1; simp [h', Pc.inSuspend] at this
    · have := hi.run3 u ab' h'; rw [hrun] at this; cases this
  · have hrun := hi.run3 t ab h
    have hne : t ≠ s.owner := by
      intro he
      have := hi.ownR
      rw [← he, h] at this
      simp [Pc.inResume] at this
    refine Or.inr (Or.inr ⟨hne, ⟨ab, h⟩, hrun, ?_⟩)
    rcases cls s.owner with h' | h' | ⟨ab', h'⟩
    · exact h'
    · have := hi.run2 h'; rw [hrun] at this; cases this
    · have := hi.ownR; rw [h'] at this; simp [Pc.inResume] at this

/-- **An issued resume is never lost.**  In a reachable stuck state in which some thread is still inside
    `resume()` / `abort()` (the call was issued and has not returned) the owner is NOT blocked in `suspend`;
    equivalently: if the owner is blocked at quiescence, every resume ever issued has returned and was
    consumed by an earlier suspension. -/
theorem C07h_issued_resume_not_lost {s : St} (hr : Reachable s) (hs : Stuck .code s) (u : Nat)
    (hu : (s.pc u).inResume = true) : s.pc s.owner = .idle := by
  rcases C07h_stuck_only_unresumed hr hs u with h | ⟨_, h, _⟩ | ⟨_, _, _, h⟩
  · rw [h] at hu; simp [Pc.inResume] at hu
  · rw [h] at hu; simp [Pc.inResume] at hu
  · exact h

/-! ## non-vacuity and the counterexample for the variant without the wait in `resume()` -/

/-- suspend first, then resume; resume first (it waits), then suspend; abort; a nap. -/
def exampleLog : List Ev :=
  [.sCall 0, .sAcq 0, .sPark 0, .rCall 1 false, .rAcq 1, .rChk 1 false, .rGo 1, .rRel 1, .sWake 0 true, .sRet 0 false,
   .rCall 2 false, .rAcq 2, .rChk 2 true, .sCall 0, .sAcq 0, .sPark 0, .spur 0, .sWake 0 false, .rWake 2, .rChk 2 false, .rGo 2,
   .rRel 2, .sWake 0 true, .sRet 0 false, .yield 0, .sleepB 0, .sleepE 0,
   .sCall 0, .rCall 1 true, .sAcq 0, .sPark 0, .rAcq 1, .rChk 1 false, .rGo 1, .rRel 1, .sWake 0 true, .sRet 0 true]

example : (runLog (step .code) (init 0) exampleLog).isSome = true := by decide

/-- The window of the seeded change: the resumer runs completely between the waiter's publication (its
    `sCall`: the cv's internal lock is released, `suspend()` is entered) and the waiter's `running_ = false`. -/
def lostLog : List Ev :=
  [.sCall 0, .rCall 1 false, .rAcq 1, .rChk 1 true, .rGo 1, .rRel 1, .sAcq 0, .sPark 0]

/-- The pinned tree's text does not admit this history: the resumer that reads `running_ = true` waits. -/
theorem C07h_code_rejects_lost_history : (runLog (step .code) (init 0) lostLog).isSome = false := by decide

/-- **Counterexample for the variant without `resume_cv_.wait` in `resume()`** (`decide`-checked): the same
    history is accepted, and in its final state the only resume has returned (`rRets = parks = 1`), the mutex
    is free, the resumer is gone, and the owner sits in `suspend_cv_.wait` with `running_ = false` and no
    pending wake-up — `C07h_returned_resume_not_lost` fails for that variant. -/
theorem C07h_noWait_loses_resume :
    (match runLog (step .noWait) (init 0) lostLog with
     | some s => decide (s.pc s.owner = .sWait false) && !s.running && decide (s.rRets = 1) &&
                 decide (s.parks = 1) && decide (s.mtx = none) && decide (s.pc 1 = .idle)
     | none => false) = true := by decide

/-- ... and that final state is *stuck*: no thread can take a step, the owner is blocked in `suspend` with
    `running_ = false` although every issued resume has returned (`rRets = parks`) — the negation of
    `C07h_stuck_only_unresumed` / `C07h_returned_resume_not_lost` for the variant.  Only a further `resume`
    could wake the owner, and in the condition-variable protocol nobody will issue one: the waiter's queue
    entry was popped by the notifier whose resume is the one that was lost. -/
theorem C07h_noWait_lost_state_is_stuck (s : St) (h : runLog (step .noWait) (init 0) lostLog = some s) :
    Stuck .noWait s ∧ s.pc s.owner = .sWait false ∧ s.running = false ∧ s.rRets = s.parks := by
  simp [lostLog, runLog, step, init, upd, wakeOwner] at h
  subst h
  refine ⟨stuck_of_all_blocked _ _ ?_, ?_, rfl, rfl⟩
  · intro t
    dsimp only
    by_cases h0 : t = 0 <;> by_cases h1 : t = 1 <;> simp [h0, h1, upd, wakeResumers, wakeOwner]
  · simp [upd]

end PikaVerif.C07Agent
