import PikaVerif.Props.C14
import PikaVerif.Props.C14q
import PikaVerif.Lemmas.StopT
import PikaVerif.Lemmas.StopT2
import PikaVerif.Lemmas.StopT3
import PikaVerif.Lemmas.StopProg
/-!
# C14t — termination of the stop_state operations (follow-up of C14 / C14p / C14q)

`Props/C14.lean` states progress as enabledness (`C14_progress`, `C14_no_deadlock`: no stuck
state), `Props/C14q.lean` bounds the lock loops in *solo* continuations.  This file turns that
into TERMINATION for the model `PikaVerif.Stop`, all interleavings:

**Event classes.**
* `envEv`: `inv` (the program invokes request_stop / a stop_callback constructor / destructor —
  from a thread or from a callback script), `done`, `src.inc`, `src.dec`, `q` — the program's moves;
* `stutter s e`: an accepted `stop.casfail` / `stop.reload` after which the activity is exactly
  where it was.  Such an event leaves the **whole state unchanged** (`C14t_measure_decreases`) and
  is one of exactly two things (`C14t_stutter_is_spin_or_spurious`):
  a spin re-load that saw the lock bit (somebody holds the lock), or a *spurious* CAS failure
  against an unlocked word whose stop bit is the expected one (weak CAS / only the source count
  differs) — in which case the CAS itself (`stop.acq`) is accepted in the same state;
* `moving s e`: everything else — pika's own steps, **including** the failed CAS that saw the
  lock bit (`cas → spin`) and the re-load that saw the lock free (`spin → cas`).

The second stutter named in the assignment — a destructor polling `callback_finished_executing_`
of a callback running on another thread — is not an event of the model at all: `stop.waited` is
emitted (and accepted) only when the flag is set, so the polling rounds are invisible and the
waiting activity simply has no accepted event of its own.

**Measure.**  `mu s` (`Lemmas/StopT.lean`) strictly decreases with every moving event, in every
state (reachable or not) of both code variants; an `inv` adds at most `invCost = 10 n + 21`
(`n` = number of activities), the other environment events nothing.  Hence every accepted log
with `N` invoked operations contains at most `n + (10 n + 21) N` moving events (`C14t_bounded`), and a
run without new invocations at most `mu s` (`C14t_bounded_from`): every maximal run of a finite
program is finite modulo the stutter.

**Maximal runs.**  `Maximal s`: no productive event (C14p's `productive`) is accepted.  Every
reachable state extends by at most `mu s` of pika's own steps to a maximal state
(`C14t_maximal_exists`); `C14t_final_state` characterises these states (every operation returned,
lock free, no destructor in progress, and — if stop was requested — list empty, every registered
callback dequeued or destroyed, every dequeued callback invoked exactly once, …);
`C14t_waiting_dtor_released` / `C14t_dtor_inside_own_callback_never_waits` are the two halves of
the deadlock-freedom clause in maximal-run form.
-/
namespace PikaVerif.C14t
open PikaVerif PikaVerif.Stop PikaVerif.C14 PikaVerif.C14q

/-! ## (1) The measure -/

/-- **The measure decreases.**  For every state (reachable or not, pinned or repaired code) and
    every accepted event: a stutter leaves the state unchanged; every event that is neither a
    stutter nor a move of the environment strictly decreases `mu`; an `inv` adds at most
    `invCost s = 10 n + 21`, the other environment events do not increase `mu`; `n` is constant. -/
theorem C14t_measure_decreases (s s' : St) (e : Ev) (h : step s e = some s') :
    s'.n = s.n ∧
    (stutter s e = true → s' = s) ∧
    (moving s e = true → mu s' < mu s) ∧
    (envEv e = true → mu s' ≤ mu s + (if isInv e then invCost s else 0)) ∧
    (∀ a, e = .done a → mu s' < mu s) :=
  mu_step s s' e h

/-- the cost of one operation, spelled out -/
theorem C14t_invCost (s : St) : invCost s = 10 * s.n + 21 := by
  simp only [invCost, muL, muW]; omega

/-- every event is in exactly one class -/
theorem C14t_event_classes (s : St) (e : Ev) :
    (envEv e = true ∧ stutter s e = false ∧ moving s e = false) ∨
    (envEv e = false ∧ stutter s e = true ∧ moving s e = false) ∨
    (envEv e = false ∧ stutter s e = false ∧ moving s e = true) := by
  cases he : envEv e <;> cases hs : stutter s e <;> simp [moving, he, hs]
  cases e <;> simp_all [envEv, stutter]

/-- **The stutter, precisely.**  An accepted stutter is either a spin re-load that saw the lock
    bit (the lock is held, the activity stays in `spin`), or a CAS failure against an *unlocked*
    word whose stop bit equals the expected one (spurious failure of the weak CAS, or only the
    source count changed) — and then the successful CAS `stop.acq` is accepted in the same state.
    A failed CAS that saw the lock bit is **not** a stutter (it moves `cas → spin`, and `mu`
    decreases). -/
theorem C14t_stutter_is_spin_or_spurious (s s' : St) (e : Ev) (h : step s e = some s')
    (hs : stutter s e = true) :
    (∃ a rq src k, e = .reload a true rq src ∧ s.lock.isSome = true ∧ s.pc a = .spin k) ∨
    (∃ a rq src k, e = .casFail a false rq src ∧ s.lock = none ∧ s.pc a = .cas k s.req ∧
        enabled s (.acq a) = true) := by
  cases e with
  | reload a lk rq src =>
    obtain ⟨h1, h2, k, hk⟩ := stutter_reload s s' a lk rq src h hs
    subst h1
    exact Or.inl ⟨a, rq, src, k, rfl, h2, hk⟩
  | casFail a lk rq src =>
    obtain ⟨h1, h2, k, hk⟩ := stutter_casFail s s' a lk rq src h hs
    subst h1
    have ha : a < s.n := by
      simp only [step] at h
      split at h
      · next hc => exact hc.1
      · simp at h
    exact Or.inr ⟨a, rq, src, k, rfl, h2, hk, acq_enabled_of_cas s a k ha h2 hk⟩
  | _ => simp [stutter] at hs

/-- **The stutter needs somebody else to stand still.**  In a reachable state of the repaired code
    an accepted stutter of activity `a` is either a spin re-load while *another* activity holds the
    lock — and that holder has an enabled step of its own, which is a moving event (`mu`
    decreases) and releases the lock: the spinning goes on only as long as the holder is not
    scheduled — or a spurious CAS failure, in which case `a`'s own successful CAS is enabled.
    Hence under any scheduler that eventually runs the lock holder, and with a CAS that does not
    fail spuriously for ever, every run of a finite program terminates. -/
theorem C14t_stutter_while_holder_stands_still (s s' : St) (e : Ev) (hr : Reachable s)
    (h : step s e = some s') (hs : stutter s e = true) :
    (∃ hd eh, s.lock = some hd ∧ hd ≠ actor e ∧ actor eh = hd ∧ enabled s eh = true ∧
        moving s eh = true ∧ ∀ s1, step s eh = some s1 → s1.lock = none ∧ mu s1 < mu s) ∨
    (s.lock = none ∧ enabled s (.acq (actor e)) = true ∧ moving s (.acq (actor e)) = true) := by
  have hA := invA_of_reachable hr
  rcases C14t_stutter_is_spin_or_spurious s s' e h hs with ⟨a, rq, src, k, he, hl, hk⟩ | ⟨a, rq, src, k, he, hl, hk, hen⟩
  · left
    subst he
    cases hlk : s.lock with
    | none => rw [hlk] at hl; simp at hl
    | some hd =>
      obtain ⟨eh, h1, h2, h3, h4⟩ := holder_steps hA hlk
      have hne : hd ≠ a := by
        intro heq
        have := (hA.lockConv hd hlk).1
        rw [heq, hk] at this; simp [holds] at this
      have hmv : moving s eh = true := by
        have henv : envEv eh = false := by cases eh <;> simp_all [productive, envEv]
        cases hst : stutter s eh
        · simp [moving, henv, hst]
        · exfalso
          simp only [enabled, Option.isSome_iff_exists] at h3
          obtain ⟨s1, hs1⟩ := h3
          have h5 := h4 s1 hs1
          have h6 := (mu_step s s1 eh hs1).2.1 hst
          rw [h6, hlk] at h5; simp at h5
      refine ⟨hd, eh, rfl, hne, h1, h3, hmv, fun s1 hs1 => ⟨h4 s1 hs1, (mu_step s s1 eh hs1).2.2.1 hmv⟩⟩
  · right
    subst he
    exact ⟨hl, hen, by simp [moving, envEv, stutter]⟩

/-- the stutter is genuinely accepted, any number of times (`decide`-checked): thread 1 spins
    while thread 0 holds the lock — so no measure can decrease with *every* non-environment event -/
theorem C14t_stutter_witness :
    (runLog step (init 4 2 (fun a => a % 2 + 1) true true 2)
      ([.inv 0 (.reg 0), .load 0 false false 2, .inv 1 (.reg 1), .load 1 false false 2, .acq 0,
        .casFail 1 true false 2] ++ List.replicate 5 (.reload 1 true false 2))).isSome = true := by
  decide

theorem C14t_unrestricted_measure_impossible :
    ¬ ∃ m : St → Nat, ∀ s s' e, step s e = some s' → envEv e = false → m s' < m s := by
  intro ⟨m, hm⟩
  have h2 : ∃ s s', runLog step (init 4 2 (fun a => a % 2 + 1) true true 2)
      [.inv 0 (.reg 0), .load 0 false false 2, .inv 1 (.reg 1), .load 1 false false 2, .acq 0,
        .casFail 1 true false 2] = some s ∧ step s (.reload 1 true false 2) = some s' ∧
      stutter s (.reload 1 true false 2) = true := ⟨_, _, rfl, rfl, by decide⟩
  obtain ⟨s, s', _, h3, h4⟩ := h2
  have h5 := (mu_step s s' _ h3).2.1 h4
  have := hm s s' _ h3 rfl
  rw [h5] at this
  exact Nat.lt_irrefl _ this

/-- **Bounded runs (termination modulo the stutter).**  Every accepted log of the model — any
    number of threads, callbacks, nesting depth, any interleaving, pinned or repaired code —
    contains at most `n + (10 n + 21) · N` moving events (`mu` of the initial state is `n`: `idle` ranks 1 so that `done` decreases too), `N` = number of operations invoked in the
    log (by threads or by callback scripts).  For a finite program `N` is at most the number of
    operations in its thread lists and callback scripts (a script runs at most once:
    `C14_at_most_once`). -/
theorem C14t_bounded (n K : Nat) (ident : Nat → Nat) (fixCas fixCtor : Bool) (srcs : Nat) (log : List Ev)
    (s : St) (h : runLog step (init n K ident fixCas fixCtor srcs) log = some s) :
    nMoves (init n K ident fixCas fixCtor srcs) log + mu s ≤ n + (10 * n + 21) * nInv log := by
  have := run_bound _ _ _ h
  rw [C14t_invCost] at this
  have h0 : mu (init n K ident fixCas fixCtor srcs) = n := mu_init n K ident fixCas fixCtor srcs
  rw [h0] at this
  simpa [init] using this

/-- the same from any state: a run in which no new operation is invoked makes at most `mu s`
    moving steps -/
theorem C14t_bounded_from (s s' : St) (log : List Ev) (h : runLog step s log = some s') :
    nMoves s log + mu s' ≤ mu s + (10 * s.n + 21) * nInv log := by
  have := run_bound _ _ _ h
  rwa [C14t_invCost] at this

/-! ## (2) Maximal runs and their final states -/

/-- no step of pika's own is possible (C14p's `productive`: everything except the program's
    moves and futile spins) -/
def Maximal (s : St) : Prop := ∀ e, productive e = true → enabled s e = false

theorem reachableP_step {s s' : St} {e : Ev} (hr : ReachableP s) (h : step s e = some s') : ReachableP s' := by
  obtain ⟨n, K, ident, srcs, log, hK, hid, hl⟩ := hr
  refine ⟨n, K, ident, srcs, log ++ [e], hK, hid, ?_⟩
  rw [runLog_append, hl]
  simp [runLog, h]

theorem reachableP_run {s s' : St} {l : List Ev} (hr : ReachableP s) (h : runLog step s l = some s') :
    ReachableP s' := by
  induction l generalizing s with
  | nil => simp at h; exact h ▸ hr
  | cons e es ih =>
    simp only [runLog] at h
    cases hs : step s e with
    | none => simp [hs] at h
    | some s1 => simp only [hs] at h; exact ih (reachableP_step hr hs) h

/-- **Maximal runs exist and are short.**  Every state extends — by pika's own productive,
    non-stutter steps only — to a maximal state within `mu s` events.  (With `C14t_bounded_from`:
    *every* continuation without new invocations has at most `mu s` moving events, so every
    maximal run is finite modulo the stutter.) -/
theorem C14t_maximal_exists (s : St) :
    ∃ l s', runLog step s l = some s' ∧ Maximal s' ∧ l.length ≤ mu s ∧ nMoves s l = l.length ∧
      ∀ e ∈ l, productive e = true := by
  generalize hm : mu s = m
  induction m using Nat.strongRecOn generalizing s with
  | _ m ih =>
    by_cases hmax : Maximal s
    · exact ⟨[], s, rfl, hmax, Nat.zero_le _, rfl, fun e he => by simp at he⟩
    · have : ∃ e, productive e = true ∧ enabled s e = true := by
        apply Classical.byContradiction
        intro hne
        apply hmax
        intro e hp
        cases he : enabled s e
        · rfl
        · exact absurd ⟨e, hp, he⟩ hne
      obtain ⟨e, hp, he⟩ := this
      obtain ⟨e', hp', he', hmv⟩ := not_maximal_moves s e hp he
      simp only [enabled, Option.isSome_iff_exists] at he'
      obtain ⟨s1, hs1⟩ := he'
      have hlt := (mu_step s s1 e' hs1).2.2.1 hmv
      obtain ⟨l, s', hl, hmx, hlen, hnm, hall⟩ := ih (mu s1) (by omega) s1 rfl
      refine ⟨e' :: l, s', by simp [runLog, hs1, hl], hmx, by simp only [List.length_cons]; omega, ?_, ?_⟩
      · simp only [nMoves, hs1, hmv, if_true, List.length_cons, hnm]; omega
      · intro x hx
        rcases List.mem_cons.mp hx with h | h
        · rw [h]; exact hp'
        · exact hall x h

/-- **Final states of maximal runs** (the property as a theorem about maximal runs).  In a
    reachable maximal state of the repaired code:
    1. every operation has returned (every activity is idle or its thread has finished), the lock
       is free, and no destructor is in progress (`life c` is never `dying`);
    and, if stop was requested (some request_stop won),
    2. the callback list is empty;
    3. every callback that was ever registered was taken by the winning request_stop (`deqd`) or
       its destructor has returned;
    4. every callback taken by request_stop was invoked **exactly once**;
    5. every callback whose constructor found stop already requested was invoked exactly once,
       inside that constructor;
    6. every callback that exists (constructed, not destroyed) and was registered or run inline
       was invoked exactly once;
    and in any case
    7. no callback was invoked more than once. -/
theorem C14t_final_state (s : St) (hr : ReachableP s) (hm : Maximal s) :
    (∀ a, s.pc a = .idle ∨ s.pc a = .fin) ∧ s.lock = none ∧ (∀ c, s.life c ≠ .dying) ∧
    (s.req = true →
      s.list = [] ∧
      (∀ c, s.pushed c = true → s.deqd c = true ∨ s.life c = .dead) ∧
      (∀ c, s.deqd c = true → s.runs c = 1) ∧
      (∀ c, s.reqAtReg c = true → started (s.life c) = true → s.ranInl c = true ∧ s.runs c = 1) ∧
      (∀ c, s.life c = .live → s.kept c = true ∨ s.ranInl c = true → s.runs c = 1)) ∧
    (∀ c, s.runs c ≤ 1) := by
  have hidle := C14_no_deadlock s hr hm
  have hR := hr.reachableF.reachable
  obtain ⟨hA, hB⟩ := invAB_of_reachable hR
  have hS := invSafe_of_reachableF hr.reachableF
  have hdy : ∀ c, s.life c ≠ .dying := by
    intro c hd
    have := hS.C.dyingP c hd
    rcases hidle (s.dtorBy c) with h | h <;> rw [h] at this <;> simp [unregOf] at this
  have hlock : s.lock = none := by
    cases hl : s.lock with
    | none => rfl
    | some r =>
      have := (hA.lockConv r hl).1
      rcases hidle r with h | h <;> rw [h] at this <;> simp [holds] at this
  have hdone := C14_quiescent_loop_done s hidle
  refine ⟨hidle, hlock, hdy, fun hq => ?_, hB.runsLe⟩
  have hw : ∃ w, s.winner = some w := by
    cases hwn : s.winner with
    | none => have := hA.winReq2 hwn; rw [hq] at this; simp at this
    | some w => exact ⟨w, rfl⟩
  obtain ⟨w, hw⟩ := hw
  have hlist : s.list = [] := by
    apply Classical.byContradiction
    intro hne
    have := hA.listWin hne w hw
    rw [hdone w hw] at this; simp at this
  refine ⟨hlist, ?_, ?_, fun c h1 h2 => C14_immediate_if_already s hR c h2 h1,
    fun c hl hk => C14_exactly_once_if_requested s hR hq hdone c hl hk⟩
  · intro c hp
    rcases hB.pushedWhere c hp with h | h | h | h
    · rw [hlist] at h; simp at h
    · exact Or.inl h
    · exact absurd h (hdy c)
    · exact Or.inr h
  · intro c hd
    have hle := hB.runsLe c
    by_cases h0 : s.runs c = 0
    · rcases hB.deqRuns c hd h0 with hpc | hpc <;>
        rcases hidle (s.owner c) with h | h <;> rw [h] at hpc <;> simp at hpc
    · omega

/-- conversely a state all of whose activities are idle or finished is maximal: the maximal states
    are exactly the states in which every operation has returned -/
theorem C14t_maximal_iff (s : St) (hr : ReachableP s) :
    Maximal s ↔ ∀ a, s.pc a = .idle ∨ s.pc a = .fin := by
  refine ⟨fun hm => C14_no_deadlock s hr hm, fun hidle e hp => ?_⟩
  have := hidle (actor e)
  cases e <;> simp only [productive] at hp <;> simp only [actor] at this <;>
    first
      | (exfalso; simp at hp; done)
      | (rcases this with h | h <;> simp [enabled, step, h])

/-- **Why a callback was invoked** (every reachable state): an invoked callback was taken from the
    list by request_stop, or was run from its constructor (recorded at the constructor's finished
    store), or that inline run is still in progress. -/
theorem C14t_invoked_why (s : St) (hr : Reachable s) (c : Nat) (h : 0 < s.runs c) :
    s.deqd c = true ∨ s.ranInl c = true ∨ inlRun s c := by
  obtain ⟨n, K, ident, fc, srcs, log, hl⟩ := hr
  exact (invRun_of_accepted hl).ranWhy c h

/-- **Invoked exactly once or never, and which** (maximal runs).  In a reachable maximal state a
    callback was invoked exactly once if request_stop took it from the list or its constructor ran
    it inline, and never otherwise.  In particular a callback whose destructor **returned before
    request_stop dequeued it** (unlinked by `remove_callback`) was never invoked, and without a
    stop request nothing was dequeued. -/
theorem C14t_invoked_iff (s : St) (hr : ReachableP s) (hm : Maximal s) (c : Nat) :
    (s.runs c = 1 ↔ (s.deqd c = true ∨ s.ranInl c = true)) ∧
    (s.runs c = 0 ↔ (s.deqd c = false ∧ s.ranInl c = false)) ∧
    (s.req = false → s.deqd c = false) := by
  have hidle := C14_no_deadlock s hr hm
  have hR := hr.reachableF.reachable
  obtain ⟨hA, hB⟩ := invAB_of_reachable hR
  have hle := hB.runsLe c
  have h1 : s.deqd c = true → s.runs c = 1 := by
    intro hd
    by_cases h0 : s.runs c = 0
    · rcases hB.deqRuns c hd h0 with hpc | hpc <;>
        rcases hidle (s.owner c) with h | h <;> rw [h] at hpc <;> simp at hpc
    · omega
  have h2 : s.ranInl c = true → s.runs c = 1 := hB.inlRuns c
  have h3 : 0 < s.runs c → s.deqd c = true ∨ s.ranInl c = true := by
    intro h
    rcases C14t_invoked_why s hR c h with h | h | ⟨a, h⟩
    · exact Or.inl h
    · exact Or.inr h
    · rcases hidle a with h' | h' <;> rw [h'] at h <;> simp at h
  refine ⟨⟨fun h => h3 (by omega), fun h => h.elim h1 h2⟩, ⟨fun h => ?_, fun h => ?_⟩, fun hq => ?_⟩
  · cases hd : s.deqd c
    · cases hi : s.ranInl c
      · exact ⟨rfl, rfl⟩
      · have := h2 hi; omega
    · have := h1 hd; omega
  · by_cases h0 : s.runs c = 0
    · exact h0
    · rcases h3 (by omega) with h' | h'
      · rw [h.1] at h'; simp at h'
      · rw [h.2] at h'; simp at h'
  · cases hd : s.deqd c
    · rfl
    · have := hB.deqWinner c hd
      rw [hA.winReq hq] at this; simp at this

/-- a maximal state accepts only moves of the program: a run is over when the program has no
    operation left to invoke -/
theorem C14t_maximal_only_env (s s' : St) (e : Ev) (hr : ReachableP s) (hm : Maximal s)
    (h : step s e = some s') : envEv e = true := by
  have hidle := C14_no_deadlock s hr hm
  cases he : envEv e
  · exfalso
    have hp : productive e = true ∨ ∃ a rq src, e = .casFail a true rq src ∨ e = .reload a true rq src := by
      cases e <;> simp_all [envEv, productive]
    rcases hp with hp | ⟨a, rq, src, hp | hp⟩
    · have := hm e hp
      simp [enabled, h] at this
    · subst hp
      simp only [step] at h
      split at h
      · rcases hidle a with h1 | h1 <;> rw [h1] at h <;> simp at h
      · simp at h
    · subst hp
      simp only [step] at h
      split at h
      · rcases hidle a with h1 | h1 <;> rw [h1] at h <;> simp at h
      · simp at h
  · rfl

/-! ## Finite programs

`Lemmas/StopProg.lean`: a program gives every thread a finite list of operations and every
callback a finite script (construct / destroy a callback — itself or another one —, request_stop,
queries, copy / drop a stop_source); `pstep` accepts exactly the model logs in which every
environment event is an operation of the acting activity's list (thread list at nesting level 0,
the script of the running callback inside a body). -/

/-- accepted logs of a program are accepted logs of the model: everything proved about the model
    (C14, C14p, C14q and the theorems above) holds along every run of every program -/
theorem C14t_program_refines (p p' : PSt) (log : List Ev) (h : runLog pstep p log = some p') :
    runLog step p.s log = some p'.s :=
  runLog_pstep_step log p p' h

/-- **Every accepted event of a program is a stutter or strictly decreases `phi`** (`phi` = `mu` +
    `10 n + 22` per operation not yet started); a stutter changes neither state nor program. -/
theorem C14t_program_measure (p p' : PSt) (e : Ev) (h : pstep p e = some p') :
    (stutter p.s e = true ∧ p'.s = p.s ∧ p'.ops = p.ops ∧ p'.m = p.m) ∨ phi p' < phi p :=
  phi_step p p' e h

/-- **Termination of finite programs, modulo the stutter.**  Every accepted log of a program with
    `n` activities and `N` operations in its thread lists and callback scripts contains at most
    `n + (10 n + 22) N` events that are not stutters — whatever the interleaving, the number of
    threads and callbacks, the nesting depth, pinned or repaired code. -/
theorem C14t_program_bounded (n K : Nat) (ident : Nat → Nat) (fixCas fixCtor : Bool) (srcs : Nat)
    (ops : Nat → List Op) (m : Nat) (log : List Ev) (p' : PSt)
    (h : runLog pstep (pinit n K ident fixCas fixCtor srcs ops m) log = some p') :
    nSteps (pinit n K ident fixCas fixCtor srcs ops m) log + phi p' ≤
      n + (10 * n + 22) * sumTo m (fun i => (ops i).length) := by
  have := prog_bound _ _ _ h
  have h0 : phi (pinit n K ident fixCas fixCtor srcs ops m) = n + (10 * n + 22) * sumTo m (fun i => (ops i).length) := by
    simp only [phi, pinit, C14t_invCost, todo]
    rw [mu_init]
    simp [init]
  omega

/-- … in terms of the length of the log: an accepted log of a program is at most the bound plus
    its number of stutters long — every accepted log longer than `n + (10 n + 22) N` consists, beyond
    that length, of spin re-loads that saw the lock bit and spurious CAS failures only. -/
theorem C14t_program_length (n K : Nat) (ident : Nat → Nat) (fixCas fixCtor : Bool) (srcs : Nat)
    (ops : Nat → List Op) (m : Nat) (log : List Ev) (p' : PSt)
    (h : runLog pstep (pinit n K ident fixCas fixCtor srcs ops m) log = some p') :
    log.length ≤ n + (10 * n + 22) * sumTo m (fun i => (ops i).length) +
      nStut (pinit n K ident fixCas fixCtor srcs ops m) log := by
  have h1 := C14t_program_bounded n K ident fixCas fixCtor srcs ops m log p' h
  have h2 := steps_add_stut _ _ _ h
  omega

/-- **No callback runs, and nothing touches its object, after its destructor returned — along
    every run of every program** (`C14q_never_after_dtor_returned` through the refinement): if the
    log of a program (repaired code, faithful thread identities) contains the return `ret b r` of
    `remove_callback(c)`, no later event of the log is a dequeue, `is_removed_` publication,
    invocation, finished store or push of `c`. -/
theorem C14t_program_never_after_dtor (n K : Nat) (ident : Nat → Nat) (fc : Bool) (srcs : Nat)
    (ops : Nat → List Op) (m : Nat) (hK : 0 < K) (hid : ∀ a b, ident a = ident b ↔ a % K = b % K)
    (l₁ l₂ : List Ev) (b c : Nat) (r r' : Bool) (e : Ev) (p₁ p : PSt)
    (h1 : runLog pstep (pinit n K ident true fc srcs ops m) l₁ = some p₁)
    (hb : p₁.s.pc b = .retn (.unreg c) r')
    (h2 : runLog pstep p₁ (.ret b r :: (l₂ ++ [e])) = some p) : touches e ≠ some c :=
  C14q_never_after_dtor_returned n K ident fc srcs hK hid l₁ l₂ b c r r' e p₁.s p.s
    (runLog_pstep_step l₁ _ _ h1) hb (runLog_pstep_step _ _ _ h2)

/-- **Maximal runs of a program exist and are short**: every program state extends, by at most
    `mu` of pika's own non-stutter steps and without consuming the program, to a state in which all
    operations invoked so far have returned (`Maximal`). -/
theorem C14t_program_maximal_exists (p : PSt) :
    ∃ l s', runLog pstep p l = some ⟨s', p.ops, p.m⟩ ∧ Maximal s' ∧ l.length ≤ mu p.s := by
  obtain ⟨l, s', hl, hm, hlen, _, hall⟩ := C14t_maximal_exists p.s
  refine ⟨l, s', lift_run l p s' (fun e he => ?_) hl, hm, hlen⟩
  have := hall e he
  cases e <;> simp_all [productive, envEv]

/-- the run of a program is over: the program state accepts nothing but stutters -/
def PMaximal (p : PSt) : Prop := ∀ e p', pstep p e = some p' → stutter p.s e = true

/-- **Final states of the maximal runs of a program.**  When a program state accepts nothing but
    stutters, the model state is maximal — so `C14t_final_state` and `C14t_invoked_iff` describe
    it — and every thread whose list is exhausted has finished. -/
theorem C14t_program_final (p : PSt) (hr : ReachableP p.s) (hm : PMaximal p) :
    Maximal p.s ∧ (∀ a, p.s.pc a = .idle ∨ p.s.pc a = .fin) ∧
    (∀ t, t < p.s.n → t < p.s.K → p.ops t = [] → p.s.pc t = .fin) := by
  have hmax : Maximal p.s := by
    intro e hp
    cases he : enabled p.s e
    · rfl
    · exfalso
      obtain ⟨e', hp', he', hmv⟩ := not_maximal_moves p.s e hp he
      simp only [enabled, Option.isSome_iff_exists] at he'
      obtain ⟨s1, hs1⟩ := he'
      have henv : envEv e' = false := by cases e' <;> simp_all [productive, envEv]
      have : pstep p e' = some ⟨s1, p.ops, p.m⟩ := by
        cases e' <;> simp_all [pstep, lift, envEv]
      have := hm _ _ this
      simp [moving, this] at hmv
  have hidle := C14_no_deadlock p.s hr hmax
  refine ⟨hmax, hidle, fun t htn htK hops => ?_⟩
  rcases hidle t with h | h
  · exfalso
    have h1 : step p.s (.done t) = some { p.s with pc := upd p.s.pc t .fin } := by
      simp [step, htn, htK, h]
    have h2 : pstep p (.done t) = some ⟨{ p.s with pc := upd p.s.pc t .fin }, p.ops, p.m⟩ := by
      simp [pstep, hops, lift, h1]
    have := hm _ _ h2
    simp [stutter] at this
  · exact h

/-! ## (3) Deadlock freedom, maximal-run form -/

/-- **A waiting destructor is always released.**  If the destructor of `c` waits (`wait c`: the
    callback runs on another thread — `C14_progress` case 4, `C14_dtor_does_not_wait_for_own_thread`)
    then in *every* run from that state that ends in a maximal state — whatever the interleaving,
    whatever the callback scripts invoke — its `stop.waited` is accepted (the finished flag was
    stored: the callback finished), and the destructor has returned.  Such maximal runs exist and
    take at most `mu s` of pika's steps (`C14t_maximal_exists`), and no run has more moving steps
    than `C14t_bounded_from` allows. -/
theorem C14t_waiting_dtor_released (s s' : St) (l : List Ev) (a c : Nat) (hr : ReachableP s)
    (hw : s.pc a = .wait c) (h : runLog step s l = some s') (hm : Maximal s') :
    Ev.waited a c ∈ l ∧ (s'.pc a = .idle ∨ s'.pc a = .fin) ∧ s'.life c ≠ .dying := by
  have hr' := reachableP_run hr h
  have hfin := C14t_final_state s' hr' hm
  have hidle := hfin.1 a
  refine ⟨wait_released s s' l a c h hw ?_, hidle, hfin.2.2.1 c⟩
  rcases hidle with h1 | h1 <;> rw [h1] <;> simp

/-- … and when `stop.waited` is accepted the callback has run exactly once and is over: the
    finished flag is set, which request_stop stores after the callback returned. -/
theorem C14t_released_after_callback (s s' : St) (a c : Nat) (hr : Reachable s)
    (h : step s (.waited a c) = some s') : s.fin c = true ∧ s.runs c = 1 := by
  obtain ⟨_, hB⟩ := invAB_of_reachable hr
  simp only [step] at h
  split at h
  · next hc => exact ⟨hc.2.2, hB.finRuns c hc.2.2⟩
  · simp at h

/-- **A destructor called from inside its own callback never waits**: while the body of `c` runs
    on activity `w`, no activity of the same thread (in particular the nested activity that the
    callback script uses to destroy `c`) is ever in `wait c`.  (Contrapositive of
    `C14_dtor_does_not_wait_for_own_thread`.) -/
theorem C14t_dtor_inside_own_callback_never_waits (s : St) (hr : ReachableF s) (w b c : Nat) (inl : Bool)
    (hbody : s.pc w = .body c inl) (hthr : thr s.K b = thr s.K w) : s.pc b ≠ .wait c := by
  intro hb
  exact C14_dtor_does_not_wait_for_own_thread s hr b c w hb (body_processes hbody) hthr.symm

/-! ## Non-vacuity: complete runs of three small programs (2 threads, nesting depth 2) -/

/-- thread 0 registers callback 0 and requests stop; the script of callback 0 destroys callback 0
    (nested activity 2 = thread 0 inside the body): it does not wait -/
def selfLog : List Ev :=
  [.inv 0 (.reg 0), .load 0 false false 2, .acq 0, .push 0 0 false, .ret 0 false,
   .inv 0 .rs, .load 0 false false 2, .acq 0, .deq 0 0 false, .preExec 0 0, .cbBegin 0 0,
   .inv 2 (.unreg 0), .load 2 false true 2, .acq 2, .unlink 2 0 false, .selfChk 2 0 true true, .ret 2 false,
   .cbEnd 0 0, .finStore 0 0 true, .load 0 false true 2, .acq 0, .rsDone 0, .ret 0 true, .done 0, .done 1]

def selfOps : Nat → List Op :=
  fun i => if i = 0 then [.call (.reg 0), .call .rs] else if i = 2 then [.call (.unreg 0)] else []

def P0 : PSt := pinit 4 2 (fun a => a % 2 + 1) true true 2 selfOps 3

/-- the whole log is a run of the program; `phi` goes from `4 + 62 · 3 = 190` to 2 (the two nested
    activities stay idle); all 25 events count (no stutter); callback 0 ran once, is destroyed, and
    every activity is idle or finished -/
example : phi P0 = 190 := by decide
example : (runLog pstep P0 selfLog).map (fun p => (phi p, todo p, p.s.runs 0, nSteps P0 selfLog,
    decide (p.s.life 0 = .dead), (List.range 4).all (fun a => decide (p.s.pc a = .idle ∨ p.s.pc a = .fin)))) =
    some (2, 0, 1, 25, true, true) := by decide
/-- `mu` inside the body of the callback -/
example : (runLog step P0.s (selfLog.take 11)).map mu = some 30 := by decide

/-- thread 1 destroys callback 0 while it runs on thread 0: it waits (`selfChk … false`), is
    released by `stop.waited` after the finished store, and returns -/
def otherLog : List Ev :=
  [.inv 0 (.reg 0), .load 0 false false 2, .acq 0, .push 0 0 false, .ret 0 false,
   .inv 0 .rs, .load 0 false false 2, .acq 0, .deq 0 0 false, .preExec 0 0, .cbBegin 0 0,
   .inv 1 (.unreg 0), .load 1 false true 2, .acq 1, .unlink 1 0 false, .selfChk 1 0 false false,
   .cbEnd 0 0, .finStore 0 0 false, .waited 1 0, .ret 1 false, .load 0 false true 2, .acq 0, .rsDone 0, .ret 0 true,
   .done 0, .done 1]

def otherOps : Nat → List Op :=
  fun i => if i = 0 then [.call (.reg 0), .call .rs] else if i = 1 then [.call (.unreg 0)] else []

def P1 : PSt := pinit 4 2 (fun a => a % 2 + 1) true true 2 otherOps 2

example : (runLog pstep P1 otherLog).map (fun p => (phi p, todo p, p.s.runs 0, nSteps P1 otherLog,
    decide (p.s.life 0 = .dead), (List.range 4).all (fun a => decide (p.s.pc a = .idle ∨ p.s.pc a = .fin)))) =
    some (2, 0, 1, 26, true, true) := by decide
/-- the hypotheses of `C14t_waiting_dtor_released` are met after 16 events: thread 1 is in `wait 0`,
    `stop.waited` is rejected there (flag not stored) and is in the rest of the log -/
example : ∃ s, runLog step P1.s (otherLog.take 16) = some s ∧ s.pc 1 = .wait 0 ∧
    step s (.waited 1 0) = none := by
  refine ⟨_, rfl, ?_⟩
  decide
example : (otherLog.drop 16).take 3 = [.cbEnd 0 0, .finStore 0 0 false, .waited 1 0] := rfl
example : ∃ s, ReachableP s ∧ s.pc 1 = .wait 0 :=
  ⟨_, ⟨4, 2, _, 2, otherLog.take 16, by decide, ident2_faithful, rfl⟩, by decide⟩

/-- same program, other schedule: thread 1 destroys callback 0 **before** request_stop takes the
    list; thread 0 spins meanwhile (two spin re-loads that see the lock bit and one spurious CAS
    failure: three stutters).  The callback is never invoked; 19 of the 22 events count. -/
def earlyLog : List Ev :=
  [.inv 0 (.reg 0), .load 0 false false 2, .acq 0, .push 0 0 false, .ret 0 false,
   .inv 1 (.unreg 0), .load 1 false false 2, .inv 0 .rs, .load 0 false false 2,
   .acq 1, .casFail 0 true false 2, .reload 0 true false 2, .reload 0 true false 2,
   .unlink 1 0 true, .reload 0 false false 2, .casFail 0 false false 2,
   .acq 0, .rsDone 0, .ret 0 true, .ret 1 false, .done 0, .done 1]

example : (runLog pstep P1 earlyLog).map (fun p => (phi p, todo p, p.s.runs 0, p.s.deqd 0, nSteps P1 earlyLog,
    earlyLog.length)) = some (2, 0, 0, false, 19, 22) := by decide
example : (runLog pstep P1 earlyLog).map (fun p => (decide (p.s.life 0 = .dead),
    (List.range 4).all (fun a => decide (p.s.pc a = .idle ∨ p.s.pc a = .fin)))) = some (true, true) := by decide
/-- `mu` is constant across the two spin stutters (after 11 and after 13 events) and across the
    spurious CAS failure (after 15 and after 16 events) -/
example : ((runLog step P1.s (earlyLog.take 11)).map mu, (runLog step P1.s (earlyLog.take 13)).map mu,
    (runLog step P1.s (earlyLog.take 15)).map mu, (runLog step P1.s (earlyLog.take 16)).map mu) =
    (some 75, some 75, some 26, some 26) := by decide
/-- an operation that is not in the program is rejected; so is `done` before the list is empty -/
example : pstep P1 (.inv 1 .rs) = none ∧ pstep P1 (.done 0) = none ∧ (pstep P1 (.done 2)).isNone = true := by decide

end PikaVerif.C14t
