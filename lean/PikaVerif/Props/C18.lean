import PikaVerif.Lemmas.EraseEv
import PikaVerif.Lemmas.EraseLed
/-!
# C18 — Type-erased senders and functions behave like what they wrap

Property theorems about the model `PikaVerif.Erase` (`function`, `unique_function`,
`unique_any_sender`, `any_sender`; shipped configuration `sbo = false`).  Every theorem
quantifies over *all* histories `ops : List Op` (any length, any slot count, any wrapper
kinds, any payload classes and values) run from the initial state (all slots unconstructed).
-/
namespace PikaVerif.C18
open PikaVerif PikaVerif.Erase

/-- `s` is the state after some history. -/
def Reachable (c : Cfg) (s : St) : Prop := ∃ ops, finalSt c init ops = s

/-- results of a history, in order -/
def results (c : Cfg) (ops : List Op) : List Res := (runOps c init ops).2.map (·.1)

/-- all ledger events of a history, in order -/
def events (c : Cfg) (ops : List Op) : List LEv := ((runOps c init ops).2.map (·.2)).flatten

theorem reach_inv {c : Cfg} {s : St} (hc : c.sbo = false) (hpin : c.pinned = false) (hr : Reachable c s) : Inv c s := by
  obtain ⟨ops, rfl⟩ := hr
  exact inv_run_ops c hc hpin ops init (inv_init c)

/-! ## Transparency -/

theorem sim_run (c : Cfg) (hc : c.sbo = false) (hpin : c.pinned = false) (ops : List Op) : ∀ s, Inv c s →
    (runOps c s ops).2.map (fun p => p.1.core) = specRun c (absSt s) ops := by
  induction ops with
  | nil => intro s _; rfl
  | cons op ops ih =>
    intro s hi
    have hs := sim_exec c s hpin hi op
    simp only [runOps_cons, List.map_cons, specRun]
    rw [ih _ (exec_inv c s hc hpin hi op), hs.1, hs.2]

/-- **Transparency.**  For every history, every result a wrapper gives — the return value or
    exception of a call, the completion (value / error / stopped / exception from `connect`) of a
    connected and started sender, `empty()`, `bad_function_call` — is exactly the result the
    value-semantics reference `specRun` gives, i.e. what the wrapped object itself would have
    produced had it been stored, copied, moved and used directly. -/
theorem C18_transparent (c : Cfg) (hc : c.sbo = false) (hpin : c.pinned = false) (ops : List Op) :
    (results c ops).map Res.core = specRun c ASt.init ops := by
  have h := sim_run c hc hpin ops init (inv_init c)
  have h0 : absSt init = ASt.init := by
    simp [absSt, absSlot, init, Slot.dead, ASt.init]
  rw [h0] at h
  simp only [results, List.map_map]
  exact h

theorem no_ub_step (c : Cfg) (s : St) (hpin : c.pinned = false) (hi : Inv c s) (op : Op) : (exec c s op).res ≠ .ub := by
  have h := (sim_exec c s hpin hi op).2
  intro hu
  rw [hu] at h
  cases op <;> simp only [specExec, Res.core, ASt.construct, ASt.set] at h <;> (repeat' split at h) <;>
    simp [aCall, aCompl] at h <;> (repeat' split at h) <;> simp_all

/-- **No undefined behaviour.**  No operation of any history reaches a point where the C++ would
    dereference a null / dangling object pointer or dispatch through a vtable that does not
    match the stored object (`Res.ub` in the model). -/
theorem C18_no_ub (c : Cfg) (hc : c.sbo = false) (hpin : c.pinned = false) (ops : List Op) : ∀ r ∈ results c ops, r ≠ .ub := by
  have key : ∀ (ops : List Op) (s : St), Inv c s → ∀ p ∈ (runOps c s ops).2, p.1 ≠ .ub := by
    intro ops
    induction ops with
    | nil => intro s _ p hp; simp [runOps] at hp
    | cons op ops ih =>
      intro s hi p hp
      simp only [runOps_cons, List.mem_cons] at hp
      rcases hp with rfl | hp
      · exact no_ub_step c s hpin hi op
      · exact ih _ (exec_inv c s hc hpin hi op) p hp
  intro r hr
  simp only [results, List.mem_map] at hr
  obtain ⟨p, hp, rfl⟩ := hr
  exact key ops init (inv_init c) p hp

/-! ## Ledger: every contained object is destroyed exactly once -/

theorem counts_run (c : Cfg) (id : Nat) (ops : List Op) : ∀ s,
    (finalSt c s ops).ctor id = s.ctor id + ctorsOf id (((runOps c s ops).2.map (·.2)).flatten) ∧
    (finalSt c s ops).dtor id = s.dtor id + dtorsOf id (((runOps c s ops).2.map (·.2)).flatten) := by
  induction ops with
  | nil => intro s; simp [finalSt, runOps, ctorsOf, dtorsOf]
  | cons op ops ih =>
    intro s
    have h1 := counts_exec c s op id
    have h2 := ih (exec c s op).st
    simp only [finalSt] at h2 ⊢
    simp only [runOps_cons, List.map_cons, List.flatten_cons, ctorsOf_append, dtorsOf_append]
    omega

/-- **Ledger.**  In the event trace of every history: an object id has exactly one construction
    event if it was handed out (`id < next`) and none otherwise; it has at most one destruction
    event; and it has *no* destruction event exactly when it is the object currently held by
    some constructed wrapper — so every object that left the wrappers (overwritten, reset,
    moved-from temporaries, consumed by `connect &&`, wrapper destroyed) was destroyed exactly
    once, and no held object was destroyed. -/
theorem C18_ledger (c : Cfg) (hc : c.sbo = false) (hpin : c.pinned = false) (ops : List Op) (id : Nat) :
    let s := finalSt c init ops
    ctorsOf id (events c ops) = (if id < s.next then 1 else 0) ∧
    dtorsOf id (events c ops) ≤ 1 ∧
    (id < s.next →
      (dtorsOf id (events c ops) = 0 ↔
        ∃ i o, i < c.n ∧ (s.slot i).live = true ∧ (s.slot i).obj = some o ∧ o.id = id)) := by
  intro s
  have hi : Inv c s := inv_run_ops c hc hpin ops init (inv_init c)
  have hc' := counts_run c id ops init
  simp only [init, Nat.zero_add] at hc'
  have e1 : ctorsOf id (events c ops) = s.ctor id := hc'.1.symm
  have e2 : dtorsOf id (events c ops) = s.dtor id := hc'.2.symm
  rw [e1, e2, hi.ctorI id, hi.dtorI id]
  refine ⟨rfl, by split <;> omega, ?_⟩
  intro hlt
  constructor
  · intro h0
    cases ho : s.owner id with
    | none => simp [hlt, ho] at h0
    | some i =>
      have ha := hi.ownA id i ho
      cases hobj : (s.slot i).obj with
      | none => exact absurd hobj ha.1
      | some o =>
        have hlive : (s.slot i).live = true := by
          cases hl : (s.slot i).live with
          | true => rfl
          | false => have := hi.dead i hl; rw [hobj] at this; simp at this
        have hin : i < c.n := by
          by_cases hn : c.n ≤ i
          · have := hi.range i hn; rw [hlive] at this; simp at this
          · omega
        exact ⟨i, o, hin, hlive, hobj, ha.2 o hobj⟩
  · rintro ⟨i, o, _, _, hobj, rfl⟩
    have := hi.ownB i o hobj
    simp [this]

/-- **The trace is well formed at every point.**  The ledger acceptor `ledStep` — object ids are
    constructed in order; the source of every copy/move construction, of every failed construction,
    every connected sender and every destroyed object is *alive at that moment* (constructed, not
    yet destroyed) — accepts the complete event trace of every history, and ends in the model's
    ledger.  So no wrapper operation ever copies from, moves from, connects or destroys an object
    that is already destroyed, at any point of any history (not only in the final counts). -/
theorem C18_trace_well_formed (c : Cfg) (hc : c.sbo = false) (hpin : c.pinned = false) (ops : List Op) :
    runLog ledStep { next := 0, dt := fun _ => 0 } (events c ops) =
      some (ledOf (finalSt c init ops)) := by
  have h := led_history c hc hpin ops init (inv_init c)
  simpa [events, ledOf, init] using h

/-- **Exactly once at the end.**  When every wrapper has been destroyed, every object that was
    ever constructed — wrapped objects, their copies, the temporaries they were made from — has
    exactly one construction and exactly one destruction event. -/
theorem C18_all_destroyed_exactly_once (c : Cfg) (hc : c.sbo = false) (hpin : c.pinned = false) (ops : List Op)
    (hdead : ∀ i, ((finalSt c init ops).slot i).live = false) (id : Nat)
    (hid : id < (finalSt c init ops).next) :
    ctorsOf id (events c ops) = 1 ∧ dtorsOf id (events c ops) = 1 := by
  have h := C18_ledger c hc hpin ops id
  simp only [hid, if_true] at h
  refine ⟨h.1, ?_⟩
  have h2 := h.2.2 (by simp)
  have hne : dtorsOf id (events c ops) ≠ 0 := by
    intro h0
    obtain ⟨i, o, _, hl, _, _⟩ := h2.1 h0
    rw [hdead i] at hl; simp at hl
  have := h.2.1
  omega

/-! ## Copies are independent -/

/-- the slots an operation names -/
def Op.slots : Op → List Nat
  | .new i | .newp i _ _ _ | .del i | .set i _ _ _ | .reset i | .empty i | .call i _ | .run i
  | .runc i => [i]
  | .copy i j | .move i j | .cctor i j | .mctor i j | .swap i j => [i, j]
  | .arm _ => []

/-- **No sharing.**  Two different wrappers never hold the same object: after any history the
    objects held by distinct slots have distinct identities (a copy owns its own object). -/
theorem C18_copies_no_sharing (c : Cfg) (hc : c.sbo = false) (hpin : c.pinned = false) (s : St) (hr : Reachable c s)
    (i j : Nat) (oi oj : Obj) (hij : i ≠ j) (hi : (s.slot i).obj = some oi)
    (hj : (s.slot j).obj = some oj) : oi.id ≠ oj.id := by
  have inv := reach_inv hc hpin hr
  intro he
  have h1 := inv.ownB i oi hi
  have h2 := inv.ownB j oj hj
  rw [he] at h1
  rw [h1] at h2
  exact hij (by simpa using h2)

/-- **Frame.**  An operation changes only the wrappers it names: every other slot (its state,
    its object, hence everything it will ever return) is untouched. -/
theorem C18_copies_frame (c : Cfg) (s : St) (op : Op) (k : Nat) (hk : k ∉ Op.slots op) :
    (exec c s op).st.slot k = s.slot k := by
  cases op <;> simp only [Op.slots, List.mem_cons, List.mem_singleton, List.not_mem_nil, or_false,
      not_or] at hk <;>
    simp only [exec, execStore, inval, St.put, St.die, St.dieO, St.own, St.ownO, St.born, St.leak, St.tick] <;>
    (repeat' split) <;> simp [upd, hk]

theorem spec_copy_ok (c : Cfg) (a : ASt) (i j : Nat) (hij : i ≠ j) (op : Op)
    (hop : op = .copy i j ∨ op = .cctor i j) (h : (specExec c a op).2 = .ok) :
    (specExec c a op).1.slots i = a.slots j := by
  rcases hop with rfl | rfl <;> simp only [specExec, ASt.construct, ASt.set] at h ⊢ <;>
    (repeat' split) <;> simp_all [upd] <;> (try (split at h <;> simp at h))

/-- **A copy has the source's content and leaves the source alone.**  After a successful
    copy-assignment or copy-construction `i ← j` (`i ≠ j`) the two wrappers hold equal payloads
    (class and value) in different objects, and slot `j` is unchanged. -/
theorem C18_copy_equal_content (c : Cfg) (hc : c.sbo = false) (hpin : c.pinned = false) (s : St) (hr : Reachable c s)
    (i j : Nat) (hij : i ≠ j) (op : Op) (hop : op = .copy i j ∨ op = .cctor i j)
    (hok : (exec c s op).res = .ok) :
    absSlot ((exec c s op).st.slot i) = absSlot (s.slot j) ∧ (exec c s op).st.slot j = s.slot j := by
  have inv := reach_inv hc hpin hr
  have hs := sim_exec c s hpin inv op
  have hfr : (exec c s op).st.slot j = s.slot j := by
    rcases hop with rfl | rfl <;>
    · simp only [exec, inval, St.put, St.die, St.dieO, St.own, St.ownO, St.born, St.leak, St.tick]
      repeat' split
      all_goals simp [upd, Ne.symm hij]
  refine ⟨?_, hfr⟩
  have h1 : (absSt (exec c s op).st).slots i = (specExec c (absSt s) op).1.slots i := by rw [hs.1]
  have hres : (specExec c (absSt s) op).2 = .ok := by rw [← hs.2, hok]; rfl
  have habs : (absSt s).slots j = absSlot (s.slot j) := rfl
  have habs' : (absSt (exec c s op).st).slots i = absSlot ((exec c s op).st.slot i) := rfl
  rw [← habs', h1, ← habs]
  exact spec_copy_ok c (absSt s) i j hij op hop hres

/-! ## Moved-from and default-constructed wrappers are empty; empty use throws -/

/-- **Default-constructed wrappers are empty.** -/
theorem C18_default_empty (c : Cfg) (s : St) (i : Nat) (hok : (exec c s (.new i)).res = .ok) :
    (exec c s (.new i)).st.slot i = Slot.emptyW := by
  simp only [exec] at hok ⊢
  split
  · simp [St.put]
  · rename_i h; simp [h, inval] at hok

/-- a slot whose abstraction is "constructed, no payload" is exactly the default-constructed slot -/
theorem slot_emptyW_of_abs (c : Cfg) (s : St) (j : Nat) (inv : Inv c s)
    (habs : (absSt s).slots j = ASlot.empty) : s.slot j = Slot.emptyW := by
  simp only [absSt, absSlot] at habs
  have hl : (s.slot j).live = true := by
    cases h : (s.slot j).live with
    | true => rfl
    | false => simp [h] at habs
  have ho : (s.slot j).obj = none := by
    cases h : (s.slot j).obj with
    | none => rfl
    | some o => simp [hl, h] at habs
  have hv := inv.fnN j ho
  cases hsl : s.slot j with
  | mk l v o =>
    rw [hsl] at hl ho hv
    simp only at hl ho hv
    simp [Slot.emptyW, hl, ho, hv]

/-- **Moved-from wrappers are empty.**  After a successful move-assignment or move-construction
    `i ← std::move(j)` (`i ≠ j`), or an r-value `connect` of sender wrapper `j`, wrapper `j` is in
    exactly the default-constructed state (live, no object, empty vtable). -/
theorem C18_moved_from_empty (c : Cfg) (hc : c.sbo = false) (hpin : c.pinned = false) (s : St) (hr : Reachable c s)
    (i j : Nat) (hij : i ≠ j) (op : Op)
    (hop : op = .move i j ∨ op = .mctor i j ∨ op = .run j)
    (hok : (exec c s op).res ≠ .invalid) :
    (exec c s op).st.slot j = Slot.emptyW := by
  have inv := reach_inv hc hpin hr
  have hs := sim_exec c s hpin inv op
  have inv' := exec_inv c s hc hpin inv op
  have hcore : (exec c s op).res.core ≠ .invalid := by
    intro h; apply hok; cases hr : (exec c s op).res <;> simp [hr, Res.core] at h ⊢
  rw [hs.2] at hcore
  have habs : (absSt (exec c s op).st).slots j = ASlot.empty := by
    rw [hs.1]
    rcases hop with rfl | rfl | rfl <;> simp only [specExec, ASt.set] at hcore ⊢
    · split
      · simp [hij, upd, Ne.symm hij]
      · rename_i hg; simp [hg] at hcore
    · split
      · simp [upd, Ne.symm hij]
      · rename_i hg; simp [hg] at hcore
    · split
      · rename_i hg
        split
        · simp [upd]
        · rename_i hne
          have hl := hg.2.1
          cases ha : (absSt s).slots j with
          | dead => rw [ha] at hl; simp [ASlot.live] at hl
          | empty => rfl
          | full ty v => exact absurd ha (hne ty v)
      · rename_i hg; simp [hg] at hcore
  exact slot_emptyW_of_abs c _ j inv' habs

/-- **A failed assignment leaves an empty wrapper** (basic exception guarantee).  When the copy
    or move constructor of the payload throws while a payload is being assigned (`set`) or a
    wrapper is being copy-assigned (`copy`), the exception propagates (`Res.perr`), and the target
    wrapper is in exactly the default-constructed state: it reports empty and throws
    `bad_function_call` when used (by `C18_empty_use_throws`); its previous object was destroyed
    once (by `C18_ledger`). -/
theorem C18_failed_assignment_leaves_empty (c : Cfg) (hc : c.sbo = false) (hpin : c.pinned = false)
    (s : St) (hr : Reachable c s) (i : Nat) (op : Op) (v : Int)
    (hop : (∃ ty w cp, op = .set i ty w cp) ∨ (∃ j, op = .copy i j))
    (hthrow : (exec c s op).res = .perr v) :
    (exec c s op).st.slot i = Slot.emptyW := by
  have inv := reach_inv hc hpin hr
  have hs := sim_exec c s hpin inv op
  have inv' := exec_inv c s hc hpin inv op
  have hres : (specExec c (absSt s) op).2 = .perr v := by rw [← hs.2, hthrow]; rfl
  apply slot_emptyW_of_abs c _ i inv'
  rw [hs.1]
  rcases hop with ⟨ty, w, cp, rfl⟩ | ⟨j, rfl⟩ <;>
    simp only [specExec, ASt.construct, ASt.set] at hres ⊢ <;>
    (repeat' split) <;> simp_all [upd] <;> (try (split at hres <;> simp_all))

/-- **A failed construction constructs nothing.**  When the payload's constructor throws while a
    wrapper is being constructed from a payload or copy-constructed, no wrapper comes into being
    (the slot stays unconstructed) and no object is left behind. -/
theorem C18_failed_construction_constructs_nothing (c : Cfg) (s : St) (i : Nat) (op : Op) (v : Int)
    (hop : (∃ ty w cp, op = .newp i ty w cp) ∨ (∃ j, op = .cctor i j))
    (hthrow : (exec c s op).res = .perr v) :
    (exec c s op).st.slot i = s.slot i ∧ (s.slot i).live = false := by
  rcases hop with ⟨ty, w, cp, rfl⟩ | ⟨j, rfl⟩ <;>
    simp only [exec, execStore, inval, St.put, St.die, St.dieO, St.own, St.ownO, St.born, St.leak, St.tick] at hthrow ⊢ <;>
    (repeat' split) <;> simp_all [upd] <;> (repeat' split at hthrow) <;> simp_all

/-- **Empty wrappers report empty and throw the defined error when used.**  In every reachable
    state, a constructed wrapper without an object (default-constructed, moved-from, reset,
    consumed by `connect &&`) answers `empty() = true`; calling it (function wrappers) or
    connecting it (sender wrappers, r-value and l-value) raises `pika::error::bad_function_call`;
    and none of these changes the state. -/
theorem C18_empty_use_throws (c : Cfg) (hc : c.sbo = false) (hpin : c.pinned = false) (s : St) (hr : Reachable c s) (i : Nat)
    (hin : i < c.n) (hl : (s.slot i).live = true) (he : (s.slot i).obj = none) :
    (exec c s (.empty i)).res = .bool true ∧
    ((c.kind i).isFn = true → ∀ x, (exec c s (.call i x)).res = .badcall ∧
        (exec c s (.call i x)).st.slot = s.slot) ∧
    ((c.kind i).isFn = false → (exec c s (.run i)).res = .badcall ∧ (exec c s (.run i)).st.slot = s.slot) ∧
    (c.kind i = .as → (exec c s (.runc i)).res = .badcall ∧ (exec c s (.runc i)).st.slot = s.slot) := by
  have inv := reach_inv hc hpin hr
  have hv := inv.fnN i he
  refine ⟨?_, ?_, ?_, ?_⟩
  · simp [exec, hin, hl, he]
  · intro hf x; simp [exec, hin, hl, hf, hv]
  · intro hf; simp [exec, hin, hl, hf, he]
  · intro hk; simp [exec, hin, hl, hk, he]

/-- Conversely a wrapper that holds an object reports non-empty and its use reaches the object. -/
theorem C18_full_use_reaches_object (c : Cfg) (hc : c.sbo = false) (hpin : c.pinned = false) (s : St) (hr : Reachable c s)
    (i : Nat) (o : Obj) (hin : i < c.n) (ho : (s.slot i).obj = some o) :
    (exec c s (.empty i)).res = .bool false ∧
    ((c.kind i).isFn = true → ∀ x, (exec c s (.call i x)).res.core = aCall o.ty o.val x) ∧
    ((c.kind i).isFn = false → (exec c s (.run i)).res = aCompl o.ty o.val) := by
  have inv := reach_inv hc hpin hr
  have hl : (s.slot i).live = true := by
    cases h : (s.slot i).live with
    | true => rfl
    | false => have := inv.dead i h; rw [ho] at this; simp at this
  refine ⟨by simp [exec, hin, hl, ho], ?_, ?_⟩
  · intro hf x
    have hv := (inv.fnV i o ho hf).1
    simp [exec, hin, hl, hf, hv, ho, callRes_core]
  · intro hf
    have hh := inv.sndH i o ho hf
    have : complRes o = aCompl o.ty o.val := by
      unfold complRes aCompl; rfl
    simp [exec, hin, hl, hf, ho, hh, this]

/-! ## Address stability of the wrapped callable (partial) -/

/-- **Heap-stored callables keep their address** (`_partial`).  A call reports `reloc = true`
    (the callable runs at an address different from the one its constructor ran at, without
    a move constructor in between) only for objects living in the inline buffer.

    Full statement (false of the code, see the counterexample below): *no* call of any history
    reports `reloc = true` — `∀ ops v, Res.ret v true ∉ results c ops`.  `function_base`'s move
    constructor and `swap` relocate inline objects with `memcpy` / byte swap. -/
theorem C18_address_stable_partial (c : Cfg) (hc : c.sbo = false) (hpin : c.pinned = false) (s : St) (hr : Reachable c s)
    (i : Nat) (x v : Int) (h : (exec c s (.call i x)).res = .ret v true) :
    ∃ o, (s.slot i).obj = some o ∧ o.heap = false ∧ o.ty.big = false ∧ o.home ≠ i := by
  have inv := reach_inv hc hpin hr
  simp only [exec] at h
  split at h
  · rename_i hg
    split at h
    · simp at h
    · split at h
      · rename_i ty hvp o ho
        split at h
        · rename_i hty
          have hb := (inv.fnV i o ho hg.2.2).2
          simp only [callRes] at h
          split at h
          · simp only [Res.ret.injEq, Bool.and_eq_true, Bool.not_eq_true', bne_iff_ne, ne_eq] at h
            exact ⟨o, ho, h.2.1, by rw [← hb]; exact h.2.1, h.2.2⟩
          · simp at h
        · simp at h
      · simp at h
  · simp [inval] at h

/-! ## Non-vacuity and machine-checked witnesses -/

def cfg4 : Cfg := { n := 4, kind := fun i => if i < 2 then .fn else if i = 2 then .as else .uas }

def tySmall : PTy := { big := false, copyable := true, mode := 0 }
def tyBig : PTy := { big := true, copyable := true, mode := 0 }
def tyErr : PTy := { big := false, copyable := true, mode := 1 }

/-- a history exercising construction, same-type reassignment, copy, move, swap, calls, sender
    copy, l-value and r-value connect, any→unique conversion, and empty use -/
def exampleOps : List Op :=
  [.newp 0 tySmall 7 false, .call 0 5, .set 0 tySmall 9 true, .new 1, .copy 1 0, .call 1 1,
   .set 1 tyBig 3 false, .move 0 1, .call 0 0, .call 1 0, .swap 0 1, .empty 0,
   .newp 2 tyErr 6 true, .runc 2, .mctor 3 2, .run 2, .run 3, .run 3,
   .del 0, .del 1, .del 2, .del 3]

example : results cfg4 exampleOps =
    [.ok, .ret 12 false, .ok, .ok, .ok, .ret 10 false, .ok, .ok, .ret 3 false, .badcall, .ok,
     .bool true, .ok, .error 6, .ok, .badcall, .error 6, .badcall, .ok, .ok, .ok, .ok] := by decide

/-- the ledger of that history: 9 objects, all destroyed exactly once -/
example : (finalSt cfg4 init exampleOps).next = 9 ∧
    (List.range 9).all (fun id => ctorsOf id (events cfg4 exampleOps) = 1 ∧
      dtorsOf id (events cfg4 exampleOps) = 1) = true := by decide

/-- **Counterexample to full address stability**: a small callable move-assigned to another
    wrapper is called at a different address although no move constructor ran. -/
theorem C18_address_stable_counterexample :
    Res.ret 7 true ∈ results cfg4 [.newp 0 tySmall 7 false, .new 1, .move 1 0, .call 1 0] ∧
    events cfg4 [.newp 0 tySmall 7 false, .new 1, .move 1 0, .call 1 0] = [.C 0 7, .M 1 0, .D 0] := by
  decide

/-! ### The pinned tree (before `fix: basic_function …`): machine-checked counterexamples

`Cfg.pinned = true` models `basic_function::assign` / `function_base::op_assign` as they are in
the pinned tree: when the payload's constructor throws, `object` keeps pointing at the already
destroyed target (and, on the other-type path, `vptr` already names the new type). -/

def cfgPinned : Cfg := { n := 2, kind := fun _ => .fn, pinned := true }

/-- pinned tree: copy-assigning between two functions of the same target type with a throwing
    copy constructor destroys the old target (object 1) twice -/
theorem C18_pinned_double_destruction :
    let ops := [Op.newp 0 tyBig 1 false, .newp 1 tyBig 2 false, .arm 1, .copy 0 1, .del 0, .del 1]
    results cfgPinned ops = [.ok, .ok, .ok, .perr 2, .ok, .ok] ∧
    dtorsOf 1 (events cfgPinned ops) = 2 := by decide

/-- pinned tree: after a throwing assignment into an empty function the wrapper reports
    `empty() = true`, yet a call dispatches through the new type's vtable on a null object
    (undefined behaviour instead of `bad_function_call`) -/
theorem C18_pinned_empty_call_ub :
    results cfgPinned [.new 0, .arm 1, .set 0 tySmall 5 false, .empty 0, .call 0 1] =
      [.ok, .ok, .perr 5, .bool true, .ub] := by decide

/-- the same two histories on the repaired code: one destruction each, `bad_function_call` -/
example :
    let c : Cfg := { cfgPinned with pinned := false }
    let ops := [Op.newp 0 tyBig 1 false, .newp 1 tyBig 2 false, .arm 1, .copy 0 1, .del 0, .del 1]
    dtorsOf 1 (events c ops) = 1 ∧
    results c [.new 0, .arm 1, .set 0 tySmall 5 false, .empty 0, .call 0 1] =
      [.ok, .ok, .perr 5, .bool true, .badcall] := by decide

/-- **Opt-in embedded sender storage (not the shipped configuration)**: with `sbo = true` a
    small sender moved between two `unique_any_sender`s leaves its moved-from shell
    undestroyed — after all wrappers are gone object 1 has no destruction event. -/
def cfgSbo : Cfg := { n := 2, kind := fun _ => .uas, sbo := true }
def tySnd : PTy := { big := false, copyable := false, mode := 0 }

theorem C18_sbo_optin_leaks :
    let ops := [Op.newp 0 tySnd 4 false, .new 1, .move 1 0, .del 0, .del 1]
    (∀ i, ((finalSt cfgSbo init ops).slot i).live = false) ∧
    ctorsOf 1 (events cfgSbo ops) = 1 ∧ dtorsOf 1 (events cfgSbo ops) = 0 := by
  refine ⟨?_, by decide, by decide⟩
  intro i
  by_cases h0 : i = 0
  · subst h0; decide
  · by_cases h1 : i = 1
    · subst h1; decide
    · simp [finalSt, runOps, exec, execStore, cfgSbo, tySnd, admits, Kind.copyable, Kind.isFn, init,
        St.put, St.born, St.die, St.dieO, St.own, St.leak, St.tick, upd, h0, h1, Slot.dead, movesFrom, onHeap,
        Slot.emptyW]

end PikaVerif.C18
