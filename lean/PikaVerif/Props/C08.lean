import PikaVerif.Lemmas.Sem2
import PikaVerif.Lemmas.SSem2
/-!
# C08 — Semaphores conserve permits and release blocked acquirers

Property theorems about the model `PikaVerif.Sem` (counting / binary semaphore).  Every
theorem quantifies over *all* accepted event logs of the model, i.e. over every number of
threads, every program and every interleaving.  `Reachable s` = `s` is the state after
some accepted log from `init n v`.
-/
namespace PikaVerif.C08
open PikaVerif PikaVerif.Sem

def Reachable (s : St) : Prop := ∃ n v log, 0 ≤ v ∧ runLog step (init n v) log = some s

/-- Number of successful acquisitions (`sem.take` events) in a log. -/
def takes : List Ev → Nat
  | [] => 0
  | .take _ _ :: l => takes l + 1
  | _ :: l => takes l

/-- Number of permits released (`sem.add` events, weighted) in a log. -/
def added : List Ev → Nat
  | [] => 0
  | .add _ _ c :: l => added l + c
  | _ :: l => added l

theorem counters_step (s s' : St) (e : Ev) (h : step s e = some s') :
    s'.acquired = s.acquired + takes [e] ∧ s'.released = s.released + added [e] ∧
    s'.init = s.init ∧ s'.n = s.n := by
  cases e <;> simp only [step] at h <;> (repeat' split at h) <;>
    first | (simp at h; done) | (simp only [Option.some.injEq] at h; subst h; simp [takes, added])

theorem counters_log (log : List Ev) : ∀ (s s' : St), runLog step s log = some s' →
    s'.acquired = s.acquired + takes log ∧ s'.released = s.released + added log ∧
    s'.init = s.init ∧ s'.n = s.n := by
  induction log with
  | nil => intro s s' h; simp at h; subst h; simp [takes, added]
  | cons e es ih =>
    intro s s' h
    simp only [runLog] at h
    cases hs : step s e with
    | none => simp [hs] at h
    | some s1 =>
      simp only [hs] at h
      have h1 := counters_step s s1 e hs
      have h2 := ih s1 s' h
      have ht : takes (e :: es) = takes [e] + takes es := by cases e <;> simp [takes] <;> omega
      have ha : added (e :: es) = added [e] + added es := by cases e <;> simp [added] <;> omega
      refine ⟨?_, ?_, ?_, ?_⟩ <;> omega

/-- **Conservation.**  In every execution the number of successful acquisitions never
    exceeds the initial count plus the permits released, and the stored count is exactly
    `initial + released − acquired ≥ 0` (no permit is lost or invented). -/
theorem C08_conservation (n : Nat) (v : Int) (hv : 0 ≤ v) (log : List Ev) (s : St)
    (h : runLog step (init n v) log = some s) :
    (takes log : Int) ≤ v + added log ∧ s.value = v + added log - takes log ∧ 0 ≤ s.value := by
  obtain ⟨hi, hi2⟩ := inv2_of_accepted h
  have hc := counters_log log _ s h
  have hacc := hi.account
  have hnn := hi2.nonneg
  simp only [init] at hc
  have e1 : s.acquired = takes log := by omega
  have e2 : s.released = added log := by omega
  rw [hc.2.2.1] at hacc hnn
  have := hnn hv
  rw [e1, e2] at hacc
  refine ⟨?_, hacc, this⟩
  omega

/-- A state is *stuck* when the model accepts no event other than a thread starting a new
    operation (`inv`) or ending its program (`done`). -/
def Stuck (s : St) : Prop :=
  ∀ e, (∀ t o, e ≠ .inv t o) → (∀ t, e ≠ .done t) → step s e = none

/-- Parked in `acquire` with no wake-up token. -/
def Blocked (s : St) (t : Nat) : Prop := s.pc t = .susp false ∧ s.tok t = 0

/-- **Progress.**  The model can only be stuck in states where every thread is between
    operations, finished, or parked in an untimed acquire without a pending wake-up: no
    reachable state is stuck with a thread in the middle of an operation, holding the
    internal lock, notified-but-not-resumed, or sleeping on a deadline. -/
theorem C08_stuck_only_when_blocked (s : St) (hr : Reachable s) (hs : Stuck s) :
    ∀ t, t < s.n → s.pc t = .idle ∨ s.pc t = .fin ∨ Blocked s t := by
  obtain ⟨n, v, log, hv, hlog⟩ := hr
  obtain ⟨hi, hi2⟩ := inv2_of_accepted hlog
  intro t htn
  have en : ∀ e, (∀ t o, e ≠ .inv t o) → (∀ t, e ≠ .done t) → step s e ≠ none → False :=
    fun e h1 h2 h3 => h3 (hs e h1 h2)
  cases hl : s.lock with
  | some r =>
    exfalso
    obtain ⟨hh, hrn⟩ := hi2.lockConv r hl
    cases hp : s.pc r <;> simp [hp, holds] at hh
    case locked o c =>
      cases o with
      | acq =>
        by_cases hval : 1 ≤ s.value
        · exact en (.take r (s.value - 1)) (by simp) (by simp) (by simp [step, hrn, hl, hval, hp])
        · exact en (.cvEnq r (s.queue.length + 1) false) (by simp) (by simp)
            (by simp [step, hrn, hl, hp]; omega)
      | tryq =>
        by_cases hval : 1 ≤ s.value
        · exact en (.take r (s.value - 1)) (by simp) (by simp) (by simp [step, hrn, hl, hval, hp])
        · exact en (.slRel r) (by simp) (by simp) (by simp [step, hrn, hl, hp]; omega)
      | timed =>
        by_cases hval : 1 ≤ s.value
        · exact en (.take r (s.value - 1)) (by simp) (by simp) (by simp [step, hrn, hl, hval, hp])
        · exact en (.cvEnq r (s.queue.length + 1) true) (by simp) (by simp)
            (by simp [step, hrn, hl, hp]; omega)
      | rel k =>
        cases c with
        | true => have := hi2.carryOps r (.rel k) hp; simp at this
        | false =>
          exact en (.add r (s.value + k) k) (by simp) (by simp) (by simp [step, hrn, hl, hp])
    case enq tm => exact en (.slRel r) (by simp) (by simp) (by simp [step, hrn, hl, hp])
    case relk tm p =>
      cases p <;> cases tm
      · exact en (.cvWoke r true false) (by simp) (by simp) (by simp [step, hrn, hl, hp])
      · exact en (.cvWoke r true true) (by simp) (by simp) (by simp [step, hrn, hl, hp])
      · exact en (.cvWoke r false false) (by simp) (by simp) (by simp [step, hrn, hl, hp])
      · exact en (.cvWoke r false true) (by simp) (by simp) (by simp [step, hrn, hl, hp])
    case taken => exact en (.slRel r) (by simp) (by simp) (by simp [step, hrn, hl, hp])
    case failing => exact en (.slRel r) (by simp) (by simp) (by simp [step, hrn, hl, hp])
    case relRes i m more => exact en (.slRel r) (by simp) (by simp) (by simp [step, hrn, hl, hp])
    case relFin => exact en (.slRel r) (by simp) (by simp) (by simp [step, hrn, hl, hp])
    case relL i m =>
      cases hq : s.queue with
      | nil => exact en (.cvNone r) (by simp) (by simp) (by simp [step, hrn, hl, hp, hq])
      | cons g rest =>
        have hgq : g ∈ s.queue := by rw [hq]; simp
        have hginQ := (hi.qIff g).1 hgq
        have hgr : g ≠ r := by intro he; rw [he, hp] at hginQ; simp [inQ] at hginQ
        have hnh : holds (s.pc g) = false := by
          cases hhg : holds (s.pc g) with
          | false => rfl
          | true => have := hi.lockHolder g hhg; rw [hl] at this; simp at this; exact absurd this.symm hgr
        have hsp : ∃ p', setPopped (s.pc g) = some p' := by
          cases hpg : s.pc g <;> simp [hpg, inQ, holds] at hginQ hnh <;> simp [setPopped, hginQ]
        obtain ⟨p', hp'⟩ := hsp
        exact en (.popResume r rest.length g (decide (s.pc g = .slp false))) (by simp) (by simp)
          (by simp [step, hrn, hl, hp, hq, hp'])
  | none =>
    have nh : holds (s.pc t) = false := by
      cases hh : holds (s.pc t) with
      | false => rfl
      | true => have := hi.lockHolder t hh; rw [hl] at this; simp at this
    cases hp : s.pc t <;> simp [hp, holds] at nh
    case idle => exact Or.inl rfl
    case fin => exact Or.inr (Or.inl rfl)
    case want o => exact (en (.slAcq t) (by simp) (by simp) (by simp [step, htn, hl, hp])).elim
    case unl tm p =>
      cases tm
      · exact (en (.suspend t) (by simp) (by simp) (by simp [step, htn, hp])).elim
      · exact (en (.sleep t) (by simp) (by simp) (by simp [step, htn, hp])).elim
    case susp p =>
      by_cases htok : 0 < s.tok t
      · exact (en (.woke t) (by simp) (by simp) (by simp [step, htn, hp, htok])).elim
      · cases p with
        | true => have := hi.wake t (Or.inr hp); omega
        | false => exact Or.inr (Or.inr ⟨hp, by omega⟩)
    case slp p => exact (en (.timeout t) (by simp) (by simp) (by simp [step, htn, hp])).elim
    case wokeNL tm p => exact (en (.slAcq t) (by simp) (by simp) (by simp [step, htn, hl, hp])).elim
    case relNL i m => exact (en (.slAcq t) (by simp) (by simp) (by simp [step, htn, hl, hp])).elim
    case retn r => exact (en (.ret t r) (by simp) (by simp) (by simp [step, htn, hp])).elim

/-- **Blocked acquirers are released.**  In every reachable stuck state, if some thread is
    still parked in `acquire` then no permit is available: a blocked acquirer cannot coexist
    with an unused permit once the system has come to rest. -/
theorem C08_blocked_released (s : St) (hr : Reachable s) (hs : Stuck s) (t : Nat)
    (hb : Blocked s t) : s.value < 1 := by
  have hq := C08_stuck_only_when_blocked s hr hs
  obtain ⟨n, v, log, hv, hlog⟩ := hr
  obtain ⟨hi, _⟩ := inv2_of_accepted hlog
  have hz : wsum s = 0 := by
    apply sumTo_eq_zero
    intro u hu
    rcases hq u hu with h | h | h
    · simp [h, weight]
    · simp [h, weight]
    · simp [h.1, weight, b2n]
  have hin : t ∈ s.queue := (hi.qIff t).2 (by simp [hb.1, inQ])
  have hne : s.queue ≠ [] := by intro h; rw [h] at hin; simp at hin
  have := hi.budget hne
  rw [hz] at this
  omega

/-- **A timed or non-blocking acquire returns true exactly when it consumed a permit.**
    Whenever the model accepts `ret t r`, `r` equals the flag "thread `t` executed a
    `sem.take` since it invoked the current operation" (`tookOp`, reset at `inv`, set at
    `take`).  In particular `false` means the count was not touched by this operation. -/
theorem C08_result_iff_consumed (s s' : St) (hr : Reachable s) (t : Nat) (r : Bool)
    (h : step s (.ret t r) = some s') : s.tookOp t = r := by
  obtain ⟨n, v, log, hv, hlog⟩ := hr
  obtain ⟨_, hi2⟩ := inv2_of_accepted hlog
  simp only [step] at h
  split at h
  · split at h
    · rename_i b hp
      split at h
      · rename_i hb; subst hb; exact hi2.result t b (by simp [hp, expectTook])
      · simp at h
    · simp at h
  · simp at h

/-- **A timed acquire fails only on a genuine timeout.**  If a `try_acquire_for/until`
    returns false then, in that operation, the thread found its wait entry still linked at
    the deadline (`cv.woke` with `stillQueued`), i.e. no `release` had notified it before the
    deadline expired.  (A notified timed waiter re-examines the count instead of failing.) -/
theorem C08_timed_false_only_on_timeout (s s' : St) (hr : Reachable s) (t : Nat)
    (hop : s.curOp t = .timed) (h : step s (.ret t false) = some s') : s.sawTimeout t = true := by
  obtain ⟨n, v, log, hv, hlog⟩ := hr
  obtain ⟨_, hi2⟩ := inv2_of_accepted hlog
  simp only [step] at h
  split at h
  · split at h
    · rename_i b hp
      split at h
      · rename_i hb; subst hb; exact hi2.timedFalse t hop (Or.inr hp)
      · simp at h
    · simp at h
  · simp at h

/-! ## Non-vacuity: concrete accepted logs reaching the interesting states -/

/-- one acquirer blocks, a release of one permit wakes it, it takes the permit -/
def exampleLog : List Ev :=
  [.inv 0 .acq, .slAcq 0, .cvEnq 0 1 false, .slRel 0, .suspend 0,
   .inv 1 (.rel 1), .slAcq 1, .add 1 1 1, .popResume 1 0 0 false, .slRel 1, .ret 1 false,
   .woke 0, .slAcq 0, .cvWoke 0 false false, .take 0 0, .slRel 0, .ret 0 true]

example : (runLog step (init 2 0) exampleLog).isSome = true := by decide

/-- a stuck state with a blocked acquirer exists (so `C08_blocked_released` is not vacuous) -/
example : ∃ s, runLog step (init 1 0) [.inv 0 .acq, .slAcq 0, .cvEnq 0 1 false, .slRel 0, .suspend 0] = some s
    ∧ Blocked s 0 := by
  refine ⟨_, rfl, ?_⟩
  simp [Blocked, upd, init]

/-- a timed acquire that times out returns false -/
example : (runLog step (init 1 0)
    [.inv 0 .timed, .slAcq 0, .cvEnq 0 1 true, .slRel 0, .sleep 0, .timeout 0, .slAcq 0,
     .cvWoke 0 true true, .slRel 0, .ret 0 false]).isSome = true := by decide

end PikaVerif.C08

/-! # Sliding semaphore (model `PikaVerif.SSem`) -/
namespace PikaVerif.C08
open PikaVerif

def SReachable (s : SSem.St) : Prop := ∃ n d l log, runLog SSem.step (SSem.init n d l) log = some s

/-- no event other than starting an operation / ending the program is accepted -/
def SStuck (s : SSem.St) : Prop :=
  ∀ e, (∀ t o, e ≠ .inv t o) → (∀ t, e ≠ .done t) → SSem.step s e = none

/-- parked in `sliding_semaphore::wait(u)` with no wake-up token -/
def SBlocked (s : SSem.St) (t : Nat) (u : Int) : Prop := s.pc t = .susp u false ∧ s.tok t = 0

/-- **Progress (sliding).**  The model is only stuck when every thread is between operations,
    finished, or parked in `wait` without a pending wake-up. -/
theorem C08_sliding_stuck_only_when_blocked (s : SSem.St) (hr : SReachable s) (hs : SStuck s) :
    ∀ t, t < s.n → s.pc t = .idle ∨ s.pc t = .fin ∨ ∃ u, SBlocked s t u := by
  obtain ⟨n, d, l, log, hlog⟩ := hr
  obtain ⟨hi, _, hlc⟩ := SSem.inv_of_accepted hlog
  intro t htn
  have en : ∀ e, (∀ t o, e ≠ SSem.Ev.inv t o) → (∀ t, e ≠ SSem.Ev.done t) → SSem.step s e ≠ none → False :=
    fun e h1 h2 h3 => h3 (hs e h1 h2)
  cases hl : s.lock with
  | some r =>
    exfalso
    obtain ⟨hh, hrn⟩ := hlc r hl
    cases hp : s.pc r <;> simp [hp, SSem.holds] at hh
    case locked u tr c =>
      by_cases hsat : SSem.sat s u = true
      · exact en (.pass r u s.lower) (by simp) (by simp) (by simp [SSem.step, hrn, hl, hp, hsat])
      · have hsf : SSem.sat s u = false := by simpa using hsat
        cases tr with
        | true => exact en (.slRel r) (by simp) (by simp) (by simp [SSem.step, hrn, hl, hp, hsf])
        | false => exact en (.cvEnq r (s.queue.length + 1)) (by simp) (by simp) (by simp [SSem.step, hrn, hl, hp, hsf])
    case lockedSig l' =>
      exact en (.sig r (max l' s.lower) s.queue.length) (by simp) (by simp) (by simp [SSem.step, hrn, hl, hp])
    case enq u => exact en (.slRel r) (by simp) (by simp) (by simp [SSem.step, hrn, hl, hp])
    case relk u p =>
      cases p
      · exact en (.cvWoke r true) (by simp) (by simp) (by simp [SSem.step, hrn, hl, hp])
      · exact en (.cvWoke r false) (by simp) (by simp) (by simp [SSem.step, hrn, hl, hp])
    case passed => exact en (.slRel r) (by simp) (by simp) (by simp [SSem.step, hrn, hl, hp])
    case refused => exact en (.slRel r) (by simp) (by simp) (by simp [SSem.step, hrn, hl, hp])
    case sigRes i m more => exact en (.slRel r) (by simp) (by simp) (by simp [SSem.step, hrn, hl, hp])
    case sigFin => exact en (.slRel r) (by simp) (by simp) (by simp [SSem.step, hrn, hl, hp])
    case sigL i m =>
      cases hq : s.queue with
      | nil => exact en (.cvNone r) (by simp) (by simp) (by simp [SSem.step, hrn, hl, hp, hq])
      | cons g rest =>
        have hgq : g ∈ s.queue := by rw [hq]; simp
        have hginQ := (hi.qIff g).1 hgq
        have hgr : g ≠ r := by intro he; rw [he, hp] at hginQ; simp [SSem.inQ] at hginQ
        have hnh : SSem.holds (s.pc g) = false := by
          cases hhg : SSem.holds (s.pc g) with
          | false => rfl
          | true => have := hi.lockHolder g hhg; rw [hl] at this; simp at this; exact absurd this.symm hgr
        have hsp : ∃ p', SSem.setPopped (s.pc g) = some p' := by
          cases hpg : s.pc g <;> simp [hpg, SSem.inQ, SSem.holds] at hginQ hnh <;> simp [SSem.setPopped, hginQ]
        obtain ⟨p', hp'⟩ := hsp
        exact en (.popResume r rest.length g) (by simp) (by simp) (by simp [SSem.step, hrn, hl, hp, hq, hp'])
  | none =>
    have nh : SSem.holds (s.pc t) = false := by
      cases hh : SSem.holds (s.pc t) with
      | false => rfl
      | true => have := hi.lockHolder t hh; rw [hl] at this; simp at this
    cases hp : s.pc t <;> simp [hp, SSem.holds] at nh
    case idle => exact Or.inl rfl
    case fin => exact Or.inr (Or.inl rfl)
    case want o =>
      cases o <;> exact (en (.slAcq t) (by simp) (by simp) (by simp [SSem.step, htn, hl, hp])).elim
    case unl u p => exact (en (.suspend t) (by simp) (by simp) (by simp [SSem.step, htn, hp])).elim
    case susp u p =>
      by_cases htok : 0 < s.tok t
      · exact (en (.woke t) (by simp) (by simp) (by simp [SSem.step, htn, hp, htok])).elim
      · cases p with
        | true => have := hi.wake t u (Or.inr hp); omega
        | false => exact Or.inr (Or.inr ⟨u, hp, by omega⟩)
    case wokeNL u p => exact (en (.slAcq t) (by simp) (by simp) (by simp [SSem.step, htn, hl, hp])).elim
    case sigNL i m => exact (en (.slAcq t) (by simp) (by simp) (by simp [SSem.step, htn, hl, hp])).elim
    case retn r => exact (en (.ret t r) (by simp) (by simp) (by simp [SSem.step, htn, hp])).elim

/-- **A blocked sliding wait proceeds once the signalled lower bound is within the configured
    distance.**  In every reachable stuck state a thread still parked in `wait(u)` has
    `u - max_difference > lower_limit`. -/
theorem C08_sliding_blocked_released (s : SSem.St) (hr : SReachable s) (hs : SStuck s) (t : Nat) (u : Int)
    (hb : SBlocked s t u) : s.lower < u - s.maxDiff := by
  have hq := C08_sliding_stuck_only_when_blocked s hr hs
  obtain ⟨n, d, l, log, hlog⟩ := hr
  obtain ⟨hi, hc, _⟩ := SSem.inv_of_accepted hlog
  have hz : SSem.budget s = 0 := by
    apply sumTo_eq_zero
    intro x hx
    rcases hq x hx with h | h | ⟨v, h⟩
    · simp [h, SSem.weight]
    · simp [h, SSem.weight]
    · simp [h.1, SSem.weight]
  have hin : t ∈ s.queue := (hi.qIff t).2 (by simp [hb.1, SSem.inQ])
  have := hc t (by rw [hz]; simpa using hin) u (by simp [hb.1, SSem.ubound])
  simp [SSem.sat] at this
  omega

/-- non-vacuity: a waiter blocks, a signal within distance wakes it, it passes -/
example : (runLog SSem.step (SSem.init 2 1 0)
    [.inv 0 (.wait 5), .slAcq 0, .cvEnq 0 1, .slRel 0, .suspend 0,
     .inv 1 (.signal 4), .slAcq 1, .sig 1 4 1, .popResume 1 0 0, .slRel 1, .ret 1 false,
     .woke 0, .slAcq 0, .cvWoke 0 false, .pass 0 5 4, .slRel 0, .ret 0 true]).isSome = true := by decide

end PikaVerif.C08
