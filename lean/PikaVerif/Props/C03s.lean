import PikaVerif.Lemmas.SndRef
/-!
# C03s — payloads are delivered alive (reference lifetimes of the sender adaptors)

Follow-up of C03 (`Props/C03.lean`, value-passing model).  Model: `Model/SndRef.lean` — receivers get
the completion signal together with the LOCATION of its payload (a member of some operation state, or a
temporary); every read of a payload whose operation state has been destroyed raises `uaf`.  Fragment:
leaf (payload kept in the operation state, like `just`), then, require_started, drop_operation_state,
when_all of two, split; `emb` embeds it into the term language of C03 and the signal is
`Snd.denote (emb t)`.

What the E0-static monitors of `harness/e0/snd.cpp` assert on the real adaptors (`xl exc … alive same=1`
at every point where an exception is read, payload ledger `bad=0`, exactly one delivery, none after the
release) is here a theorem for every term of the fragment, every receiver and every machine state; the
variant of `drop_op_state_receiver` with the reset hoisted in front of the copy is refuted on concrete
terms (`decide`), which are the shapes the check replays on the code.
-/
namespace PikaVerif.SndRef
open PikaVerif.Snd

/-- **Receiver contract with payload locations** (the code as it is): for every term, every connected
    receiver `k` and every machine state in which nothing has been released and nothing above the
    allocation pointer is destroyed, `start` ends with exactly one call of `k`, as its last action, with
    the signal the term denotes and a payload location that is ALIVE at the moment of the call — an
    operation state allocated by this operation and not destroyed, while nothing is released; no destroyed
    operation state or payload was accessed on the way (`uaf` unchanged), nothing was delivered to the
    terminal receiver (`log` unchanged), and older operation states are neither destroyed nor modified. -/
theorem C03s_receiver_contract_refs (t : RT) (k : Rc) (s : M)
    (hrel : s.released = false) (hfresh : ∀ a, s.next ≤ a → s.dead a = false) :
    ∃ s' l, start Var.pinned t k s = k (denote (emb t) []) l s' ∧
      (∀ a, l = some a → s.next ≤ a ∧ a < s'.next ∧ s'.dead a = false) ∧ s'.released = false ∧
      s'.uaf = s.uaf ∧ s'.log = s.log ∧
      (∀ a, a < s.next → s'.dead a = s.dead a ∧ s'.cells a = s.cells a) := by
  obtain ⟨s', l, e, x, p, hl⟩ := spec t k s ⟨hrel, hfresh⟩
  exact ⟨s', l, by rw [e, den_emb []], hl, p.rel, x.uaf, x.log, fun a ha => ⟨x.dead a ha, x.cells a ha⟩⟩

/-- **Payloads are delivered alive**: connected to the terminal receiver (which reads its argument and
    then destroys the whole operation state) every pipeline of the fragment delivers exactly one signal,
    the denoted one, and no read of a payload — by an adaptor, by a user callable, by
    `drop_operation_state`'s copy or by the terminal receiver — hits a destroyed operation state. -/
theorem C03s_payload_alive (t : RT) :
    (run Var.pinned t).log = [denote (emb t) []] ∧ (run Var.pinned t).uaf = false ∧
      (run Var.pinned t).released = true := by
  obtain ⟨s', l, e, x, p, hl⟩ := spec t termR M.init pre_init
  have hu : use l s' = s' := use_eq p hl
  have e' : run Var.pinned t = termR (den t) l s' := e
  rw [e']
  simp [termR, hu, x.log, x.uaf, den_emb [], M.init]

/-- The variant with `op_state.reset()` hoisted in front of `auto error_local = std::forward<Error>(error)`
    reads a destroyed exception: over a leaf that keeps the error in its operation state, over when_all
    and over split (the replayed shapes `dos(err(1))`, `dos(wa(err(3),just(1:2)))`, `dos(sp(err(3)))`);
    the code as it is does not, and values / stopped are unaffected by that variant. -/
theorem C03s_dos_error_hoisted_counterexample :
    (run Var.errHoisted (.dos (.leaf (.error 1)))).uaf = true ∧
    (run Var.errHoisted (.dos (.wa2 (.leaf (.error 3)) (.leaf (.value [1, 2]))))).uaf = true ∧
    (run Var.errHoisted (.dos (.sp (.leaf (.error 3))))).uaf = true ∧
    (run Var.pinned (.dos (.wa2 (.leaf (.error 3)) (.leaf (.value [1, 2]))))).uaf = false ∧
    (run Var.errHoisted (.dos (.wa2 (.leaf (.value [3])) (.leaf (.value [1, 2]))))).uaf = false ∧
    (run Var.errHoisted (.dos (.leaf .stopped))).uaf = false := by decide

/-- The same for the values: `ts_local` built after the reset reads destroyed values
    (`dos(just(5))`, `dos(wa(just(3),just(1:2)))`). -/
theorem C03s_dos_value_hoisted_counterexample :
    (run Var.valHoisted (.dos (.leaf (.value [5])))).uaf = true ∧
    (run Var.valHoisted (.dos (.wa2 (.leaf (.value [3])) (.leaf (.value [1, 2]))))).uaf = true ∧
    (run Var.valHoisted (.dos (.leaf (.error 1)))).uaf = false := by decide

/-- The fragment is the C03 term language restricted, with the same denotation. -/
theorem C03s_denotation_agrees (t : RT) (env : List Int) : den t = denote (emb t) env := den_emb env t

/-! Non-vacuity: a pipeline with a stored error under drop_operation_state delivers that error. -/
example : (run Var.pinned (.dos (.wa2 (.leaf (.error 3)) (.leaf (.value [1, 2]))))).log = [.error 3] := by decide
example : (run Var.pinned (.thn (.add 1) (.dos (.sp (.leaf (.value [1, 2])))))).log = [.value [2, 3]] := by decide

end PikaVerif.SndRef
