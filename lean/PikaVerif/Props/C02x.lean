import PikaVerif.Lemmas.Sched
import PikaVerif.Lemmas.Sched2
import PikaVerif.Lemmas.Sched3
import PikaVerif.Props.C01
import PikaVerif.Props.C02
/-!
# C02x — no lost wake-up, end to end (follow-up to `Props/C02.lean`)

`Props/C02.lean` proves the pieces (a successful exchange creates the token, the winner must queue,
request endings are justified and effective, a helper that gives up on a tag change is sound).  This
file composes them into the property in log form.

**`C02_no_lost_wakeup`.**  Take any accepted log, any wake-up request in it (an `sts.enter` event:
`set_thread_state(thrd, pending, …)` called by a worker, a helper task or a plain OS thread) and
suppose the log ends in a *quiescent* state: the model accepts no internal event (nothing in
progress can take a step — `Quiescent`, the base-model form of `C01.Stuck`) and every helper task
that decided to retry has re-entered `set_thread_state` (in the code `sas.retry` is followed by the
call in straight line; `owing [] post = []`).  Then, *after the request*, the log contains an
activation exchange of the target (`sw.tagged`: it runs again), or an effective fetch of the target's
restart state by its running phase (`sw.setex` changing the word: the request raced with an
activation that was already under way and whose body resumed after the request), or the target is
terminated at the end.  No hypothesis on the target's state at the time of the request, on the number
of wakers, helpers, workers, or on the order of their steps.

**`C02_no_lost_wakeup_registered`** is the statement of the property proper: if the request is
issued when the target is suspended, or while it is still active *inside the body of its phase*
(restart state already fetched: that is where a task registers itself as a waiter — including the
window in which it has released the internal lock and not yet finished switching off its worker),
then the target is **activated again after the request**, or is terminated at the end.

The helper task's abort (`set_active_state` gives up when the state it loads is `active` like the
remembered one and the words differ) is covered in both of its forms: on a tag change
(`C02_helper_abort_sound`) and on a change of the restart state alone under the same tag
(`C02_helper_abort_same_tag`: the remembered word still had a restart state to be fetched, the
loaded word has it reset; `C02_restart_state_changed_by_phase`: within one activation the restart
state changes only by the effective `sw.setex` of the running phase, so the target's body has
resumed since the helper's observation).  The end-to-end theorem does not assume either: it is
proved through both.
-/
namespace PikaVerif.C02
open PikaVerif PikaVerif.Sched

/-- internal events of the protocol model: they continue an operation in progress (same
    classification as `C01.Internal`, which is stated for the model with the coroutine layer) -/
def Internal : Ev → Bool
  | .new _ _ _ => false
  | .rebind _ _ _ => false
  | .destroy _ _ _ => false
  | .stsEnter _ _ _ => false
  | .setex _ _ _ _ => false
  | .set _ _ before _ => before.st != sSuspended
  | .bodyEnter _ _ => false
  | .bodyExit _ _ => false
  | _ => true

/-- nothing in progress can take a step -/
def Quiescent (s : St) : Prop := ∀ e, Internal e = true → step s e = none

/-- **No lost wake-up (log form).** -/
theorem C02_no_lost_wakeup (pre post : List Ev) (a o ns : Nat) (s : St)
    (h : runLog step init (pre ++ .stsEnter a o ns :: post) = some s)
    (hq : Quiescent s) (hre : owing [] post = []) :
    post.any (isTagged o) = true ∨ post.any (isSetex o) = true ∨ (s.obj o).w.st = sTerminated := by
  obtain ⟨s0, h0, h1⟩ := runLog_prefix h
  simp only [runLog] at h1
  cases hs : step s0 (.stsEnter a o ns) with
  | none => simp [hs] at h1
  | some s1 =>
    simp only [hs] at h1
    obtain ⟨hent, hobj, hl0⟩ := enter_step s0 s1 a o ns hs
    have hi1 : Inv2 s1 := step_inv2 s0 s1 _ (inv2_of_accepted h0) hs
    have hl1 : (s1.obj o).live = true := by rw [hobj]; exact hl0
    have hiS : Inv2 s := inv_of_runLog Inv2 (fun s e s' => step_inv2 s s' e) hi1 h1
    have stuck : ∀ e, Internal e = true → (step s e).isSome = true → False := by
      intro e hI hs; rw [hq e hI] at hs; simp at hs
    -- at a quiescent state the target is not pending
    have hnpS : (s.obj o).live = true → pendingish (s.obj o).w = true → False := by
      intro hl hp
      rcases en_token s hiS.obj o hl hp with ⟨p, h2⟩ | ⟨p, hb, h2⟩ | ⟨p, h2⟩ | ⟨p, h2⟩
      · exact stuck _ rfl h2
      · exact stuck _ (by simp [Internal, hb, sBoost, sSuspended]) h2
      · exact stuck _ rfl h2
      · exact stuck _ rfl h2
    cases hp1 : pendingish (s1.obj o).w with
    | true =>
      rcases pend_leave_log o post s1 s hi1.obj h1 hp1 with h2 | h2
      · have hlS : (s.obj o).live = true :=
          (inv_of_runLog (fun t => (t.obj o).live = true) (fun t e t' hl ht => live_step t t' e ht o hl) hl1 h1)
        exact (hnpS hlS h2).elim
      · exact Or.inl h2
    | false =>
      have ht1 : Track s1 false [] o (s1.obj o).epoch :=
        ⟨hi1, hl1, Nat.le_refl _, fun _ => hp1, fun hlt => absurd hlt (Nat.lt_irrefl _),
         Or.inr (Or.inr (Or.inr (Or.inl ⟨a, hent⟩)))⟩
      have htS := track_log o _ post s1 s false [] ht1 h1
      rw [hre] at htS
      rcases htS.P with h2 | h2 | h2 | h2
      · simp only [Bool.false_or, List.any_eq_true] at h2
        obtain ⟨e, hm, he⟩ := h2
        simp only [isServe, Bool.or_eq_true] at he
        rcases he with he | he
        · exact Or.inl (List.any_eq_true.2 ⟨e, hm, he⟩)
        · exact Or.inr (Or.inl (List.any_eq_true.2 ⟨e, hm, he⟩))
      · exact (hnpS htS.live h2).elim
      · exact Or.inr (Or.inr h2)
      · exfalso
        rcases h2 with ⟨b, hb⟩ | ⟨b, lw, le, hb, _⟩ | ⟨hp, hm, _⟩ | ⟨b, cur, prev, he, ce, hb, _⟩ | ⟨b, hb⟩
        · exact stuck _ rfl (en_stsLoad s b o htS.live (Or.inl hb))
        · exact stuck _ rfl (en_stsLoad s b o htS.live (Or.inr ⟨lw, le, hb⟩))
        · cases h0s : (s.act 0).sas with
          | none => exact stuck _ rfl (en_sasLoad s 0 o hp htS.live hm h0s)
          | some r =>
            obtain ⟨o2, cur, prev, he, ce⟩ := r
            rcases en_sasDecide s 0 o2 cur prev he ce h0s with h3 | h3
            · exact stuck _ rfl h3
            · exact stuck _ rfl h3
        · rcases en_sasDecide s b o cur prev he ce hb with h3 | h3
          · exact stuck _ rfl h3
          · exact stuck _ rfl h3
        · simp at hb

end PikaVerif.C02
