import PikaVerif.Lemmas.Sched
import PikaVerif.Lemmas.Sched2
import PikaVerif.Lemmas.Sched3
import PikaVerif.Lemmas.Sched3Ex
import PikaVerif.Props.C01
import PikaVerif.Props.C02
/-!
# C02x — no lost wake-up, end to end (follow-up to `Props/C02.lean`)

`Props/C02.lean` proves the pieces (a successful exchange creates the token, the winner must queue,
request endings are justified and effective, a helper that gives up on a tag change is sound).  This
file composes them into the property in log form.

**`C02_no_lost_wakeup`.**  Take any accepted log, any wake-up request in it (an `sts.enter` event:
`set_thread_state(thrd, pending, …)` called by a worker, a helper task or a plain OS thread) and
suppose the log ends in a *quiescent* state: the model accepts no internal event (nothing in
progress can take a step — `Sched.Quiescent` / `Sched.Internal` in `Lemmas/Sched3.lean`, the
base-model form of `C01.Stuck` / `C01.Internal`) and every helper task
that decided to retry has re-entered `set_thread_state` (in the code `sas.retry` is followed by the
call in straight line; `owing [] post = []`).  Then, *after the request*, the log contains an
activation exchange of the target (`sw.tagged`: it runs again), or an effective fetch of the target's
restart state by its running phase (`sw.setex` changing the word: the request raced with an
activation that was already under way and whose body resumed after the request), or the target is
terminated at the end.  No hypothesis on the target's state at the time of the request, on the number
of wakers, helpers, workers, or on the order of their steps.

**`C02_no_lost_wakeup_registered`** is the statement of the property proper: if the request is
issued when the target is suspended, or while it is still active *inside the body of its phase*
(restart state already fetched: that is where a task registers itself as a waiter — including the
window in which it has released the internal lock and not yet finished switching off its worker),
then the target is **activated again after the request**, or is terminated at the end.

The helper task's abort (`set_active_state` gives up when the state it loads is `active` like the
remembered one and the words differ) is covered in both of its forms: on a tag change
(`C02_helper_abort_sound`) and on a change of the restart state alone under the same tag
(`C02_helper_abort_same_tag`: the remembered word still had a restart state to be fetched, the
loaded word has it reset; `C02_restart_state_changed_by_phase`: within one activation the restart
state changes only by the effective `sw.setex` of the running phase, so the target's body has
resumed since the helper's observation).  The end-to-end theorem does not assume either: it is
proved through both.
-/
namespace PikaVerif.C02
open PikaVerif PikaVerif.Sched

/-- **No lost wake-up (log form).**  `pre` = the log up to the request, `post` = everything after
    it; `isTagged o` = an activation exchange of `o`, `isSetex o` = an effective fetch of the restart
    state of `o` by its running phase (`Lemmas/Sched3.lean`). -/
theorem C02_no_lost_wakeup (pre post : List Ev) (a o ns : Nat) (s : St)
    (h : runLog step init (pre ++ .stsEnter a o ns :: post) = some s)
    (hq : Quiescent s) (hre : owing [] post = []) :
    post.any (isTagged o) = true ∨ post.any (isSetex o) = true ∨ (s.obj o).w.st = sTerminated := by
  obtain ⟨s0, h0, h1⟩ := runLog_prefix h
  simp only [runLog] at h1
  cases hs : step s0 (.stsEnter a o ns) with
  | none => simp [hs] at h1
  | some s1 =>
    simp only [hs] at h1
    obtain ⟨hent, hobj, hl0⟩ := enter_step s0 s1 a o ns hs
    have hi1 : Inv2 s1 := step_inv2 s0 s1 _ (inv2_of_accepted h0) hs
    have hl1 : (s1.obj o).live = true := by rw [hobj]; exact hl0
    have hiS : Inv2 s := inv_of_runLog Inv2 (fun s e s' => step_inv2 s s' e) hi1 h1
    have stuck : ∀ e, Internal e = true → (step s e).isSome = true → False := by
      intro e hI hs; rw [hq e hI] at hs; simp at hs
    -- at a quiescent state the target is not pending
    have hnpS : (s.obj o).live = true → pendingish (s.obj o).w = true → False := by
      intro hl hp
      rcases en_token s hiS.obj o hl hp with ⟨p, h2⟩ | ⟨p, hb, h2⟩ | ⟨p, h2⟩ | ⟨p, h2⟩
      · exact stuck _ rfl h2
      · exact stuck _ (by simp [Internal, hb, sBoost, sSuspended]) h2
      · exact stuck _ rfl h2
      · exact stuck _ rfl h2
    cases hp1 : pendingish (s1.obj o).w with
    | true =>
      rcases pend_leave_log o post s1 s hi1.obj h1 hp1 with h2 | h2
      · have hlS : (s.obj o).live = true :=
          (inv_of_runLog (fun t => (t.obj o).live = true) (fun t e t' hl ht => live_step t t' e ht o hl) hl1 h1)
        exact (hnpS hlS h2).elim
      · exact Or.inl h2
    | false =>
      have ht1 : Track s1 false [] o (s1.obj o).epoch :=
        ⟨hi1, hl1, Nat.le_refl _, fun _ => hp1, fun hlt => absurd hlt (Nat.lt_irrefl _),
         Or.inr (Or.inr (Or.inr (Or.inl ⟨a, hent⟩)))⟩
      have htS := track_log o _ post s1 s false [] ht1 h1
      rw [hre] at htS
      rcases htS.P with h2 | h2 | h2 | h2
      · simp only [Bool.false_or, List.any_eq_true] at h2
        obtain ⟨e, hm, he⟩ := h2
        simp only [isServe, Bool.or_eq_true] at he
        rcases he with he | he
        · exact Or.inl (List.any_eq_true.2 ⟨e, hm, he⟩)
        · exact Or.inr (Or.inl (List.any_eq_true.2 ⟨e, hm, he⟩))
      · exact (hnpS htS.live h2).elim
      · exact Or.inr (Or.inr h2)
      · exfalso
        rcases h2 with ⟨b, hb⟩ | ⟨b, lw, le, hb, _⟩ | ⟨hp, hm, _⟩ | ⟨b, cur, prev, he, ce, hb, _⟩ | ⟨b, hb⟩
        · exact stuck _ rfl (en_stsLoad s b o htS.live (Or.inl hb))
        · exact stuck _ rfl (en_stsLoad s b o htS.live (Or.inr ⟨lw, le, hb⟩))
        · cases h0s : (s.act 0).sas with
          | none => exact stuck _ rfl (en_sasLoad s 0 o hp htS.live hm h0s)
          | some r =>
            obtain ⟨o2, cur, prev, he, ce⟩ := r
            rcases en_sasDecide s 0 o2 cur prev he ce h0s with h3 | h3
            · exact stuck _ rfl h3
            · exact stuck _ rfl h3
        · rcases en_sasDecide s b o cur prev he ce hb with h3 | h3
          · exact stuck _ rfl h3
          · exact stuck _ rfl h3
        · simp at hb

/-- **No lost wake-up for a registered waiter: it is activated again.**  If, when the request is
    issued, the target is not active (suspended: its phase has returned; or already pending), or is
    active with its restart state already fetched (it is inside the body of its phase, where a task
    registers itself as a waiter — this includes the window in which it has released the internal
    lock but has not finished switching off its worker), then at quiescence an activation exchange of
    the target has been logged after the request, or the target is terminated. -/
theorem C02_no_lost_wakeup_registered (pre post : List Ev) (a o ns : Nat) (s0 s : St)
    (h0 : runLog step init pre = some s0)
    (h : runLog step init (pre ++ .stsEnter a o ns :: post) = some s)
    (hreg : (s0.obj o).w.st ≠ sActive ∨ (s0.obj o).w.ex = exSignaled)
    (hq : Quiescent s) (hre : owing [] post = []) :
    post.any (isTagged o) = true ∨ (s.obj o).w.st = sTerminated := by
  rcases C02_no_lost_wakeup pre post a o ns s h hq hre with h1 | h1 | h1
  · exact Or.inl h1
  · left
    obtain ⟨s0', h0', h1'⟩ := runLog_prefix h
    rw [h0] at h0'
    simp only [Option.some.injEq] at h0'
    subst h0'
    have := setex_needs_tagged o _ s0 s (inv_of_accepted h0) h1' hreg (by simpa [isSetex] using h1)
    simpa [isTagged] using this
  · exact Or.inr h1

/-- **The restart state is fetched only by the running phase**: an effective `sw.setex` is accepted
    only from the actor that owns the activation, inside its phase; it replaces a restart state that
    was not `signaled` by `signaled`. -/
theorem C02_setex_only_by_running_phase (s s' : St) (a o : Nat) (b af : W)
    (h : step s (.setex a o b af) = some s') (hne : b ≠ af) :
    (s.obj o).owner = some a ∧ (s.obj o).inPhase = true ∧ b.ex ≠ exSignaled ∧ af.ex = exSignaled := by
  simp only [step] at h
  split at h
  · rename_i hg
    obtain ⟨hl, ho, hph, hb, haf⟩ := hg
    refine ⟨ho, hph, ?_, by subst haf; rfl⟩
    intro hex
    exact hne (by subst hb; subst haf; exact W_ext _ _ rfl hex rfl)
  · simp at h

/-- **Within one activation the restart state changes only by that fetch.**  Over any accepted log
    segment in which the target made no transition into pending and is active at both ends (hence in
    one and the same activation: the tag is the same), a different restart state at the end means
    that the segment contains an effective `sw.setex` of the target — its phase has started (or
    resumed) in between. -/
theorem C02_restart_state_changed_by_phase (seg : List Ev) (s1 s2 : St) (hr : C01.Reachable s1)
    (h : runLog step s1 seg = some s2) (o : Nat) (hep : (s2.obj o).epoch = (s1.obj o).epoch)
    (h1 : (s1.obj o).w.st = sActive) (h2 : (s2.obj o).w.st = sActive) :
    (s2.obj o).w.tag = (s1.obj o).w.tag ∧
    ((s2.obj o).w.ex ≠ (s1.obj o).w.ex → seg.any (isSetex o) = true) := by
  obtain ⟨log, hlog⟩ := hr
  have hnp : pendingish (s1.obj o).w = false := by simp [pendingish, h1, sActive, sPending, sBoost]
  obtain ⟨_, ht, hx⟩ := ex_log o seg s1 s2 (inv_of_accepted hlog) h hep hnp h2
  refine ⟨ht, ?_⟩
  intro hne
  rcases hx with hx | hx
  · exact absurd hx hne
  · exact hx

/-- **A helper that gives up under an equal tag is sound too** (the corner left open by
    `C02_helper_abort_sound`).  Whenever the model accepts a helper's abort, the target has made a
    transition into pending since the observation the helper was created from (`he < ce`: it was
    queued and activated again, `C01_no_drop`), or — same epoch, same tag, the very same activation —
    the remembered word still carried a restart state to be fetched (not `signaled`) and the loaded
    word has it reset: by `C02_restart_state_changed_by_phase` / `C02_setex_only_by_running_phase`
    the target's own phase has fetched it since that observation, i.e. the target has resumed
    execution after the wake-up request was made; the request the helper drops was aimed at a
    suspension that had already ended (`C02_no_lost_wakeup` is proved through this case). -/
theorem C02_helper_abort_same_tag (s s' : St) (hr : C01.Reachable s) (a o : Nat)
    (h : step s (.sasAbort a o) = some s') :
    ∃ cur prev he ce, (s.act a).sas = some (o, cur, prev, he, ce) ∧ prev.st = sActive ∧ cur.st = sActive ∧
      (he < ce ∨ (he = ce ∧ cur.tag = prev.tag ∧ prev.ex ≠ exSignaled ∧ cur.ex = exSignaled)) := by
  obtain ⟨log, hlog⟩ := hr
  obtain ⟨hi, hx⟩ := invx_of_accepted hlog
  obtain ⟨cur, prev, he, ce, hs, hst, hne⟩ := C02_helper_abort_condition s s' a o h
  obtain ⟨hle, hpa, htag⟩ := hi.sas a o cur prev he ce hs
  have hca : cur.st = sActive := by rw [hst]; exact hpa
  refine ⟨cur, prev, he, ce, hs, hpa, hca, ?_⟩
  by_cases heq : he = ce
  · right
    have ht := htag heq hca
    rcases hx.sas a o cur prev he ce hs heq hca with h1 | h1
    · exact absurd (W_ext _ _ hst h1 ht) hne
    · exact ⟨heq, ht, h1⟩
  · left; omega

/-- A state in which every constructed object is at rest and no actor is inside
    `set_thread_state` / `set_active_state` is quiescent (so the hypothesis of `C02_no_lost_wakeup`
    is satisfiable exactly where one expects it). -/
theorem C02_quiescent_of_rest (s : St)
    (hobj : ∀ o, (s.obj o).live = true → (s.obj o).fresh = false ∧ (s.obj o).q = 0 ∧ (s.obj o).holder = none ∧
      (s.obj o).pusher = none ∧ (s.obj o).owner = none ∧ (s.obj o).helpers = [])
    (hact : ∀ a, (s.act a).sts = .out ∧ (s.act a).sas = none) : Quiescent s :=
  quiescent_of_rest s hobj hact

/-! ## Non-vacuity

`raceLog` (`Lemmas/Sched3Ex.lean`): the wake-up races with the end of the phase — the waker finds the
task still active inside its body, a helper is created, the worker stores `suspended`, the helper
retries, wins the exchange and queues the task, which is activated again and terminates.  All
hypotheses of both theorems hold, and the conclusion holds through its first disjunct. -/

example : runLog step init (racePre ++ .stsEnter 2 1 sPending :: racePost) = some sRace ∧ Quiescent sRace ∧
    owing [] racePost = [] ∧ racePost.any (isTagged 1) = true :=
  ⟨sRace_run, sRace_quiescent, by decide, by decide⟩

example : ∃ s0, runLog step init racePre = some s0 ∧ (s0.obj 1).w.st = sActive ∧ (s0.obj 1).w.ex = exSignaled :=
  ⟨(runLog step init racePre).get (by decide), by simp, by decide, by decide⟩

/-! `cornerLog`: the helper's abort under an equal tag.  The request is issued while the target is
active and has *not* fetched its restart state (`abort`, left by an interrupt) yet; the helper
aborts after the phase fetched it; the target suspends again.  The log is accepted, its final state
is quiescent with the target suspended, and no activation exchange follows the request: the second
disjunct of `C02_no_lost_wakeup` (the body resumed after the request) is what holds, and the
hypothesis `hreg` of `C02_no_lost_wakeup_registered` is what excludes this log there. -/

example : runLog step init (cornerPre ++ .stsEnter 3 1 sPending :: cornerPost) = some sCorner ∧
    Quiescent sCorner ∧ owing [] cornerPost = [] ∧ cornerPost.any (isTagged 1) = false ∧
    cornerPost.any (isSetex 1) = true ∧ (sCorner.obj 1).w.st = sSuspended :=
  ⟨sCorner_run, sCorner_quiescent, by decide, by decide, by decide, by rw [sCorner_obj]; rfl⟩

/-- a helper that owes the re-entry is seen by `owing` -/
example : owing [] [.sasRetry 3 1] = [(3, 1)] ∧ owing [] [.sasRetry 3 1, .stsEnter 3 1 sPending] = [] := by decide

end PikaVerif.C02
