import PikaVerif.Lemmas.SchedFromLife2
import PikaVerif.Lemmas.LetLife
import PikaVerif.Props.C03
/-!
# C03 — life cycle of the `schedule_from` operation state under concurrency (follow-up C03x)

"Exactly one completion signal, the denoted one ... nothing is signalled after the operation state may be
destroyed, every object stored by the operation is destroyed exactly once" for `schedule_from` (the
implementation behind `continues_on` / `transfer` / `transfer_just`).

`PikaVerif.SchedFromLife.step` (Model/SchedFromLife.lean) follows
`libs/pika/execution/include/pika/execution/algorithms/schedule_from.hpp` statement by statement: `start`
(`start(sender_os)`), `pred` (the predecessor completes its receiver: inline in `start()` or on any other thread),
`store` (`ts.emplace`), `conn` (`scheduler_op_state.emplace(connect(schedule(scheduler), ...))`), `sstart`
(`start(*scheduler_op_state)`), `sch` (the scheduler completes its receiver: inside `sstart` on the same thread, or
on the target context while the first thread has not yet returned), `reset` (`scheduler_op_state.reset()` - FIRST
statement of `set_*_scheduler_sender`), `fwd` (the downstream completion - LAST statement; error / stopped of the
predecessor are forwarded directly), `ret`, `destroy` (the owner destroys the operation state, `selfdel = false`).
With `selfdel` the downstream receiver destroys the whole operation state inside `fwd` (start_detached, the
harness' self-deleting operation state); every later event that reads or writes the operation state
(`touches`) raises `uaf`; the acceptor never refuses such an event.

All theorems are for the code as it is (`Cfg.ok`: no statement order swapped; any `selfdel`, any `poison`) and
quantify over every completion channel and payload of the predecessor and of the scheduler, every accepted log
(every interleaving of any number of threads, inline completions included).

**Not a theorem because the code does not do it**: "an exception thrown while storing the values / connecting the
scheduler's sender becomes `set_error`".  `set_value_predecessor_sender` is declared `noexcept` and has no
try/catch: such an exception ends in `std::terminate` (model: `aborted`, witness
`C03x_sf_throwing_store_terminates_counterexample`).  The completion clauses below therefore carry the hypothesis
`aborted = false` where they claim that a completion *happens*; everything else holds in aborted states too.
(let_value / let_error do catch: second part of this file.)
-/
namespace PikaVerif.C03
open PikaVerif PikaVerif.SchedFromLife

def SFReach (c : SchedFromLife.Cfg) (s : SchedFromLife.St) : Prop :=
  ∃ log, runLog SchedFromLife.step (SchedFromLife.init c) log = some s

/-- **Exactly one downstream completion.**  In every reachable state the downstream receiver has been completed
    at most once, and before the completion there is no result.  Once the predecessor has completed, the
    scheduler has completed if its operation state was started, every call has returned and the process was not
    terminated, it has been completed exactly once. -/
theorem C03x_sf_exactly_one_completion (c : SchedFromLife.Cfg) (hc : c.ok) (s : SchedFromLife.St)
    (hr : SFReach c s) :
    s.delivered ≤ 1 ∧
    (s.delivered = 0 → s.result = none) ∧
    (quiescent s → s.aborted = false → s.predSig ≠ none → (s.sopArmed = true → s.schSig ≠ none) →
      s.delivered = 1) := by
  have hf : Full s := by obtain ⟨log0, hl0⟩ := hr; exact full_of_runLog hc hl0
  refine ⟨hf.c.delivLe, hf.r.resNone, fun hq ha hp hs => ?_⟩
  rcases hf.c.progress hp with h | h | h | h
  · exact h
  · exfalso
    cases hh : s.holder with
    | none => exact h hh
    | some t =>
      have hb := hf.c.holderBusy t hh
      rcases hq t with h' | h' <;> rw [h'] at hb <;> simp [busy] at hb
  · exact absurd h.2 (hs h.1)
  · rw [ha] at h; simp at h

/-- **The completion is the denoted one.**  If the downstream receiver has been completed: an error / stopped of
    the predecessor arrived unchanged; the values of the predecessor arrived unchanged (`value v`) when the
    scheduler completed with a value, otherwise the scheduler's error / stopped arrived; in every case
    `result = expected s` (the denotation as far as the history determines it) and the predecessor - and, on the
    value path, the scheduler - had completed before. -/
theorem C03x_sf_completion_is_the_denoted_one (c : SchedFromLife.Cfg) (hc : c.ok) (s : SchedFromLife.St)
    (hr : SFReach c s) (hd : s.delivered = 1) :
    (∀ p, s.predSig = some p → p.isValue = false → s.result = some p) ∧
    (∀ v w, s.predSig = some (.value v) → s.schSig = some (.value w) → s.result = some (.value v)) ∧
    (∀ v q, s.predSig = some (.value v) → s.schSig = some q → q.isValue = false → s.result = some q) ∧
    s.predSig ≠ none ∧ (∀ v, s.predSig = some (.value v) → s.schSig ≠ none) ∧
    s.result = expected s ∧ s.result ≠ none := by
  have hf : Full s := by obtain ⟨log0, hl0⟩ := hr; exact full_of_runLog hc hl0
  have hp : s.predSig ≠ none := fun h => by have := (hf.c.predNone h).2.1; omega
  refine ⟨fun p h1 h2 => hf.r.resP p hd h1 h2, fun v w h1 h2 => ?_, fun v q h1 h2 h3 => ?_, hp,
    fun v h1 => hf.r.resS v hd h1, ?_, ?_⟩
  · have := hf.r.resV v _ hd h1 h2; simpa [denote] using this
  · have := hf.r.resV v q hd h1 h2
    cases q <;> simp_all [denote, Sig.isValue]
  · cases hps : s.predSig with
    | none => exact absurd hps hp
    | some p =>
      cases p with
      | value v =>
        cases hq : s.schSig with
        | none => exact absurd hq (hf.r.resS v hd hps)
        | some q => simp [expected, hps, hq, hf.r.resV v q hd hps hq]
      | error e => simp [expected, hps, hf.r.resP _ hd hps rfl]
      | stopped => simp [expected, hps, hf.r.resP _ hd hps rfl]
  · cases hps : s.predSig with
    | none => exact absurd hps hp
    | some p =>
      cases p with
      | value v =>
        cases hq : s.schSig with
        | none => exact absurd hq (hf.r.resS v hd hps)
        | some q => simp [hf.r.resV v q hd hps hq]
      | error e => simp [hf.r.resP _ hd hps rfl]
      | stopped => simp [hf.r.resP _ hd hps rfl]

/-- **The forwarding call is the last access of the adaptor to its operation state.**  In a reachable state in
    which the downstream completion has been issued, no event that reads or writes the operation state is
    accepted any more: not `start`, not a completion of the predecessor or the scheduler, no `store` / `conn` /
    `sstart` / `reset` / `fwd` of any thread - only returns and the owner's `destroy`. -/
theorem C03x_sf_forward_is_last_access (c : SchedFromLife.Cfg) (hc : c.ok) (s s' : SchedFromLife.St)
    (e : SchedFromLife.Ev) (hr : SFReach c s) (hd : s.delivered = 1) (h : SchedFromLife.step s e = some s') :
    touches e = false := by
  have hf : Full s := by obtain ⟨log0, hl0⟩ := hr; exact full_of_runLog hc hl0
  obtain ⟨c0,c1,c2,c3,c4,c5,c6,c7,c8,c9,c10,c11,c12,c13,c14,c15,c16⟩ := hf.c
  have hnb : ∀ t, busy (s.pc t) = false := by
    intro t
    cases hb : busy (s.pc t) with
    | false => rfl
    | true => have := c4 t (c1 t hb); omega
  cases e with
  | ret t => rfl
  | tdone t => rfl
  | destroy t => rfl
  | start t =>
    exfalso
    have hp : s.predSig ≠ none := fun h' => by have := (c6 h').2.1; omega
    have := c5 hp
    simp only [SchedFromLife.step] at h
    split at h
    · simp at h
    · split at h
      · rename_i hg; rw [this] at hg; simp at hg
      · simp at h
  | pred t p =>
    exfalso
    simp only [SchedFromLife.step] at h
    split at h
    · simp at h
    · split at h
      · rename_i hg; have := (c6 hg.2.2).2.1; omega
      · simp at h
  | sch t q =>
    exfalso
    simp only [SchedFromLife.step] at h
    split at h
    · simp at h
    · split at h
      · rename_i hg; have := (c7 hg.2.1 hg.2.2).2; omega
      · simp at h
  | store t ok =>
    exfalso
    have := hnb t
    simp only [SchedFromLife.step] at h
    split at h
    · simp at h
    · split at h
      · rename_i hg; rw [hg] at this; simp [busy] at this
      · simp at h
  | conn t ok =>
    exfalso
    have := hnb t
    simp only [SchedFromLife.step] at h
    split at h
    · simp at h
    · split at h
      · rename_i hg; rw [hg] at this; simp [busy] at this
      · simp at h
  | sstart t =>
    exfalso
    have := hnb t
    simp only [SchedFromLife.step] at h
    split at h
    · simp at h
    · split at h
      · rename_i hg; rw [hg] at this; simp [busy] at this
      · simp at h
  | reset t =>
    exfalso
    have := hnb t
    simp only [SchedFromLife.step] at h
    split at h
    · simp at h
    · split at h
      · rename_i hg; rw [hg] at this; simp [busy] at this
      · rename_i hg; rw [hg] at this; simp [busy] at this
      · simp at h
  | fwd t q =>
    exfalso
    have := hnb t
    simp only [SchedFromLife.step] at h
    split at h
    · simp at h
    · split at h
      · rename_i hg; rw [hg] at this; simp [busy] at this
      · rename_i hg; rw [hg] at this; simp [busy] at this
      · rename_i hg; rw [hg] at this; simp [busy] at this
      · simp at h

/-- The same along a log: in an accepted log no event after the downstream completion touches the operation
    state. -/
theorem C03x_sf_forward_is_last_access_log (c : SchedFromLife.Cfg) (hc : c.ok) (pre post : List SchedFromLife.Ev)
    (e : SchedFromLife.Ev) (s1 s' : SchedFromLife.St)
    (h1 : runLog SchedFromLife.step (SchedFromLife.init c) pre = some s1) (hd : s1.delivered = 1)
    (h : runLog SchedFromLife.step (SchedFromLife.init c) (pre ++ e :: post) = some s') : touches e = false := by
  obtain ⟨s2, h2, h3⟩ := runLog_prefix h
  rw [h1] at h2
  injection h2 with h2
  subst h2
  simp only [runLog] at h3
  cases hs : SchedFromLife.step s1 e with
  | none => simp [hs] at h3
  | some s3 => exact C03x_sf_forward_is_last_access c hc s1 s3 e ⟨pre, h1⟩ hd hs

/-- **`scheduler_op_state.reset()` precedes the forwarding.**  Whenever a downstream completion is accepted in a
    reachable state, the scheduler's operation state is not engaged: every one ever constructed has been
    destroyed already (by `reset`, or never constructed on the predecessor's error / stopped path), and nothing
    has been delivered before. -/
theorem C03x_sf_reset_precedes_forward (c : SchedFromLife.Cfg) (hc : c.ok) (s s' : SchedFromLife.St) (t : Nat)
    (q : SchedFromLife.Sig) (hr : SFReach c s) (h : SchedFromLife.step s (.fwd t q) = some s') :
    s.sop = false ∧ s.sopDtor = s.sopCtor ∧ s.delivered = 0 ∧ s.freed = false := by
  have hf : Full s := by obtain ⟨log0, hl0⟩ := hr; exact full_of_runLog hc hl0
  have key : s.delivered = 0 → s.sop = false → s.sop = false ∧ s.sopDtor = s.sopCtor ∧ s.delivered = 0 ∧ s.freed = false := by
    intro hd hs
    have hnf : s.freed = false := by
      cases hfr : s.freed with
      | false => rfl
      | true => have := hf.o.freedDeliv hfr; omega
    have := hf.o.sopCount hnf
    rw [hs] at this
    exact ⟨hs, by simp [b2n] at this; omega, hd, hnf⟩
  simp only [SchedFromLife.step] at h
  split at h
  · simp at h
  · split at h
    · rename_i p hg
      split at h
      · exact key (hf.c.holderDeliv t (hf.c.busyHolder t (by rw [hg]; rfl))) (hf.o.pcPredO t p hg).2.2.2
      · simp at h
    · rename_i p hg
      split at h
      · exact key (hf.c.holderDeliv t (hf.c.busyHolder t (by rw [hg]; rfl))) (hf.o.pcRstO t p hg).2
      · simp at h
    · rename_i p hg
      split at h
      · rename_i hg2; have := hf.c.nsw p; rw [hg2.1] at this; simp at this
      · simp at h
    · simp at h

/-- **Nothing touches the operation state after it was destroyed.**  `uaf = false` in every reachable state (also
    with a self-deleting downstream receiver); the operation state is destroyed at most once, only after the
    downstream completion, and with a self-deleting receiver exactly at the completion. -/
theorem C03x_sf_no_touch_after_release (c : SchedFromLife.Cfg) (hc : c.ok) (s : SchedFromLife.St)
    (hr : SFReach c s) :
    s.uaf = false ∧ s.nfree ≤ 1 ∧ (s.freed = true ↔ s.nfree = 1) ∧ (s.freed = true → s.delivered = 1) ∧
    (c.selfdel = true → (s.freed = true ↔ s.delivered = 1)) := by
  have hf : Full s := by obtain ⟨log0, hl0⟩ := hr; exact full_of_runLog hc hl0
  obtain ⟨log, hl⟩ := hr
  have hcfg : s.cfg = c := by simpa [SchedFromLife.init] using cfg_of_runLog hl
  have hn := hf.o.nfreeEq
  refine ⟨hf.o.uafF, ?_, ?_, hf.o.freedDeliv, fun hs => ⟨hf.o.freedDeliv, fun hd => hf.o.selfFreed (by rw [hcfg]; exact hs) hd⟩⟩
  · cases hfr : s.freed <;> simp [hfr, b2n] at hn <;> omega
  · cases hfr : s.freed <;> simp [hfr, b2n] at hn <;> simp [hn]

/-- **Every stored object is destroyed exactly once.**  The value tuple `ts` and the scheduler's operation state
    are constructed at most once each and never destroyed more often than constructed; once the downstream
    completion has been issued the scheduler's operation state is destroyed (it was reset before the forwarding);
    once the operation state is destroyed (inside the completion with a self-deleting receiver, by the owner
    otherwise) every constructed object has been destroyed exactly once. -/
theorem C03x_sf_destroyed_exactly_once (c : SchedFromLife.Cfg) (hc : c.ok) (s : SchedFromLife.St)
    (hr : SFReach c s) :
    s.tsCtor ≤ 1 ∧ s.sopCtor ≤ 1 ∧ s.tsDtor ≤ s.tsCtor ∧ s.sopDtor ≤ s.sopCtor ∧
    (s.delivered = 1 → s.sopDtor = s.sopCtor) ∧
    (s.freed = true → s.tsDtor = s.tsCtor ∧ s.sopDtor = s.sopCtor ∧ s.nfree = 1) ∧
    (c.selfdel = true → s.delivered = 1 → s.freed = true ∧ s.tsDtor = s.tsCtor ∧ s.sopDtor = s.sopCtor ∧ s.nfree = 1) := by
  have hf : Full s := by obtain ⟨log0, hl0⟩ := hr; exact full_of_runLog hc hl0
  obtain ⟨log, hl⟩ := hr
  have hcfg : s.cfg = c := by simpa [SchedFromLife.init] using cfg_of_runLog hl
  have hn := hf.o.nfreeEq
  have hfreed : s.freed = true → s.tsDtor = s.tsCtor ∧ s.sopDtor = s.sopCtor ∧ s.nfree = 1 := by
    intro hfr
    have h1 := (hf.o.tsCountF hfr).1
    have h2 := hf.o.sopCountF hfr
    simp [hfr, b2n] at hn
    omega
  refine ⟨hf.o.ctorLe.1, hf.o.ctorLe.2, ?_, ?_, ?_, hfreed, fun hs hd => ?_⟩
  · cases hfr : s.freed with
    | true => have := (hf.o.tsCountF hfr).1; omega
    | false => have := hf.o.tsCount hfr; omega
  · cases hfr : s.freed with
    | true => have := hf.o.sopCountF hfr; omega
    | false => have := hf.o.sopCount hfr; omega
  · intro hd
    cases hfr : s.freed with
    | true => have := hf.o.sopCountF hfr; omega
    | false =>
      have h1 := hf.o.sopCount hfr
      have h2 := hf.o.delivSop hd hfr
      rw [h2] at h1
      simp [b2n] at h1
      omega
  · have hfr := hf.o.selfFreed (by rw [hcfg]; exact hs) hd
    exact ⟨hfr, hfreed hfr⟩

/-! ## The swapped order (forward first, reset afterwards): `/verif/seeded/C03f/patch.diff` -/

/-- the seeded variant: only `set_value_scheduler_sender` is swapped; self-deleting downstream receiver;
    poisoning allocator -/
def sfSwapped : SchedFromLife.Cfg := { selfdel := true, swapV := true, swapE := false, swapS := false, poison := true }
/-- the code as it is, same environment -/
def sfPinned : SchedFromLife.Cfg := { selfdel := true, swapV := false, swapE := false, swapS := false, poison := true }

/-- thread 0 starts, the predecessor completes inline with the value 5, the scheduler's operation state is started
    and thread 0 returns; the scheduler completes on thread 1 -/
def sfPrefix : List SchedFromLife.Ev :=
  [.start 0, .pred 0 (.value 5), .store 0 true, .conn 0 true, .sstart 0, .ret 0, .sch 1 (.value 0)]

/-- what the examples observe of a final state -/
structure SfObs where
  uaf : Bool
  nfree : Nat
  tsCtor : Nat
  tsDtor : Nat
  sopCtor : Nat
  sopDtor : Nat
  delivered : Nat
  result : Option SchedFromLife.Sig
  deriving DecidableEq, Repr

def sfObs (s : SchedFromLife.St) : SfObs :=
  ⟨s.uaf, s.nfree, s.tsCtor, s.tsDtor, s.sopCtor, s.sopDtor, s.delivered, s.result⟩

/-- **Counterexample for the swapped order.**  With `set_value_scheduler_sender` forwarding first: the log
    `… sch, fwd, reset` is accepted; the forwarding destroys the operation state (self-deleting receiver), the
    following `reset()` touches it after the release (`uaf = true`) and - the freed memory reading as an engaged
    optional - destroys the scheduler's operation state a second time (`sopDtor = 2`, `sopCtor = 1`).  Without
    poisoning the touch remains (`uaf = true`), the second destruction does not happen.  The swapped variant does
    not accept the order of the code (`reset` before `fwd`). -/
theorem C03x_sf_swapped_counterexample :
    (runLog SchedFromLife.step (SchedFromLife.init sfSwapped) (sfPrefix ++ [.fwd 1 (.value 5), .reset 1, .ret 1])).map sfObs
      = some ⟨true, 1, 1, 1, 1, 2, 1, some (.value 5)⟩ ∧
    (runLog SchedFromLife.step (SchedFromLife.init { sfSwapped with poison := false })
        (sfPrefix ++ [.fwd 1 (.value 5), .reset 1, .ret 1])).map sfObs
      = some ⟨true, 1, 1, 1, 1, 1, 1, some (.value 5)⟩ ∧
    (runLog SchedFromLife.step (SchedFromLife.init sfSwapped) (sfPrefix ++ [.reset 1])).isNone = true := by
  decide

/-- **Counterexample to "an exception while storing becomes `set_error`"** (the code as it is):
    `set_value_predecessor_sender` is `noexcept` without try/catch - a throwing `ts.emplace` (or a throwing
    `schedule` / `connect`) terminates the process: `aborted`, nothing delivered, no further event accepted. -/
theorem C03x_sf_throwing_store_terminates_counterexample :
    (runLog SchedFromLife.step (SchedFromLife.init sfPinned) [.start 0, .pred 0 (.value 5), .store 0 false]).map
        (fun s => (s.aborted, s.delivered, s.result)) = some (true, 0, none) ∧
    (runLog SchedFromLife.step (SchedFromLife.init sfPinned) [.start 0, .pred 0 (.value 5), .store 0 true, .conn 0 false]).map
        (fun s => (s.aborted, s.delivered, s.result)) = some (true, 0, none) ∧
    (runLog SchedFromLife.step (SchedFromLife.init sfPinned)
        [.start 0, .pred 0 (.value 5), .store 0 false, .fwd 0 (.error 1)]).isNone = true := by
  decide

/-! ## Non-vacuity -/

/-- the code as it is on the schedule of the counterexample: `reset` then `fwd`; value 5 delivered once, freed
    once, every object destroyed once, no touch after the release -/
example : (runLog SchedFromLife.step (SchedFromLife.init sfPinned) (sfPrefix ++ [.reset 1, .fwd 1 (.value 5), .ret 1])).map sfObs
    = some ⟨false, 1, 1, 1, 1, 1, 1, some (.value 5)⟩ := by decide
/-- and does not accept the swapped order -/
example : (runLog SchedFromLife.step (SchedFromLife.init sfPinned) (sfPrefix ++ [.fwd 1 (.value 5)])).isNone = true := by decide
/-- everything inline on one thread (inline scheduler), scheduler fails: its error arrives, `ts` destroyed once -/
example : (runLog SchedFromLife.step (SchedFromLife.init sfPinned)
    [.start 0, .pred 0 (.value 5), .store 0 true, .conn 0 true, .sstart 0, .sch 0 (.error 7), .reset 0, .fwd 0 (.error 7), .ret 0]).map sfObs
    = some ⟨false, 1, 1, 1, 1, 1, 1, some (.error 7)⟩ := by decide
/-- the scheduler completes on thread 1 while thread 0 is still inside `start(*scheduler_op_state)`; thread 0
    returns after the operation state is gone: accepted, no touch -/
example : (runLog SchedFromLife.step (SchedFromLife.init sfPinned)
    [.start 0, .pred 0 (.value 5), .store 0 true, .conn 0 true, .sstart 0, .sch 1 .stopped, .reset 1, .fwd 1 .stopped, .ret 0, .ret 1]).map sfObs
    = some ⟨false, 1, 1, 1, 1, 1, 1, some .stopped⟩ := by decide
/-- predecessor error on another thread: forwarded directly, nothing stored -/
example : (runLog SchedFromLife.step (SchedFromLife.init sfPinned)
    [.start 0, .ret 0, .pred 1 (.error 3), .fwd 1 (.error 3), .ret 1]).map sfObs
    = some ⟨false, 1, 0, 0, 0, 0, 1, some (.error 3)⟩ := by decide
/-- no second completion, no completion of the predecessor twice -/
example : (runLog SchedFromLife.step (SchedFromLife.init sfPinned)
    [.start 0, .ret 0, .pred 1 (.error 3), .fwd 1 (.error 3), .fwd 1 (.error 3)]).isNone = true := by decide
example : (runLog SchedFromLife.step (SchedFromLife.init sfPinned)
    [.start 0, .ret 0, .pred 1 (.error 3), .fwd 1 (.error 3), .ret 1, .pred 1 .stopped]).isNone = true := by decide
/-- owner-destroyed operation state (`selfdel = false`): `ts` lives until `destroy` -/
example : (runLog SchedFromLife.step (SchedFromLife.init { sfPinned with selfdel := false })
    (sfPrefix ++ [.reset 1, .fwd 1 (.value 5), .ret 1])).map sfObs = some ⟨false, 0, 1, 0, 1, 1, 1, some (.value 5)⟩ := by decide
example : (runLog SchedFromLife.step (SchedFromLife.init { sfPinned with selfdel := false })
    (sfPrefix ++ [.reset 1, .fwd 1 (.value 5), .ret 1, .destroy 1])).map sfObs = some ⟨false, 1, 1, 1, 1, 1, 1, some (.value 5)⟩ := by decide

/-! # let_value / let_error

`PikaVerif.LetLife.step` (Model/LetLife.lean) follows `let_value.hpp` / `let_error.hpp` (`Cfg.onError`) statement by
statement: `start`, `pred`, then on the stored channel inside `try_catch_exception_ptr`: `store` (emplace of the
predecessor's values / error into the operation state), `call` (the user function is invoked with references to the
stored values), `conn` (the successor sender is connected - the downstream receiver moves into the successor's
operation state, which is emplaced into `successor_op_state`), `sstart` (start of the successor); an exception of any
of the three goes to the handler, which forwards `set_error`; `succ` = the successor completes the downstream
receiver (THE completion of the adaptor; with `selfdel` the receiver destroys the whole operation state, stored
values and successor operation state included, inside the call); other channels are forwarded directly (`fwd`).
All theorems: every `Cfg` (let_value and let_error, self-deleting or owner-destroyed), every completion of the
predecessor and of the successor, every throwing point, every accepted log (every interleaving). -/

def LTReach (c : LetLife.Cfg) (s : LetLife.St) : Prop :=
  ∃ log, runLog LetLife.step (LetLife.init c) log = some s

/-- **Exactly one downstream completion** (let_value / let_error): at most one in every reachable state; exactly
    one once the predecessor has completed, the successor has completed if it was started, and every call has
    returned. -/
theorem C03x_let_exactly_one_completion (c : LetLife.Cfg) (s : LetLife.St) (hr : LTReach c s) :
    s.delivered ≤ 1 ∧
    (s.delivered = 0 → s.result = none) ∧
    (LetLife.quiescent s → s.predSig ≠ none → (s.sopArmed = true → s.succSig ≠ none) → s.delivered = 1) := by
  obtain ⟨log, hl⟩ := hr
  have hf := LetLife.full_of_runLog hl
  refine ⟨hf.c.delivLe, hf.r.resNone, fun hq hp hs => ?_⟩
  rcases hf.c.progress hp with h | h | h
  · exact h
  · exfalso
    cases hh : s.holder with
    | none => exact h hh
    | some t =>
      have hb := hf.c.holderBusy t hh
      rcases hq t with h' | h' <;> rw [h'] at hb <;> simp [LetLife.busy] at hb
  · exact absurd h.2 (hs h.1)

/-- **The completion is the denoted one** (let_value / let_error).  If the downstream receiver has been completed:
    a predecessor completion on a channel that is not stored arrived unchanged; an exception `e` thrown while
    storing the values, by the user function, or while connecting the successor arrived as `set_error e`
    (`thrown = some e`: the handler was entered with `e`); otherwise the completion of the successor sender arrived,
    whatever it is (value, error or stopped).  In every case `result = expected s`. -/
theorem C03x_let_completion_is_the_denoted_one (c : LetLife.Cfg) (s : LetLife.St) (hr : LTReach c s)
    (hd : s.delivered = 1) :
    (∀ p, s.predSig = some p → s.cfg.stores p = false → s.result = some p) ∧
    (∀ p e, s.predSig = some p → s.cfg.stores p = true → s.thrown = some e → s.result = some (.error e)) ∧
    (∀ p, s.predSig = some p → s.cfg.stores p = true → s.thrown = none → s.result = s.succSig ∧ s.succSig ≠ none) ∧
    s.predSig ≠ none ∧ s.result = LetLife.expected s ∧ s.result ≠ none := by
  obtain ⟨log, hl⟩ := hr
  have hf := LetLife.full_of_runLog hl
  have hp : s.predSig ≠ none := fun h => by have := (hf.c.predNone h).2.1; omega
  refine ⟨fun p h1 h2 => hf.r.resP p hd h1 h2, fun p e h1 h2 h3 => hf.r.resT p e hd h1 h2 h3,
    fun p h1 h2 h3 => hf.r.resS p hd h1 h2 h3, hp, ?_, ?_⟩
  · cases hps : s.predSig with
    | none => exact absurd hps hp
    | some p =>
      cases hst : s.cfg.stores p with
      | false => simp [LetLife.expected, hps, hst, hf.r.resP p hd hps hst]
      | true =>
        cases hth : s.thrown with
        | some e => simp [LetLife.expected, hps, hst, hth, hf.r.resT p e hd hps hst hth]
        | none => simp [LetLife.expected, hps, hst, hth, (hf.r.resS p hd hps hst hth).1]
  · cases hps : s.predSig with
    | none => exact absurd hps hp
    | some p =>
      cases hst : s.cfg.stores p with
      | false => simp [hf.r.resP p hd hps hst]
      | true =>
        cases hth : s.thrown with
        | some e => simp [hf.r.resT p e hd hps hst hth]
        | none => have := hf.r.resS p hd hps hst hth; rw [this.1]; exact this.2

/-- **The completion is the last access** (let_value / let_error): once the downstream completion has been issued
    (by the successor, or by the adaptor's own forwarding), no event that reads or writes the operation state is
    accepted any more - only returns and the owner's `destroy`. -/
theorem C03x_let_completion_is_last_access (c : LetLife.Cfg) (s s' : LetLife.St) (e : LetLife.Ev)
    (hr : LTReach c s) (hd : s.delivered = 1) (h : LetLife.step s e = some s') : LetLife.touches e = false := by
  obtain ⟨log, hl⟩ := hr
  have hf := LetLife.full_of_runLog hl
  obtain ⟨c1,c2,c3,c4,c5,c6,c7,c8,c9,c10,c11,c12,c13,c14,c15⟩ := hf.c
  have hnb : ∀ t, LetLife.busy (s.pc t) = false := by
    intro t
    cases hb : LetLife.busy (s.pc t) with
    | false => rfl
    | true => have := c4 t (c1 t hb); omega
  have hp : s.predSig ≠ none := fun h' => by have := (c6 h').2.1; omega
  have hst := c5 hp
  cases e with
  | ret t => rfl
  | tdone t => rfl
  | destroy t => rfl
  | _ =>
    exfalso
    simp only [LetLife.step] at h
    repeat' split at h
    all_goals first | (simp at h; done) | skip
    all_goals (rename_i t _; first | grind [LetLife.busy] | (have := hnb t; grind [LetLife.busy]))

/-- **The stored values outlive the user function and the successor** (let_value / let_error).  Whenever the user
    function is invoked (`call`) the stored values exist in a live operation state; while the successor operation is
    running (started, not completed) the stored values and the successor's operation state exist and the operation
    state is not destroyed; the stored payload is the predecessor's, unchanged. -/
theorem C03x_let_values_outlive_successor (c : LetLife.Cfg) (s : LetLife.St) (hr : LTReach c s) :
    (∀ t r s', LetLife.step s (.call t r) = some s' → s.ts ≠ none ∧ s.freed = false) ∧
    (s.sopArmed = true → s.succSig = none → s.ts ≠ none ∧ s.sop = true ∧ s.freed = false) ∧
    (∀ v p, s.ts = some v → s.predSig = some p → LetLife.payload p = v ∧ s.cfg.stores p = true) := by
  obtain ⟨log, hl⟩ := hr
  have hf := LetLife.full_of_runLog hl
  refine ⟨fun t r s' h => ?_, hf.o.armedO, fun v p h1 h2 => hf.o.tsPred v p h1 h2⟩
  simp only [LetLife.step] at h
  split at h
  · rename_i hpc
    refine ⟨(hf.o.pcStoredO t hpc).1, ?_⟩
    cases hfr : s.freed with
    | false => rfl
    | true =>
      have h1 := hf.o.freedDeliv hfr
      have h2 := hf.c.holderDeliv t (hf.c.busyHolder t (by rw [hpc]; rfl))
      omega
  · simp at h

/-- **Nothing touches the operation state after it was destroyed** (let_value / let_error): `uaf = false` in every
    reachable state; destroyed at most once, only after the downstream completion, with a self-deleting receiver
    exactly at the completion. -/
theorem C03x_let_no_touch_after_release (c : LetLife.Cfg) (s : LetLife.St) (hr : LTReach c s) :
    s.uaf = false ∧ s.nfree ≤ 1 ∧ (s.freed = true ↔ s.nfree = 1) ∧ (s.freed = true → s.delivered = 1) ∧
    (c.selfdel = true → (s.freed = true ↔ s.delivered = 1)) := by
  obtain ⟨log, hl⟩ := hr
  have hf := LetLife.full_of_runLog hl
  have hcfg : s.cfg = c := by simpa [LetLife.init] using LetLife.cfg_of_runLog hl
  have hn := hf.o.nfreeEq
  refine ⟨hf.o.uafF, ?_, ?_, hf.o.freedDeliv, fun hs => ⟨hf.o.freedDeliv, fun hd => hf.o.selfFreed (by rw [hcfg]; exact hs) hd⟩⟩
  · cases hfr : s.freed <;> simp [hfr, b2n] at hn <;> omega
  · cases hfr : s.freed <;> simp [hfr, b2n] at hn <;> simp [hn]

/-- **Every stored object is destroyed exactly once** (let_value / let_error): the stored values and the successor's
    operation state are constructed at most once each, never destroyed more often than constructed, and once the
    operation state is destroyed each constructed object has been destroyed exactly once; with a self-deleting
    receiver that is the case as soon as the completion has been issued. -/
theorem C03x_let_destroyed_exactly_once (c : LetLife.Cfg) (s : LetLife.St) (hr : LTReach c s) :
    s.tsCtor ≤ 1 ∧ s.sopCtor ≤ 1 ∧ s.tsDtor ≤ s.tsCtor ∧ s.sopDtor ≤ s.sopCtor ∧
    (s.freed = true → s.tsDtor = s.tsCtor ∧ s.sopDtor = s.sopCtor ∧ s.nfree = 1) ∧
    (c.selfdel = true → s.delivered = 1 → s.freed = true ∧ s.tsDtor = s.tsCtor ∧ s.sopDtor = s.sopCtor ∧ s.nfree = 1) := by
  obtain ⟨log, hl⟩ := hr
  have hf := LetLife.full_of_runLog hl
  have hcfg : s.cfg = c := by simpa [LetLife.init] using LetLife.cfg_of_runLog hl
  have hn := hf.o.nfreeEq
  have hfreed : s.freed = true → s.tsDtor = s.tsCtor ∧ s.sopDtor = s.sopCtor ∧ s.nfree = 1 := by
    intro hfr
    have h1 := (hf.o.tsCountF hfr).1
    have h2 := hf.o.sopCountF hfr
    simp [hfr, b2n] at hn
    omega
  refine ⟨hf.o.ctorLe.1, hf.o.ctorLe.2, ?_, ?_, hfreed, fun hs hd => ?_⟩
  · cases hfr : s.freed with
    | true => have := (hf.o.tsCountF hfr).1; omega
    | false => have := hf.o.tsCount hfr; omega
  · cases hfr : s.freed with
    | true => have := hf.o.sopCountF hfr; omega
    | false => have := hf.o.sopCount hfr; omega
  · have hfr := hf.o.selfFreed (by rw [hcfg]; exact hs) hd
    exact ⟨hfr, hfreed hfr⟩

/-- **A moved-from receiver is completed only after a late-throwing connect** (let_value / let_error).  The
    adaptor's own forwarding uses `op_state.receiver`; `hollow` (that receiver had been moved from) can only become
    true when `connect` of the successor threw after it had moved the receiver into the partially built
    successor operation state. -/
theorem C03x_let_hollow_only_after_late_connect_throw (c : LetLife.Cfg) (s : LetLife.St) (hr : LTReach c s) :
    s.hollow = true → s.lateThrow = true := by
  obtain ⟨log, hl⟩ := hr
  exact (LetLife.full_of_runLog hl).o.hollowLate

def ltValue : LetLife.Cfg := { selfdel := true, onError := false }
def ltError : LetLife.Cfg := { selfdel := true, onError := true }

structure LtObs where
  uaf : Bool
  hollow : Bool
  nfree : Nat
  tsCtor : Nat
  tsDtor : Nat
  sopCtor : Nat
  sopDtor : Nat
  delivered : Nat
  result : Option SchedFromLife.Sig
  deriving DecidableEq, Repr

def ltObs (s : LetLife.St) : LtObs :=
  ⟨s.uaf, s.hollow, s.nfree, s.tsCtor, s.tsDtor, s.sopCtor, s.sopDtor, s.delivered, s.result⟩

/-- **Witness for the late-throwing connect** (the code as it is; by inspection, outside C03's scope of
    non-throwing `connect`): `connect` of the successor throws after moving `op_state.receiver`; the handler then
    completes the moved-from receiver (`hollow = true`). -/
theorem C03x_let_late_connect_throw_counterexample :
    (runLog LetLife.step (LetLife.init ltValue)
      [.start 0, .pred 0 (.value 5), .store 0 none, .call 0 none, .conn 0 (some 9) true, .fwd 0 (.error 9), .ret 0]).map ltObs
      = some ⟨false, true, 1, 1, 1, 0, 0, 1, some (.error 9)⟩ := by decide

/-! ## Non-vacuity (let_value / let_error) -/

/-- let_value: the successor completes on thread 1 while thread 0 is still inside the start of the successor; the
    completion destroys everything once; thread 0 returns afterwards without a touch -/
example : (runLog LetLife.step (LetLife.init ltValue)
    [.start 0, .pred 0 (.value 5), .store 0 none, .call 0 none, .conn 0 none false, .sstart 0, .succ 1 (.value 8), .ret 0, .ret 1]).map ltObs
    = some ⟨false, false, 1, 1, 1, 1, 1, 1, some (.value 8)⟩ := by decide
/-- the user function throws: `set_error` with that exception, the stored values destroyed once, no successor -/
example : (runLog LetLife.step (LetLife.init ltValue)
    [.start 0, .ret 0, .pred 1 (.value 5), .store 1 none, .call 1 (some 4), .fwd 1 (.error 4), .ret 1]).map ltObs
    = some ⟨false, false, 1, 1, 1, 0, 0, 1, some (.error 4)⟩ := by decide
/-- storing throws: `set_error`, nothing stored -/
example : (runLog LetLife.step (LetLife.init ltValue)
    [.start 0, .pred 0 (.value 5), .store 0 (some 2), .fwd 0 (.error 2), .ret 0]).map ltObs
    = some ⟨false, false, 1, 0, 0, 0, 0, 1, some (.error 2)⟩ := by decide
/-- let_value passes an error / stopped through; let_error passes a value through and stores an error -/
example : (runLog LetLife.step (LetLife.init ltValue) [.start 0, .pred 0 .stopped, .fwd 0 .stopped, .ret 0]).map ltObs
    = some ⟨false, false, 1, 0, 0, 0, 0, 1, some .stopped⟩ := by decide
example : (runLog LetLife.step (LetLife.init ltValue) [.start 0, .pred 0 (.error 3), .store 0 none]).isNone = true := by decide
example : (runLog LetLife.step (LetLife.init ltError)
    [.start 0, .pred 0 (.error 3), .store 0 none, .call 0 none, .conn 0 none false, .sstart 0, .succ 0 (.value 1), .ret 0]).map ltObs
    = some ⟨false, false, 1, 1, 1, 1, 1, 1, some (.value 1)⟩ := by decide
example : (runLog LetLife.step (LetLife.init ltError) [.start 0, .pred 0 (.value 3), .fwd 0 (.value 3), .ret 0]).map ltObs
    = some ⟨false, false, 1, 0, 0, 0, 0, 1, some (.value 3)⟩ := by decide
/-- no second completion: neither by the successor twice nor by the adaptor after the successor -/
example : (runLog LetLife.step (LetLife.init ltValue)
    [.start 0, .pred 0 (.value 5), .store 0 none, .call 0 none, .conn 0 none false, .sstart 0, .succ 0 (.value 8), .succ 0 (.value 8)]).isNone = true := by decide
example : (runLog LetLife.step (LetLife.init ltValue)
    [.start 0, .pred 0 (.value 5), .store 0 none, .call 0 none, .conn 0 none false, .sstart 0, .succ 0 (.value 8), .fwd 0 (.error 1)]).isNone = true := by decide

end PikaVerif.C03
