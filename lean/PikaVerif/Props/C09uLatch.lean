import PikaVerif.Props.C09
import PikaVerif.Lemmas.LatchU3
/-!
# C09u — termination of `pika::latch` programs (follow-up of C09, latch part)

`Props/C09.lean` states progress of the latch as "no stuck state except blocked waiters"
(`C09_latch_stuck_only_when_blocked`, `C09_latch_all_released`).  This file strengthens it to
**termination** with an explicit bound and a characterisation of the final states of maximal runs.

**Stutter.**  The model `PikaVerif.Latch` has **no stutter** (`C09u_latch_no_stutter`): a failed
attempt on the internal spinlock is not an event of the model (`slAcq` is accepted only when the
lock is free; the spinning thread's `sl.lock` / `ag.yield` lines are dropped by the driver before
the acceptor), `try_wait` is one `ret`, `wait` calls `cond_.wait` once (no loop).  For the real code
the bounds below are bounds *modulo spinning on the internal lock*.

* `Latch.mu` (sum of a rank of every program counter + 3 per queued cv entry) strictly decreases
  with every accepted event other than the invocation of a new operation
  (`C09u_latch_measure_decreases`); the `notify_one` loop is paid for by the entries it pops.
* A *program* gives each of the `n` threads a finite list of `count_down(k)` / `arrive_and_wait(k)` /
  `wait` / `try_wait` (`Latch.PSt`, `Latch.pstep`).  Every accepted log of a program has at most
  `Latch.bound n prog` ≤ `n + 14 · #operations` events (`C09u_latch_bounded`), every accepted log
  extends to a maximal one (`C09u_latch_maximal_exists`), in the final state of a maximal log every
  thread has finished its whole program or is parked in `wait` / `arrive_and_wait`, the latter only
  with a non-zero counter (`C09u_latch_final_state`).
* **Covered programs** (`C09u_latch_covered_all_return`): if the updates of the program respect the
  precondition of the latch (`progTotal ≤ count`) and the updates that are *not sequenced behind a
  wait of their own thread* reach the count (`count ≤ progFree`), every maximal run ends with the
  counter at zero and **every** thread finished: all waiters returned.  The two qualifications are
  necessary: `C09u_latch_naive_false_self_wait` (latch(1), one thread `wait ; count_down(1)`: the
  updates sum to the count, the thread blocks for ever) and `C09u_latch_naive_false_overshoot`
  (latch(1), `count_down(2)`: the counter jumps from 1 to -1, `notified_` is never set, the waiter
  blocks for ever — a violation of the precondition of `count_down`, not a defect).
* **Short programs** (`C09u_latch_short_all_waiters_blocked`): if the updates sum to less than the
  count, in the final state of every maximal run the counter is positive, every thread whose list
  contains a `wait` / `arrive_and_wait` is parked in it, and every other thread has finished.
-/
namespace PikaVerif.C09uLatch
open PikaVerif PikaVerif.Latch PikaVerif.C09

/-- **The measure decreases.**  Every accepted event that is not the invocation of a new operation
    strictly decreases `mu`; an invocation of `o` adds exactly `opRank o - 1` (in any state, reachable
    or not). -/
theorem C09u_latch_measure_decreases (s s' : St) (e : Ev) (he : step s e = some s') :
    (∀ t o, e = .inv t o → mu s' + 1 = mu s + opRank o) ∧
    ((∀ t o, e ≠ .inv t o) → mu s' < mu s) := by
  refine ⟨?_, fun hne => mu_step s s' e hne he⟩
  intro t o heq; subst heq; exact mu_inv s s' t o he

/-- **No stutter.**  No accepted event leaves the state unchanged. -/
theorem C09u_latch_no_stutter (s s' : St) (e : Ev) (he : step s e = some s') : s' ≠ s := by
  intro heq
  subst heq
  obtain ⟨h1, h2⟩ := C09u_latch_measure_decreases s' s' e he
  by_cases hinv : ∃ t o, e = .inv t o
  · obtain ⟨t, o, rfl⟩ := hinv
    have := h1 t o rfl
    have : 2 ≤ opRank o := by cases o <;> simp [opRank]
    omega
  · have := h2 (fun t o h => hinv ⟨t, o, h⟩)
    omega

/-- **Every accepted event of a program strictly decreases the program measure `phi`.** -/
theorem C09u_latch_program_measure_decreases (p p' : PSt) (e : Ev) (h : pstep p e = some p') :
    phi p' < phi p := phi_step p p' e h

/-- **Bounded runs.**  Any accepted log of a finite program (`n` threads, initial count `c`, `prog t`
    the operations of thread `t`) has at most `bound n prog` events — whatever the interleaving —
    and `bound n prog ≤ n + 14 · (number of operations)`. -/
theorem C09u_latch_bounded (n : Nat) (c : Int) (prog : Nat → List Op) (log : List Ev) (p : PSt)
    (h : runLog pstep (pinit n c prog) log = some p) :
    log.length ≤ bound n prog ∧ bound n prog ≤ n + 14 * sumTo n (fun t => (prog t).length) := by
  have := runLog_phi log _ p h
  rw [phi_pinit] at this
  exact ⟨by omega, bound_le n prog⟩

/-- the logs of a program are logs of the model: everything proved in `Props/C09.lean` about
    accepted logs applies -/
theorem C09u_latch_program_refines (n : Nat) (c : Int) (prog : Nat → List Op) (log : List Ev) (p : PSt)
    (h : runLog pstep (pinit n c prog) log = some p) :
    runLog step (init n c) log = some p.s := runLog_pstep_step log _ p h

/-- **Maximal runs exist and are finite.**  Every accepted log of a program extends to a maximal
    one (a state in which no event at all is accepted), still within the bound. -/
theorem C09u_latch_maximal_exists (n : Nat) (c : Int) (prog : Nat → List Op) (log : List Ev) (p : PSt)
    (h : runLog pstep (pinit n c prog) log = some p) :
    ∃ ext p', runLog pstep (pinit n c prog) (log ++ ext) = some p' ∧ PStuck p' ∧
      (log ++ ext).length ≤ bound n prog := by
  obtain ⟨ext, p', hrun, hst⟩ := exists_maximal_from (phi p) p (Nat.le_refl _)
  have hall : runLog pstep (pinit n c prog) (log ++ ext) = some p' := by
    rw [runLog_append, h]; exact hrun
  exact ⟨ext, p', hall, hst, (C09u_latch_bounded n c prog _ p' hall).1⟩

/-- **Final states.**  In the final state of a maximal run every thread has finished its whole
    program or is parked in `wait` / `arrive_and_wait` without a pending wake-up; if any thread is
    parked the counter is not zero. -/
theorem C09u_latch_final_state (n : Nat) (c : Int) (prog : Nat → List Op) (log : List Ev) (p : PSt)
    (h : runLog pstep (pinit n c prog) log = some p) (hst : PStuck p) :
    (∀ t, t < n → (p.s.pc t = .fin ∧ p.prog t = []) ∨ LBlocked p.s t) ∧
    ((∃ t, t < n ∧ LBlocked p.s t) → p.s.counter ≠ 0) ∧
    p.s.counter = c - (p.s.decSum : Int) ∧ progFree n prog ≤ p.s.decSum ∧ p.s.decSum ≤ progTotal n prog := by
  have hi := pinv_of_run n c prog log p h
  refine ⟨fun t ht => final_fin_or_blocked n c prog p hi hst t ht, ?_, ?_,
    final_decSum_ge n c prog p hi hst, decSum_le n c prog p hi⟩
  · rintro ⟨t, _, hb⟩
    exact C09_latch_all_released p.s hi.reach (lstuck_of_pstuck p hst) t hb
  · have := hi.inv.account; rw [hi.initEq] at this; exact this

/-- **Covered programs: all waiters return.**  If the updates of the program do not exceed the
    count (precondition of `count_down` / `arrive_and_wait`) and the updates that are not sequenced
    behind a `wait` / `arrive_and_wait` of their own thread reach it, then in the final state of
    **every** maximal run the counter is zero and every thread has finished its whole program: every
    `wait` and `arrive_and_wait` returned. -/
theorem C09u_latch_covered_all_return (n : Nat) (c : Int) (prog : Nat → List Op) (log : List Ev) (p : PSt)
    (h : runLog pstep (pinit n c prog) log = some p) (hst : PStuck p)
    (hpre : (progTotal n prog : Int) ≤ c) (hcov : c ≤ (progFree n prog : Int)) :
    p.s.counter = 0 ∧ ∀ t, t < n → p.s.pc t = .fin ∧ p.prog t = [] :=
  final_covered n c prog p (pinv_of_run n c prog log p h) hst hpre hcov

/-- **Short programs: every waiter is blocked** (the converse).  If the updates of the program sum
    to less than the count, then in the final state of every maximal run the counter is positive,
    every thread whose list contains a `wait` or an `arrive_and_wait` is parked in it, and every
    thread without one has finished its whole program. -/
theorem C09u_latch_short_all_waiters_blocked (n : Nat) (c : Int) (prog : Nat → List Op) (log : List Ev)
    (p : PSt) (h : runLog pstep (pinit n c prog) log = some p) (hst : PStuck p)
    (hshort : (progTotal n prog : Int) < c) :
    0 < p.s.counter ∧ ∀ t, t < n →
      (hasWait (prog t) = true → LBlocked p.s t) ∧
      (hasWait (prog t) = false → p.s.pc t = .fin ∧ p.prog t = []) :=
  final_short n c prog log p h hst hshort

/-! ### The naive statement "updates sum to at least the count ⇒ all waiters return" is false -/

/-- one thread: `wait ; count_down(1)` on latch(1) -/
def progSelf : Nat → List Op := fun t => if t = 0 then [.wait, .cd 1] else []

/-- thread 0 `wait`, thread 1 `count_down(2)` on latch(1) -/
def progOver : Nat → List Op := fun t => if t = 0 then [.wait] else if t = 1 then [.cd 2] else []

/-- the updates sum to the count, but the only `count_down` is sequenced behind the thread's own
    `wait`: a maximal run ends with the thread parked (so `progFree`, not `progTotal`, is the right
    quantity in `C09u_latch_covered_all_return`) -/
theorem C09u_latch_naive_false_self_wait :
    (progTotal 1 progSelf : Int) ≥ 1 ∧ progFree 1 progSelf = 0 ∧
    ∃ log p, runLog pstep (pinit 1 1 progSelf) log = some p ∧ PStuck p ∧ LBlocked p.s 0 := by
  refine ⟨by decide, by decide, [.inv 0 .wait, .slAcq 0, .mustwait 0 1 false, .cvEnq 0 1, .slRel 0, .suspend 0],
    _, rfl, ?_, ?_⟩
  · apply pstuck_of_rest
    · rfl
    · intro t ht
      have : t = 0 := by simp [pinit, init] at ht; omega
      subst this; right; simp [upd, pinit, init]
  · simp [LBlocked, upd, pinit, init]

/-- the updates exceed the count in one step (precondition of `count_down` violated): the counter
    goes 1 → -1, is never seen at zero, `notified_` stays false and the waiter is parked for ever
    (so `progTotal ≤ count` is needed in `C09u_latch_covered_all_return`) -/
theorem C09u_latch_naive_false_overshoot :
    (progFree 2 progOver : Int) ≥ 1 ∧
    ∃ log p, runLog pstep (pinit 2 1 progOver) log = some p ∧ PStuck p ∧ LBlocked p.s 0 ∧
      p.s.counter = -1 := by
  refine ⟨by decide, [.inv 0 .wait, .slAcq 0, .mustwait 0 1 false, .cvEnq 0 1, .slRel 0, .suspend 0,
      .inv 1 (.cd 2), .dec 1 (-1) 2, .ret 1 false, .done 1],
    _, rfl, ?_, ?_, rfl⟩
  · apply pstuck_of_rest
    · rfl
    · intro t ht
      have : t = 0 ∨ t = 1 := by simp [pinit, init] at ht; omega
      rcases this with rfl | rfl
      · right; simp [upd, pinit, init]
      · left; simp [upd, pinit, init]
  · simp [LBlocked, upd, pinit, init]

/-! ### Non-vacuity -/

/-- latch(2), three threads: `wait`, `count_down(1) ; wait`, `arrive_and_wait(1)` — covered -/
def progOk : Nat → List Op := fun t =>
  if t = 0 then [.wait] else if t = 1 then [.cd 1, .wait] else if t = 2 then [.aw 1] else []

example : (progTotal 3 progOk : Int) ≤ 2 ∧ (2 : Int) ≤ progFree 3 progOk := by decide
example : bound 3 progOk = 52 := by decide

/-- a complete accepted run of `progOk` in which thread 0 blocks, thread 2 blocks in
    `arrive_and_wait`, thread 1's `count_down` reaches zero and its notify loop wakes both -/
def runOk : List Ev :=
  [.inv 0 .wait, .slAcq 0, .mustwait 0 2 false, .cvEnq 0 1, .slRel 0, .suspend 0,
   .inv 2 (.aw 1), .slAcq 2, .dec 2 1 1, .cvEnq 2 2, .slRel 2, .suspend 2,
   .inv 1 (.cd 1), .dec 1 0 1, .slAcq 1, .notified 1 false, .popResume 1 1 0, .slRel 1,
   .slAcq 1, .popResume 1 0 2, .slRel 1, .ret 1 false,
   .inv 1 .wait, .slAcq 1, .nowait 1 0 true, .slRel 1, .ret 1 false, .done 1,
   .woke 0, .slAcq 0, .cvWoke 0 false, .slRel 0, .ret 0 false, .done 0,
   .woke 2, .slAcq 2, .cvWoke 2 false, .slRel 2, .ret 2 false, .done 2]

example : (runLog pstep (pinit 3 2 progOk) runOk).isSome = true := by decide
example : runOk.length = 40 := by decide

/-- the hypotheses of `C09u_latch_covered_all_return` are satisfiable by a real maximal run -/
example : ∃ log p, runLog pstep (pinit 3 2 progOk) log = some p ∧ PStuck p ∧
    (progTotal 3 progOk : Int) ≤ 2 ∧ (2 : Int) ≤ progFree 3 progOk := by
  obtain ⟨ext, p', h, hst, _⟩ := C09u_latch_maximal_exists 3 2 progOk [] _ rfl
  exact ⟨_, p', h, hst, by decide, by decide⟩

/-- a short program: latch(2), `wait` and `count_down(1)` -/
def progShort : Nat → List Op := fun t => if t = 0 then [.wait] else if t = 1 then [.cd 1] else []

example : ∃ log p, runLog pstep (pinit 2 2 progShort) log = some p ∧ PStuck p ∧
    (progTotal 2 progShort : Int) < 2 ∧ hasWait (progShort 0) = true ∧ hasWait (progShort 1) = false := by
  obtain ⟨ext, p', h, hst, _⟩ := C09u_latch_maximal_exists 2 2 progShort [] _ rfl
  exact ⟨_, p', h, hst, by decide, by decide, by decide⟩

/-- the measure of the model along the notify loop: popping a queued waiter pays for the iteration -/
example : mu (init 2 1) = 2 := by decide

end PikaVerif.C09uLatch
