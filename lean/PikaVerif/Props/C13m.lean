import PikaVerif.Props.C13
import PikaVerif.Lemmas.JoinOwn
/-!
# C13 follow-up (C13m) — handle operations of `pika::thread` / `pika::jthread`

Move construction, move assignment, `swap`, `detach`, destruction of `pika::thread` handles and the
`jthread` destructor's `joinable()` test, over *all* accepted logs of the model `PikaVerif.Join`
(which now has the events `mvCtor mvAssign mvTerm swap dtorOk dtorTerm jtSkip` and the ghost map
`owner : task ↦ handle`).  `std::terminate` (destroying, or move-assigning onto, a joinable handle) is
an *error event* (`dtorTerm`, `mvTerm`, counted in `errs`); the harness must never see one on a legal
program (the driver reports it).

Second part: interruption of a task that is blocked inside `thread::join` (model `IJ` below, with the
machine-checked counterexample for the pinned code and the theorems for what does hold).
-/
namespace PikaVerif.C13m
open PikaVerif PikaVerif.Join PikaVerif.C13

theorem own_of_reachable {s : St} (h : Reachable s) : OwnInv s := by
  obtain ⟨log, hl⟩ := h
  exact own_of_accepted hl

/-! ## exactly one handle owns a running thread -/

/-- **At most one handle refers to a thread**, at any time, whatever moves / swaps / joins happened. -/
theorem C13m_unique_owner (s : St) (hr : Reachable s) (h1 h2 o : Nat)
    (a : s.hid h1 = some o) (b : s.hid h2 = some o) : h1 = h2 := by
  have ha := (own_of_reachable hr).ownHid h1 o a
  have hb := (own_of_reachable hr).ownHid h2 o b
  rw [ha] at hb
  exact Option.some.inj hb

/-- **… and at least one**: a thread that is owned by a handle stays owned by (exactly) one handle
    — possibly another one after a move or swap — until the owning handle is joined, detached or
    destroyed while joinable (the error event).  Together with `C13m_unique_owner` and
    `C13m_start_owns`: from its creation to its release a thread has exactly one owner. -/
theorem C13m_owner_kept (s s' : St) (e : Ev) (hr : Reachable s) (hs : step s e = some s') (h o : Nat)
    (ho : s.hid h = some o) : (∃ h', s'.hid h' = some o) ∨ Releases h e := by
  have hi := own_of_reachable hr
  have hr' : Reachable s' := by
    obtain ⟨log, hl⟩ := hr
    exact ⟨log ++ [e], by rw [runLog_append, hl]; simp [runLog, hs]⟩
  rcases owner_kept_aux s s' e hi hs h o (hi.ownHid h o ho) with h1 | h1
  · left
    cases hw : s'.owner o with
    | none => rw [hw] at h1; simp at h1
    | some h' => exact ⟨h', (own_of_reachable hr').hidOwn o h' hw⟩
  · exact Or.inr h1

/-- `start_thread` binds the new thread to the constructing handle; nobody owned it before. -/
theorem C13m_start_owns (s s' : St) (hr : Reachable s) (h o p : Nat) (hs : step s (.start h o p) = some s') :
    s'.hid h = some o ∧ s.hid h = none ∧ ∀ h', s.hid h' ≠ some o := by
  have hi := own_of_reachable hr
  simp only [step] at hs
  split at hs
  · rename_i hg
    simp only [Option.some.injEq] at hs; subst hs
    refine ⟨by simp, hg.1, ?_⟩
    intro h' hc
    have := hi.ownHid h' o hc
    rw [hg.2.2.2] at this
    simp at this
  · simp at hs

/-- **A thread is not joinable after join or detach — through any handle**: when `join` completes on
    (or `detach` is applied to) the handle that refers to thread `o`, no handle refers to `o` afterwards. -/
theorem C13m_released_not_joinable (s s' : St) (hr : Reachable s) (h j o : Nat) (ho : s.hid h = some o) :
    (step s (.jnDone h j) = some s' → ∀ h', s'.hid h' ≠ some o) ∧
    (∀ r, step s (.detach h j r) = some s' → ∀ h', s'.hid h' ≠ some o) := by
  have hu := C13m_unique_owner s hr
  refine ⟨?_, ?_⟩
  · intro hs h' hc
    simp only [step] at hs
    repeat' split at hs
    all_goals first
      | (simp at hs; done)
      | (simp only [Option.some.injEq] at hs; subst hs
         by_cases he : h' = h
         · subst he; simp at hc
         · simp [upd, he] at hc; exact he (hu h' h o hc ho))
  · intro r hs h' hc
    simp only [step] at hs
    split at hs
    · simp only [Option.some.injEq] at hs; subst hs
      by_cases he : h' = h
      · subst he; simp at hc
      · simp [upd, he] at hc; exact he (hu h' h o hc ho)
    · simp at hs

/-- the events that can make handle `h` joinable -/
def Rebinds (h : Nat) : Ev → Prop
  | .start h' _ _ | .mvCtor h' _ _ | .mvAssign h' _ _ => h' = h
  | .swap h' h1 _ => h' = h ∨ h1 = h
  | _ => False

/-- **… and the handle stays not joinable** until a thread is explicitly bound to it again
    (construction, move construction / assignment into it, swap with it). -/
theorem C13m_stays_not_joinable (s s' : St) (e : Ev) (hs : step s e = some s') (h : Nat)
    (hn : s.hid h = none) : s'.hid h = none ∨ Rebinds h e := by
  cases e <;> simp only [step] at hs <;> (repeat' split at hs) <;>
    first
    | (simp at hs; done)
    | (simp only [Option.some.injEq] at hs; subst hs; left; exact hn)
    | (simp only [Option.some.injEq] at hs; subst hs; simp only [Rebinds]; grind [upd])

/-- **Move construction / assignment transfers the thread**: the source becomes not joinable, the
    destination (which must not be joinable) refers to what the source referred to, nothing else changes. -/
theorem C13m_move_transfers (s s' : St) (h h1 : Nat) (o : Option Nat)
    (hs : step s (.mvCtor h h1 o) = some s' ∨ step s (.mvAssign h h1 o) = some s') :
    s.hid h = none ∧ o = s.hid h1 ∧ s'.hid h = s.hid h1 ∧ s'.hid h1 = none ∧
    (∀ h', h' ≠ h → h' ≠ h1 → s'.hid h' = s.hid h') ∧ s'.errs = s.errs ∧ s'.phase = s.phase ∧
    s'.jpc = s.jpc ∧ s'.funcs = s.funcs ∧ s'.tok = s.tok ∧ s'.mtx = s.mtx := by
  rcases hs with hs | hs <;> simp only [step] at hs <;> split at hs
  all_goals first
    | (simp at hs; done)
    | (rename_i hg
       obtain ⟨g1, g2, _, _, g5⟩ := hg
       simp only [Option.some.injEq] at hs; subst hs
       refine ⟨g2, g5, by simp [g5], by simp [upd, Ne.symm g1], ?_, rfl, rfl, rfl, rfl, rfl, rfl⟩
       intro h' a b; simp [upd, a, b])

/-- `swap` exchanges the two ids and nothing else. -/
theorem C13m_swap_exchanges (s s' : St) (h h1 : Nat) (o : Option Nat) (hs : step s (.swap h h1 o) = some s') :
    s'.hid h = s.hid h1 ∧ s'.hid h1 = s.hid h ∧ (∀ h', h' ≠ h → h' ≠ h1 → s'.hid h' = s.hid h') ∧
    s'.errs = s.errs ∧ s'.phase = s.phase ∧ s'.jpc = s.jpc ∧ s'.funcs = s.funcs ∧ s'.tok = s.tok := by
  simp only [step] at hs
  split at hs
  · rename_i hg
    obtain ⟨g1, _, _, g5⟩ := hg
    simp only [Option.some.injEq] at hs; subst hs
    refine ⟨by simp [g5], by simp [upd, Ne.symm g1], ?_, rfl, rfl, rfl, rfl, rfl⟩
    intro h' a b; simp [upd, a, b]
  · simp at hs

/-- the error events: `std::terminate` -/
def IsTerminate : Ev → Prop
  | .mvTerm _ _ | .dtorTerm _ _ => True
  | _ => False

/-- **Destroying a joinable `pika::thread` is the error event** (termination handler / `std::terminate`),
    destroying one that is not joinable is silent. -/
theorem C13m_dtor_terminates_iff_joinable (s : St) (h j : Nat) (hm : s.mtx h = none) :
    ((s.hid h).isSome = true → step s (.dtorOk h j) = none ∧ (step s (.dtorTerm h j)).isSome = true) ∧
    (s.hid h = none → step s (.dtorTerm h j) = none ∧ step s (.dtorOk h j) = some s) := by
  refine ⟨?_, ?_⟩
  · intro hj
    cases hh : s.hid h with
    | none => rw [hh] at hj; simp at hj
    | some o => simp [step, hh, hm]
  · intro hn
    simp [step, hn, hm]

/-- **Move-assigning onto a joinable handle is the error event** (`operator=` is `noexcept` and throws):
    the model accepts no transfer, only `mvTerm`. -/
theorem C13m_assign_onto_joinable_terminates (s : St) (h h1 : Nat) (hj : (s.hid h).isSome = true) :
    (∀ o, step s (.mvAssign h h1 o) = none) ∧
    (h ≠ h1 → s.mtx h = none → s.mtx h1 = none → (step s (.mvTerm h h1)).isSome = true) := by
  cases hh : s.hid h with
  | none => rw [hh] at hj; simp at hj
  | some t =>
    refine ⟨?_, ?_⟩
    · intro o; simp [step, hh]
    · intro a b c; simp [step, hh, a, b, c]

/-- `errs` counts exactly the error events; an error event is accepted only on a joinable handle. -/
theorem C13m_terminate_counted (s s' : St) (e : Ev) (hs : step s e = some s') :
    (¬ IsTerminate e ∧ s'.errs = s.errs) ∨ (IsTerminate e ∧ s'.errs = s.errs + 1) := by
  cases e <;> simp only [step] at hs <;> (repeat' split at hs) <;>
    first
    | (simp at hs; done)
    | (simp only [Option.some.injEq] at hs; subst hs; simp [IsTerminate])

/-- A log without error events ends with `errs = 0` (what the driver checks on every run). -/
theorem C13m_legal_no_terminate (log : List Ev) (s : St) (hl : runLog step init log = some s)
    (hlegal : ∀ e ∈ log, ¬ IsTerminate e) : s.errs = 0 := by
  have gen : ∀ (log : List Ev) (s0 s : St), runLog step s0 log = some s → (∀ e ∈ log, ¬ IsTerminate e) →
      s.errs = s0.errs := by
    intro log
    induction log with
    | nil => intro s0 s h _; simp at h; rw [h]
    | cons e es ih =>
      intro s0 s h hl
      simp only [runLog] at h
      cases hs : step s0 e with
      | none => rw [hs] at h; simp at h
      | some s1 =>
        rw [hs] at h
        have h1 := ih s1 s h (fun e' he' => hl e' (List.mem_cons_of_mem _ he'))
        rcases C13m_terminate_counted s0 s1 e hs with ⟨_, h2⟩ | ⟨h2, _⟩
        · rw [h1, h2]
        · exact absurd h2 (hl e (List.mem_cons_self))
  have := gen log init s hl hlegal
  simpa [init] using this

/-! ## jthread -/

/-- **The jthread destructor requests stop and joins iff the jthread is joinable**: the branch
    `request_stop(); join()` is entered only with a joinable handle, the other branch (`jt.skip`) only with
    one that is not joinable and changes nothing.  What happens inside the first branch is
    `C13_jthread_stop_before_join` / `C13_jthread_dtor` (stop request, then join on this handle, which
    returns after the thread function of the thread the handle referred to). -/
theorem C13m_jthread_dtor_iff_joinable (s s' : St) (h j : Nat) :
    (step s (.jtDtor h j) = some s' → (s.hid h).isSome = true ∧ s'.dt j = some (h, false)) ∧
    (step s (.jtSkip h j) = some s' → s.hid h = none ∧ s' = s) := by
  refine ⟨?_, ?_⟩
  · intro hs
    simp only [step] at hs
    split at hs
    · rename_i hg
      simp only [Option.some.injEq] at hs; subst hs
      exact ⟨hg.2.2.2, by simp⟩
    · simp at hs
  · intro hs
    simp only [step] at hs
    split at hs
    · rename_i hg
      simp only [Option.some.injEq] at hs
      exact ⟨hg.1, hs.symm⟩
    · simp at hs

/-- **jthread move**: after `jthread(jthread&&)` (= move construction of the `thread_` member) the
    destructor of the moved-from jthread cannot enter the stop-and-join branch, the destructor of the
    moved-to jthread enters it iff a thread was transferred. -/
theorem C13m_jthread_moved_from_skips (s s' : St) (h h1 : Nat) (o : Option Nat)
    (hs : step s (.mvCtor h h1 o) = some s') (j : Nat) :
    step s' (.jtDtor h1 j) = none ∧ (o = none → step s' (.jtDtor h j) = none) := by
  have ht := C13m_move_transfers s s' h h1 o (Or.inl hs)
  obtain ⟨_, g2, g3, g4, _⟩ := ht
  refine ⟨by simp [step, g4], ?_⟩
  intro ho
  rw [ho] at g2
  simp [step, g3, ← g2]


/-! ## Interruption of a task that is blocked inside `thread::join`

`thread::join` suspends with `this_thread::suspend(suspended)`, which tests for an interruption before
and after the context switch; `interrupt()` on the joiner sets the request and wakes it
(`set_thread_state(pending, abort)`), so a joiner blocked in `join` is interrupted there: the exception
leaves `join` before `detach_locked()` (the handle stays joinable).  **The callback
`resume_thread(joiner)` that `join` registered on the target is not withdrawn** (and holds the raw, not
reference-counted id of the joiner).  `IJ` is the model of exactly this protocol for one joiner task
and any number of targets, following the code as it is. -/
namespace IJ

inductive JSt where
  | idle                       -- running user code (outside join)
  | waiting (o a : Nat)        -- suspended in `join` on target `o`, attempt number `a`
  deriving DecidableEq, Repr

structure St where
  j : JSt := .idle
  att : Nat := 0                        -- number of join attempts started
  running : Nat → Bool := fun _ => true -- the target's thread function has not returned
  cb : Nat → Bool := fun _ => false     -- the joiner's exit callback is registered on the target
  joinable : Nat → Bool := fun _ => true -- the target's handle
  tok : Nat := 0                        -- wake-ups aimed at the joiner and not yet consumed
  req : Bool := false                   -- `requested_interrupt_` of the joiner
  completed : List Nat := []            -- history: attempts that returned normally
  abandoned : List Nat := []            -- history: attempts that ended with `thread_interrupted`
  early : Bool := false                 -- history: a join returned while its target was still running

inductive Ev where
  | joinReg (o : Nat)      -- lock, joinable, callback accepted, unlock, suspend
  | joinRefused (o : Nat)  -- callback refused (target done): join returns at once
  | reqIntr                -- `interrupt()` on the joiner
  | intr                   -- the interruption point inside `suspend` throws
  | exit (o : Nat)         -- target `o` returns and runs its exit callbacks
  | wake                   -- the suspension returns normally; `detach_locked()`
  deriving Repr

def step (s : St) : Ev → Option St
  | .joinReg o =>
    if s.j = .idle ∧ s.joinable o = true ∧ s.running o = true ∧ s.req = false then
      some { s with j := .waiting o s.att, att := s.att + 1, cb := upd s.cb o true }
    else none
  | .joinRefused o =>
    if s.j = .idle ∧ s.joinable o = true ∧ s.running o = false ∧ s.req = false then
      some { s with att := s.att + 1, completed := s.att :: s.completed, joinable := upd s.joinable o false }
    else none
  | .reqIntr => some { s with req := true }
  | .intr =>
    match s.j with
    | .waiting _ a => if s.req = true then
        -- the callback stays registered (code as it is)
        some { s with j := .idle, req := false, abandoned := a :: s.abandoned }
      else none
    | .idle => none
  | .exit o =>
    if s.running o = true then
      some { s with running := upd s.running o false, cb := upd s.cb o false,
                    tok := if s.cb o then s.tok + 1 else s.tok }
    else none
  | .wake =>
    match s.j with
    | .waiting o a => if 0 < s.tok ∧ s.req = false then
        some { s with j := .idle, tok := s.tok - 1, completed := a :: s.completed,
                      joinable := upd s.joinable o false, early := s.early || s.running o }
      else none
    | .idle => none

def waitsOn : JSt → Nat → Bool
  | .waiting o _, o' => o == o'
  | .idle, _ => false

def attOf : JSt → Option Nat
  | .waiting _ a => some a
  | .idle => none

/-- invariant for "interrupted xor completed" -/
structure Inv (s : St) : Prop where
  cLt : ∀ x ∈ s.completed, x < s.att
  aLt : ∀ x ∈ s.abandoned, x < s.att
  disj : ∀ x, x ∈ s.completed → x ∈ s.abandoned → False
  cur : ∀ a, attOf s.j = some a → a < s.att ∧ a ∉ s.completed ∧ a ∉ s.abandoned

/-- invariant of the runs in which no join was interrupted -/
structure Clean (s : St) : Prop where
  cbWait : ∀ o, s.cb o = true → waitsOn s.j o = true ∧ s.running o = true
  tokLe : s.tok ≤ 1
  tokWait : s.tok = 1 → ∃ o, waitsOn s.j o = true ∧ s.running o = false
  notEarly : s.early = false

end IJ

theorem IJ.inv_step (s s' : IJ.St) (e : IJ.Ev) (hi : IJ.Inv s) (hs : IJ.step s e = some s') : IJ.Inv s' := by
  obtain ⟨h1, h2, h3, h4⟩ := hi
  cases e <;> simp only [IJ.step] at hs <;> (repeat' split at hs) <;>
    first
    | (simp at hs; done)
    | (simp only [Option.some.injEq] at hs; subst hs
       refine ⟨?_, ?_, ?_, ?_⟩ <;> simp_all [IJ.attOf] <;> grind)

theorem IJ.inv_of_accepted {log : List IJ.Ev} {s : IJ.St} (h : runLog IJ.step {} log = some s) : IJ.Inv s :=
  inv_of_runLog IJ.Inv (fun s e s' => IJ.inv_step s s' e)
    ⟨by simp, by simp, by simp, by simp [IJ.attOf]⟩ h

/-- **The joiner either observes the interruption or completes the join, never both**: over all
    accepted logs no join attempt is recorded both as completed and as abandoned. -/
theorem C13m_intr_xor_complete (log : List IJ.Ev) (s : IJ.St) (h : runLog IJ.step {} log = some s) (a : Nat) :
    ¬ (a ∈ s.completed ∧ a ∈ s.abandoned) := fun ⟨h1, h2⟩ => (IJ.inv_of_accepted h).disj a h1 h2

/-- **An interrupted join leaves the handle joinable and changes nothing else** (the exception leaves
    `join` before `detach_locked()`); in the code as it is the callback stays registered, too. -/
theorem C13m_intr_keeps_joinable (s s' : IJ.St) (hs : IJ.step s .intr = some s') :
    ∃ o a, s.j = .waiting o a ∧ s.req = true ∧ s'.j = .idle ∧ s'.joinable = s.joinable ∧ s'.completed = s.completed ∧
      s'.abandoned = a :: s.abandoned ∧ s'.cb = s.cb ∧ s'.tok = s.tok := by
  simp only [IJ.step] at hs
  split at hs
  · rename_i o a hj
    split at hs
    · rename_i hr
      simp only [Option.some.injEq] at hs; subst hs
      exact ⟨o, a, hj, hr, rfl, rfl, rfl, rfl, rfl, rfl⟩
    · simp at hs
  · simp at hs

/-- the failing history, as reproduced on the real code (`e2_join 1 0 joinintr 1 --pika:threads=3`,
    findings/C13m-interrupted-join-stale-callback.json): join on 1 interrupted, join on 2 started, 1 exits
    and runs the callback left behind, the join on 2 returns although 2 is still running -/
def IJ.witness : List IJ.Ev := [.joinReg 1, .reqIntr, .intr, .joinReg 2, .exit 1, .wake]

/-- **Counterexample for the code as it is** (machine-checked): the exit callback left behind by an
    interrupted join is *not* harmless — it releases a later join of the same task whose target is still
    running.  The full statement "∀ accepted log, `early = false`" (join returns only after the thread
    function returned, also after interrupted joins) is therefore false of the pinned tree; what holds is
    the `_partial` below. -/
theorem C13m_interrupted_join_stale_wake :
    ∃ s, runLog IJ.step {} IJ.witness = some s ∧ s.early = true ∧ s.running 2 = true ∧
      s.completed = [1] ∧ s.abandoned = [0] ∧ s.joinable 2 = false := by
  refine ⟨_, rfl, ?_⟩
  decide

theorem IJ.clean_step (s s' : IJ.St) (e : IJ.Ev) (hne : e ≠ .intr) (hi : IJ.Clean s)
    (hs : IJ.step s e = some s') : IJ.Clean s' := by
  obtain ⟨h1, h2, h3, h4⟩ := hi
  cases e <;> simp only [IJ.step] at hs <;> (repeat' split at hs) <;>
    first
    | (simp at hs; done)
    | (exact absurd rfl hne)
    | (simp only [Option.some.injEq] at hs; subst hs
       refine ⟨?_, ?_, ?_, ?_⟩ <;> dsimp only <;> simp_all [IJ.waitsOn, upd] <;> grind [upd, IJ.waitsOn])

/-- **`_partial`: without an interrupted join, join returns only after the thread function returned**
    (logs that contain no `intr` event: every join that completed found its target finished, no wake-up
    is left over).  FULL statement (false, see `C13m_interrupted_join_stale_wake`):
    `∀ log s, runLog IJ.step {} log = some s → s.early = false`.  Missing: the callback of an abandoned
    join is neither withdrawn nor made ineffective by `thread::join`. -/
theorem C13m_join_after_exit_partial (log : List IJ.Ev) (s : IJ.St) (h : runLog IJ.step {} log = some s)
    (hclean : ∀ e ∈ log, e ≠ .intr) : s.early = false ∧ (s.j = .idle → s.tok = 0 ∧ ∀ o, s.cb o = false) := by
  have gen : ∀ (log : List IJ.Ev) (s0 s : IJ.St), IJ.Clean s0 → runLog IJ.step s0 log = some s →
      (∀ e ∈ log, e ≠ .intr) → IJ.Clean s := by
    intro log
    induction log with
    | nil => intro s0 s h0 h _; simp at h; exact h ▸ h0
    | cons e es ih =>
      intro s0 s h0 h hl
      simp only [runLog] at h
      cases hs : IJ.step s0 e with
      | none => rw [hs] at h; simp at h
      | some s1 =>
        rw [hs] at h
        exact ih s1 s (IJ.clean_step s0 s1 e (hl e List.mem_cons_self) h0 hs) h
          (fun e' he' => hl e' (List.mem_cons_of_mem _ he'))
  have hc := gen log {} s ⟨by simp, by simp, by simp, rfl⟩ h hclean
  refine ⟨hc.notEarly, ?_⟩
  intro hj
  refine ⟨?_, ?_⟩
  · have := hc.tokLe
    have h3 := hc.tokWait
    by_cases ht : s.tok = 1
    · obtain ⟨o, ho, _⟩ := h3 ht
      rw [hj] at ho; simp [IJ.waitsOn] at ho
    · omega
  · intro o
    cases hcb : s.cb o with
    | false => rfl
    | true =>
      have := (hc.cbWait o hcb).1
      rw [hj] at this; simp [IJ.waitsOn] at this

/-! ## Non-vacuity -/

/-- move construction, then join through the new handle; the old one reports `invalid_status` -/
example : (runLog step init
    [.body 1, .start 1 2 1, .body 2, .mvCtor 2 1 (some 2), .joinable 1 1 false, .dtorOk 1 1, .jnLock 2 1,
     .jnChecked 2 1 2, .ipMiss 1, .ecAdd 2 1 1, .jnUnlock 2 1, .jnSusp 2 1, .bodyDone 2, .ecBegin 2 1,
     .ecTake 2 0, .resume 1 2, .ecNext 2 0, .ecRan 2, .jnWoke 2 1, .jnDone 2 1, .joinable 2 1 false,
     .dtorOk 2 1]).isSome = true := by decide

/-- swap of a joinable and an empty handle, move assignment back -/
example : (runLog step init
    [.body 1, .start 1 2 1, .swap 1 3 none, .joinable 1 1 false, .joinable 3 1 true, .mvAssign 1 3 (some 2),
     .detach 1 1 true, .dtorOk 1 1, .dtorOk 3 1]).isSome = true := by decide

/-- the error events are reachable in the model (a program that destroys a joinable thread) -/
example : ∃ s, runLog step init [.body 1, .start 1 2 1, .joinable 1 1 true, .dtorTerm 1 1] = some s ∧
    s.errs = 1 ∧ s.hid 1 = none := by
  refine ⟨_, rfl, ?_⟩
  decide

/-- a handle moved away while another task is suspended in `join` on it: the join completes, the new
    handle is still joinable and a second join through it returns at once -/
example : (runLog step init
    [.body 1, .body 3, .start 1 2 1, .body 2, .jnLock 1 1, .jnChecked 1 1 2, .ipMiss 1, .ecAdd 2 1 1,
     .jnUnlock 1 1, .jnSusp 1 1, .mvCtor 2 1 (some 2), .bodyDone 2, .ecBegin 2 1, .ecTake 2 0, .resume 1 2,
     .ecNext 2 0, .ecRan 2, .jnWoke 1 1, .jnDone 1 1, .joinable 2 3 true, .jnLock 2 3, .jnChecked 2 3 2,
     .ipMiss 3, .ecAdd 2 3 0, .jnDone 2 3]).isSome = true := by decide

end PikaVerif.C13m
