import PikaVerif.Lemmas.Elastic
import PikaVerif.Lemmas.ElasticGen
import PikaVerif.Lemmas.ElasticRefuse
import PikaVerif.Props.C01
/-!
# C19 — suspending and resuming pools or workers never loses work

Theorems about the model `PikaVerif.Elastic` (one pool: per worker `runtime_state`, pu mutex,
sleep path of the scheduling loop, `scheduler_base::{suspend, resume, select_active_pu}`,
`suspend_processing_unit_internal`, `resume_processing_unit_direct`, the pool-level unlocked CAS of
`suspend_internal`, the queue length counters) for **every** accepted log, i.e. every number of
workers, submitters, suspenders and resumers and every interleaving of the instrumented steps.

Vocabulary.  A *placement* is the increment of a queue counter of worker `w` by an actor.  It is
*guarded* when the actor holds `w`'s pu mutex after `select_active_pu` saw `state ≤ suspended`
without escalation.  `late w` bounds the entries of `w`'s queues that were placed unguarded since
the worker's last emptiness check; `dirty w` records that `w` was moved to `pre_sleep` by the pool
suspend's CAS that does not take the pu mutex.

Liveness clauses ("the calls return", "after resume it runs") are stated as solo-completion
theorems: from every reachable state of the hand-shake there is a short continuation consisting of
steps of the thread that owes the next step (and, for resume, one more `notify` of the resume loop)
after which the caller's exit condition holds.
-/
namespace PikaVerif.C19
open PikaVerif PikaVerif.Elastic

def Reachable (cfg : Cfg) (s : St) : Prop := ∃ log, runLog step (init cfg) log = some s

theorem inv_of_reachable {cfg : Cfg} {s : St} (h : Reachable cfg s) : Inv s := by
  obtain ⟨log, hl⟩ := h
  exact inv_of_accepted hl

theorem cfg_of_reachable {cfg : Cfg} {s : St} (h : Reachable cfg s) : s.cfg = cfg := by
  obtain ⟨log, hl⟩ := h
  have : ∀ (l : List Ev) (s0 s1 : St), runLog step s0 l = some s1 → s1.cfg = s0.cfg := by
    intro l
    induction l with
    | nil => intro s0 s1 h; simp at h; subst h; rfl
    | cons e es ih =>
      intro s0 s1 h
      simp only [runLog] at h
      cases hs : step s0 e with
      | none => simp [hs] at h
      | some s2 => simp only [hs] at h; rw [ih s2 s1 h, step_cfg s0 s2 e hs]
  exact this log _ _ hl

/-! ## No task is stranded -/

/-- **A guarded placement lands on a schedulable worker.**  Whenever the model accepts a placement
    on worker `w` by an actor that holds `w`'s pu mutex from a non-escalated `select_active_pu`,
    the worker's state is still `≤ suspended` at that very moment (not merely when it was tested) —
    unless a pool suspend changed the state behind the mutex' back (`dirty`). -/
theorem C19_guarded_placement_running (cfg : Cfg) (s s' : St) (hr : Reachable cfg s) (a w : Nat)
    (_h : step s (.inc a w) = some s') (hg : (s.wk w).lk = some (a, .sel true))
    (hd : (s.wk w).dirty = false) : (s.wk w).st ≤ rsSuspended := by
  have hi := (inv_of_reachable hr) w
  cases hi.selRun a hg with
  | inl h1 => exact h1
  | inr h1 => rw [hd] at h1; cases h1

/-- **A worker goes to sleep only with its queues empty of guarded work.**  In every reachable
    state in which worker `w` has committed to sleeping (it is past the final test, storing
    `sleeping`, waiting, or just woken), every entry counted in its queues was placed there
    *unguarded* after the worker's final emptiness check: `q ≤ late`.  (No claim for a worker put to
    sleep by the unlocked pool-suspend CAS.) -/
theorem C19_sleeping_queue_late (cfg : Cfg) (s : St) (hr : Reachable cfg s) (w : Nat)
    (hpc : (s.wk w).pc ≠ .loop) (hd : (s.wk w).dirty = false) : (s.wk w).q ≤ (s.wk w).late :=
  ((inv_of_reachable hr) w).strand (Or.inr hpc) hd

/-- the same at the moment `sleeping` is stored -/
theorem C19_sleep_with_empty_queue (cfg : Cfg) (s s' : St) (hr : Reachable cfg s) (w : Nat)
    (h : step s (.sleep w) = some s') (hd : (s.wk w).dirty = false) :
    (s.wk w).st = rsPreSleep ∧ (s.wk w).q ≤ (s.wk w).late := by
  have hi := (inv_of_reachable hr) w
  simp only [step] at h
  split at h
  · rename_i hc
    exact ⟨hi.commitSt hc, hi.strand (Or.inr (by rw [hc]; decide)) hd⟩
  · simp at h

/-- **No stranding.**  In every reachable state, if worker `w`'s queues hold work then either
    * `w` is in its scheduling loop (running, or draining its own queue in `pre_sleep` — it cannot
      leave the loop before it has seen the queue empty), or
    * `w` is on the sleep path; then its state is `pre_sleep`/`sleeping` (a resume is owed and
      `C19_resume_returns` shows it brings the worker back into the loop), and — unless the pool
      suspend's unlocked CAS was involved — all of that work was placed unguarded after the final
      emptiness check (`q ≤ late`): guarded placements never end up on a sleeping worker. -/
theorem C19_no_strand (cfg : Cfg) (s : St) (hr : Reachable cfg s) (w : Nat) (_hq : 0 < (s.wk w).q) :
    (s.wk w).pc = .loop ∨
    ((s.wk w).pc ≠ .loop ∧ ((s.wk w).st = rsPreSleep ∨ (s.wk w).st = rsSleeping) ∧
      ((s.wk w).dirty = true ∨ (s.wk w).q ≤ (s.wk w).late)) := by
  have hi := (inv_of_reachable hr) w
  by_cases hl : (s.wk w).pc = .loop
  · exact Or.inl hl
  · refine Or.inr ⟨hl, ?_, ?_⟩
    · by_cases hc : (s.wk w).pc = .commit
      · exact Or.inl (hi.commitSt hc)
      · exact Or.inr (hi.sleepSt hl hc)
    · cases hd : (s.wk w).dirty with
      | true => exact Or.inl rfl
      | false => exact Or.inr (hi.strand (Or.inr hl) hd)

/-- A sleeping worker is exactly one that is inside `scheduler_base::suspend`, and a worker that is
    inside it (after the store) is `sleeping`: the state word never lies about the thread. -/
theorem C19_sleeping_iff_in_suspend (cfg : Cfg) (s : St) (hr : Reachable cfg s) (w : Nat) :
    (s.wk w).st = rsSleeping ↔ ((s.wk w).pc ≠ .loop ∧ (s.wk w).pc ≠ .commit) := by
  have hi := (inv_of_reachable hr) w
  exact ⟨hi.stPc, fun h => hi.sleepSt h.1 h.2⟩

/-! ## No duplication (C01's token discipline; the same logs are replayed through `Sched`) -/

/-- Suspending/resuming workers adds no way to run a task twice: activation of a task object is
    still exclusive (theorem of C01 about the scheduler protocol model, which the E2 logs of the
    suspend/resume histories are also replayed through). -/
theorem C19_no_dup (s s' : Sched.St) (hr : C01.Reachable s) (a o : Nat) (b af : Sched.W)
    (h : Sched.step s (.tagged a o b af) = some s') :
    (s.obj o).w.st = Sched.sPending ∧ (s.obj o).owner = none ∧ (s.obj o).holder = some a ∧
    (s.obj o).q = 0 ∧ (s.obj o).pusher = none ∧ (s'.obj o).owner = some a :=
  C01.C01_activation_exclusive s s' hr a o b af h

/-! ## The calls return -/

/-- **`suspend_processing_unit` returns.**  From every reachable state in which worker `w` has been
    asked to sleep (`pre_sleep`) and its queues are empty, at most four steps of the worker alone
    (loop-top sample, queue length, final test, store) make it `sleeping` and empty the set of
    suspenders that still have to wait — after that every suspender's exit test succeeds. -/
theorem C19_suspend_returns (cfg : Cfg) (s : St) (hr : Reachable cfg s) (w a : Nat)
    (hst : (s.wk w).st = rsPreSleep) (ha : (s.wk w).actor = some a) (hq : (s.wk w).q = 0)
    (hlow : w = s.cfg.last → s.lowq = 0) :
    ∃ evs s', evs.length ≤ 4 ∧ runLog step s evs = some s' ∧ (s'.wk w).st = rsSleeping ∧
      (s'.wk w).waiters = [] ∧ ∀ b, (step s' (.sdone b w rsSleeping)).isSome = true := by
  have hi := (inv_of_reachable hr) w
  by_cases hl : (s.wk w).pc = .loop
  · refine ⟨[.top w rsPreSleep, .qlen a w 0, .chk w rsPreSleep true, .sleep w], ?_⟩
    by_cases hw : w = s.cfg.last
    · have h0 := hlow hw
      simp [runLog, step, hst, hl, ha, hq, upd, h0]
    · simp [runLog, step, hst, hl, ha, hq, upd, hw]
  · by_cases hc : (s.wk w).pc = .commit
    · refine ⟨[.sleep w], ?_⟩
      simp [runLog, step, hc, upd]
    · have := hi.sleepSt hl hc
      rw [hst] at this
      cases this

/-- a suspender that moved the worker to `pre_sleep` cannot return before the worker has stored
    `sleeping` (it is in `waiters` until then, and `waiters ≠ []` implies `pre_sleep`) -/
theorem C19_suspend_return_sound (cfg : Cfg) (s s' : St) (hr : Reachable cfg s) (a w v : Nat)
    (h : step s (.sdone a w v) = some s') : a ∉ (s.wk w).waiters ∧
      ((s.wk w).waiters ≠ [] → (s.wk w).st = rsPreSleep) := by
  have hi := (inv_of_reachable hr) w
  simp only [step] at h
  split at h
  · rename_i hg; exact ⟨hg, hi.waitPre⟩
  · simp at h

/-- **`resume_processing_unit` returns, and the lost-notify window is covered.**  From every
    reachable state in which worker `w` is `sleeping` — including the window between
    `store(sleeping)` and `wait`, in which a notify is lost — a continuation of at most four steps
    (the worker entering `wait` if it has not yet, one more `notify` of the resume loop, the wake-up,
    the CAS) brings it back to `running` inside its scheduling loop, where the resume loop's test
    `state == sleeping` fails (the call returns) and the worker serves its queue again. -/
theorem C19_resume_returns (cfg : Cfg) (s : St) (hr : Reachable cfg s) (w a : Nat)
    (hst : (s.wk w).st = rsSleeping) :
    ∃ evs s', evs.length ≤ 4 ∧ runLog step s evs = some s' ∧ (s'.wk w).st = rsRunning ∧
      (s'.wk w).pc = .loop ∧ (s'.wk w).q = (s.wk w).q ∧
      (step s' (.rload a w rsRunning)).isSome = true := by
  have hi := (inv_of_reachable hr) w
  have hp := hi.stPc hst
  cases hpc : (s.wk w).pc with
  | loop => exact absurd hpc hp.1
  | commit => exact absurd hpc hp.2
  | stored =>
    refine ⟨[.wait w, .notify a w, .woke w, .wake w rsSleeping rsRunning], ?_⟩
    simp [runLog, step, hpc, hst, upd]
  | waiting =>
    refine ⟨[.notify a w, .woke w, .wake w rsSleeping rsRunning], ?_⟩
    simp [runLog, step, hpc, hst, upd]
  | woken =>
    refine ⟨[.wake w rsSleeping rsRunning], ?_⟩
    simp [runLog, step, hpc, hst, upd]

/-- a notify that arrives between `store(sleeping)` and `wait` changes nothing (it is lost) — which
    is why `resume_processing_unit_direct` has to keep notifying (`C19_resume_returns` starts from
    exactly this state as well) -/
theorem C19_lost_notify (s : St) (w a : Nat) (hpc : (s.wk w).pc = .stored) :
    step s (.notify a w) = some s := by
  simp [step, hpc]

/-- the resume loop exits only on a state other than `sleeping` actually read from the worker -/
theorem C19_resume_return_sound (s s' : St) (a w v : Nat) (h : step s (.rload a w v) = some s') :
    v = (s.wk w).st ∧ s' = s := by
  simp only [step] at h
  split at h
  · rename_i hg; simp at h; exact ⟨hg, h.symm⟩
  · simp at h

/-! ## Unsupported operations are refused and leave the pool running -/

/-- **A refused call does nothing.**  After the refusal note of an actor (error set) and until its
    call returns, the model of the *fixed* tree (`refuseReturns`) accepts from that actor neither the
    pu-mutex acquisition of `suspend_processing_unit_internal` nor the pool suspend's CAS; the only
    other state-changing step of a suspender, the locked CAS, needs that acquisition. -/
theorem C19_refused_leaves_running (cfg : Cfg) (s : St) (hr : Reachable cfg s)
    (hc : cfg.refuseReturns = true) (a : Nat) (ha : s.apc a = .refused) (w b af : Nat) :
    step s (.slock a w) = none ∧ step s (.ucas a w b af) = none ∧
    (∀ s', step s (.cas a w b af) = some s' → (s.wk w).lk = some (a, .susp)) := by
  have hcfg := cfg_of_reachable hr
  refine ⟨?_, ?_, ?_⟩
  · simp [step, mayAct, ha, hcfg, hc]
  · simp [step, mayAct, ha, hcfg, hc]
  · intro s' h
    simp only [step] at h
    split at h
    · rename_i hg; exact hg.1
    · simp at h

/-- **A refused call changes nothing, for the whole window until it returns.**  From a reachable
    state of the fixed tree in which actor `a` has just been refused (and, being at the entry of the
    API function, holds no pu mutex for a suspension), after *any* accepted continuation that does
    not contain `a`'s return, the model accepts from `a` none of the three steps by which a
    suspender can act on a worker: taking the pu mutex for a suspension, the locked CAS and the
    pool suspend's unlocked CAS.  Hence no worker state is ever changed on behalf of a refused call. -/
theorem C19_refused_window (cfg : Cfg) (s s' : St) (hr : Reachable cfg s) (hc : cfg.refuseReturns = true)
    (a : Nat) (ha : s.apc a = .refused) (hn : NoSusp s a) (log : List Ev)
    (h : runLog step s log = some s') (hnot : Ev.ret a ∉ log) (w b af : Nat) :
    step s' (.slock a w) = none ∧ step s' (.cas a w b af) = none ∧ step s' (.ucas a w b af) = none := by
  have hcfg := cfg_of_reachable hr
  obtain ⟨ha', hn', hc'⟩ := refused_log a log s s' (by rw [hcfg]; exact hc) ha hn h hnot
  have hm : mayAct s' a = false := by simp [mayAct, ha', hc']
  refine ⟨?_, ?_, ?_⟩
  · simp [step, hm]
  · have := hn' w
    simp [step, this]
  · simp [step, hm]


/-- every state change of a worker by a suspender goes through `running → pre_sleep`: a suspender
    never touches a worker that is not running, and never writes anything but `pre_sleep` -/
theorem C19_suspender_only_requests (s s' : St) (a w b af : Nat)
    (h : step s (.cas a w b af) = some s' ∨ step s (.ucas a w b af) = some s') :
    b = (s.wk w).st ∧ (s'.wk w).st = (if (s.wk w).st = rsRunning then rsPreSleep else (s.wk w).st) := by
  cases h with
  | inl h =>
    simp only [step] at h
    split at h
    · rename_i hg
      simp only [Option.some.injEq] at h
      subst h
      obtain ⟨_, h2, h3⟩ := hg
      subst h2
      simp [upd, h3, casResult]
    · simp at h
  | inr h =>
    simp only [step] at h
    split at h
    · rename_i hg
      simp only [Option.some.injEq] at h
      subst h
      obtain ⟨h2, h3, _⟩ := hg
      subst h2
      simp [upd, h3, casResult]
    · simp at h

/-! ## The defect of the pinned tree (before the `fix:` commit), machine-checked

`suspend_processing_unit_direct` set the error for a pool without elasticity and then *continued*
into `suspend_processing_unit_internal` when the `error_code` was non-throwing.  The model of that
code (`refuseReturns := false`) accepts the following history, which ends with worker 0 asleep
although the call was refused.  Replayed on the real code by the harness program `refuse`. -/
def buggyCfg : Cfg := { elastic := false, stealing := true, last := 1, refuseReturns := false }

def defectLog : List Ev :=
  [.start 1 0 0, .start 2 1 0, .refuse 9, .slock 9 0, .cas 9 0 rsRunning rsPreSleep, .sunl 9 0,
   .top 0 rsPreSleep, .qlen 1 0 0, .chk 0 rsPreSleep true, .sleep 0, .sdone 9 0 rsSleeping, .ret 9]

theorem C19_refuse_defect_witness :
    ∃ s, runLog step (init buggyCfg) defectLog = some s ∧ (s.wk 0).st = rsSleeping ∧
      (s.wk 0).pc = .stored := by
  refine ⟨_, rfl, ?_, ?_⟩ <;> decide

/-- … and the same history is rejected by the model of the fixed tree -/
theorem C19_refuse_fixed_rejects :
    runLog step (init { buggyCfg with refuseReturns := true }) defectLog = none := by decide

/-! ## Non-vacuity -/

def cfg2 : Cfg := { elastic := true, stealing := true, last := 1, refuseReturns := true }

/-- two workers start; actor 7 places a task on worker 0 under the pu mutex; actor 9 suspends
    worker 0, which drains its queue, sleeps, and is resumed through the lost-notify window -/
def exampleLog : List Ev :=
  [.start 1 0 0, .start 2 1 0,
   .sel 7 0 rsRunning rsSuspended true true, .inc 7 0, .unl 7 0,
   .slock 9 0, .cas 9 0 rsRunning rsPreSleep, .sunl 9 0,
   .top 0 rsPreSleep, .dec 1 0, .top 0 rsPreSleep, .qlen 1 0 0, .chk 0 rsPreSleep true,
   .sel 7 0 rsPreSleep rsSuspended true false, .sel 7 1 rsRunning rsSuspended true true, .inc 7 1, .unl 7 1,
   .sleep 0, .sdone 9 0 rsSleeping,
   .notify 8 0, .rload 8 0 rsSleeping, .wait 0, .notify 8 0, .woke 0, .wake 0 rsSleeping rsRunning,
   .rload 8 0 rsRunning, .dec 2 1]

example : (runLog step (init cfg2) exampleLog).isSome = true := by decide

/-- a state satisfying the hypotheses of `C19_no_strand`'s second alternative with `late > 0`: a
    placement hinted to a sleeping worker after escalation -/
example : ∃ s, runLog step (init cfg2)
    [.start 1 0 0, .slock 9 0, .cas 9 0 rsRunning rsPreSleep, .sunl 9 0, .top 0 rsPreSleep, .qlen 1 0 0,
     .chk 0 rsPreSleep true, .sleep 0, .sel 7 0 rsSleeping rsSleeping true true, .inc 7 0, .unl 7 0] = some s ∧
    (s.wk 0).q = 1 ∧ (s.wk 0).late = 1 ∧ (s.wk 0).st = rsSleeping := by
  refine ⟨_, rfl, ?_, ?_, ?_⟩ <;> decide

/-- a state satisfying the hypotheses of `C19_refused_window` -/
example : ∃ s, runLog step (init cfg2) [.start 1 0 0, .refuse 9] = some s ∧ s.apc 9 = .refused ∧ NoSusp s 9 := by
  refine ⟨_, rfl, by decide, ?_⟩
  intro w
  simp only [init, upd]
  split <;> simp

end PikaVerif.C19
