import PikaVerif.Lemmas.SharedLife
import PikaVerif.Props.C03
/-!
# C03 — lifetime clauses for the shared-state adaptors (split / split_tuple / ensure_started)

"Nothing is signalled after the operation state may be destroyed, and every object stored by the
operation is destroyed exactly once", for the reference-counted shared state.

`PikaVerif.SharedLife.step` (Model/SharedLife.lean) layers ownership on the protocol acceptor
`PikaVerif.Shared.step`: the list `holders` of live `intrusive_ptr`s (the handle, each consumer's sender,
each consumer's operation state, the predecessor's receiver), the reference count = its length (every
count logged by the hooks `sh.ref` / `sh.unref` in `intrusive_ptr_add_ref` / `intrusive_ptr_release` is
compared with it), the flag `freed` / counter `nfree` set by the release that reaches zero (hook
`sh.free` at the deallocation), and the flag `uaf` raised by any event that reads or writes the shared
state after `freed`.  The acceptor never refuses such an event: that it cannot happen is the theorem.

All theorems quantify over every configuration (`kind` split / split_tuple / ensure_started, repaired or
pinned treatment of stopped, self-deleting or leaked consumers, any set of consumer senders, with or
without a surviving handle) with `rcvHolds = true` (the predecessor's receiver holds an `intrusive_ptr`:
split, ensure_started, repaired split_tuple) and every accepted log (every interleaving, any number of
threads and consumers).  `rcvHolds = false` is the PINNED split_tuple, for which (a) fails.
-/
namespace PikaVerif.C03
open PikaVerif PikaVerif.Shared PikaVerif.SharedLife

def LReach (c : SharedLife.Cfg) (s : SharedLife.St) : Prop :=
  ∃ log, runLog SharedLife.step (SharedLife.init c) log = some s

/-- The protocol state underneath a reachable state of the ownership model is a reachable state of the
    protocol model: every Stage-2 theorem of `Props/C03.lean` (`C03_split_each_consumer_once`,
    `C03_split_progress`, …) applies to `s.b`. -/
theorem C03_shared_life_refines (c : SharedLife.Cfg) (s : SharedLife.St) (hr : LReach c s) :
    SReach s.b := by
  obtain ⟨log, hl⟩ := hr
  exact ⟨c.kind, c.stores, log.flatMap SharedLife.Ev.proj, runLog_proj _ _ log hl⟩

/-- (a) No event of any thread touches the shared state after it was freed (`uaf = false`), because
    every thread whose program counter is inside `add_continuation` (from `start()` to the completion
    of its own receiver or to the release of the lock after storing the continuation) is covered by the
    reference of its own operation state, every thread inside the predecessor's receiver call
    (`set_value/error/stopped` → `set_predecessor_done` incl. the continuation loop; stage < finished)
    is covered by the reference of the receiver on its stack, and while any reference exists the state
    is not freed. -/
theorem C03_shared_no_touch_after_release (c : SharedLife.Cfg) (hc : c.rcvHolds = true)
    (s : SharedLife.St) (hr : LReach c s) :
    s.uaf = false ∧
    (∀ t k, (consOf (s.b.pc t) = some k ∨ s.b.pc t = .pushed k) → Ref.ops k ∈ s.holders) ∧
    (∀ t, isProd (s.b.pc t) = true → s.b.pst.rank < 6 → Ref.rcv ∈ s.holders) ∧
    (∀ r, r ∈ s.holders → s.freed = false) := by
  obtain ⟨log, hl⟩ := hr
  have hi := lfinv_of_accepted hc hl
  have hrh : s.rcvHolds = true := by
    have : ∀ (l : List SharedLife.Ev) (s0 s1 : SharedLife.St), runLog SharedLife.step s0 l = some s1 →
        s1.rcvHolds = s0.rcvHolds := by
      intro l
      induction l with
      | nil => intro s0 s1 h; simp at h; subst h; rfl
      | cons e es ih =>
        intro s0 s1 h
        simp only [runLog] at h
        cases hs : SharedLife.step s0 e with
        | none => simp [hs] at h
        | some s2 =>
          simp only [hs] at h
          rw [ih s2 s1 h]
          cases e with
          | base e =>
            simp only [SharedLife.step] at hs; split at hs
            · unfold baseStep at hs; split at hs
              · simp only [Option.some.injEq] at hs; subst hs; rfl
              · simp at hs
            · simp at hs
          | consumeCopy t k n =>
            simp only [SharedLife.step] at hs; split at hs
            · unfold baseStep at hs; split at hs
              · simp only [Option.some.injEq] at hs; subst hs; rfl
              · simp at hs
            · simp at hs
          | rcvDel t k r n fr =>
            simp only [SharedLife.step] at hs; split at hs
            · split at hs
              · rename_i s3 hs3
                unfold baseStep at hs3; split at hs3
                · simp only [Option.some.injEq] at hs3; subst hs3
                  unfold release at hs; split at hs
                  · simp only [Option.some.injEq] at hs; subst hs; rfl
                  · simp at hs
                · simp at hs3
              · simp at hs
            · simp at hs
          | discard t k n fr =>
            simp only [SharedLife.step] at hs; split at hs
            · unfold release at hs; split at hs
              · simp only [Option.some.injEq] at hs; subst hs; rfl
              · simp at hs
            · simp at hs
          | unrefR t n fr =>
            simp only [SharedLife.step] at hs; split at hs
            · unfold release at hs; split at hs
              · simp only [Option.some.injEq] at hs; subst hs; rfl
              · simp at hs
            · simp at hs
    rw [this log _ _ hl]; exact hc
  refine ⟨hi.core.noUaf hrh, ?_, ?_, fun r hm => not_freed_of_mem hi.core hm⟩
  · intro t k h
    rcases h with h | h
    · exact hi.cov.consHold t k h
    · exact hi.cov.queuedHold k (hi.core.xinv.pushedQ t k h)
  · intro t _ hlt
    exact hi.cov.rcvHold hrh hlt

/-- (b) The shared state is freed at most once, exactly when the reference count reaches zero; and in
    every final state (all threads idle or finished) of a run with self-deleting consumers in which the
    predecessor completed and neither the handle nor any consumer's unconnected sender is left (every
    sender was connected and started, or discarded), it has been freed exactly once and no reference
    is left. -/
theorem C03_shared_destroyed_exactly_once (c : SharedLife.Cfg) (hc : c.rcvHolds = true)
    (s : SharedLife.St) (hr : LReach c s) :
    s.nfree ≤ 1 ∧ (s.freed = true ↔ s.nfree = 1) ∧ (s.freed = true ↔ s.rc = 0) ∧
    ((∀ t, s.b.pc t = .idle ∨ s.b.pc t = .fin) → s.selfdel = true → s.b.sig ≠ none →
      (∀ r, r ∈ s.holders → r ≠ Ref.handle ∧ ∀ k, r ≠ Ref.snd k) →
      s.freed = true ∧ s.nfree = 1 ∧ s.holders = []) := by
  obtain ⟨log, hl⟩ := hr
  have hi := lfinv_of_accepted hc hl
  have hn := hi.core.nfreeEq
  have h1 : s.nfree ≤ 1 := by rw [hn]; split <;> simp
  have h2 : s.freed = true ↔ s.nfree = 1 := by rw [hn]; cases s.freed <;> simp
  have h3 : s.freed = true ↔ s.rc = 0 := by
    rw [hi.core.freedIff, St.rc, List.eq_nil_iff_length_eq_zero]
  refine ⟨h1, h2, h3, ?_⟩
  intro hq hsd hsig hno
  have hpst : s.b.pst ≠ .none := fun h => hsig (hi.core.full.sinv.sigNone.mpr h)
  have hnp : ∀ t, isProd (s.b.pc t) = false := by
    intro t; rcases hq t with h | h <;> simp [h, isProd]
  have hfin : s.b.pst = .finished := by
    cases hp : s.b.pst with
    | finished => rfl
    | _ =>
      have := hi.core.full.inv.prodActive hpst (by rw [hp]; simp)
      rw [hnp] at this; simp at this
  have hnil : s.holders = [] := by
    apply List.eq_nil_iff_forall_not_mem.mpr
    intro r hm
    cases r with
    | handle => exact (hno _ hm).1 rfl
    | snd k => exact (hno _ hm).2 k rfl
    | rcv =>
      rcases hi.cov.rcvJust hm with h | h
      · exact hpst h
      · rw [hnp] at h; simp at h
    | ops k =>
      rcases hi.cov.opsJust k hm with h | h | ⟨h, _⟩
      · have := hi.core.full.pinv.activeCons k h
        rcases hq (s.b.owner k) with h' | h' <;> simp [h', consOf] at this
      · have hk := (hi.core.full.cinv.contsQ k).mpr h
        have := hi.core.full.inv.finishedEmpty hfin
        rw [this] at hk; simp at hk
      · rw [hsd] at h; simp at h
  have hf := hi.core.freedIff.mpr hnil
  exact ⟨hf, h2.mp hf, hnil⟩

/-! ### (c) the pinned `split_tuple`

`split_tuple_receiver` of the pinned tree holds `shared_state&`, not an `intrusive_ptr`
(`rcvHolds = false`).  The schedule of `findings/C03-split-tuple-touch-after-release.case`: consumer 1
reads `predecessor_done = false`; element 0's sender is discarded; the predecessor completes (error 8)
on thread 0, sets the flag, takes and releases the lock; consumer 1 takes the lock, sees the flag, is
completed inline, its self-deleting operation state releases the last reference → the state is freed;
thread 0, still inside `set_predecessor_done`, reads `continuations` (`sh.run`). -/

def pinnedTuple : SharedLife.Cfg :=
  { kind := .tuple, stores := true, rcvHolds := false, selfdel := true, handle := false, snds := [0, 1] }

def pinnedTupleLog : List SharedLife.Ev :=
  [.base (.invConsume 1 1), .base (.seen1 1 false), .discard 0 0 1 false,
   .base (.invComplete 0 ⟨2, 8⟩), .base (.fire 0 ⟨2, 8⟩), .base (.flag 0 2), .base (.slAcq 0),
   .base (.slRel 0), .base (.slAcq 1), .base (.seen2 1 true), .base (.slRel 1),
   .rcvDel 1 1 (.error 8) 0 true, .base (.ret 1), .base (.tdone 1), .base (.run 0 2)]

/-- The pinned `split_tuple` violates (a): the log is accepted, the state is freed (once) by the
    consumer's completion, and the predecessor's thread touches it afterwards. -/
theorem C03_split_tuple_pinned_touch_after_release :
    (runLog SharedLife.step (SharedLife.init pinnedTuple) pinnedTupleLog).map
      (fun s => (s.freed, s.nfree, s.uaf, isProd (s.b.pc 0), s.b.pst)) =
    some (true, 1, true, true, .finished) := by decide

/-- The repaired tree on the same schedule (the receiver's reference is the last one): accepted, no
    touch after release, freed exactly once when the receiver call returns. -/
example : (runLog SharedLife.step (SharedLife.init { pinnedTuple with rcvHolds := true })
    [.base (.invConsume 1 1), .base (.seen1 1 false), .discard 0 0 2 false,
     .base (.invComplete 0 ⟨2, 8⟩), .base (.fire 0 ⟨2, 8⟩), .base (.flag 0 2), .base (.slAcq 0),
     .base (.slRel 0), .base (.slAcq 1), .base (.seen2 1 true), .base (.slRel 1),
     .rcvDel 1 1 (.error 8) 1 false, .base (.ret 1), .base (.tdone 1), .base (.run 0 2),
     .unrefR 0 0 true, .base (.ret 0), .base (.tdone 0)]).map
      (fun s => (s.freed, s.nfree, s.uaf, s.holders)) = some (true, 1, false, []) := by decide

/-- Non-vacuity for `split` with a surviving handle and a leaked operation state (the default harness
    mode): the consumer copies the handle; nothing is freed. -/
example : (runLog SharedLife.step (SharedLife.init
      { kind := .split, stores := true, rcvHolds := true, selfdel := false, handle := true, snds := [] })
    [.base (.invComplete 0 ⟨0, 4⟩), .base (.ret 0), .consumeCopy 1 0 3, .base (.fire 1 ⟨0, 4⟩),
     .base (.flag 1 3), .base (.slAcq 1), .base (.slRel 1), .base (.run 1 0), .unrefR 1 2 false,
     .base (.seen1 1 true), .base (.rcv 1 0 (.value 4)), .base (.ret 1)]).map
      (fun s => (s.freed, s.uaf, s.rc)) = some (false, false, 2) := by decide

end PikaVerif.C03
