import PikaVerif.Props.C17Index
/-!
# C17 (follow-up C17t) — solo termination of `contiguous_index_queue::pop_left/pop_right`

Model `PikaVerif.IQ` (`Model/IndexQueue.lean`).  From EVERY reachable state — other threads may be
stalled between their load and their `compare_exchange_weak`, holding stale copies of the range —
a thread between operations that runs a pop **alone** finishes after one load and **one CAS
attempt** (4 events: `inv`, `load`, `cas` = success, `ret`) with the first / last index of the
range, which is removed; on an empty range it returns `nullopt` after the load without any CAS
(3 events).  The other threads are untouched.  (`compare_exchange_weak` is modelled without
spurious failures, as in the rest of the index-queue model.)  This strengthens
`C17Index.pop_succeeds_when_quiescent` (acceptance only) by the resulting state and the empty case.
-/
namespace PikaVerif.C17Index
open PikaVerif PikaVerif.IQ

/-- **Solo pop on a non-empty index queue: one CAS attempt, the end index is returned.** -/
theorem C17_index_solo_pop_nonempty (n : Nat) (f l : Int) (s : St) (h : Reachable n f l s)
    (t : Nat) (ht : t < n) (hq : s.pc t = .idle) (hne : s.first < s.last) :
    (∃ s', runLog step s [.inv t .L, .load t s.first s.last, .cas t true (s.first + 1) s.last,
          .ret t (some s.first)] = some s' ∧
        s'.pc t = .idle ∧ (∀ u, u ≠ t → s'.pc u = s.pc u) ∧ s'.first = s.first + 1 ∧
        s'.last = s.last ∧ s'.poppedL = s.first :: s.poppedL ∧ s'.poppedR = s.poppedR) ∧
    (∃ s', runLog step s [.inv t .R, .load t s.first s.last, .cas t true s.first (s.last - 1),
          .ret t (some (s.last - 1))] = some s' ∧
        s'.pc t = .idle ∧ (∀ u, u ≠ t → s'.pc u = s.pc u) ∧ s'.first = s.first ∧
        s'.last = s.last - 1 ∧ s'.poppedL = s.poppedL ∧ s'.poppedR = (s.last - 1) :: s.poppedR) := by
  obtain ⟨h0, h1, h2, log, hl⟩ := h
  have hi := inv_of_accepted h0 h1 h2 hl
  obtain ⟨hn, _, _⟩ := (retd_frame_of_accepted hl).2
  have ht' : t < s.n := by rw [hn]; exact ht
  have a := hi.lo; have b := hi.hi; have c := hi.f0; have d := hi.fl; have e := hi.l0
  have eL := popLeftTry_exact s.first s.last (by omega) (by omega) (by omega) (by omega)
  have eR := popRightTry_exact s.first s.last (by omega) (by omega) (by omega) (by omega)
  simp only [hne, if_true] at eL eR
  constructor
  · simp [runLog, step, ht', hq, popTry, eL, pushPop]
    intro u hu; simp [upd, hu]
  · simp [runLog, step, ht', hq, popTry, eR, pushPop]
    intro u hu; simp [upd, hu]

/-- **Solo pop on an empty index queue returns `nullopt`** after the load, without a CAS, and
    changes nothing. -/
theorem C17_index_solo_pop_empty (n : Nat) (f l : Int) (s : St) (h : Reachable n f l s)
    (t : Nat) (ht : t < n) (hq : s.pc t = .idle) (he : ¬ s.first < s.last) (sd : Side) :
    ∃ s', runLog step s [.inv t sd, .load t s.first s.last, .ret t none] = some s' ∧
      s'.pc t = .idle ∧ (∀ u, u ≠ t → s'.pc u = s.pc u) ∧ s'.first = s.first ∧
      s'.last = s.last ∧ s'.poppedL = s.poppedL ∧ s'.poppedR = s.poppedR := by
  obtain ⟨h0, h1, h2, log, hl⟩ := h
  have hi := inv_of_accepted h0 h1 h2 hl
  obtain ⟨hn, _, _⟩ := (retd_frame_of_accepted hl).2
  have ht' : t < s.n := by rw [hn]; exact ht
  have a := hi.lo; have b := hi.hi; have c := hi.f0; have d := hi.fl; have e := hi.l0
  have eL := popLeftTry_exact s.first s.last (by omega) (by omega) (by omega) (by omega)
  have eR := popRightTry_exact s.first s.last (by omega) (by omega) (by omega) (by omega)
  simp only [he, if_false] at eL eR
  cases sd
  · simp [runLog, step, ht', hq, popTry, eL]
    intro u hu; simp [upd, hu]
  · simp [runLog, step, ht', hq, popTry, eR]
    intro u hu; simp [upd, hu]

/-! ## Non-vacuity: thread 1 loaded the range `[3, 5)` for a `pop_right` and stalled before its
CAS; thread 0 then pops alone. -/

def stalledIq : List Ev := [.inv 1 .R, .load 1 3 5]

example : (runLog step (init 2 3 5) (stalledIq ++ [.inv 0 .L, .load 0 3 5, .cas 0 true 4 5, .ret 0 (some 3)])).map
    (fun s => (s.pc 0, s.pc 1, s.first, s.last, s.poppedL)) =
    some (.idle, .loaded .R 3 5, 4, 5, [3]) := by decide +kernel

example (s : St) (h : runLog step (init 2 3 5) stalledIq = some s) :
    ∃ s', runLog step s [.inv 0 .L, .load 0 s.first s.last, .cas 0 true (s.first + 1) s.last,
          .ret 0 (some s.first)] = some s' ∧
        s'.pc 0 = .idle ∧ (∀ u, u ≠ 0 → s'.pc u = s.pc u) ∧ s'.first = s.first + 1 ∧
        s'.last = s.last ∧ s'.poppedL = s.first :: s.poppedL ∧ s'.poppedR = s.poppedR := by
  have hm : (runLog step (init 2 3 5) stalledIq).map (fun s => (s.pc 0, s.first, s.last)) =
      some (.idle, 3, 5) := by decide +kernel
  rw [h] at hm
  simp at hm
  exact (C17_index_solo_pop_nonempty 2 3 5 s ⟨by omega, by omega, by omega, stalledIq, h⟩ 0 (by omega)
    hm.1 (by rw [hm.2.1, hm.2.2]; omega)).1

/-- empty queue `[4, 4)` with thread 1 stalled after its load -/
example (s : St) (h : runLog step (init 2 4 4) [.inv 1 .L, .load 1 4 4] = some s) (sd : Side) :
    ∃ s', runLog step s [.inv 0 sd, .load 0 s.first s.last, .ret 0 none] = some s' ∧
      s'.pc 0 = .idle ∧ (∀ u, u ≠ 0 → s'.pc u = s.pc u) ∧ s'.first = s.first ∧
      s'.last = s.last ∧ s'.poppedL = s.poppedL ∧ s'.poppedR = s.poppedR := by
  have hm : (runLog step (init 2 4 4) [.inv 1 .L, .load 1 4 4]).map (fun s => (s.pc 0, s.first, s.last)) =
      some (.idle, 4, 4) := by decide +kernel
  rw [h] at hm
  simp at hm
  exact C17_index_solo_pop_empty 2 4 4 s ⟨by omega, by omega, by omega, _, h⟩ 0 (by omega)
    hm.1 (by rw [hm.2.1, hm.2.2]; omega) sd

end PikaVerif.C17Index
